import NavisModel.Proofs.SwcLemmas
import NavisModel.Proofs.WfB
/-!
# C07 — SWC files round-trip and are valid, parent-first SWC tables

Model: `NavisModel/Model/Swc.lean` (`makeSwcTable` = `navis.io.swc_io.make_swc_table`: stable sort by depth,
re-indexing, parent remap; `parseSwc` / `readBack` = `SwcReader.read_buffer` / `read_dataframe` on the token
level).  All theorems quantify over every node table `sk.nodes` whose forest (ids + parent links) is
well-formed (`WF`, DESIGN §2.4) and every label / connector / metadata option.

History (DESIGN §6 #1, fixed): `make_swc_table` used to order the rows with `sort_values("parent_id")`.  The
theorems prefixed `historical_` are statements about that *former* ordering (`sortByParent`, `IsParentSort`,
`makeSwcTableHist` exist in the model only): they say precisely for which inputs it produced an invalid table.
They are not claims about the current code.
-/
namespace Navis.Props.C07
open Navis.Swc Navis.Forest

/-- The executable validity checker (evaluated by the driver on the rows parsed from navis' file)
decides the specification: ids are `1..N` in row order, a row is a root with parent `-1` or its parent id is
smaller than its id and is the id of an earlier row. -/
theorem swc_valid_iff (s : List SwcRow) : swcValidB s = true ↔ SwcValid s := swcValidB_iff s

/-- **The written table is valid** for every well-formed skeleton (any ids, any row order — rerooted,
shuffled, sparse, forests) and every label option: seven columns by construction, ids `1..N`, roots `-1`,
every parent listed before and numbered lower than its children. -/
theorem table_valid (op : Opts) (sk : Skel) (hw : WF (forest sk.nodes)) :
    swcValidB (makeSwcTable op sk) = true :=
  (swcValidB_iff _).mpr (depthSort_valid _ hw (sortByDepth_perm _) (sortByDepth_sorted _))

/-- Every order that is sorted by depth (any tie-break) yields a valid table. -/
theorem any_depth_order_valid (op : Opts) (sk : Skel) (o : List SNode) (hw : WF (forest sk.nodes))
    (hperm : o.Perm sk.nodes)
    (hsort : o.Pairwise (fun a b => ((depth sk.nodes a.id : Nat) : Int) ≤ ((depth sk.nodes b.id : Nat) : Int))) :
    swcValidB (finish (labelOf op sk) o) = true :=
  (swcValidB_iff _).mpr (depthSort_valid _ hw hperm hsort)

/-! ### historical ordering (`sort_values("parent_id")`, replaced by the fix) -/

/-- HISTORICAL.  For *any* admissible `sort_values("parent_id")` order (stable or not) the table was valid iff
every node that has a child has `parent_id < node_id`. -/
theorem historical_anyParentSort_valid_iff (op : Opts) (sk : Skel) (o : List SNode) (hw : WF (forest sk.nodes))
    (ho : IsParentSort sk.nodes o) :
    swcValidB (finish (labelOf op sk) o) = true ↔
      ∀ p ∈ sk.nodes, (∃ c ∈ sk.nodes, c.parent = p.id) → p.parent < p.id := by
  rw [swcValidB_iff]; exact parentSort_valid_iff _ hw ho

/-- HISTORICAL.  The former `make_swc_table` yielded a valid table iff every node that has a child has
`parent_id < node_id`. -/
theorem historical_sortByParent_valid_iff (op : Opts) (sk : Skel) (hw : WF (forest sk.nodes)) :
    swcValidB (makeSwcTableHist op sk) = true ↔
      ∀ p ∈ sk.nodes, (∃ c ∈ sk.nodes, c.parent = p.id) → p.parent < p.id :=
  historical_anyParentSort_valid_iff op sk _ hw (sortByParent_isParentSort _)

/-- HISTORICAL.  Sufficient condition under which the former ordering was right: ids assigned parent-first
(every `parent_id < node_id`, e.g. the bundled example neurons — which is why the test-suite never noticed). -/
theorem historical_valid_of_id_topological (op : Opts) (sk : Skel) (hw : WF (forest sk.nodes))
    (h : ∀ n ∈ sk.nodes, n.parent < n.id) : swcValidB (makeSwcTableHist op sk) = true :=
  (historical_sortByParent_valid_iff op sk hw).mpr fun p hp _ => h p hp

/-- The 5-node chain `1 ← 2 ← 3 ← 4 ← 5` after `reroot_skeleton(x, 5)` (row order and ids as navis leaves them). -/
def chain5Rerooted : Skel :=
  { nodes := [{ id := 1, parent := 2, type := .end_ }, { id := 2, parent := 3 }, { id := 3, parent := 4 },
              { id := 4, parent := 5 }, { id := 5, parent := -1, type := .root }] }

theorem chain5Rerooted_wf : WF (forest chain5Rerooted.nodes) := (wfB_iff _).mp (by decide)

/-- HISTORICAL counter-example (DESIGN §6 #1): the former ordering wrote an invalid table for the rerooted chain
(row 2 had parent 3) … -/
theorem historical_rerooted_chain5_invalid : swcValidB (makeSwcTableHist {} chain5Rerooted) = false := by decide

/-- HISTORICAL … whatever tie-break the sort used … -/
theorem historical_rerooted_chain5_invalid_any_order (op : Opts) (o : List SNode) (ho : IsParentSort chain5Rerooted.nodes o) :
    swcValidB (finish (labelOf op chain5Rerooted) o) = false := by
  cases h : swcValidB (finish (labelOf op chain5Rerooted) o) with
  | false => rfl
  | true =>
    have := (historical_anyParentSort_valid_iff op chain5Rerooted o chain5Rerooted_wf ho).mp h
      { id := 2, parent := 3 } (by decide) ⟨{ id := 1, parent := 2, type := .end_ }, by decide, rfl⟩
    exact absurd this (by decide)

/-- … while the table written now is valid on it (instance of `table_valid`, here by evaluation). -/
theorem rerooted_chain5_valid : swcValidB (makeSwcTable {} chain5Rerooted) = true := by decide

/-- The node map (`return_node_map=True`) is a bijection from the node ids onto `1..N`. -/
theorem node_map_bijective (sk : Skel) (o : List SNode) (hw : WF (forest sk.nodes)) (hperm : o.Perm sk.nodes) :
    (nodeMapOf o).map (·.1) = nodeIds o ∧ (nodeIds o).Perm (nodeIds sk.nodes) ∧ (nodeIds o).Nodup ∧
    (nodeMapOf o).map (·.2) = (List.range sk.nodes.length).map (fun (j : Nat) => ((j : Nat) : Int) + 1) := by
  have hnd := nodup_of_perm hperm (WF_nodup hw)
  refine ⟨nodeMapOf_fst o, ?_, hnd, ?_⟩
  · unfold nodeIds; exact hperm.map _
  · rw [nodeMapOf_snd hnd, hperm.length_eq]

/-- **Round trip.**  For a well-formed skeleton, any order `o` of the rows the writer may choose, and any
options: reading back the written lines succeeds; the node table has ids `1..N`; and under the node map
`i ↦ newId o i` every original node has exactly one image row with the mapped parent (`-1` for roots), the same
coordinates, its radius (`NaN ↦ 0`) and the label the option prescribes; the map is injective; the header
properties come back. -/
theorem round_trip (cfg : ReadCfg) (wm : WriteMeta) (op : Opts) (sk : Skel) (o : List SNode)
    (hw : WF (forest sk.nodes)) (hperm : o.Perm sk.nodes) :
    ∃ r, readBack cfg (writeWith wm op sk o) = some r ∧
      r.nodes.length = sk.nodes.length ∧
      r.nodes.map (·.id) = (List.range sk.nodes.length).map (fun (j : Nat) => ((j : Nat) : Int) + 1) ∧
      (∀ n ∈ sk.nodes, ∃ row ∈ r.nodes,
        row.id = newId o n.id ∧ 1 ≤ row.id ∧ row.id ≤ sk.nodes.length ∧
        (n.parent < 0 → row.parent = -1) ∧
        (¬ n.parent < 0 → ∃ p ∈ sk.nodes, p.id = n.parent ∧ row.parent = newId o p.id) ∧
        row.x = n.x ∧ row.y = n.y ∧ row.z = n.z ∧ row.radius = some (n.radius.getD 0) ∧
        row.label = labelOf op sk n) ∧
      (∀ a ∈ sk.nodes, ∀ b ∈ sk.nodes, newId o a.id = newId o b.id → a = b) ∧
      r.props = (if cfg.readMeta then (metaProps wm sk).getD [] else []) := by
  have hnd := nodup_of_perm hperm (WF_nodup hw)
  refine ⟨_, readBack_writeWith cfg wm op sk o, ?_, ?_, ?_, ?_, rfl⟩
  · simp [ofFile, hperm.length_eq]
  · have := nodeMapOf_snd hnd
    simp only [ofFile, finish, List.map_map]
    simp only [nodeMapOf, List.map_map] at this
    rw [← hperm.length_eq]; exact this
  · intro n hn
    have hno : n ∈ o := hperm.mem_iff.mpr hn
    refine ⟨rowOf (labelOf op sk) o n, List.mem_map.mpr ⟨n, hno, rfl⟩, rfl, ?_, ?_, ?_, ?_, rfl, rfl, rfl, rfl, rfl⟩
    · exact (newId_range hnd hno).1
    · have := (newId_range hnd hno).2; rw [hperm.length_eq] at this; exact this
    · exact (newId_parent hw hperm hno).1
    · intro h
      obtain ⟨p, hp, hpid, he⟩ := (newId_parent hw hperm hno).2 h
      exact ⟨p, hperm.mem_iff.mp hp, hpid, he⟩
  · intro a ha b hb h
    exact newId_inj hnd (hperm.mem_iff.mpr ha) (hperm.mem_iff.mpr hb) h

/-- The round trip for the file `write_swc` produces. -/
theorem round_trip_as_written (cfg : ReadCfg) (wm : WriteMeta) (op : Opts) (sk : Skel) (hw : WF (forest sk.nodes)) :
    ∃ r, readBack cfg (write wm op sk) = some r ∧ r.nodes = makeSwcTable op sk ∧
      r.nodes.map (·.id) = (List.range sk.nodes.length).map (fun (j : Nat) => ((j : Nat) : Int) + 1) := by
  obtain ⟨r, h1, _, h3, _⟩ := round_trip cfg wm op sk (sortByDepth sk.nodes) hw (sortByDepth_perm _)
  refine ⟨r, h1, ?_, h3⟩
  have := readBack_writeWith cfg wm op sk (sortByDepth sk.nodes)
  unfold write at *
  rw [this] at h1
  injection h1 with h1
  rw [← h1]; rfl

/-- **Soma through the round trip** (`labels=True`, reader's `soma_label = 1`): the soma read back is the
image of a soma node whose label was not overridden by a synapse label, namely the first such node in file
order; and it is found whenever such a node exists. -/
theorem soma_round_trip (cfg : ReadCfg) (wm : WriteMeta) (ex : Bool) (sk : Skel) (o : List SNode)
    (hperm : o.Perm sk.nodes) (hc : cfg.somaLabel = some 1) :
    ∃ r, readBack cfg (writeWith wm { labels := .auto, exportConn := ex } sk o) = some r ∧
      (∀ s, r.soma = some s → ∃ n ∈ sk.nodes, n.id ∈ sk.soma ∧
          (ex = true → n.id ∉ sk.post ∧ n.id ∉ sk.pre) ∧ s = newId o n.id) ∧
      ((∃ n ∈ sk.nodes, n.id ∈ sk.soma ∧ (ex = true → n.id ∉ sk.post ∧ n.id ∉ sk.pre)) → r.soma.isSome = true) := by
  refine ⟨_, readBack_writeWith cfg wm _ sk o, ?_, ?_⟩
  · intro s hs
    simp only [ofFile] at hs
    rw [somaOf_finish _ o 1 cfg hc] at hs
    obtain ⟨n, hf, rfl⟩ := Option.map_eq_some_iff.mp hs
    have hmem := List.mem_of_find?_eq_some hf
    have hp := List.find?_some hf
    simp only [Swc.labelOf, beq_iff_eq, Option.some.injEq] at hp
    have := (autoLabel_eq_soma sk ex n).mp hp
    exact ⟨n, hperm.mem_iff.mp hmem, this.1, this.2, rfl⟩
  · rintro ⟨n, hn, hs, hx⟩
    simp only [ofFile]
    rw [somaOf_finish _ o 1 cfg hc, Option.isSome_map, List.find?_isSome]
    refine ⟨n, hperm.mem_iff.mpr hn, ?_⟩
    simp only [Swc.labelOf, beq_iff_eq, Option.some.injEq]
    exact (autoLabel_eq_soma sk ex n).mpr ⟨hs, hx⟩

/-- **Exported synapse labels through the round trip** (`labels=True, export_connectors=True`, reader's
`connector_labels = {pre: 7, post: 8}`): the postsynapse connectors read back sit exactly on the images of the
nodes carrying a postsynapse, the presynapse connectors exactly on the images of the nodes carrying a presynapse
and no postsynapse (one label per node). -/
theorem synapse_labels_round_trip (cfg : ReadCfg) (wm : WriteMeta) (sk : Skel) (o : List SNode)
    (hperm : o.Perm sk.nodes) (hc : cfg.connLabels = [("pre", 7), ("post", 8)]) :
    ∃ r, readBack cfg (writeWith wm { labels := .auto, exportConn := true } sk o) = some r ∧
      (∀ j, ("post", j) ∈ r.conns ↔ ∃ n ∈ sk.nodes, n.id ∈ sk.post ∧ j = newId o n.id) ∧
      (∀ j, ("pre", j) ∈ r.conns ↔ ∃ n ∈ sk.nodes, n.id ∈ sk.pre ∧ n.id ∉ sk.post ∧ j = newId o n.id) := by
  refine ⟨_, readBack_writeWith cfg wm _ sk o, ?_, ?_⟩
  · intro j
    simp only [ofFile]
    rw [mem_connsOf_finish, hc]
    constructor
    · rintro ⟨v, hv, n, hn, hl, rfl⟩
      simp at hv
      subst hv
      simp only [Swc.labelOf, Option.some.injEq] at hl
      exact ⟨n, hperm.mem_iff.mp hn, (autoLabel_eq_post sk n).mp hl, rfl⟩
    · rintro ⟨n, hn, hp, rfl⟩
      exact ⟨8, by simp, n, hperm.mem_iff.mpr hn, by simp only [Swc.labelOf]; exact congrArg some ((autoLabel_eq_post sk n).mpr hp), rfl⟩
  · intro j
    simp only [ofFile]
    rw [mem_connsOf_finish, hc]
    constructor
    · rintro ⟨v, hv, n, hn, hl, rfl⟩
      simp at hv
      subst hv
      simp only [Swc.labelOf, Option.some.injEq] at hl
      have := (autoLabel_eq_pre sk n).mp hl
      exact ⟨n, hperm.mem_iff.mp hn, this.1, this.2, rfl⟩
    · rintro ⟨n, hn, hp, hq, rfl⟩
      exact ⟨7, by simp, n, hperm.mem_iff.mpr hn, by simp only [Swc.labelOf]; exact congrArg some ((autoLabel_eq_pre sk n).mpr ⟨hp, hq⟩), rfl⟩

/-- **Header metadata** (`write_meta=True`, `read_meta=True`): units and id come back as the text written. -/
theorem meta_round_trip (cfg : ReadCfg) (op : Opts) (sk : Skel) (o : List SNode) (hm : cfg.readMeta = true) :
    ∃ r, readBack cfg (writeWith .default op sk o) = some r ∧
      metaGet r.props "units" = some (attrOf sk "units") ∧ metaGet r.props "id" = some (attrOf sk "id") ∧
      metaGet r.props "name" = some (attrOf sk "name") := by
  refine ⟨_, readBack_writeWith cfg .default op sk o, ?_, ?_, ?_⟩ <;>
    simp [ofFile, hm, metaProps, metaGet, List.find?, Gen.Swc.metaKeys]

/-- Without a meta line (`write_meta=False`) nothing is restored. -/
theorem no_meta_round_trip (cfg : ReadCfg) (op : Opts) (sk : Skel) (o : List SNode) :
    ∃ r, readBack cfg (writeWith .off op sk o) = some r ∧ r.props = [] := by
  refine ⟨_, readBack_writeWith cfg .off op sk o, ?_⟩
  simp [ofFile, metaProps]

/-! ### rows with missing data (`sanitise_nodes`, DESIGN §6 #15, fixed) -/

/-- Reading never fails because of a NaN in a key column: with enough columns the parser always returns a
table, whose ids are those of the complete rows in file order. -/
theorem nan_rows_dropped (ls : List Line) (hc : columnsOK (dataRows ls) = true) :
    ∃ f, parseSwc ls = some f ∧
      f.rows.map (·.id) = (keptRows ((dataRows ls).map parseRow)).map (·.id) := by
  refine ⟨_, by unfold parseSwc; rw [if_pos hc], ?_⟩
  exact sanitiseRows_ids _

/-- If a row was dropped, no remaining row refers to a missing parent: its parent is `-1` or a remaining id. -/
theorem nan_rows_orphans_rerooted (rs : List (Option SwcRow)) (hdrop : (keptRows rs).length ≠ rs.length) :
    ∀ r ∈ sanitiseRows rs, r.parent = -1 ∨ r.parent ∈ (sanitiseRows rs).map (·.id) :=
  sanitiseRows_no_dangling rs hdrop

/-- Without missing data the table is taken as it is. -/
theorem complete_rows_unchanged (l : List SwcRow) : sanitiseRows (l.map some) = l := sanitiseRows_map_some l

/-! ### obligations over the definitions regenerated from the current source (`Gen/Swc.lean`) -/

/-- The writer selects, and the reader names, the seven SWC columns in the order `PointNo Label X Y Z Radius Parent`. -/
theorem gen_columns : Gen.Swc.columnOrder = ["node_id", "label", "x", "y", "z", "radius", "parent_id"] ∧
    Gen.Swc.nodeColumns = Gen.Swc.columnOrder := ⟨rfl, rfl⟩

/-- The sort the model calls `sortByDepth` (stable, ascending, on the column computed by `_node_depths` whose
loop has the recognised shape "root 0, child = parent + 1"); the new ids start at 1; a missing parent becomes -1. -/
theorem gen_reindex : Gen.Swc.sortColumn = "_depth" ∧ Gen.Swc.sortAscending = true ∧ Gen.Swc.sortKind = "stable" ∧
    Gen.Swc.sortKeySource = "_node_depths(swc.node_id.values, swc.parent_id.values)" ∧
    Gen.Swc.depthRule = "root=0;child=parent+1" ∧ Gen.Swc.firstId = 1 ∧
    Gen.Swc.missingParent = -1 := ⟨rfl, rfl, rfl, rfl, rfl, rfl, rfl⟩

/-- The radius column is written from the radius column, NaN filled with 0 (the model's `getD 0`). -/
theorem gen_radius : Gen.Swc.radiusSource = "swc.radius" ∧ Gen.Swc.radiusFill = 0 := ⟨rfl, rfl⟩

/-- The reader's default soma label is the code the writer gives the soma; labels are read as a category
(never as floats); the label codes are pairwise distinct (so no rule masks another by accident). -/
theorem gen_labels : Gen.Swc.readerSomaLabel = Gen.Swc.lblSoma ∧ Gen.Swc.readerLabelDtype = "category" ∧
    [Gen.Swc.lblUndefined, Gen.Swc.lblSoma, Gen.Swc.lblBranch, Gen.Swc.lblEnd, Gen.Swc.lblPre, Gen.Swc.lblPost].Nodup :=
  ⟨rfl, rfl, by decide⟩

/-- `write_meta=True` writes id, name and units behind the prefix the reader looks for (`# meta:` case-insensitively). -/
theorem gen_meta : Gen.Swc.metaKeys = ["id", "name", "units"] ∧ Gen.Swc.metaPrefix = "# Meta: " := ⟨rfl, rfl⟩

/-! ### non-vacuity: concrete inputs meeting the hypotheses -/

/-- A forest with shuffled ids, a branch point, a soma, synapses, a NaN radius. -/
def demo : Skel :=
  { nodes := [{ id := 25, parent := 98, type := .branch }, { id := 111, parent := 25, type := .end_, radius := none },
              { id := 167, parent := -1, type := .root }, { id := 125, parent := 167, type := .end_ },
              { id := 98, parent := -1, type := .root }, { id := 8, parent := 25, type := .end_ }],
    soma := [125], hasConn := true, pre := [25, 8], post := [25] }

example : WF (forest demo.nodes) := (wfB_iff _).mp (by decide)
example : swcValidB (makeSwcTable {} demo) = true := by decide
example : IsParentSort demo.nodes (sortByParent demo.nodes) := sortByParent_isParentSort _
-- historical: the condition of `historical_sortByParent_valid_iff` fails on `demo` (node 25 has children and parent 98 > 25) …
example : swcValidB (makeSwcTableHist {} demo) = false := by decide
-- … and holds on a parent-first labelled table
def demoSeq : Skel := { nodes := [{ id := 1, parent := -1, type := .root }, { id := 2, parent := 1 }, { id := 3, parent := 2, type := .end_ }] }
example : WF (forest demoSeq.nodes) := (wfB_iff _).mp (by decide)
example : ∀ n ∈ demoSeq.nodes, n.parent < n.id := by decide
example : swcValidB (makeSwcTableHist {} demoSeq) = true := by decide
example : swcValidB (makeSwcTable {} demoSeq) = true := by decide
-- a dropped row: row 2 has no x; its child 3 becomes a root
example : sanitiseRows [some ⟨1, some 0, 0, 0, 0, none, -1⟩, none, some ⟨3, some 0, 0, 0, 0, none, 2⟩, some ⟨4, some 0, 0, 0, 0, none, 1⟩]
    = [⟨1, some 0, 0, 0, 0, none, -1⟩, ⟨3, some 0, 0, 0, 0, none, -1⟩, ⟨4, some 0, 0, 0, 0, none, 1⟩] := by decide
-- soma / synapse hypotheses are satisfiable: node 125 is a soma without synapse, 25 carries pre + post, 8 only pre
example : ∃ n ∈ demo.nodes, n.id ∈ demo.soma ∧ ((true = true) → n.id ∉ demo.post ∧ n.id ∉ demo.pre) := by decide
example : (makeSwcTable { exportConn := true } demo).map (·.label) = [some 0, some 0, some 8, some 1, some 6, some 7] := by decide
example : nodeMap demo = [(167, 1), (98, 2), (25, 3), (125, 4), (111, 5), (8, 6)] := by decide

end Navis.Props.C07
