import NavisModel.Proofs.SwcLemmas
import NavisModel.Proofs.SwcTextLemmas
import NavisModel.Proofs.SwcDepthLemmas
import NavisModel.Proofs.SwcFmtLemmas
import NavisModel.Proofs.WfB
/-!
# C07 — SWC files round-trip and are valid, parent-first SWC tables

Model: `NavisModel/Model/Swc.lean` (`makeSwcTable` = `navis.io.swc_io.make_swc_table`: stable sort by depth,
re-indexing, parent remap; `parseSwc` / `readBack` = `SwcReader.read_buffer` / `read_dataframe` on the token
level).  All theorems quantify over every node table `sk.nodes` whose forest (ids + parent links) is
well-formed (`WF`, DESIGN §2.4) and every label / connector / metadata option.

History (DESIGN §6 #1, fixed): `make_swc_table` used to order the rows with `sort_values("parent_id")`.  The
theorems prefixed `historical_` are statements about that *former* ordering (`sortByParent`, `IsParentSort`,
`makeSwcTableHist` exist in the model only): they say precisely for which inputs it produced an invalid table.
They are not claims about the current code.
-/
namespace Navis.Props.C07
open Navis.Swc Navis.Forest Navis.SwcText

/-- The executable validity checker (evaluated by the driver on the rows parsed from navis' file)
decides the specification: ids are `1..N` in row order, a row is a root with parent `-1` or its parent id is
smaller than its id and is the id of an earlier row. -/
theorem swc_valid_iff (s : List SwcRow) : swcValidB s = true ↔ SwcValid s := swcValidB_iff s

/-- **The written table is valid** for every well-formed skeleton (any ids, any row order — rerooted,
shuffled, sparse, forests) and every label option: seven columns by construction, ids `1..N`, roots `-1`,
every parent listed before and numbered lower than its children. -/
theorem table_valid (op : Opts) (sk : Skel) (hw : WF (forest sk.nodes)) :
    swcValidB (makeSwcTable op sk) = true :=
  (swcValidB_iff _).mpr (depthSort_valid _ hw (sortByDepth_perm _) (sortByDepth_sorted _))

/-- Every order that is sorted by depth (any tie-break) yields a valid table. -/
theorem any_depth_order_valid (op : Opts) (sk : Skel) (o : List SNode) (hw : WF (forest sk.nodes))
    (hperm : o.Perm sk.nodes)
    (hsort : o.Pairwise (fun a b => ((depth sk.nodes a.id : Nat) : Int) ≤ ((depth sk.nodes b.id : Nat) : Int))) :
    swcValidB (finish (labelOf op sk) o) = true :=
  (swcValidB_iff _).mpr (depthSort_valid _ hw hperm hsort)

/-! ### historical ordering (`sort_values("parent_id")`, replaced by the fix) -/

/-- HISTORICAL.  For *any* admissible `sort_values("parent_id")` order (stable or not) the table was valid iff
every node that has a child has `parent_id < node_id`. -/
theorem historical_anyParentSort_valid_iff (op : Opts) (sk : Skel) (o : List SNode) (hw : WF (forest sk.nodes))
    (ho : IsParentSort sk.nodes o) :
    swcValidB (finish (labelOf op sk) o) = true ↔
      ∀ p ∈ sk.nodes, (∃ c ∈ sk.nodes, c.parent = p.id) → p.parent < p.id := by
  rw [swcValidB_iff]; exact parentSort_valid_iff _ hw ho

/-- HISTORICAL.  The former `make_swc_table` yielded a valid table iff every node that has a child has
`parent_id < node_id`. -/
theorem historical_sortByParent_valid_iff (op : Opts) (sk : Skel) (hw : WF (forest sk.nodes)) :
    swcValidB (makeSwcTableHist op sk) = true ↔
      ∀ p ∈ sk.nodes, (∃ c ∈ sk.nodes, c.parent = p.id) → p.parent < p.id :=
  historical_anyParentSort_valid_iff op sk _ hw (sortByParent_isParentSort _)

/-- HISTORICAL.  Sufficient condition under which the former ordering was right: ids assigned parent-first
(every `parent_id < node_id`, e.g. the bundled example neurons — which is why the test-suite never noticed). -/
theorem historical_valid_of_id_topological (op : Opts) (sk : Skel) (hw : WF (forest sk.nodes))
    (h : ∀ n ∈ sk.nodes, n.parent < n.id) : swcValidB (makeSwcTableHist op sk) = true :=
  (historical_sortByParent_valid_iff op sk hw).mpr fun p hp _ => h p hp

/-- The 5-node chain `1 ← 2 ← 3 ← 4 ← 5` after `reroot_skeleton(x, 5)` (row order and ids as navis leaves them). -/
def chain5Rerooted : Skel :=
  { nodes := [{ id := 1, parent := 2, type := .end_ }, { id := 2, parent := 3 }, { id := 3, parent := 4 },
              { id := 4, parent := 5 }, { id := 5, parent := -1, type := .root }] }

theorem chain5Rerooted_wf : WF (forest chain5Rerooted.nodes) := (wfB_iff _).mp (by decide)

/-- HISTORICAL counter-example (DESIGN §6 #1): the former ordering wrote an invalid table for the rerooted chain
(row 2 had parent 3) … -/
theorem historical_rerooted_chain5_invalid : swcValidB (makeSwcTableHist {} chain5Rerooted) = false := by decide

/-- HISTORICAL … whatever tie-break the sort used … -/
theorem historical_rerooted_chain5_invalid_any_order (op : Opts) (o : List SNode) (ho : IsParentSort chain5Rerooted.nodes o) :
    swcValidB (finish (labelOf op chain5Rerooted) o) = false := by
  cases h : swcValidB (finish (labelOf op chain5Rerooted) o) with
  | false => rfl
  | true =>
    have := (historical_anyParentSort_valid_iff op chain5Rerooted o chain5Rerooted_wf ho).mp h
      { id := 2, parent := 3 } (by decide) ⟨{ id := 1, parent := 2, type := .end_ }, by decide, rfl⟩
    exact absurd this (by decide)

/-- … while the table written now is valid on it (instance of `table_valid`, here by evaluation). -/
theorem rerooted_chain5_valid : swcValidB (makeSwcTable {} chain5Rerooted) = true := by decide

/-- The node map (`return_node_map=True`) is a bijection from the node ids onto `1..N`. -/
theorem node_map_bijective (sk : Skel) (o : List SNode) (hw : WF (forest sk.nodes)) (hperm : o.Perm sk.nodes) :
    (nodeMapOf o).map (·.1) = nodeIds o ∧ (nodeIds o).Perm (nodeIds sk.nodes) ∧ (nodeIds o).Nodup ∧
    (nodeMapOf o).map (·.2) = (List.range sk.nodes.length).map (fun (j : Nat) => ((j : Nat) : Int) + 1) := by
  have hnd := nodup_of_perm hperm (WF_nodup hw)
  refine ⟨nodeMapOf_fst o, ?_, hnd, ?_⟩
  · unfold nodeIds; exact hperm.map _
  · rw [nodeMapOf_snd hnd, hperm.length_eq]

/-- **Round trip.**  For a well-formed skeleton, any order `o` of the rows the writer may choose, and any
options: reading back the written lines succeeds; the node table has ids `1..N`; and under the node map
`i ↦ newId o i` every original node has exactly one image row with the mapped parent (`-1` for roots), the same
coordinates, its radius (`NaN ↦ 0`) and the label the option prescribes; the map is injective; the header
properties come back. -/
theorem round_trip (cfg : ReadCfg) (wm : WriteMeta) (op : Opts) (sk : Skel) (o : List SNode)
    (hw : WF (forest sk.nodes)) (hperm : o.Perm sk.nodes) :
    ∃ r, readBack cfg (writeWith wm op sk o) = some r ∧
      r.nodes.length = sk.nodes.length ∧
      r.nodes.map (·.id) = (List.range sk.nodes.length).map (fun (j : Nat) => ((j : Nat) : Int) + 1) ∧
      (∀ n ∈ sk.nodes, ∃ row ∈ r.nodes,
        row.id = newId o n.id ∧ 1 ≤ row.id ∧ row.id ≤ sk.nodes.length ∧
        (n.parent < 0 → row.parent = -1) ∧
        (¬ n.parent < 0 → ∃ p ∈ sk.nodes, p.id = n.parent ∧ row.parent = newId o p.id) ∧
        row.x = n.x ∧ row.y = n.y ∧ row.z = n.z ∧ row.radius = some (n.radius.getD 0) ∧
        row.label = labelOf op sk n) ∧
      (∀ a ∈ sk.nodes, ∀ b ∈ sk.nodes, newId o a.id = newId o b.id → a = b) ∧
      r.props = (if cfg.readMeta then (metaProps wm sk).getD [] else []) := by
  have hnd := nodup_of_perm hperm (WF_nodup hw)
  refine ⟨_, readBack_writeWith cfg wm op sk o, ?_, ?_, ?_, ?_, rfl⟩
  · simp [ofFile, hperm.length_eq]
  · have := nodeMapOf_snd hnd
    simp only [ofFile, finish, List.map_map]
    simp only [nodeMapOf, List.map_map] at this
    rw [← hperm.length_eq]; exact this
  · intro n hn
    have hno : n ∈ o := hperm.mem_iff.mpr hn
    refine ⟨rowOf (labelOf op sk) o n, List.mem_map.mpr ⟨n, hno, rfl⟩, rfl, ?_, ?_, ?_, ?_, rfl, rfl, rfl, rfl, rfl⟩
    · exact (newId_range hnd hno).1
    · have := (newId_range hnd hno).2; rw [hperm.length_eq] at this; exact this
    · exact (newId_parent hw hperm hno).1
    · intro h
      obtain ⟨p, hp, hpid, he⟩ := (newId_parent hw hperm hno).2 h
      exact ⟨p, hperm.mem_iff.mp hp, hpid, he⟩
  · intro a ha b hb h
    exact newId_inj hnd (hperm.mem_iff.mpr ha) (hperm.mem_iff.mpr hb) h

/-- The round trip for the file `write_swc` produces. -/
theorem round_trip_as_written (cfg : ReadCfg) (wm : WriteMeta) (op : Opts) (sk : Skel) (hw : WF (forest sk.nodes)) :
    ∃ r, readBack cfg (write wm op sk) = some r ∧ r.nodes = makeSwcTable op sk ∧
      r.nodes.map (·.id) = (List.range sk.nodes.length).map (fun (j : Nat) => ((j : Nat) : Int) + 1) := by
  obtain ⟨r, h1, _, h3, _⟩ := round_trip cfg wm op sk (sortByDepth sk.nodes) hw (sortByDepth_perm _)
  refine ⟨r, h1, ?_, h3⟩
  have := readBack_writeWith cfg wm op sk (sortByDepth sk.nodes)
  unfold write at *
  rw [this] at h1
  injection h1 with h1
  rw [← h1]; rfl

/-- **Soma through the round trip** (`labels=True`, reader's `soma_label = 1`): the soma read back is the
image of a soma node whose label was not overridden by a synapse label, namely the first such node in file
order; and it is found whenever such a node exists. -/
theorem soma_round_trip (cfg : ReadCfg) (wm : WriteMeta) (ex : Bool) (sk : Skel) (o : List SNode)
    (hperm : o.Perm sk.nodes) (hc : cfg.somaLabel = some 1) :
    ∃ r, readBack cfg (writeWith wm { labels := .auto, exportConn := ex } sk o) = some r ∧
      (∀ s, r.soma = some s → ∃ n ∈ sk.nodes, n.id ∈ sk.soma ∧
          (ex = true → n.id ∉ sk.post ∧ n.id ∉ sk.pre) ∧ s = newId o n.id) ∧
      ((∃ n ∈ sk.nodes, n.id ∈ sk.soma ∧ (ex = true → n.id ∉ sk.post ∧ n.id ∉ sk.pre)) → r.soma.isSome = true) := by
  refine ⟨_, readBack_writeWith cfg wm _ sk o, ?_, ?_⟩
  · intro s hs
    simp only [ofFile] at hs
    rw [somaOf_finish _ o 1 cfg hc] at hs
    obtain ⟨n, hf, rfl⟩ := Option.map_eq_some_iff.mp hs
    have hmem := List.mem_of_find?_eq_some hf
    have hp := List.find?_some hf
    simp only [Swc.labelOf, beq_iff_eq, Option.some.injEq] at hp
    have := (autoLabel_eq_soma sk ex n).mp hp
    exact ⟨n, hperm.mem_iff.mp hmem, this.1, this.2, rfl⟩
  · rintro ⟨n, hn, hs, hx⟩
    simp only [ofFile]
    rw [somaOf_finish _ o 1 cfg hc, Option.isSome_map, List.find?_isSome]
    refine ⟨n, hperm.mem_iff.mpr hn, ?_⟩
    simp only [Swc.labelOf, beq_iff_eq, Option.some.injEq]
    exact (autoLabel_eq_soma sk ex n).mpr ⟨hs, hx⟩

/-- **Exported synapse labels through the round trip** (`labels=True, export_connectors=True`, reader's
`connector_labels = {pre: 7, post: 8}`): the postsynapse connectors read back sit exactly on the images of the
nodes carrying a postsynapse, the presynapse connectors exactly on the images of the nodes carrying a presynapse
and no postsynapse (one label per node). -/
theorem synapse_labels_round_trip (cfg : ReadCfg) (wm : WriteMeta) (sk : Skel) (o : List SNode)
    (hperm : o.Perm sk.nodes) (hc : cfg.connLabels = [("pre", 7), ("post", 8)]) :
    ∃ r, readBack cfg (writeWith wm { labels := .auto, exportConn := true } sk o) = some r ∧
      (∀ j, ("post", j) ∈ r.conns ↔ ∃ n ∈ sk.nodes, n.id ∈ sk.post ∧ j = newId o n.id) ∧
      (∀ j, ("pre", j) ∈ r.conns ↔ ∃ n ∈ sk.nodes, n.id ∈ sk.pre ∧ n.id ∉ sk.post ∧ j = newId o n.id) := by
  refine ⟨_, readBack_writeWith cfg wm _ sk o, ?_, ?_⟩
  · intro j
    simp only [ofFile]
    rw [mem_connsOf_finish, hc]
    constructor
    · rintro ⟨v, hv, n, hn, hl, rfl⟩
      simp at hv
      subst hv
      simp only [Swc.labelOf, Option.some.injEq] at hl
      exact ⟨n, hperm.mem_iff.mp hn, (autoLabel_eq_post sk n).mp hl, rfl⟩
    · rintro ⟨n, hn, hp, rfl⟩
      exact ⟨8, by simp, n, hperm.mem_iff.mpr hn, by simp only [Swc.labelOf]; exact congrArg some ((autoLabel_eq_post sk n).mpr hp), rfl⟩
  · intro j
    simp only [ofFile]
    rw [mem_connsOf_finish, hc]
    constructor
    · rintro ⟨v, hv, n, hn, hl, rfl⟩
      simp at hv
      subst hv
      simp only [Swc.labelOf, Option.some.injEq] at hl
      have := (autoLabel_eq_pre sk n).mp hl
      exact ⟨n, hperm.mem_iff.mp hn, this.1, this.2, rfl⟩
    · rintro ⟨n, hn, hp, hq, rfl⟩
      exact ⟨7, by simp, n, hperm.mem_iff.mpr hn, by simp only [Swc.labelOf]; exact congrArg some ((autoLabel_eq_pre sk n).mpr ⟨hp, hq⟩), rfl⟩

/-- **Header metadata** (`write_meta=True`, `read_meta=True`): units and id come back as the text written. -/
theorem meta_round_trip (cfg : ReadCfg) (op : Opts) (sk : Skel) (o : List SNode) (hm : cfg.readMeta = true) :
    ∃ r, readBack cfg (writeWith .default op sk o) = some r ∧
      metaGet r.props "units" = some (attrOf sk "units") ∧ metaGet r.props "id" = some (attrOf sk "id") ∧
      metaGet r.props "name" = some (attrOf sk "name") := by
  refine ⟨_, readBack_writeWith cfg .default op sk o, ?_, ?_, ?_⟩ <;>
    simp [ofFile, hm, metaProps, metaGet, List.find?, Gen.Swc.metaKeys]

/-- Without a meta line (`write_meta=False`) nothing is restored. -/
theorem no_meta_round_trip (cfg : ReadCfg) (op : Opts) (sk : Skel) (o : List SNode) :
    ∃ r, readBack cfg (writeWith .off op sk o) = some r ∧ r.props = [] := by
  refine ⟨_, readBack_writeWith cfg .off op sk o, ?_⟩
  simp [ofFile, metaProps]

/-! ### the algorithm as written refines the model

`makeSwcTable` (used by every theorem above) orders the rows by the *specification* depth (length of the root path) and labels
them with the priority function `autoLabel`.  navis computes the sort key with the memoised walk `_node_depths` and the labels
with sequential overwriting assignments.  Both as-written algorithms are in the model (`nodeDepthsW`, `labelsAsWritten` over
the rule list the translator extracts) and are proved equal to the specification; the driver runs the as-written table
against navis. -/

/-- **`_node_depths` as written** (memo dict, walk until a memoised / absent node, assign along the reversed path) returns for
every row of a well-formed forest — whatever the row order, so also for rerooted tables whose rows come child-first — its
number of steps to the root. -/
theorem node_depths_as_written (t : List SNode) (hw : WF (forest t)) :
    nodeDepthsW t = t.map fun n => ((depth t n.id : Nat) : Int) - 1 := nodeDepthsW_eq hw

/-- **The label assignments as written**, in the order and with the `export_connectors` gating found in the source
(`Gen.Swc.labelRules`), compute `autoLabel`: fork 5 / end 6, overridden by soma 1, overridden by presynapse 7, overridden by
postsynapse 8.  Reordering the assignments in the source changes `labelRules` and this theorem stops checking. -/
theorem label_rules_as_written (sk : Skel) (ex : Bool) (n : SNode) :
    labelsAsWritten Gen.Swc.labelRules sk ex n = autoLabel sk ex n := labelsAsWritten_gen sk ex n

/-- **The table as written is the table of the model** — hence valid and round-tripping by the theorems above. -/
theorem table_as_written (op : Opts) (sk : Skel) (hw : WF (forest sk.nodes)) :
    makeSwcTableW op sk = makeSwcTable op sk := by
  unfold makeSwcTableW makeSwcTable
  rw [sortByDepthW_eq hw, labelOfW_eq]

theorem table_as_written_valid (op : Opts) (sk : Skel) (hw : WF (forest sk.nodes)) :
    swcValidB (makeSwcTableW op sk) = true := by
  rw [table_as_written op sk hw]; exact table_valid op sk hw

/-! ### the `header=` option: the reader skips exactly the header, whatever the header string

Token level (`Model/Swc.lean`): a header is any list of physical lines none of which is a data row (`noRows`: `#` lines,
Meta lines, blank lines, in any arrangement).  Character level (`Model/SwcText.lean`): the text `_write_swc` assembles from
the header string and the rendered rows, cut into lines the way the reader does. -/

/-- The reader's data rows are all row lines of a file, wherever comment / Meta / blank lines sit. -/
theorem data_rows_are_the_row_lines (ls : List Line) : dataRows ls = ls.filterMap rowLine? := dataRows_eq_filterMap ls

/-- **Whatever the header, the data rows of the written file are exactly the table rows.**  For every list of header
lines without a data row — the generated header with any `write_meta`, or any user supplied `header=` made of `#` lines
and blank lines — the parser finds exactly the rows of the SWC table, in order, and the header properties are those of the
first Meta line among the leading `#` lines of the header. -/
theorem written_rows_any_header (hl : List Line) (rs : List SwcRow) (h : noRows hl = true) :
    parseSwc (hl ++ rs.map renderRow) = some { props := metaOf hl, rows := rs } := parseSwc_custom hl rs h

/-- The generated header never contains a data row, for every `write_meta` / `export_connectors` option. -/
theorem generated_header_no_rows (wm : WriteMeta) (op : Opts) (sk : Skel) : noRows (headerLines wm op sk) = true :=
  noRows_headerLines wm op sk

/-- **Round trip with any header option**: the node table read back is the table written (so `table_valid`,
`round_trip`, `soma_round_trip`, `synapse_labels_round_trip` carry over verbatim), the properties are those of the header. -/
theorem round_trip_any_header (cfg : ReadCfg) (hd : Header) (op : Opts) (sk : Skel) (o : List SNode)
    (h : noRows (headerFor hd op sk) = true) :
    ∃ r, readBack cfg (writeH hd op sk o) = some r ∧ r.nodes = finish (labelOf op sk) o ∧
      r.props = (if cfg.readMeta then (metaOf (headerFor hd op sk)).getD [] else []) :=
  ⟨_, readBack_writeH cfg hd op sk o h, rfl, rfl⟩

/-- With a user supplied header `write_meta` is ignored: what comes back is what the header itself says (nothing when it
has no Meta line among its leading `#` lines). -/
theorem custom_header_props (cfg : ReadCfg) (hl : List Line) (op : Opts) (sk : Skel) (o : List SNode)
    (h : noRows hl = true) (hm : cfg.readMeta = true) :
    ∃ r, readBack cfg (writeH (.custom hl) op sk o) = some r ∧ r.props = (metaOf hl).getD [] := by
  refine ⟨_, readBack_writeH cfg (.custom hl) op sk o h, ?_⟩
  simp [ofFile, hm, headerFor]

/-- The written table is valid for every header option (`write_swc(..., header=…)` included). -/
theorem table_valid_any_header (cfg : ReadCfg) (hd : Header) (op : Opts) (sk : Skel) (hw : WF (forest sk.nodes))
    (h : noRows (headerFor hd op sk) = true) :
    ∃ r, readBack cfg (writeH hd op sk (sortByDepth sk.nodes)) = some r ∧ swcValidB r.nodes = true :=
  ⟨_, readBack_writeH cfg hd op sk _ h, table_valid op sk hw⟩

/-- HISTORICAL (finding `write_swc/custom-header/line-without-comment-prefix`, fixed).  A header line that is not a comment
is read as data: a header whose first line has fewer than seven fields (e.g. `header="no hash"`, which navis used to write
verbatim) makes the file unreadable.  This is why `noRows` is a hypothesis of the token-level theorems above; on the character
level `header_text_lines_ok` shows that the header navis writes now never contains such a line. -/
theorem header_line_without_hash_breaks (ts : List Tok) (hts : ts.length < 7) (rest : List Line) :
    parseSwc (.row ts :: rest) = none := by
  unfold parseSwc
  have : dataRows (.row ts :: rest) = ts :: rest.filterMap rowLine? := by
    rw [dataRows_eq_filterMap]; rfl
  rw [this]
  simp [columnsOK]
  intro h7
  omega

/-! #### character level: newline termination -/

/-- The line terminator of `csv.writer` ends with its only `\n` (translator fact; `\r\n` by default). -/
theorem eolPre_no_nl : '\n' ∉ eolPre := by decide

/-- **Lines of the written text.**  With the newline-termination branch of `_write_swc` (translator fact
`Gen.Swc.headerTerminated`, see `gen_header_terminated`) the text cut at `\n` is: the lines of the header text (the user's
string with its non-comment lines turned into comments, newline-terminated), then one line per row — *for every header string
whatsoever*. -/
theorem written_text_lines (h : List Char) (rows : List (List Char)) (hrows : ∀ r ∈ rows, '\n' ∉ r) :
    lines (assemble h rows) = lines (headerText h) ++ rows.map (· ++ eolPre) := by
  unfold assemble headerText
  exact lines_terminated_rows eolPre eolPre_no_nl _ (terminateIf_true_ends (commentise h)) rows hrows

/-- **Every line of the header `_write_swc` writes for a user supplied string is a comment or blank** — whatever the string
(translator fact `Gen.Swc.headerCommentPrefix = "# "`: since the fix "write_swc turns lines of a custom header … into comments"
a line that is neither is no longer written verbatim). -/
theorem header_text_lines_ok (h : List Char) : ∀ l ∈ lines (headerText h), isHdr l = true ∨ isBlank l = true :=
  commentised_lines_ok _ _ (by decide) (by decide) h

/-- **The reader skips exactly the header, for every header string.**  The lines `read_csv(skiprows=len(header_rows),
comment="#")` parses are exactly the rendered rows (each starts with its PointNo as printed by `str(int)`), and
`read_header_rows` returns the leading `#` lines of the header text itself. -/
theorem written_text_data_lines (h : List Char) (rows : List (Int × List Char)) (hrows : ∀ r ∈ rows, '\n' ∉ r.2) :
    dataLines (lines (assemble h (rows.map fun r => rowLine r.1 r.2))) = rows.map (fun r => rowLine r.1 r.2 ++ eolPre) ∧
    hdrRows (lines (assemble h (rows.map fun r => rowLine r.1 r.2))) = hdrRows (lines (headerText h)) := by
  have hnl : ∀ r ∈ rows.map (fun r => rowLine r.1 r.2), '\n' ∉ r := by
    intro r hr
    obtain ⟨q, hq, rfl⟩ := List.mem_map.mp hr
    exact nl_not_mem_rowLine q.1 q.2 (hrows q hq)
  rw [written_text_lines h _ hnl, List.map_map]
  have hdat : ∀ l ∈ rows.map ((· ++ eolPre) ∘ fun r => rowLine r.1 r.2), isHdr l = false ∧ isBlank l = false := by
    intro l hl
    obtain ⟨q, _, rfl⟩ := List.mem_map.mp hl
    refine ⟨isHdr_append_cr eolPre (isHdr_rowLine q.1 q.2) ?_, isBlank_append_cr eolPre (isBlank_rowLine q.1 q.2)⟩
    obtain ⟨c, r, hc, _⟩ := intChars_head q.1
    simp [rowLine, hc]
  exact ⟨dataLines_header_rows _ _ (header_text_lines_ok h) hdat, hdrRows_header_rows _ _ (fun l hl => (hdat l hl).1)⟩

/-- **Why the branch is needed** (the behaviour of `_write_swc` without `elif not header.endswith("\n"): header += "\n"`).
For a header whose last line `last` is a `#` line without a final line break, the first row — the root, PointNo 1 — is glued
to that comment line and disappears: the reader sees the rows *without the first one*. -/
theorem unterminated_header_swallows_first_row (x last : List Char) (r : Int × List Char) (rs : List (Int × List Char))
    (hx : x = [] ∨ ∃ x', x = x' ++ ['\n']) (hxl : ∀ l ∈ lines x, isHdr l = true ∨ isBlank l = true)
    (hlast : isHdr last = true) (hnl : '\n' ∉ last) (hr : '\n' ∉ r.2) (hrs : ∀ q ∈ rs, '\n' ∉ q.2) :
    dataLines (lines (assembleRaw (x ++ last) ((r :: rs).map fun q => rowLine q.1 q.2))) =
      rs.map (fun q => rowLine q.1 q.2 ++ eolPre) := by
  have hnl' : ∀ q ∈ rs.map (fun q => rowLine q.1 q.2), '\n' ∉ q := by
    intro q hq
    obtain ⟨p, hp, rfl⟩ := List.mem_map.mp hq
    exact nl_not_mem_rowLine p.1 p.2 (hrs p hp)
  unfold assembleRaw
  rw [List.map_cons, lines_raw_glued eolPre eolPre_no_nl x last _ _ hx hnl (nl_not_mem_rowLine r.1 r.2 hr) hnl', List.map_map,
    dataLines_eq_filter, List.filter_append, filter_isData_header _ hxl, List.nil_append, List.filter_cons]
  have hg : isData (last ++ rowLine r.1 r.2 ++ eolPre) = false := by
    have : isHdr (last ++ rowLine r.1 r.2 ++ eolPre) = true := by
      rw [List.append_assoc]; exact isHdr_append_of_isHdr _ hlast
    unfold isData; rw [this]; rfl
  rw [hg]
  simp only [Bool.false_eq_true, if_false]
  apply filter_isData_rows
  intro l hl
  obtain ⟨q, _, rfl⟩ := List.mem_map.mp hl
  refine ⟨isHdr_append_cr eolPre (isHdr_rowLine q.1 q.2) ?_, isBlank_append_cr eolPre (isBlank_rowLine q.1 q.2)⟩
  obtain ⟨c, r', hc, _⟩ := intChars_head q.1
  simp [rowLine, hc]

/-- … and a valid table without its first row is never valid (its ids start at 2): the file written without the
termination branch is invalid for every skeleton with at least two nodes (with one node it is empty). -/
theorem valid_table_without_first_row_invalid (r : SwcRow) (rs : List SwcRow) (hne : rs ≠ [])
    (hv : swcValidB (r :: rs) = true) : swcValidB rs = false := by
  cases rs with
  | nil => exact absurd rfl hne
  | cons q rs =>
    have h := (swcValidB_iff _).mp hv
    have hq : q.id = 2 := by
      have := h.1 1 (by simp)
      simp only [List.getElem_cons_succ, List.getElem_cons_zero] at this
      omega
    cases hb : swcValidB (q :: rs) with
    | false => rfl
    | true =>
      have h' := (swcValidB_iff _).mp hb
      have := h'.1 0 (by simp)
      simp only [List.getElem_cons_zero] at this
      omega

/-- **The integer printer and the integer lexer of the token-level model round-trip**: the PointNo / Parent text
`str(i)` is lexed back to `i`, for every integer (large ids included). -/
theorem int_print_lex_round_trip (i : Int) : lexInt? (intChars i) = some i := lexInt_intChars i

/-! ### file-name patterns (`fmt`, `BaseReader.parse_filename`)

`matchSegs` / `searchSegs` model the regular expression navis builds from a pattern (literal text, every `{…}` → `(.*)`,
`re.search`).  They are no longer merely trusted: the matcher is sound and complete for decompositions of the file name
along the pattern, and the checker the driver evaluates on navis' *own* `parse_filename` values decides "the file name
contains the pattern with the named placeholders replaced by the extracted values". -/

/-- **The matcher is sound**: the groups returned by a successful search, filled into the pattern, occur in the file name
(one group per placeholder). -/
theorem fmt_matcher_sound (segs : List Seg) (cs : List Char) (gs : List (List Char)) (h : searchSegs segs cs = some gs) :
    gs.length = groupCount segs ∧ ∃ pre rest, cs = pre ++ instSegs segs gs ++ rest := searchSegs_sound segs cs gs h

/-- **The matcher is complete**: if some filling of the pattern occurs in the file name, the search succeeds (a
`ValueError` "unable to match" is raised only when the pattern cannot be matched at all). -/
theorem fmt_matcher_complete (segs : List Seg) (cs : List Char)
    (h : ∃ gs pre rest, gs.length = groupCount segs ∧ cs = pre ++ instSegs segs gs ++ rest) :
    (searchSegs segs cs).isSome = true := searchSegs_complete segs cs h

/-- **What `parse_filename` returns (model)**: every attribute is the text found at the position of its placeholder, all
names of one placeholder share it, the `file` attribute is the file name. -/
theorem matchFmt_sound (segs : List Seg) (filename : String) (props : List (String × String × String))
    (h : matchFmt segs filename = some props) :
    ∃ gs, gs.length = groupCount segs ∧ (∃ pre rest, filename.toList = pre ++ instSegs segs gs ++ rest) ∧
      props = ("file", "str", filename) ::
        ((segs.filterMap fun s => match s with | .grp fs => some fs | _ => none).zip gs).flatMap
          fun (fs, g) => fs.map fun (nm, ty) => (nm, ty.getD "str", String.ofList g) := by
  unfold matchFmt at h
  cases hs : searchSegs segs filename.toList with
  | none => rw [hs] at h; simp at h
  | some gs =>
    rw [hs] at h
    simp only [Option.some.injEq] at h
    obtain ⟨h1, h2⟩ := searchSegs_sound segs _ gs hs
    exact ⟨gs, h1, h2, h.symm⟩

/-- **The checker decides consistency** of extracted values with the file name: it accepts exactly when the pattern, with
every named placeholder for which a value is given replaced by that value (anonymous ones left free), occurs in the name. -/
theorem fmt_checker_iff (segs : List Seg) (val : String → Option (List Char)) (filename : List Char) :
    fmtConsistentB segs val filename = true ↔
      ∃ gs pre rest, gs.length = groupCount (fixSegs val segs) ∧ filename = pre ++ instSegs (fixSegs val segs) gs ++ rest := by
  unfold fmtConsistentB
  constructor
  · intro h
    obtain ⟨gs, hg⟩ := Option.isSome_iff_exists.mp h
    obtain ⟨h1, pre, rest, h2⟩ := searchSegs_sound _ _ gs hg
    exact ⟨gs, pre, rest, h1, h2⟩
  · exact searchSegs_complete _ _

/-! ### rows with missing data (`sanitise_nodes`, DESIGN §6 #15, fixed) -/

/-- Reading never fails because of a NaN in a key column: with enough columns the parser always returns a
table, whose ids are those of the complete rows in file order. -/
theorem nan_rows_dropped (ls : List Line) (hc : columnsOK (dataRows ls) = true) :
    ∃ f, parseSwc ls = some f ∧
      f.rows.map (·.id) = (keptRows ((dataRows ls).map parseRow)).map (·.id) := by
  refine ⟨_, by unfold parseSwc; rw [if_pos hc], ?_⟩
  exact sanitiseRows_ids _

/-- If a row was dropped, no remaining row refers to a missing parent: its parent is `-1` or a remaining id. -/
theorem nan_rows_orphans_rerooted (rs : List (Option SwcRow)) (hdrop : (keptRows rs).length ≠ rs.length) :
    ∀ r ∈ sanitiseRows rs, r.parent = -1 ∨ r.parent ∈ (sanitiseRows rs).map (·.id) :=
  sanitiseRows_no_dangling rs hdrop

/-- Without missing data the table is taken as it is. -/
theorem complete_rows_unchanged (l : List SwcRow) : sanitiseRows (l.map some) = l := sanitiseRows_map_some l

/-! ### obligations over the definitions regenerated from the current source (`Gen/Swc.lean`) -/

/-- The writer selects, and the reader names, the seven SWC columns in the order `PointNo Label X Y Z Radius Parent`. -/
theorem gen_columns : Gen.Swc.columnOrder = ["node_id", "label", "x", "y", "z", "radius", "parent_id"] ∧
    Gen.Swc.nodeColumns = Gen.Swc.columnOrder := ⟨rfl, rfl⟩

/-- The sort the model calls `sortByDepth` (stable, ascending, on the column computed by `_node_depths` whose
loop has the recognised shape "root 0, child = parent + 1"); the new ids start at 1; a missing parent becomes -1. -/
theorem gen_reindex : Gen.Swc.sortColumn = "_depth" ∧ Gen.Swc.sortAscending = true ∧ Gen.Swc.sortKind = "stable" ∧
    Gen.Swc.sortKeySource = "_node_depths(swc.node_id.values, swc.parent_id.values)" ∧
    Gen.Swc.depthRule = "root=0;child=parent+1" ∧ Gen.Swc.firstId = 1 ∧
    Gen.Swc.missingParent = -1 := ⟨rfl, rfl, rfl, rfl, rfl, rfl, rfl⟩

/-- The radius column is written from the radius column, NaN filled with 0 (the model's `getD 0`). -/
theorem gen_radius : Gen.Swc.radiusSource = "swc.radius" ∧ Gen.Swc.radiusFill = 0 := ⟨rfl, rfl⟩

/-- The reader's default soma label is the code the writer gives the soma; labels are read as a category
(never as floats); the label codes are pairwise distinct (so no rule masks another by accident). -/
theorem gen_labels : Gen.Swc.readerSomaLabel = Gen.Swc.lblSoma ∧ Gen.Swc.readerLabelDtype = "category" ∧
    [Gen.Swc.lblUndefined, Gen.Swc.lblSoma, Gen.Swc.lblBranch, Gen.Swc.lblEnd, Gen.Swc.lblPre, Gen.Swc.lblPost].Nodup :=
  ⟨rfl, rfl, by decide⟩

/-- `write_meta=True` writes id, name and units behind the prefix the reader looks for (`# meta:` case-insensitively). -/
theorem gen_meta : Gen.Swc.metaKeys = ["id", "name", "units"] ∧ Gen.Swc.metaPrefix = "# Meta: " := ⟨rfl, rfl⟩

/-- `_write_swc` terminates a user supplied header with a line break (`if not header.endswith("\n"): header += "\n"` on the
str path, before the file is written) after putting the comment character and a blank in front of every line that is neither a
comment nor blank; the header is written before the rows.  `written_text_lines` / `header_text_lines_ok` rest on these facts. -/
theorem gen_header_terminated : Gen.Swc.headerTerminated = true ∧ Gen.Swc.writeOrder = ["header", "rows"] ∧
    Gen.Swc.headerCommentPrefix = Gen.Swc.commentChar ++ " " := ⟨rfl, rfl, rfl⟩

/-- Every line of the generated header is a comment line, every piece ends with a line break, the Meta line starts with
the prefix the reader looks for and is only written on the generated-header path (`write_meta` is ignored otherwise). -/
theorem gen_generic_header : (Gen.Swc.genericHeaderLines.all fun l => l.toList.head? == Gen.Swc.commentChar.toList.head?) = true ∧
    Gen.Swc.genericHeaderPiecesTerminated = true ∧
    (Gen.Swc.genericHeaderLines.filter fun l => l.toList.take Gen.Swc.metaPrefix.length == Gen.Swc.metaPrefix.toList).length = 1 ∧
    Gen.Swc.metaOnlyWithGeneratedHeader = true := ⟨by decide, rfl, by decide, rfl⟩

/-- The writer separates fields with the reader's default delimiter; the line terminator of the rows ends with its only `\n`
(so every row is one physical line); comments start with `#`. -/
theorem gen_text_format : Gen.Swc.writeDelimiter = Gen.Swc.readDelimiterDefault ∧ Gen.Swc.defaultDelimiter = Gen.Swc.readDelimiterDefault ∧
    Gen.Swc.writeLineTerminator.toList.getLast? = some '\n' ∧ '\n' ∉ eolPre ∧ Gen.Swc.commentChar = "#" :=
  ⟨rfl, rfl, by decide, eolPre_no_nl, rfl⟩

/-- How the reader cuts the file: header rows are the leading lines that start with the comment character, `read_csv` treats
that character as comment, takes no column names from the file (the first row is data) and uses the reader's delimiter. -/
theorem gen_reader_cut : Gen.Swc.headerRowTest = "not-startswith-comment" ∧
    Gen.Swc.readCsvArgs.lookup "comment" = some Gen.Swc.commentChar ∧
    Gen.Swc.readCsvArgs.lookup "header" = some "None" ∧
    Gen.Swc.readCsvArgs.lookup "delimiter" = some "self.delimiter" := ⟨rfl, rfl, rfl, rfl⟩

/-- The Meta row is looked up case-insensitively by the written prefix (without its trailing blank) and the JSON starts
right after it; `read_swc` reads the metadata by default. -/
theorem gen_meta_lookup : Gen.Swc.metaLookup = "lower:# meta:" ∧ Gen.Swc.metaSlice = "# meta:".length ∧
    Gen.Swc.metaPrefix.toList.map Char.toLower = "# meta: ".toList ∧ Gen.Swc.readMetaDefault = true := ⟨rfl, by decide, by decide, rfl⟩

/-- `precision` p ∈ {16, 32, 64} casts the id columns to `int<p>` and coordinates / radius to `float<p>`; 32 is the default. -/
theorem gen_precision : Gen.Swc.precisionTable = [(16, "int16", "float16"), (32, "int32", "float32"), (64, "int64", "float64")] ∧
    Gen.Swc.defaultPrecision = 32 ∧ Gen.Swc.readPrecisionDefault = 32 ∧
    Gen.Swc.columnDtypeKind = [("node_id", "int_"), ("parent_id", "int_"), ("label", "category"), ("x", "float_"), ("y", "float_"),
      ("z", "float_"), ("radius", "float_")] := ⟨rfl, rfl, rfl, rfl⟩

/-- **IDs never wrap** (finding `read_swc/precision/id-exceeds-int-range`, fixed): whatever `precision` is requested, the integer
width chosen for `node_id` / `parent_id` holds every id of the table (ids a 64-bit integer can hold at all) … -/
theorem id_width_holds (p : Nat) (lo hi : Int) (h : fitsBits 64 lo hi = true) : fitsBits (idBits p lo hi) lo hi = true := by
  unfold idBits Gen.Swc.idWidening
  simp only [List.find?_cons, List.find?_nil]
  cases h1 : fitsBits p lo hi with
  | true => simpa using h1
  | false =>
    cases h2 : fitsBits 32 lo hi with
    | true => simpa using h2
    | false => simpa [h] using h

/-- … and it is the requested width whenever that is enough (`precision` is honoured for every table it can represent). -/
theorem id_width_requested (p : Nat) (lo hi : Int) (h : fitsBits p lo hi = true) : idBits p lo hi = p := by
  unfold idBits
  simp [List.find?_cons, h]

/-- The widening candidates follow the requested width and end with 64 bits. -/
theorem gen_id_widening : Gen.Swc.idWidening = [32, 64] ∧ Gen.Swc.idWideningStartsWithRequested = true := ⟨rfl, rfl⟩

/-- `sanitise_nodes` drops a row exactly when one of the columns `parseRow` requires is missing. -/
theorem gen_key_columns : Gen.Swc.keyColumns = ["node_id", "parent_id", "x", "y", "z"] := rfl

/-- **Every source kind ends in the same parser.**  Following the `self.read_*` references of `BaseReader` (call table
re-extracted from the source): a file path, a zip member, a tar member, a URL, a string and a bytes object all end in
`read_buffer` and nothing else; the generic entry points end in `read_buffer`, `read_dataframe` (DataFrames) or the FTP reader;
and `read_buffer` / `read_dataframe` are the only `read_*` methods `SwcReader` defines — there is one SWC parser, whatever the
source. -/
theorem gen_sources_funnel :
    (["read_file_path", "read_from_zip", "read_zip", "read_tar", "read_directory", "read_url", "read_string", "read_bytes"].all fun m =>
      (terminals Gen.Swc.sourceFunnel 6 m).all (· == "read_buffer")) = true ∧
    (["read_any_single", "read_any_multi", "read_any"].all fun m =>
      (terminals Gen.Swc.sourceFunnel 6 m).all fun t => t == "read_buffer" || t == "read_dataframe" || t == "read_ftp") = true ∧
    Gen.Swc.swcReaderMethods = ["read_buffer", "read_dataframe"] := ⟨by decide, by decide, rfl⟩

/-- A DataFrame source is the node table handed to the same `read_dataframe` the text sources end in: same nodes, soma and
connectors as reading the text (no header, hence no header properties). -/
theorem dataframe_source_same_table (cfg : ReadCfg) (ls : List Line) (f : SwcFile) (h : parseSwc ls = some f) :
    ∃ r, readBack cfg ls = some r ∧ (ofFile cfg { props := none, rows := f.rows }).nodes = r.nodes ∧
      (ofFile cfg { props := none, rows := f.rows }).soma = r.soma ∧ (ofFile cfg { props := none, rows := f.rows }).conns = r.conns := by
  refine ⟨ofFile cfg f, ?_, rfl, rfl, rfl⟩
  unfold readBack; rw [h]; rfl

/-- File names: the default pattern reads the name, `include_subdirs` is off and `limit` is unset by default; a neuron
written into a folder or a zip is called `<id>.swc`. -/
theorem gen_file_names : Gen.Swc.readFmtDefault = "{name}.swc" ∧ Gen.Swc.defaultFmt = "{name}.swc" ∧
    Gen.Swc.includeSubdirsDefault = false ∧ Gen.Swc.limitDefaultIsNone = true ∧
    Gen.Swc.folderFileNameAttr = "id" ∧ Gen.Swc.zipPattern = "{neuron.id}" := ⟨rfl, rfl, rfl, rfl, rfl, rfl⟩

/-! ### non-vacuity: concrete inputs meeting the hypotheses -/

/-- A forest with shuffled ids, a branch point, a soma, synapses, a NaN radius. -/
def demo : Skel :=
  { nodes := [{ id := 25, parent := 98, type := .branch }, { id := 111, parent := 25, type := .end_, radius := none },
              { id := 167, parent := -1, type := .root }, { id := 125, parent := 167, type := .end_ },
              { id := 98, parent := -1, type := .root }, { id := 8, parent := 25, type := .end_ }],
    soma := [125], hasConn := true, pre := [25, 8], post := [25] }

example : WF (forest demo.nodes) := (wfB_iff _).mp (by decide)
example : swcValidB (makeSwcTable {} demo) = true := by decide
example : IsParentSort demo.nodes (sortByParent demo.nodes) := sortByParent_isParentSort _
-- historical: the condition of `historical_sortByParent_valid_iff` fails on `demo` (node 25 has children and parent 98 > 25) …
example : swcValidB (makeSwcTableHist {} demo) = false := by decide
-- … and holds on a parent-first labelled table
def demoSeq : Skel := { nodes := [{ id := 1, parent := -1, type := .root }, { id := 2, parent := 1 }, { id := 3, parent := 2, type := .end_ }] }
example : WF (forest demoSeq.nodes) := (wfB_iff _).mp (by decide)
example : ∀ n ∈ demoSeq.nodes, n.parent < n.id := by decide
example : swcValidB (makeSwcTableHist {} demoSeq) = true := by decide
example : swcValidB (makeSwcTable {} demoSeq) = true := by decide
-- a dropped row: row 2 has no x; its child 3 becomes a root
example : sanitiseRows [some ⟨1, some 0, 0, 0, 0, none, -1⟩, none, some ⟨3, some 0, 0, 0, 0, none, 2⟩, some ⟨4, some 0, 0, 0, 0, none, 1⟩]
    = [⟨1, some 0, 0, 0, 0, none, -1⟩, ⟨3, some 0, 0, 0, 0, none, -1⟩, ⟨4, some 0, 0, 0, 0, none, 1⟩] := by decide
-- soma / synapse hypotheses are satisfiable: node 125 is a soma without synapse, 25 carries pre + post, 8 only pre
example : ∃ n ∈ demo.nodes, n.id ∈ demo.soma ∧ ((true = true) → n.id ∉ demo.post ∧ n.id ∉ demo.pre) := by decide
example : (makeSwcTable { exportConn := true } demo).map (·.label) = [some 0, some 0, some 8, some 1, some 6, some 7] := by decide
example : nodeMap demo = [(167, 1), (98, 2), (25, 3), (125, 4), (111, 5), (8, 6)] := by decide

-- header option: a user header with a comment, a blank line and a Meta line has no data row; the round trip returns the
-- table and (the Meta line sits behind a blank line, outside the leading `#` lines) no properties
example : noRows [.comment "# mine", .blank, .props [("id", "9")]] = true := by decide
example : metaOf [.comment "# mine", .blank, .props [("id", "9")]] = none := by decide
example : metaOf [.comment "# mine", .props [("id", "9")], .comment "# c"] = some [("id", "9")] := by decide
-- character level: '# a' without line break, two rows
example : eolPre = ['\r'] := by decide
example : lines (assemble "# a".toList ["1 0".toList, "2 1".toList]) = ["# a".toList, "1 0\r".toList, "2 1\r".toList] := by decide
example : dataLines (lines (assemble "# a".toList ["1 0".toList, "2 1".toList])) = ["1 0\r".toList, "2 1\r".toList] := by decide
example : dataLines (lines (assembleRaw "# a".toList ["1 0".toList, "2 1".toList])) = ["2 1\r".toList] := by decide
example : lines (assemble [] ["1 0".toList]) = [[], "1 0\r".toList] := by decide
-- lines without `#` become comments, blank lines stay, a line of blanks becomes a comment
example : headerText "no hash".toList = "# no hash\n".toList := by decide
example : headerText "# a\n\n   \nx".toList = "# a\n\n#    \n# x\n".toList := by decide
example : dataLines (lines (assemble "no hash".toList ["1 0".toList, "2 1".toList])) = ["1 0\r".toList, "2 1\r".toList] := by decide
example : intChars (-1) = "-1".toList ∧ intChars 0 = "0".toList ∧ intChars 4294967301 = "4294967301".toList := by decide
example : idBits 16 (-1) 33000 = 32 ∧ idBits 32 (-1) (2 ^ 31 + 5) = 64 ∧ idBits 16 (-1) 7 = 16 ∧ idBits 64 (-1) 7 = 64 := by decide
example : lexInt? "+12".toList = some 12 ∧ lexInt? "1.0".toList = none ∧ lexInt? "-".toList = none := by decide

-- as written: the rerooted chain (rows child-first: every walk of `_node_depths` runs to the root) and the demo forest
example : nodeDepthsW chain5Rerooted.nodes = [4, 3, 2, 1, 0] := by decide
example : nodeDepthsW demo.nodes = [1, 2, 0, 1, 0, 2] := by decide
example : makeSwcTableW { exportConn := true } demo = makeSwcTable { exportConn := true } demo := by decide
-- on a cycle the `on_path` guard stops the walk (the model follows the code; not a well-formed forest)
example : nodeDepthsW [{ id := 1, parent := 2 }, { id := 2, parent := 1 }] = [1, 0] := by decide

-- file-name patterns: `{name}_{}_{id}.swc` on `DA1_left_1234.swc`; the checker accepts the right values and rejects shifted ones
def fmtDemo : List Seg := [.grp [("name", none)], .lit ['_'], .grp [], .lit ['_'], .grp [("id", none)], .lit ".swc".toList]
example : searchSegs fmtDemo "DA1_left_1234.swc".toList = some ["DA1".toList, "left".toList, "1234".toList] := by decide
example : fmtConsistentB fmtDemo (fun n => if n = "name" then some "DA1".toList else if n = "id" then some "1234".toList else none)
    "DA1_left_1234.swc".toList = true := by decide
example : fmtConsistentB fmtDemo (fun n => if n = "name" then some "DA1".toList else if n = "id" then some "left".toList else none)
    "DA1_left_1234.swc".toList = false := by decide

end Navis.Props.C07
