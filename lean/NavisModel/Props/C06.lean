import NavisModel.Proofs.NblastLemmas
import NavisModel.Proofs.DpCacheLemmas
import NavisModel.Gen.Smat
import NavisModel.Gen.DpTree
/-!
# C06 — NBLAST scores equal the published definition

Property theorems only; helper lemmas live in `Proofs/NblastLemmas.lean`.  The model
(`Model/Nblast.lean`) follows `navis.nbl.smat` / `nblast_funcs` / `Dotprops.dist_dots` line by line;
`Gen/Smat.lean` is regenerated from the navis source on every run (both score-matrix CSVs, the
`side=` expression and the `- 1` of `Digitizer.__call__`, the default `clip`, `ALLOWED_SCORES`).

Numbers are exact rationals; the two square roots of the algorithm (distance, `sqrt(alpha)` scaling) are
only ever compared with table boundaries and are represented by their radicand (`Val.sqrt`).
"Exactly 1" etc. therefore hold exactly here and up to IEEE rounding on the real code.
-/
namespace Navis.Props.C06
open Navis.Nblast

/-! ## 1. What the translator extracted from the source is what the model assumes -/

/-- The `side=` expression found in `Digitizer.__call__` is the one the model uses
(`"left" if self.right else "right"`): swapping the sides in the source breaks this theorem. -/
theorem source_side_matches_model : Gen.Smat.sideOfRight = sideOfRight := by
  funext r; cases r <;> rfl

/-- The source subtracts exactly 1 from the `searchsorted` result. -/
theorem source_offset_matches_model : Gen.Smat.offset = 1 := by decide

/-- `from_strings` constructs the digitizer with the default `clip = (True, True)`. -/
theorem source_clip_matches_model : Gen.Smat.defaultClip = (true, true) := by decide

/-- `ALLOWED_SCORES` are exactly the modes of the model. -/
theorem source_modes_match_model : Gen.Smat.allowedScores = Mode.all.map Mode.name := by decide

/-- Hence `Digitizer.__call__` *as written in the source* is the model's `digitize`. -/
theorem digitize_source_eq_model : digitizeWith Gen.Smat.sideOfRight Gen.Smat.offset = digitize := by
  rw [source_side_matches_model, source_offset_matches_model]; rfl

/-- `NBlaster.single_query_target` as written: the self-self short-cut compares the two POSITIONS in the
blaster (never ids — what `scores_independent_of_ids` relies on), the score is normalised by the QUERY's
self hit, the reverse score is the same function with the indices swapped in forward mode, and with alpha
the dot products are multiplied by `sqrt(alpha product)`: the shape of the model's `forward` /
`singleQueryTarget` / `matchArgs`. -/
theorem source_single_query_target_matches_model :
    Gen.Smat.shortcutOnPositions = true ∧ Gen.Smat.normalisesByQuery = true ∧
    Gen.Smat.reverseSwapsIndices = true ∧ Gen.Smat.dotsScaledBySqrtAlpha = true := by decide

/-- `Dotprops.dist_dots` as written: a query point without a neighbour inside `distance_upper_bound` gets
distance = bound and dot product 0 on EVERY path that returns the dot products (the `alpha=False` path
NBLAST takes without alpha included), and alpha product 0 — the model's `matchPoint`. -/
theorem source_dist_dots_no_hit_matches_model :
    Gen.Smat.nohitDistIsBound = true ∧ Gen.Smat.nohitDotZeroOnAllPaths = true ∧ Gen.Smat.nohitAlphaZero = true := by
  decide

/-- … which is what the model does: no neighbour inside the bound ⇒ `(bound², 0, 0, no hit)`. -/
theorem matchPoint_no_hit (t : Cloud) (b : Rat) (hb : b ≠ 0) (qp : Pt) (j : Nat) (d : Rat)
    (hn : nearest t qp.p = some (j, d)) (hfar : ¬ d < b * b) :
    matchPoint t (some b) qp = some ⟨b * b, 0, 0, false, t.length⟩ := by
  unfold matchPoint
  rw [hn]
  simp [effBound, hb, hfar]

/-- **Every `NBlaster(...)` construction site forwards the same scoring keywords**: the self-hit blaster
and every per-job blaster of `nblast`, `nblast_allbyall` and `nblast_smart` receive `smat`, `smat_kwargs`,
`use_alpha`, `normalized`, `limit_dist`, `approx_nn` and `dtype=precision` from the front end's arguments of
the same name (a dropped `smat_kwargs=smat_kwargs` — all-by-all scoring with the default sigma while the
self hits use the requested one — breaks this). -/
theorem source_blaster_sites_forward_scoring :
    ∀ s ∈ Gen.Smat.blasterSites, s.2.2.filter (fun kv => kv.1 != "progress") = scoringForward := by decide

/-- … hence all sites agree with each other … -/
theorem source_blaster_sites_agree :
    ∀ s ∈ Gen.Smat.blasterSites, ∀ s' ∈ Gen.Smat.blasterSites,
      s.2.2.filter (fun kv => kv.1 != "progress") = s'.2.2.filter (fun kv => kv.1 != "progress") := by
  intro s hs s' hs'
  rw [source_blaster_sites_forward_scoring s hs, source_blaster_sites_forward_scoring s' hs']

/-- … the forwarded keywords are exactly the constructor's parameters (bar `progress`), so nothing that
decides a score is left to a default; all three front ends were found, each with its self-hit blaster and
its job blaster(s). -/
theorem source_blaster_params_all_forwarded :
    (∀ p ∈ Gen.Smat.blasterParams, p = "progress" ∨ p ∈ scoringForward.map (·.1)) ∧
    (∀ kv ∈ scoringForward, kv.1 ∈ Gen.Smat.blasterParams) ∧
    (∀ f ∈ ["nblast", "nblast_allbyall", "nblast_smart"],
      2 ≤ (Gen.Smat.blasterSites.filter (fun s => s.1 == f)).length) := by decide

/-- **Consequence in the model**: whatever the arguments of the front end and the defaults of the
constructor, every blaster built at any site is configured, for every scoring parameter, with the
front end's argument — the self hits and the pairwise scores of one call use one score function. -/
theorem blaster_sites_use_requested_config {V : Type} (args dflt : String → V) :
    ∀ s ∈ Gen.Smat.blasterSites, ∀ kv ∈ scoringForward, siteConfig s.2.2 args dflt kv.1 = args kv.2 := by
  intro s hs kv hkv
  have h := source_blaster_sites_forward_scoring s hs
  have key : ∀ (l : List (String × String)), l.filter (fun kv => kv.1 != "progress") = scoringForward →
      ∀ kv ∈ scoringForward, l.find? (fun x => x.1 == kv.1) = some kv := by
    intro l hl kv hkv
    have hne : kv.1 ≠ "progress" := by
      revert kv; decide
    have hfind : (l.filter (fun kv => kv.1 != "progress")).find? (fun x => x.1 == kv.1) = some kv := by
      rw [hl]; revert kv; decide
    rw [List.find?_filter] at hfind
    have gen : ∀ (l : List (String × String)),
        l.find? (fun a => decide ((a.1 != "progress") = true ∧ (a.1 == kv.1) = true)) = l.find? (fun a => a.1 == kv.1) := by
      intro l
      induction l with
      | nil => rfl
      | cons x r ih =>
        simp only [List.find?_cons]
        by_cases hx : (x.1 == kv.1) = true
        · have hx' : x.1 = kv.1 := by simpa using hx
          have hp : (kv.1 != "progress") = true := by simpa using hne
          simp [hx', hp]
        · have hx2 : (x.1 == kv.1) = false := by simpa using hx
          simp only [hx2, and_false, Bool.false_eq_true, decide_false]
          exact ih
    rw [← gen l]
    exact hfind
  unfold siteConfig
  rw [key s.2.2 h kv hkv]

/-- `smat_kwargs` carries exactly one key the constructor reads, `sigma_scoring` (default 10): the sigma of
the analytic `smat='v1'` score `sqrt(|dot| · exp(-d² / 2σ²))`. -/
theorem source_smat_kwargs_keys :
    Gen.Smat.smatKwargsKeys = ["sigma_scoring"] ∧ Gen.Smat.sigmaScoringDefault = some 10 := by decide

/-- **Every job's blaster receives each neuron together with that neuron's own self hit**: all
`this.append(neurons[i], self_hits[j])` sites index both lists with the same variable and pair the matching
lists (`target_self_hits[i]` — the position inside the job's column block — instead of `[ix]` breaks this:
reverse scores of later column blocks would be normalised by another neuron's self hit). -/
theorem source_append_sites_aligned :
    Gen.Smat.appendSites.all appendAligned = true ∧ 7 ≤ Gen.Smat.appendSites.length := by decide

/-- **The built-in table is handed out as a deep copy of the cached one** (`smat_fcwb` returns
`deepcopy(_smat_fcwb(alpha))`, `_smat_fcwb` is `lru_cache`d): replacing the deep copy by `copy.copy` (new
outer object, shared `.cells` / `.boundaries`) or by the cached object breaks this. -/
theorem source_fcwb_copy_is_deep : Gen.Smat.fcwbCopy = .deep ∨ Gen.Smat.fcwbCached = false := by decide

/-- **A caller's in-place edit of the returned table cannot reach the cached table iff the copy is deep**:
for every memory, cache address, fresh address and edit, the cached array is unchanged after
"fetch, then edit what was returned" exactly when the hand-out is a deep copy. -/
theorem cache_isolated_iff_deep (k : CopyKind) :
    (∀ (m : Mem) (c fresh : Nat) (v : List Rat), fresh ≠ c → fetchEdit k c m (fresh, v) c = m c) ↔ k = .deep := by
  constructor
  · intro h
    cases k with
    | deep => rfl
    | shallow =>
      have := h (fun _ => []) 0 1 [1] (by decide)
      simp [fetchEdit, handOut, editAt] at this
    | none =>
      have := h (fun _ => []) 0 1 [1] (by decide)
      simp [fetchEdit, handOut, editAt] at this
  · rintro rfl m c fresh v hne
    have hc : c ≠ fresh := fun e => hne e.symm
    simp [fetchEdit, handOut, editAt, hc]

/-- … and along every history of fetch-and-edit rounds (fresh addresses never being the cache's): with a
deep copy the cached table — what the next default-table NBLAST reads — is the published one throughout. -/
theorem cache_unchanged_along_history (c : Nat) (m : Mem) (rounds : List (Nat × List Rat))
    (hf : ∀ r ∈ rounds, r.1 ≠ c) : (rounds.foldl (fetchEdit .deep c) m) c = m c := by
  induction rounds generalizing m with
  | nil => rfl
  | cons r rs ih =>
    simp only [List.foldl_cons]
    rw [ih (fetchEdit .deep c m r) (fun x hx => hf x (List.mem_cons_of_mem _ hx))]
    exact (cache_isolated_iff_deep .deep).mpr rfl m c r.1 r.2 (hf r (List.mem_cons_self ..))

/-- with a shallow copy one round is enough to change what the cache holds -/
example : fetchEdit .shallow 0 (fun _ => [1, 2]) (1, [4, 8]) 0 = [4, 8] := by decide

/-- Both shipped score matrices parse (labels abut, one closedness per axis, strictly increasing
boundaries, cell matrix of the right shape). -/
theorem default_tables_parse : Gen.Smat.fcwb.isSome = true ∧ Gen.Smat.fcwbAlpha.isSome = true := by
  decide +kernel

/-! ## 2. Binning -/

/-- Every digitizer `Digitizer.from_strings` accepts is well formed: strictly increasing boundaries
running from `-inf` to `+inf`, one bin per label, closedness of the first label. -/
theorem from_strings_wellformed (ivs : List Interval) (d : Digitizer) (h : Digitizer.fromIntervals ivs = some d) :
    d.WF ∧ d.nbins = ivs.length ∧ d.right = (ivs.head?.map (·.right)).getD false := by
  obtain ⟨i0, l, hh, _, _, hwf, hr, _⟩ := fromIntervals_some ivs d h
  exact ⟨hwf, fromIntervals_nbins ivs d h, by rw [hh]; simpa using hr⟩

/-- **digitize_spec.** For a well-formed digitizer and a finite value (plain or a square root) the
returned index is a bin `0 ≤ i < nbins` whose half-open interval contains the value: for `right = true`
`lower < v ≤ upper`, otherwise `lower ≤ v < upper` (`gtB b` is `b < v`, `geB b` is `b ≤ v`). -/
theorem digitize_spec (d : Digitizer) (hwf : d.WF) (v : Val) (hv : v.finite = true) :
    ∃ (k : Nat) (lo hi : X), digitize d v = (k : Int) ∧ k < d.nbins ∧
      d.boundaries[k]? = some lo ∧ d.boundaries[k + 1]? = some hi ∧
      (if d.right then v.gtB lo = true ∧ v.gtB hi = false else v.geB lo = true ∧ v.geB hi = false) := by
  obtain ⟨k, lo, hi, h1, h2, h3, h4, h5, h6⟩ := digitize_spec_aux d hwf v hv
  refine ⟨k, lo, hi, h1, h2, h3, h4, ?_⟩
  unfold scanPred at h5 h6
  cases hr : d.right <;> simp [hr] at h5 h6 ⊢ <;> exact ⟨h5, h6⟩

/-- The same for a plain number, in the usual notation. -/
theorem digitize_spec_plain (d : Digitizer) (hwf : d.WF) (v : X) (hv : v.isFin = true) :
    ∃ (k : Nat) (lo hi : X), digitize d (.x v) = (k : Int) ∧ k < d.nbins ∧
      d.boundaries[k]? = some lo ∧ d.boundaries[k + 1]? = some hi ∧
      (if d.right then X.lt lo v = true ∧ X.le v hi = true else X.le lo v = true ∧ X.lt v hi = true) := by
  obtain ⟨k, lo, hi, h1, h2, h3, h4, h5⟩ := digitize_spec d hwf (.x v) hv
  refine ⟨k, lo, hi, h1, h2, h3, h4, ?_⟩
  cases hr : d.right <;> simp only [hr, Val.gtB, Val.geB, X.le] at h5 ⊢ <;> simpa using h5

/-- **digitize_unique.** The bin is the only one with that property. -/
theorem digitize_unique (d : Digitizer) (hwf : d.WF) (v : Val) (j : Nat) (lo hi : X)
    (hlo : d.boundaries[j]? = some lo) (hhi : d.boundaries[j + 1]? = some hi)
    (h : if d.right then v.gtB lo = true ∧ v.gtB hi = false else v.geB lo = true ∧ v.geB hi = false) :
    digitize d v = (j : Int) := by
  apply digitize_unique_aux d hwf v j lo hi hlo hhi <;> unfold scanPred <;> cases hr : d.right <;> simp [hr] at h ⊢
  · exact h.1
  · exact h.1
  · exact h.2
  · exact h.2

/-- **The table's declared half-open intervals, with clipping.**  For a table built from interval
labels, bin `i` is returned for the finite value `v` exactly when the checker `binOK` accepts it:
`0 ≤ i < n`, `v` is above the declared lower bound of label `i` (strictly iff the labels are
right-closed) unless `i` is the first bin, and below its declared upper bound unless `i` is the last
bin — values beyond the table fall into the outer bins.  (`binOK` is what the driver evaluates on the
bins navis returns.) -/
theorem digitize_iff_declared_interval (ivs : List Interval) (d : Digitizer)
    (h : Digitizer.fromIntervals ivs = some d) (v : X) (hv : v.isFin = true) (i : Int) :
    binOK ivs i v = true ↔ digitize d (.x v) = i :=
  binOK_iff_digitize ivs d h v hv i

/-- Clipping, spelled out: anything up to the first label's upper bound goes to bin 0 … -/
theorem digitize_clips_low (ivs : List Interval) (d : Digitizer) (h : Digitizer.fromIntervals ivs = some d)
    (i0 : Interval) (h0 : ivs.head? = some i0) (v : X) (hv : v.isFin = true)
    (hle : (if i0.right then X.le v i0.hi else X.lt v i0.hi) = true) : digitize d (.x v) = 0 := by
  rw [← binOK_iff_digitize ivs d h v hv 0]
  cases ivs with
  | nil => simp at h0
  | cons j0 rest =>
    simp only [List.head?_cons, Option.some.injEq] at h0; subst h0
    simp [binOK, hle]

/-- … and anything above the last label's lower bound goes to the last bin. -/
theorem digitize_clips_high (ivs : List Interval) (d : Digitizer) (h : Digitizer.fromIntervals ivs = some d)
    (i0 l : Interval) (h0 : ivs.head? = some i0) (hl : ivs.getLast? = some l) (v : X) (hv : v.isFin = true)
    (hge : (if i0.right then X.lt l.lo v else X.le l.lo v) = true) :
    digitize d (.x v) = (ivs.length : Int) - 1 := by
  rw [← binOK_iff_digitize ivs d h v hv]
  cases ivs with
  | nil => simp at h0
  | cons j0 rest =>
    simp only [List.head?_cons, Option.some.injEq] at h0; subst h0
    rw [List.getLast?_eq_getElem?] at hl
    have e : ((((j0 :: rest).length : Nat) : Int) - 1).toNat = (j0 :: rest).length - 1 := by simp
    simp only [binOK, e, hl]
    simp [hge]

/-- A square root is binned like the number it denotes: `sqrt (r²)` goes where `r` goes (`r ≥ 0`). -/
theorem digitize_sqrt_agrees (d : Digitizer) (r : Rat) (hr : 0 ≤ r) :
    digitize d (.sqrt (r * r)) = digitize d (.x (.fin r)) :=
  digitize_sqrt_eq d r hr

/-- Binning is monotone: a larger radicand never lands in a lower bin. -/
theorem digitize_mono_sqrt (d : Digitizer) (s s' : Rat) (h : s ≤ s') :
    digitize d (.sqrt s) ≤ digitize d (.sqrt s') :=
  digitize_mono_aux d _ _ (fun b hb => Val.gtB_sqrt_mono h b hb) (fun b hb => Val.geB_sqrt_mono h b hb)

/-! ## 3. Scores -/

/-- **NBLAST as implemented is the definition.**  Whenever the self hits can be computed, the matrix
`navis.nblast(query, target, scores)` assembles through `NBlaster.append`, `single_query_target`
(index bookkeeping, self-hit lookup, reverse query) and `multi_query_target` is entry for entry the
index-free definition `defNblast`: entry `(i, j)` is `defScore` of query `i` against target `j`. -/
theorem nblast_is_definition (fn : ScoreFn) (cfg : Cfg) (q t : List Dotprops) (mode : Mode) (qs ts : List Rat)
    (hq : allSome (q.map fun n => selfHit fn cfg.useAlpha n.pts) = some qs)
    (ht : allSome (t.map fun n => selfHit fn cfg.useAlpha n.pts) = some ts) :
    nblast fn cfg q t mode = defNblast fn cfg q t mode :=
  nblast_eq_def fn cfg q t mode qs ts hq ht

/-- **labels_follow_input.** Columns carry the target ids in input order; rows carry the query ids in
input order (twice, tagged `forward` / `reverse`, for `scores='both'`). -/
theorem labels_follow_input (fn : ScoreFn) (cfg : Cfg) (q t : List Dotprops) (mode : Mode) (qs ts : List Rat)
    (hq : allSome (q.map fun n => selfHit fn cfg.useAlpha n.pts) = some qs)
    (ht : allSome (t.map fun n => selfHit fn cfg.useAlpha n.pts) = some ts)
    (f : Frame) (h : nblast fn cfg q t mode = some f) :
    f.cols = t.map (·.id) ∧
    f.rows = (if mode = .both then (q.map fun n => [(n.id, "forward"), (n.id, "reverse")]).flatten
              else q.map fun n => (n.id, "")) := by
  rw [nblast_eq_def fn cfg q t mode qs ts hq ht] at h
  unfold defNblast at h
  cases hres : allSome (q.map fun qn => allSome (t.map fun tn => defScore fn cfg qn.pts tn.pts mode)) with
  | none => rw [hres] at h; cases h
  | some res =>
    rw [hres] at h
    simp only [Option.map_some, Option.some.injEq] at h
    subst h
    unfold mkFrame
    split <;> simp [List.map_map, Function.comp_def]

/-- **Ids only label the matrix.**  Re-labelling the neurons — in particular giving a target the id of a
query, ids being unique only within each list — does not change a single score: the self-self
short-cut is keyed on the position in the blaster, never on the id. -/
theorem scores_independent_of_ids (fn : ScoreFn) (cfg : Cfg) (q q' t t' : List Dotprops) (mode : Mode)
    (hq : q.map (·.pts) = q'.map (·.pts)) (ht : t.map (·.pts) = t'.map (·.pts)) :
    (nblast fn cfg q t mode).map (·.vals) = (nblast fn cfg q' t' mode).map (·.vals) := by
  have sq := selfHits_congr fn cfg.useAlpha q q' hq
  have st := selfHits_congr fn cfg.useAlpha t t' ht
  cases hqs : allSome (q.map fun n => selfHit fn cfg.useAlpha n.pts) with
  | none =>
    have h1 : nblast fn cfg q t mode = none := by unfold nblast; rw [hqs]
    have h2 : nblast fn cfg q' t' mode = none := by unfold nblast; rw [← sq, hqs]
    rw [h1, h2]
  | some qs =>
    cases hts : allSome (t.map fun n => selfHit fn cfg.useAlpha n.pts) with
    | none =>
      have h1 : nblast fn cfg q t mode = none := by unfold nblast; rw [hqs, hts]
      have h2 : nblast fn cfg q' t' mode = none := by unfold nblast; rw [← sq, ← st, hqs, hts]
      rw [h1, h2]
    | some ts =>
      rw [nblast_eq_def fn cfg q t mode qs ts hqs hts,
          nblast_eq_def fn cfg q' t' mode qs ts (by rw [← sq]; exact hqs) (by rw [← st]; exact hts)]
      exact defNblast_vals_congr fn cfg q q' t t' mode hq ht

/-- Mode identities: `forward` is the forward score … -/
theorem mode_forward (fn : ScoreFn) (cfg : Cfg) (q t : Cloud) (f : Rat) (hf : defForward fn cfg q t = some f) :
    defScore fn cfg q t .forward = some (.one f) := by
  unfold defScore; rw [hf]

/-- … `mean` is `(forward + reverse) / 2` … -/
theorem mode_mean (fn : ScoreFn) (cfg : Cfg) (q t : Cloud) (f r : Rat) (hf : defForward fn cfg q t = some f)
    (hr : defForward fn cfg t q = some r) : defScore fn cfg q t .mean = some (.one ((f + r) / 2)) := by
  unfold defScore; rw [hf, hr]

/-- … `min` the smaller … -/
theorem mode_min (fn : ScoreFn) (cfg : Cfg) (q t : Cloud) (f r : Rat) (hf : defForward fn cfg q t = some f)
    (hr : defForward fn cfg t q = some r) :
    defScore fn cfg q t .min = some (.one (if r < f then r else f)) := by
  unfold defScore; rw [hf, hr]; rfl

/-- … `max` the larger … -/
theorem mode_max (fn : ScoreFn) (cfg : Cfg) (q t : Cloud) (f r : Rat) (hf : defForward fn cfg q t = some f)
    (hr : defForward fn cfg t q = some r) :
    defScore fn cfg q t .max = some (.one (if f < r then r else f)) := by
  unfold defScore; rw [hf, hr]; rfl

/-- … and `both` the pair, where the reverse score is the forward score of the target against the
query (normalised by the *target's* self hit). -/
theorem mode_both (fn : ScoreFn) (cfg : Cfg) (q t : Cloud) (f r : Rat) (hf : defForward fn cfg q t = some f)
    (hr : defForward fn cfg t q = some r) : defScore fn cfg q t .both = some (.two f r) := by
  unfold defScore; rw [hf, hr]

/-- **self_score_one.** A cloud with pairwise distinct positions and unit tangents, scored against
itself through the full computation (nearest-neighbour search, table lookups, sum, division by the
self hit — the path `nblast(q, q)` takes), gets exactly 1, for every score function, with and without
alpha, with and without a distance limit.  Guard: the self hit is defined and non-zero. -/
theorem self_score_one (fn : ScoreFn) (cfg : Cfg) (c : Cloud) (hn : cfg.normalized = true)
    (hnd : (c.map (·.p)).Nodup) (hunit : ∀ p ∈ c, p.v.dot p.v = 1) (sh : Rat)
    (hsh : selfHit fn cfg.useAlpha c = some sh) (hne : sh ≠ 0) : defForward fn cfg c c = some 1 :=
  defForward_self_norm fn cfg c hn hnd hunit sh hsh hne

/-- Unnormalised, the self score is the self hit `calc_self_hit` computes. -/
theorem self_score_raw (fn : ScoreFn) (cfg : Cfg) (c : Cloud) (hn : cfg.normalized = false)
    (hnd : (c.map (·.p)).Nodup) (hunit : ∀ p ∈ c, p.v.dot p.v = 1) (sh : Rat)
    (hsh : selfHit fn cfg.useAlpha c = some sh) : defForward fn cfg c c = some sh :=
  defForward_self_raw fn cfg c hn hnd hunit sh hsh

/-- The short-cut `q_idx == t_idx` of `single_query_target` returns the literal 1 (normalised) in every mode. -/
theorem self_score_shortcut (fn : ScoreFn) (cfg : Cfg) (nb : Blaster) (i : Nat) (mode : Mode)
    (hn : cfg.normalized = true) : singleQueryTarget fn cfg nb i i mode = some (.one 1) := by
  rw [sqt_diag]; simp [hn]

/-- **allbyall_eq_query_self.** `nblast_allbyall(x)` (every neuron appended once, diagonal by the
short-cut) is the same labelled matrix as `nblast(x, x)` (every neuron appended twice, diagonal
computed), for clouds with distinct positions and unit tangents and non-zero self hits. -/
theorem allbyall_eq_query_self (fn : ScoreFn) (cfg : Cfg) (x : List Dotprops) (hs : List Rat)
    (hh : allSome (x.map fun n => selfHit fn cfg.useAlpha n.pts) = some hs)
    (hnd : ∀ n ∈ x, (n.pts.map (·.p)).Nodup) (hunit : ∀ n ∈ x, ∀ p ∈ n.pts, p.v.dot p.v = 1)
    (hne : cfg.normalized = true → ∀ sh ∈ hs, sh ≠ 0) :
    nblastAllByAll fn cfg x = nblast fn cfg x x .forward :=
  allbyall_eq_nblast_self fn cfg x hs hh hnd hunit hne

/-! ## 4. `normalised ≤ 1` for the shipped tables (facts decided over the *generated* tables) -/

/-- The self-match cell of `smat_fcwb.csv`: row of distance 0, column of dot product 1. -/
def fcwbSelfCell : Rat := cellD Gen.Smat.fcwbCells 0 9

/-- **fcwb_max_cell.** No cell of `smat_fcwb.csv` exceeds the self-match cell, and it is positive. -/
theorem fcwb_max_cell : (∀ row ∈ Gen.Smat.fcwbCells, ∀ c ∈ row, c ≤ fcwbSelfCell) ∧ 0 < fcwbSelfCell := by
  decide +kernel

/-- `table(0, 1.0)` of the default table is that cell. -/
theorem fcwb_self_lookup :
    Gen.Smat.fcwb.bind (fun tb => tb.call (.sqrt 0) (.x (.fin 1))) = some fcwbSelfCell := by
  decide +kernel

/-- **normalised_le_one.** With the default table and without alpha, the normalised forward score of
*any* query cloud against *any* target cloud, with or without a distance limit, is at most 1. -/
theorem normalised_le_one (tb : Lookup2d) (htb : Gen.Smat.fcwb = some tb) (cfg : Cfg)
    (hua : cfg.useAlpha = false) (hn : cfg.normalized = true) (q t : Cloud) (s : Rat)
    (h : defForward tb.call cfg q t = some s) : s ≤ 1 := by
  have hc := (fromDataframe_cells _ _ _ tb htb).1
  have hself := fcwb_self_lookup
  rw [htb] at hself
  exact defForward_le_one_of_max tb fcwbSelfCell (by rw [hc]; exact fcwb_max_cell.1) hself fcwb_max_cell.2
    cfg hua hn q t s h

/-- … in every score mode (`mean`, `min`, `max`, both components of `both`) … -/
theorem normalised_le_one_modes (tb : Lookup2d) (htb : Gen.Smat.fcwb = some tb) (cfg : Cfg)
    (hua : cfg.useAlpha = false) (hn : cfg.normalized = true) (q t : Cloud) (mode : Mode) (sc : Score)
    (h : defScore tb.call cfg q t mode = some sc) : sc.fwd ≤ 1 ∧ sc.rev ≤ 1 :=
  defScore_le_one tb.call cfg q t (normalised_le_one tb htb cfg hua hn q t) (normalised_le_one tb htb cfg hua hn t q) mode sc h

/-- … hence every entry of the matrix `navis.nblast` returns. -/
theorem normalised_le_one_matrix (tb : Lookup2d) (htb : Gen.Smat.fcwb = some tb) (cfg : Cfg)
    (hua : cfg.useAlpha = false) (hn : cfg.normalized = true) (q t : List Dotprops) (mode : Mode) (f : Frame)
    (h : nblast tb.call cfg q t mode = some f) : ∀ row ∈ f.vals, ∀ v ∈ row, v ≤ 1 := by
  intro row hrow v hv
  have hd : defNblast tb.call cfg q t mode = some f := by
    unfold nblast at h
    cases hq : allSome (q.map fun n => selfHit tb.call cfg.useAlpha n.pts) with
    | none => rw [hq] at h; cases h
    | some qs =>
      cases ht : allSome (t.map fun n => selfHit tb.call cfg.useAlpha n.pts) with
      | none => rw [hq, ht] at h; cases h
      | some ts =>
        rw [← nblast_eq_def tb.call cfg q t mode qs ts hq ht]
        unfold nblast; rw [hq, ht]; rw [hq, ht] at h; exact h
  obtain ⟨qn, _, tn, _, sc, hsc, hv'⟩ := defNblast_entries tb.call cfg q t mode f hd row hrow v hv
  have := normalised_le_one_modes tb htb cfg hua hn qn.pts tn.pts mode sc hsc
  rcases hv' with rfl | rfl
  · exact this.1
  · exact this.2

/-! ### With alpha the bound is false (DESIGN §6 #17) — proved part and counter-examples

Full statement (NOT a theorem, refuted below):
`theorem normalised_le_one_alpha (tb) (htb : Gen.Smat.fcwbAlpha = some tb) (cfg) (hua : cfg.useAlpha = true)
   (hn : cfg.normalized = true) (q t : Cloud) (s) (h : defForward tb.call cfg q t = some s) : s ≤ 1`
What is missing: the self hit of a query point looks the alpha table up at dot = `α_q`, and (a) a matched
target point with a larger alpha puts `dot·sqrt(α_q α_t)` into a higher, better scoring dot bin,
(b) even for lower-or-equal bins the self cell (row 0) is only maximal when its column is ≥ 7 (`α_q > 0.7`):
e.g. row `(2.5,4]`, col 0 = 3.62 > row `(0,2.5]`, col 0 = 3.39.  The proved part needs exactly these two
hypotheses; both counter-examples are reproduced on navis by the harness (`known_findings/C06.json`). -/

/-- Table fact for `smat_alpha_fcwb.csv`: a self cell in column `j' ≥ 7` (row 0) dominates every cell of
every row in columns `j ≤ j'`, and is positive. -/
theorem fcwb_alpha_prefix_max :
    (∀ i < 16, ∀ j < 10, ∀ j' < 10, j ≤ j' → 7 ≤ j' →
      cellD Gen.Smat.fcwbAlphaCells i j ≤ cellD Gen.Smat.fcwbAlphaCells 0 j') ∧
    (∀ j' < 10, 7 ≤ j' → 0 < cellD Gen.Smat.fcwbAlphaCells 0 j') := by
  decide +kernel

/-- The global maximum of the alpha table is again the cell (row 0, last column). -/
theorem fcwb_alpha_max_cell :
    ∀ row ∈ Gen.Smat.fcwbAlphaCells, ∀ c ∈ row, c ≤ cellD Gen.Smat.fcwbAlphaCells 0 9 := by
  decide +kernel

theorem fcwb_alpha_shape : Gen.Smat.fcwbAlphaRows.length = 16 ∧ Gen.Smat.fcwbAlphaCols.length = 10 ∧
    Gen.Smat.fcwbAlpha.map (fun tb => digitize tb.ax0 (.sqrt 0)) = some 0 := by
  decide +kernel

/-- **normalised_le_one_alpha_partial.** With the default alpha table the normalised forward score is at
most 1 *provided* every query point's self bin is ≥ 7 (`α_q > 0.7`) and its matched value
`dot·sqrt(α_q α_t)` does not fall into a higher dot bin than its self value `α_q`. -/
theorem normalised_le_one_alpha_partial (tb : Lookup2d) (htb : Gen.Smat.fcwbAlpha = some tb) (cfg : Cfg)
    (hua : cfg.useAlpha = true) (hn : cfg.normalized = true) (q t : Cloud)
    (hyp : ∀ p ∈ q, ∀ m, matchPoint t cfg.bound p = some m →
      digitize tb.ax1 (matchArgs true m).2 ≤ digitize tb.ax1 (.sqrt (p.a * p.a)) ∧
      (7 : Int) ≤ digitize tb.ax1 (.sqrt (p.a * p.a)))
    (s : Rat) (h : defForward tb.call cfg q t = some s) : s ≤ 1 := by
  obtain ⟨hc, h0, h1⟩ := fromDataframe_cells _ _ _ tb htb
  have hshape := fromDataframe_shape _ _ _ tb htb
  have hwf0 := (from_strings_wellformed _ _ h0).1
  have hwf1 := (from_strings_wellformed _ _ h1).1
  have hn0 : tb.ax0.nbins = 16 := by rw [(from_strings_wellformed _ _ h0).2.1]; exact fcwb_alpha_shape.1
  have hn1 : tb.ax1.nbins = 10 := by rw [(from_strings_wellformed _ _ h1).2.1]; exact fcwb_alpha_shape.2.1
  have hz : digitize tb.ax0 (.sqrt 0) = 0 := by
    have := fcwb_alpha_shape.2.2; rw [htb] at this; simpa using this
  apply defForward_le_one_alpha tb hwf0 hwf1 hshape 7 _ _ hz cfg hua hn q t hyp s h
  · rw [hn0, hn1, hc]; exact fcwb_alpha_prefix_max.1
  · rw [hn1, hc]; exact fcwb_alpha_prefix_max.2

/-- The hypothesis on bins in terms of the numbers: it holds for a matched pair whenever
`0 ≤ dot ≤ 1` and the alpha product does not exceed `α_q²` (e.g. `0 ≤ α_t ≤ α_q`). -/
theorem alpha_bins_of_values (d : Digitizer) (m : Match) (a : Rat) (h0 : 0 ≤ m.dot) (h1 : m.dot ≤ 1)
    (ha : m.alpha ≤ a * a) :
    digitize d (matchArgs true m).2 ≤ digitize d (.sqrt (a * a)) := by
  simp only [matchArgs, if_true]
  apply digitize_mono_sqrt
  have : m.dot * m.dot ≤ 1 := by nlinarith
  nlinarith

def witnessLine (y a : Rat) : Cloud :=
  [⟨⟨0, y, 0⟩, ⟨1, 0, 0⟩, a⟩, ⟨⟨1, y, 0⟩, ⟨1, 0, 0⟩, a⟩, ⟨⟨2, y, 0⟩, ⟨1, 0, 0⟩, a⟩, ⟨⟨3, y, 0⟩, ⟨1, 0, 0⟩, a⟩]

def allAboveOne (r : Option Frame) : Bool :=
  match r with
  | some f => f.vals.all (fun row => row.all (fun v => decide (1 < v))) && !f.vals.isEmpty
  | none => false

/-- **Counter-example (a), DESIGN §6 #17.** Four collinear points, unit tangents, query alpha 3/8, target
the same points 1/8 away with alpha 1: the normalised score with the default alpha table exceeds 1. -/
theorem normalised_gt_one_alpha_witness :
    allAboveOne (Gen.Smat.fcwbAlpha.bind fun tb =>
      nblast tb.call ⟨true, true, none⟩ [⟨5, witnessLine 0 (3/8)⟩] [⟨9, witnessLine (1/8) 1⟩] .forward) = true := by
  decide +kernel

/-- **Counter-example (b).** Equal alphas 1/16 on both sides, target 3 away: still above 1, because the
`(2.5,4]` row beats the self-match row in the lowest dot column. -/
theorem normalised_gt_one_alpha_witness_equal_alpha :
    allAboveOne (Gen.Smat.fcwbAlpha.bind fun tb =>
      nblast tb.call ⟨true, true, none⟩ [⟨5, witnessLine 0 (1/16)⟩] [⟨9, witnessLine 3 (1/16)⟩] .forward) = true := by
  decide +kernel

/-! ## 5. Non-vacuity: concrete inputs satisfying the hypotheses -/

def exIvs : List Interval := [⟨.fin 0, .fin (3/4), true⟩, ⟨.fin (3/4), .fin (3/2), true⟩, ⟨.fin (3/2), .fin 2, true⟩]

/-- `from_strings` accepts abutting right-closed labels; a value *on* a boundary goes to the lower bin,
a value beyond the table to the last bin, `sqrt(9/4)` where `3/2` goes. -/
example : (Digitizer.fromIntervals exIvs).map (fun d =>
      (digitize d (.x (.fin (3/4))), digitize d (.x (.fin 5)), digitize d (.sqrt (9/4)), digitize d (.x (.fin (3/2)))))
    = some (0, 2, 1, 1) ∧ binOK exIvs 0 (.fin (3/4)) = true ∧ binOK exIvs 1 (.fin (3/4)) = false := by
  decide +kernel

/-- left-closed labels: the boundary value goes to the upper bin -/
example : (Digitizer.fromIntervals [⟨.fin 0, .fin 1, false⟩, ⟨.fin 1, .fin 2, false⟩]).map
    (fun d => digitize d (.x (.fin 1))) = some 1 := by decide +kernel

/-- the hypotheses of `self_score_one` / `allbyall_eq_query_self` are satisfiable with the default table -/
example : ((witnessLine 0 1).map (·.p)).Nodup ∧ (∀ p ∈ witnessLine 0 1, p.v.dot p.v = 1) ∧
    (Gen.Smat.fcwb.bind fun tb => selfHit tb.call false (witnessLine 0 1)) = some (4 * fcwbSelfCell) ∧
    (4 * fcwbSelfCell ≠ 0) := by
  decide +kernel

/-- … and the conclusion is what the model computes on that input (self score 1, off-diagonal < 1). -/
example : (Gen.Smat.fcwb.bind fun tb => nblast tb.call ⟨false, true, none⟩
      [⟨5, witnessLine 0 1⟩, ⟨9, witnessLine 3 1⟩] [⟨5, witnessLine 0 1⟩] .forward).map (·.vals.map (·.map (decide <| · = 1)))
    = some [[true], [false]] := by
  decide +kernel

/-- a target carrying the query's id but a different geometry is *not* scored as a self match -/
example : (Gen.Smat.fcwb.bind fun tb => nblast tb.call ⟨false, true, none⟩
      [⟨5, witnessLine 0 1⟩] [⟨5, witnessLine 3 1⟩] .forward).map (·.vals.map (·.map (decide <| · < 1)))
    = some [[true]] := by
  decide +kernel

/-- the hypothesis of `normalised_le_one_alpha_partial` is satisfiable: alpha 1 on both sides -/
example : (Gen.Smat.fcwbAlpha.bind fun tb => some ((witnessLine 0 1).all fun p =>
      match matchPoint (witnessLine (1/8) 1) none p with
      | some m => decide (digitize tb.ax1 (matchArgs true m).2 ≤ digitize tb.ax1 (.sqrt (p.a * p.a))) &&
                  decide ((7 : Int) ≤ digitize tb.ax1 (.sqrt (p.a * p.a)))
      | none => false)) = some true := by
  decide +kernel

/-! ## 6. The cached kd-tree of a target always describes its current coordinates

`Dotprops.dist_dots(other)` asks `other.kdtree`; the property caches the index in `_tree`.  The model
(`Model/DpCache.lean`) tags the cached tree with the geometry it was built from; which code paths drop the
tree is re-extracted from the source (`Gen/DpTree.lean`): today all of them do.  "Every query point is matched to its nearest
target point" therefore holds along every history of operations on the same objects, not only for freshly
built dotprops. -/
section KdTree
open Navis.DpCache

/-- The `kdtree` property builds the index from `self.points` when `_tree` is missing / `None`, stores it
in `_tree` and returns the stored object; `dist_dots` queries the target through that property. -/
theorem source_kdtree_property :
    Gen.DpTree.kdtreeBuildsFromPoints = true ∧ Gen.DpTree.kdtreeStores = true ∧
    Gen.DpTree.kdtreeRebuildsWhenMissing = true ∧ Gen.DpTree.kdtreeReturnsCache = true ∧
    Gen.DpTree.distDotsQueriesOtherKdtree = true := by decide

/-- `copy()` does not carry `_tree` over, `__getstate__` drops a pykdtree index: copies and unpickled
objects start without a tree (the model's `copy` / `pickle false` events). -/
theorem source_copy_pickle_drop_tree :
    Gen.DpTree.copyDropsTree = true ∧ Gen.DpTree.getstateDropsPykdtree = true := by decide

/-- **In-place arithmetic and the `points` setter drop the cached tree** — as the source is written now:
`__add__ / __sub__ / __mul__ / __truediv__` (what `+=`, `-=`, `*=`, `/=` and `convert_units` run with
`copy=False`) and `points.setter`.  Replacing the `delattr(n, '_tree')` by something that does not remove
`_tree` (e.g. `_clear_temp_attr()` while `_tree` is not in `TEMP_ATTR`) breaks this theorem. -/
theorem source_arithmetic_invalidates :
    ∀ m ∈ [Method.add, .sub, .mul, .truediv, .setPoints], Gen.DpTree.invalOpt m = some true := by decide

/-- **Every function that writes Dotprops coordinates invalidates the cached tree** (through `delattr`,
`_tree = None`, the `points` setter, a registered temporary attribute, or because it writes into a copy it
has just made) — without exception (`_downsample_dotprops` and `_subset_dotprops`, which used to mask
`_points` directly, go through the `points` setter since a981784 / 757ee4b).  A new writer that forgets
the invalidation, or an existing one that loses it, makes this fail. -/
theorem source_writers_invalidate :
    ∀ w ∈ Gen.DpTree.writers, w.2.2.2.1 = true := by decide

/-- **Every modelled coordinate-changing code path drops the cached tree**: arithmetic, the setter,
`downsample` and `subset_neuron`. -/
theorem source_all_methods_invalidate :
    ∀ m ∈ Method.all, Gen.DpTree.invalOpt m = some true := by decide

/-- The extraction did see the writers the model's events stand for. -/
theorem source_writers_found :
    ∀ n ∈ ["Dotprops.__add__", "Dotprops.__sub__", "Dotprops.__mul__", "Dotprops.__truediv__",
           "Dotprops.points.setter", "sampling.downsampling._downsample_dotprops",
           "morpho.subset._subset_dotprops"], n ∈ Gen.DpTree.writers.map (·.1) := by decide

/-- **history_tree_fresh.** Along every history of kd-tree reads, tangent reads, in-place coordinate
changes, copies and pickle round trips on any number of objects in which every in-place change goes through
an invalidating code path, the invariant "no tree, or a tree built from the current coordinates" holds for
every object at the end, and every single kd-tree query was answered by a tree of the then-current
geometry. -/
theorem history_tree_fresh {G : Type} (inv : Method → Bool) (evs : List (Ev G)) (s : List (Obj G))
    (hs : ∀ o ∈ s, o.Fresh) (hsafe : safe inv evs = true) :
    (∀ o ∈ (run inv s evs).1, o.Fresh) ∧ ∀ p ∈ (run inv s evs).2, p.1 = p.2 :=
  run_fresh inv evs s hs hsafe

/-- Histories whose in-place changes are arithmetic (`+= -= *= /=`, unit conversion) or `points = …`. -/
def arithOnly {G : Type} (evs : List (Ev G)) : Bool :=
  evs.all fun e => match e with
    | .mutate m _ _ => decide (m ∈ [Method.add, .sub, .mul, .truediv, .setPoints])
    | _ => true

theorem safe_of_arithOnly {G : Type} (evs : List (Ev G)) (h : arithOnly evs = true) :
    safe Gen.DpTree.inval evs = true := by
  unfold arithOnly at h
  unfold safe
  rw [List.all_eq_true] at h ⊢
  intro e he
  have := h e he
  cases e with
  | mutate m i g =>
    simp only [decide_eq_true_eq] at this
    have := source_arithmetic_invalidates m this
    simp [Gen.DpTree.inval, this]
  | _ => rfl

/-- **The same for navis as the source is written now**: whatever mixture of NBLAST calls (tree reads),
lazy tangent computations, in-place arithmetic, `points` assignments, copies (= out-of-place arithmetic,
`downsample(inplace=False)` on eager dotprops, …) and pickle round trips — the tree a query uses is always
one of the current coordinates. -/
theorem history_tree_fresh_source {G : Type} (evs : List (Ev G)) (s : List (Obj G))
    (hs : ∀ o ∈ s, o.Fresh) (h : arithOnly evs = true) :
    (∀ o ∈ (run Gen.DpTree.inval s evs).1, o.Fresh) ∧ ∀ p ∈ (run Gen.DpTree.inval s evs).2, p.1 = p.2 :=
  run_fresh _ evs s hs (safe_of_arithOnly evs h)

/-- With the source as it is now EVERY history is safe … -/
theorem every_history_safe {G : Type} (evs : List (Ev G)) : safe Gen.DpTree.inval evs = true := by
  unfold safe
  rw [List.all_eq_true]
  intro e _
  cases e with
  | mutate m i g =>
    have hm : m ∈ Method.all := by cases m <;> simp [Method.all]
    have := source_all_methods_invalidate m hm
    simp [Gen.DpTree.inval, this]
  | _ => rfl

/-- **… so, unconditionally: along every history** of NBLAST calls (tree reads), lazy tangent
computations, in-place and out-of-place arithmetic, `points` assignments, `downsample`, `subset_neuron`
(in place or on a copy, eager or lazy tangents), copies and pickle round trips, on any number of objects
that start without a stale tree, **every kd-tree query is answered by a tree built from the coordinates the
object has at that moment**, and no object is left with a stale tree. -/
theorem history_tree_always_fresh {G : Type} (evs : List (Ev G)) (s : List (Obj G))
    (hs : ∀ o ∈ s, o.Fresh) :
    (∀ o ∈ (run Gen.DpTree.inval s evs).1, o.Fresh) ∧ ∀ p ∈ (run Gen.DpTree.inval s evs).2, p.1 = p.2 :=
  run_fresh _ evs s hs (every_history_safe evs)

/-- A freshly constructed object (no tree) satisfies the invariant. -/
theorem new_object_fresh {G : Type} (g : G) (l : Bool) : (⟨g, none, l⟩ : Obj G).Fresh := Or.inl rfl

/-- **dist_dots through a fresh tree is the definition's match**: index / distance from the tree, tangent
and alpha from the current arrays — when the tree was built from the current positions this is
`matchPoint`, for every query point, bound and cloud. -/
theorem dist_dots_via_fresh_tree (cur : Cloud) (bound : Option Rat) (qp : Pt) :
    matchPointVia (cur.map (·.p)) cur bound qp = matchPoint cur bound qp :=
  matchPointVia_fresh cur bound qp

/-- **Scores along a history equal the definition on the current state.**  For every tree query logged by a
safe history (geometry = list of positions), scoring any query cloud against the target's *current* cloud
through the tree that answered is the definition's forward raw score on the current cloud. -/
theorem history_target_score_is_definition (inv : Method → Bool) (evs : List (Ev (List V3)))
    (s : List (Obj (List V3))) (hs : ∀ o ∈ s, o.Fresh) (hsafe : safe inv evs = true)
    (p : List V3 × List V3) (hp : p ∈ (run inv s evs).2)
    (fn : ScoreFn) (cfg : Cfg) (q cur : Cloud) (hcur : cur.map (·.p) = p.2) :
    pairRawVia fn cfg q p.1 cur = pairRaw fn cfg q cur := by
  have := (run_fresh inv evs s hs hsafe).2 p hp
  rw [this, ← hcur]
  exact pairRawVia_fresh fn cfg q cur

/-- **Historical — what navis did before a981784 / 757ee4b** (a statement about the model under a
hypothetical flag `inv .downsample = false`; the flag extracted from the current source is `true`, see
`source_all_methods_invalidate`, so this no longer describes the code): an object that has been a target,
then `downsample(inplace=True)` through a writer that keeps `_tree`, then a target again, is queried through
the tree of its OLD coordinates … -/
theorem stale_tree_after_downsample (inv : Method → Bool) (h : inv .downsample = false) :
    (run inv [(⟨0, none, false⟩ : Obj Nat)] [.use 0, .mutate .downsample 0 1, .use 0]).2 = [(0, 0), (0, 1)] := by
  simp [run, step, upd, Obj.mutate, Obj.ensure, Obj.used, Method.needsTangents, h]

/-- … and (historical as well) with lazy tangents a single such `downsample` was enough, because
`_downsample_dotprops` computes the tangents — and with them the tree — right before it masks the points
(it still does; the setter now drops that tree again). -/
theorem stale_tree_after_lazy_downsample (inv : Method → Bool) (h : inv .downsample = false) :
    (run inv [(⟨0, none, true⟩ : Obj Nat)] [.mutate .downsample 0 1, .use 0]).2 = [(0, 0), (0, 1)] := by
  simp [run, step, upd, Obj.mutate, Obj.ensure, Obj.resolve, Obj.used, Method.needsTangents, h]

/-- Why the invariant matters (what a stale tree would do to `dist_dots`, concrete): a tree of three old
positions with one current point —
the query next to old point 2 gets index 2, `other.vect[2]` does not exist (IndexError); the query next to
old point 0 silently gets a wrong distance. -/
example :
    matchPointVia [⟨0, 0, 0⟩, ⟨5, 0, 0⟩, ⟨9, 0, 0⟩] [⟨⟨9, 0, 0⟩, ⟨1, 0, 0⟩, 1⟩] none ⟨⟨8, 0, 0⟩, ⟨1, 0, 0⟩, 1⟩ = none ∧
    (matchPointVia [⟨0, 0, 0⟩, ⟨5, 0, 0⟩, ⟨9, 0, 0⟩] [⟨⟨9, 0, 0⟩, ⟨1, 0, 0⟩, 1⟩] none ⟨⟨1, 0, 0⟩, ⟨1, 0, 0⟩, 1⟩).map (·.d2) = some 1 ∧
    (matchPoint [⟨⟨9, 0, 0⟩, ⟨1, 0, 0⟩, 1⟩] none ⟨⟨1, 0, 0⟩, ⟨1, 0, 0⟩, 1⟩).map (·.d2) = some 64 := by
  decide +kernel

/-- non-vacuity: an arithmetic-only history with reads in between is `arithOnly`, and its log is fresh -/
example : arithOnly ([.use 0, .mutate .add 0 1, .use 0, .copy 0, .mutate .mul 1 2, .use 1, .pickle false 0, .use 2] : List (Ev Nat)) = true ∧
    (run Gen.DpTree.inval [(⟨0, none, false⟩ : Obj Nat)]
      [.use 0, .mutate .add 0 1, .use 0, .copy 0, .mutate .mul 1 2, .use 1, .pickle false 0, .use 2]).2 =
      [(0, 0), (1, 1), (2, 2), (1, 1)] := by
  decide

/-- non-vacuity of `history_tree_always_fresh`: the histories of the former findings — cached target then
`downsample` in place; lazy tangents then `downsample` on the copy; `subset_neuron` — now log only fresh
queries with the flags of the current source -/
example :
    (run Gen.DpTree.inval [(⟨0, none, false⟩ : Obj Nat)] [.use 0, .mutate .downsample 0 1, .use 0]).2 = [(0, 0), (1, 1)] ∧
    (run Gen.DpTree.inval [(⟨0, none, true⟩ : Obj Nat)] [.copy 0, .mutate .downsample 1 1, .use 1]).2 = [(0, 0), (1, 1)] ∧
    (run Gen.DpTree.inval [(⟨0, none, false⟩ : Obj Nat)] [.use 0, .mutate .subset 0 1, .use 0]).2 = [(0, 0), (1, 1)] := by
  decide

end KdTree

/-! ## 7. Self score with coincident points -/
section Dup
open Navis.DpCache

/-- **self_score_one_dup.** `self_score_one` does not need pairwise distinct positions: it is enough that
points sharing a position carry the same tangent up to sign and the same alpha (then whichever of them the
nearest-neighbour search returns, the matched pair scores like the point with itself).  Unit tangents and
distinct positions are the special case `consistentDup_of_nodup`. -/
theorem self_score_one_dup (fn : ScoreFn) (cfg : Cfg) (c : Cloud) (hn : cfg.normalized = true)
    (hc : ConsistentDup c) (sh : Rat) (hsh : selfHit fn cfg.useAlpha c = some sh) (hne : sh ≠ 0) :
    defForward fn cfg c c = some 1 := by
  unfold defForward
  rw [pairRaw_self_dup_eq_selfHit fn cfg c hc sh hsh, hsh]
  simp [hn, normalise, hne]

/-- … and raw: the self hit. -/
theorem self_score_raw_dup (fn : ScoreFn) (cfg : Cfg) (c : Cloud) (hn : cfg.normalized = false)
    (hc : ConsistentDup c) (sh : Rat) (hsh : selfHit fn cfg.useAlpha c = some sh) :
    defForward fn cfg c c = some sh := by
  unfold defForward
  rw [pairRaw_self_dup_eq_selfHit fn cfg c hc sh hsh]
  simp [hn]

/-- The guard is needed: two coincident points with orthogonal tangents, scored against itself through the
nearest-neighbour search, do NOT reach the self hit (the first point is matched to itself, the second one
to the first) — the score depends on which of the coincident points the kd-tree returns, so only the
`q_idx == t_idx` short-cut gives exactly 1 there. -/
example : (Gen.Smat.fcwb.bind fun tb => defForward tb.call ⟨false, true, none⟩
      [⟨⟨0, 0, 0⟩, ⟨1, 0, 0⟩, 1⟩, ⟨⟨0, 0, 0⟩, ⟨0, 1, 0⟩, 1⟩]
      [⟨⟨0, 0, 0⟩, ⟨1, 0, 0⟩, 1⟩, ⟨⟨0, 0, 0⟩, ⟨0, 1, 0⟩, 1⟩]).map (decide <| · < 1) = some true := by
  decide +kernel

/-- non-vacuity of `ConsistentDup` with a genuine duplicate (antiparallel tangents) -/
example : ConsistentDup [⟨⟨0, 0, 0⟩, ⟨1, 0, 0⟩, 1/2⟩, ⟨⟨0, 0, 0⟩, ⟨-1, 0, 0⟩, 1/2⟩, ⟨⟨1, 0, 0⟩, ⟨0, 1, 0⟩, 1⟩] := by
  unfold ConsistentDup; decide +kernel

end Dup

/-! ## 8. `nblast_smart`: which definition each cell equals -/
section Smart
open Navis.DpCache

/-- The pre-NBLAST clouds: `downsample(10)` keeps the points `0, f, 2f, …` — `ceil(n / f)` of them —
with their tangents and alphas (clouds of at most `f` points are left alone). -/
theorem downsample_simple_spec (f : Nat) (c : Cloud) (hf : 0 < f) (h : f < c.length) :
    (downsampleSimple f c).length = (c.length + f - 1) / f ∧
    ∀ i < (c.length + f - 1) / f, (downsampleSimple f c)[i]? = c[i * f]? :=
  ⟨downsampleSimple_length f c hf h, fun i hi => downsampleSimple_get f c hf h i hi⟩

/-- A cell the mask selects is the score of the full NBLAST definition, in every mode … -/
theorem smart_refined_cell (fn : ScoreFn) (cfg : Cfg) (mode : Mode) (q t : Cloud) :
    smartCell fn cfg mode true q t = defScore fn cfg q t mode := by
  simp [smartCell]

/-- … so a threshold every pair passes makes `nblast_smart` the plain NBLAST; and for clouds of at most 10
points the pre-NBLAST *is* the full NBLAST, whatever the mask. -/
theorem smart_small_clouds (fn : ScoreFn) (cfg : Cfg) (mode : Mode) (sel : Bool) (q t : Cloud)
    (hq : q.length ≤ 10) (ht : t.length ≤ 10) : smartCell fn cfg mode sel q t = defScore fn cfg q t mode := by
  unfold smartCell
  rw [downsampleSimple_small 10 q hq, downsampleSimple_small 10 t ht]
  cases sel <;> rfl

example : (downsampleSimple 10 ((List.range 25).map fun (i : Nat) => (⟨⟨(i : Rat), 0, 0⟩, ⟨1, 0, 0⟩, 1⟩ : Pt))).map (·.p.x) = [0, 10, 20] := by
  decide +kernel

end Smart

end Navis.Props.C06
