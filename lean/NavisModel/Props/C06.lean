import NavisModel.Model.Nblast
import NavisModel.Gen.Smat
namespace Navis.Props.C06
open Navis.Nblast
theorem stub : sideOfRight true = Side.left := rfl
end Navis.Props.C06
