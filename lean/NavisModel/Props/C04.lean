import NavisModel.Model.Backends
import NavisModel.Proofs.WfB
import NavisModel.Model.CutVariants
import NavisModel.Proofs.CutEquivLemmas
import NavisModel.Proofs.StrahlerSweepFixLemmas
import NavisModel.Proofs.BackendLemmas
import NavisModel.Proofs.SegmentVariantsLemmas
import NavisModel.Proofs.FlowVariantsLemmas
import NavisModel.Proofs.ComponentLemmas
import NavisModel.Model.BackendOps
import NavisModel.Props.C01
import NavisModel.Props.C05
import NavisModel.Props.C17
/-!
# C04 — results do not depend on the compute back-end

Where the igraph and networkx code paths derive the same object differently, the two derivations are
modelled side by side and proved equal for every well-formed, correctly labelled table.  (fastcore is
compiled code: it is tied to the same single model by differential testing only.)
-/
namespace Navis.Props.C04
open Navis.Forest

/-- The igraph builder (row positions + `node_id` attribute) encodes exactly the edges of the
networkx builder (ids): translating positions back through the attribute gives the id pairs, for
every table with unique ids whose parents are present — any labelling, any row order. -/
theorem edges_igraph_eq_nx (t : Table) (hw : WF t) : (idxEdges t).map (relabel t) = idEdges t := by
  have hnd := hw.1
  have hpar := WF_parents hw
  unfold idxEdges idEdges edges relabel
  rw [List.map_map]
  -- go through the indexed rows
  have key : ∀ (l : Table) (k : Nat), (∀ n ∈ l, n ∈ t) → (∀ j (h : j < l.length), (ids t)[k + j]? = some (l[j].id)) →
      ((l.zipIdx k).filter fun p => !isRootNode p.1).map
        ((fun e : Nat × Nat => ((ids t).getD e.1 (-1), (ids t).getD e.2 (-1))) ∘ fun p => (p.2, (ids t).idxOf p.1.parent))
      = (l.filter fun n => !isRootNode n).map fun n => (n.id, n.parent) := by
    intro l
    induction l with
    | nil => intros; rfl
    | cons a l ih =>
      intro k hmem hidx
      rw [List.zipIdx_cons]
      have hrest := ih (k + 1) (fun n hn => hmem n (by simp [hn])) (fun j h => by
        have := hidx (j + 1) (by simp; omega)
        simpa [Nat.add_assoc, Nat.add_comm 1 j] using this)
      by_cases hr : isRootNode a
      · simp only [List.filter_cons, hr, Bool.not_true, Bool.false_eq_true, if_false]
        exact hrest
      · simp only [List.filter_cons, hr, Bool.not_false, if_true, List.map_cons, Function.comp]
        rw [hrest]
        congr 1
        have h0 := hidx 0 (by simp)
        simp only [Nat.add_zero, List.getElem_cons_zero] at h0
        have hp : a.parent ∈ ids t := by
          rcases hpar a (hmem a (by simp)) with h | h
          · simp [isRootNode] at hr; omega
          · exact h
        have hlt := List.idxOf_lt_length_of_mem hp
        simp only [List.getD_eq_getElem?_getD, h0, Option.getD_some, List.getElem?_eq_getElem hlt,
          List.getElem_idxOf hlt]
  have := key t 0 (fun n hn => hn) (fun j h => by
    simp only [Nat.zero_add]
    rw [List.getElem?_eq_getElem (by simpa using h)]
    simp [ids])
  simpa using this

/-- Degree-based and parent-column-based classification agree on every node of every table. -/
theorem classify_old_eq_new (t : Table) (n : Node) : classifyOldNode t n = classifyNode t n := by
  rw [classifyNode_eq_labelOf]
  unfold classifyOldNode labelOf
  by_cases h : n.parent < 0
  · simp [h]
  · simp only [h, if_false, decide_false, Bool.false_eq_true]
    by_cases h1 : childCount t n.id > 1
    · have h2 : ¬ childCount t n.id = 0 := by omega
      have h3 : ¬ childCount t n.id = 1 := by omega
      simp [h1, h2, h3]
    · by_cases h0 : childCount t n.id = 0
      · simp [h0]
      · have h3 : childCount t n.id = 1 := by omega
        simp [h3]

/-- With correct labels the two variants of `_break_segments` start from the same seeds and stop at
the same stops. -/
theorem break_seeds_agree (t : Table) (hl : labelsOKB t = true) :
    seedsIgraph t = seedsNx t ∧ stopsIgraph t = stopsNx t := by
  rw [labelsOKB_iff] at hl
  unfold seedsIgraph seedsNx stopsIgraph stopsNx
  constructor
  · congr 1
    apply List.filter_congr
    intro n hn
    rw [hl n hn]
    unfold labelOf isRootNode
    by_cases h : n.parent < 0
    · simp [h]
    · by_cases h0 : childCount t n.id = 0
      · simp [h, h0]
      · by_cases h1 : childCount t n.id = 1
        · simp [h, h1]
        · have : childCount t n.id > 1 := by omega
          simp [h, h0, h1, this]
  · congr 1
    apply List.filter_congr
    intro n hn
    rw [hl n hn]
    unfold labelOf isRootNode
    by_cases h : n.parent < 0
    · simp [h]
    · by_cases h0 : childCount t n.id = 0
      · simp [h, h0]
      · by_cases h1 : childCount t n.id = 1
        · simp [h, h1]
        · have : childCount t n.id > 1 := by omega
          simp [h, h0, h1, this]

/-! ### `cut`: reverse BFS (networkx) versus decomposition after deleting one edge (igraph)

`distalSet t c` is what `_cut_networkx` computes (descendants-or-self of `c`, by walking the edges
backwards); `distalByDecompose t c` is what `_cut_igraph` computes (delete the edge from `c` to its
parent, take the connected component of `c`). -/

/-- `distalSet ⊆ distalByDecompose`: descendants of `c` are connected to `c` without the deleted edge. -/
theorem cut_bfs_sub_decompose (t : Table) (hw : WF t) (c i : Int) (h : i ∈ distalSet t c) :
    i ∈ distalByDecompose t c := Navis.CutEquiv.distal_sub_decompose hw h

/-- `distalByDecompose ⊆ distalSet`: an undirected path that leaves the subtree of `c` must cross the
deleted edge, because every other edge joins a node to its parent and "distal to `c`" is carried
across such an edge in both directions. -/
theorem cut_decompose_sub_bfs (t : Table) (hw : WF t) (c i : Int) (h : i ∈ distalByDecompose t c) :
    i ∈ distalSet t c := Navis.CutEquiv.decompose_sub_distal hw h

/-- **The two back-ends cut off the same set** — for every well-formed forest and *every* `c`
(present or not, root or not, any number of roots). -/
theorem cut_bfs_eq_decompose_any (t : Table) (hw : WF t) (c : Int) :
    ∀ i, i ∈ distalByDecompose t c ↔ i ∈ distalSet t c :=
  fun i => ⟨cut_decompose_sub_bfs t hw c i, cut_bfs_sub_decompose t hw c i⟩

/-- … in the form the design asks for: one root, `c` a node other than the root. -/
theorem cut_bfs_eq_decompose (t : Table) (hw : WF t) (_hroot : (roots t).length = 1) (c : Int) (_hc : c ∈ ids t)
    (_hnr : c ∉ roots t) : ∀ i, i ∈ distalByDecompose t c ↔ i ∈ distalSet t c :=
  cut_bfs_eq_decompose_any t hw c

/-- Neither list repeats a node, so they are equal up to order. -/
theorem cut_bfs_perm_decompose (t : Table) (hw : WF t) (c : Int) :
    (distalByDecompose t c).Perm (distalSet t c) := by
  apply (List.perm_ext_iff_of_nodup ?_ ?_).mpr (cut_bfs_eq_decompose_any t hw c)
  · unfold distalByDecompose
    cases parentOf t c with
    | none => exact List.nodup_nil
    | some p => exact Navis.CutEquiv.componentOf_nodup _ _ _
  · unfold distalSet; exact hw.1.filter _

/-- Hence the whole `cut` is back-end independent: both fragments are identical tables (same rows,
same order, same repaired parents, same labels). -/
theorem cut_decompose_eq_cut (t : Table) (hw : WF t) (c : Int) : cutByDecompose t c = cut t c := by
  have hk : ∀ i, (distalByDecompose t c).contains i = (distalSet t c).contains i := by
    intro i
    have := cut_bfs_eq_decompose_any t hw c i
    by_cases h : i ∈ distalSet t c
    · simp [h, this.mpr h]
    · have h' : i ∉ distalByDecompose t c := fun h' => h (this.mp h')
      simp [h, h']
  unfold cutByDecompose cut
  cases find? t c with
  | none => rfl
  | some nc =>
    simp only
    split
    · rfl
    · have e1 : (fun i => (distalByDecompose t c).contains i) = fun i => (distalSet t c).contains i := funext hk
      have e2 : (fun i => !(distalByDecompose t c).contains i || i == c) =
          fun i => !(distalSet t c).contains i || i == c := funext fun i => by rw [hk i]
      rw [e1, e2]

/-! ### Strahler index: the pure-Python sweep (igraph and networkx back-ends) versus the recurrence

`Sweep.sweep` (`Model/StrahlerSweep.lean`) is `mmetrics.strahler_index` without navis-fastcore, as written:
a work *set* seeded with the end nodes from which an arbitrary element is popped (`pick` is the choice
oracle — any function of the loop state), the index chosen from the children's indices, the walk towards
the root through every node that is neither negative nor a branch node (forking roots are branch nodes,
non-forking roots are walked through, `>= 0` so node id 0 is an ordinary node), the readiness test at the
node where the walk stopped, isolated roots never visited (default 1), then the fix-up of ignored twigs.
`none` would be a `KeyError` / `IndexError` / non-termination.  `strahler` is the structural recurrence of
C17 (`Props.C17.strahler_recurrence`), which is what navis-fastcore is compared with. -/

/-- **The sweep computes the recurrence** — for every well-formed, correctly labelled forest (any
labelling, row order, number of roots, isolated nodes, node id 0), both methods and EVERY pop order: the
Python code raises no `KeyError`, terminates, and returns the structural Strahler index at every node. -/
theorem strahler_sweep_eq_rec (t : Table) (hw : WF t) (hl : labelsOKB t = true) (g : Bool) (pick : Sweep.St → Nat) :
    ∃ col, Sweep.sweep t g [] pick = some col ∧ ∀ i ∈ ids t, col i = strahler t g [] i :=
  Sweep.sweep_eq hw hl g [] (by simp) pick

/-- … hence its column obeys the recurrence at every node, roots (forking or not) included. -/
theorem strahler_sweep_obeys_recurrence (t : Table) (hw : WF t) (hl : labelsOKB t = true) (g : Bool)
    (pick : Sweep.St → Nat) :
    ∃ col, Sweep.sweep t g [] pick = some col ∧
      ∀ i ∈ ids t, col i = strahlerRule g ((children t i).map col) := by
  obtain ⟨col, h1, h2⟩ := strahler_sweep_eq_rec t hw hl g pick
  refine ⟨col, h1, fun i hi => ?_⟩
  have e : strahler t g [] = strahlerRaw t g [] (t.length + 1) := funext (Flow.strahler_nil t g)
  rw [h2 i hi, e, Flow.strahlerRaw_rec_nil hw g hi]
  congr 1
  apply List.map_congr_left
  intro c hc
  rw [h2 c (Flow.child_facts hw hi hc).1, e]

/-- **The result does not depend on the order in which the work set is popped** (Python pops an arbitrary
element of a `set`). -/
theorem strahler_sweep_order_independent (t : Table) (hw : WF t) (hl : labelsOKB t = true) (g : Bool)
    (pick pick' : Sweep.St → Nat) :
    ∃ col col', Sweep.sweep t g [] pick = some col ∧ Sweep.sweep t g [] pick' = some col' ∧
      ∀ i ∈ ids t, col i = col' i := by
  obtain ⟨col, h1, h2⟩ := strahler_sweep_eq_rec t hw hl g pick
  obtain ⟨col', h1', h2'⟩ := strahler_sweep_eq_rec t hw hl g pick'
  exact ⟨col, col', h1, h1', fun i hi => by rw [h2 i hi, h2' i hi]⟩

/-- The dictionary before the fix-up is the raw recurrence with the ignore list (an ignored end node
contributes 0). -/
theorem strahler_sweep_raw (t : Table) (hw : WF t) (hl : labelsOKB t = true) (g : Bool) (ign : List Int)
    (hign : ∀ l ∈ ign, l ∈ ids t → l ∈ Sweep.endNodes t) (pick : Sweep.St → Nat) :
    ∃ si, Sweep.sweepRaw t g ign pick = some si ∧
      ∀ i ∈ ids t, Sweep.siGetD si i = strahlerRaw t g ign (t.length + 1) i :=
  Sweep.sweepRaw_eq hw hl g ign hign pick

/-- With `to_ignore`: sweep + "fix branches that were ignored" is the model's final index (ignored twigs
take the index of the branch they hang on).
`_partial`: `to_ignore` is restricted to end nodes (typed `end`; ids that are not in the table are
harmless).  The docstring also allows the first node of an *inner* branch; the Python sweep then zeroes
that whole branch, which the C17 model (`strahler`, ignoring twigs only) does not describe — not covered. -/
theorem strahler_sweep_ignore_partial (t : Table) (hw : WF t) (hl : labelsOKB t = true) (g : Bool) (ign : List Int)
    (hign : ∀ l ∈ ign, l ∈ ids t → l ∈ Sweep.endNodes t) (pick : Sweep.St → Nat) :
    ∃ col, Sweep.sweep t g ign pick = some col ∧ ∀ i ∈ ids t, col i = strahler t g ign i :=
  Sweep.sweep_eq hw hl g ign hign pick

/-- With `min_twig_size = k`: the list the Python code appends to `to_ignore` is the model's `shortTwigs`,
and the result is the model's index for `ign ++ shortTwigs t k`. -/
theorem strahler_sweep_min_twig (t : Table) (hw : WF t) (hl : labelsOKB t = true) (g : Bool) (ign : List Int) (k : Nat)
    (hk : k ≠ 0) (hign : ∀ l ∈ ign, l ∈ ids t → l ∈ Sweep.endNodes t) (pick : Sweep.St → Nat) :
    ∃ col, Sweep.sweep t g (Sweep.ignoreList t ign k) pick = some col ∧
      ∀ i ∈ ids t, col i = strahler t g (ign ++ shortTwigs t k) i := by
  obtain ⟨col, h1, h2⟩ := Sweep.sweep_eq hw hl g _ (Sweep.ignoreList_ends ign k hign) pick
  refine ⟨col, h1, fun i hi => ?_⟩
  rw [h2 i hi, Sweep.ignoreList_eq_shortTwigs hl ign k, if_neg hk]

/-! ### the two Python segment builders (`Model/SegmentVariants.lean`)

The igraph variants work on ROW POSITIONS of the graph built by `neuron2igraph` (`idxEdges`; `end` / `branch` /
`root` from in- and out-degrees; positions translated back through the `node_id` attribute at the end), the
networkx variants on NODE IDS of the graph built by `neuron2nx` (`idEdges`; seeds / stops from the `type`
column).  `none` would be an `IndexError` / `KeyError` / `NetworkXError` / non-termination. -/

/-- `_break_segments`, networkx variant, is exactly the C05 model `smallSegments` (same list, same order). -/
theorem break_segments_nx_eq_model (t : Table) (hw : WF t) (hl : labelsOKB t = true) :
    SegVar.breakNx t = some (smallSegments t) := SegVar.breakNx_eq t hw hl

/-- `_break_segments`, igraph variant: whatever order Python iterates the seed *set* in, the result is a
permutation of the same small segments. -/
theorem break_segments_igraph_perm_model (t : Table) (hw : WF t) (hl : labelsOKB t = true) (seeds : List Nat)
    (hs : seeds.Perm (SegVar.seedsIdx t)) :
    ∃ segs, SegVar.breakIgraphFrom t seeds = some segs ∧ segs.Perm (smallSegments t) :=
  SegVar.breakIgraphFrom_perm t hw hl seeds hs

/-- **The two variants of `_break_segments` agree** (up to the order of the segments), and the networkx
list passes the C05 checker. -/
theorem break_segments_variants_agree (t : Table) (hw : WF t) (hl : labelsOKB t = true) :
    ∃ a b, SegVar.breakIgraph t = some a ∧ SegVar.breakNx t = some b ∧ a.Perm b ∧ smallSegmentsOKB t b = true := by
  obtain ⟨a, h1, h2⟩ := SegVar.breakIgraphFrom_perm t hw hl (SegVar.seedsIdx t) (List.Perm.refl _)
  exact ⟨a, smallSegments t, h1, SegVar.breakNx_eq t hw hl, h2, smallSegments_ok hw⟩

/-- **The two variants of `_generate_segments` return the same list** — same segments in the same order,
exact ties included (both start from the same stably sorted leafs; walking positions and translating
back is walking ids) — for every well-formed forest and every edge-length function. -/
theorem generate_segments_igraph_eq_nx (t : Table) (hw : WF t) (len : Int → Int → Nat) :
    SegVar.genIgraph t len = SegVar.genNx t len := SegVar.genIgraph_eq_genNx t hw len

/-- … and that list passes the C05 checker (child→parent paths partitioning the edges, longest first,
isolated nodes as single-node segments) — so do both variants. -/
theorem generate_segments_pass_checker (t : Table) (hw : WF t) (hl : labelsOKB t = true) (len : Int → Int → Nat) :
    ∃ segs, SegVar.genNx t len = some segs ∧ SegVar.genIgraph t len = some segs ∧ segmentsOKB t len segs = true := by
  obtain ⟨segs, h1, h2⟩ := SegVar.genNx_ok t hw hl len
  exact ⟨segs, h1, by rw [SegVar.genIgraph_eq_genNx t hw len]; exact h1, h2⟩

/-! ### synapse flow centrality: the Python path versus the formula at every node

Without navis-fastcore, `synapse_flow_centrality` evaluates the mode's formula only at branch points, roots
and connector nodes, then lets every other node of a small segment inherit the value of the node distal to
it (a connector-free leaf seeds 0), then applies the fork rule (`Model/FlowVariants.lean`, as written).
navis-fastcore evaluates the formula at every node (`Flow.sfc`, what C17 proves to count paths). -/

/-- **The Python path computes `Flow.sfc`** — every well-formed, correctly labelled forest (any number of
roots, isolated nodes, connectors anywhere, several per node, none of one kind), every mode, and every
order in which `x.small_segments` lists the small segments (igraph: a set's order): no `KeyError`, same
column. -/
theorem synapse_flow_python_eq_formula (t : Table) (hw : WF t) (hl : labelsOKB t = true) (m : Flow.Mode)
    (pre post : List Int) (segs : List (List Int)) (hperm : segs.Perm (smallSegments t)) :
    ∃ col, FlowVar.sfcPython t m pre post segs = some col ∧ ∀ i ∈ ids t, col i = Flow.sfc t true m pre post i :=
  FlowVar.sfcPython_eq hw hl m pre post segs hperm

/-- The two facts the propagation rests on: a connector-free node with a single child has its child's
formula value (the distal counts and the per-tree totals do not change), a connector-free leaf has 0. -/
theorem synapse_flow_constant_on_connector_free_stretch (t : Table) (hw : WF t) (m : Flow.Mode) (pre post : List Int) :
    (∀ p c, children t p = [c] → p ∈ ids t → p ∉ pre → p ∉ post →
      Flow.sfcRaw t true m pre post p = Flow.sfcRaw t true m pre post c) ∧
    (∀ e, children t e = [] → e ∉ pre → e ∉ post → Flow.sfcRaw t true m pre post e = 0) :=
  ⟨fun _ _ hch hp h1 h2 => FlowVar.sfcRaw_single_child hw hch hp m pre post h1 h2,
   fun _ hch h1 h2 => FlowVar.sfcRaw_leaf hw hch m pre post h1 h2⟩

/-! ### connected components: root labels (fastcore) versus undirected closure (igraph / networkx) -/

/-- **The undirected component of a node is the set of nodes with the same root** — every well-formed
forest, every node: `|edges| + 1` sweeps of the closure reach exactly the rows whose root path ends in the
same root. -/
theorem components_closure_iff_same_root (t : Table) (hw : WF t) (i : Int) (hi : i ∈ ids t) (j : Int) :
    j ∈ componentClosure t i ↔ j ∈ ids t ∧ rootOf t j = rootOf t i :=
  Navis.CutEquiv.closure_iff_same_root hw hi j

/-- Hence every group navis forms from fastcore's root labels is, as a set, the igraph / networkx component
of each of its members. -/
theorem components_by_root_eq_closure (t : Table) (hw : WF t) (c : List Int) (hc : c ∈ componentsByRoot t)
    (i : Int) (hi : i ∈ c) (j : Int) : j ∈ c ↔ j ∈ componentClosure t i := by
  unfold componentsByRoot at hc
  obtain ⟨r, _, rfl⟩ := List.mem_map.mp hc
  simp only [List.mem_filter, beq_iff_eq] at hi ⊢
  rw [components_closure_iff_same_root t hw i hi.1 j, hi.2]

/-! ### smaller glue that differs between the back-ends -/

/-- `_classify_nodes_old` on networkx degrees (`g.degree` = in + out: ends have degree 1, branch points
degree > 2) agrees with `classify_nodes` (and so with the igraph in-degree variant above). -/
theorem classify_old_nx_eq_new (t : Table) (n : Node) : classifyOldNxNode t n = classifyNode t n :=
  classifyOldNx_eq t n

/-- `geodesic_matrix(from_=…)`: fastcore labels (and orders) the rows by the sorted unique `from_`, the
igraph / networkx branches by node-table order — the same rows under the same labels, only permuted, for
every table with unique ids and every `from_` inside the table (anything else raises on all back-ends). -/
theorem geodesic_from_rows_agree (t : Table) (hw : WF t) (len : Int → Int → Nat) (directed : Bool) (limit : Option Nat)
    (from_ : List Int) (hsub : ∀ i ∈ from_, i ∈ ids t) :
    (geoLabelled t len directed limit (geoRowLabelsPython t from_)).Perm
      (geoLabelled t len directed limit (geoRowLabelsFastcore t from_)) ∧
    (geoRowLabelsFastcore t from_).Nodup ∧ (geoRowLabelsFastcore t from_).Pairwise (· ≤ ·) ∧
    ∀ a, a ∈ geoRowLabelsFastcore t from_ ↔ a ∈ from_ :=
  ⟨(geoRowLabels_perm hw.1 from_ hsub).map _, npUnique_nodup _, npUnique_sorted _, mem_npUnique _⟩

/-- `reroot_skeleton`: the igraph branch (shortest paths from the new root to ALL roots, first non-empty
one) and the networkx branch (follow the parents) reverse the same path — any number of roots, any node. -/
theorem reroot_path_igraph_eq_nx (t : Table) (hw : WF t) (r : Int) (hr : r ∈ ids t) :
    rerootPathIgraph t r = some (rerootPathNx t r) := rerootPath_igraph_eq_nx hw hr

/-! ### history form: after any sequence of the modelled operations all back-ends agree

`applyOpBE be` (`Model/BackendOps.lean`) is the operation language of C01/C10 with the back-end explicit:
with igraph (default and navis-fastcore configuration) `reroot` takes its path from the shortest paths to
all roots and `cut` decomposes the graph after deleting one edge; with networkx both walk the graph. -/

/-- The igraph branch of `reroot_skeleton` returns the same table (parents and labels) as the networkx
branch — every well-formed forest, every node (absent, root or not). -/
theorem reroot_igraph_eq_nx (t : Table) (hw : WF t) (r : Int) : rerootIgraph t r = reroot t r := by
  unfold rerootIgraph reroot
  cases hf : find? t r with
  | none => rfl
  | some nr =>
    simp only
    split
    · rfl
    · have hr : r ∈ ids t := mem_ids.mpr ⟨nr, find?_some hf⟩
      rw [rerootPath_igraph_eq_nx hw hr]
      rfl

/-- One operation: every back-end computes what the back-end-free model `applyOp` computes. -/
theorem op_backend_independent (be : Backend) (t : Table) (hw : WF t) (op : Op) : applyOpBE be t op = applyOp t op := by
  have hcut : ∀ c, cutBE be t c = cut t c := by
    intro c
    unfold cutBE; split
    · exact cut_decompose_eq_cut t hw c
    · rfl
  cases op with
  | reroot r =>
    show rerootBE be t r = reroot t r
    unfold rerootBE
    split
    · exact reroot_igraph_eq_nx t hw r
    · rfl
  | cutDistal c =>
    show (match cutBE be t c with | some (d, _) => d | none => t) = _
    rw [hcut c]; rfl
  | cutProximal c =>
    show (match cutBE be t c with | some (_, p) => p | none => t) = _
    rw [hcut c]; rfl
  | subset k => rfl
  | removeNodes w => rfl
  | downsample f p => rfl
  | reclassify => rfl

/-- **History form**: after ANY sequence of the modelled operations (subset, reroot, cut distal / proximal,
remove_nodes, downsample, re-classify) started from a well-formed forest, every back-end holds the table the
back-end-free model holds — by induction over the sequence, using that every operation preserves
well-formedness (C01). -/
theorem ops_backend_independent (be : Backend) (t : Table) (hw : WF t) (ops : List Op) :
    ops.foldl (applyOpBE be) t = ops.foldl applyOp t := by
  induction ops generalizing t with
  | nil => rfl
  | cons op ops ih =>
    simp only [List.foldl_cons]
    rw [op_backend_independent be t hw op]
    exact ih (applyOp t op) (Navis.Props.C01.op_preserves_WF t hw op)

/-- … hence any two back-ends agree after any history, and the common result is well-formed. -/
theorem ops_backends_agree (be be' : Backend) (t : Table) (hw : WF t) (ops : List Op) :
    ops.foldl (applyOpBE be) t = ops.foldl (applyOpBE be') t ∧ WF (ops.foldl (applyOpBE be) t) := by
  rw [ops_backend_independent be t hw ops, ops_backend_independent be' t hw ops]
  exact ⟨rfl, Navis.Props.C01.ops_preserve_WF t hw ops⟩

/-- Mixed histories: the back-end may even change between steps (`config.use_igraph` toggled, fastcore
(un)installed) without any effect on the result. -/
theorem ops_backend_schedule_independent (t : Table) (hw : WF t) (steps : List (Backend × Op)) :
    steps.foldl (fun acc s => applyOpBE s.1 acc s.2) t = (steps.map Prod.snd).foldl applyOp t := by
  induction steps generalizing t with
  | nil => rfl
  | cons s steps ih =>
    simp only [List.foldl_cons, List.map_cons]
    rw [op_backend_independent s.1 t hw s.2]
    exact ih (applyOp t s.2) (Navis.Props.C01.op_preserves_WF t hw s.2)

/-! ### consequences for the observables computed after a history -/

/-- After any history the Python Strahler sweep on any back-end's table is the recurrence on the model's
table (labels are re-established by `classify`, which the sweep's hypothesis asks for). -/
theorem strahler_after_ops (be : Backend) (t : Table) (hw : WF t) (ops : List Op) (g : Bool) (pick : Sweep.St → Nat) :
    ∃ col, Sweep.sweep (classify (ops.foldl (applyOpBE be) t)) g [] pick = some col ∧
      ∀ i ∈ ids (ops.foldl applyOp t), col i = strahler (classify (ops.foldl applyOp t)) g [] i := by
  rw [ops_backend_independent be t hw ops]
  have hw' := WF_classify (Navis.Props.C01.ops_preserve_WF t hw ops)
  obtain ⟨col, h1, h2⟩ := strahler_sweep_eq_rec _ hw' (labelsOKB_classify _) g pick
  exact ⟨col, h1, fun i hi => h2 i (by rw [ids_classify]; exact hi)⟩

/-! ### further consequences of the refinement theorems -/

/-- The sweep's index is at least 1 everywhere and never decreases towards the root. -/
theorem strahler_sweep_ge_one_and_monotone (t : Table) (hw : WF t) (hl : labelsOKB t = true) (g : Bool)
    (pick : Sweep.St → Nat) :
    ∃ col, Sweep.sweep t g [] pick = some col ∧ (∀ i ∈ ids t, 1 ≤ col i) ∧
      ∀ i ∈ ids t, ∀ c ∈ children t i, col c ≤ col i := by
  obtain ⟨col, h1, h2⟩ := strahler_sweep_eq_rec t hw hl g pick
  refine ⟨col, h1, fun i hi => ?_, fun i hi c hc => ?_⟩
  · rw [h2 i hi]; exact Navis.Props.C17.strahler_ge_one t hw g i hi
  · rw [h2 i hi, h2 c (Flow.child_facts hw hi hc).1]
    exact Navis.Props.C17.strahler_monotone t hw g i c hi hc

/-- The sweep's column is accepted by the recurrence checker that the driver runs on navis' output — and
every accepted column is the sweep's. -/
theorem strahler_sweep_passes_checker (t : Table) (hw : WF t) (hl : labelsOKB t = true) (g : Bool) (pick : Sweep.St → Nat) :
    ∃ col, Sweep.sweep t g [] pick = some col ∧ Flow.strahlerOKB t g col = true ∧
      ∀ v, Flow.strahlerOKB t g v = true → ∀ i ∈ ids t, v i = col i := by
  obtain ⟨col, h1, h2⟩ := strahler_sweep_eq_rec t hw hl g pick
  refine ⟨col, h1, (Navis.Props.C17.strahler_checker_sound t hw g col).mpr h2, fun v hv i hi => ?_⟩
  rw [h2 i hi]; exact (Navis.Props.C17.strahler_checker_sound t hw g v).mp hv i hi

/-- Both variants of `_generate_segments` and the networkx variant of `_break_segments` add up to the cable length. -/
theorem segment_builders_sum_to_cable (t : Table) (hw : WF t) (hl : labelsOKB t = true) (len : Int → Int → Nat) :
    (∃ segs, SegVar.genNx t len = some segs ∧ SegVar.genIgraph t len = some segs ∧
      (segs.map (pathLen len)).sum = cable t len) ∧
    (∃ segs, SegVar.breakNx t = some segs ∧ (segs.map (pathLen len)).sum = cable t len) := by
  obtain ⟨segs, h1, h2, h3⟩ := generate_segments_pass_checker t hw hl len
  refine ⟨⟨segs, h1, h2, Navis.Props.C05.segment_lengths_sum_to_cable t hw len segs h3⟩, ?_⟩
  exact ⟨smallSegments t, break_segments_nx_eq_model t hw hl, Navis.Props.C05.smallSegments_sum_to_cable t hw len⟩

/-- The igraph variant of `_break_segments` (any seed order) adds up to the cable length as well. -/
theorem break_segments_igraph_sum_to_cable (t : Table) (hw : WF t) (hl : labelsOKB t = true) (len : Int → Int → Nat)
    (seeds : List Nat) (hs : seeds.Perm (SegVar.seedsIdx t)) :
    ∃ segs, SegVar.breakIgraphFrom t seeds = some segs ∧ (segs.map (pathLen len)).sum = cable t len := by
  obtain ⟨segs, h1, h2⟩ := break_segments_igraph_perm_model t hw hl seeds hs
  refine ⟨segs, h1, ?_⟩
  rw [(h2.map (pathLen len)).sum_nat]
  exact Navis.Props.C05.smallSegments_sum_to_cable t hw len

/-- **The Python path of `synapse_flow_centrality` counts paths**: its value at every node is the number of
(postsynapse, presynapse) pairs whose tree path runs through the node in the mode's direction (forks: the
largest child's count) — the C17 specification, so it passes the checker run on navis' column. -/
theorem synapse_flow_python_counts_paths (t : Table) (hw : WF t) (hl : labelsOKB t = true) (m : Flow.Mode)
    (pre post : List Int) (segs : List (List Int)) (hperm : segs.Perm (smallSegments t)) :
    ∃ col, FlowVar.sfcPython t m pre post segs = some col ∧ (∀ i ∈ ids t, col i = Flow.sfcSpec t m pre post i) ∧
      Flow.sfcOKB t m pre post col = true := by
  obtain ⟨col, h1, h2⟩ := synapse_flow_python_eq_formula t hw hl m pre post segs hperm
  refine ⟨col, h1, fun i hi => by rw [h2 i hi, Flow.sfcSpec_eq hw], ?_⟩
  exact (Navis.Props.C17.flow_checker_sound t hw m pre post col).mpr (fun r hr => h2 r.id (mem_ids_of_mem hr))

/-- Order independence of the Python synapse-flow propagation: any two listings of the small segments
(igraph iterates a set) give the same column. -/
theorem synapse_flow_python_order_independent (t : Table) (hw : WF t) (hl : labelsOKB t = true) (m : Flow.Mode)
    (pre post : List Int) (segs segs' : List (List Int)) (h : segs.Perm (smallSegments t)) (h' : segs'.Perm (smallSegments t)) :
    ∃ col col', FlowVar.sfcPython t m pre post segs = some col ∧ FlowVar.sfcPython t m pre post segs' = some col' ∧
      ∀ i ∈ ids t, col i = col' i := by
  obtain ⟨col, h1, h2⟩ := synapse_flow_python_eq_formula t hw hl m pre post segs h
  obtain ⟨col', h1', h2'⟩ := synapse_flow_python_eq_formula t hw hl m pre post segs' h'
  exact ⟨col, col', h1, h1', fun i hi => by rw [h2 i hi, h2' i hi]⟩

/-- The closures are symmetric … -/
theorem components_closure_symm (t : Table) (hw : WF t) (i j : Int) (hi : i ∈ ids t) (hj : j ∈ ids t) :
    j ∈ componentClosure t i ↔ i ∈ componentClosure t j := by
  rw [components_closure_iff_same_root t hw i hi j, components_closure_iff_same_root t hw j hj i]
  exact ⟨fun h => ⟨hi, h.2.symm⟩, fun h => ⟨hj, h.2.symm⟩⟩

/-- … and transitive: they partition the table exactly like fastcore's root labels. -/
theorem components_closure_trans (t : Table) (hw : WF t) (i j k : Int) (hi : i ∈ ids t) (hj : j ∈ ids t)
    (h1 : j ∈ componentClosure t i) (h2 : k ∈ componentClosure t j) : k ∈ componentClosure t i := by
  rw [components_closure_iff_same_root t hw i hi] at h1 ⊢
  rw [components_closure_iff_same_root t hw j hj] at h2
  exact ⟨h2.1, h2.2.trans h1.2⟩

/-! ### more back-end equivalences derived from the refinements -/

/-- `distal_to`: igraph asks whether the directed (child→parent) distance from `a` to `b` is finite,
networkx whether `a` occurs among the nodes that reach `b` — the same relation (`a` is distal to `b`). -/
theorem distal_to_igraph_eq_nx (t : Table) (len : Int → Int → Nat) (a b : Int) (ha : a ∈ ids t) :
    (geo t len true a b).isSome ↔ a ∈ distalSet t b := by
  rw [geo_directed_isSome_iff, mem_distalSet]
  exact ⟨fun h => ⟨ha, h⟩, fun h => h.2⟩

/-- All three classifiers (parent column, igraph in-degrees, networkx total degrees) give every row the
label its child count and parent demand. -/
theorem classify_variants_agree (t : Table) (n : Node) :
    classifyNode t n = labelOf (childCount t n.id) (n.parent < 0) ∧ classifyOldNode t n = classifyNode t n ∧
      classifyOldNxNode t n = classifyOldNode t n :=
  ⟨classifyNode_eq_labelOf t n, classify_old_eq_new t n, by rw [classify_old_nx_eq_new, classify_old_eq_new]⟩

/-- `prune_by_strahler` on the Python path keeps the rows the model keeps: filtering by the sweep's column is
filtering by the structural index, for every index set. -/
theorem prune_by_strahler_sweep (t : Table) (hw : WF t) (hl : labelsOKB t = true) (pick : Sweep.St → Nat) (s : List Nat) :
    ∃ col, Sweep.sweep t false [] pick = some col ∧
      (t.filter fun n => !s.contains (col n.id)) = t.filter fun n => !s.contains (strahler t false [] n.id) := by
  obtain ⟨col, h1, h2⟩ := strahler_sweep_eq_rec t hw hl false pick
  refine ⟨col, h1, List.filter_congr fun n hn => ?_⟩
  rw [h2 n.id (mem_ids_of_mem hn)]

/-- With `to_ignore` (end nodes) the result does not depend on the pop order either. -/
theorem strahler_sweep_ignore_order_independent (t : Table) (hw : WF t) (hl : labelsOKB t = true) (g : Bool)
    (ign : List Int) (hign : ∀ l ∈ ign, l ∈ ids t → l ∈ Sweep.endNodes t) (pick pick' : Sweep.St → Nat) :
    ∃ col col', Sweep.sweep t g ign pick = some col ∧ Sweep.sweep t g ign pick' = some col' ∧
      ∀ i ∈ ids t, col i = col' i := by
  obtain ⟨col, h1, h2⟩ := strahler_sweep_ignore_partial t hw hl g ign hign pick
  obtain ⟨col', h1', h2'⟩ := strahler_sweep_ignore_partial t hw hl g ign hign pick'
  exact ⟨col, col', h1, h1', fun i hi => by rw [h2 i hi, h2' i hi]⟩

/-- After any history, on any back-end's table, the Python synapse-flow path gives the formula with the fork
rule on the model's table. -/
theorem synapse_flow_after_ops (be : Backend) (t : Table) (hw : WF t) (ops : List Op) (m : Flow.Mode) (pre post : List Int) :
    ∃ col, FlowVar.sfcPython (classify (ops.foldl (applyOpBE be) t)) m pre post
        (smallSegments (classify (ops.foldl (applyOpBE be) t))) = some col ∧
      ∀ i ∈ ids (ops.foldl applyOp t), col i = Flow.sfc (classify (ops.foldl applyOp t)) true m pre post i := by
  rw [ops_backend_independent be t hw ops]
  have hw' := WF_classify (Navis.Props.C01.ops_preserve_WF t hw ops)
  obtain ⟨col, h1, h2⟩ := synapse_flow_python_eq_formula _ hw' (labelsOKB_classify _) m pre post _ (List.Perm.refl _)
  exact ⟨col, h1, fun i hi => h2 i (by rw [ids_classify]; exact hi)⟩

/-- After any history both Python segment builders agree on any back-end's table and pass the C05 checker. -/
theorem segments_after_ops (be : Backend) (t : Table) (hw : WF t) (ops : List Op) (len : Int → Int → Nat) :
    ∃ segs, SegVar.genNx (classify (ops.foldl (applyOpBE be) t)) len = some segs ∧
      SegVar.genIgraph (classify (ops.foldl (applyOpBE be) t)) len = some segs ∧
      segmentsOKB (classify (ops.foldl applyOp t)) len segs = true := by
  rw [ops_backend_independent be t hw ops]
  exact generate_segments_pass_checker _ (WF_classify (Navis.Props.C01.ops_preserve_WF t hw ops)) (labelsOKB_classify _) len

/-- After any history the components (by closure or by root label) of any back-end's table coincide. -/
theorem components_after_ops (be : Backend) (t : Table) (hw : WF t) (ops : List Op) (i : Int)
    (hi : i ∈ ids (ops.foldl applyOp t)) (j : Int) :
    j ∈ componentClosure (ops.foldl (applyOpBE be) t) i ↔
      j ∈ ids (ops.foldl applyOp t) ∧ rootOf (ops.foldl applyOp t) j = rootOf (ops.foldl applyOp t) i := by
  rw [ops_backend_independent be t hw ops]
  exact components_closure_iff_same_root _ (Navis.Props.C01.ops_preserve_WF t hw ops) i hi j

/-- The C05 checker for small segments does not depend on the order of the list: any permutation of the
model's small segments passes it. -/
theorem smallSegmentsOKB_of_perm (t : Table) (hw : WF t) (segs : List (List Int)) (h : segs.Perm (smallSegments t)) :
    smallSegmentsOKB t segs = true := by
  unfold smallSegmentsOKB
  rw [Bool.and_eq_true, List.all_eq_true]
  refine ⟨fun s hs => smallSegments_shape hw s (h.mem_iff.mp hs), coversEdgesOnce_of_perm ?_⟩
  exact ((h.filter _).flatMap_right _).trans (smallSegments_cover hw)

/-- **The igraph variant of `_break_segments` passes the C05 checker for every iteration order of its seed
set** (the networkx variant does by `break_segments_variants_agree`). -/
theorem break_segments_igraph_pass_checker (t : Table) (hw : WF t) (hl : labelsOKB t = true) (seeds : List Nat)
    (hs : seeds.Perm (SegVar.seedsIdx t)) :
    ∃ segs, SegVar.breakIgraphFrom t seeds = some segs ∧ smallSegmentsOKB t segs = true := by
  obtain ⟨segs, h1, h2⟩ := break_segments_igraph_perm_model t hw hl seeds hs
  exact ⟨segs, h1, smallSegmentsOKB_of_perm t hw segs h2⟩

/-- Rerooting to several nodes in turn (`reroot_skeleton(x, [r1, r2, …])`): every back-end ends in the model's
table. -/
theorem reroot_many_backend_independent (be : Backend) (t : Table) (hw : WF t) (rs : List Int) :
    rs.foldl (rerootBE be) t = rerootMany t rs := by
  unfold rerootMany
  induction rs generalizing t with
  | nil => rfl
  | cons r rs ih =>
    simp only [List.foldl_cons]
    have : rerootBE be t r = reroot t r := op_backend_independent be t hw (.reroot r)
    rw [this]
    exact ih (reroot t r) (WF_reroot hw r)

/-- `geodesic_matrix(from_=…)`: looking a source up by its label gives the same row on every back-end (the
row of `a` is a function of `a` alone), and every requested source is present on both sides. -/
theorem geodesic_from_rows_lookup (t : Table) (hw : WF t) (len : Int → Int → Nat) (directed : Bool) (limit : Option Nat)
    (from_ : List Int) (hsub : ∀ i ∈ from_, i ∈ ids t) (a : Int) (row : List (Option Nat)) :
    (a, row) ∈ geoLabelled t len directed limit (geoRowLabelsPython t from_) ↔
      (a, row) ∈ geoLabelled t len directed limit (geoRowLabelsFastcore t from_) :=
  (geodesic_from_rows_agree t hw len directed limit from_ hsub).1.mem_iff

/-- Several cuts in a row (`cut_skeleton(x, [c1, c2, …])`): every back-end produces the model's list of
fragments, in the same order. -/
theorem cut_many_backend_independent (be : Backend) (t : Table) (hw : WF t) (cs : List Int) :
    cutManyBE be t cs = cutMany t cs := by
  unfold cutManyBE cutMany
  have key : ∀ (cs : List Int) (frags : List Table), (∀ f ∈ frags, WF f) →
      cs.foldl (cutStepBE be) frags = cs.foldl (fun frags c =>
        match frags.findIdx? (fun f => (ids f).contains c) with
        | none => frags
        | some k =>
          match frags[k]? with
          | none => frags
          | some f =>
            match cut f c with
            | none => frags
            | some (d, p) => frags.take k ++ [d, p] ++ frags.drop (k + 1)) frags := by
    intro cs
    induction cs with
    | nil => intro frags _; rfl
    | cons c cs ih =>
      intro frags hall
      simp only [List.foldl_cons]
      have hstep : cutStepBE be frags c = (match frags.findIdx? (fun f => (ids f).contains c) with
          | none => frags
          | some k =>
            match frags[k]? with
            | none => frags
            | some f =>
              match cut f c with
              | none => frags
              | some (d, p) => frags.take k ++ [d, p] ++ frags.drop (k + 1)) := by
        unfold cutStepBE
        cases frags.findIdx? (fun f => (ids f).contains c) with
        | none => rfl
        | some k =>
          simp only
          cases hk : frags[k]? with
          | none => rfl
          | some f =>
            simp only
            have hf : f ∈ frags := List.mem_of_getElem? hk
            have : cutBE be f c = cut f c := by
              unfold cutBE; split
              · exact cut_decompose_eq_cut f (hall f hf) c
              · rfl
            rw [this]
            cases cut f c with
            | none => rfl
            | some dp => rfl
      rw [hstep]
      apply ih
      -- the new fragment list is well-formed again
      intro g hg
      cases hi : frags.findIdx? (fun f => (ids f).contains c) with
      | none => rw [hi] at hg; exact hall g hg
      | some k =>
        rw [hi] at hg
        simp only at hg
        cases hk : frags[k]? with
        | none => rw [hk] at hg; exact hall g hg
        | some f =>
          rw [hk] at hg
          simp only at hg
          have hf : f ∈ frags := List.mem_of_getElem? hk
          cases hc : cut f c with
          | none => rw [hc] at hg; exact hall g hg
          | some dp =>
            obtain ⟨d, p⟩ := dp
            rw [hc] at hg
            simp only at hg
            obtain ⟨hd, hp, _⟩ := cut_some hc
            rcases List.mem_append.mp hg with h | h
            · rcases List.mem_append.mp h with h | h
              · exact hall g (List.mem_of_mem_take h)
              · rcases List.mem_cons.mp h with e | e
                · rw [e, hd]; exact WF_subset (hall f hf) _
                · have : g = p := by simpa using e
                  rw [this, hp]; exact WF_subset (hall f hf) _
            · exact hall g (List.mem_of_mem_drop h)
  exact key cs [t] (by intro f hf; have : f = t := by simpa using hf
                       rw [this]; exact hw)

/-- The Python synapse-flow path fed with the small segments of the igraph variant of `_break_segments` (any
seed order) — which is what `x.small_segments` is under igraph — still gives the formula with the fork rule. -/
theorem synapse_flow_python_on_igraph_segments (t : Table) (hw : WF t) (hl : labelsOKB t = true) (m : Flow.Mode)
    (pre post : List Int) (seeds : List Nat) (hs : seeds.Perm (SegVar.seedsIdx t)) :
    ∃ segs col, SegVar.breakIgraphFrom t seeds = some segs ∧ FlowVar.sfcPython t m pre post segs = some col ∧
      ∀ i ∈ ids t, col i = Flow.sfc t true m pre post i := by
  obtain ⟨segs, h1, h2⟩ := break_segments_igraph_perm_model t hw hl seeds hs
  obtain ⟨col, h3, h4⟩ := synapse_flow_python_eq_formula t hw hl m pre post segs h2
  exact ⟨segs, col, h1, h3, h4⟩

/-- **Twig pruning does not depend on the order in which `_break_segments` lists the small segments** (the
igraph variant iterates a set): the Python path of `prune_twigs` fed with any permutation of the small
segments removes the same nodes and returns the same table as the C12 model. -/
theorem prune_twigs_segment_order_independent (t : Table) (len : Int → Int → Nat) (size : Nat) (mask : Option (List Int))
    (segs : List (List Int)) (h : segs.Perm (smallSegments t)) :
    (twigDeleteFrom t segs len size mask).Perm (twigDelete t len size mask) ∧
      pruneTwigsOnceFrom t segs len size mask = pruneTwigsOnce t len size mask := by
  have hp : (twigDeleteFrom t segs len size mask).Perm (twigDelete t len size mask) := by
    unfold twigDeleteFrom twigDelete terminalSegsFrom terminalSegs
    exact ((h.filter _).filter _).flatMap_right _
  refine ⟨hp, ?_⟩
  unfold pruneTwigsOnceFrom pruneTwigsOnce
  have hemp : (twigDeleteFrom t segs len size mask).isEmpty = (twigDelete t len size mask).isEmpty := by
    have hl := hp.length_eq
    cases ha : twigDeleteFrom t segs len size mask with
    | nil =>
      rw [ha] at hl
      have : twigDelete t len size mask = [] := List.length_eq_zero_iff.mp hl.symm
      rw [this]
    | cons a as =>
      rw [ha] at hl
      cases hb : twigDelete t len size mask with
      | nil => rw [hb] at hl; simp at hl
      | cons b bs => rfl
  have hcon : (fun i => !(twigDeleteFrom t segs len size mask).contains i) = fun i => !(twigDelete t len size mask).contains i := by
    funext i
    by_cases hi : i ∈ twigDelete t len size mask
    · simp [hi, hp.mem_iff.mpr hi]
    · have : i ∉ twigDeleteFrom t segs len size mask := fun h' => hi (hp.mem_iff.mp h')
      simp [hi, this]
  simp only [hemp, hcon]

/-- … in particular with the igraph variant's list, for every iteration order of its seed set. -/
theorem prune_twigs_igraph_eq_model (t : Table) (hw : WF t) (hl : labelsOKB t = true) (len : Int → Int → Nat) (size : Nat)
    (mask : Option (List Int)) (seeds : List Nat) (hs : seeds.Perm (SegVar.seedsIdx t)) :
    ∃ segs, SegVar.breakIgraphFrom t seeds = some segs ∧
      pruneTwigsOnceFrom t segs len size mask = pruneTwigsOnce t len size mask := by
  obtain ⟨segs, h1, h2⟩ := break_segments_igraph_perm_model t hw hl seeds hs
  exact ⟨segs, h1, (prune_twigs_segment_order_independent t len size mask segs h2).2⟩

/-- … and with the networkx variant's list (which is the model's list itself). -/
theorem prune_twigs_nx_eq_model (t : Table) (hw : WF t) (hl : labelsOKB t = true) (len : Int → Int → Nat) (size : Nat)
    (mask : Option (List Int)) :
    ∃ segs, SegVar.breakNx t = some segs ∧ pruneTwigsOnceFrom t segs len size mask = pruneTwigsOnce t len size mask :=
  ⟨smallSegments t, break_segments_nx_eq_model t hw hl,
    (prune_twigs_segment_order_independent t len size mask _ (List.Perm.refl _)).2⟩

/-- The model's Strahler index reads the ignore list only as a set. -/
theorem strahler_ignore_list_as_set (t : Table) (g : Bool) (ign ign' : List Int)
    (h : ∀ x, ign.contains x = ign'.contains x) (i : Int) : strahler t g ign i = strahler t g ign' i := by
  have hraw : ∀ f j, strahlerRaw t g ign f j = strahlerRaw t g ign' f j := by
    intro f
    induction f with
    | zero => intro j; rfl
    | succ f ih =>
      intro j
      rw [Flow.strahlerRaw_succ, Flow.strahlerRaw_succ, h j]
      have : (children t j).map (strahlerRaw t g ign f) = (children t j).map (strahlerRaw t g ign' f) :=
        List.map_congr_left fun c _ => ih c
      rw [this]
  unfold strahler
  simp only [hraw, h]

/-- **The Python sweep reads `to_ignore` only as a set**: two ignore lists with the same members (order,
repetitions, how `min_twig_size` enumerated the short twigs — e.g. from the igraph variant's small segments)
give the same column, for every pair of pop orders. -/
theorem strahler_sweep_ignore_as_set (t : Table) (hw : WF t) (hl : labelsOKB t = true) (g : Bool) (ign ign' : List Int)
    (hign : ∀ l ∈ ign, l ∈ ids t → l ∈ Sweep.endNodes t) (h : ∀ x, ign.contains x = ign'.contains x)
    (pick pick' : Sweep.St → Nat) :
    ∃ col col', Sweep.sweep t g ign pick = some col ∧ Sweep.sweep t g ign' pick' = some col' ∧
      ∀ i ∈ ids t, col i = col' i := by
  have hign' : ∀ l ∈ ign', l ∈ ids t → l ∈ Sweep.endNodes t := by
    intro l hl' hi
    have : l ∈ ign := by
      have := h l
      simp only [List.contains_eq_mem, hl', decide_true, decide_eq_true_eq] at this
      exact this
    exact hign l this hi
  obtain ⟨col, h1, h2⟩ := strahler_sweep_ignore_partial t hw hl g ign hign pick
  obtain ⟨col', h1', h2'⟩ := strahler_sweep_ignore_partial t hw hl g ign' hign' pick'
  exact ⟨col, col', h1, h1', fun i hi => by rw [h2 i hi, h2' i hi, strahler_ignore_list_as_set t g ign ign' h i]⟩

/-- **`strahler_index(min_twig_size=k)` does not depend on the order of `x.small_segments`** (igraph: a set's
order): with any permutation of the small segments the Python path returns the model's index for
`ign ++ shortTwigs t k`, for every pop order. -/
theorem strahler_sweep_min_twig_segment_order (t : Table) (hw : WF t) (hl : labelsOKB t = true) (g : Bool) (ign : List Int)
    (k : Nat) (hk : k ≠ 0) (hign : ∀ l ∈ ign, l ∈ ids t → l ∈ Sweep.endNodes t) (segs : List (List Int))
    (hp : segs.Perm (smallSegments t)) (pick : Sweep.St → Nat) :
    ∃ col, Sweep.sweep t g (ignoreListFrom t segs ign k) pick = some col ∧
      ∀ i ∈ ids t, col i = strahler t g (ign ++ shortTwigs t k) i := by
  have hperm : (ignoreListFrom t segs ign k).Perm (Sweep.ignoreList t ign k) := by
    unfold ignoreListFrom Sweep.ignoreList
    rw [if_neg hk, if_neg hk]
    exact (hp.filterMap _).append_left ign
  have hset : ∀ x, (Sweep.ignoreList t ign k).contains x = (ignoreListFrom t segs ign k).contains x := by
    intro x
    by_cases hx : x ∈ Sweep.ignoreList t ign k
    · simp [hx, hperm.mem_iff.mpr hx]
    · have : x ∉ ignoreListFrom t segs ign k := fun h' => hx (hperm.mem_iff.mp h')
      simp [hx, this]
  obtain ⟨col, col', h1, h2, h3⟩ := strahler_sweep_ignore_as_set t hw hl g _ _ (Sweep.ignoreList_ends ign k hign) hset pick pick
  obtain ⟨c0, e1, e2⟩ := strahler_sweep_min_twig t hw hl g ign k hk hign pick
  rw [h1] at e1
  have : col = c0 := Option.some.inj e1
  subst this
  exact ⟨col', h2, fun i hi => by rw [← h3 i hi, e2 i hi]⟩

/-! ### Non-vacuity -/
def ex : Table := [⟨7, 3, 0, 0, 0, .end_⟩, ⟨3, 9, 3, 0, 0, .branch⟩, ⟨9, -1, 6, 0, 0, .root⟩, ⟨4, 3, 3, 4, 0, .end_⟩]
example : wfB ex = true ∧ labelsOKB ex = true := by decide
example : idxEdges ex = [(0, 1), (1, 2), (3, 1)] ∧ idEdges ex = [(7, 3), (3, 9), (4, 3)] := by decide
example : seedsIgraph ex = [7, 3, 4] ∧ stopsIgraph ex = [3, 9] := by decide

/-- `cut` at `3` (rows in the order `7, 3, 9, 4`): the decomposition finds the cut node first, the
reverse BFS lists table order — the same set. -/
example : distalByDecompose ex 3 = [3, 7, 4] ∧ distalSet ex 3 = [7, 3, 4] := by decide
example : edgesWithout ex 3 9 = [(7, 3), (4, 3)] ∧ componentOf (edgesWithout ex 3 9) 0 3 = [3] ∧
    componentOf (edgesWithout ex 3 9) 1 3 = [3, 7, 4] := by decide
example : distalByDecompose ex 7 = [7] ∧ distalSet ex 7 = [7] ∧ distalByDecompose ex 5 = [] ∧ distalSet ex 5 = [] := by decide
/-- At the root nothing is deleted: both give the whole tree. -/
example : distalByDecompose ex 9 = [9, 3, 4, 7] ∧ distalSet ex 9 = [7, 3, 9, 4] := by decide
example : (cutByDecompose ex 3).map (fun r => (ids r.1, ids r.2)) = some ([7, 3, 4], [3, 9]) ∧
    cutByDecompose ex 3 = cut ex 3 ∧ cutByDecompose ex 9 = none := by decide
/-- Without the deletion the component is the whole tree — the deleted edge is what separates. -/
example : componentOf (edges ex) ((edges ex).length + 1) 3 = [3, 7, 9, 4] := by decide

/-- Two trees, node id 0, a forking root (0: children 5, 8), a non-forking root (2), rows out of order. -/
def exS : Table := [⟨5, 0, 0, 0, 0, .branch⟩, ⟨0, -1, 0, 0, 0, .root⟩, ⟨8, 0, 0, 0, 0, .end_⟩, ⟨3, 5, 0, 0, 0, .end_⟩,
  ⟨4, 5, 0, 0, 0, .slab⟩, ⟨6, 4, 0, 0, 0, .end_⟩, ⟨2, -1, 0, 0, 0, .root⟩, ⟨7, 2, 0, 0, 0, .end_⟩, ⟨9, -1, 0, 0, 0, .root⟩]
example : wfB exS = true ∧ labelsOKB exS = true := by decide
example : Sweep.endNodes exS = [8, 3, 6, 7] ∧ Sweep.branchNodes exS = [5, 0] := by decide
/-- three pop orders, one column: forking root 0 gets 2 (children 2 and 1), root 2 the index of its chain,
isolated root 9 the default 1 -/
example : (Sweep.sweep exS false [] Sweep.pickFirst).map (fun c => (ids exS).map c) = some [2, 2, 1, 1, 1, 1, 1, 1, 1] ∧
    (Sweep.sweep exS false [] Sweep.pickLast).map (fun c => (ids exS).map c) = some [2, 2, 1, 1, 1, 1, 1, 1, 1] ∧
    (Sweep.sweep exS false [] (Sweep.pickMix 3)).map (fun c => (ids exS).map c) = some [2, 2, 1, 1, 1, 1, 1, 1, 1] ∧
    (ids exS).map (strahler exS false []) = [2, 2, 1, 1, 1, 1, 1, 1, 1] := by decide
example : (Sweep.sweep exS true [] Sweep.pickLast).map (fun c => (ids exS).map c) = some [2, 3, 1, 1, 1, 1, 1, 1, 1] := by decide
/-- ignored twig 3 takes the index of fork 5, which no longer sees it; `min_twig_size = 3` ignores the
two-node twigs 8 and 3 (and 7, whose chain ends at the non-forking root 2: everything there becomes 0) -/
example : (Sweep.sweep exS false [3] Sweep.pickFirst).map (fun c => (ids exS).map c) = some [1, 2, 1, 1, 1, 1, 1, 1, 1] ∧
    (ids exS).map (strahler exS false [3]) = [1, 2, 1, 1, 1, 1, 1, 1, 1] ∧
    Sweep.ignoreList exS [] 3 = [8, 3, 7] ∧
    (Sweep.sweep exS false (Sweep.ignoreList exS [] 3) Sweep.pickLast).map (fun c => (ids exS).map c) =
      some [1, 1, 1, 1, 1, 1, 0, 0, 1] := by decide
/-- `ex`: the igraph seed order (branch points first) differs from the table order of the networkx variant;
in `exS` the leafs 8 and 7 are both at depth 1 and keep their table order (stable sort); the three segments of
length 1 come in decreasing lexicographic order, the isolated node last. -/
example : SegVar.breakIgraph ex = some [[3, 9], [7, 3], [4, 3]] ∧ SegVar.breakNx ex = some [[7, 3], [3, 9], [4, 3]] ∧
    smallSegments ex = [[7, 3], [3, 9], [4, 3]] := by decide
example : SegVar.genIgraph exS (fun _ _ => 1) = some [[6, 4, 5, 0], [8, 0], [7, 2], [3, 5], [9]] ∧
    SegVar.genNx exS (fun _ _ => 1) = some [[6, 4, 5, 0], [8, 0], [7, 2], [3, 5], [9]] ∧
    SegVar.sortedEnds exS (fun _ _ => 1) = [6, 3, 8, 7] := by decide
/-- `exS` with presynapses on 6, 6, 3 and postsynapses on 8, 7, 0: formula at the calc nodes 5, 0, 2, 9 and the
connector nodes, slab 4 inherits from 6; fork 5 takes the larger child. -/
example : (FlowVar.sfcPython exS .centrifugal [6, 6, 3] [8, 7, 0] (smallSegments exS)).map (fun c => (ids exS).map c) =
      some ((ids exS).map (Flow.sfc exS true .centrifugal [6, 6, 3] [8, 7, 0])) ∧
    (ids exS).map (Flow.sfc exS true .centrifugal [6, 6, 3] [8, 7, 0]) = [4, 0, 0, 2, 4, 4, 0, 0, 0] ∧
    FlowVar.calcNodes exS [6, 6, 3] [8, 7, 0] = [5, 0, 8, 3, 6, 2, 7, 9] := by decide
/-- two trees (one rooted at node id 0) and an isolated node -/
def exC : Table := [⟨2, 1, 0, 0, 0, .end_⟩, ⟨1, -1, 0, 0, 0, .root⟩, ⟨0, -1, 0, 0, 0, .root⟩, ⟨7, 0, 0, 0, 0, .end_⟩, ⟨5, -1, 0, 0, 0, .root⟩]
example : wfB exC = true := by decide
example : componentsByRoot exC = [[0, 7], [2, 1], [5]] ∧ componentsByClosure exC = [[2, 1], [0, 7], [5]] := by decide
example : geoRowLabelsPython ex [4, 7, 4] = [7, 4] ∧ geoRowLabelsFastcore ex [4, 7, 4] = [4, 7] := by decide
example : rerootPathIgraph exS 6 = some [6, 4, 5, 0] ∧ rerootPathIgraph exS 7 = some [7, 2] ∧
    rerootPathIgraph exS 9 = some [9] := by decide

/-! non-vacuity of the history theorems -/
example : (([Op.reroot 6, Op.cutDistal 4, Op.subset [4, 6, 5]] : List Op).foldl (applyOpBE .igraph) exS) =
    ([Op.reroot 6, Op.cutDistal 4, Op.subset [4, 6, 5]] : List Op).foldl applyOp exS := by decide
example : rerootIgraph exS 6 = reroot exS 6 ∧ (ids (reroot exS 6)).length = 9 := by decide

end Navis.Props.C04
