import NavisModel.Model.Backends
import NavisModel.Proofs.WfB
import NavisModel.Model.CutVariants
import NavisModel.Proofs.CutEquivLemmas
/-!
# C04 — results do not depend on the compute back-end

Where the igraph and networkx code paths derive the same object differently, the two derivations are
modelled side by side and proved equal for every well-formed, correctly labelled table.  (fastcore is
compiled code: it is tied to the same single model by differential testing only.)
-/
namespace Navis.Props.C04
open Navis.Forest

/-- The igraph builder (row positions + `node_id` attribute) encodes exactly the edges of the
networkx builder (ids): translating positions back through the attribute gives the id pairs, for
every table with unique ids whose parents are present — any labelling, any row order. -/
theorem edges_igraph_eq_nx (t : Table) (hw : WF t) : (idxEdges t).map (relabel t) = idEdges t := by
  have hnd := hw.1
  have hpar := WF_parents hw
  unfold idxEdges idEdges edges relabel
  rw [List.map_map]
  -- go through the indexed rows
  have key : ∀ (l : Table) (k : Nat), (∀ n ∈ l, n ∈ t) → (∀ j (h : j < l.length), (ids t)[k + j]? = some (l[j].id)) →
      ((l.zipIdx k).filter fun p => !isRootNode p.1).map
        ((fun e : Nat × Nat => ((ids t).getD e.1 (-1), (ids t).getD e.2 (-1))) ∘ fun p => (p.2, (ids t).idxOf p.1.parent))
      = (l.filter fun n => !isRootNode n).map fun n => (n.id, n.parent) := by
    intro l
    induction l with
    | nil => intros; rfl
    | cons a l ih =>
      intro k hmem hidx
      rw [List.zipIdx_cons]
      have hrest := ih (k + 1) (fun n hn => hmem n (by simp [hn])) (fun j h => by
        have := hidx (j + 1) (by simp; omega)
        simpa [Nat.add_assoc, Nat.add_comm 1 j] using this)
      by_cases hr : isRootNode a
      · simp only [List.filter_cons, hr, Bool.not_true, Bool.false_eq_true, if_false]
        exact hrest
      · simp only [List.filter_cons, hr, Bool.not_false, if_true, List.map_cons, Function.comp]
        rw [hrest]
        congr 1
        have h0 := hidx 0 (by simp)
        simp only [Nat.add_zero, List.getElem_cons_zero] at h0
        have hp : a.parent ∈ ids t := by
          rcases hpar a (hmem a (by simp)) with h | h
          · simp [isRootNode] at hr; omega
          · exact h
        have hlt := List.idxOf_lt_length_of_mem hp
        simp only [List.getD_eq_getElem?_getD, h0, Option.getD_some, List.getElem?_eq_getElem hlt,
          List.getElem_idxOf hlt]
  have := key t 0 (fun n hn => hn) (fun j h => by
    simp only [Nat.zero_add]
    rw [List.getElem?_eq_getElem (by simpa using h)]
    simp [ids])
  simpa using this

/-- Degree-based and parent-column-based classification agree on every node of every table. -/
theorem classify_old_eq_new (t : Table) (n : Node) : classifyOldNode t n = classifyNode t n := by
  rw [classifyNode_eq_labelOf]
  unfold classifyOldNode labelOf
  by_cases h : n.parent < 0
  · simp [h]
  · simp only [h, if_false, decide_false, Bool.false_eq_true]
    by_cases h1 : childCount t n.id > 1
    · have h2 : ¬ childCount t n.id = 0 := by omega
      have h3 : ¬ childCount t n.id = 1 := by omega
      simp [h1, h2, h3]
    · by_cases h0 : childCount t n.id = 0
      · simp [h0]
      · have h3 : childCount t n.id = 1 := by omega
        simp [h3]

/-- With correct labels the two variants of `_break_segments` start from the same seeds and stop at
the same stops. -/
theorem break_seeds_agree (t : Table) (hl : labelsOKB t = true) :
    seedsIgraph t = seedsNx t ∧ stopsIgraph t = stopsNx t := by
  rw [labelsOKB_iff] at hl
  unfold seedsIgraph seedsNx stopsIgraph stopsNx
  constructor
  · congr 1
    apply List.filter_congr
    intro n hn
    rw [hl n hn]
    unfold labelOf isRootNode
    by_cases h : n.parent < 0
    · simp [h]
    · by_cases h0 : childCount t n.id = 0
      · simp [h, h0]
      · by_cases h1 : childCount t n.id = 1
        · simp [h, h1]
        · have : childCount t n.id > 1 := by omega
          simp [h, h0, h1, this]
  · congr 1
    apply List.filter_congr
    intro n hn
    rw [hl n hn]
    unfold labelOf isRootNode
    by_cases h : n.parent < 0
    · simp [h]
    · by_cases h0 : childCount t n.id = 0
      · simp [h, h0]
      · by_cases h1 : childCount t n.id = 1
        · simp [h, h1]
        · have : childCount t n.id > 1 := by omega
          simp [h, h0, h1, this]

/-! ### `cut`: reverse BFS (networkx) versus decomposition after deleting one edge (igraph)

`distalSet t c` is what `_cut_networkx` computes (descendants-or-self of `c`, by walking the edges
backwards); `distalByDecompose t c` is what `_cut_igraph` computes (delete the edge from `c` to its
parent, take the connected component of `c`). -/

/-- `distalSet ⊆ distalByDecompose`: descendants of `c` are connected to `c` without the deleted edge. -/
theorem cut_bfs_sub_decompose (t : Table) (hw : WF t) (c i : Int) (h : i ∈ distalSet t c) :
    i ∈ distalByDecompose t c := Navis.CutEquiv.distal_sub_decompose hw h

/-- `distalByDecompose ⊆ distalSet`: an undirected path that leaves the subtree of `c` must cross the
deleted edge, because every other edge joins a node to its parent and "distal to `c`" is carried
across such an edge in both directions. -/
theorem cut_decompose_sub_bfs (t : Table) (hw : WF t) (c i : Int) (h : i ∈ distalByDecompose t c) :
    i ∈ distalSet t c := Navis.CutEquiv.decompose_sub_distal hw h

/-- **The two back-ends cut off the same set** — for every well-formed forest and *every* `c`
(present or not, root or not, any number of roots). -/
theorem cut_bfs_eq_decompose_any (t : Table) (hw : WF t) (c : Int) :
    ∀ i, i ∈ distalByDecompose t c ↔ i ∈ distalSet t c :=
  fun i => ⟨cut_decompose_sub_bfs t hw c i, cut_bfs_sub_decompose t hw c i⟩

/-- … in the form the design asks for: one root, `c` a node other than the root. -/
theorem cut_bfs_eq_decompose (t : Table) (hw : WF t) (_hroot : (roots t).length = 1) (c : Int) (_hc : c ∈ ids t)
    (_hnr : c ∉ roots t) : ∀ i, i ∈ distalByDecompose t c ↔ i ∈ distalSet t c :=
  cut_bfs_eq_decompose_any t hw c

/-- Neither list repeats a node, so they are equal up to order. -/
theorem cut_bfs_perm_decompose (t : Table) (hw : WF t) (c : Int) :
    (distalByDecompose t c).Perm (distalSet t c) := by
  apply (List.perm_ext_iff_of_nodup ?_ ?_).mpr (cut_bfs_eq_decompose_any t hw c)
  · unfold distalByDecompose
    cases parentOf t c with
    | none => exact List.nodup_nil
    | some p => exact Navis.CutEquiv.componentOf_nodup _ _ _
  · unfold distalSet; exact hw.1.filter _

/-- Hence the whole `cut` is back-end independent: both fragments are identical tables (same rows,
same order, same repaired parents, same labels). -/
theorem cut_decompose_eq_cut (t : Table) (hw : WF t) (c : Int) : cutByDecompose t c = cut t c := by
  have hk : ∀ i, (distalByDecompose t c).contains i = (distalSet t c).contains i := by
    intro i
    have := cut_bfs_eq_decompose_any t hw c i
    by_cases h : i ∈ distalSet t c
    · simp [h, this.mpr h]
    · have h' : i ∉ distalByDecompose t c := fun h' => h (this.mp h')
      simp [h, h']
  unfold cutByDecompose cut
  cases find? t c with
  | none => rfl
  | some nc =>
    simp only
    split
    · rfl
    · have e1 : (fun i => (distalByDecompose t c).contains i) = fun i => (distalSet t c).contains i := funext hk
      have e2 : (fun i => !(distalByDecompose t c).contains i || i == c) =
          fun i => !(distalSet t c).contains i || i == c := funext fun i => by rw [hk i]
      rw [e1, e2]

/-! ### Non-vacuity -/
def ex : Table := [⟨7, 3, 0, 0, 0, .end_⟩, ⟨3, 9, 3, 0, 0, .branch⟩, ⟨9, -1, 6, 0, 0, .root⟩, ⟨4, 3, 3, 4, 0, .end_⟩]
example : wfB ex = true ∧ labelsOKB ex = true := by decide
example : idxEdges ex = [(0, 1), (1, 2), (3, 1)] ∧ idEdges ex = [(7, 3), (3, 9), (4, 3)] := by decide
example : seedsIgraph ex = [7, 3, 4] ∧ stopsIgraph ex = [3, 9] := by decide

/-- `cut` at `3` (rows in the order `7, 3, 9, 4`): the decomposition finds the cut node first, the
reverse BFS lists table order — the same set. -/
example : distalByDecompose ex 3 = [3, 7, 4] ∧ distalSet ex 3 = [7, 3, 4] := by decide
example : edgesWithout ex 3 9 = [(7, 3), (4, 3)] ∧ componentOf (edgesWithout ex 3 9) 0 3 = [3] ∧
    componentOf (edgesWithout ex 3 9) 1 3 = [3, 7, 4] := by decide
example : distalByDecompose ex 7 = [7] ∧ distalSet ex 7 = [7] ∧ distalByDecompose ex 5 = [] ∧ distalSet ex 5 = [] := by decide
/-- At the root nothing is deleted: both give the whole tree. -/
example : distalByDecompose ex 9 = [9, 3, 4, 7] ∧ distalSet ex 9 = [7, 3, 9, 4] := by decide
example : (cutByDecompose ex 3).map (fun r => (ids r.1, ids r.2)) = some ([7, 3, 4], [3, 9]) ∧
    cutByDecompose ex 3 = cut ex 3 ∧ cutByDecompose ex 9 = none := by decide
/-- Without the deletion the component is the whole tree — the deleted edge is what separates. -/
example : componentOf (edges ex) ((edges ex).length + 1) 3 = [3, 7, 9, 4] := by decide

end Navis.Props.C04
