import NavisModel.Model.Backends
import NavisModel.Proofs.WfB
/-!
# C04 — results do not depend on the compute back-end

Where the igraph and networkx code paths derive the same object differently, the two derivations are
modelled side by side and proved equal for every well-formed, correctly labelled table.  (fastcore is
compiled code: it is tied to the same single model by differential testing only.)
-/
namespace Navis.Props.C04
open Navis.Forest

/-- The igraph builder (row positions + `node_id` attribute) encodes exactly the edges of the
networkx builder (ids): translating positions back through the attribute gives the id pairs, for
every table with unique ids whose parents are present — any labelling, any row order. -/
theorem edges_igraph_eq_nx (t : Table) (hw : WF t) : (idxEdges t).map (relabel t) = idEdges t := by
  have hnd := hw.1
  have hpar := WF_parents hw
  unfold idxEdges idEdges edges relabel
  rw [List.map_map]
  -- go through the indexed rows
  have key : ∀ (l : Table) (k : Nat), (∀ n ∈ l, n ∈ t) → (∀ j (h : j < l.length), (ids t)[k + j]? = some (l[j].id)) →
      ((l.zipIdx k).filter fun p => !isRootNode p.1).map
        ((fun e : Nat × Nat => ((ids t).getD e.1 (-1), (ids t).getD e.2 (-1))) ∘ fun p => (p.2, (ids t).idxOf p.1.parent))
      = (l.filter fun n => !isRootNode n).map fun n => (n.id, n.parent) := by
    intro l
    induction l with
    | nil => intros; rfl
    | cons a l ih =>
      intro k hmem hidx
      rw [List.zipIdx_cons]
      have hrest := ih (k + 1) (fun n hn => hmem n (by simp [hn])) (fun j h => by
        have := hidx (j + 1) (by simp; omega)
        simpa [Nat.add_assoc, Nat.add_comm 1 j] using this)
      by_cases hr : isRootNode a
      · simp only [List.filter_cons, hr, Bool.not_true, Bool.false_eq_true, if_false]
        exact hrest
      · simp only [List.filter_cons, hr, Bool.not_false, if_true, List.map_cons, Function.comp]
        rw [hrest]
        congr 1
        have h0 := hidx 0 (by simp)
        simp only [Nat.add_zero, List.getElem_cons_zero] at h0
        have hp : a.parent ∈ ids t := by
          rcases hpar a (hmem a (by simp)) with h | h
          · simp [isRootNode] at hr; omega
          · exact h
        have hlt := List.idxOf_lt_length_of_mem hp
        simp only [List.getD_eq_getElem?_getD, h0, Option.getD_some, List.getElem?_eq_getElem hlt,
          List.getElem_idxOf hlt]
  have := key t 0 (fun n hn => hn) (fun j h => by
    simp only [Nat.zero_add]
    rw [List.getElem?_eq_getElem (by simpa using h)]
    simp [ids])
  simpa using this

/-- Degree-based and parent-column-based classification agree on every node of every table. -/
theorem classify_old_eq_new (t : Table) (n : Node) : classifyOldNode t n = classifyNode t n := by
  rw [classifyNode_eq_labelOf]
  unfold classifyOldNode labelOf
  by_cases h : n.parent < 0
  · simp [h]
  · simp only [h, if_false, decide_false, Bool.false_eq_true]
    by_cases h1 : childCount t n.id > 1
    · have h2 : ¬ childCount t n.id = 0 := by omega
      have h3 : ¬ childCount t n.id = 1 := by omega
      simp [h1, h2, h3]
    · by_cases h0 : childCount t n.id = 0
      · simp [h0]
      · have h3 : childCount t n.id = 1 := by omega
        simp [h3]

/-- With correct labels the two variants of `_break_segments` start from the same seeds and stop at
the same stops. -/
theorem break_seeds_agree (t : Table) (hl : labelsOKB t = true) :
    seedsIgraph t = seedsNx t ∧ stopsIgraph t = stopsNx t := by
  rw [labelsOKB_iff] at hl
  unfold seedsIgraph seedsNx stopsIgraph stopsNx
  constructor
  · congr 1
    apply List.filter_congr
    intro n hn
    rw [hl n hn]
    unfold labelOf isRootNode
    by_cases h : n.parent < 0
    · simp [h]
    · by_cases h0 : childCount t n.id = 0
      · simp [h, h0]
      · by_cases h1 : childCount t n.id = 1
        · simp [h, h1]
        · have : childCount t n.id > 1 := by omega
          simp [h, h0, h1, this]
  · congr 1
    apply List.filter_congr
    intro n hn
    rw [hl n hn]
    unfold labelOf isRootNode
    by_cases h : n.parent < 0
    · simp [h]
    · by_cases h0 : childCount t n.id = 0
      · simp [h, h0]
      · by_cases h1 : childCount t n.id = 1
        · simp [h, h1]
        · have : childCount t n.id > 1 := by omega
          simp [h, h0, h1, this]

/-! ### Non-vacuity -/
def ex : Table := [⟨7, 3, 0, 0, 0, .end_⟩, ⟨3, 9, 3, 0, 0, .branch⟩, ⟨9, -1, 6, 0, 0, .root⟩, ⟨4, 3, 3, 4, 0, .end_⟩]
example : wfB ex = true ∧ labelsOKB ex = true := by decide
example : idxEdges ex = [(0, 1), (1, 2), (3, 1)] ∧ idEdges ex = [(7, 3), (3, 9), (4, 3)] := by decide
example : seedsIgraph ex = [7, 3, 4] ∧ stopsIgraph ex = [3, 9] := by decide

end Navis.Props.C04
