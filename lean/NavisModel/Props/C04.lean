import NavisModel.Model.Backends
import NavisModel.Proofs.WfB
import NavisModel.Model.CutVariants
import NavisModel.Proofs.CutEquivLemmas
import NavisModel.Proofs.StrahlerSweepFixLemmas
import NavisModel.Proofs.BackendLemmas
import NavisModel.Proofs.SegmentVariantsLemmas
import NavisModel.Proofs.FlowVariantsLemmas
import NavisModel.Proofs.ComponentLemmas
/-!
# C04 — results do not depend on the compute back-end

Where the igraph and networkx code paths derive the same object differently, the two derivations are
modelled side by side and proved equal for every well-formed, correctly labelled table.  (fastcore is
compiled code: it is tied to the same single model by differential testing only.)
-/
namespace Navis.Props.C04
open Navis.Forest

/-- The igraph builder (row positions + `node_id` attribute) encodes exactly the edges of the
networkx builder (ids): translating positions back through the attribute gives the id pairs, for
every table with unique ids whose parents are present — any labelling, any row order. -/
theorem edges_igraph_eq_nx (t : Table) (hw : WF t) : (idxEdges t).map (relabel t) = idEdges t := by
  have hnd := hw.1
  have hpar := WF_parents hw
  unfold idxEdges idEdges edges relabel
  rw [List.map_map]
  -- go through the indexed rows
  have key : ∀ (l : Table) (k : Nat), (∀ n ∈ l, n ∈ t) → (∀ j (h : j < l.length), (ids t)[k + j]? = some (l[j].id)) →
      ((l.zipIdx k).filter fun p => !isRootNode p.1).map
        ((fun e : Nat × Nat => ((ids t).getD e.1 (-1), (ids t).getD e.2 (-1))) ∘ fun p => (p.2, (ids t).idxOf p.1.parent))
      = (l.filter fun n => !isRootNode n).map fun n => (n.id, n.parent) := by
    intro l
    induction l with
    | nil => intros; rfl
    | cons a l ih =>
      intro k hmem hidx
      rw [List.zipIdx_cons]
      have hrest := ih (k + 1) (fun n hn => hmem n (by simp [hn])) (fun j h => by
        have := hidx (j + 1) (by simp; omega)
        simpa [Nat.add_assoc, Nat.add_comm 1 j] using this)
      by_cases hr : isRootNode a
      · simp only [List.filter_cons, hr, Bool.not_true, Bool.false_eq_true, if_false]
        exact hrest
      · simp only [List.filter_cons, hr, Bool.not_false, if_true, List.map_cons, Function.comp]
        rw [hrest]
        congr 1
        have h0 := hidx 0 (by simp)
        simp only [Nat.add_zero, List.getElem_cons_zero] at h0
        have hp : a.parent ∈ ids t := by
          rcases hpar a (hmem a (by simp)) with h | h
          · simp [isRootNode] at hr; omega
          · exact h
        have hlt := List.idxOf_lt_length_of_mem hp
        simp only [List.getD_eq_getElem?_getD, h0, Option.getD_some, List.getElem?_eq_getElem hlt,
          List.getElem_idxOf hlt]
  have := key t 0 (fun n hn => hn) (fun j h => by
    simp only [Nat.zero_add]
    rw [List.getElem?_eq_getElem (by simpa using h)]
    simp [ids])
  simpa using this

/-- Degree-based and parent-column-based classification agree on every node of every table. -/
theorem classify_old_eq_new (t : Table) (n : Node) : classifyOldNode t n = classifyNode t n := by
  rw [classifyNode_eq_labelOf]
  unfold classifyOldNode labelOf
  by_cases h : n.parent < 0
  · simp [h]
  · simp only [h, if_false, decide_false, Bool.false_eq_true]
    by_cases h1 : childCount t n.id > 1
    · have h2 : ¬ childCount t n.id = 0 := by omega
      have h3 : ¬ childCount t n.id = 1 := by omega
      simp [h1, h2, h3]
    · by_cases h0 : childCount t n.id = 0
      · simp [h0]
      · have h3 : childCount t n.id = 1 := by omega
        simp [h3]

/-- With correct labels the two variants of `_break_segments` start from the same seeds and stop at
the same stops. -/
theorem break_seeds_agree (t : Table) (hl : labelsOKB t = true) :
    seedsIgraph t = seedsNx t ∧ stopsIgraph t = stopsNx t := by
  rw [labelsOKB_iff] at hl
  unfold seedsIgraph seedsNx stopsIgraph stopsNx
  constructor
  · congr 1
    apply List.filter_congr
    intro n hn
    rw [hl n hn]
    unfold labelOf isRootNode
    by_cases h : n.parent < 0
    · simp [h]
    · by_cases h0 : childCount t n.id = 0
      · simp [h, h0]
      · by_cases h1 : childCount t n.id = 1
        · simp [h, h1]
        · have : childCount t n.id > 1 := by omega
          simp [h, h0, h1, this]
  · congr 1
    apply List.filter_congr
    intro n hn
    rw [hl n hn]
    unfold labelOf isRootNode
    by_cases h : n.parent < 0
    · simp [h]
    · by_cases h0 : childCount t n.id = 0
      · simp [h, h0]
      · by_cases h1 : childCount t n.id = 1
        · simp [h, h1]
        · have : childCount t n.id > 1 := by omega
          simp [h, h0, h1, this]

/-! ### `cut`: reverse BFS (networkx) versus decomposition after deleting one edge (igraph)

`distalSet t c` is what `_cut_networkx` computes (descendants-or-self of `c`, by walking the edges
backwards); `distalByDecompose t c` is what `_cut_igraph` computes (delete the edge from `c` to its
parent, take the connected component of `c`). -/

/-- `distalSet ⊆ distalByDecompose`: descendants of `c` are connected to `c` without the deleted edge. -/
theorem cut_bfs_sub_decompose (t : Table) (hw : WF t) (c i : Int) (h : i ∈ distalSet t c) :
    i ∈ distalByDecompose t c := Navis.CutEquiv.distal_sub_decompose hw h

/-- `distalByDecompose ⊆ distalSet`: an undirected path that leaves the subtree of `c` must cross the
deleted edge, because every other edge joins a node to its parent and "distal to `c`" is carried
across such an edge in both directions. -/
theorem cut_decompose_sub_bfs (t : Table) (hw : WF t) (c i : Int) (h : i ∈ distalByDecompose t c) :
    i ∈ distalSet t c := Navis.CutEquiv.decompose_sub_distal hw h

/-- **The two back-ends cut off the same set** — for every well-formed forest and *every* `c`
(present or not, root or not, any number of roots). -/
theorem cut_bfs_eq_decompose_any (t : Table) (hw : WF t) (c : Int) :
    ∀ i, i ∈ distalByDecompose t c ↔ i ∈ distalSet t c :=
  fun i => ⟨cut_decompose_sub_bfs t hw c i, cut_bfs_sub_decompose t hw c i⟩

/-- … in the form the design asks for: one root, `c` a node other than the root. -/
theorem cut_bfs_eq_decompose (t : Table) (hw : WF t) (_hroot : (roots t).length = 1) (c : Int) (_hc : c ∈ ids t)
    (_hnr : c ∉ roots t) : ∀ i, i ∈ distalByDecompose t c ↔ i ∈ distalSet t c :=
  cut_bfs_eq_decompose_any t hw c

/-- Neither list repeats a node, so they are equal up to order. -/
theorem cut_bfs_perm_decompose (t : Table) (hw : WF t) (c : Int) :
    (distalByDecompose t c).Perm (distalSet t c) := by
  apply (List.perm_ext_iff_of_nodup ?_ ?_).mpr (cut_bfs_eq_decompose_any t hw c)
  · unfold distalByDecompose
    cases parentOf t c with
    | none => exact List.nodup_nil
    | some p => exact Navis.CutEquiv.componentOf_nodup _ _ _
  · unfold distalSet; exact hw.1.filter _

/-- Hence the whole `cut` is back-end independent: both fragments are identical tables (same rows,
same order, same repaired parents, same labels). -/
theorem cut_decompose_eq_cut (t : Table) (hw : WF t) (c : Int) : cutByDecompose t c = cut t c := by
  have hk : ∀ i, (distalByDecompose t c).contains i = (distalSet t c).contains i := by
    intro i
    have := cut_bfs_eq_decompose_any t hw c i
    by_cases h : i ∈ distalSet t c
    · simp [h, this.mpr h]
    · have h' : i ∉ distalByDecompose t c := fun h' => h (this.mp h')
      simp [h, h']
  unfold cutByDecompose cut
  cases find? t c with
  | none => rfl
  | some nc =>
    simp only
    split
    · rfl
    · have e1 : (fun i => (distalByDecompose t c).contains i) = fun i => (distalSet t c).contains i := funext hk
      have e2 : (fun i => !(distalByDecompose t c).contains i || i == c) =
          fun i => !(distalSet t c).contains i || i == c := funext fun i => by rw [hk i]
      rw [e1, e2]

/-! ### Strahler index: the pure-Python sweep (igraph and networkx back-ends) versus the recurrence

`Sweep.sweep` (`Model/StrahlerSweep.lean`) is `mmetrics.strahler_index` without navis-fastcore, as written:
a work *set* seeded with the end nodes from which an arbitrary element is popped (`pick` is the choice
oracle — any function of the loop state), the index chosen from the children's indices, the walk towards
the root through every node that is neither negative nor a branch node (forking roots are branch nodes,
non-forking roots are walked through, `>= 0` so node id 0 is an ordinary node), the readiness test at the
node where the walk stopped, isolated roots never visited (default 1), then the fix-up of ignored twigs.
`none` would be a `KeyError` / `IndexError` / non-termination.  `strahler` is the structural recurrence of
C17 (`Props.C17.strahler_recurrence`), which is what navis-fastcore is compared with. -/

/-- **The sweep computes the recurrence** — for every well-formed, correctly labelled forest (any
labelling, row order, number of roots, isolated nodes, node id 0), both methods and EVERY pop order: the
Python code raises no `KeyError`, terminates, and returns the structural Strahler index at every node. -/
theorem strahler_sweep_eq_rec (t : Table) (hw : WF t) (hl : labelsOKB t = true) (g : Bool) (pick : Sweep.St → Nat) :
    ∃ col, Sweep.sweep t g [] pick = some col ∧ ∀ i ∈ ids t, col i = strahler t g [] i :=
  Sweep.sweep_eq hw hl g [] (by simp) pick

/-- … hence its column obeys the recurrence at every node, roots (forking or not) included. -/
theorem strahler_sweep_obeys_recurrence (t : Table) (hw : WF t) (hl : labelsOKB t = true) (g : Bool)
    (pick : Sweep.St → Nat) :
    ∃ col, Sweep.sweep t g [] pick = some col ∧
      ∀ i ∈ ids t, col i = strahlerRule g ((children t i).map col) := by
  obtain ⟨col, h1, h2⟩ := strahler_sweep_eq_rec t hw hl g pick
  refine ⟨col, h1, fun i hi => ?_⟩
  have e : strahler t g [] = strahlerRaw t g [] (t.length + 1) := funext (Flow.strahler_nil t g)
  rw [h2 i hi, e, Flow.strahlerRaw_rec_nil hw g hi]
  congr 1
  apply List.map_congr_left
  intro c hc
  rw [h2 c (Flow.child_facts hw hi hc).1, e]

/-- **The result does not depend on the order in which the work set is popped** (Python pops an arbitrary
element of a `set`). -/
theorem strahler_sweep_order_independent (t : Table) (hw : WF t) (hl : labelsOKB t = true) (g : Bool)
    (pick pick' : Sweep.St → Nat) :
    ∃ col col', Sweep.sweep t g [] pick = some col ∧ Sweep.sweep t g [] pick' = some col' ∧
      ∀ i ∈ ids t, col i = col' i := by
  obtain ⟨col, h1, h2⟩ := strahler_sweep_eq_rec t hw hl g pick
  obtain ⟨col', h1', h2'⟩ := strahler_sweep_eq_rec t hw hl g pick'
  exact ⟨col, col', h1, h1', fun i hi => by rw [h2 i hi, h2' i hi]⟩

/-- The dictionary before the fix-up is the raw recurrence with the ignore list (an ignored end node
contributes 0). -/
theorem strahler_sweep_raw (t : Table) (hw : WF t) (hl : labelsOKB t = true) (g : Bool) (ign : List Int)
    (hign : ∀ l ∈ ign, l ∈ ids t → l ∈ Sweep.endNodes t) (pick : Sweep.St → Nat) :
    ∃ si, Sweep.sweepRaw t g ign pick = some si ∧
      ∀ i ∈ ids t, Sweep.siGetD si i = strahlerRaw t g ign (t.length + 1) i :=
  Sweep.sweepRaw_eq hw hl g ign hign pick

/-- With `to_ignore`: sweep + "fix branches that were ignored" is the model's final index (ignored twigs
take the index of the branch they hang on).
`_partial`: `to_ignore` is restricted to end nodes (typed `end`; ids that are not in the table are
harmless).  The docstring also allows the first node of an *inner* branch; the Python sweep then zeroes
that whole branch, which the C17 model (`strahler`, ignoring twigs only) does not describe — not covered. -/
theorem strahler_sweep_ignore_partial (t : Table) (hw : WF t) (hl : labelsOKB t = true) (g : Bool) (ign : List Int)
    (hign : ∀ l ∈ ign, l ∈ ids t → l ∈ Sweep.endNodes t) (pick : Sweep.St → Nat) :
    ∃ col, Sweep.sweep t g ign pick = some col ∧ ∀ i ∈ ids t, col i = strahler t g ign i :=
  Sweep.sweep_eq hw hl g ign hign pick

/-- With `min_twig_size = k`: the list the Python code appends to `to_ignore` is the model's `shortTwigs`,
and the result is the model's index for `ign ++ shortTwigs t k`. -/
theorem strahler_sweep_min_twig (t : Table) (hw : WF t) (hl : labelsOKB t = true) (g : Bool) (ign : List Int) (k : Nat)
    (hk : k ≠ 0) (hign : ∀ l ∈ ign, l ∈ ids t → l ∈ Sweep.endNodes t) (pick : Sweep.St → Nat) :
    ∃ col, Sweep.sweep t g (Sweep.ignoreList t ign k) pick = some col ∧
      ∀ i ∈ ids t, col i = strahler t g (ign ++ shortTwigs t k) i := by
  obtain ⟨col, h1, h2⟩ := Sweep.sweep_eq hw hl g _ (Sweep.ignoreList_ends ign k hign) pick
  refine ⟨col, h1, fun i hi => ?_⟩
  rw [h2 i hi, Sweep.ignoreList_eq_shortTwigs hl ign k, if_neg hk]

/-! ### the two Python segment builders (`Model/SegmentVariants.lean`)

The igraph variants work on ROW POSITIONS of the graph built by `neuron2igraph` (`idxEdges`; `end` / `branch` /
`root` from in- and out-degrees; positions translated back through the `node_id` attribute at the end), the
networkx variants on NODE IDS of the graph built by `neuron2nx` (`idEdges`; seeds / stops from the `type`
column).  `none` would be an `IndexError` / `KeyError` / `NetworkXError` / non-termination. -/

/-- `_break_segments`, networkx variant, is exactly the C05 model `smallSegments` (same list, same order). -/
theorem break_segments_nx_eq_model (t : Table) (hw : WF t) (hl : labelsOKB t = true) :
    SegVar.breakNx t = some (smallSegments t) := SegVar.breakNx_eq t hw hl

/-- `_break_segments`, igraph variant: whatever order Python iterates the seed *set* in, the result is a
permutation of the same small segments. -/
theorem break_segments_igraph_perm_model (t : Table) (hw : WF t) (hl : labelsOKB t = true) (seeds : List Nat)
    (hs : seeds.Perm (SegVar.seedsIdx t)) :
    ∃ segs, SegVar.breakIgraphFrom t seeds = some segs ∧ segs.Perm (smallSegments t) :=
  SegVar.breakIgraphFrom_perm t hw hl seeds hs

/-- **The two variants of `_break_segments` agree** (up to the order of the segments), and the networkx
list passes the C05 checker. -/
theorem break_segments_variants_agree (t : Table) (hw : WF t) (hl : labelsOKB t = true) :
    ∃ a b, SegVar.breakIgraph t = some a ∧ SegVar.breakNx t = some b ∧ a.Perm b ∧ smallSegmentsOKB t b = true := by
  obtain ⟨a, h1, h2⟩ := SegVar.breakIgraphFrom_perm t hw hl (SegVar.seedsIdx t) (List.Perm.refl _)
  exact ⟨a, smallSegments t, h1, SegVar.breakNx_eq t hw hl, h2, smallSegments_ok hw⟩

/-- **The two variants of `_generate_segments` return the same list** — same segments in the same order,
exact ties included (both start from the same stably sorted leafs; walking positions and translating
back is walking ids) — for every well-formed forest and every edge-length function. -/
theorem generate_segments_igraph_eq_nx (t : Table) (hw : WF t) (len : Int → Int → Nat) :
    SegVar.genIgraph t len = SegVar.genNx t len := SegVar.genIgraph_eq_genNx t hw len

/-- … and that list passes the C05 checker (child→parent paths partitioning the edges, longest first,
isolated nodes as single-node segments) — so do both variants. -/
theorem generate_segments_pass_checker (t : Table) (hw : WF t) (hl : labelsOKB t = true) (len : Int → Int → Nat) :
    ∃ segs, SegVar.genNx t len = some segs ∧ SegVar.genIgraph t len = some segs ∧ segmentsOKB t len segs = true := by
  obtain ⟨segs, h1, h2⟩ := SegVar.genNx_ok t hw hl len
  exact ⟨segs, h1, by rw [SegVar.genIgraph_eq_genNx t hw len]; exact h1, h2⟩

/-! ### synapse flow centrality: the Python path versus the formula at every node

Without navis-fastcore, `synapse_flow_centrality` evaluates the mode's formula only at branch points, roots
and connector nodes, then lets every other node of a small segment inherit the value of the node distal to
it (a connector-free leaf seeds 0), then applies the fork rule (`Model/FlowVariants.lean`, as written).
navis-fastcore evaluates the formula at every node (`Flow.sfc`, what C17 proves to count paths). -/

/-- **The Python path computes `Flow.sfc`** — every well-formed, correctly labelled forest (any number of
roots, isolated nodes, connectors anywhere, several per node, none of one kind), every mode, and every
order in which `x.small_segments` lists the small segments (igraph: a set's order): no `KeyError`, same
column. -/
theorem synapse_flow_python_eq_formula (t : Table) (hw : WF t) (hl : labelsOKB t = true) (m : Flow.Mode)
    (pre post : List Int) (segs : List (List Int)) (hperm : segs.Perm (smallSegments t)) :
    ∃ col, FlowVar.sfcPython t m pre post segs = some col ∧ ∀ i ∈ ids t, col i = Flow.sfc t true m pre post i :=
  FlowVar.sfcPython_eq hw hl m pre post segs hperm

/-- The two facts the propagation rests on: a connector-free node with a single child has its child's
formula value (the distal counts and the per-tree totals do not change), a connector-free leaf has 0. -/
theorem synapse_flow_constant_on_connector_free_stretch (t : Table) (hw : WF t) (m : Flow.Mode) (pre post : List Int) :
    (∀ p c, children t p = [c] → p ∈ ids t → p ∉ pre → p ∉ post →
      Flow.sfcRaw t true m pre post p = Flow.sfcRaw t true m pre post c) ∧
    (∀ e, children t e = [] → e ∉ pre → e ∉ post → Flow.sfcRaw t true m pre post e = 0) :=
  ⟨fun _ _ hch hp h1 h2 => FlowVar.sfcRaw_single_child hw hch hp m pre post h1 h2,
   fun _ hch h1 h2 => FlowVar.sfcRaw_leaf hw hch m pre post h1 h2⟩

/-! ### connected components: root labels (fastcore) versus undirected closure (igraph / networkx) -/

/-- **The undirected component of a node is the set of nodes with the same root** — every well-formed
forest, every node: `|edges| + 1` sweeps of the closure reach exactly the rows whose root path ends in the
same root. -/
theorem components_closure_iff_same_root (t : Table) (hw : WF t) (i : Int) (hi : i ∈ ids t) (j : Int) :
    j ∈ componentClosure t i ↔ j ∈ ids t ∧ rootOf t j = rootOf t i :=
  Navis.CutEquiv.closure_iff_same_root hw hi j

/-- Hence every group navis forms from fastcore's root labels is, as a set, the igraph / networkx component
of each of its members. -/
theorem components_by_root_eq_closure (t : Table) (hw : WF t) (c : List Int) (hc : c ∈ componentsByRoot t)
    (i : Int) (hi : i ∈ c) (j : Int) : j ∈ c ↔ j ∈ componentClosure t i := by
  unfold componentsByRoot at hc
  obtain ⟨r, _, rfl⟩ := List.mem_map.mp hc
  simp only [List.mem_filter, beq_iff_eq] at hi ⊢
  rw [components_closure_iff_same_root t hw i hi.1 j, hi.2]

/-! ### smaller glue that differs between the back-ends -/

/-- `_classify_nodes_old` on networkx degrees (`g.degree` = in + out: ends have degree 1, branch points
degree > 2) agrees with `classify_nodes` (and so with the igraph in-degree variant above). -/
theorem classify_old_nx_eq_new (t : Table) (n : Node) : classifyOldNxNode t n = classifyNode t n :=
  classifyOldNx_eq t n

/-- `geodesic_matrix(from_=…)`: fastcore labels (and orders) the rows by the sorted unique `from_`, the
igraph / networkx branches by node-table order — the same rows under the same labels, only permuted, for
every table with unique ids and every `from_` inside the table (anything else raises on all back-ends). -/
theorem geodesic_from_rows_agree (t : Table) (hw : WF t) (len : Int → Int → Nat) (directed : Bool) (limit : Option Nat)
    (from_ : List Int) (hsub : ∀ i ∈ from_, i ∈ ids t) :
    (geoLabelled t len directed limit (geoRowLabelsPython t from_)).Perm
      (geoLabelled t len directed limit (geoRowLabelsFastcore t from_)) ∧
    (geoRowLabelsFastcore t from_).Nodup ∧ (geoRowLabelsFastcore t from_).Pairwise (· ≤ ·) ∧
    ∀ a, a ∈ geoRowLabelsFastcore t from_ ↔ a ∈ from_ :=
  ⟨(geoRowLabels_perm hw.1 from_ hsub).map _, npUnique_nodup _, npUnique_sorted _, mem_npUnique _⟩

/-- `reroot_skeleton`: the igraph branch (shortest paths from the new root to ALL roots, first non-empty
one) and the networkx branch (follow the parents) reverse the same path — any number of roots, any node. -/
theorem reroot_path_igraph_eq_nx (t : Table) (hw : WF t) (r : Int) (hr : r ∈ ids t) :
    rerootPathIgraph t r = some (rerootPathNx t r) := rerootPath_igraph_eq_nx hw hr

/-! ### Non-vacuity -/
def ex : Table := [⟨7, 3, 0, 0, 0, .end_⟩, ⟨3, 9, 3, 0, 0, .branch⟩, ⟨9, -1, 6, 0, 0, .root⟩, ⟨4, 3, 3, 4, 0, .end_⟩]
example : wfB ex = true ∧ labelsOKB ex = true := by decide
example : idxEdges ex = [(0, 1), (1, 2), (3, 1)] ∧ idEdges ex = [(7, 3), (3, 9), (4, 3)] := by decide
example : seedsIgraph ex = [7, 3, 4] ∧ stopsIgraph ex = [3, 9] := by decide

/-- `cut` at `3` (rows in the order `7, 3, 9, 4`): the decomposition finds the cut node first, the
reverse BFS lists table order — the same set. -/
example : distalByDecompose ex 3 = [3, 7, 4] ∧ distalSet ex 3 = [7, 3, 4] := by decide
example : edgesWithout ex 3 9 = [(7, 3), (4, 3)] ∧ componentOf (edgesWithout ex 3 9) 0 3 = [3] ∧
    componentOf (edgesWithout ex 3 9) 1 3 = [3, 7, 4] := by decide
example : distalByDecompose ex 7 = [7] ∧ distalSet ex 7 = [7] ∧ distalByDecompose ex 5 = [] ∧ distalSet ex 5 = [] := by decide
/-- At the root nothing is deleted: both give the whole tree. -/
example : distalByDecompose ex 9 = [9, 3, 4, 7] ∧ distalSet ex 9 = [7, 3, 9, 4] := by decide
example : (cutByDecompose ex 3).map (fun r => (ids r.1, ids r.2)) = some ([7, 3, 4], [3, 9]) ∧
    cutByDecompose ex 3 = cut ex 3 ∧ cutByDecompose ex 9 = none := by decide
/-- Without the deletion the component is the whole tree — the deleted edge is what separates. -/
example : componentOf (edges ex) ((edges ex).length + 1) 3 = [3, 7, 9, 4] := by decide

/-- Two trees, node id 0, a forking root (0: children 5, 8), a non-forking root (2), rows out of order. -/
def exS : Table := [⟨5, 0, 0, 0, 0, .branch⟩, ⟨0, -1, 0, 0, 0, .root⟩, ⟨8, 0, 0, 0, 0, .end_⟩, ⟨3, 5, 0, 0, 0, .end_⟩,
  ⟨4, 5, 0, 0, 0, .slab⟩, ⟨6, 4, 0, 0, 0, .end_⟩, ⟨2, -1, 0, 0, 0, .root⟩, ⟨7, 2, 0, 0, 0, .end_⟩, ⟨9, -1, 0, 0, 0, .root⟩]
example : wfB exS = true ∧ labelsOKB exS = true := by decide
example : Sweep.endNodes exS = [8, 3, 6, 7] ∧ Sweep.branchNodes exS = [5, 0] := by decide
/-- three pop orders, one column: forking root 0 gets 2 (children 2 and 1), root 2 the index of its chain,
isolated root 9 the default 1 -/
example : (Sweep.sweep exS false [] Sweep.pickFirst).map (fun c => (ids exS).map c) = some [2, 2, 1, 1, 1, 1, 1, 1, 1] ∧
    (Sweep.sweep exS false [] Sweep.pickLast).map (fun c => (ids exS).map c) = some [2, 2, 1, 1, 1, 1, 1, 1, 1] ∧
    (Sweep.sweep exS false [] (Sweep.pickMix 3)).map (fun c => (ids exS).map c) = some [2, 2, 1, 1, 1, 1, 1, 1, 1] ∧
    (ids exS).map (strahler exS false []) = [2, 2, 1, 1, 1, 1, 1, 1, 1] := by decide
example : (Sweep.sweep exS true [] Sweep.pickLast).map (fun c => (ids exS).map c) = some [2, 3, 1, 1, 1, 1, 1, 1, 1] := by decide
/-- ignored twig 3 takes the index of fork 5, which no longer sees it; `min_twig_size = 3` ignores the
two-node twigs 8 and 3 (and 7, whose chain ends at the non-forking root 2: everything there becomes 0) -/
example : (Sweep.sweep exS false [3] Sweep.pickFirst).map (fun c => (ids exS).map c) = some [1, 2, 1, 1, 1, 1, 1, 1, 1] ∧
    (ids exS).map (strahler exS false [3]) = [1, 2, 1, 1, 1, 1, 1, 1, 1] ∧
    Sweep.ignoreList exS [] 3 = [8, 3, 7] ∧
    (Sweep.sweep exS false (Sweep.ignoreList exS [] 3) Sweep.pickLast).map (fun c => (ids exS).map c) =
      some [1, 1, 1, 1, 1, 1, 0, 0, 1] := by decide
/-- `ex`: the igraph seed order (branch points first) differs from the table order of the networkx variant;
in `exS` the leafs 8 and 7 are both at depth 1 and keep their table order (stable sort); the three segments of
length 1 come in decreasing lexicographic order, the isolated node last. -/
example : SegVar.breakIgraph ex = some [[3, 9], [7, 3], [4, 3]] ∧ SegVar.breakNx ex = some [[7, 3], [3, 9], [4, 3]] ∧
    smallSegments ex = [[7, 3], [3, 9], [4, 3]] := by decide
example : SegVar.genIgraph exS (fun _ _ => 1) = some [[6, 4, 5, 0], [8, 0], [7, 2], [3, 5], [9]] ∧
    SegVar.genNx exS (fun _ _ => 1) = some [[6, 4, 5, 0], [8, 0], [7, 2], [3, 5], [9]] ∧
    SegVar.sortedEnds exS (fun _ _ => 1) = [6, 3, 8, 7] := by decide
/-- `exS` with presynapses on 6, 6, 3 and postsynapses on 8, 7, 0: formula at the calc nodes 5, 0, 2, 9 and the
connector nodes, slab 4 inherits from 6; fork 5 takes the larger child. -/
example : (FlowVar.sfcPython exS .centrifugal [6, 6, 3] [8, 7, 0] (smallSegments exS)).map (fun c => (ids exS).map c) =
      some ((ids exS).map (Flow.sfc exS true .centrifugal [6, 6, 3] [8, 7, 0])) ∧
    (ids exS).map (Flow.sfc exS true .centrifugal [6, 6, 3] [8, 7, 0]) = [4, 0, 0, 2, 4, 4, 0, 0, 0] ∧
    FlowVar.calcNodes exS [6, 6, 3] [8, 7, 0] = [5, 0, 8, 3, 6, 2, 7, 9] := by decide
/-- two trees (one rooted at node id 0) and an isolated node -/
def exC : Table := [⟨2, 1, 0, 0, 0, .end_⟩, ⟨1, -1, 0, 0, 0, .root⟩, ⟨0, -1, 0, 0, 0, .root⟩, ⟨7, 0, 0, 0, 0, .end_⟩, ⟨5, -1, 0, 0, 0, .root⟩]
example : wfB exC = true := by decide
example : componentsByRoot exC = [[0, 7], [2, 1], [5]] ∧ componentsByClosure exC = [[2, 1], [0, 7], [5]] := by decide
example : geoRowLabelsPython ex [4, 7, 4] = [7, 4] ∧ geoRowLabelsFastcore ex [4, 7, 4] = [4, 7] := by decide
example : rerootPathIgraph exS 6 = some [6, 4, 5, 0] ∧ rerootPathIgraph exS 7 = some [7, 2] ∧
    rerootPathIgraph exS 9 = some [9] := by decide

end Navis.Props.C04
