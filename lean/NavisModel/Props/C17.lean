import NavisModel.Proofs.FlowLemmas
import NavisModel.Proofs.FlowPathLemmas
import NavisModel.Proofs.SegRealLemmas
import NavisModel.Proofs.SegAnalysisLemmas
import NavisModel.Proofs.StrahlerFcLemmas
import NavisModel.Proofs.MmetricsGenLemmas
/-!
# C17 — morphometrics obey their defining recurrences and path counts

Models: `Model/Prune.lean` (Strahler: `strahlerRule`, `strahlerRaw`, `strahler`), `Model/Flow.lean` (distal counts, flow
centralities, their path-count specifications, segregation index — over `Rat` and generic in the number type —,
tortuosity), `Model/SegAnalysis.lean` (`segment_analysis` row by row), `Model/StrahlerFc.lean` (navis-fastcore's
`to_ignore` / `min_twig_size` behaviour as observed), `Gen/Mmetrics.lean` (≈130 facts re-extracted from
`navis/morpho/mmetrics.py` on every run).  `WF t` is the rank form of well-formedness (DESIGN §2.4).  Synapses are
lists of node ids, one entry per synapse.

State of the clauses (second pass):
* Strahler recurrence, ignored twigs: theorems (`strahler_recurrence`, `strahler_ignored_takes_parent`, …); the rule the
  *source* spells out is proved equal to `strahlerRule` (`source_strahler_rule`).
* Flow centralities: `flow_counts_paths` (synapse flow), **`bending_counts_paths`** (full: the formula counts the
  post→pre tree paths that bend at the fork — the missing lemma, `subtrees_of_distinct_children_disjoint`, is proved),
  `flow_centrality_counts_tip_paths` (as written, at every node — unconditional since the two `fix:` commits for
  terminal twigs and forking roots) with `flow_centrality_spec`; `flow_centrality_le_spec` / `flow_centrality_deviation`
  are kept as *historical* statements about the pre-fix scheme (`flowCentralityHist`).
* Segregation index: `segregation_real_in_unit_interval` and the exact cases are theorems about the function navis
  evaluates, over ℝ with the logarithmic binary entropy (Mathlib: `Real.binEntropy`), up to float rounding.
* `segment_analysis`: lengths sum to the cable length, the Strahler column is well defined, `dist_to_root(first) =
  length + root_dist`, volumes sum to the total (`segment_analysis_*`).
What is *not* proved: IEEE rounding (floats are compared with tolerance 1e-9), navis-fastcore itself (compiled; its
observed behaviour is a model validated exhaustively on ≤ 6 nodes and differentially on every run).
-/
namespace Navis.Props.C17
open Navis.Forest Navis.Flow

/-! ### Strahler index -/

/-- **Fuel independence**: the height of a well-formed forest is at most `|t|`, so the structural
recurrence evaluated with any fuel `≥ |t|` is the same function. -/
theorem strahler_fuel_independent (t : Table) (hw : WF t) (g : Bool) (ign : List Int) (i : Int) (hi : i ∈ ids t)
    (f : Nat) (hf : t.length ≤ f) :
    strahlerRaw t g ign f i = strahlerRaw t g ign (t.length + 1) i :=
  strahlerRaw_fuel hw g ign hi f hf

/-- **The Strahler recurrence holds at every node, roots included**: the index of a node is the rule
applied to its children's indices (no children ↦ 1; one child ↦ that child's index; a fork ↦ the
maximum, plus one when it occurs at least twice; `greedy` ↦ the sum). -/
theorem strahler_recurrence (t : Table) (hw : WF t) (g : Bool) (i : Int) (hi : i ∈ ids t) :
    strahler t g [] i = strahlerRule g ((children t i).map (strahler t g [])) := by
  have e : strahler t g [] = strahlerRaw t g [] (t.length + 1) := funext (strahler_nil t g)
  rw [e]
  exact strahlerRaw_rec_nil hw g hi

/-- The three cases of the rule, spelled out. -/
theorem strahler_rule_cases (g : Bool) :
    strahlerRule g [] = 1 ∧ (∀ c, strahlerRule g [c] = c) ∧
    (∀ c1 c2 cs, strahlerRule true (c1 :: c2 :: cs) = (c1 :: c2 :: cs).sum) ∧
    (∀ c1 c2 cs, strahlerRule false (c1 :: c2 :: cs) =
      (if (c1 :: c2 :: cs).count (maxList (c1 :: c2 :: cs)) ≥ 2 then maxList (c1 :: c2 :: cs) + 1
       else maxList (c1 :: c2 :: cs))) :=
  ⟨rfl, fun _ => rfl, strahlerRule_greedy, strahlerRule_standard⟩

theorem strahler_ge_one (t : Table) (hw : WF t) (g : Bool) (i : Int) (hi : i ∈ ids t) : 1 ≤ strahler t g [] i := by
  rw [strahler_nil]; exact strahlerRaw_ge_one hw g i hi

/-- A parent's index is at least each child's (both methods). -/
theorem strahler_monotone (t : Table) (hw : WF t) (g : Bool) (i c : Int) (hi : i ∈ ids t) (hc : c ∈ children t i) :
    strahler t g [] c ≤ strahler t g [] i := by
  rw [strahler_nil, strahler_nil]; exact strahlerRaw_child_le hw g hi hc

/-- **Meaning of the checker run on navis' column**: a column satisfies the recurrence at every row
iff it is the model's Strahler index (the recurrence has exactly one solution). -/
theorem strahler_checker_sound (t : Table) (hw : WF t) (g : Bool) (v : Int → Nat) :
    strahlerOKB t g v = true ↔ ∀ i ∈ ids t, v i = strahler t g [] i := by
  constructor
  · intro h i hi
    rw [strahler_nil]; exact strahlerOKB_unique hw g v h i hi
  · intro h
    have hc := strahlerOKB_complete hw g
    unfold strahlerOKB at hc ⊢
    rw [List.all_eq_true] at hc ⊢
    intro r hr
    have := hc r hr
    simp only [beq_iff_eq] at this ⊢
    rw [h r.id (mem_ids_of_mem hr), strahler_nil, this]
    congr 1
    apply List.map_congr_left
    intro c hcm
    rw [h c (child_facts hw (mem_ids_of_mem hr) hcm).1, strahler_nil]

/-- **Ignored twigs take their parent branch's index**: every node `i` of the unbranched chain that
ends in an ignored leaf `l` gets the (raw) index of the first branch point or root `s` above `l`; an
ignored leaf contributes 0 to that branch; nodes not on an ignored twig keep the raw index. -/
theorem strahler_ignored_takes_parent (t : Table) (g : Bool) (ign : List Int) (i l s : Int)
    (h1 : chainLeaf t (t.length + 1) i = some l) (h2 : ign.contains l = true) (h3 : stopAbove t l = some s) :
    strahler t g ign i = strahlerRaw t g ign (t.length + 1) s :=
  strahler_of_ignored t g ign h1 h2 h3

theorem strahler_ignored_contributes_zero (t : Table) (g : Bool) (ign : List Int) (l : Int) (f : Nat)
    (hl : children t l = []) (h : ign.contains l = true) : strahlerRaw t g ign (f + 1) l = 0 := by
  have h' : l ∈ ign := by simpa using h
  rw [strahlerRaw_succ]; simp [hl, h']

theorem strahler_not_ignored_keeps_raw (t : Table) (g : Bool) (ign : List Int) (i : Int)
    (h : ∀ l, chainLeaf t (t.length + 1) i = some l → ign.contains l = false) :
    strahler t g ign i = strahlerRaw t g ign (t.length + 1) i :=
  strahler_of_not_ignored t g ign h

/-- In a well-formed forest the "parent branch" of a non-root node exists: a branch point or root among
its proper ancestors, reached through unbranched non-root nodes only. -/
theorem parent_branch_exists (t : Table) (hw : WF t) (n : Node) (hn : n ∈ t) (hp : ¬ n.parent < 0) :
    ∃ mid s, stopAbove t n.id = some s ∧ isBranchOrRoot t s = true ∧
      rootPath t n.id = (n.id :: mid) ++ rootPath t s ∧ ∀ x ∈ mid, isBranchOrRoot t x = false :=
  stopAbove_spec hw hn hp

/-! ### flow centralities -/

/-- **Synapse flow centrality counts paths.**  For every node `n` of a well-formed forest the formula
`(total_post − distal_post)·distal_pre` (totals per tree) equals the number of (postsynapse,
presynapse) pairs whose tree path runs through `n` on its *descending* leg (centrifugal: enters `n`
from its parent); `distal_post·(total_pre − distal_pre)` the number of pairs whose path runs through
`n` on its *ascending* leg (centripetal: leaves `n` towards its parent); `sum` adds both.  Pairs in
different trees have no path and are not counted. -/
theorem flow_counts_paths (t : Table) (hw : WF t) (m : Mode) (pre post : List Int) (n : Int) :
    sfcRaw t true m pre post n = pathCount t m pre post n :=
  (pathCount_eq hw m pre post n).symm

/-- The count formulas themselves, as numbers of pairs (`a` post, `b` pre). -/
theorem flow_count_formula (t : Table) (hw : WF t) (pre post : List Int) (n : Int) :
    centrifugal t true pre post n =
      ((product post pre).filter fun p => (sameTree t p.1 n && !isDistal t n p.1) && isDistal t n p.2).length ∧
    centripetal t true pre post n =
      ((product post pre).filter fun p => isDistal t n p.1 && (sameTree t p.2 n && !isDistal t n p.2)).length := by
  constructor
  · rw [count_product (fun a => sameTree t a n && !isDistal t n a) (fun b => isDistal t n b),
      length_filter_diff (fun a => sameTree t a n) (fun a => isDistal t n a) post
        (fun a _ ha => sameTree_of_distal hw (isDistal_iff.mp ha))]
    simp [centrifugal, total, treeCount, distalCount]
  · rw [count_product (fun a => isDistal t n a) (fun b => sameTree t b n && !isDistal t n b),
      length_filter_diff (fun a => sameTree t a n) (fun a => isDistal t n a) pre
        (fun a _ ha => sameTree_of_distal hw (isDistal_iff.mp ha))]
    simp [centripetal, total, treeCount, distalCount]

/-- Which nodes a path runs through on its way up: exactly the ancestors-or-self of the start that are
not ancestors-or-self of the end (same tree) — and they do lie on the explicit tree path. -/
theorem path_leg_characterisation (t : Table) (hw : WF t) (a b n : Int) :
    (n ∈ legUp t a b ↔ n ∈ rootPath t a ∧ n ∉ rootPath t b ∧ sameTree t b n = true) ∧
    (∀ p, treePath t a b = some p → (n ∈ legUp t a b ∨ n ∈ legUp t b a) → n ∈ p) :=
  ⟨mem_legUp_iff hw a b n, fun _ h hn => legUp_sub_treePath h hn⟩

/-- **Forks take their largest child's value** (the value replaces the fork's own formula value). -/
theorem fork_takes_max_child (t : Table) (pt : Bool) (m : Mode) (pre post : List Int) (n : Int) (h : isFork t n = true) :
    sfc t pt m pre post n = maxList ((children t n).map (sfcRaw t pt m pre post)) ∧
    (∀ c ∈ children t n, sfcRaw t pt m pre post c ≤ sfc t pt m pre post n) ∧
    (∃ c ∈ children t n, sfc t pt m pre post n = sfcRaw t pt m pre post c) := by
  have e : sfc t pt m pre post n = maxList ((children t n).map (sfcRaw t pt m pre post)) := by
    unfold sfc; rw [if_pos h]
  refine ⟨e, ?_, ?_⟩
  · intro c hc
    rw [e]; exact le_maxList (List.mem_map.mpr ⟨c, hc, rfl⟩)
  · have hne : (children t n).map (sfcRaw t pt m pre post) ≠ [] := by
      simpa using children_ne_nil_of_isFork h
    obtain ⟨c, hc, hv⟩ := List.mem_map.mp (maxList_mem hne)
    exact ⟨c, hc, by rw [e, hv]⟩

theorem nonfork_keeps_formula (t : Table) (pt : Bool) (m : Mode) (pre post : List Int) (n : Int) (h : isFork t n = false) :
    sfc t pt m pre post n = sfcRaw t pt m pre post n := by
  unfold sfc; simp [h]

/-- **Meaning of the checker run on navis' column**: accepted iff every row carries the path count
(forks: the largest child's path count), i.e. the model value with per-tree totals. -/
theorem flow_checker_sound (t : Table) (hw : WF t) (m : Mode) (pre post : List Int) (v : Int → Nat) :
    sfcOKB t m pre post v = true ↔ ∀ r ∈ t, v r.id = sfc t true m pre post r.id := by
  unfold sfcOKB
  rw [List.all_eq_true]
  constructor
  · intro h r hr
    have := h r hr
    simp only [beq_iff_eq] at this
    rw [this, sfcSpec_eq hw]
  · intro h r hr
    simp only [beq_iff_eq]
    rw [h r hr, sfcSpec_eq hw]

/-- Leaf ("tip-to-tip") flow: the formula `(total_leafs − distal)·distal` of `flow_centrality` is the
number of ordered leaf pairs whose path leaves `n` towards its parent (totals per tree).
`_partial`: navis evaluates it at branch points only and lets terminal twigs carry 0, see
`known_findings/C17.json`; the theorem is about the formula. -/
theorem flow_centrality_counts_tip_pairs_partial (t : Table) (hw : WF t) (n : Int) :
    leafFormula t true n = pathsUp t (Flow.leafIds t) (Flow.leafIds t) n := by
  rw [pathsUp_eq hw]
  unfold leafFormula centripetal
  exact Nat.mul_comm _ _

/-- Bending flow at a fork is the number of (child pair, synapse pair) incidences: a postsynapse below
one child and a presynapse below another. -/
theorem bending_counts_pairs_partial (t : Table) (pre post : List Int) (b : Int) :
    bendAt t pre post b = bendPairs t pre post b := bendAt_eq_bendPairs t pre post b

/-! ### tortuosity -/

/-- **Tortuosity is never below 1** (squared form: chord² ≤ arc²) for every small segment of a
well-formed skeleton with exact integer edge lengths — the triangle inequality. -/
theorem tortuosity_ge_one (t : Table) (hw : WF t) (hex : exactEdgesB t = true) (s : List Int) (hs : s ∈ smallSegments t) :
    chordSq t s ≤ ((arcLen t s : Nat) : Int) * (arcLen t s : Nat) :=
  chordSq_le_arcSq hex s (smallSegments_linked hw s hs)

/-- The same for any chain of points whose consecutive distances are *at most* the given lengths. -/
theorem arc_ge_chord (pos : Int → P3) (len : Int → Int → Nat) (a z : Int) (rest : List Int)
    (h : edgesWithin pos len (a :: rest)) (hz : (a :: rest).getLast? = some z) :
    sqd (pos a) (pos z) ≤ ((pathLen len (a :: rest) : Nat) : Int) * (pathLen len (a :: rest) : Nat) :=
  chord_le_arc pos len rest a z h hz

/-- **Straight segments have tortuosity exactly 1**: consecutive points advance by natural multiples of
one direction of integer length. -/
theorem tortuosity_straight_eq_one (pos : Int → P3) (len : Int → Int → Nat) (d : P3) (m : Nat)
    (hd : d.1 * d.1 + d.2.1 * d.2.1 + d.2.2 * d.2.2 = (m : Int) * m) (a z : Int) (rest : List Int)
    (hs : straight pos len d m (a :: rest)) (hz : (a :: rest).getLast? = some z) :
    sqd (pos a) (pos z) = ((pathLen len (a :: rest) : Nat) : Int) * (pathLen len (a :: rest) : Nat) :=
  chord_eq_arc_of_straight pos len d m hd rest a z hs hz

/-! ### segregation index -/

/-- **Exact cases** of the segregation index, for every entropy function `H` that does not vanish on
(0,1): 0 when only one kind of synapse exists; exactly 1 when no fragment mixes the two kinds; exactly
0 when every non-empty fragment has the neuron's overall mixture. -/
theorem segregation_bounds_partial (H : Rat → Rat) (fs : List Frag) (hp : totPre fs ≠ 0) (hq : totPost fs ≠ 0) :
    ((∀ f ∈ fs, f.pre = 0 ∨ f.post = 0) → segIdx H fs = some 1) ∧
    (H ((totPost fs : Rat) / ((totPre fs + totPost fs : Nat) : Rat)) ≠ 0 →
      (∀ f ∈ fs, f.tot ≠ 0 → (f.post : Rat) / (f.tot : Rat) = (totPost fs : Rat) / ((totPre fs + totPost fs : Nat) : Rat)) →
      segIdx H fs = some 0) :=
  ⟨segIdx_separated H fs hp hq, segIdx_identical H fs hp hq⟩

theorem segregation_one_kind_zero (H : Rat → Rat) (fs : List Frag) (htot : totPre fs + totPost fs ≠ 0)
    (h : totPre fs = 0 ∨ totPost fs = 0) : segIdx H fs = some 0 := segIdx_one_kind H fs htot h

/-- **The index lies in [0, 1]** for every entropy function whose guarded form (`H` on (0,1), 0
elsewhere — what the code evaluates) is non-negative and concave on [0,1]: the synapse-weighted mean of
the fragment entropies is at most the entropy of the pooled mixture (Jensen). -/
theorem segregation_in_unit_interval_of_concave (H : Rat → Rat) (hG : ConcaveNonneg (guardH H)) (fs : List Frag)
    (v : Rat) (h : segIdx H fs = some v) : 0 ≤ v ∧ v ≤ 1 := segIdx_bounds H hG fs v h

/-- The driver's exact classification is sound. -/
theorem segregation_exact_sound (H : Rat → Rat) (hH : ∀ p : Rat, 0 < p → p < 1 → H p ≠ 0) (fs : List Frag) (k : Nat)
    (h : segExact fs = some k) : segIdx H fs = some (k : Rat) := segExact_sound H hH fs k h

/-! ## Second pass -/

/-! ### subtrees of distinct children are disjoint; bending flow counts the paths that bend at a fork -/

/-- **Subtrees of distinct children of a node are disjoint** in a well-formed forest: no node is distal to two
different children of the same node (so a path is incident to at most one ordered pair of child branches). -/
theorem subtrees_of_distinct_children_disjoint (t : Table) (hw : WF t) (b c1 c2 : Int) (hb : b ∈ ids t)
    (h1 : c1 ∈ children t b) (h2 : c2 ∈ children t b) (hne : c1 ≠ c2) (p : Int) :
    ¬ (isDistal t c1 p = true ∧ isDistal t c2 p = true) :=
  subtrees_disjoint hw hb h1 h2 hne p

/-- **Bending flow counts paths** (full statement; supersedes `bending_counts_pairs_partial`): at every node `b`
of a well-formed forest, `Σ distal_post[left]·distal_pre[right]` over the ordered pairs of distinct children equals
the number of (postsynapse, presynapse) pairs whose tree path *bends at* `b` — `b` is the apex of the path and
neither of its ends. -/
theorem bending_counts_paths (t : Table) (hw : WF t) (pre post : List Int) (b : Int) (hb : b ∈ ids t) :
    bendAt t pre post b = bendSpec t pre post b :=
  bendAt_eq_bendSpec hw pre post hb

/-- What "bends at `b`" means on the explicit tree path: it is `up ++ b :: down` with both legs non-empty, `up`
climbing from the postsynapse, `down` descending to the presynapse. -/
theorem bending_path_shape (t : Table) (b p q : Int) (h : bendsAt t b p q = true) :
    treePath t p q = some (legUp t p q ++ b :: (legUp t q p).reverse) ∧ legUp t p q ≠ [] ∧ legUp t q p ≠ [] :=
  bendsAt_treePath h

/-- `bending_flow` as written: a fork (≥ 2 children, roots included) carries its own path count; every other node
inherits the count of the fork at the proximal end of its small segment (0 when that end is a non-forking root). -/
theorem bending_flow_values (t : Table) (hw : WF t) (pre post : List Int) (n : Int) (hn : n ∈ ids t) :
    (2 ≤ childCount t n → bendingFlow t pre post n = bendSpec t pre post n) ∧
    (childCount t n < 2 → ∀ s, stopAbove t n = some s → s ∈ ids t →
      bendingFlow t pre post n = if 2 ≤ childCount t s then bendSpec t pre post s else 0) := by
  constructor
  · intro h
    unfold bendingFlow; rw [if_pos h]; exact bendAt_eq_bendSpec hw pre post hn
  · intro h s hs hsi
    unfold bendingFlow
    rw [if_neg (by omega), hs]
    simp only
    by_cases h2 : 2 ≤ childCount t s
    · rw [if_pos h2, if_pos h2]; exact bendAt_eq_bendSpec hw pre post hsi
    · rw [if_neg h2, if_neg h2]

/-- The child-pair test the code performs is the "bends at" test (per synapse pair). -/
theorem bending_pair_test (t : Table) (hw : WF t) (b : Int) (hb : b ∈ ids t) (p q : Int) :
    ((childPairs t b).any fun c => isDistal t c.1 p && isDistal t c.2 q) = bendsAt t b p q :=
  any_childPairs_iff_bendsAt hw hb p q

/-! ### leaf flow centrality: as written vs. the path count -/

/-- **Specification** of `flow_centrality`: the number of tip-to-tip paths leaving the node towards its parent,
forks taking their largest child's count.  It is the formula `(L − d)·d` evaluated at *every* node (per tree), and
it is `synapse_flow_centrality(mode="centripetal")` of the neuron with one pre- and one postsynapse on each leaf —
which is how the open finding can be repaired. -/
theorem flow_centrality_spec (t : Table) (hw : WF t) (n : Int) :
    fcSpec t n = (if isFork t n then maxList ((children t n).map (leafFormula t true)) else leafFormula t true n) ∧
    fcSpec t n = sfc t true .centripetal (Flow.leafIds t) (Flow.leafIds t) n := by
  refine ⟨?_, fcSpec_eq_sfc hw n⟩
  unfold fcSpec
  have : tipPaths t = leafFormula t true := funext fun m => (leafFormula_eq_tipPaths hw m).symm
  rw [this]

/-- **`flow_centrality` as written counts tip-to-tip paths** — unconditionally since the two `fix:` commits
(`flow_centrality/terminal-twig/zero-instead-of-tip-count`, `flow_centrality/forking-root/inherits-first-segment`): at
every node of a well-formed forest the value the code computes (formula at branch points, leafs and roots; the other
nodes inherit from the distal seed of their segment; branch points then take their largest child's value) is the
number of ordered leaf pairs whose path leaves the node towards its parent, forks taking the largest such count among
their children. -/
theorem flow_centrality_counts_tip_paths (t : Table) (hw : WF t) (n : Int) (hn : n ∈ ids t) :
    flowCentrality t true n = fcSpec t n :=
  flowCentrality_eq_fcSpec hw hn

/-- Meaning of comparing navis' column with `fcSpec`: it is the model of the code (`flowCentrality`) at every row. -/
theorem flow_centrality_checker_sound (t : Table) (hw : WF t) (v : Int → Nat) :
    (∀ r ∈ t, v r.id = fcSpec t r.id) ↔ (∀ r ∈ t, v r.id = flowCentrality t true r.id) := by
  constructor <;> intro h r hr
  · rw [h r hr, flowCentrality_eq_fcSpec hw (mem_ids_of_mem hr)]
  · rw [h r hr, flowCentrality_eq_fcSpec hw (mem_ids_of_mem hr)]

/-- **Historical** (the code before the fixes, `flowCentralityHist`: only branch points computed): the value never
exceeded the path count, and equalled it wherever no terminal twig was involved… -/
theorem flow_centrality_le_spec (t : Table) (hw : WF t) (n : Int) (hn : n ∈ ids t) :
    flowCentralityHist t true n ≤ fcSpec t n ∧
    ((if isFork t n then ∀ c ∈ children t n, seedIsFork t c = true else seedIsFork t n = true) →
      flowCentralityHist t true n = fcSpec t n) :=
  ⟨flowCentralityHist_le_fcSpec hw hn, flowCentralityHist_eq_fcSpec hw hn⟩

/-- …**historical**: and this was the clause false of the old code (finding
`flow_centrality/terminal-twig/zero-instead-of-tip-count`, fixed): on a terminal twig its pre-fork value was 0,
whatever the number of tip-to-tip paths through the node.  The repaired model `fcPre` has no such case
(`flow_centrality_counts_tip_paths`). -/
theorem flow_centrality_deviation (t : Table) (n : Int) (h : seedIsFork t n = false) : fcPreHist t true n = 0 :=
  fcPreHist_of_not_seedIsFork h

/-- The formula is constant along an unbranched chain (why the code may propagate it along small segments). -/
theorem leaf_formula_constant_on_chain (t : Table) (hw : WF t) (n c : Int) (hn : n ∈ ids t) (hc : children t n = [c]) :
    leafFormula t true n = leafFormula t true c :=
  leafFormula_single_child hw hn hc

/-! ### segregation index over ℝ with the logarithmic binary entropy (what navis evaluates, up to rounding) -/

/-- The executable `Rat` model is the generic definition at `K = Rat`. -/
theorem segregation_model_is_generic (H : Rat → Rat) (fs : List Frag) : segIdx H fs = segIdxG H fs := segIdx_eq_G H fs

/-- navis' entropy `-(p·ln p + (1−p)·ln(1−p))` is Mathlib's `Real.binEntropy`. -/
theorem navis_entropy_is_binEntropy : navisEntropy = Real.binEntropy := navisEntropy_eq_binEntropy

/-- **The segregation index lies in [0, 1]** — for the real-valued function navis computes
(`segIdxG` at `K = ℝ` with the logarithmic binary entropy), for every list of fragments. -/
theorem segregation_real_in_unit_interval (fs : List Frag) (v : ℝ) (h : segIdxG navisEntropy fs = some v) :
    0 ≤ v ∧ v ≤ 1 :=
  segIdxG_bounds navisEntropy concave_navisEntropy fs v h

/-- **Exactly 1 iff perfectly separated** (both kinds of synapse present). -/
theorem segregation_real_one_iff_separated (fs : List Frag) (hp : totPre fs ≠ 0) (hq : totPost fs ≠ 0) :
    segIdxG navisEntropy fs = some 1 ↔ ∀ f ∈ fs, f.pre = 0 ∨ f.post = 0 :=
  segIdxG_eq_one_iff navisEntropy navisEntropy_pos fs hp hq

/-- **0 for identical mixtures**, and 0 when only one kind of synapse exists. -/
theorem segregation_real_zero_cases (fs : List Frag) :
    (totPre fs ≠ 0 → totPost fs ≠ 0 →
      (∀ f ∈ fs, f.tot ≠ 0 → (f.post : ℝ) / (f.tot : ℝ) = (totPost fs : ℝ) / ((totPre fs + totPost fs : Nat) : ℝ)) →
      segIdxG navisEntropy fs = some 0) ∧
    (totPre fs + totPost fs ≠ 0 → (totPre fs = 0 ∨ totPost fs = 0) → segIdxG navisEntropy fs = some 0) := by
  constructor
  · intro hp hq h
    have b := pnG_bounds (K := ℝ) hp hq
    exact segIdxG_identical navisEntropy fs hp hq (ne_of_gt (navisEntropy_pos _ b.1 b.2)) h
  · intro htot h
    exact segIdxG_one_kind navisEntropy fs htot h

/-- The bound over any linearly ordered field and any concave non-negative guarded entropy (generalises
`segregation_in_unit_interval_of_concave`). -/
theorem segregation_generic_in_unit_interval {K : Type} [Field K] [LinearOrder K] [IsStrictOrderedRing K]
    (H : K → K) (hG : ConcaveNonnegG (guardG H)) (fs : List Frag) (v : K) (h : segIdxG H fs = some v) : 0 ≤ v ∧ v ≤ 1 :=
  segIdxG_bounds H hG fs v h

/-! ### `segment_analysis` -/

/-- **Per-segment lengths sum to the cable length** (for the row-by-row model of `segment_analysis`). -/
theorem segment_analysis_lengths_sum_to_cable (t : Table) (hw : WF t) (rad : Int → Option Int) :
    ((segAnalysis t rad).map (·.length)).sum = cable t (coordLen t) :=
  segAnalysis_lengths_sum hw rad

/-- **The Strahler column is well defined**: every node of a small segment except its last (a branch point or root)
has the Strahler index of the segment's first node, which is what the column reports. -/
theorem segment_analysis_strahler_well_defined (t : Table) (hw : WF t) (g : Bool) (s : List Int) (hs : s ∈ smallSegments t)
    (a : Int) (ha : s.head? = some a) : ∀ x ∈ s.dropLast, strahler t g [] x = strahler t g [] a :=
  strahler_const_on_segment hw g hs a ha

/-- `dist_to_root` of a segment's first node = its length + the `root_dist` column (of its last node). -/
theorem segment_analysis_root_dist (t : Table) (hw : WF t) (len : Int → Int → Nat) (s : List Int) (hs : s ∈ smallSegments t)
    (a b : Int) (ha : s.head? = some a) (hb : s.getLast? = some b) :
    distToRoot t len a = pathLen len s + distToRoot t len b :=
  rootDist_first hw len hs a b ha hb

/-- **Per-segment volumes sum to the total** over all node→parent frusta (NaN radii dropped as `nansum` does). -/
theorem segment_analysis_volumes_sum (t : Table) (hw : WF t) (rad : Int → Option Int) :
    ((segAnalysis t rad).map (·.volume3)).sum = totalVolume3 t rad :=
  segAnalysis_volumes_sum hw rad

/-- Per-segment tortuosity is never below 1 (row form of `tortuosity_ge_one`). -/
theorem segment_analysis_tortuosity_ge_one (t : Table) (hw : WF t) (hex : exactEdgesB t = true) (rad : Int → Option Int)
    (s : List Int) (hs : s ∈ smallSegments t) (r : SegRow) (hr : segRow t rad s = some r) :
    r.chordSq ≤ ((r.length : Nat) : Int) * (r.length : Nat) := by
  obtain ⟨r', hr', hl, hc, _⟩ := segRow_some (t := t) rad (smallSegment_ne_nil hs)
  rw [hr] at hr'; obtain rfl := Option.some.inj hr'
  rw [hl, hc]
  exact chordSq_le_arcSq hex s (smallSegments_linked hw s hs)

/-- **Meaning of the twig checker run on navis' column**: accepted iff every small segment that starts at an ignored
leaf and ends in a branch point (≥ 2 children, root or not) carries the branch point's value on all its nodes —
"ignored or too-short twigs take their parent branch's index". -/
theorem ignored_twigs_checker_sound (t : Table) (eff : List Int) (v : Int → Nat) :
    ignoredTwigsOKB t eff v = true ↔
      ∀ s ∈ smallSegments t, ∀ h e, s.head? = some h → s.getLast? = some e → h ∈ eff → childCount t h = 0 →
        2 ≤ childCount t e → ∀ x ∈ s.dropLast, v x = v e := by
  unfold ignoredTwigsOKB
  rw [List.all_eq_true]
  constructor
  · intro hall s hs h e hh he hin hc0 hc2 x hx
    have := hall s hs
    unfold twigOKB at this
    rw [hh, he] at this
    simp only at this
    have hcond : (eff.contains h && childCount t h == 0 && decide (2 ≤ childCount t e)) = true := by
      simp [hin, hc0, hc2]
    rw [if_pos hcond, List.all_eq_true] at this
    simpa using this x hx
  · intro hspec s hs
    unfold twigOKB
    cases hh : s.head? with
    | none => rfl
    | some h =>
      cases he : s.getLast? with
      | none => rfl
      | some e =>
        simp only
        split
        · rename_i hcond
          simp only [Bool.and_eq_true, List.contains_iff_mem, beq_iff_eq, decide_eq_true_eq] at hcond
          rw [List.all_eq_true]
          intro x hx
          simpa using hspec s hs h e hh he hcond.1.1 hcond.1.2 hcond.2 x hx
        · rfl

/-- The checker is not vacuous and the specification model passes it: `strahler t g eff` (Python semantics: ignored
twigs take the raw index of the branch they hang on) satisfies the twig clause for every well-formed forest, ignore
list and method. -/
theorem strahler_model_passes_twig_checker (t : Table) (hw : WF t) (g : Bool) (eff : List Int) :
    ignoredTwigsOKB t eff (strahler t g eff) = true :=
  strahler_passes_twig_checker hw g eff

/-! ### navis-fastcore as observed -/

/-- Without `to_ignore` / `min_twig_size` the accelerator model is the Strahler recurrence: the open finding
concerns the ignore options only. -/
theorem fastcore_model_is_recurrence_without_ignore (t : Table) (g : Bool) (i : Int) :
    strahlerFc t g [] 0 i = strahler t g [] i :=
  strahlerFc_no_ignore t g i

/-! ### facts re-extracted from `navis/morpho/mmetrics.py` (`Gen/Mmetrics.lean`) -/
section Source
open Navis.Gen Navis.PyExpr

/-- **The rule chain the source spells out is `strahlerRule`**: `0` for ignored starts, `1` for leafs, the single
child's index, `sum` for `"greedy"`, `max + 1` when `count(max) >= 2`, else `max`. -/
theorem source_strahler_rule (g : Bool) (cs : List Nat) :
    genRule g cs = some (strahlerRule g cs) ∧ Mmetrics.siIgnoredValue = 0 ∧ Mmetrics.siLeafValue = 1 ∧
    Mmetrics.siGreedyLiteral = "greedy" ∧ Mmetrics.siMethods = ["standard", "greedy"] ∧
    Mmetrics.siDefaults = [("method", "'standard'"), ("min_twig_size", "None"), ("to_ignore", "[]")] :=
  ⟨genRule_eq g cs, rfl, rfl, rfl, rfl, rfl⟩

/-- Forking roots are branch points (`> 1`), twigs are compared with `len(seg) < min_twig_size` on segments starting
(`seg[0]`) at an end node, the walk stops at roots and branch points, ignored twigs (`s[0] == tn`) take
`SI.get(this_seg[-1], 1)`, unreached nodes get 1, and the accelerator receives ids, parents and the three options. -/
theorem source_strahler_glue (c len k : Nat) :
    cmpInt Mmetrics.siRootForkCmp c Mmetrics.siRootForkK = some (decide (2 ≤ c)) ∧
    cmpInt Mmetrics.siTwigCmp len k = some (decide (len < k)) ∧ Mmetrics.siTwigLeft = "len(seg)" ∧ Mmetrics.siTwigLeafIndex = 0 ∧
    Mmetrics.siWalkWhile = ["parent_node >= 0", "parent_node not in branch_nodes"] ∧
    Mmetrics.siFixSegIndex = 0 ∧ Mmetrics.siFixSegCmp = "Eq" ∧ Mmetrics.siFixIndex = -1 ∧ Mmetrics.siFixDefault = 1 ∧
    Mmetrics.siUnreachedDefault = 1 ∧
    Mmetrics.siFastcoreArgs = ["nodes.node_id.values", "nodes.parent_id.values", "method=method", "min_twig_size=min_twig_size", "to_ignore=to_ignore"] :=
  ⟨gen_rootFork c, gen_twigCmp len k, rfl, rfl, rfl, rfl, rfl, rfl, rfl, rfl, rfl⟩

/-- **The flow formulas of the source are the model's**: `(total_post − distal_post)·distal_pre`,
`distal_post·(total_pre − distal_pre)`, their sum, and `(L − d)·d` for the leaf flow (totals per component). -/
theorem source_flow_formulas (t : Table) (hw : WF t) (pre post : List Int) (n : Int) :
    evalInt (flowEnv t pre post n) Mmetrics.sfcCentrifugalE = some ((sfcRaw t true .centrifugal pre post n : Nat) : Int) ∧
    evalInt (flowEnv t pre post n) Mmetrics.sfcCentripetalE = some ((sfcRaw t true .centripetal pre post n : Nat) : Int) ∧
    evalInt (flowEnv t pre post n) Mmetrics.sfcSumE = some ((sfcRaw t true .sum pre post n : Nat) : Int) ∧
    evalInt (flowEnv t [] [] n) Mmetrics.fcFormulaE = some ((leafFormula t true n : Nat) : Int) :=
  ⟨gen_centrifugal hw pre post n, gen_centripetal hw pre post n, gen_sum t pre post n, gen_leafFormula hw n⟩

/-- Each mode selects its own formula; the literals and the default are the documented ones; totals are per
connected component with default 0; the leaf-flow formula is evaluated at branch points, leafs and roots (the two
`fix:` commits for flow_centrality); distal counts come from the directed, unweighted geodesic matrix (`< inf`). -/
theorem source_flow_modes (m : Mode) :
    genSelect m = some (match m with | .centrifugal => "centrifugal" | .centripetal => "centripetal" | .sum => "sum") ∧
    Mmetrics.sfcModes = ["centrifugal", "centripetal", "sum"] ∧ Mmetrics.sfcDefaults = [("mode", "'sum'")] ∧
    Mmetrics.sfcComputedUnlessMode = [("centrifugal", "centripetal"), ("centripetal", "centrifugal")] ∧
    Mmetrics.sfcTotals = [("total_post", "post_per_comp", "comp[n]", 0), ("total_pre", "pre_per_comp", "comp[n]", 0)] ∧
    Mmetrics.sfcCalcMasks = ["is_bp", "is_cn", "is_root"] ∧
    Mmetrics.sfcGeodesic = ("True", "None", "Lt") ∧ Mmetrics.fcGeodesic = ("True", "None", "Lt") ∧
    Mmetrics.bendGeodesic = ("True", "None", "Lt") ∧ Mmetrics.arborGeodesic = ("True", "None", "Lt") ∧
    Mmetrics.sfcFormulaOver = "calc_node_ids" ∧ Mmetrics.fcFormulaOver = "calc_node_ids" ∧
    Mmetrics.fcLeafs = "x.leafs.node_id.values" ∧ Mmetrics.fcCalcTypes = ["branch", "end", "root"] ∧
    Mmetrics.fcEmptyValue = 0 ∧ Mmetrics.fcDistalSumAxis = "0" :=
  ⟨genSelect_eq m, rfl, rfl, rfl, rfl, rfl, rfl, rfl, rfl, rfl, rfl, rfl, rfl, rfl, rfl, rfl⟩

/-- **The fork rule is written back by id** in all three code paths (navis-fastcore and Python branch of
`synapse_flow_centrality`, `flow_centrality`): branch points are `type == "branch"`, their children are selected by
`parent_id`, grouped by `parent_id`, aggregated with `max`, and assigned through `.loc[bp]` with `bp` read off the
same mask — not positionally (seeded change C17_1). -/
theorem source_fork_rule :
    Mmetrics.sfcForkRules = [expectedFork "synapse_flow_centrality", expectedFork "synapse_flow_centrality"] ∧
    Mmetrics.fcForkRules = [expectedFork "flow_centrality"] :=
  ⟨rfl, rfl⟩

/-- Segment propagation (`flow[s[0]] = flow.get(s[0], 0)`, `flow[s[i]] = flow[s[i − 1]]` for `i ≥ 1`, only where
missing) in both flow functions; navis-fastcore receives per-node synapse counts built by id (`node_id.map(value_counts)`,
missing ↦ 0) — presynapses from the `pre` label, postsynapses from the `post` label. -/
theorem source_flow_glue :
    Mmetrics.sfcPropagation = expectedPropagation ∧ Mmetrics.fcPropagation = expectedPropagation ∧
    Mmetrics.sfcFastcorePre = ("pre", "value_counts", 0, true) ∧ Mmetrics.sfcFastcorePost = ("post", "value_counts", 0, true) ∧
    Mmetrics.sfcFastcoreMode = "mode" ∧ Mmetrics.sfcFastcoreIds = ["nodes.node_id.values", "nodes.parent_id.values"] ∧
    Mmetrics.sfcLabels = [("any", ["pre", "post"], ["pre", "post"]), ("any", ["0", "1"], ["0", "1"])] ∧
    Mmetrics.arborLabels = Mmetrics.sfcLabels ∧
    Mmetrics.sfcSetsCentralityMethod = 2 :=
  ⟨rfl, rfl, rfl, rfl, rfl, rfl, rfl, rfl, rfl⟩

/-- **`bending_flow`**: a root is a branch point when `degree(root) > 1` (seeded change C17_2), branch points are
`type == "branch"`, children are the sources of the in-edges, ordered pairs come from `permutations(…, r=2)`, the
product takes one factor per synapse kind, indexed by the two different branches (the sum over ordered pairs is
symmetric in both, so which is which is not a fact), segments drop a first node that already has a value and inherit
from their last node (default 0), missing values become 0. -/
theorem source_bending (d : Nat) :
    cmpInt Mmetrics.bendRootCmp d Mmetrics.bendRootK = some (decide (2 ≤ d)) ∧
    Mmetrics.bendBpCmp = "Eq" ∧ Mmetrics.bendBpVal = "branch" ∧ Mmetrics.bendChildsVia = "in_edges" ∧ Mmetrics.bendChildEnd = 0 ∧
    Mmetrics.bendPairs = ("permutations", 2) ∧ bendFactorsOK Mmetrics.bendFactors = true ∧ symLabelsOK Mmetrics.bendLabels = true ∧
    Mmetrics.bendPreserve = "'connectors'" ∧ Mmetrics.bendDropIfIndex = 0 ∧ Mmetrics.bendDropSlice = "s[1:]" ∧
    Mmetrics.bendInheritIndex = -1 ∧ Mmetrics.bendInheritDefault = 0 ∧ Mmetrics.bendFillna = 0 :=
  ⟨gen_bendRoot d, rfl, rfl, rfl, rfl, rfl, gen_bend_sym.1, gen_bend_sym.2, rfl, rfl, rfl, rfl, rfl, rfl⟩

/-- **The entropy expression of the source is the real binary entropy** used in `segregation_real_in_unit_interval`,
the guards are `0 < p < 1`, `p` is one kind's share of the total (the entropy is symmetric, either kind will do), `H = 1 − S / S_norm` with fall-backs 0, the mean is
`1/total · Σ e·total_syn`; `arbor_segregation_index` cuts into (distal, total − distal) and inherits from `s[-2]`. -/
theorem source_segregation (p post tot totalPost S Sn e : ℝ) :
    evalK Real.pi Real.log (fun _ => p) Mmetrics.segEntropyE = navisEntropy p ∧
    evalK Real.pi Real.log (fun _ => p) Mmetrics.segEntropyNormE = navisEntropy p ∧
    (Mmetrics.segPE = .div (.v "postsynapses") (.v "total_syn") ∨ Mmetrics.segPE = .div (.v "presynapses") (.v "total_syn")) ∧
    (Mmetrics.segPnormE = .div (.v "total_post") (.v "total_syn") ∨ Mmetrics.segPnormE = .div (.v "total_pre") (.v "total_syn")) ∧
    evalK Real.pi Real.log (segEnv post tot totalPost tot S Sn e) Mmetrics.segHE = 1 - S / Sn ∧
    evalK Real.pi Real.log (segEnv post tot totalPost tot S Sn e) Mmetrics.segMeanScaleE = 1 / tot ∧
    evalK Real.pi Real.log (segEnv post tot totalPost tot S Sn e) Mmetrics.segMeanTermE = e * tot ∧
    Mmetrics.segGuard = (0, "Lt", "Lt", 1) ∧ Mmetrics.segElseEntropy = 0 ∧ Mmetrics.segElseH = 0 ∧
    Mmetrics.segFragTotalE = .add (.v "postsynapses") (.v "presynapses") ∧
    Mmetrics.segTotalE = .add (.v "total_pre") (.v "total_post") ∧
    Mmetrics.segRecord = [("postsynapses", "n_postsynapses"), ("presynapses", "n_presynapses")] ∧
    Mmetrics.arborFrags = [[("postsynapses", .v "post"), ("presynapses", .v "pre")],
      [("postsynapses", .sub (.v "total_post") (.v "post")), ("presynapses", .sub (.v "total_pre") (.v "pre"))]] ∧
    Mmetrics.arborBpTypes = ["branch", "root"] ∧ Mmetrics.arborCalcMasks = ["is_bp", "is_bp_child", "is_cn"] ∧
    Mmetrics.arborInheritIndex = -2 ∧ Mmetrics.arborInheritTo = "s[:-2]" :=
  ⟨(gen_entropy_real p).1, (gen_entropy_real p).2, by decide, by decide, (gen_seg_formulas post tot totalPost S Sn e).2.2.1,
   (gen_seg_formulas post tot totalPost S Sn e).2.2.2.1, (gen_seg_formulas post tot totalPost S Sn e).2.2.2.2,
   rfl, rfl, rfl, rfl, rfl, rfl, rfl, rfl, rfl, rfl, rfl⟩

/-- **`tortuosity` / `segment_analysis`**: arc over chord between the two ends, mean over `x.small_segments`; the
Strahler column and the chord start read `s[0]`, chord end and `root_dist` read `s[-1]`, looked up by id; the volume
is `1/3·π·(r1² + r1·r2 + r2²)·h` (`= π/3 · frustum3`) summed with `nansum` over `s[:-1]`, `r2` from the parent with
`fillna(0)`, `h = parent_dist(root_dist=0)`; radius statistics use the NaN-aware aggregates over all of `s`; and the
function performs **no store through a `.values` array** (the pandas-3 defect fixed in 416ff90 stays fixed). -/
theorem source_geometry (piQ : Rat) (lg : Rat → Rat) (r1 r2 h : Int) :
    evalK piQ lg (volEnv r1 r2 h) Mmetrics.saVolE = 1 / 3 * piQ * (((r1 * r1 + r1 * r2 + r2 * r2) * h : Int) : Rat) ∧
    Mmetrics.tortE = .div (.v "L") (.v "R") ∧ Mmetrics.saTortE = .div (.v "seg_lengths") (.v "L") ∧
    Mmetrics.tortChordEnds = [-1, 0] ∧ Mmetrics.tortArc = ["diff", "norm", "sum"] ∧ Mmetrics.tortAggregate = "mean" ∧
    Mmetrics.tortOver = "x.small_segments" ∧ Mmetrics.tortDispatch = ["_tortuosity_simple", "_tortuosity_segmented"] ∧
    Mmetrics.saSegs = "_break_segments" ∧ Mmetrics.saSiIndex = 0 ∧ Mmetrics.saStartIndex = 0 ∧ Mmetrics.saEndIndex = -1 ∧
    Mmetrics.saRootDistIndex = -1 ∧ Mmetrics.saSiColumn = "strahler_index" ∧ Mmetrics.saSiById = true ∧
    Mmetrics.saLengthFn = "segment_length" ∧ Mmetrics.saRootDistWeight = "'weight'" ∧
    Mmetrics.saR1From = "index" ∧ Mmetrics.saR2From = "parent_id" ∧ Mmetrics.saR2Fill = 0 ∧ Mmetrics.saHRootDist = 0 ∧
    Mmetrics.saVolAgg = "nansum" ∧ Mmetrics.saVolOver = "s[:-1]" ∧ Mmetrics.saVolDefault = 0 ∧
    Mmetrics.saRadStats = [("radius_max", "nanmax"), ("radius_mean", "nanmean"), ("radius_min", "nanmin")] ∧
    Mmetrics.saRadOver = "s" ∧ Mmetrics.saStoresThroughValues = 0 ∧
    Mmetrics.saColumns = ["length", "tortuosity", "root_dist", "strahler_index", "radius_mean", "radius_min", "radius_max", "volume"] :=
  ⟨gen_volume piQ lg r1 r2 h, rfl, rfl, rfl, rfl, rfl, rfl, rfl, rfl, rfl, rfl, rfl, rfl, rfl, rfl, rfl, rfl, rfl, rfl, rfl, rfl,
   rfl, rfl, rfl, rfl, rfl, rfl, rfl⟩

/-- **Which entry points are mapped over NeuronLists / accept MeshNeurons** (decorator names and the semantic
keyword arguments; free-text `desc=` is ignored): all node-property functions write `node_props=[<their column>]`,
Strahler and `segment_analysis` re-root MeshNeuron skeletons to the soma, the three flows heal and carry connectors. -/
theorem source_decorators :
    Mmetrics.siDecorators = [("map_neuronlist", ["allow_parallel=True"]),
      ("meshneuron_skeleton", ["method='node_properties'", "node_props=['strahler_index']", "reroot_soma=True"])] ∧
    Mmetrics.sfcDecorators = [("map_neuronlist", ["allow_parallel=True"]),
      ("meshneuron_skeleton", ["heal=True", "include_connectors=True", "method='node_properties'", "node_props=['synapse_flow_centrality']"])] ∧
    Mmetrics.fcDecorators = [("map_neuronlist", ["allow_parallel=True"]),
      ("meshneuron_skeleton", ["heal=True", "include_connectors=True", "method='node_properties'", "node_props=['flow_centrality']"])] ∧
    Mmetrics.bendDecorators = [("map_neuronlist", ["allow_parallel=True"]),
      ("meshneuron_skeleton", ["heal=True", "include_connectors=True", "method='node_properties'", "node_props=['bending_flow']"])] ∧
    Mmetrics.arborDecorators = [("map_neuronlist", ["allow_parallel=True"]),
      ("meshneuron_skeleton", ["method='node_properties'", "node_props=['segregation_index']"])] ∧
    Mmetrics.saDecorators = [("map_neuronlist_df", ["allow_parallel=True", "reset_index=True"]),
      ("meshneuron_skeleton", ["method='pass_through'", "reroot_soma=True"])] ∧
    Mmetrics.segDecorators = [] :=
  ⟨rfl, rfl, rfl, rfl, rfl, rfl, rfl⟩

end Source

/-! ### Non-vacuity: concrete inputs meet the hypotheses -/

/-- forking root 1 (children 2, 6), fork 2 (children 3, 4), chain 3–5; straight integer edges. -/
def ex : Table := [⟨1, -1, 0, 0, 0, .root⟩, ⟨2, 1, 3, 0, 0, .branch⟩, ⟨3, 2, 6, 0, 0, .slab⟩, ⟨4, 2, 3, 4, 0, .end_⟩,
  ⟨5, 3, 8, 0, 0, .end_⟩, ⟨6, 1, 0, 0, 2, .end_⟩]
def exPre : List Int := [5, 5, 3, 1]
def exPost : List Int := [4, 6, 2]
/-- two trees -/
def exF : Table := [⟨1, -1, 0, 0, 0, .root⟩, ⟨2, 1, 1, 0, 0, .end_⟩, ⟨0, -1, 5, 0, 0, .root⟩, ⟨7, 0, 5, 1, 0, .end_⟩]

example : wfB ex = true ∧ wfB exF = true := by decide
example : WF ex := wfB_sound (by decide)
example : (ids ex).map (strahler ex false []) = [2, 2, 1, 1, 1, 1] := by decide
example : (ids ex).map (strahler ex true []) = [3, 2, 1, 1, 1, 1] := by decide
example : strahlerOKB ex false (strahler ex false []) = true := by decide
example : strahlerOKB ex false (fun i => if i = 1 then 1 else strahler ex false [] i) = false := by decide
-- ignored twig 4 takes the index of fork 2; the fork no longer sees it
example : chainLeaf ex (ex.length + 1) 4 = some 4 ∧ stopAbove ex 4 = some 2 ∧
    (ids ex).map (strahler ex false [4]) = [2, 1, 1, 1, 1, 1] := by decide
example : (ids ex).map (sfc ex true .centrifugal exPre exPost) = [0, 9, 9, 0, 6, 0] := by decide
example : (ids ex).map (sfc ex true .centripetal exPre exPost) = [0, 4, 0, 4, 0, 4] := by decide
example : (ids ex).map (pathCount ex .sum exPre exPost) = [0, 5, 9, 4, 6, 4] := by decide
example : isFork ex 2 = true ∧ isFork ex 1 = false ∧ sfcOKB ex .sum exPre exPost (sfc ex true .sum exPre exPost) = true := by decide
example : treePath ex 4 5 = some [4, 2, 3, 5] ∧ legUp ex 5 4 = [5, 3] := by decide
-- pairs in different trees are not counted (`true`); the second value is historical: what the pure-Python
-- path returned before it was repaired to count per tree (whole-table totals, `perTree = false`)
example : (ids exF).map (sfc exF true .centrifugal [2] [1, 0]) = [0, 1, 0, 0] ∧
    (ids exF).map (sfc exF false .centrifugal [2] [1, 0]) = [1, 2, 0, 0] := by decide
example : (ids ex).map (bendingFlow ex exPre exPost) = [3, 3, 3, 3, 3, 3] ∧ bendPairs ex exPre exPost 2 = 3 := by decide
example : exactEdgesB ex = true ∧ tortParts ex = [(2, 1, 3, 9), (4, 2, 4, 16), (5, 2, 5, 25), (6, 1, 2, 4)] := by decide
example : segExact [⟨3, 6⟩, ⟨1, 2⟩] = some 0 ∧ segExact [⟨3, 0⟩, ⟨0, 2⟩] = some 1 ∧ segExact [⟨3, 1⟩, ⟨1, 2⟩] = none := by decide
-- second pass: bending paths, leaf-flow specification, the deviation on terminal twigs, segment analysis, fastcore model
example : (ids ex).map (bendSpec ex exPre exPost) = [3, 3, 0, 0, 0, 0] ∧ bendsAt ex 2 4 5 = true ∧ bendsAt ex 2 2 5 = false := by decide
example : (ids ex).map (fcSpec ex) = [0, 2, 2, 2, 2, 2] ∧ (ids ex).map (flowCentrality ex true) = [0, 2, 2, 2, 2, 2] ∧
    (ids ex).map (flowCentralityHist ex true) = [0, 0, 0, 0, 0, 0] ∧
    (ids ex).map (seedIsFork ex) = [false, true, false, false, false, false] := by decide
/-- chain 1←2←3 with fork 3 (leafs 4, 5) and a second leaf 6 on the root: historically only node 2 (off the terminal twigs) got the path count -/
def exT : Table := [⟨1, -1, 0, 0, 0, .root⟩, ⟨2, 1, 1, 0, 0, .slab⟩, ⟨3, 2, 2, 0, 0, .branch⟩, ⟨4, 3, 3, 0, 0, .end_⟩,
  ⟨5, 3, 2, 1, 0, .end_⟩, ⟨6, 1, 0, 1, 0, .end_⟩]
example : wfB exT = true ∧ seedIsFork exT 2 = true ∧ flowCentralityHist exT true 2 = 2 ∧ fcSpec exT 2 = 2 ∧
    flowCentralityHist exT true 4 = 0 ∧ flowCentrality exT true 4 = 2 ∧ fcSpec exT 4 = 2 := by decide
example : (segAnalysis ex fun i => if i = 4 then none else some (i + 1)).map (fun r => (r.first, r.last, r.length, r.si, r.radCount, r.volume3)) =
    [(2, 1, 3, 2, 2, 57), (4, 2, 4, 1, 1, 0), (5, 2, 5, 1, 3, 263), (6, 1, 2, 1, 2, 134)] := by decide
example : (ids ex).map (strahlerFc ex false [6] 0) = [2, 2, 1, 1, 1, 0] ∧ (ids ex).map (strahler ex false [6]) = [2, 2, 1, 1, 1, 2] := by decide
example : ignoredTwigsOKB ex [4] (strahler ex false [4]) = true ∧ ignoredTwigsOKB ex [4] (strahler ex false []) = false := by decide
/-- a concave, non-negative entropy-like function exists (`p(1−p)`), so the bound is not vacuous -/
example : ConcaveNonneg (guardH fun p => p * (1 - p)) := concave_example
example : straight (posOf ex) (coordLen ex) (-1, 0, 0) 1 [5, 3, 2] :=
  ⟨⟨2, by decide, by decide, by decide, by decide⟩, ⟨3, by decide, by decide, by decide, by decide⟩, trivial⟩

end Navis.Props.C17
