import NavisModel.Proofs.FlowLemmas
/-!
# C17 — morphometrics obey their defining recurrences and path counts

Models: `Model/Prune.lean` (Strahler: `strahlerRule`, `strahlerRaw`, `strahler`) and `Model/Flow.lean`
(distal counts, flow centralities, segregation index, tortuosity).  `WF t` is the rank form of
well-formedness (DESIGN §2.4).  Synapses are lists of node ids, one entry per synapse.

What is *not* proved here (kept visible):
* `segment_lengths_sum_to_cable` is C05's `small_segments_lengths_sum_to_cable`.
* The segregation index is real valued (logarithms).  The cases in which its value is forced (0 and 1)
  are theorems for every entropy function `H` that is non-zero on (0,1) (`segregation_bounds_partial`);
  the bound `0 ≤ index ≤ 1` is a theorem for every `H` whose guarded form is non-negative and concave on
  [0,1] (`segregation_in_unit_interval_of_concave`, Jensen).  That the *logarithmic* binary entropy is
  such a function is not formalised (no real logarithm in the model); on the real code it is tested.
* `bending_counts_pairs_partial` counts (child pair, synapse pair) incidences; that every synapse pair
  is incident to at most one child pair of a fork (children's subtrees are disjoint) is not proved.
-/
namespace Navis.Props.C17
open Navis.Forest Navis.Flow

/-! ### Strahler index -/

/-- **Fuel independence**: the height of a well-formed forest is at most `|t|`, so the structural
recurrence evaluated with any fuel `≥ |t|` is the same function. -/
theorem strahler_fuel_independent (t : Table) (hw : WF t) (g : Bool) (ign : List Int) (i : Int) (hi : i ∈ ids t)
    (f : Nat) (hf : t.length ≤ f) :
    strahlerRaw t g ign f i = strahlerRaw t g ign (t.length + 1) i :=
  strahlerRaw_fuel hw g ign hi f hf

/-- **The Strahler recurrence holds at every node, roots included**: the index of a node is the rule
applied to its children's indices (no children ↦ 1; one child ↦ that child's index; a fork ↦ the
maximum, plus one when it occurs at least twice; `greedy` ↦ the sum). -/
theorem strahler_recurrence (t : Table) (hw : WF t) (g : Bool) (i : Int) (hi : i ∈ ids t) :
    strahler t g [] i = strahlerRule g ((children t i).map (strahler t g [])) := by
  have e : strahler t g [] = strahlerRaw t g [] (t.length + 1) := funext (strahler_nil t g)
  rw [e]
  exact strahlerRaw_rec_nil hw g hi

/-- The three cases of the rule, spelled out. -/
theorem strahler_rule_cases (g : Bool) :
    strahlerRule g [] = 1 ∧ (∀ c, strahlerRule g [c] = c) ∧
    (∀ c1 c2 cs, strahlerRule true (c1 :: c2 :: cs) = (c1 :: c2 :: cs).sum) ∧
    (∀ c1 c2 cs, strahlerRule false (c1 :: c2 :: cs) =
      (if (c1 :: c2 :: cs).count (maxList (c1 :: c2 :: cs)) ≥ 2 then maxList (c1 :: c2 :: cs) + 1
       else maxList (c1 :: c2 :: cs))) :=
  ⟨rfl, fun _ => rfl, strahlerRule_greedy, strahlerRule_standard⟩

theorem strahler_ge_one (t : Table) (hw : WF t) (g : Bool) (i : Int) (hi : i ∈ ids t) : 1 ≤ strahler t g [] i := by
  rw [strahler_nil]; exact strahlerRaw_ge_one hw g i hi

/-- A parent's index is at least each child's (both methods). -/
theorem strahler_monotone (t : Table) (hw : WF t) (g : Bool) (i c : Int) (hi : i ∈ ids t) (hc : c ∈ children t i) :
    strahler t g [] c ≤ strahler t g [] i := by
  rw [strahler_nil, strahler_nil]; exact strahlerRaw_child_le hw g hi hc

/-- **Meaning of the checker run on navis' column**: a column satisfies the recurrence at every row
iff it is the model's Strahler index (the recurrence has exactly one solution). -/
theorem strahler_checker_sound (t : Table) (hw : WF t) (g : Bool) (v : Int → Nat) :
    strahlerOKB t g v = true ↔ ∀ i ∈ ids t, v i = strahler t g [] i := by
  constructor
  · intro h i hi
    rw [strahler_nil]; exact strahlerOKB_unique hw g v h i hi
  · intro h
    have hc := strahlerOKB_complete hw g
    unfold strahlerOKB at hc ⊢
    rw [List.all_eq_true] at hc ⊢
    intro r hr
    have := hc r hr
    simp only [beq_iff_eq] at this ⊢
    rw [h r.id (mem_ids_of_mem hr), strahler_nil, this]
    congr 1
    apply List.map_congr_left
    intro c hcm
    rw [h c (child_facts hw (mem_ids_of_mem hr) hcm).1, strahler_nil]

/-- **Ignored twigs take their parent branch's index**: every node `i` of the unbranched chain that
ends in an ignored leaf `l` gets the (raw) index of the first branch point or root `s` above `l`; an
ignored leaf contributes 0 to that branch; nodes not on an ignored twig keep the raw index. -/
theorem strahler_ignored_takes_parent (t : Table) (g : Bool) (ign : List Int) (i l s : Int)
    (h1 : chainLeaf t (t.length + 1) i = some l) (h2 : ign.contains l = true) (h3 : stopAbove t l = some s) :
    strahler t g ign i = strahlerRaw t g ign (t.length + 1) s :=
  strahler_of_ignored t g ign h1 h2 h3

theorem strahler_ignored_contributes_zero (t : Table) (g : Bool) (ign : List Int) (l : Int) (f : Nat)
    (hl : children t l = []) (h : ign.contains l = true) : strahlerRaw t g ign (f + 1) l = 0 := by
  have h' : l ∈ ign := by simpa using h
  rw [strahlerRaw_succ]; simp [hl, h']

theorem strahler_not_ignored_keeps_raw (t : Table) (g : Bool) (ign : List Int) (i : Int)
    (h : ∀ l, chainLeaf t (t.length + 1) i = some l → ign.contains l = false) :
    strahler t g ign i = strahlerRaw t g ign (t.length + 1) i :=
  strahler_of_not_ignored t g ign h

/-- In a well-formed forest the "parent branch" of a non-root node exists: a branch point or root among
its proper ancestors, reached through unbranched non-root nodes only. -/
theorem parent_branch_exists (t : Table) (hw : WF t) (n : Node) (hn : n ∈ t) (hp : ¬ n.parent < 0) :
    ∃ mid s, stopAbove t n.id = some s ∧ isBranchOrRoot t s = true ∧
      rootPath t n.id = (n.id :: mid) ++ rootPath t s ∧ ∀ x ∈ mid, isBranchOrRoot t x = false :=
  stopAbove_spec hw hn hp

/-! ### flow centralities -/

/-- **Synapse flow centrality counts paths.**  For every node `n` of a well-formed forest the formula
`(total_post − distal_post)·distal_pre` (totals per tree) equals the number of (postsynapse,
presynapse) pairs whose tree path runs through `n` on its *descending* leg (centrifugal: enters `n`
from its parent); `distal_post·(total_pre − distal_pre)` the number of pairs whose path runs through
`n` on its *ascending* leg (centripetal: leaves `n` towards its parent); `sum` adds both.  Pairs in
different trees have no path and are not counted. -/
theorem flow_counts_paths (t : Table) (hw : WF t) (m : Mode) (pre post : List Int) (n : Int) :
    sfcRaw t true m pre post n = pathCount t m pre post n :=
  (pathCount_eq hw m pre post n).symm

/-- The count formulas themselves, as numbers of pairs (`a` post, `b` pre). -/
theorem flow_count_formula (t : Table) (hw : WF t) (pre post : List Int) (n : Int) :
    centrifugal t true pre post n =
      ((product post pre).filter fun p => (sameTree t p.1 n && !isDistal t n p.1) && isDistal t n p.2).length ∧
    centripetal t true pre post n =
      ((product post pre).filter fun p => isDistal t n p.1 && (sameTree t p.2 n && !isDistal t n p.2)).length := by
  constructor
  · rw [count_product (fun a => sameTree t a n && !isDistal t n a) (fun b => isDistal t n b),
      length_filter_diff (fun a => sameTree t a n) (fun a => isDistal t n a) post
        (fun a _ ha => sameTree_of_distal hw (isDistal_iff.mp ha))]
    simp [centrifugal, total, treeCount, distalCount]
  · rw [count_product (fun a => isDistal t n a) (fun b => sameTree t b n && !isDistal t n b),
      length_filter_diff (fun a => sameTree t a n) (fun a => isDistal t n a) pre
        (fun a _ ha => sameTree_of_distal hw (isDistal_iff.mp ha))]
    simp [centripetal, total, treeCount, distalCount]

/-- Which nodes a path runs through on its way up: exactly the ancestors-or-self of the start that are
not ancestors-or-self of the end (same tree) — and they do lie on the explicit tree path. -/
theorem path_leg_characterisation (t : Table) (hw : WF t) (a b n : Int) :
    (n ∈ legUp t a b ↔ n ∈ rootPath t a ∧ n ∉ rootPath t b ∧ sameTree t b n = true) ∧
    (∀ p, treePath t a b = some p → (n ∈ legUp t a b ∨ n ∈ legUp t b a) → n ∈ p) :=
  ⟨mem_legUp_iff hw a b n, fun _ h hn => legUp_sub_treePath h hn⟩

/-- **Forks take their largest child's value** (the value replaces the fork's own formula value). -/
theorem fork_takes_max_child (t : Table) (pt : Bool) (m : Mode) (pre post : List Int) (n : Int) (h : isFork t n = true) :
    sfc t pt m pre post n = maxList ((children t n).map (sfcRaw t pt m pre post)) ∧
    (∀ c ∈ children t n, sfcRaw t pt m pre post c ≤ sfc t pt m pre post n) ∧
    (∃ c ∈ children t n, sfc t pt m pre post n = sfcRaw t pt m pre post c) := by
  have e : sfc t pt m pre post n = maxList ((children t n).map (sfcRaw t pt m pre post)) := by
    unfold sfc; rw [if_pos h]
  refine ⟨e, ?_, ?_⟩
  · intro c hc
    rw [e]; exact le_maxList (List.mem_map.mpr ⟨c, hc, rfl⟩)
  · have hne : (children t n).map (sfcRaw t pt m pre post) ≠ [] := by
      simpa using children_ne_nil_of_isFork h
    obtain ⟨c, hc, hv⟩ := List.mem_map.mp (maxList_mem hne)
    exact ⟨c, hc, by rw [e, hv]⟩

theorem nonfork_keeps_formula (t : Table) (pt : Bool) (m : Mode) (pre post : List Int) (n : Int) (h : isFork t n = false) :
    sfc t pt m pre post n = sfcRaw t pt m pre post n := by
  unfold sfc; simp [h]

/-- **Meaning of the checker run on navis' column**: accepted iff every row carries the path count
(forks: the largest child's path count), i.e. the model value with per-tree totals. -/
theorem flow_checker_sound (t : Table) (hw : WF t) (m : Mode) (pre post : List Int) (v : Int → Nat) :
    sfcOKB t m pre post v = true ↔ ∀ r ∈ t, v r.id = sfc t true m pre post r.id := by
  unfold sfcOKB
  rw [List.all_eq_true]
  constructor
  · intro h r hr
    have := h r hr
    simp only [beq_iff_eq] at this
    rw [this, sfcSpec_eq hw]
  · intro h r hr
    simp only [beq_iff_eq]
    rw [h r hr, sfcSpec_eq hw]

/-- Leaf ("tip-to-tip") flow: the formula `(total_leafs − distal)·distal` of `flow_centrality` is the
number of ordered leaf pairs whose path leaves `n` towards its parent (totals per tree).
`_partial`: navis evaluates it at branch points only and lets terminal twigs carry 0, see
`known_findings/C17.json`; the theorem is about the formula. -/
theorem flow_centrality_counts_tip_pairs_partial (t : Table) (hw : WF t) (n : Int) :
    leafFormula t true n = pathsUp t (Flow.leafIds t) (Flow.leafIds t) n := by
  rw [pathsUp_eq hw]
  unfold leafFormula centripetal
  exact Nat.mul_comm _ _

/-- Bending flow at a fork is the number of (child pair, synapse pair) incidences: a postsynapse below
one child and a presynapse below another. -/
theorem bending_counts_pairs_partial (t : Table) (pre post : List Int) (b : Int) :
    bendAt t pre post b = bendPairs t pre post b := bendAt_eq_bendPairs t pre post b

/-! ### tortuosity -/

/-- **Tortuosity is never below 1** (squared form: chord² ≤ arc²) for every small segment of a
well-formed skeleton with exact integer edge lengths — the triangle inequality. -/
theorem tortuosity_ge_one (t : Table) (hw : WF t) (hex : exactEdgesB t = true) (s : List Int) (hs : s ∈ smallSegments t) :
    chordSq t s ≤ ((arcLen t s : Nat) : Int) * (arcLen t s : Nat) :=
  chordSq_le_arcSq hex s (smallSegments_linked hw s hs)

/-- The same for any chain of points whose consecutive distances are *at most* the given lengths. -/
theorem arc_ge_chord (pos : Int → P3) (len : Int → Int → Nat) (a z : Int) (rest : List Int)
    (h : edgesWithin pos len (a :: rest)) (hz : (a :: rest).getLast? = some z) :
    sqd (pos a) (pos z) ≤ ((pathLen len (a :: rest) : Nat) : Int) * (pathLen len (a :: rest) : Nat) :=
  chord_le_arc pos len rest a z h hz

/-- **Straight segments have tortuosity exactly 1**: consecutive points advance by natural multiples of
one direction of integer length. -/
theorem tortuosity_straight_eq_one (pos : Int → P3) (len : Int → Int → Nat) (d : P3) (m : Nat)
    (hd : d.1 * d.1 + d.2.1 * d.2.1 + d.2.2 * d.2.2 = (m : Int) * m) (a z : Int) (rest : List Int)
    (hs : straight pos len d m (a :: rest)) (hz : (a :: rest).getLast? = some z) :
    sqd (pos a) (pos z) = ((pathLen len (a :: rest) : Nat) : Int) * (pathLen len (a :: rest) : Nat) :=
  chord_eq_arc_of_straight pos len d m hd rest a z hs hz

/-! ### segregation index -/

/-- **Exact cases** of the segregation index, for every entropy function `H` that does not vanish on
(0,1): 0 when only one kind of synapse exists; exactly 1 when no fragment mixes the two kinds; exactly
0 when every non-empty fragment has the neuron's overall mixture. -/
theorem segregation_bounds_partial (H : Rat → Rat) (fs : List Frag) (hp : totPre fs ≠ 0) (hq : totPost fs ≠ 0) :
    ((∀ f ∈ fs, f.pre = 0 ∨ f.post = 0) → segIdx H fs = some 1) ∧
    (H ((totPost fs : Rat) / ((totPre fs + totPost fs : Nat) : Rat)) ≠ 0 →
      (∀ f ∈ fs, f.tot ≠ 0 → (f.post : Rat) / (f.tot : Rat) = (totPost fs : Rat) / ((totPre fs + totPost fs : Nat) : Rat)) →
      segIdx H fs = some 0) :=
  ⟨segIdx_separated H fs hp hq, segIdx_identical H fs hp hq⟩

theorem segregation_one_kind_zero (H : Rat → Rat) (fs : List Frag) (htot : totPre fs + totPost fs ≠ 0)
    (h : totPre fs = 0 ∨ totPost fs = 0) : segIdx H fs = some 0 := segIdx_one_kind H fs htot h

/-- **The index lies in [0, 1]** for every entropy function whose guarded form (`H` on (0,1), 0
elsewhere — what the code evaluates) is non-negative and concave on [0,1]: the synapse-weighted mean of
the fragment entropies is at most the entropy of the pooled mixture (Jensen). -/
theorem segregation_in_unit_interval_of_concave (H : Rat → Rat) (hG : ConcaveNonneg (guardH H)) (fs : List Frag)
    (v : Rat) (h : segIdx H fs = some v) : 0 ≤ v ∧ v ≤ 1 := segIdx_bounds H hG fs v h

/-- The driver's exact classification is sound. -/
theorem segregation_exact_sound (H : Rat → Rat) (hH : ∀ p : Rat, 0 < p → p < 1 → H p ≠ 0) (fs : List Frag) (k : Nat)
    (h : segExact fs = some k) : segIdx H fs = some (k : Rat) := segExact_sound H hH fs k h

/-! ### Non-vacuity: concrete inputs meet the hypotheses -/

/-- forking root 1 (children 2, 6), fork 2 (children 3, 4), chain 3–5; straight integer edges. -/
def ex : Table := [⟨1, -1, 0, 0, 0, .root⟩, ⟨2, 1, 3, 0, 0, .branch⟩, ⟨3, 2, 6, 0, 0, .slab⟩, ⟨4, 2, 3, 4, 0, .end_⟩,
  ⟨5, 3, 8, 0, 0, .end_⟩, ⟨6, 1, 0, 0, 2, .end_⟩]
def exPre : List Int := [5, 5, 3, 1]
def exPost : List Int := [4, 6, 2]
/-- two trees -/
def exF : Table := [⟨1, -1, 0, 0, 0, .root⟩, ⟨2, 1, 1, 0, 0, .end_⟩, ⟨0, -1, 5, 0, 0, .root⟩, ⟨7, 0, 5, 1, 0, .end_⟩]

example : wfB ex = true ∧ wfB exF = true := by decide
example : WF ex := wfB_sound (by decide)
example : (ids ex).map (strahler ex false []) = [2, 2, 1, 1, 1, 1] := by decide
example : (ids ex).map (strahler ex true []) = [3, 2, 1, 1, 1, 1] := by decide
example : strahlerOKB ex false (strahler ex false []) = true := by decide
example : strahlerOKB ex false (fun i => if i = 1 then 1 else strahler ex false [] i) = false := by decide
-- ignored twig 4 takes the index of fork 2; the fork no longer sees it
example : chainLeaf ex (ex.length + 1) 4 = some 4 ∧ stopAbove ex 4 = some 2 ∧
    (ids ex).map (strahler ex false [4]) = [2, 1, 1, 1, 1, 1] := by decide
example : (ids ex).map (sfc ex true .centrifugal exPre exPost) = [0, 9, 9, 0, 6, 0] := by decide
example : (ids ex).map (sfc ex true .centripetal exPre exPost) = [0, 4, 0, 4, 0, 4] := by decide
example : (ids ex).map (pathCount ex .sum exPre exPost) = [0, 5, 9, 4, 6, 4] := by decide
example : isFork ex 2 = true ∧ isFork ex 1 = false ∧ sfcOKB ex .sum exPre exPost (sfc ex true .sum exPre exPost) = true := by decide
example : treePath ex 4 5 = some [4, 2, 3, 5] ∧ legUp ex 5 4 = [5, 3] := by decide
-- pairs in different trees are not counted (`true`); the second value is historical: what the pure-Python
-- path returned before it was repaired to count per tree (whole-table totals, `perTree = false`)
example : (ids exF).map (sfc exF true .centrifugal [2] [1, 0]) = [0, 1, 0, 0] ∧
    (ids exF).map (sfc exF false .centrifugal [2] [1, 0]) = [1, 2, 0, 0] := by decide
example : (ids ex).map (bendingFlow ex exPre exPost) = [3, 3, 3, 3, 3, 3] ∧ bendPairs ex exPre exPost 2 = 3 := by decide
example : exactEdgesB ex = true ∧ tortParts ex = [(2, 1, 3, 9), (4, 2, 4, 16), (5, 2, 5, 25), (6, 1, 2, 4)] := by decide
example : segExact [⟨3, 6⟩, ⟨1, 2⟩] = some 0 ∧ segExact [⟨3, 0⟩, ⟨0, 2⟩] = some 1 ∧ segExact [⟨3, 1⟩, ⟨1, 2⟩] = none := by decide
/-- a concave, non-negative entropy-like function exists (`p(1−p)`), so the bound is not vacuous -/
example : ConcaveNonneg (guardH fun p => p * (1 - p)) := concave_example
example : straight (posOf ex) (coordLen ex) (-1, 0, 0) 1 [5, 3, 2] :=
  ⟨⟨2, by decide, by decide, by decide, by decide⟩, ⟨3, by decide, by decide, by decide, by decide⟩, trivial⟩

end Navis.Props.C17
