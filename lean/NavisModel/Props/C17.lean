import NavisModel.Model.Flow
namespace Navis.Props.C17
open Navis.Forest Navis.Flow
theorem placeholder : (1 : Nat) = 1 := rfl
end Navis.Props.C17
