import NavisModel.Model.Prune
import NavisModel.Proofs.RerootLemmas
import NavisModel.Proofs.PruneLemmas
import NavisModel.Proofs.ExactPruneLemmas
/-!
# C12 — pruning keeps exactly the nodes its criterion defines

Every pruning function of the model is `subset t keep` for an explicit keep-predicate, so "kept
nodes' ids, coordinates and mutual parent links are untouched" is C10's `subset` theorem; the
theorems here pin down the keep-sets.
-/
namespace Navis.Props.C12
open Navis.Forest

/-- Kept nodes are untouched: a node of `subset t keep` is a node of `t` with the same id and
coordinates, whose parent link is the original one when the parent is kept and a new root otherwise.
(All pruning functions below are instances.) -/
theorem kept_untouched (t : Table) (hw : WF t) (keep : Int → Bool) (m : Node) (hm : m ∈ subset t keep) :
    ∃ n ∈ t, n.id = m.id ∧ keep n.id = true ∧ m.x = n.x ∧ m.y = n.y ∧ m.z = n.z ∧
      m.parent = (if n.parent ∈ (ids t).filter keep then n.parent else -1) :=
  subset_parent hw.1 keep hm

/-- `prune_twigs`, one round: exactly the nodes of `twigDelete` are removed. -/
theorem prune_twigs_exact_set (t : Table) (len : Int → Int → Nat) (size : Nat) (mask : Option (List Int)) :
    ids (pruneTwigsOnce t len size mask) = (ids t).filter fun i => !(twigDelete t len size mask).contains i := by
  show ids (if (twigDelete t len size mask).isEmpty = true then t
      else subset t fun i => !(twigDelete t len size mask).contains i) = _
  split
  · rename_i h
    have : twigDelete t len size mask = [] := by simpa using h
    simp only [this, List.contains_nil, Bool.not_false]
    exact (List.filter_eq_self.mpr (fun _ _ => rfl)).symm
  · exact ids_subset t _

/-- … and `twigDelete` is: all nodes but the last (the branch point) of every terminal branch whose
length is at most `size` (note `≤`) and whose leaf is in the mask. -/
theorem twigDelete_spec (t : Table) (len : Int → Int → Nat) (size : Nat) (mask : Option (List Int)) (i : Int) :
    i ∈ twigDelete t len size mask ↔
      ∃ s ∈ terminalSegs t, pathLen len s ≤ size ∧
        (match mask, s.head? with
         | some m, some h => m.contains h = true
         | some _, none => False
         | none, _ => True) ∧ i ∈ s.dropLast := by
  unfold twigDelete
  simp only [List.mem_flatMap, List.mem_filter, Bool.and_eq_true, decide_eq_true_eq]
  constructor
  · rintro ⟨s, ⟨hs, hl, hm⟩, hi⟩
    refine ⟨s, hs, hl, ?_, hi⟩
    cases mask with
    | none => simp
    | some m => cases hh : s.head? with
      | none => rw [hh] at hm; simp at hm
      | some h => rw [hh] at hm; simpa using hm
  · rintro ⟨s, hs, hl, hm, hi⟩
    refine ⟨s, ⟨hs, hl, ?_⟩, hi⟩
    cases mask with
    | none => simp
    | some m => cases hh : s.head? with
      | none => rw [hh] at hm; simp at hm
      | some h => rw [hh] at hm; simpa using hm

/-- A terminal branch starts at a leaf and ends at a fork. -/
theorem terminalSegs_spec (t : Table) (s : List Int) (hs : s ∈ terminalSegs t) :
    s ∈ smallSegments t ∧ ∃ h l, s.head? = some h ∧ s.getLast? = some l ∧ childCount t h = 0 ∧ childCount t l ≥ 2 := by
  unfold terminalSegs at hs
  rw [List.mem_filter] at hs
  refine ⟨hs.1, ?_⟩
  cases hh : s.head? with
  | none => rw [hh] at hs; simp at hs
  | some h => cases hl : s.getLast? with
    | none => rw [hh, hl] at hs; simp at hs
    | some l =>
      rw [hh, hl] at hs
      simp only [Bool.and_eq_true, beq_iff_eq, decide_eq_true_eq] at hs
      exact ⟨h, l, rfl, rfl, hs.2.1, hs.2.2⟩

/-- `prune_at_depth` keeps precisely the nodes within geodesic distance `depth` of the source
(`≤`: a node exactly at `depth` is kept). -/
theorem depth_keep_spec (t : Table) (len : Int → Int → Nat) (src : Int) (depth : Nat) :
    ids (pruneAtDepth t len src depth) = (ids t).filter fun i =>
      match geo t len false src i with
      | some d => decide (d ≤ depth)
      | none => false :=
  ids_subset t _

/-- `longest_neurite` keeps precisely the nodes of the selected greedy segments, or their complement. -/
theorem longest_keep_spec (t : Table) (len : Int → Int → Nat) (lo hi : Nat) (inv : Bool) :
    ids (longestNeurite t len lo hi inv) = (ids t).filter fun i =>
      (if inv then !(((segments t len).take hi).drop lo).flatten.contains i
       else (((segments t len).take hi).drop lo).flatten.contains i) := by
  unfold longestNeurite
  cases inv <;> simp [ids_subset]

/-- Index sets of `prune_by_strahler`: a positive int selects that index; a negative int `-k` selects
`1 … max - k + 1 - 1` (i.e. everything but the `k - 1` highest … as `range(1, max + (to_prune + 1))`). -/
theorem siSet_int_pos (mx : Nat) (k : Int) (hk : 1 ≤ k) : siSet mx (.int k) = some [k.toNat] := by
  unfold siSet
  have h1 : ¬ k < 0 := by omega
  have h2 : ¬ k < 1 := by omega
  simp [h1, h2]

theorem siSet_int_neg (mx : Nat) (k : Int) (hk : k < 0) (i : Nat) :
    (∃ s, siSet mx (.int k) = some s ∧ (i ∈ s ↔ 1 ≤ i ∧ (i : Int) < mx + (k + 1))) := by
  unfold siSet
  simp only [hk, if_true]
  refine ⟨_, rfl, ?_⟩
  simp only [List.mem_filter, List.mem_range, decide_eq_true_eq]
  constructor
  · rintro ⟨h1, h2⟩; exact ⟨h2, by omega⟩
  · rintro ⟨h1, h2⟩; exact ⟨by omega, h1⟩

theorem siSet_int_zero_raises (mx : Nat) : siSet mx (.int 0) = none := by
  simp [siSet]

/-- Connector relocation returns the nearest surviving ancestor-or-self. -/
theorem relocate_to_nearest_kept_ancestor (t : Table) (kept : List Int) (node a : Int)
    (h : relocate t kept node = some a) :
    a ∈ kept ∧ a ∈ rootPath t node ∧
    ∃ pre post, rootPath t node = pre ++ a :: post ∧ ∀ b ∈ pre, b ∉ kept := by
  unfold relocate at h
  have h1 := List.find?_some h
  have h2 := List.mem_of_find?_eq_some h
  refine ⟨by simpa using h1, h2, ?_⟩
  obtain ⟨pre, post, hsplit, hpre⟩ := List.find?_eq_some_iff_append.mp h |>.2
  exact ⟨pre, post, hsplit, fun b hb => by simpa using hpre b hb⟩

/-! ### Recursive `prune_twigs`: fixpoint, only twigs removed, well-formedness

`pruneTwigs t len size mask k` is the first round plus at most `k` further rounds (`recursive=k`).
No `WF t` is needed for the fixpoint and "only twigs" statements. -/

/-- **Fixpoint / fuel sufficiency**: with `|t| ≤ k` further rounds, nothing more can be pruned.
(Every productive round deletes at least one row, so there are at most `|t|` of them.) -/
theorem pruneTwigs_fixpoint (t : Table) (len : Int → Int → Nat) (size : Nat) (mask : Option (List Int)) (k : Nat)
    (hk : t.length ≤ k) : twigDelete (pruneTwigs t len size mask k) len size mask = [] :=
  pruneTwigs_fixpoint_succ len size mask k t (by omega)

/-- Sharp form: the first round counts too, so `|t| ≤ k + 1` is enough. -/
theorem pruneTwigs_fixpoint_sharp (t : Table) (len : Int → Int → Nat) (size : Nat) (mask : Option (List Int)) (k : Nat)
    (hk : t.length ≤ k + 1) : twigDelete (pruneTwigs t len size mask k) len size mask = [] :=
  pruneTwigs_fixpoint_succ len size mask k t hk

/-- … spelled out: in the result there is **no** terminal branch of length `≤ size` whose leaf is in
the mask. -/
theorem pruneTwigs_no_twig_remains (t : Table) (len : Int → Int → Nat) (size : Nat) (mask : Option (List Int)) (k : Nat)
    (hk : t.length ≤ k) (s : List Int) (hs : s ∈ terminalSegs (pruneTwigs t len size mask k))
    (hl : pathLen len s ≤ size)
    (hm : match (generalizing := false) mask, s.head? with
         | some m, some h => m.contains h = true
         | some _, none => False
         | none, _ => True) : False := by
  obtain ⟨_, h, l, hh, hl', c0, c2⟩ := terminalSegs_spec _ s hs
  cases s with
  | nil => simp at hh
  | cons x rest =>
    cases rest with
    | nil =>
      simp only [List.head?_cons, List.getLast?_singleton, Option.some.injEq] at hh hl'
      subst hh; subst hl'; omega
    | cons b r =>
      have hx : x ∈ twigDelete (pruneTwigs t len size mask k) len size mask :=
        (twigDelete_spec _ _ _ _ _).mpr ⟨_, hs, hl, hm, by simp⟩
      rw [pruneTwigs_fixpoint t len size mask k hk] at hx
      simp at hx

/-- The run of `pruneTwigs` is a sequence of productive rounds (`TwigRounds`): each step replaces the
current table `u` by `subset u (∉ twigDelete u)` with `twigDelete u ≠ []`. -/
theorem pruneTwigs_is_rounds (t : Table) (len : Int → Int → Nat) (size : Nat) (mask : Option (List Int)) (k : Nat) :
    TwigRounds len size mask t (pruneTwigs t len size mask k) :=
  pruneTwigs_rounds len size mask k t

/-- **Only twigs are removed**: a node of `t` that is missing from `pruneTwigs t … k` was, in the
round `u → subset u …` in which it was removed, a non-last node of a terminal branch of the
then-current table `u` with length `≤ size` and leaf in the mask. -/
theorem pruneTwigs_only_twigs (t : Table) (len : Int → Int → Nat) (size : Nat) (mask : Option (List Int)) (k : Nat)
    (i : Int) (hi : i ∈ ids t) (hni : i ∉ ids (pruneTwigs t len size mask k)) :
    ∃ u, TwigRounds len size mask t u ∧ TwigRounds len size mask u (pruneTwigs t len size mask k) ∧
      i ∈ ids u ∧
      ∃ s ∈ terminalSegs u, pathLen len s ≤ size ∧
        (match (generalizing := false) mask, s.head? with
         | some m, some h => m.contains h = true
         | some _, none => False
         | none, _ => True) ∧ i ∈ s.dropLast := by
  obtain ⟨u, h1, h2, h3, h4⟩ := (pruneTwigs_rounds len size mask k t).removed hi hni
  exact ⟨u, h1, .step (List.ne_nil_of_mem h3) h4, h2, (twigDelete_spec u len size mask i).mp h3⟩

/-- Nothing is added and the row order is kept. -/
theorem pruneTwigs_ids_sublist (t : Table) (len : Int → Int → Nat) (size : Nat) (mask : Option (List Int)) (k : Nat) :
    (ids (pruneTwigs t len size mask k)).Sublist (ids t) :=
  (pruneTwigs_rounds len size mask k t).ids_sublist

theorem pruneTwigs_WF (t : Table) (hw : WF t) (len : Int → Int → Nat) (size : Nat) (mask : Option (List Int)) (k : Nat) :
    WF (pruneTwigs t len size mask k) := WF_pruneTwigs hw len size mask k

theorem pruneTwigsOnce_WF (t : Table) (hw : WF t) (len : Int → Int → Nat) (size : Nat) (mask : Option (List Int)) :
    WF (pruneTwigsOnce t len size mask) := WF_pruneTwigsOnce hw len size mask

/-- Labels stay correct (when nothing is deleted the input is returned unchanged, hence the
hypothesis on `t`). -/
theorem pruneTwigs_labels (t : Table) (hl : labelsOKB t = true) (len : Int → Int → Nat) (size : Nat)
    (mask : Option (List Int)) (k : Nat) : labelsOKB (pruneTwigs t len size mask k) = true :=
  (pruneTwigs_rounds len size mask k t).labels hl

/-! ### Well-formedness of the other pruning functions -/

theorem pruneAtDepth_WF (t : Table) (hw : WF t) (len : Int → Int → Nat) (src : Int) (depth : Nat) :
    WF (pruneAtDepth t len src depth) ∧ labelsOKB (pruneAtDepth t len src depth) = true :=
  ⟨WF_pruneAtDepth hw len src depth, labelsOKB_subset _ _⟩

theorem longestNeurite_WF (t : Table) (hw : WF t) (len : Int → Int → Nat) (lo hi : Nat) (inv : Bool) :
    WF (longestNeurite t len lo hi inv) := WF_longestNeurite hw len lo hi inv

theorem pruneByStrahler_WF (t : Table) (hw : WF t) (sel : SISel) (t' : Table) (h : pruneByStrahler t sel = some t') :
    WF t' ∧ labelsOKB t' = true := by
  refine ⟨WF_pruneByStrahler hw h, ?_⟩
  obtain ⟨s, _, rfl⟩ := pruneByStrahler_eq_subset h
  exact labelsOKB_subset _ _

/-- `prune_by_strahler` keeps exactly the nodes whose Strahler index is not in the selected set. -/
theorem strahler_keep_spec (t : Table) (sel : SISel) (t' : Table) (h : pruneByStrahler t sel = some t') :
    ∃ s, siSet (((ids t).map (strahler t false [])).foldl max 0) sel = some s ∧
      ids t' = (ids t).filter fun i => !s.contains (strahler t false [] i) := by
  obtain ⟨s, hs, rfl⟩ := pruneByStrahler_eq_subset h
  exact ⟨s, hs, ids_subset t _⟩

/-! ### Strahler index sets: `range`, `list`, `slice` -/

/-- `range(a, b)` selects `a ≤ i < b`. -/
theorem siSet_range_spec (mx : Nat) (a b : Int) :
    ∃ s, siSet mx (.range a b) = some s ∧ ∀ i : Nat, i ∈ s ↔ a ≤ (i : Int) ∧ (i : Int) < b :=
  ⟨_, siSet_range_eq mx a b, fun i => mem_siSet_range (siSet_range_eq mx a b) i⟩

/-- A list selects its (non-negative) members. -/
theorem siSet_list_spec (mx : Nat) (ks : List Int) :
    ∃ s, siSet mx (.list ks) = some s ∧ ∀ i : Nat, i ∈ s ↔ (i : Int) ∈ ks :=
  ⟨_, siSet_list_eq mx ks, fun i => mem_siSet_list (siSet_list_eq mx ks) i⟩

/-- What `sliceBound n v dflt` computes — Python's normalisation of a slice bound on a list of length
`n`: `None` ↦ the default; `v ≥ 0` ↦ `min n v`; `v < 0` ↦ `max 0 (n + v)` (`n - |v|` in `Nat`). -/
theorem sliceBound_spec (n d : Nat) :
    sliceBound n none d = d ∧
    (∀ i : Int, 0 ≤ i → sliceBound n (some i) d = min n i.toNat) ∧
    (∀ i : Int, i < 0 → sliceBound n (some i) d = n - (-i).toNat) ∧
    (∀ v, d ≤ n → sliceBound n v d ≤ n) :=
  ⟨rfl, fun _ h => sliceBound_nonneg n d h, fun _ h => sliceBound_neg n d h, fun v h => sliceBound_le n v h⟩

/-- `slice(a, b)` on `list(range(1, max+1))` (whose position `p` holds the index `p + 1`): with
`lo = sliceBound max a 0` and `hi = sliceBound max b max`, the selected indices are the contiguous run
`lo+1, …, hi` — i.e. index `i` is selected iff its position `i - 1` satisfies `lo ≤ i - 1 < hi`. -/
theorem siSet_slice_spec (mx : Nat) (a b : Option Int) :
    ∃ s, siSet mx (.slice a b) = some s ∧
      s = List.range' (sliceBound mx a 0 + 1) (sliceBound mx b mx - sliceBound mx a 0) ∧
      sliceBound mx b mx ≤ mx ∧
      (∀ i : Nat, i ∈ s ↔ sliceBound mx a 0 < i ∧ i ≤ sliceBound mx b mx) ∧
      (∀ i : Nat, i ∈ s ↔ ∃ p, i = p + 1 ∧ p < mx ∧ sliceBound mx a 0 ≤ p ∧ p < sliceBound mx b mx) := by
  have hb := sliceBound_le mx b (Nat.le_refl mx)
  refine ⟨_, siSet_slice_eq mx a b, rfl, hb, fun i => mem_siSet_slice (siSet_slice_eq mx a b) i, ?_⟩
  intro i
  rw [mem_siSet_slice (siSet_slice_eq mx a b) i]
  constructor
  · rintro ⟨h1, h2⟩; exact ⟨i - 1, by omega, by omega, by omega, by omega⟩
  · rintro ⟨p, rfl, _, h2, h3⟩; exact ⟨by omega, by omega⟩

/-- Instances: `[:]` selects everything; `[:-k]` (`k > 0`) drops the `k` highest; `[a:]`
(`a ≥ 0`) drops the `a` lowest. -/
theorem siSet_slice_all (mx : Nat) (i : Nat) :
    ∃ s, siSet mx (.slice none none) = some s ∧ (i ∈ s ↔ 1 ≤ i ∧ i ≤ mx) := by
  refine ⟨_, siSet_slice_eq mx none none, ?_⟩
  rw [mem_siSet_slice (siSet_slice_eq mx none none) i]
  simp only [sliceBound_none]; omega

theorem siSet_slice_drop_highest (mx : Nat) (k : Int) (hk : 0 < k) (i : Nat) :
    ∃ s, siSet mx (.slice none (some (-k))) = some s ∧ (i ∈ s ↔ 1 ≤ i ∧ (i : Int) ≤ mx - k) := by
  refine ⟨_, siSet_slice_eq mx none _, ?_⟩
  rw [mem_siSet_slice (siSet_slice_eq mx none _) i, sliceBound_none, sliceBound_neg mx mx (by omega : -k < 0)]
  omega

theorem siSet_slice_drop_lowest (mx : Nat) (a : Int) (ha : 0 ≤ a) (i : Nat) :
    ∃ s, siSet mx (.slice (some a) none) = some s ∧ (i ∈ s ↔ a < (i : Int) ∧ i ≤ mx) := by
  refine ⟨_, siSet_slice_eq mx _ none, ?_⟩
  rw [mem_siSet_slice (siSet_slice_eq mx _ none) i, sliceBound_none, sliceBound_nonneg mx 0 ha]
  omega

/-! ### `prune_at_depth`: the source survives; monotone in the depth -/

/-- The source is at distance 0 from itself, so it is always kept. (`WF` is not needed.) -/
theorem depth_keep_source (t : Table) (len : Int → Int → Nat) (src : Int) (depth : Nat) (hs : src ∈ ids t) :
    src ∈ ids (pruneAtDepth t len src depth) :=
  mem_pruneAtDepth.mpr ⟨hs, 0, geo_self t len false src hs, Nat.zero_le _⟩

/-- A larger depth keeps at least as much. -/
theorem depth_keep_mono (t : Table) (len : Int → Int → Nat) (src : Int) {d₁ d₂ : Nat} (h : d₁ ≤ d₂) (i : Int)
    (hi : i ∈ ids (pruneAtDepth t len src d₁)) : i ∈ ids (pruneAtDepth t len src d₂) := by
  obtain ⟨h1, d, h2, h3⟩ := mem_pruneAtDepth.mp hi
  exact mem_pruneAtDepth.mpr ⟨h1, d, h2, Nat.le_trans h3 h⟩

/-- … and as lists: the smaller keep-set is a sublist of the larger. -/
theorem depth_keep_mono_sublist (t : Table) (len : Int → Int → Nat) (src : Int) {d₁ d₂ : Nat} (h : d₁ ≤ d₂) :
    (ids (pruneAtDepth t len src d₁)).Sublist (ids (pruneAtDepth t len src d₂)) := by
  rw [depth_keep_spec, depth_keep_spec]
  have : ((ids t).filter fun i => match geo t len false src i with
      | some d => decide (d ≤ d₁) | none => false) =
      (((ids t).filter fun i => match geo t len false src i with
      | some d => decide (d ≤ d₂) | none => false).filter fun i => match geo t len false src i with
      | some d => decide (d ≤ d₁) | none => false) := by
    rw [List.filter_filter]
    apply List.filter_congr
    intro i _
    cases geo t len false src i with
    | none => rfl
    | some d =>
      by_cases hd : d ≤ d₁
      · have : d ≤ d₂ := Nat.le_trans hd h
        simp [hd, this]
      · simp [hd]
  rw [this]
  exact List.filter_sublist

/-! ### `prune_twigs(exact=True)`: exactly `size` of cable comes off every tip

`exactPrune t len size` lists `(id, parent, τ)`; `H j` below is the height of `j` (largest path length
down to a tip distal to it) as a rational, at the fuel `exactPrune` itself uses. -/

/-- **What every output row is.**  A row `(i, p, τ)` is a row of the table (same id, same parent).
If `i` is farther than `size` from its farthest tip it is untouched (`τ = 0`).  Otherwise it is a root
(never moved, `τ = 0`) or it is the new tip of the edge to a parent that is itself farther than `size`
from its farthest tip: `0 ≤ τ ≤ 1`, and — when the edge has positive length — the new tip is *exactly*
`size` of cable away from the farthest original tip below it. -/
theorem exact_spec (t : Table) (len : Int → Int → Nat) (size : Rat) (i p : Int) (τ : Rat)
    (hr : (i, p, τ) ∈ exactPrune t len size) :
    ∃ n ∈ t, n.id = i ∧ n.parent = p ∧
      (size < (heightOf t len (t.length + 1) i : Nat) → τ = 0) ∧
      (((heightOf t len (t.length + 1) i : Nat) : Rat) ≤ size →
        (p < 0 ∧ τ = 0) ∨
        (size < (heightOf t len (t.length + 1) p : Nat) ∧ 0 ≤ τ ∧ τ ≤ 1 ∧
          (len i p ≠ 0 → ((heightOf t len (t.length + 1) i : Nat) : Rat) + τ * (len i p : Nat) = size))) := by
  obtain ⟨n, hn, hrow⟩ := Navis.ExactPrune.mem_exactPrune.mp hr
  refine ⟨n, hn, ?_⟩
  have hL0 : (0 : Rat) ≤ ((len n.id n.parent : Nat) : Rat) := by exact_mod_cast Nat.zero_le _
  rcases Navis.ExactPrune.exactRow_cases t len size n with
    ⟨h1, e⟩ | ⟨h1, h2, e⟩ | ⟨_, _, _, e⟩ | ⟨_, _, _, _, e⟩ | ⟨h1, h2, h3, h4, e⟩
  · rw [e] at hrow; cases hrow
    exact ⟨rfl, rfl, fun _ => rfl, fun h => absurd h (Rat.not_le.mpr h1)⟩
  · rw [e] at hrow; cases hrow
    exact ⟨rfl, rfl, fun _ => rfl, fun _ => Or.inl ⟨h2, rfl⟩⟩
  · rw [e] at hrow; exact absurd hrow (by simp)
  · rw [e] at hrow; exact absurd hrow (by simp)
  · rw [e] at hrow; cases hrow
    obtain ⟨t0, t1, t2⟩ := Navis.ExactPrune.tau_facts h1 hL0 h4
    refine ⟨rfl, rfl, fun h => absurd h1 (Rat.not_le.mpr h), fun _ => Or.inr ⟨h3, t0, t1, fun hne => t2 ?_⟩⟩
    intro h0; exact hne (by exact_mod_cast h0)

/-- **What is removed** (row form; no hypothesis on the table).  The row of `n` is absent from the
result iff `n` is within `size` of all its tips, is not a root, and either its parent is also within
`size` of all its tips or the edge to the parent is too short to carry the new tip. -/
theorem exact_removed (t : Table) (len : Int → Int → Nat) (size : Rat) (n : Node) (hn : n ∈ t) :
    (∀ τ, (n.id, n.parent, τ) ∉ exactPrune t len size) ↔
      (((heightOf t len (t.length + 1) n.id : Nat) : Rat) ≤ size ∧ ¬ n.parent < 0 ∧
        (((heightOf t len (t.length + 1) n.parent : Nat) : Rat) ≤ size ∨
         ((len n.id n.parent : Nat) : Rat) < size - (heightOf t len (t.length + 1) n.id : Nat))) := by
  constructor
  · intro habs
    rcases Navis.ExactPrune.exactRow_cases t len size n with
      ⟨_, e⟩ | ⟨_, _, e⟩ | ⟨h1, h2, h3, _⟩ | ⟨h1, h2, _, h4, _⟩ | ⟨_, _, _, _, e⟩
    · exact absurd (Navis.ExactPrune.mem_exactPrune.mpr ⟨n, hn, e⟩) (habs _)
    · exact absurd (Navis.ExactPrune.mem_exactPrune.mpr ⟨n, hn, e⟩) (habs _)
    · exact ⟨h1, h2, Or.inl h3⟩
    · exact ⟨h1, h2, Or.inr h4⟩
    · exact absurd (Navis.ExactPrune.mem_exactPrune.mpr ⟨n, hn, e⟩) (habs _)
  · rintro ⟨c1, c2, c3⟩ τ hmem
    obtain ⟨m, _, hrow⟩ := Navis.ExactPrune.mem_exactPrune.mp hmem
    obtain ⟨e1, e2⟩ := Navis.ExactPrune.exactRow_fst hrow
    simp only at e1 e2
    rcases Navis.ExactPrune.exactRow_cases t len size m with
      ⟨h1, _⟩ | ⟨_, h2, _⟩ | ⟨_, _, _, e⟩ | ⟨_, _, _, _, e⟩ | ⟨_, _, h3, h4, _⟩
    · rw [← e1] at h1; exact absurd c1 (Rat.not_le.mpr h1)
    · rw [← e2] at h2; exact c2 h2
    · rw [e] at hrow; exact absurd hrow (by simp)
    · rw [e] at hrow; exact absurd hrow (by simp)
    · rw [← e1, ← e2] at h4; rw [← e2] at h3
      rcases c3 with c3 | c3
      · exact absurd c3 (Rat.not_le.mpr h3)
      · exact h4 c3

/-- … and in id form, for tables with unique ids: the *id* of `n` is absent from the result. -/
theorem exact_removed_id (t : Table) (hnd : (ids t).Nodup) (len : Int → Int → Nat) (size : Rat) (n : Node) (hn : n ∈ t) :
    n.id ∉ (exactPrune t len size).map (·.1) ↔
      (((heightOf t len (t.length + 1) n.id : Nat) : Rat) ≤ size ∧ ¬ n.parent < 0 ∧
        (((heightOf t len (t.length + 1) n.parent : Nat) : Rat) ≤ size ∨
         ((len n.id n.parent : Nat) : Rat) < size - (heightOf t len (t.length + 1) n.id : Nat))) := by
  rw [← exact_removed t len size n hn]
  constructor
  · intro h τ hm
    exact h (List.mem_map.mpr ⟨_, hm, rfl⟩)
  · intro h hm
    obtain ⟨r, hr, hid⟩ := List.mem_map.mp hm
    obtain ⟨m, hm', hrow⟩ := Navis.ExactPrune.mem_exactPrune.mp hr
    obtain ⟨e1, e2⟩ := Navis.ExactPrune.exactRow_fst hrow
    have hfm := find?_of_mem hnd hm'
    have hfn := find?_of_mem hnd hn
    rw [← e1, hid, hfn] at hfm
    simp only [Option.some.injEq] at hfm
    subst hfm
    obtain ⟨i, p, τ⟩ := r
    simp only at e1 e2
    subst e1; subst e2
    exact h τ hr

/-- **Height recurrence** in a well-formed forest (at the fuel `exactPrune` uses on both sides): the
height of a node is the maximum over its children `c` of `len c i + height c`, and `0` for a leaf. -/
theorem heightOf_recurrence (t : Table) (hw : WF t) (len : Int → Int → Nat) (i : Int) (hi : i ∈ ids t) :
    heightOf t len (t.length + 1) i =
      ((children t i).map fun c => len c i + heightOf t len (t.length + 1) c).foldl max 0 :=
  Navis.ExactPrune.heightOf_rec hw len hi

/-- … spelled out as a maximum: an upper bound of all children's contributions that is attained (or is
`0` when there is no child). -/
theorem heightOf_is_max (t : Table) (hw : WF t) (len : Int → Int → Nat) (i : Int) (hi : i ∈ ids t) :
    (∀ c ∈ children t i, len c i + heightOf t len (t.length + 1) c ≤ heightOf t len (t.length + 1) i) ∧
    ((children t i = [] ∧ heightOf t len (t.length + 1) i = 0) ∨
     ∃ c ∈ children t i, heightOf t len (t.length + 1) i = len c i + heightOf t len (t.length + 1) c) := by
  rw [heightOf_recurrence t hw len i hi]
  constructor
  · intro c hc
    exact Navis.ExactPrune.le_foldl_max_of_mem 0 (List.mem_map.mpr ⟨c, hc, rfl⟩)
  · cases hch : children t i with
    | nil => exact Or.inl ⟨rfl, rfl⟩
    | cons a l =>
      right
      rcases Navis.ExactPrune.foldl_max_mem (((a :: l).map fun c => len c i + heightOf t len (t.length + 1) c)) 0 with h | h
      · refine ⟨a, by simp, ?_⟩
        have := Navis.ExactPrune.le_foldl_max_of_mem (l := (a :: l).map fun c => len c i + heightOf t len (t.length + 1) c) 0
          (List.mem_map.mpr ⟨a, by simp, rfl⟩)
        omega
      · obtain ⟨c, hc, he⟩ := List.mem_map.mp h
        exact ⟨c, hc, he.symm⟩

theorem heightOf_leaf (t : Table) (len : Int → Int → Nat) (f : Nat) (i : Int) (h : children t i = []) :
    heightOf t len f i = 0 := Navis.ExactPrune.heightOf_leaf t len f i h

/-- **Fuel independence** of the height. -/
theorem heightOf_fuel_independent (t : Table) (hw : WF t) (len : Int → Int → Nat) (i : Int) (hi : i ∈ ids t)
    (f : Nat) (hf : t.length ≤ f) : heightOf t len f i = heightOf t len (t.length + 1) i :=
  Navis.ExactPrune.heightOf_fuel hw len hi f hf

/-- The height grows by at least the edge length along every parent link. -/
theorem height_parent_ge (t : Table) (hw : WF t) (len : Int → Int → Nat) (n : Node) (hn : n ∈ t) (hp : ¬ n.parent < 0) :
    heightOf t len (t.length + 1) n.parent ≥ heightOf t len (t.length + 1) n.id + len n.id n.parent :=
  Navis.ExactPrune.height_child_le hw len hn hp

/-- Untouched nodes are closed under taking parents. -/
theorem exact_untouched_up (t : Table) (hw : WF t) (len : Int → Int → Nat) (size : Rat) (n : Node) (hn : n ∈ t)
    (hp : ¬ n.parent < 0) (h : size < (heightOf t len (t.length + 1) n.id : Nat)) :
    size < (heightOf t len (t.length + 1) n.parent : Nat) := by
  have h2 := Navis.ExactPrune.H_parent_ge' hw len hn hp
  unfold Navis.ExactPrune.H at h2
  grind

/-- **The result is a forest on the kept ids**: the parent named by any output row is itself an output
row, and an untouched one (`τ = 0`, height above `size`). -/
theorem exact_parents_kept (t : Table) (hw : WF t) (len : Int → Int → Nat) (size : Rat) (i p : Int) (τ : Rat)
    (hr : (i, p, τ) ∈ exactPrune t len size) (hp : ¬ p < 0) :
    size < (heightOf t len (t.length + 1) p : Nat) ∧ ∃ q, (p, q, (0 : Rat)) ∈ exactPrune t len size := by
  obtain ⟨n, hn, rfl, rfl, hA, hB⟩ := exact_spec t len size i p τ hr
  have hgt : size < (heightOf t len (t.length + 1) n.parent : Nat) := by
    by_cases h : size < (heightOf t len (t.length + 1) n.id : Nat)
    · exact exact_untouched_up t hw len size n hn hp h
    · rcases hB (Rat.not_lt.mp h) with ⟨h1, _⟩ | ⟨h1, _⟩
      · exact absurd h1 hp
      · exact h1
  refine ⟨hgt, ?_⟩
  obtain ⟨m, hm, hmid⟩ := mem_ids.mp (WF_parent_mem hw hn hp)
  refine ⟨m.parent, Navis.ExactPrune.mem_exactPrune.mpr ⟨m, hm, ?_⟩⟩
  rcases Navis.ExactPrune.exactRow_cases t len size m with
    ⟨_, e⟩ | ⟨h1, _⟩ | ⟨h1, _⟩ | ⟨h1, _⟩ | ⟨h1, _⟩
  · rw [e, hmid]
  all_goals (rw [hmid] at h1; exact absurd h1 (Rat.not_le.mpr hgt))

/-- The output, read as a node table, is a well-formed forest whose ids are a sublist of the input's. -/
theorem exact_forest (t : Table) (hw : WF t) (len : Int → Int → Nat) (size : Rat) :
    WF ((exactPrune t len size).map fun r => ({ id := r.1, parent := r.2.1 } : Node)) ∧
    ((exactPrune t len size).map (·.1)).Sublist (ids t) := by
  have hsub := Navis.ExactPrune.exactPrune_ids_sublist t len size
  refine ⟨?_, hsub⟩
  have hids : ids ((exactPrune t len size).map fun r => ({ id := r.1, parent := r.2.1 } : Node)) =
      (exactPrune t len size).map (·.1) := by
    simp [ids, List.map_map, Function.comp_def]
  obtain ⟨hnd, hpos, rk, hrk⟩ := hw
  refine ⟨hids ▸ hsub.nodup hnd, ?_, rk, ?_⟩
  · intro m hm
    obtain ⟨r, hr, rfl⟩ := List.mem_map.mp hm
    obtain ⟨n, hn, hrow⟩ := Navis.ExactPrune.mem_exactPrune.mp hr
    rw [(Navis.ExactPrune.exactRow_fst hrow).1]; exact hpos n hn
  · intro m hm
    obtain ⟨⟨i, p, τ⟩, hr, rfl⟩ := List.mem_map.mp hm
    by_cases hp : p < 0
    · exact Or.inl hp
    · right
      obtain ⟨_, q, hq⟩ := exact_parents_kept t ⟨hnd, hpos, rk, hrk⟩ len size i p τ hr hp
      obtain ⟨n, hn, rfl, rfl, _⟩ := exact_spec t len size i p τ hr
      refine ⟨?_, ?_⟩
      · rw [hids]; exact List.mem_map.mpr ⟨_, hq, rfl⟩
      · rcases hrk n hn with h | h
        · exact absurd h hp
        · exact h.2

/-! ### Non-vacuity -/
def ex : Table := [⟨1, -1, 0, 0, 0, .root⟩, ⟨2, 1, 3, 0, 0, .branch⟩, ⟨3, 2, 6, 0, 0, .end_⟩, ⟨4, 2, 3, 4, 0, .end_⟩]
example : terminalSegs ex = [[3, 2], [4, 2]] := by decide
example : twigDelete ex (coordLen ex) 3 none = [3] ∧ twigDelete ex (coordLen ex) 2 none = [] := by decide
example : ids (pruneTwigs ex (coordLen ex) 4 none 5) = [1, 2] := by decide
example : ids (pruneAtDepth ex (coordLen ex) 1 6 ) = [1, 2, 3] := by decide
example : (pruneByStrahler ex (.int 1)).map ids = some [1, 2] := by decide

/-- A table on which recursion matters: removing the twigs `3`, `4` turns `2` into a new twig. -/
def ex2 : Table := [⟨1, -1, 0, 0, 0, .root⟩, ⟨2, 1, 0, 0, 0, .branch⟩, ⟨3, 2, 0, 0, 0, .end_⟩,
  ⟨4, 2, 0, 0, 0, .end_⟩, ⟨5, 1, 0, 0, 0, .end_⟩]
def len2 : Int → Int → Nat := fun a _ => if a == 5 then 10 else 1
example : ids (pruneTwigsOnce ex2 len2 1 none) = [1, 2, 5] ∧ ids (pruneTwigs ex2 len2 1 none 1) = [1, 5] ∧
    ids (pruneTwigs ex2 len2 1 none 5) = [1, 5] := by decide
example : twigDelete (pruneTwigsOnce ex2 len2 1 none) len2 1 none = [2] ∧
    twigDelete (pruneTwigs ex2 len2 1 none 5) len2 1 none = [] := by decide
example : wfB (pruneTwigs ex2 len2 1 none 5) = true ∧ labelsOKB (pruneTwigs ex2 len2 1 none 5) = true := by decide
example : ids (pruneTwigs ex2 len2 1 (some [3]) 5) = [1, 2, 4, 5] := by decide
example : twigDelete (pruneTwigs ex (coordLen ex) 4 none 4) (coordLen ex) 4 none = [] := by decide
example : wfB (pruneAtDepth ex (coordLen ex) 3 3) = true ∧ wfB (longestNeurite ex (coordLen ex) 0 1 false) = true := by decide
example : (pruneByStrahler ex (.int 1)).map wfB = some true := by decide
example : siSet 5 (.slice none none) = some [1, 2, 3, 4, 5] ∧ siSet 5 (.slice none (some (-1))) = some [1, 2, 3, 4] ∧
    siSet 5 (.slice (some 1) (some 3)) = some [2, 3] ∧ siSet 5 (.slice (some (-2)) none) = some [4, 5] ∧
    siSet 5 (.slice (some 7) none) = some [] ∧ siSet 5 (.slice (some (-9)) (some 9)) = some [1, 2, 3, 4, 5] ∧
    siSet 5 (.slice (some 3) (some 1)) = some [] := by decide
example : siSet 5 (.range 2 4) = some [2, 3] ∧ siSet 5 (.range (-2) 2) = some [0, 1] ∧
    siSet 5 (.list [1, -1, 3]) = some [1, 3] := by decide
example : ids (pruneAtDepth ex (coordLen ex) 3 0) = [3] ∧ ids (pruneAtDepth ex (coordLen ex) 3 3) = [2, 3] ∧
    ids (pruneAtDepth ex (coordLen ex) 3 7) = [1, 2, 3, 4] := by decide

/-! `prune_twigs(exact=True)` on `ex` (edges `2–1`: 3, `3–2`: 3, `4–2`: 4; heights `7, 4, 0, 0`). -/
example : wfB ex = true ∧ (ids ex).map (heightOf ex (coordLen ex) (ex.length + 1)) = [7, 4, 0, 0] := by decide
/-- `size = 2`: both tips move up their edge, `2/3` and `2/4` of the way. -/
example : exactPrune ex (coordLen ex) 2 = [(1, -1, 0), (2, 1, 0), (3, 2, 2/3), (4, 2, 1/2)] := by decide +kernel
/-- `size = 7/2`: the 3-long twig is too short and disappears, the 4-long one keeps `1/2` of cable. -/
example : exactPrune ex (coordLen ex) (7/2) = [(1, -1, 0), (2, 1, 0), (4, 2, 7/8)] := by decide +kernel
/-- `size = 4 =` height of the fork (tie, `≤`): both twigs go, the fork becomes the tip, unmoved;
`size = 7`: only the root is left (never moved, never removed). -/
example : exactPrune ex (coordLen ex) 4 = [(1, -1, 0), (2, 1, 0)] ∧ exactPrune ex (coordLen ex) 7 = [(1, -1, 0)] ∧
    exactPrune ex (coordLen ex) 100 = [(1, -1, 0)] := by decide +kernel
/-- Zero-length edges (`ex2`: all coordinates equal, lengths from `len2`): `5` keeps `1/10` … -/
example : exactPrune ex2 len2 1 = [(1, -1, 0), (2, 1, 0), (5, 1, 1/10)] := by decide +kernel
/-- … and with a length function that is `0` everywhere every non-root is within `size = 0` of its
tips: only the root survives. -/
example : exactPrune ex2 (fun _ _ => 0) 0 = [(1, -1, 0)] := by decide +kernel

end Navis.Props.C12
