import NavisModel.Model.Prune
import NavisModel.Proofs.RerootLemmas
import NavisModel.Proofs.PruneLemmas
import NavisModel.Proofs.ExactPruneLemmas
import NavisModel.Proofs.PruneExtLemmas
import NavisModel.Proofs.GreedyLemmas
import NavisModel.Proofs.ExactAWLemmas
import NavisModel.Gen.Prune
/-!
# C12 — pruning keeps exactly the nodes its criterion defines

Every pruning function of the model is `subset t keep` for an explicit keep-predicate, so "kept
nodes' ids, coordinates and mutual parent links are untouched" is C10's `subset` theorem; the
theorems here pin down the keep-sets.
-/
namespace Navis.Props.C12
open Navis.Forest

/-- Kept nodes are untouched: a node of `subset t keep` is a node of `t` with the same id and
coordinates, whose parent link is the original one when the parent is kept and a new root otherwise.
(All pruning functions below are instances.) -/
theorem kept_untouched (t : Table) (hw : WF t) (keep : Int → Bool) (m : Node) (hm : m ∈ subset t keep) :
    ∃ n ∈ t, n.id = m.id ∧ keep n.id = true ∧ m.x = n.x ∧ m.y = n.y ∧ m.z = n.z ∧
      m.parent = (if n.parent ∈ (ids t).filter keep then n.parent else -1) :=
  subset_parent hw.1 keep hm

/-- `prune_twigs`, one round: exactly the nodes of `twigDelete` are removed. -/
theorem prune_twigs_exact_set (t : Table) (len : Int → Int → Nat) (size : Nat) (mask : Option (List Int)) :
    ids (pruneTwigsOnce t len size mask) = (ids t).filter fun i => !(twigDelete t len size mask).contains i := by
  show ids (if (twigDelete t len size mask).isEmpty = true then t
      else subset t fun i => !(twigDelete t len size mask).contains i) = _
  split
  · rename_i h
    have : twigDelete t len size mask = [] := by simpa using h
    simp only [this, List.contains_nil, Bool.not_false]
    exact (List.filter_eq_self.mpr (fun _ _ => rfl)).symm
  · exact ids_subset t _

/-- … and `twigDelete` is: all nodes but the last (the branch point) of every terminal branch whose
length is at most `size` (note `≤`) and whose leaf is in the mask. -/
theorem twigDelete_spec (t : Table) (len : Int → Int → Nat) (size : Nat) (mask : Option (List Int)) (i : Int) :
    i ∈ twigDelete t len size mask ↔
      ∃ s ∈ terminalSegs t, pathLen len s ≤ size ∧
        (match mask, s.head? with
         | some m, some h => m.contains h = true
         | some _, none => False
         | none, _ => True) ∧ i ∈ s.dropLast := by
  unfold twigDelete
  simp only [List.mem_flatMap, List.mem_filter, Bool.and_eq_true, decide_eq_true_eq]
  constructor
  · rintro ⟨s, ⟨hs, hl, hm⟩, hi⟩
    refine ⟨s, hs, hl, ?_, hi⟩
    cases mask with
    | none => simp
    | some m => cases hh : s.head? with
      | none => rw [hh] at hm; simp at hm
      | some h => rw [hh] at hm; simpa using hm
  · rintro ⟨s, hs, hl, hm, hi⟩
    refine ⟨s, ⟨hs, hl, ?_⟩, hi⟩
    cases mask with
    | none => simp
    | some m => cases hh : s.head? with
      | none => rw [hh] at hm; simp at hm
      | some h => rw [hh] at hm; simpa using hm

/-- A terminal branch starts at a leaf and ends at a fork. -/
theorem terminalSegs_spec (t : Table) (s : List Int) (hs : s ∈ terminalSegs t) :
    s ∈ smallSegments t ∧ ∃ h l, s.head? = some h ∧ s.getLast? = some l ∧ childCount t h = 0 ∧ childCount t l ≥ 2 := by
  unfold terminalSegs at hs
  rw [List.mem_filter] at hs
  refine ⟨hs.1, ?_⟩
  cases hh : s.head? with
  | none => rw [hh] at hs; simp at hs
  | some h => cases hl : s.getLast? with
    | none => rw [hh, hl] at hs; simp at hs
    | some l =>
      rw [hh, hl] at hs
      simp only [Bool.and_eq_true, beq_iff_eq, decide_eq_true_eq] at hs
      exact ⟨h, l, rfl, rfl, hs.2.1, hs.2.2⟩

/-- `prune_at_depth` keeps precisely the nodes within geodesic distance `depth` of the source
(`≤`: a node exactly at `depth` is kept). -/
theorem depth_keep_spec (t : Table) (len : Int → Int → Nat) (src : Int) (depth : Nat) :
    ids (pruneAtDepth t len src depth) = (ids t).filter fun i =>
      match geo t len false src i with
      | some d => decide (d ≤ depth)
      | none => false :=
  ids_subset t _

/-- `longest_neurite` keeps precisely the nodes of the selected greedy segments, or their complement. -/
theorem longest_keep_spec (t : Table) (len : Int → Int → Nat) (lo hi : Nat) (inv : Bool) :
    ids (longestNeurite t len lo hi inv) = (ids t).filter fun i =>
      (if inv then !(((segments t len).take hi).drop lo).flatten.contains i
       else (((segments t len).take hi).drop lo).flatten.contains i) := by
  unfold longestNeurite
  cases inv <;> simp [ids_subset]

/-- Index sets of `prune_by_strahler`: a positive int selects that index; a negative int `-k` selects
`1 … max - k + 1 - 1` (i.e. everything but the `k - 1` highest … as `range(1, max + (to_prune + 1))`). -/
theorem siSet_int_pos (mx : Nat) (k : Int) (hk : 1 ≤ k) : siSet mx (.int k) = some [k.toNat] := by
  unfold siSet
  have h1 : ¬ k < 0 := by omega
  have h2 : ¬ k < 1 := by omega
  simp [h1, h2]

theorem siSet_int_neg (mx : Nat) (k : Int) (hk : k < 0) (i : Nat) :
    (∃ s, siSet mx (.int k) = some s ∧ (i ∈ s ↔ 1 ≤ i ∧ (i : Int) < mx + (k + 1))) := by
  unfold siSet
  simp only [hk, if_true]
  refine ⟨_, rfl, ?_⟩
  simp only [List.mem_filter, List.mem_range, decide_eq_true_eq]
  constructor
  · rintro ⟨h1, h2⟩; exact ⟨h2, by omega⟩
  · rintro ⟨h1, h2⟩; exact ⟨by omega, h1⟩

theorem siSet_int_zero_raises (mx : Nat) : siSet mx (.int 0) = none := by
  simp [siSet]

/-- Connector relocation returns the nearest surviving ancestor-or-self. -/
theorem relocate_to_nearest_kept_ancestor (t : Table) (kept : List Int) (node a : Int)
    (h : relocate t kept node = some a) :
    a ∈ kept ∧ a ∈ rootPath t node ∧
    ∃ pre post, rootPath t node = pre ++ a :: post ∧ ∀ b ∈ pre, b ∉ kept := by
  unfold relocate at h
  have h1 := List.find?_some h
  have h2 := List.mem_of_find?_eq_some h
  refine ⟨by simpa using h1, h2, ?_⟩
  obtain ⟨pre, post, hsplit, hpre⟩ := List.find?_eq_some_iff_append.mp h |>.2
  exact ⟨pre, post, hsplit, fun b hb => by simpa using hpre b hb⟩

/-! ### Recursive `prune_twigs`: fixpoint, only twigs removed, well-formedness

`pruneTwigs t len size mask k` is the first round plus at most `k` further rounds (`recursive=k`).
No `WF t` is needed for the fixpoint and "only twigs" statements. -/

/-- **Fixpoint / fuel sufficiency**: with `|t| ≤ k` further rounds, nothing more can be pruned.
(Every productive round deletes at least one row, so there are at most `|t|` of them.) -/
theorem pruneTwigs_fixpoint (t : Table) (len : Int → Int → Nat) (size : Nat) (mask : Option (List Int)) (k : Nat)
    (hk : t.length ≤ k) : twigDelete (pruneTwigs t len size mask k) len size mask = [] :=
  pruneTwigs_fixpoint_succ len size mask k t (by omega)

/-- Sharp form: the first round counts too, so `|t| ≤ k + 1` is enough. -/
theorem pruneTwigs_fixpoint_sharp (t : Table) (len : Int → Int → Nat) (size : Nat) (mask : Option (List Int)) (k : Nat)
    (hk : t.length ≤ k + 1) : twigDelete (pruneTwigs t len size mask k) len size mask = [] :=
  pruneTwigs_fixpoint_succ len size mask k t hk

/-- … spelled out: in the result there is **no** terminal branch of length `≤ size` whose leaf is in
the mask. -/
theorem pruneTwigs_no_twig_remains (t : Table) (len : Int → Int → Nat) (size : Nat) (mask : Option (List Int)) (k : Nat)
    (hk : t.length ≤ k) (s : List Int) (hs : s ∈ terminalSegs (pruneTwigs t len size mask k))
    (hl : pathLen len s ≤ size)
    (hm : match (generalizing := false) mask, s.head? with
         | some m, some h => m.contains h = true
         | some _, none => False
         | none, _ => True) : False := by
  obtain ⟨_, h, l, hh, hl', c0, c2⟩ := terminalSegs_spec _ s hs
  cases s with
  | nil => simp at hh
  | cons x rest =>
    cases rest with
    | nil =>
      simp only [List.head?_cons, List.getLast?_singleton, Option.some.injEq] at hh hl'
      subst hh; subst hl'; omega
    | cons b r =>
      have hx : x ∈ twigDelete (pruneTwigs t len size mask k) len size mask :=
        (twigDelete_spec _ _ _ _ _).mpr ⟨_, hs, hl, hm, by simp⟩
      rw [pruneTwigs_fixpoint t len size mask k hk] at hx
      simp at hx

/-- The run of `pruneTwigs` is a sequence of productive rounds (`TwigRounds`): each step replaces the
current table `u` by `subset u (∉ twigDelete u)` with `twigDelete u ≠ []`. -/
theorem pruneTwigs_is_rounds (t : Table) (len : Int → Int → Nat) (size : Nat) (mask : Option (List Int)) (k : Nat) :
    TwigRounds len size mask t (pruneTwigs t len size mask k) :=
  pruneTwigs_rounds len size mask k t

/-- **Only twigs are removed**: a node of `t` that is missing from `pruneTwigs t … k` was, in the
round `u → subset u …` in which it was removed, a non-last node of a terminal branch of the
then-current table `u` with length `≤ size` and leaf in the mask. -/
theorem pruneTwigs_only_twigs (t : Table) (len : Int → Int → Nat) (size : Nat) (mask : Option (List Int)) (k : Nat)
    (i : Int) (hi : i ∈ ids t) (hni : i ∉ ids (pruneTwigs t len size mask k)) :
    ∃ u, TwigRounds len size mask t u ∧ TwigRounds len size mask u (pruneTwigs t len size mask k) ∧
      i ∈ ids u ∧
      ∃ s ∈ terminalSegs u, pathLen len s ≤ size ∧
        (match (generalizing := false) mask, s.head? with
         | some m, some h => m.contains h = true
         | some _, none => False
         | none, _ => True) ∧ i ∈ s.dropLast := by
  obtain ⟨u, h1, h2, h3, h4⟩ := (pruneTwigs_rounds len size mask k t).removed hi hni
  exact ⟨u, h1, .step (List.ne_nil_of_mem h3) h4, h2, (twigDelete_spec u len size mask i).mp h3⟩

/-- Nothing is added and the row order is kept. -/
theorem pruneTwigs_ids_sublist (t : Table) (len : Int → Int → Nat) (size : Nat) (mask : Option (List Int)) (k : Nat) :
    (ids (pruneTwigs t len size mask k)).Sublist (ids t) :=
  (pruneTwigs_rounds len size mask k t).ids_sublist

theorem pruneTwigs_WF (t : Table) (hw : WF t) (len : Int → Int → Nat) (size : Nat) (mask : Option (List Int)) (k : Nat) :
    WF (pruneTwigs t len size mask k) := WF_pruneTwigs hw len size mask k

theorem pruneTwigsOnce_WF (t : Table) (hw : WF t) (len : Int → Int → Nat) (size : Nat) (mask : Option (List Int)) :
    WF (pruneTwigsOnce t len size mask) := WF_pruneTwigsOnce hw len size mask

/-- Labels stay correct (when nothing is deleted the input is returned unchanged, hence the
hypothesis on `t`). -/
theorem pruneTwigs_labels (t : Table) (hl : labelsOKB t = true) (len : Int → Int → Nat) (size : Nat)
    (mask : Option (List Int)) (k : Nat) : labelsOKB (pruneTwigs t len size mask k) = true :=
  (pruneTwigs_rounds len size mask k t).labels hl

/-! ### Well-formedness of the other pruning functions -/

theorem pruneAtDepth_WF (t : Table) (hw : WF t) (len : Int → Int → Nat) (src : Int) (depth : Nat) :
    WF (pruneAtDepth t len src depth) ∧ labelsOKB (pruneAtDepth t len src depth) = true :=
  ⟨WF_pruneAtDepth hw len src depth, labelsOKB_subset _ _⟩

theorem longestNeurite_WF (t : Table) (hw : WF t) (len : Int → Int → Nat) (lo hi : Nat) (inv : Bool) :
    WF (longestNeurite t len lo hi inv) := WF_longestNeurite hw len lo hi inv

theorem pruneByStrahler_WF (t : Table) (hw : WF t) (sel : SISel) (t' : Table) (h : pruneByStrahler t sel = some t') :
    WF t' ∧ labelsOKB t' = true := by
  refine ⟨WF_pruneByStrahler hw h, ?_⟩
  obtain ⟨s, _, rfl⟩ := pruneByStrahler_eq_subset h
  exact labelsOKB_subset _ _

/-- `prune_by_strahler` keeps exactly the nodes whose Strahler index is not in the selected set. -/
theorem strahler_keep_spec (t : Table) (sel : SISel) (t' : Table) (h : pruneByStrahler t sel = some t') :
    ∃ s, siSet (((ids t).map (strahler t false [])).foldl max 0) sel = some s ∧
      ids t' = (ids t).filter fun i => !s.contains (strahler t false [] i) := by
  obtain ⟨s, hs, rfl⟩ := pruneByStrahler_eq_subset h
  exact ⟨s, hs, ids_subset t _⟩

/-! ### Strahler index sets: `range`, `list`, `slice` -/

/-- `range(a, b)` selects `a ≤ i < b`. -/
theorem siSet_range_spec (mx : Nat) (a b : Int) :
    ∃ s, siSet mx (.range a b) = some s ∧ ∀ i : Nat, i ∈ s ↔ a ≤ (i : Int) ∧ (i : Int) < b :=
  ⟨_, siSet_range_eq mx a b, fun i => mem_siSet_range (siSet_range_eq mx a b) i⟩

/-- A list selects its (non-negative) members. -/
theorem siSet_list_spec (mx : Nat) (ks : List Int) :
    ∃ s, siSet mx (.list ks) = some s ∧ ∀ i : Nat, i ∈ s ↔ (i : Int) ∈ ks :=
  ⟨_, siSet_list_eq mx ks, fun i => mem_siSet_list (siSet_list_eq mx ks) i⟩

/-- What `sliceBound n v dflt` computes — Python's normalisation of a slice bound on a list of length
`n`: `None` ↦ the default; `v ≥ 0` ↦ `min n v`; `v < 0` ↦ `max 0 (n + v)` (`n - |v|` in `Nat`). -/
theorem sliceBound_spec (n d : Nat) :
    sliceBound n none d = d ∧
    (∀ i : Int, 0 ≤ i → sliceBound n (some i) d = min n i.toNat) ∧
    (∀ i : Int, i < 0 → sliceBound n (some i) d = n - (-i).toNat) ∧
    (∀ v, d ≤ n → sliceBound n v d ≤ n) :=
  ⟨rfl, fun _ h => sliceBound_nonneg n d h, fun _ h => sliceBound_neg n d h, fun v h => sliceBound_le n v h⟩

/-- `slice(a, b)` on `list(range(1, max+1))` (whose position `p` holds the index `p + 1`): with
`lo = sliceBound max a 0` and `hi = sliceBound max b max`, the selected indices are the contiguous run
`lo+1, …, hi` — i.e. index `i` is selected iff its position `i - 1` satisfies `lo ≤ i - 1 < hi`. -/
theorem siSet_slice_spec (mx : Nat) (a b : Option Int) :
    ∃ s, siSet mx (.slice a b) = some s ∧
      s = List.range' (sliceBound mx a 0 + 1) (sliceBound mx b mx - sliceBound mx a 0) ∧
      sliceBound mx b mx ≤ mx ∧
      (∀ i : Nat, i ∈ s ↔ sliceBound mx a 0 < i ∧ i ≤ sliceBound mx b mx) ∧
      (∀ i : Nat, i ∈ s ↔ ∃ p, i = p + 1 ∧ p < mx ∧ sliceBound mx a 0 ≤ p ∧ p < sliceBound mx b mx) := by
  have hb := sliceBound_le mx b (Nat.le_refl mx)
  refine ⟨_, siSet_slice_eq mx a b, rfl, hb, fun i => mem_siSet_slice (siSet_slice_eq mx a b) i, ?_⟩
  intro i
  rw [mem_siSet_slice (siSet_slice_eq mx a b) i]
  constructor
  · rintro ⟨h1, h2⟩; exact ⟨i - 1, by omega, by omega, by omega, by omega⟩
  · rintro ⟨p, rfl, _, h2, h3⟩; exact ⟨by omega, by omega⟩

/-- Instances: `[:]` selects everything; `[:-k]` (`k > 0`) drops the `k` highest; `[a:]`
(`a ≥ 0`) drops the `a` lowest. -/
theorem siSet_slice_all (mx : Nat) (i : Nat) :
    ∃ s, siSet mx (.slice none none) = some s ∧ (i ∈ s ↔ 1 ≤ i ∧ i ≤ mx) := by
  refine ⟨_, siSet_slice_eq mx none none, ?_⟩
  rw [mem_siSet_slice (siSet_slice_eq mx none none) i]
  simp only [sliceBound_none]; omega

theorem siSet_slice_drop_highest (mx : Nat) (k : Int) (hk : 0 < k) (i : Nat) :
    ∃ s, siSet mx (.slice none (some (-k))) = some s ∧ (i ∈ s ↔ 1 ≤ i ∧ (i : Int) ≤ mx - k) := by
  refine ⟨_, siSet_slice_eq mx none _, ?_⟩
  rw [mem_siSet_slice (siSet_slice_eq mx none _) i, sliceBound_none, sliceBound_neg mx mx (by omega : -k < 0)]
  omega

theorem siSet_slice_drop_lowest (mx : Nat) (a : Int) (ha : 0 ≤ a) (i : Nat) :
    ∃ s, siSet mx (.slice (some a) none) = some s ∧ (i ∈ s ↔ a < (i : Int) ∧ i ≤ mx) := by
  refine ⟨_, siSet_slice_eq mx _ none, ?_⟩
  rw [mem_siSet_slice (siSet_slice_eq mx _ none) i, sliceBound_none, sliceBound_nonneg mx 0 ha]
  omega

/-! ### `prune_at_depth`: the source survives; monotone in the depth -/

/-- The source is at distance 0 from itself, so it is always kept. (`WF` is not needed.) -/
theorem depth_keep_source (t : Table) (len : Int → Int → Nat) (src : Int) (depth : Nat) (hs : src ∈ ids t) :
    src ∈ ids (pruneAtDepth t len src depth) :=
  mem_pruneAtDepth.mpr ⟨hs, 0, geo_self t len false src hs, Nat.zero_le _⟩

/-- A larger depth keeps at least as much. -/
theorem depth_keep_mono (t : Table) (len : Int → Int → Nat) (src : Int) {d₁ d₂ : Nat} (h : d₁ ≤ d₂) (i : Int)
    (hi : i ∈ ids (pruneAtDepth t len src d₁)) : i ∈ ids (pruneAtDepth t len src d₂) := by
  obtain ⟨h1, d, h2, h3⟩ := mem_pruneAtDepth.mp hi
  exact mem_pruneAtDepth.mpr ⟨h1, d, h2, Nat.le_trans h3 h⟩

/-- … and as lists: the smaller keep-set is a sublist of the larger. -/
theorem depth_keep_mono_sublist (t : Table) (len : Int → Int → Nat) (src : Int) {d₁ d₂ : Nat} (h : d₁ ≤ d₂) :
    (ids (pruneAtDepth t len src d₁)).Sublist (ids (pruneAtDepth t len src d₂)) := by
  rw [depth_keep_spec, depth_keep_spec]
  have : ((ids t).filter fun i => match geo t len false src i with
      | some d => decide (d ≤ d₁) | none => false) =
      (((ids t).filter fun i => match geo t len false src i with
      | some d => decide (d ≤ d₂) | none => false).filter fun i => match geo t len false src i with
      | some d => decide (d ≤ d₁) | none => false) := by
    rw [List.filter_filter]
    apply List.filter_congr
    intro i _
    cases geo t len false src i with
    | none => rfl
    | some d =>
      by_cases hd : d ≤ d₁
      · have : d ≤ d₂ := Nat.le_trans hd h
        simp [hd, this]
      · simp [hd]
  rw [this]
  exact List.filter_sublist

/-! ### `prune_twigs(exact=True)`: exactly `size` of cable comes off every tip

`exactPrune t len size` lists `(id, parent, τ)`; `H j` below is the height of `j` (largest path length
down to a tip distal to it) as a rational, at the fuel `exactPrune` itself uses. -/

/-- **What every output row is.**  A row `(i, p, τ)` is a row of the table (same id, same parent).
If `i` is farther than `size` from its farthest tip it is untouched (`τ = 0`).  Otherwise it is a root
(never moved, `τ = 0`) or it is the new tip of the edge to a parent that is itself farther than `size`
from its farthest tip: `0 ≤ τ ≤ 1`, and — when the edge has positive length — the new tip is *exactly*
`size` of cable away from the farthest original tip below it. -/
theorem exact_spec (t : Table) (len : Int → Int → Nat) (size : Rat) (i p : Int) (τ : Rat)
    (hr : (i, p, τ) ∈ exactPrune t len size) :
    ∃ n ∈ t, n.id = i ∧ n.parent = p ∧
      (size < (heightOf t len (t.length + 1) i : Nat) → τ = 0) ∧
      (((heightOf t len (t.length + 1) i : Nat) : Rat) ≤ size →
        (p < 0 ∧ τ = 0) ∨
        (size < (heightOf t len (t.length + 1) p : Nat) ∧ 0 ≤ τ ∧ τ ≤ 1 ∧
          (len i p ≠ 0 → ((heightOf t len (t.length + 1) i : Nat) : Rat) + τ * (len i p : Nat) = size))) := by
  obtain ⟨n, hn, hrow⟩ := Navis.ExactPrune.mem_exactPrune.mp hr
  refine ⟨n, hn, ?_⟩
  have hL0 : (0 : Rat) ≤ ((len n.id n.parent : Nat) : Rat) := by exact_mod_cast Nat.zero_le _
  rcases Navis.ExactPrune.exactRow_cases t len size n with
    ⟨h1, e⟩ | ⟨h1, h2, e⟩ | ⟨_, _, _, e⟩ | ⟨_, _, _, _, e⟩ | ⟨h1, h2, h3, h4, e⟩
  · rw [e] at hrow; cases hrow
    exact ⟨rfl, rfl, fun _ => rfl, fun h => absurd h (Rat.not_le.mpr h1)⟩
  · rw [e] at hrow; cases hrow
    exact ⟨rfl, rfl, fun _ => rfl, fun _ => Or.inl ⟨h2, rfl⟩⟩
  · rw [e] at hrow; exact absurd hrow (by simp)
  · rw [e] at hrow; exact absurd hrow (by simp)
  · rw [e] at hrow; cases hrow
    obtain ⟨t0, t1, t2⟩ := Navis.ExactPrune.tau_facts h1 hL0 h4
    refine ⟨rfl, rfl, fun h => absurd h1 (Rat.not_le.mpr h), fun _ => Or.inr ⟨h3, t0, t1, fun hne => t2 ?_⟩⟩
    intro h0; exact hne (by exact_mod_cast h0)

/-- **What is removed** (row form; no hypothesis on the table).  The row of `n` is absent from the
result iff `n` is within `size` of all its tips, is not a root, and either its parent is also within
`size` of all its tips or the edge to the parent is too short to carry the new tip. -/
theorem exact_removed (t : Table) (len : Int → Int → Nat) (size : Rat) (n : Node) (hn : n ∈ t) :
    (∀ τ, (n.id, n.parent, τ) ∉ exactPrune t len size) ↔
      (((heightOf t len (t.length + 1) n.id : Nat) : Rat) ≤ size ∧ ¬ n.parent < 0 ∧
        (((heightOf t len (t.length + 1) n.parent : Nat) : Rat) ≤ size ∨
         ((len n.id n.parent : Nat) : Rat) < size - (heightOf t len (t.length + 1) n.id : Nat))) := by
  constructor
  · intro habs
    rcases Navis.ExactPrune.exactRow_cases t len size n with
      ⟨_, e⟩ | ⟨_, _, e⟩ | ⟨h1, h2, h3, _⟩ | ⟨h1, h2, _, h4, _⟩ | ⟨_, _, _, _, e⟩
    · exact absurd (Navis.ExactPrune.mem_exactPrune.mpr ⟨n, hn, e⟩) (habs _)
    · exact absurd (Navis.ExactPrune.mem_exactPrune.mpr ⟨n, hn, e⟩) (habs _)
    · exact ⟨h1, h2, Or.inl h3⟩
    · exact ⟨h1, h2, Or.inr h4⟩
    · exact absurd (Navis.ExactPrune.mem_exactPrune.mpr ⟨n, hn, e⟩) (habs _)
  · rintro ⟨c1, c2, c3⟩ τ hmem
    obtain ⟨m, _, hrow⟩ := Navis.ExactPrune.mem_exactPrune.mp hmem
    obtain ⟨e1, e2⟩ := Navis.ExactPrune.exactRow_fst hrow
    simp only at e1 e2
    rcases Navis.ExactPrune.exactRow_cases t len size m with
      ⟨h1, _⟩ | ⟨_, h2, _⟩ | ⟨_, _, _, e⟩ | ⟨_, _, _, _, e⟩ | ⟨_, _, h3, h4, _⟩
    · rw [← e1] at h1; exact absurd c1 (Rat.not_le.mpr h1)
    · rw [← e2] at h2; exact c2 h2
    · rw [e] at hrow; exact absurd hrow (by simp)
    · rw [e] at hrow; exact absurd hrow (by simp)
    · rw [← e1, ← e2] at h4; rw [← e2] at h3
      rcases c3 with c3 | c3
      · exact absurd c3 (Rat.not_le.mpr h3)
      · exact h4 c3

/-- … and in id form, for tables with unique ids: the *id* of `n` is absent from the result. -/
theorem exact_removed_id (t : Table) (hnd : (ids t).Nodup) (len : Int → Int → Nat) (size : Rat) (n : Node) (hn : n ∈ t) :
    n.id ∉ (exactPrune t len size).map (·.1) ↔
      (((heightOf t len (t.length + 1) n.id : Nat) : Rat) ≤ size ∧ ¬ n.parent < 0 ∧
        (((heightOf t len (t.length + 1) n.parent : Nat) : Rat) ≤ size ∨
         ((len n.id n.parent : Nat) : Rat) < size - (heightOf t len (t.length + 1) n.id : Nat))) := by
  rw [← exact_removed t len size n hn]
  constructor
  · intro h τ hm
    exact h (List.mem_map.mpr ⟨_, hm, rfl⟩)
  · intro h hm
    obtain ⟨r, hr, hid⟩ := List.mem_map.mp hm
    obtain ⟨m, hm', hrow⟩ := Navis.ExactPrune.mem_exactPrune.mp hr
    obtain ⟨e1, e2⟩ := Navis.ExactPrune.exactRow_fst hrow
    have hfm := find?_of_mem hnd hm'
    have hfn := find?_of_mem hnd hn
    rw [← e1, hid, hfn] at hfm
    simp only [Option.some.injEq] at hfm
    subst hfm
    obtain ⟨i, p, τ⟩ := r
    simp only at e1 e2
    subst e1; subst e2
    exact h τ hr

/-- **Height recurrence** in a well-formed forest (at the fuel `exactPrune` uses on both sides): the
height of a node is the maximum over its children `c` of `len c i + height c`, and `0` for a leaf. -/
theorem heightOf_recurrence (t : Table) (hw : WF t) (len : Int → Int → Nat) (i : Int) (hi : i ∈ ids t) :
    heightOf t len (t.length + 1) i =
      ((children t i).map fun c => len c i + heightOf t len (t.length + 1) c).foldl max 0 :=
  Navis.ExactPrune.heightOf_rec hw len hi

/-- … spelled out as a maximum: an upper bound of all children's contributions that is attained (or is
`0` when there is no child). -/
theorem heightOf_is_max (t : Table) (hw : WF t) (len : Int → Int → Nat) (i : Int) (hi : i ∈ ids t) :
    (∀ c ∈ children t i, len c i + heightOf t len (t.length + 1) c ≤ heightOf t len (t.length + 1) i) ∧
    ((children t i = [] ∧ heightOf t len (t.length + 1) i = 0) ∨
     ∃ c ∈ children t i, heightOf t len (t.length + 1) i = len c i + heightOf t len (t.length + 1) c) := by
  rw [heightOf_recurrence t hw len i hi]
  constructor
  · intro c hc
    exact Navis.ExactPrune.le_foldl_max_of_mem 0 (List.mem_map.mpr ⟨c, hc, rfl⟩)
  · cases hch : children t i with
    | nil => exact Or.inl ⟨rfl, rfl⟩
    | cons a l =>
      right
      rcases Navis.ExactPrune.foldl_max_mem (((a :: l).map fun c => len c i + heightOf t len (t.length + 1) c)) 0 with h | h
      · refine ⟨a, by simp, ?_⟩
        have := Navis.ExactPrune.le_foldl_max_of_mem (l := (a :: l).map fun c => len c i + heightOf t len (t.length + 1) c) 0
          (List.mem_map.mpr ⟨a, by simp, rfl⟩)
        omega
      · obtain ⟨c, hc, he⟩ := List.mem_map.mp h
        exact ⟨c, hc, he.symm⟩

theorem heightOf_leaf (t : Table) (len : Int → Int → Nat) (f : Nat) (i : Int) (h : children t i = []) :
    heightOf t len f i = 0 := Navis.ExactPrune.heightOf_leaf t len f i h

/-- **Fuel independence** of the height. -/
theorem heightOf_fuel_independent (t : Table) (hw : WF t) (len : Int → Int → Nat) (i : Int) (hi : i ∈ ids t)
    (f : Nat) (hf : t.length ≤ f) : heightOf t len f i = heightOf t len (t.length + 1) i :=
  Navis.ExactPrune.heightOf_fuel hw len hi f hf

/-- The height grows by at least the edge length along every parent link. -/
theorem height_parent_ge (t : Table) (hw : WF t) (len : Int → Int → Nat) (n : Node) (hn : n ∈ t) (hp : ¬ n.parent < 0) :
    heightOf t len (t.length + 1) n.parent ≥ heightOf t len (t.length + 1) n.id + len n.id n.parent :=
  Navis.ExactPrune.height_child_le hw len hn hp

/-- Untouched nodes are closed under taking parents. -/
theorem exact_untouched_up (t : Table) (hw : WF t) (len : Int → Int → Nat) (size : Rat) (n : Node) (hn : n ∈ t)
    (hp : ¬ n.parent < 0) (h : size < (heightOf t len (t.length + 1) n.id : Nat)) :
    size < (heightOf t len (t.length + 1) n.parent : Nat) := by
  have h2 := Navis.ExactPrune.H_parent_ge' hw len hn hp
  unfold Navis.ExactPrune.H at h2
  grind

/-- **The result is a forest on the kept ids**: the parent named by any output row is itself an output
row, and an untouched one (`τ = 0`, height above `size`). -/
theorem exact_parents_kept (t : Table) (hw : WF t) (len : Int → Int → Nat) (size : Rat) (i p : Int) (τ : Rat)
    (hr : (i, p, τ) ∈ exactPrune t len size) (hp : ¬ p < 0) :
    size < (heightOf t len (t.length + 1) p : Nat) ∧ ∃ q, (p, q, (0 : Rat)) ∈ exactPrune t len size := by
  obtain ⟨n, hn, rfl, rfl, hA, hB⟩ := exact_spec t len size i p τ hr
  have hgt : size < (heightOf t len (t.length + 1) n.parent : Nat) := by
    by_cases h : size < (heightOf t len (t.length + 1) n.id : Nat)
    · exact exact_untouched_up t hw len size n hn hp h
    · rcases hB (Rat.not_lt.mp h) with ⟨h1, _⟩ | ⟨h1, _⟩
      · exact absurd h1 hp
      · exact h1
  refine ⟨hgt, ?_⟩
  obtain ⟨m, hm, hmid⟩ := mem_ids.mp (WF_parent_mem hw hn hp)
  refine ⟨m.parent, Navis.ExactPrune.mem_exactPrune.mpr ⟨m, hm, ?_⟩⟩
  rcases Navis.ExactPrune.exactRow_cases t len size m with
    ⟨_, e⟩ | ⟨h1, _⟩ | ⟨h1, _⟩ | ⟨h1, _⟩ | ⟨h1, _⟩
  · rw [e, hmid]
  all_goals (rw [hmid] at h1; exact absurd h1 (Rat.not_le.mpr hgt))

/-- The output, read as a node table, is a well-formed forest whose ids are a sublist of the input's. -/
theorem exact_forest (t : Table) (hw : WF t) (len : Int → Int → Nat) (size : Rat) :
    WF ((exactPrune t len size).map fun r => ({ id := r.1, parent := r.2.1 } : Node)) ∧
    ((exactPrune t len size).map (·.1)).Sublist (ids t) := by
  have hsub := Navis.ExactPrune.exactPrune_ids_sublist t len size
  refine ⟨?_, hsub⟩
  have hids : ids ((exactPrune t len size).map fun r => ({ id := r.1, parent := r.2.1 } : Node)) =
      (exactPrune t len size).map (·.1) := by
    simp [ids, List.map_map, Function.comp_def]
  obtain ⟨hnd, hpos, rk, hrk⟩ := hw
  refine ⟨hids ▸ hsub.nodup hnd, ?_, rk, ?_⟩
  · intro m hm
    obtain ⟨r, hr, rfl⟩ := List.mem_map.mp hm
    obtain ⟨n, hn, hrow⟩ := Navis.ExactPrune.mem_exactPrune.mp hr
    rw [(Navis.ExactPrune.exactRow_fst hrow).1]; exact hpos n hn
  · intro m hm
    obtain ⟨⟨i, p, τ⟩, hr, rfl⟩ := List.mem_map.mp hm
    by_cases hp : p < 0
    · exact Or.inl hp
    · right
      obtain ⟨_, q, hq⟩ := exact_parents_kept t ⟨hnd, hpos, rk, hrk⟩ len size i p τ hr hp
      obtain ⟨n, hn, rfl, rfl, _⟩ := exact_spec t len size i p τ hr
      refine ⟨?_, ?_⟩
      · rw [hids]; exact List.mem_map.mpr ⟨_, hq, rfl⟩
      · rcases hrk n hn with h | h
        · exact absurd h hp
        · exact h.2

/-! ### Non-vacuity -/
def ex : Table := [⟨1, -1, 0, 0, 0, .root⟩, ⟨2, 1, 3, 0, 0, .branch⟩, ⟨3, 2, 6, 0, 0, .end_⟩, ⟨4, 2, 3, 4, 0, .end_⟩]
example : terminalSegs ex = [[3, 2], [4, 2]] := by decide
example : twigDelete ex (coordLen ex) 3 none = [3] ∧ twigDelete ex (coordLen ex) 2 none = [] := by decide
example : ids (pruneTwigs ex (coordLen ex) 4 none 5) = [1, 2] := by decide
example : ids (pruneAtDepth ex (coordLen ex) 1 6 ) = [1, 2, 3] := by decide
example : (pruneByStrahler ex (.int 1)).map ids = some [1, 2] := by decide

/-- A table on which recursion matters: removing the twigs `3`, `4` turns `2` into a new twig. -/
def ex2 : Table := [⟨1, -1, 0, 0, 0, .root⟩, ⟨2, 1, 0, 0, 0, .branch⟩, ⟨3, 2, 0, 0, 0, .end_⟩,
  ⟨4, 2, 0, 0, 0, .end_⟩, ⟨5, 1, 0, 0, 0, .end_⟩]
def len2 : Int → Int → Nat := fun a _ => if a == 5 then 10 else 1
example : ids (pruneTwigsOnce ex2 len2 1 none) = [1, 2, 5] ∧ ids (pruneTwigs ex2 len2 1 none 1) = [1, 5] ∧
    ids (pruneTwigs ex2 len2 1 none 5) = [1, 5] := by decide
example : twigDelete (pruneTwigsOnce ex2 len2 1 none) len2 1 none = [2] ∧
    twigDelete (pruneTwigs ex2 len2 1 none 5) len2 1 none = [] := by decide
example : wfB (pruneTwigs ex2 len2 1 none 5) = true ∧ labelsOKB (pruneTwigs ex2 len2 1 none 5) = true := by decide
example : ids (pruneTwigs ex2 len2 1 (some [3]) 5) = [1, 2, 4, 5] := by decide
example : twigDelete (pruneTwigs ex (coordLen ex) 4 none 4) (coordLen ex) 4 none = [] := by decide
example : wfB (pruneAtDepth ex (coordLen ex) 3 3) = true ∧ wfB (longestNeurite ex (coordLen ex) 0 1 false) = true := by decide
example : (pruneByStrahler ex (.int 1)).map wfB = some true := by decide
example : siSet 5 (.slice none none) = some [1, 2, 3, 4, 5] ∧ siSet 5 (.slice none (some (-1))) = some [1, 2, 3, 4] ∧
    siSet 5 (.slice (some 1) (some 3)) = some [2, 3] ∧ siSet 5 (.slice (some (-2)) none) = some [4, 5] ∧
    siSet 5 (.slice (some 7) none) = some [] ∧ siSet 5 (.slice (some (-9)) (some 9)) = some [1, 2, 3, 4, 5] ∧
    siSet 5 (.slice (some 3) (some 1)) = some [] := by decide
example : siSet 5 (.range 2 4) = some [2, 3] ∧ siSet 5 (.range (-2) 2) = some [0, 1] ∧
    siSet 5 (.list [1, -1, 3]) = some [1, 3] := by decide
example : ids (pruneAtDepth ex (coordLen ex) 3 0) = [3] ∧ ids (pruneAtDepth ex (coordLen ex) 3 3) = [2, 3] ∧
    ids (pruneAtDepth ex (coordLen ex) 3 7) = [1, 2, 3, 4] := by decide

/-! `prune_twigs(exact=True)` on `ex` (edges `2–1`: 3, `3–2`: 3, `4–2`: 4; heights `7, 4, 0, 0`). -/
example : wfB ex = true ∧ (ids ex).map (heightOf ex (coordLen ex) (ex.length + 1)) = [7, 4, 0, 0] := by decide
/-- `size = 2`: both tips move up their edge, `2/3` and `2/4` of the way. -/
example : exactPrune ex (coordLen ex) 2 = [(1, -1, 0), (2, 1, 0), (3, 2, 2/3), (4, 2, 1/2)] := by decide +kernel
/-- `size = 7/2`: the 3-long twig is too short and disappears, the 4-long one keeps `1/2` of cable. -/
example : exactPrune ex (coordLen ex) (7/2) = [(1, -1, 0), (2, 1, 0), (4, 2, 7/8)] := by decide +kernel
/-- `size = 4 =` height of the fork (tie, `≤`): both twigs go, the fork becomes the tip, unmoved;
`size = 7`: only the root is left (never moved, never removed). -/
example : exactPrune ex (coordLen ex) 4 = [(1, -1, 0), (2, 1, 0)] ∧ exactPrune ex (coordLen ex) 7 = [(1, -1, 0)] ∧
    exactPrune ex (coordLen ex) 100 = [(1, -1, 0)] := by decide +kernel
/-- Zero-length edges (`ex2`: all coordinates equal, lengths from `len2`): `5` keeps `1/10` … -/
example : exactPrune ex2 len2 1 = [(1, -1, 0), (2, 1, 0), (5, 1, 1/10)] := by decide +kernel
/-- … and with a length function that is `0` everywhere every non-root is within `size = 0` of its
tips: only the root survives. -/
example : exactPrune ex2 (fun _ _ => 0) 0 = [(1, -1, 0)] := by decide +kernel


/-! # Second pass: option handling, as-written loops, source facts (`Model/PruneExt.lean`, `Gen/Prune.lean`) -/
open Navis.PruneX

/-! ## 1. The operators, constants and index expressions of the *current* source are what the model hard-wires

`Gen/Prune.lean` is re-extracted from navis on every run.  The theorems below instantiate the parametrised
rules of `Model/PruneExt.lean` with the extracted facts and prove that the result *is* the hand-written
model the other theorems are about; an edit of one of these facts makes the theorem stop checking. -/

/-- The twig rule read off `_prune_twigs_simple`. -/
def genTwigRule : Option TwigRule := do
  let lc ← Cmp.ofName Gen.Prune.twigLenCmp
  let fc ← Cmp.ofName Gen.Prune.twigForkCmp
  pure { lenCmp := lc, forkCmp := fc, forkK := Gen.Prune.twigForkK, leafPos := Gen.Prune.twigLeafPos,
         forkPos := Gen.Prune.twigForkPos, maskPos := Gen.Prune.twigMaskPos, dropTail := Gen.Prune.twigDropTail }

/-- **`prune_twigs` as written selects exactly the model's twigs**: `seg_lengths <= size`, forks are
`n_childs > 1`, `s[0]` is the leaf and the masked end, `s[-1]` the fork, `s[:-1]` is deleted. -/
theorem gen_twig_rule_is_model (t : Table) (len : Int → Int → Nat) (size : Nat) (mask : Option (List Int)) :
    genTwigRule.map (fun r => twigDeleteG r t len size mask) = some (twigDelete t len size mask) := by
  have : genTwigRule = some twigRule0 := by decide
  rw [this, Option.map_some, twigDeleteG_rule0]

/-- … compared with `size` itself, which is also what navis-fastcore receives as threshold, and `size`
went through `map_units`. -/
theorem gen_twig_size :
    Gen.Prune.twigLenRhs = "size" ∧ Gen.Prune.fcThreshold = "size" ∧ Gen.Prune.twigsMapsUnits = true
    ∧ Gen.Prune.fcMaskUsesIsin = true ∧ Gen.Prune.boolMaskIndexesNodeIds = true := by decide

/-- `recursive`: `True` means `inf`; each further round passes `recursive - 1`, the id mask, the same
size, and works in place — i.e. `RecArg.norm` / `RecArg.step` / a constant mask. -/
theorem gen_twig_recursion :
    Gen.Prune.recTrueIsInf = true ∧ Gen.Prune.recDecrement = 1 ∧ Gen.Prune.recMask = "mask_nodes"
    ∧ Gen.Prune.recInplace = "True" ∧ Gen.Prune.recSize = "size" := by decide

/-- `prune_twigs` dispatches on `exact` and forwards every relevant argument; defaults. -/
theorem gen_twig_dispatch :
    Gen.Prune.inexactCallee = "_prune_twigs_simple" ∧ Gen.Prune.exactCallee = "_prune_twigs_precise"
    ∧ (∀ a ∈ ["size=size", "mask=mask", "inplace=inplace", "recursive=recursive"], a ∈ Gen.Prune.inexactArgs)
    ∧ (∀ a ∈ ["size=size", "mask=mask", "inplace=inplace"], a ∈ Gen.Prune.exactArgs)
    ∧ (∀ d ∈ [("exact", "False"), ("mask", "None"), ("inplace", "False"), ("recursive", "False")], d ∈ Gen.Prune.twigsDefaults) := by
  decide

/-- `_prune_twigs_precise`: a node is in range when its **farthest** distal tip is within `size`
(`cutoff=size`, `max`), rows go when their **parent** is in range, the remainder is `size - max_len`, a
tip is dropped when its edge is **shorter** (`<`) than the remainder, otherwise moved from its own
position towards the parent — the ingredients of `exactPrune`; with a mask the distances are measured on the
subgraph of masked nodes (`allBelowMasked` in `exactPruneM`). -/
theorem gen_exact_rule :
    Gen.Prune.exactCutoff = "size" ∧ Gen.Prune.exactWeight = "weight" ∧ Gen.Prune.exactReversed = true
    ∧ Gen.Prune.exactMaskSubgraph = true
    ∧ Gen.Prune.exactKeepColumn = "parent_id" ∧ Gen.Prune.exactAggregate = "max"
    ∧ Gen.Prune.exactRemainderOp = "Sub" ∧ Gen.Prune.exactRemainderLeft = "size" ∧ Gen.Prune.exactRemainderUsesMaxLen = true
    ∧ Cmp.ofName Gen.Prune.exactRemoveCmp = some .lt ∧ Gen.Prune.exactRemoveRhs = "len_to_prune"
    ∧ Gen.Prune.exactMove = [("Sub", "loc1", "loc2"), ("Sub", "loc1", "vec_norm*len_to_prune")]
    ∧ Cmp.ofName Gen.Prune.exactSizeCmp = some .le := by decide

/-- The index rule read off `prune_by_strahler`. -/
def genSIRule : Option SIRule := do
  let nc ← Cmp.ofName Gen.Prune.siNegCmp
  let pc ← Cmp.ofName Gen.Prune.siPosCmp
  if Gen.Prune.siNegRhs = 0 then
    pure { negCmp := nc, negLo := Gen.Prune.siNegLo, negAdd := Gen.Prune.siNegAdd, posCmp := pc, posK := Gen.Prune.siPosK,
           sliceLo := Gen.Prune.siSliceLo, sliceAdd := Gen.Prune.siSliceAdd }
  else none

/-- **The Strahler index arithmetic of the source is the model's**: negative `k` ↦ `range(1, max + (k + 1))`,
`k < 1` raises, slices index `list(range(1, max + 1))`, ranges are turned into lists, rows whose
`strahler_index` is in the list go. -/
theorem gen_si_rule_is_model (mx : Int) (sel : SISelX) :
    genSIRule.map (fun r => siListG r mx sel) = some (siListX mx sel) := by
  have : genSIRule = some siRule0 := by decide
  rw [this]; rfl

theorem gen_si_facts :
    Gen.Prune.siSliceIndexesList = true ∧ Gen.Prune.siRangeToList = true ∧ Gen.Prune.siFilterColumn = "strahler_index"
    ∧ Gen.Prune.orphanParent = -1
    ∧ (∀ d ∈ [("reroot_soma", "True"), ("force_strahler_update", "False"), ("relocate_connectors", "False"), ("inplace", "False")],
        d ∈ Gen.Prune.siDefaults) := by decide

/-- The Strahler column is recomputed iff it is missing or `force_strahler_update` (`siColumn`); the
working copy is rerooted in place to its soma iff `reroot_soma` and there is one (`siTable`). -/
theorem gen_si_guards :
    Gen.Prune.siColumnGuard = ["'strahler_index' not in W.nodes", "force_strahler_update"]
    ∧ Gen.Prune.siRerootGuard = ["not isinstance(W.soma, type(None))", "reroot_soma"]
    ∧ Gen.Prune.siRerootTarget = "W.soma" ∧ Gen.Prune.siRerootInplace = true := by decide

/-- Connector relocation walks the parent map **of the rerooted working copy** (`relocWalk` on `siTable`),
starting at the connector's node's parent, while the node is `>= 0` and not among the survivors; both
branches filter the connector table on surviving node ids (`connAfter`). -/
theorem gen_relocation :
    Gen.Prune.relocKey = "node_id" ∧ Gen.Prune.relocValue = "parent_id"
    ∧ Gen.Prune.relocParentsFromWorkingCopy = true ∧ Gen.Prune.relocParentsAfterReroot = true
    ∧ Gen.Prune.relocStart = "parent_dict[cn.node_id]"
    ∧ Gen.Prune.relocWhile = ["this_tn >= 0", "this_tn not in remaining_tns"]
    ∧ Gen.Prune.relocStep = ["this_tn = parent_dict[this_tn]"] ∧ Gen.Prune.relocAssigns = true
    ∧ Gen.Prune.connFilters = 2 ∧ Gen.Prune.connFilterColumn = "node_id" := by decide

/-- `prune_at_depth`: `depth < 0` raises, the default source is `x.root[0]`, an absent source raises, the
distances are undirected with `limit=depth` from the source, finite entries of row 0 are kept;
`geodesic_matrix` turns entries **strictly above** the limit into `inf` (so `dist == depth` is kept);
`source` is zipped over a NeuronList. -/
theorem gen_depth_rule :
    Cmp.ofName Gen.Prune.depthNegCmp = some .lt ∧ Gen.Prune.depthNegRhs = 0
    ∧ Gen.Prune.depthDefaultSource = "root" ∧ Gen.Prune.depthDefaultSourceIndex = 0 ∧ Gen.Prune.depthAbsentSourceRaises = true
    ∧ Gen.Prune.depthGeoArgs = ["directed=False", "from_=source", "limit=depth"]
    ∧ Cmp.ofName Gen.Prune.depthKeepCmp = some .lt ∧ Gen.Prune.depthKeepRow = "dist.values[0]"
    ∧ Cmp.ofName Gen.Prune.limitCmp = some .gt ∧ Gen.Prune.limitValue = "np.inf" ∧ Gen.Prune.limitForwarded = "limit"
    ∧ Gen.Prune.depthMustZip = ["source"] ∧ Gen.Prune.depthMapsUnits = true := by decide

/-- … so the source's depth test is the model's (`pruneAtDepthX` is stated with the extracted operator). -/
theorem gen_depth_is_model (t : Table) (len : Int → Int → Nat) (src : Option Int) (depth : Rat) :
    (Cmp.ofName Gen.Prune.depthNegCmp).map (fun c => pruneAtDepthX c t len src depth) = some (pruneAtDepthX .lt t len src depth) := by
  have : Cmp.ofName Gen.Prune.depthNegCmp = some .lt := by decide
  rw [this]; rfl

/-- `longest_neurite`: `n < 1` raises, segments are weighted by cable, an int takes `segments[:n]`, a slice
`segments[n]`, `inverse` keeps the complement; `from_root=False` takes the maximum distance among root
and end nodes (rows and columns of the matrix in the same order) with unreachable pairs set to `-1` and
reroots there; defaults. -/
theorem gen_longest_rule :
    Cmp.ofName Gen.Prune.lnBadCmp = some .lt ∧ Gen.Prune.lnBadK = 1 ∧ Gen.Prune.lnSegWeight = "weight"
    ∧ Gen.Prune.lnPicks = [":n:", "n"] ∧ Gen.Prune.lnInverseIsComplement = true ∧ Gen.Prune.lnInverseGuard = true
    ∧ Gen.Prune.lnEndTypes = ["end", "root"] ∧ Gen.Prune.lnUnreachable = -1 ∧ Gen.Prune.lnUsesMax = true
    ∧ Gen.Prune.lnRerootTargets = ["start", "x.soma"] ∧ Gen.Prune.lnDistIndex = ["loc", "leafs", "leafs"]
    ∧ Gen.Prune.lnRerootGuard = ["not isinstance(x.soma, type(None))", "reroot_soma"]
    ∧ (∀ d ∈ [("n", "1"), ("reroot_soma", "False"), ("from_root", "True"), ("inverse", "False"), ("inplace", "False")],
        d ∈ Gen.Prune.lnDefaults) := by decide

theorem gen_longest_is_model (segs : List (List Int)) (n : NArg) :
    (Cmp.ofName Gen.Prune.lnBadCmp).map (fun c => pickSegs c Gen.Prune.lnBadK segs n) = some (pickSegs .lt 1 segs n) := by
  have : Cmp.ofName Gen.Prune.lnBadCmp = some .lt := by decide
  rw [this]; rfl

/-- Every pruning function is mapped over NeuronLists (and accepts MeshNeurons through their skeleton);
none holds the neuron lock. -/
theorem gen_decorators :
    (∀ ds ∈ [Gen.Prune.twigsDecorators, Gen.Prune.siDecorators, Gen.Prune.depthDecorators, Gen.Prune.lnDecorators,
              Gen.Prune.cbfDecorators, Gen.Prune.fluffDecorators], "map_neuronlist" ∈ ds ∧ "lock_neuron" ∉ ds)
    ∧ (∀ ds ∈ [Gen.Prune.twigsDecorators, Gen.Prune.siDecorators, Gen.Prune.depthDecorators, Gen.Prune.lnDecorators],
        "meshneuron_skeleton" ∈ ds) := by decide

/-- **The `TreeNeuron.prune_*` methods call the functions** with `inplace=True` on `self` or a copy, and
forward every parameter they accept (including `recursive` of `TreeNeuron.prune_twigs`, which used to be
dropped — repaired defect `TreeNeuron.prune_twigs/recursive-not-forwarded`). -/
theorem gen_methods_forward :
    Gen.Prune.methods.map (fun m => (m.1, m.2.1)) =
      [("prune_by_strahler", "prune_by_strahler"), ("prune_twigs", "prune_twigs"), ("prune_at_depth", "prune_at_depth"),
       ("prune_by_longest_neurite", "longest_neurite"), ("cell_body_fiber", "cell_body_fiber"), ("prune_by_volume", "in_volume")]
    ∧ (∀ m ∈ Gen.Prune.methods, "inplace=True" ∈ m.2.2.2.2)
    ∧ (∀ m ∈ Gen.Prune.methods, ∀ p ∈ m.2.2.1, p ∈ m.2.2.2.1)
    ∧ (∀ m ∈ Gen.Prune.methods, m.1 = "prune_by_strahler" → "reroot_soma=True" ∈ m.2.2.2.2) := by decide

/-! ## 2. `recursive` -/

/-- **`recursive` as `_prune_twigs_simple` consumes it** (`True` → `inf`; test, decrement, recurse) is:
`False`/`0` one round, `k > 0` at most `k` further rounds, `True` / `inf` / negative `k` as many rounds as it
takes (`|t|` always suffice). -/
theorem prune_twigs_recursive_as_written (t : Table) (len : Int → Int → Nat) (size : Nat) (mask : Option (List Int)) (r : RecArg) :
    pruneTwigsRec t len size mask r = pruneTwigs t len size mask (r.rounds t.length) :=
  pruneTwigsRec_eq t len size mask r

/-- With `recursive=True`, `inf` or a negative count **no** terminal branch of length `≤ size` with its leaf
in the mask is left (the as-written loop reaches the fixpoint). -/
theorem prune_twigs_recursive_fixpoint (t : Table) (len : Int → Int → Nat) (size : Nat) (mask : Option (List Int)) (r : RecArg)
    (hr : r = .bool true ∨ r = .inf ∨ ∃ k, k < 0 ∧ r = .int k) :
    twigDelete (pruneTwigsRec t len size mask r) len size mask = [] := by
  rw [pruneTwigsRec_eq]
  have : r.rounds t.length = t.length := by
    rcases hr with rfl | rfl | ⟨k, hk, rfl⟩
    · rfl
    · rfl
    · simp [RecArg.rounds, hk]
  rw [this]
  exact pruneTwigs_fixpoint t len size mask t.length (Nat.le_refl _)

/-- A boolean mask selects the node ids at its `True` positions (and must be as long as the table). -/
theorem maskIds_bools (t : Table) (b : List Bool) :
    (b.length ≠ t.length → maskIds t (.bools b) = none) ∧
    (b.length = t.length → ∃ l, maskIds t (.bools b) = some (some l) ∧ ∀ i, i ∈ l ↔ (i, true) ∈ (ids t).zip b) := by
  unfold maskIds
  constructor
  · intro h; simp [h]
  · intro h
    refine ⟨((ids t).zip b).filterMap fun p => if p.2 then some p.1 else Option.none, by simp [h], ?_⟩
    intro i
    simp only [List.mem_filterMap]
    constructor
    · rintro ⟨⟨a, c⟩, hp, hq⟩
      cases c <;> simp at hq
      subst hq; exact hp
    · intro hp
      exact ⟨(i, true), hp, by simp⟩

/-! ## 3. `prune_by_strahler` with all its options -/

/-- **Keep-set, Strahler column, connectors**: the result is `subset` of the working table (rerooted to the soma
when asked) by "Strahler value not in the list", where the value is the cached column unless it is missing or
an update is forced; the connector table is `connAfter` on the working table. -/
theorem strahlerX_keep_spec (t : Table) (o : SIOpts) (sel : SISelX) (cn : List (Int × Int)) (r : Table × List (Int × Int))
    (h : pruneByStrahlerX t o sel cn = some r) :
    ∃ l, siListX (((ids (siTable t o)).map (siColumn (siTable t o) o)).foldl max 0) sel = some l ∧
      ids r.1 = (ids (siTable t o)).filter (fun i => !l.contains (siColumn (siTable t o) o i)) ∧
      r.2 = connAfter (siTable t o) (ids r.1) o.relocate cn := by
  obtain ⟨l, h1, h2, h3⟩ := pruneByStrahlerX_eq h
  exact ⟨l, h1, by rw [h2]; exact ids_subset _ _, h3⟩

/-- The result is a well-formed, correctly labelled forest whose ids are a sublist of the (rerooted) working
table's — whatever the options. -/
theorem strahlerX_WF (t : Table) (hw : WF t) (o : SIOpts) (sel : SISelX) (cn : List (Int × Int)) (r : Table × List (Int × Int))
    (h : pruneByStrahlerX t o sel cn = some r) :
    WF r.1 ∧ labelsOKB r.1 = true ∧ (ids r.1).Sublist (ids (siTable t o)) := by
  obtain ⟨l, _, h2, _⟩ := pruneByStrahlerX_eq h
  have hwt : WF (siTable t o) := by
    unfold siTable
    split
    · exact WF_reroot hw _
    · exact hw
  rw [h2]
  refine ⟨WF_subset hwt _, labelsOKB_subset _ _, ?_⟩
  rw [ids_subset]; exact List.filter_sublist

/-- The Strahler value used: the fresh index when there is no column or `force_strahler_update`, the
(possibly stale) column otherwise. -/
theorem siColumn_spec (t : Table) (o : SIOpts) :
    ((o.col = none ∨ o.force = true) → ∀ i, siColumn t o i = (strahler t false [] i : Nat)) ∧
    (∀ c, o.col = some c → o.force = false → ∀ i, siColumn t o i = lookupI c i 1) := by
  unfold siColumn
  constructor
  · rintro (h | h) i
    · rw [h]
    · rw [h]; cases o.col <;> rfl
  · intro c hc hf i
    rw [hc, hf]

/-- The working table: rerooted to the soma iff `reroot_soma` and a soma is set. -/
theorem siTable_spec (t : Table) (o : SIOpts) :
    (∀ s, o.rerootSoma = true → o.soma = some s → siTable t o = reroot t s) ∧
    ((o.rerootSoma = false ∨ o.soma = none) → siTable t o = t) := by
  unfold siTable
  constructor
  · intro s h1 h2; rw [h1, h2]
  · rintro (h | h)
    · rw [h]
    · rw [h]; cases o.rerootSoma <;> rfl

/-- Without options it is the first-pass model (`strahler_keep_spec` etc. apply). -/
theorem strahlerX_plain (t : Table) (sel : SISel) :
    (pruneByStrahlerX t { rerootSoma := false } (.ofSel sel) []).map (·.1) = pruneByStrahler t sel :=
  pruneByStrahlerX_plain t sel

/-- `range(a, b, s)`: `a, a+s, a+2s, …` strictly before `b` (either direction). -/
theorem pyRange_spec (a b s x : Int) :
    (0 < s → (x ∈ pyRange a b s ↔ ∃ k : Nat, x = a + k * s ∧ x < b)) ∧
    (s < 0 → (x ∈ pyRange a b s ↔ ∃ k : Nat, x = a + k * s ∧ b < x)) :=
  ⟨fun h => mem_pyRange_pos h, fun h => mem_pyRange_neg h⟩

/-- **Slices with a step** on `list(range(1, max+1))`: the value `p + 1` is selected iff position `p` is, and
the positions are those of CPython's slice normalisation — for `s > 0`: `lo ≤ p < hi`, `p ≡ lo (mod s)` with
`lo, hi` the clamped bounds; for `s < 0`: `stop < p ≤ start`, `p ≡ start (mod -s)`. -/
theorem siListX_slice_spec (mx : Nat) (a b : Option Int) (s : Int) (v : Int) :
    ∃ l, siListX mx (.slice a b s) = some l ∧
      (v ∈ l ↔ ∃ p ∈ sliceIdx mx a b s, v = (p : Int) + 1) ∧
      (0 < s → ∀ p : Nat, p ∈ sliceIdx mx a b s ↔ p < mx ∧ clampPos mx a 0 ≤ (p : Int) ∧ (p : Int) < clampPos mx b mx ∧
          ((p : Int) - clampPos mx a 0) % s = 0) ∧
      (s < 0 → ∀ p : Nat, p ∈ sliceIdx mx a b s ↔ p < mx ∧ clampNeg mx b (-1) < (p : Int) ∧
          (p : Int) ≤ clampNeg mx a ((mx : Int) - 1) ∧ (clampNeg mx a ((mx : Int) - 1) - (p : Int)) % (-s) = 0) := by
  refine ⟨_, rfl, ?_, fun h p => mem_sliceIdx_pos h p, fun h p => mem_sliceIdx_neg h p⟩
  show v ∈ pySlice (pyRange 1 ((mx : Int) + 1) 1) a b s ↔ _
  rw [mem_pySlice]
  have hlen : (pyRange 1 ((mx : Int) + 1) 1).length = mx := by rw [pyRange_one_length]; omega
  rw [hlen]
  constructor
  · rintro ⟨p, hp, hg⟩
    have hlt := mem_sliceIdx_lt hp
    rw [pyRange_one_get _ _ _ (by omega)] at hg
    exact ⟨p, hp, by simp only [Option.some.injEq] at hg; omega⟩
  · rintro ⟨p, hp, rfl⟩
    have hlt := mem_sliceIdx_lt hp
    exact ⟨p, hp, by rw [pyRange_one_get _ _ _ (by omega)]; congr 1; omega⟩

/-! ## 4. Connectors -/

/-- **Connectors on removed nodes are dropped** (and nothing else happens to the table) when relocation is off. -/
theorem connectors_dropped (t : Table) (kept : List Int) (cn : List (Int × Int)) (c : Int × Int) :
    c ∈ connAfter t kept false cn ↔ c ∈ cn ∧ c.2 ∈ kept :=
  mem_connAfter_drop

theorem connectors_dropped_sublist (t : Table) (kept : List Int) (cn : List (Int × Int)) :
    (connAfter t kept false cn).Sublist cn := by
  unfold connAfter
  simp only [Bool.not_false, if_true]
  exact List.filter_sublist

/-- **…or moved to the nearest surviving ancestor**: with relocation the as-written parent walk puts a
connector of a removed node on the first kept node of its root path; connectors of kept nodes stay; a
connector without a surviving ancestor is dropped. -/
theorem connectors_relocated (t : Table) (hw : WF t) (kept : List Int) (hk : ∀ m ∈ kept, m ∈ ids t)
    (cn : List (Int × Int)) (c : Int × Int) :
    c ∈ connAfter t kept true cn ↔
      ∃ n, (c.1, n) ∈ cn ∧ ((n ∈ kept ∧ c.2 = n) ∨ (n ∉ kept ∧ relocate t kept n = some c.2)) :=
  mem_connAfter_relocate hw hk

/-! ## 5. `prune_at_depth` with its argument forms -/

/-- Errors: negative depth, a source that is not a node, no root to default to. -/
theorem depthX_errors (t : Table) (len : Int → Int → Nat) (src : Option Int) (depth : Rat) :
    (depth < 0 → pruneAtDepthX .lt t len src depth = none) ∧
    (∀ s, src = some s → s ∉ ids t → pruneAtDepthX .lt t len src depth = none) := by
  unfold pruneAtDepthX
  constructor
  · intro h; simp [Cmp.evalRat, h]
  · intro s hs hn
    subst hs
    have : (ids t).contains s = false := by simpa using hn
    simp only [this]
    split <;> simp

/-- A given source with an integer depth is the first-pass model; `source=None` means the first root in
table order; a non-integer depth acts as its floor (distances are integers). -/
theorem depthX_spec (t : Table) (len : Int → Int → Nat) (depth : Rat) (hd : 0 ≤ depth) :
    (∀ s, s ∈ ids t → pruneAtDepthX .lt t len (some s) depth = some (pruneAtDepth t len s depth.floor.toNat)) ∧
    (∀ r rest, roots t = r :: rest → pruneAtDepthX .lt t len none depth = some (pruneAtDepth t len r depth.floor.toNat)) := by
  have hn : ¬ depth < 0 := Rat.not_lt.mpr hd
  unfold pruneAtDepthX
  simp only [Cmp.evalRat, hn, decide_false, Bool.false_eq_true, if_false]
  constructor
  · intro s hs
    have : (ids t).contains s = true := by simpa using hs
    simp only [this, if_true, pruneAtDepthQ_floor t len s depth hd]
  · intro r rest hr
    simp only [hr, pruneAtDepthQ_floor t len r depth hd]

theorem depthX_nat (t : Table) (len : Int → Int → Nat) (s : Int) (hs : s ∈ ids t) (d : Nat) :
    pruneAtDepthX .lt t len (some s) (d : Rat) = some (pruneAtDepth t len s d) := by
  have h0 : (0 : Rat) ≤ (d : Rat) := by exact_mod_cast Nat.zero_le d
  have hn : ¬ (d : Rat) < 0 := Rat.not_lt.mpr h0
  unfold pruneAtDepthX
  have : (ids t).contains s = true := by simpa using hs
  simp only [Cmp.evalRat, hn, decide_false, Bool.false_eq_true, if_false, this, if_true, pruneAtDepthQ_nat]

/-! ## 6. `longest_neurite`: argument forms and the greedy criterion -/

/-- `n ≥ 1` takes the first `n` segments, `n < 1` raises, a slice takes the positions of `sliceIdx`. -/
theorem pickSegs_spec (segs : List (List Int)) :
    (∀ n : Int, 1 ≤ n → pickSegs .lt 1 segs (.int n) = some (segs.take n.toNat)) ∧
    (∀ n : Int, n < 1 → pickSegs .lt 1 segs (.int n) = none) ∧
    (∀ a b s, pickSegs .lt 1 segs (.slice a b s) = some ((sliceIdx segs.length a b s).filterMap fun i => segs[i]?)) := by
  refine ⟨?_, ?_, fun _ _ _ => rfl⟩
  · intro n hn
    have : ¬ n < 1 := by omega
    simp [pickSegs, Cmp.evalInt, this, pySlice_take segs n (by omega)]
  · intro n hn
    simp [pickSegs, Cmp.evalInt, hn]

/-- With the defaults (`from_root=True`, no rerooting) and `n ≥ 1` this is the first-pass model. -/
theorem longestX_default (t : Table) (len : Int → Int → Nat) (n : Int) (hn : 1 ≤ n) (inv : Bool) (start : Int) :
    longestNeuriteX t len {} start (.int n) inv = some (longestNeurite t len 0 n.toNat inv) := by
  unfold longestNeuriteX
  have ht : lnTable t {} start = t := rfl
  simp only [ht]
  rw [(pickSegs_spec (segments t len)).1 n hn]
  simp only [Option.map_some]
  unfold longestFromSegs longestNeurite
  simp

/-- **The greedy criterion** (`Greedy`): for every `k`, segment `k` starts at a tip that the earlier segments do
not cover, is exactly the walk from that tip up to the first covered node (or the root), and no uncovered tip
has a longer such walk — "the longest root-to-tip paths taken greedily".  The checker the driver evaluates on
navis' own segment list decides it. -/
theorem greedy_checker_sound_complete (t : Table) (len : Int → Int → Nat) (segs : List (List Int)) :
    greedyOKB t len segs = true ↔ Greedy t len segs :=
  greedyOKB_iff t len segs

/-- **The segment list of the model *is* greedy**: on every well-formed forest with positive edge lengths,
`segments` (the as-written model of `_generate_segments`: leafs by decreasing root distance, walks to the first
visited node, sorted by length) satisfies the greedy criterion.  (With zero-length edges the sort may put a
segment before the one it hangs on; the property quantifies away from such ties.) -/
theorem segments_are_greedy (t : Table) (hw : WF t) (len : Int → Int → Nat) (hpos : PosLen t len) :
    Greedy t len (segments t len) :=
  segments_greedy hw hpos

/-- **`longest_neurite(n)` keeps precisely the `n` longest root-to-tip paths taken greedily, or their
complement**: for `n ≥ 1` the kept node set is the union (resp. the complement of the union) of a list of at most
`n` segments that is greedy — all segments when there are fewer than `n`. -/
theorem longest_keeps_n_greedy_paths (t : Table) (hw : WF t) (len : Int → Int → Nat) (hpos : PosLen t len)
    (n : Int) (hn : 1 ≤ n) (inv : Bool) (start : Int) :
    ∃ segs r, longestNeuriteX t len {} start (.int n) inv = some r ∧ Greedy t len segs ∧
      segs = (segments t len).take n.toNat ∧
      ids r = (ids t).filter (fun i => if inv then !segs.flatten.contains i else segs.flatten.contains i) := by
  refine ⟨(segments t len).take n.toNat, _, longestX_default t len n hn inv start, (segments_greedy hw hpos).take _, rfl, ?_⟩
  have := longest_keep_spec t len 0 n.toNat inv
  simpa using this

/-- **`drop_fluff` (skeletons)**: what the checker evaluated on navis' kept node set accepts — whole connected
components only, none smaller than `keep_size`; without `n_largest` every component of at least `keep_size` nodes;
with `n_largest` no kept component is smaller than an eligible one that was dropped. -/
theorem drop_fluff_checker_sound (t : Table) (ks : Nat) (nl : Option Nat) (kept : List Int)
    (h : dropFluffOKB t ks nl kept = true) :
    (∀ r ∈ roots t, (∀ i ∈ component t r, i ∈ kept) ∨ (∀ i ∈ component t r, i ∉ kept)) ∧
    (∀ r ∈ roots t, (∀ i ∈ component t r, i ∈ kept) → ks ≤ (component t r).length) ∧
    (nl = none → ∀ r ∈ roots t, ks ≤ (component t r).length → ∀ i ∈ component t r, i ∈ kept) ∧
    (∀ k, nl = some k → ∀ r ∈ roots t, ks ≤ (component t r).length →
        (∀ i ∈ component t r, i ∈ kept) ∨
        ∀ r' ∈ roots t, (∀ i ∈ component t r', i ∈ kept) → (component t r).length ≤ (component t r').length) :=
  dropFluffOKB_sound h

/-! ## 7. `exact=True` with a mask -/

/-- **Refinement of the as-written in-range test**: `_prune_twigs_precise` puts a node "in range" when *every leaf
distal to it* is within `size` of cable (`distal_to` + Dijkstra with `cutoff=size` on the reversed graph,
`not_in_length` empty); in a well-formed forest that is exactly the height test of `exactPrune` — the farthest
distal tip is within `size`. -/
theorem exact_in_range_as_written (t : Table) (hw : WF t) (len : Int → Int → Nat) (size : Rat) (k : Int) (hk : k ∈ ids t) :
    inRangeAW t len size k = decide (((heightOf t len (t.length + 1) k : Nat) : Rat) ≤ size) :=
  inRangeAW_eq_height hw len size hk

/-- Without a mask it is `exactPrune` (all `exact_*` theorems apply). -/
theorem exactM_none (t : Table) (len : Int → Int → Nat) (size : Rat) :
    exactPruneM t len size none = exactPrune t len size := exactPruneM_none t len size

/-- **Only masked cable is touched**: a node with an unmasked node distal to it (or unmasked itself) keeps its row,
unmoved. -/
theorem exactM_unmasked_untouched (t : Table) (len : Int → Int → Nat) (size : Rat) (m : List Int) (n : Node) (hn : n ∈ t)
    (h : allBelowMasked t (some m) n.id = false) : (n.id, n.parent, (0 : Rat)) ∈ exactPruneM t len size (some m) :=
  exactPruneG_inadmissible hn h

/-- **What every output row is** (with a mask): a row of the table; untouched (`τ = 0`) unless everything distal
to it is masked and it is within `size` of its farthest tip — then it is a root (unmoved) or the new tip of the
edge to a parent that is *not* such a node, moved so that (for a positive edge) exactly `size` of cable lies
between it and its farthest original tip. -/
theorem exactM_spec (t : Table) (len : Int → Int → Nat) (size : Rat) (mask : Option (List Int)) (i p : Int) (τ : Rat)
    (hr : (i, p, τ) ∈ exactPruneM t len size mask) :
    ∃ n ∈ t, n.id = i ∧ n.parent = p ∧
      ((¬ (allBelowMasked t mask i = true ∧ ((heightOf t len (t.length + 1) i : Nat) : Rat) ≤ size) ∧ τ = 0) ∨
       (p < 0 ∧ τ = 0) ∨
       (allBelowMasked t mask i = true ∧ ((heightOf t len (t.length + 1) i : Nat) : Rat) ≤ size ∧ ¬ p < 0 ∧
        ¬ (allBelowMasked t mask p = true ∧ ((heightOf t len (t.length + 1) p : Nat) : Rat) ≤ size) ∧
        0 ≤ τ ∧ τ ≤ 1 ∧
        (len i p ≠ 0 → ((heightOf t len (t.length + 1) i : Nat) : Rat) + τ * (len i p : Nat) = size))) := by
  obtain ⟨n, hn, h1, h2, h3⟩ := mem_exactPruneG hr
  simp only at h1 h2
  subst h1; subst h2
  refine ⟨n, hn, rfl, rfl, ?_⟩
  rcases h3 with h | h | ⟨a1, a2, a3, a4, a5, a6⟩
  · exact Or.inl h
  · exact Or.inr (Or.inl h)
  · refine Or.inr (Or.inr ⟨a1, a2, a3, a4, ?_⟩)
    have hL0 : (0 : Rat) ≤ ((len n.id n.parent : Nat) : Rat) := by exact_mod_cast Nat.zero_le _
    obtain ⟨t0, t1, t2⟩ := Navis.ExactPrune.tau_facts a2 hL0 a5
    simp only at a6
    rw [a6]
    refine ⟨t0, t1, fun hne => t2 ?_⟩
    intro h0; exact hne (by exact_mod_cast h0)

/-! ### Non-vacuity (second pass) -/
example : genTwigRule = some twigRule0 ∧ genSIRule = some siRule0 := by decide
example : pruneTwigsRec ex2 len2 1 none (.bool true) = pruneTwigs ex2 len2 1 none 5 ∧
    ids (pruneTwigsRec ex2 len2 1 none (.int 1)) = [1, 5] ∧ ids (pruneTwigsRec ex2 len2 1 none (.int 0)) = [1, 2, 5] ∧
    ids (pruneTwigsRec ex2 len2 1 none (.int (-3))) = [1, 5] := by decide
example : maskIds ex (.bools [true, false, true, false]) = some (some [1, 3]) ∧ maskIds ex (.bools [true]) = none := by decide
example : pyRange 1 6 2 = [1, 3, 5] ∧ pyRange 5 0 (-2) = [5, 3, 1] ∧ pyRange 3 3 1 = [] := by decide
example : siListX 5 (.slice none none (-1)) = some [5, 4, 3, 2, 1] ∧ siListX 5 (.slice none none 2) = some [1, 3, 5] ∧
    siListX 5 (.slice (some (-2)) none 1) = some [4, 5] ∧ siListX 5 (.slice (some 3) (some 0) (-2)) = some [4, 2] ∧
    siListX 5 (.int (-2)) = some [1, 2, 3] ∧ siListX 5 (.int 0) = none := by decide
/-- relocation on `ex` (1 ← 2 ← {3, 4}): pruning Strahler index 1 keeps `[1, 2]`; the connectors of `3` and `4` move to `2`. -/
example : (pruneByStrahlerX ex { relocate := true } (.int 1) [(100, 3), (101, 1), (102, 4)]).map (fun r => (ids r.1, r.2)) =
    some ([1, 2], [(100, 2), (101, 1), (102, 2)]) ∧
    (pruneByStrahlerX ex {} (.int 1) [(100, 3), (101, 1), (102, 4)]).map (·.2) = some [(101, 1)] := by decide
/-- a stale cached column is used unless an update is forced -/
example : (pruneByStrahlerX ex { col := some [(1, 1), (2, 2), (3, 2), (4, 2)] } (.int 1) []).map (fun r => ids r.1) = some [2, 3, 4] ∧
    (pruneByStrahlerX ex { col := some [(1, 1), (2, 2), (3, 2), (4, 2)], force := true } (.int 1) []).map (fun r => ids r.1) = some [1, 2] := by
  decide
/-- rerooting to the soma first changes the Strahler indices (soma `3`: the leaf branch is then `4` and `1`) -/
example : (pruneByStrahlerX ex { soma := some 3 } (.int 1) []).map (fun r => ids r.1) = some [2, 3] := by decide
example : (pruneAtDepthX .lt ex (coordLen ex) none (7/2)).map ids = some [1, 2] ∧
    pruneAtDepthX .lt ex (coordLen ex) (some 9) 3 = none ∧ pruneAtDepthX .lt ex (coordLen ex) (some 1) (-1) = none := by decide +kernel
example : greedyOKB ex (coordLen ex) (segments ex (coordLen ex)) = true ∧
    greedyOKB ex (coordLen ex) [[3, 2], [4, 2, 1]] = false ∧ greedyOKB ex (coordLen ex) [[3, 2, 1], [4, 2]] = false := by decide
/-- masks with `exact=True`: only the masked twig `3` is cut; with `2` and `4` unmasked the fork cannot go -/
example : exactPruneM ex (coordLen ex) 2 (some [3]) = [(1, -1, 0), (2, 1, 0), (3, 2, 2/3), (4, 2, 0)] ∧
    exactPruneM ex (coordLen ex) 5 (some [2, 3]) = [(1, -1, 0), (2, 1, 0), (4, 2, 0)] := by decide +kernel

end Navis.Props.C12
