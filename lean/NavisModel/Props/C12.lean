import NavisModel.Model.Prune
import NavisModel.Proofs.RerootLemmas
/-!
# C12 — pruning keeps exactly the nodes its criterion defines

Every pruning function of the model is `subset t keep` for an explicit keep-predicate, so "kept
nodes' ids, coordinates and mutual parent links are untouched" is C10's `subset` theorem; the
theorems here pin down the keep-sets.
-/
namespace Navis.Props.C12
open Navis.Forest

/-- Kept nodes are untouched: a node of `subset t keep` is a node of `t` with the same id and
coordinates, whose parent link is the original one when the parent is kept and a new root otherwise.
(All pruning functions below are instances.) -/
theorem kept_untouched (t : Table) (hw : WF t) (keep : Int → Bool) (m : Node) (hm : m ∈ subset t keep) :
    ∃ n ∈ t, n.id = m.id ∧ keep n.id = true ∧ m.x = n.x ∧ m.y = n.y ∧ m.z = n.z ∧
      m.parent = (if n.parent ∈ (ids t).filter keep then n.parent else -1) :=
  subset_parent hw.1 keep hm

/-- `prune_twigs`, one round: exactly the nodes of `twigDelete` are removed. -/
theorem prune_twigs_exact_set (t : Table) (len : Int → Int → Nat) (size : Nat) (mask : Option (List Int)) :
    ids (pruneTwigsOnce t len size mask) = (ids t).filter fun i => !(twigDelete t len size mask).contains i := by
  show ids (if (twigDelete t len size mask).isEmpty = true then t
      else subset t fun i => !(twigDelete t len size mask).contains i) = _
  split
  · rename_i h
    have : twigDelete t len size mask = [] := by simpa using h
    simp only [this, List.contains_nil, Bool.not_false]
    exact (List.filter_eq_self.mpr (fun _ _ => rfl)).symm
  · exact ids_subset t _

/-- … and `twigDelete` is: all nodes but the last (the branch point) of every terminal branch whose
length is at most `size` (note `≤`) and whose leaf is in the mask. -/
theorem twigDelete_spec (t : Table) (len : Int → Int → Nat) (size : Nat) (mask : Option (List Int)) (i : Int) :
    i ∈ twigDelete t len size mask ↔
      ∃ s ∈ terminalSegs t, pathLen len s ≤ size ∧
        (match mask, s.head? with
         | some m, some h => m.contains h = true
         | some _, none => False
         | none, _ => True) ∧ i ∈ s.dropLast := by
  unfold twigDelete
  simp only [List.mem_flatMap, List.mem_filter, Bool.and_eq_true, decide_eq_true_eq]
  constructor
  · rintro ⟨s, ⟨hs, hl, hm⟩, hi⟩
    refine ⟨s, hs, hl, ?_, hi⟩
    cases mask with
    | none => simp
    | some m => cases hh : s.head? with
      | none => rw [hh] at hm; simp at hm
      | some h => rw [hh] at hm; simpa using hm
  · rintro ⟨s, hs, hl, hm, hi⟩
    refine ⟨s, ⟨hs, hl, ?_⟩, hi⟩
    cases mask with
    | none => simp
    | some m => cases hh : s.head? with
      | none => rw [hh] at hm; simp at hm
      | some h => rw [hh] at hm; simpa using hm

/-- A terminal branch starts at a leaf and ends at a fork. -/
theorem terminalSegs_spec (t : Table) (s : List Int) (hs : s ∈ terminalSegs t) :
    s ∈ smallSegments t ∧ ∃ h l, s.head? = some h ∧ s.getLast? = some l ∧ childCount t h = 0 ∧ childCount t l ≥ 2 := by
  unfold terminalSegs at hs
  rw [List.mem_filter] at hs
  refine ⟨hs.1, ?_⟩
  cases hh : s.head? with
  | none => rw [hh] at hs; simp at hs
  | some h => cases hl : s.getLast? with
    | none => rw [hh, hl] at hs; simp at hs
    | some l =>
      rw [hh, hl] at hs
      simp only [Bool.and_eq_true, beq_iff_eq, decide_eq_true_eq] at hs
      exact ⟨h, l, rfl, rfl, hs.2.1, hs.2.2⟩

/-- `prune_at_depth` keeps precisely the nodes within geodesic distance `depth` of the source
(`≤`: a node exactly at `depth` is kept). -/
theorem depth_keep_spec (t : Table) (len : Int → Int → Nat) (src : Int) (depth : Nat) :
    ids (pruneAtDepth t len src depth) = (ids t).filter fun i =>
      match geo t len false src i with
      | some d => decide (d ≤ depth)
      | none => false :=
  ids_subset t _

/-- `longest_neurite` keeps precisely the nodes of the selected greedy segments, or their complement. -/
theorem longest_keep_spec (t : Table) (len : Int → Int → Nat) (lo hi : Nat) (inv : Bool) :
    ids (longestNeurite t len lo hi inv) = (ids t).filter fun i =>
      (if inv then !(((segments t len).take hi).drop lo).flatten.contains i
       else (((segments t len).take hi).drop lo).flatten.contains i) := by
  unfold longestNeurite
  cases inv <;> simp [ids_subset]

/-- Index sets of `prune_by_strahler`: a positive int selects that index; a negative int `-k` selects
`1 … max - k + 1 - 1` (i.e. everything but the `k - 1` highest … as `range(1, max + (to_prune + 1))`). -/
theorem siSet_int_pos (mx : Nat) (k : Int) (hk : 1 ≤ k) : siSet mx (.int k) = some [k.toNat] := by
  unfold siSet
  have h1 : ¬ k < 0 := by omega
  have h2 : ¬ k < 1 := by omega
  simp [h1, h2]

theorem siSet_int_neg (mx : Nat) (k : Int) (hk : k < 0) (i : Nat) :
    (∃ s, siSet mx (.int k) = some s ∧ (i ∈ s ↔ 1 ≤ i ∧ (i : Int) < mx + (k + 1))) := by
  unfold siSet
  simp only [hk, if_true]
  refine ⟨_, rfl, ?_⟩
  simp only [List.mem_filter, List.mem_range, decide_eq_true_eq]
  constructor
  · rintro ⟨h1, h2⟩; exact ⟨h2, by omega⟩
  · rintro ⟨h1, h2⟩; exact ⟨by omega, h1⟩

theorem siSet_int_zero_raises (mx : Nat) : siSet mx (.int 0) = none := by
  simp [siSet]

/-- Connector relocation returns the nearest surviving ancestor-or-self. -/
theorem relocate_to_nearest_kept_ancestor (t : Table) (kept : List Int) (node a : Int)
    (h : relocate t kept node = some a) :
    a ∈ kept ∧ a ∈ rootPath t node ∧
    ∃ pre post, rootPath t node = pre ++ a :: post ∧ ∀ b ∈ pre, b ∉ kept := by
  unfold relocate at h
  have h1 := List.find?_some h
  have h2 := List.mem_of_find?_eq_some h
  refine ⟨by simpa using h1, h2, ?_⟩
  obtain ⟨pre, post, hsplit, hpre⟩ := List.find?_eq_some_iff_append.mp h |>.2
  exact ⟨pre, post, hsplit, fun b hb => by simpa using hpre b hb⟩

/-! ### Non-vacuity -/
def ex : Table := [⟨1, -1, 0, 0, 0, .root⟩, ⟨2, 1, 3, 0, 0, .branch⟩, ⟨3, 2, 6, 0, 0, .end_⟩, ⟨4, 2, 3, 4, 0, .end_⟩]
example : terminalSegs ex = [[3, 2], [4, 2]] := by decide
example : twigDelete ex (coordLen ex) 3 none = [3] ∧ twigDelete ex (coordLen ex) 2 none = [] := by decide
example : ids (pruneTwigs ex (coordLen ex) 4 none 5) = [1, 2] := by decide
example : ids (pruneAtDepth ex (coordLen ex) 1 6 ) = [1, 2, 3] := by decide
example : (pruneByStrahler ex (.int 1)).map ids = some [1, 2] := by decide

end Navis.Props.C12
