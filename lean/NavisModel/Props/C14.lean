import NavisModel.Proofs.CodecLemmas
import NavisModel.Gen.IoConsts
/-!
# C14 — precomputed, NRRD, JSON, HDF5 and mesh files decode to what was written

Property theorems only; helper lemmas live in `Proofs/CodecLemmas.lean`.

* `encode…`   : what navis' writers put on disk (model of `_write_skeleton` / `_write_mesh`);
* `decode…`   : an **independent decoder of the published format** (shares no code with the encoders,
                insists on the exact length);
* `navisRead…`: the reader **that exists** (every counted block is read exactly, trailing bytes are ignored;
                since the repair of DESIGN §6 #16 – before, `np.frombuffer(f.read(k))` let short reads pass).

Bytes are `Nat`s with the explicit guard `BytesOK` (`< 256`); float32 values are opaque 32-bit patterns.
All statements are over *all* vertex counts, edge lists, attribute lists, byte strings, file lists.
-/
namespace Navis.Props.C14
open Navis.Codec Navis.Policy

/-! ### words -/

/-- `uint32` little-endian round trip for every `n < 2^32`, whatever follows in the file. -/
theorem u32_round_trip (n : Nat) (rest : List Nat) (h : n < 2 ^ 32) :
    readU32 (u32le n ++ rest) = some (n, rest) :=
  u32_round_trip' n rest h

/-- … and the other way round: four bytes re-encode to themselves (the reader loses nothing). -/
theorem u32_bytes_round_trip (b0 b1 b2 b3 : Nat) (rest : List Nat) (h : BytesOK [b0, b1, b2, b3]) :
    ∃ n, readU32 (b0 :: b1 :: b2 :: b3 :: rest) = some (n, rest) ∧ n < 2 ^ 32 ∧ u32le n = [b0, b1, b2, b3] := by
  refine ⟨fromLE [b0, b1, b2, b3], ?_, ?_, ?_⟩
  · simp [readU32, fromLE]; omega
  · have := fromLE_lt [b0, b1, b2, b3] h; simpa using this
  · exact le_fromLE [b0, b1, b2, b3] h

/-- Items of any width (`uint8`, `uint16`, `float32`, `float64`, … vertex attributes). -/
theorem word_round_trip (s n : Nat) (rest : List Nat) (h : n < 256 ^ s) :
    readWord s (le s n ++ rest) = some (n, rest) ∧ (le s n).length = s ∧ BytesOK (le s n) :=
  ⟨readWord_le s n rest h, le_length s n, le_bytesOK s n⟩

/-! ### precomputed skeletons -/

/-- **Codec round trip.** For every vertex list, every edge list and every list of vertex attributes
(any widths / component counts) that fit their fields, the independent decoder returns exactly what was
encoded. -/
theorem skeleton_codec_round_trip (specs : List AttrSpec) (sk : Skel) (h : sk.OK specs) :
    decodeSkel specs (encodeSkel specs sk) = some sk :=
  decodeSkel_encode specs sk h

/-- The reader that exists returns the same – also when bytes follow (e.g. a `radius` block that the
`info` file does not announce). -/
theorem navis_reader_round_trip (specs : List AttrSpec) (sk : Skel) (h : sk.OK specs)
    (extra : List Nat) : navisReadSkel specs (encodeSkel specs sk ++ extra) = some sk :=
  navisReadSkel_encode specs sk h extra

/-- **Skeleton round trip (table level).** For every writable node table `t` (any ids, any row order,
any forest) and both settings of `radius`: the bytes navis writes decode – with the independent decoder
*and* with navis' own reader – to the same coordinates and radii, and the parent column read back is
`relabelByRow t`: row `i` gets node id `i`, a root stays `-1`, and a child's parent becomes the *row index*
of its parent. -/
theorem skeleton_round_trip (t : List Row) (radius : Bool) (h : Writable t) :
    ∃ sk, decodeSkel (specsFor radius) (encodeSkel (specsFor radius) (toSkel t radius)) = some sk ∧
      navisReadSkel (specsFor radius) (encodeSkel (specsFor radius) (toSkel t radius)) = some sk ∧
      sk.verts = t.map (·.xyz) ∧
      sk.attrs = (if radius then [t.map (·.radius)] else []) ∧
      readParents sk = relabelByRow t := by
  have hok := toSkel_ok t radius h
  refine ⟨toSkel t radius, decodeSkel_encode _ _ hok, ?_, rfl, rfl, readParents_toSkel t radius h.table⟩
  have := navisReadSkel_encode _ _ hok []
  simpa using this

/-- The relation, spelled out per row: the parent read back for row `i` is `-1` for a root and otherwise
the position of the parent's id in the id column. -/
theorem skeleton_round_trip_row (t : List Row) (radius : Bool) (h : Writable t) (i : Nat) (hi : i < t.length) :
    (readParents (toSkel t radius))[i]? =
      some (if t[i].parent < 0 then -1 else (((ids t).idxOf t[i].parent : Nat) : Int)) := by
  rw [readParents_toSkel t radius h.table]
  simp [relabelByRow, relabelParent, hi]

/-- **The decoder is a partial inverse of the encoder**: it accepts exactly the encoder's image – whatever
it returns re-encodes to the very bytes it was given (nothing is ignored, nothing is invented). -/
theorem decoder_is_inverse (specs : List AttrSpec) (bs : List Nat) (sk : Skel) (hb : BytesOK bs)
    (h : decodeSkel specs bs = some sk) : encodeSkel specs sk = bs ∧ sk.OK specs :=
  ⟨encodeSkel_decode hb h, decodeSkel_ok hb h⟩

/-- **Length mismatch ⇒ rejected.** Any byte string whose length differs from what its own header
announces (`8 + 12 n + 8 e +` attribute bytes) is rejected by the decoder. -/
theorem decode_rejects_short (specs : List AttrSpec) (bs r1 r2 : List Nat) (n e : Nat)
    (h1 : readU32 bs = some (n, r1)) (h2 : readU32 r1 = some (e, r2))
    (hlen : bs.length ≠ skelLen specs n e) : decodeSkel specs bs = none :=
  decodeSkel_rejects_length specs bs r1 r2 n e h1 h2 hlen

/-- … in particular **every truncation** of a well-formed skeleton file, at any byte offset. -/
theorem decode_rejects_truncated (specs : List AttrSpec) (sk : Skel) (h : sk.OK specs) (k : Nat)
    (hk : k < (encodeSkel specs sk).length) : decodeSkel specs ((encodeSkel specs sk).take k) = none :=
  decodeSkel_truncated specs sk h k hk

/-- navis' reader agrees with the independent decoder on every file the decoder accepts. -/
theorem navis_reader_agrees (specs : List AttrSpec) (bs : List Nat) (sk : Skel)
    (hb : BytesOK bs) (h : decodeSkel specs bs = some sk) : navisReadSkel specs bs = some sk :=
  navisReadSkel_of_decode hb h

/-- … and it accepts nothing else: whatever it returns re-encodes to a prefix of the file, i.e. the reader
accepts exactly the well-formed files, possibly followed by bytes it ignores. -/
theorem navis_reader_accepts_only_wellformed (specs : List AttrSpec) (bs : List Nat) (sk : Skel) (hb : BytesOK bs)
    (h : navisReadSkel specs bs = some sk) : ∃ extra, bs = encodeSkel specs sk ++ extra :=
  navisReadSkel_inv hb h

/-- **navis' reader rejects every truncation** of a well-formed skeleton file, at any byte offset (full
statement; provable since the repair of DESIGN §6 #16: every counted block is read with `_read_exactly`). -/
theorem navis_reader_rejects_truncated (specs : List AttrSpec) (sk : Skel) (h : sk.OK specs) (k : Nat)
    (hk : k < (encodeSkel specs sk).length) : navisReadSkel specs ((encodeSkel specs sk).take k) = none :=
  navisReadSkel_truncated specs sk h k hk

/-- Historical witness of #16 (the un-repaired reader accepted it as a one-vertex skeleton): a 4-vertex /
3-edge file (80 bytes) cut after the first vertex (20 bytes) is now rejected by both decoders. -/
def cutExample : Skel :=
  ⟨[(1065353216, 1073741824, 1077936128), (0, 0, 0), (1, 1, 1), (2, 2, 2)], [(0, 1), (1, 2), (0, 3)], []⟩
example : (encodeSkel [] cutExample).length = 80 := by decide
example : navisReadSkel [] ((encodeSkel [] cutExample).take 20) = none := by decide
example : decodeSkel [] ((encodeSkel [] cutExample).take 20) = none := by decide

/-! ### precomputed meshes -/

/-- **Mesh round trip** through the independent decoder and through navis' reader, for all vertex and
face lists. -/
theorem mesh_round_trip (m : Mesh) (h : m.OK) :
    decodeMesh (encodeMesh m) = some m ∧ navisReadMesh (encodeMesh m) = some m :=
  ⟨decodeMesh_encode m h, navisReadMesh_encode m h⟩

/-- The mesh decoder rejects every file whose vertex block is incomplete or whose remainder is not a
whole number of triangles (the legacy format stores no face count). -/
theorem mesh_decode_rejects_short (bs r1 : List Nat) (n : Nat) (h1 : readU32 bs = some (n, r1))
    (hbad : bs.length < 4 + 12 * n ∨ (bs.length - 4 - 12 * n) % 12 ≠ 0) : decodeMesh bs = none :=
  decodeMesh_rejects bs r1 n h1 hbad

/-- Every truncation inside the vertex block or off a triangle boundary is rejected – by the independent
decoder and (since the repair of the vertex-block read) by navis' reader. A cut at a triangle boundary
behind the vertex block is a well-formed file with fewer faces (the format has no face count). -/
theorem mesh_decode_rejects_truncated (m : Mesh) (h : m.OK) (k : Nat) (hk : k < (encodeMesh m).length)
    (hmis : k < 4 + 12 * m.verts.length ∨ (k - 4) % 12 ≠ 0) :
    decodeMesh ((encodeMesh m).take k) = none ∧ navisReadMesh ((encodeMesh m).take k) = none :=
  ⟨decodeMesh_truncated_misaligned m h k hk hmis, navisReadMesh_truncated m h k hk hmis⟩

/-! ### the `errors` policy and batch reads -/

/-- **Isolation.** With `errors = 'log'` or `'ignore'` a batch read returns `files.filterMap read`, in
order: one neuron per readable file … -/
theorem policy_isolation {φ α} (e : Errors) (he : e ≠ .raise) (read : φ → Option α) (fs : List φ) :
    readBatch e read fs = some (fs.filterMap read) :=
  readBatch_nonraise e he read fs

/-- … so a corrupt file removes only itself, wherever it sits in the batch. -/
theorem corrupt_file_removes_only_itself {φ α} (e : Errors) (he : e ≠ .raise) (read : φ → Option α)
    (before after : List φ) (bad : φ) (hbad : read bad = none) :
    readBatch e read (before ++ bad :: after) = readBatch e read (before ++ after) := by
  rw [policy_isolation e he, policy_isolation e he]
  simp [List.filterMap_append, hbad]

/-- With `errors = 'raise'` the call raises **iff** some file fails; otherwise all files are returned. -/
theorem policy_raise {φ α} (read : φ → Option α) (fs : List φ) :
    (readBatch .raise read fs = none ↔ ∃ f ∈ fs, read f = none) ∧
    ((∀ f ∈ fs, (read f).isSome) → readBatch .raise read fs = some (fs.filterMap read)) := by
  rw [readBatch_raise]
  constructor
  · constructor
    · intro h
      split at h
      · simp at h
      · rename_i hall
        rw [Bool.not_eq_true, List.all_eq_false] at hall
        obtain ⟨f, hf, hn⟩ := hall
        exact ⟨f, hf, by simpa using hn⟩
    · rintro ⟨f, hf, hn⟩
      rw [if_neg]
      rw [Bool.not_eq_true, List.all_eq_false]
      exact ⟨f, hf, by simp [hn]⟩
  · intro h
    rw [if_pos]
    simpa [List.all_eq_true] using h

/-- Zip archives (second `try` around every member) and parallel reads (ordered `imap` over any chunking)
give the same result as the plain loop, for every policy. -/
theorem containers_agree {φ α} (e : Errors) (read : φ → Option α) (fs : List φ) (chunks : List (List φ))
    (hc : chunks.flatten = fs) :
    readZip e read fs = readBatch e read fs ∧ (readChunks e read chunks).map formatOutput = readBatch e read fs := by
  subst hc
  exact ⟨by simp [readZip, readBatch, readZipAll_eq], by simp [readBatch, readChunks_eq]⟩

/-- The decision table as a whole: an exception leaves the decorated reader only under `raise`. -/
theorem policy_table_complete (e : Errors) :
    (∀ {α} (r : Option α), wrapped e r = none ↔ (r = none ∧ e = .raise)) := by
  intro α r
  cases r <;> cases e <;> simp [wrapped, onError]

/-! ### NRRD header: units -/

/-- Voxel grids: the per-axis voxel size and the unit written to the header are read back unchanged
(also anisotropic). -/
theorem nrrd_voxel_units_round_trip (m : V3) (u : String) :
    nrrdReadVoxelUnits (nrrdWriteUnits m u) = (m, u) := rfl

/-- Dotprops (2-D point data): the unit magnitude written to the header is read back too (full statement;
holds since the repair of DESIGN §6 #18 – before, the reader reset the magnitude to 1). -/
theorem nrrd_dotprops_units_round_trip (m : V3) (u : String) :
    nrrdReadDotpropsUnits (nrrdWriteUnits m u) = (m, u) := rfl

example : nrrdReadDotpropsUnits (nrrdWriteUnits (8, 8, 8) "nanometer") = ((8, 8, 8), "nanometer") := by decide

/-! ### the source says what the model implements (translator tie) -/

open Navis.Gen in
/-- `handle_errors` in the current source implements the modelled decision table, catches everything,
`format_output` filters `None`, the zip loop swallows only under `ignore`, parallel reads are ordered. -/
theorem gen_policy_matches_model :
    IoConsts.policyTable = Policy.table ∧
    (∀ p ∈ IoConsts.policyTable, ∃ e, Errors.ofString? p.1 = some e ∧ (onError e).toString = p.2) ∧
    IoConsts.policyCatches = "BaseException" ∧
    IoConsts.baseFormatOutputFilters = true ∧ IoConsts.nrrdFormatOutputFilters = true ∧
    IoConsts.meshFormatOutputFilters = true ∧ IoConsts.policyAttrsNoneSafe = true ∧
    IoConsts.zipSwallows = ["ignore"] ∧ IoConsts.parallelMap = "imap" := by
  refine ⟨by decide, ?_, by decide, by decide, by decide, by decide, by decide, by decide, by decide⟩
  decide

open Navis.Gen in
/-- `_write_skeleton` / `PrecomputedSkeletonReader` in the current source use the field order, dtypes
(4-byte items), header format and edge columns that `encodeSkel`, `writeEdges`, `navisReadSkel` and
`parentOf` implement. -/
theorem gen_skeleton_layout_matches_model :
    IoConsts.skelWriterOrder = Layout.skelWriterOrder ∧ IoConsts.skelHeaderFmt = Layout.skelHeaderFmt ∧
    IoConsts.skelWriterDtypes = Layout.skelWriterDtypes ∧
    (∀ p ∈ IoConsts.skelWriterDtypes, Layout.dtypeSize p.2 = some 4) ∧
    IoConsts.skelEdgeColumns = Layout.skelEdgeColumns ∧
    IoConsts.skelReaderFields = Layout.skelReaderFields ∧
    IoConsts.skelReaderExact = Layout.skelReaderExact ∧ IoConsts.skelAttrReadExact = Layout.skelAttrReadExact ∧
    IoConsts.skelEdgesCastAfterMapping = Layout.skelEdgesCastAfterMapping ∧
    IoConsts.edgeDictKeyCol = Layout.edgeDictKeyCol ∧ IoConsts.edgeDictValCol = Layout.edgeDictValCol ∧
    IoConsts.edgeDictDefault = Layout.edgeDictDefault ∧
    IoConsts.radiusAttr = Layout.radiusAttr ∧
    Layout.radiusAttr = (radiusSpec.id, "float32", radiusSpec.comps) ∧ Layout.dtypeSize "float32" = some radiusSpec.size := by
  refine ⟨by decide, by decide, by decide, by decide, by decide, by decide, by decide, by decide, by decide,
    by decide, by decide, by decide, by decide, by decide, by decide⟩

open Navis.Gen in
theorem gen_mesh_layout_matches_model :
    IoConsts.meshWriterOrder = Layout.meshWriterOrder ∧ IoConsts.meshWriterDtypes = Layout.meshWriterDtypes ∧
    IoConsts.meshReaderFields = Layout.meshReaderFields ∧ IoConsts.meshReaderExact = Layout.meshReaderExact ∧
    IoConsts.infoTypesWritten = Layout.infoTypes ∧ IoConsts.infoTypesRead = Layout.infoTypes ∧
    IoConsts.infoTransformDtype = "float" ∧ IoConsts.infoTransformPerAxis = true := by
  refine ⟨by decide, by decide, by decide, by decide, by decide, by decide, by decide, by decide⟩

open Navis.Gen in
theorem gen_nrrd_header_matches_model :
    IoConsts.nrrdHeaderWritten = Layout.nrrdHeaderWritten ∧ IoConsts.nrrdHeaderRead = Layout.nrrdHeaderRead ∧
    IoConsts.nrrdKCastToInt = true ∧ IoConsts.nrrdDotpropsUnitsFromHeader = true := by
  refine ⟨by decide, by decide, by decide, by decide⟩

open Navis.Gen in
/-- HDF5 (no Lean model, harness only): the NeuronList recursion forwards `serialized`/`raw`, annotation groups are
recognised as `h5py.Group`. -/
theorem gen_h5_facts :
    IoConsts.h5ListForwards = ["raw", "serialized"] ∧ IoConsts.h5AnnotationGroupClass = "h5py.Group" := by
  refine ⟨by decide, by decide⟩

/-! ### non-vacuity: concrete inputs meeting the hypotheses -/

/-- ids not in row order, not contiguous, child before parent, two roots. -/
def demo : List Row :=
  [⟨10, -1, (0, 0, 0), 1008981770⟩, ⟨5, 10, (1065353216, 1056964608, 0), 1017370378⟩,
   ⟨7, 5, (1073741824, 0, 0), 1022739087⟩, ⟨3, 10, (1077936128, 0, 1048576000), 1025758986⟩,
   ⟨0, -1, (3212836864, 0, 0), 0⟩, ⟨2, 0, (0, 0, 3212836864), 5⟩]

example : Writable demo :=
  ⟨⟨by decide, by decide⟩, by decide, by simp [demo], by simp [demo]⟩
example : relabelByRow demo = [-1, 0, 1, 0, -1, 4] := by decide
example : writeEdges demo = [(0, 1), (1, 2), (0, 3), (4, 5)] := by decide
example : Skel.OK [⟨"radius", 4, 1⟩, ⟨"label", 1, 1⟩, ⟨"dir", 2, 3⟩]
    ⟨[(1, 2, 3), (4, 5, 6)], [(0, 1)], [[7, 8], [255, 0], [1, 2, 3, 65535, 5, 6]]⟩ :=
  ⟨by decide, by decide, by simp [flat3], by simp [flat2], by simp [AttrsOK]⟩
example : Mesh.OK ⟨[(0, 0, 0), (1065353216, 0, 0), (0, 1065353216, 0)], [(0, 1, 2)]⟩ :=
  ⟨by decide, by decide, by decide⟩
example : BytesOK [4, 0, 0, 0] := by intro b hb; simp at hb; omega
/-- policy: a concrete batch with a corrupt middle file -/
example : readBatch .log (fun n : Nat => if n % 2 = 0 then some n else none) [2, 3, 4] = some [2, 4] := by decide
example : readBatch .raise (fun n : Nat => if n % 2 = 0 then some n else none) [2, 3, 4] = none := by decide
example : readBatch .raise (fun n : Nat => if n % 2 = 0 then some n else none) [2, 4] = some [2, 4] := by decide

end Navis.Props.C14
