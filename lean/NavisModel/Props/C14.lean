import NavisModel.Proofs.CodecLemmas
import NavisModel.Gen.IoConsts
import NavisModel.Proofs.IoMetaLemmas
import NavisModel.Gen.IoReaders
/-!
# C14 — precomputed, NRRD, JSON, HDF5 and mesh files decode to what was written

Property theorems only; helper lemmas live in `Proofs/CodecLemmas.lean`.

* `encode…`   : what navis' writers put on disk (model of `_write_skeleton` / `_write_mesh`);
* `decode…`   : an **independent decoder of the published format** (shares no code with the encoders,
                insists on the exact length);
* `navisRead…`: the reader **that exists** (every counted block is read exactly, trailing bytes are ignored;
                since the repair of DESIGN §6 #16 – before, `np.frombuffer(f.read(k))` let short reads pass).

Bytes are `Nat`s with the explicit guard `BytesOK` (`< 256`); float32 values are opaque 32-bit patterns.
All statements are over *all* vertex counts, edge lists, attribute lists, byte strings, file lists.
-/
namespace Navis.Props.C14
open Navis.Codec Navis.Policy

/-! ### words -/

/-- `uint32` little-endian round trip for every `n < 2^32`, whatever follows in the file. -/
theorem u32_round_trip (n : Nat) (rest : List Nat) (h : n < 2 ^ 32) :
    readU32 (u32le n ++ rest) = some (n, rest) :=
  u32_round_trip' n rest h

/-- … and the other way round: four bytes re-encode to themselves (the reader loses nothing). -/
theorem u32_bytes_round_trip (b0 b1 b2 b3 : Nat) (rest : List Nat) (h : BytesOK [b0, b1, b2, b3]) :
    ∃ n, readU32 (b0 :: b1 :: b2 :: b3 :: rest) = some (n, rest) ∧ n < 2 ^ 32 ∧ u32le n = [b0, b1, b2, b3] := by
  refine ⟨fromLE [b0, b1, b2, b3], ?_, ?_, ?_⟩
  · simp [readU32, fromLE]; omega
  · have := fromLE_lt [b0, b1, b2, b3] h; simpa using this
  · exact le_fromLE [b0, b1, b2, b3] h

/-- Items of any width (`uint8`, `uint16`, `float32`, `float64`, … vertex attributes). -/
theorem word_round_trip (s n : Nat) (rest : List Nat) (h : n < 256 ^ s) :
    readWord s (le s n ++ rest) = some (n, rest) ∧ (le s n).length = s ∧ BytesOK (le s n) :=
  ⟨readWord_le s n rest h, le_length s n, le_bytesOK s n⟩

/-! ### precomputed skeletons -/

/-- **Codec round trip.** For every vertex list, every edge list and every list of vertex attributes
(any widths / component counts) that fit their fields, the independent decoder returns exactly what was
encoded. -/
theorem skeleton_codec_round_trip (specs : List AttrSpec) (sk : Skel) (h : sk.OK specs) :
    decodeSkel specs (encodeSkel specs sk) = some sk :=
  decodeSkel_encode specs sk h

/-- The reader that exists returns the same – also when bytes follow (e.g. a `radius` block that the
`info` file does not announce). -/
theorem navis_reader_round_trip (specs : List AttrSpec) (sk : Skel) (h : sk.OK specs)
    (extra : List Nat) : navisReadSkel specs (encodeSkel specs sk ++ extra) = some sk :=
  navisReadSkel_encode specs sk h extra

/-- **Skeleton round trip (table level).** For every writable node table `t` (any ids, any row order,
any forest) and both settings of `radius`: the bytes navis writes decode – with the independent decoder
*and* with navis' own reader – to the same coordinates and radii, and the parent column read back is
`relabelByRow t`: row `i` gets node id `i`, a root stays `-1`, and a child's parent becomes the *row index*
of its parent. -/
theorem skeleton_round_trip (t : List Row) (radius : Bool) (h : Writable t) :
    ∃ sk, decodeSkel (specsFor radius) (encodeSkel (specsFor radius) (toSkel t radius)) = some sk ∧
      navisReadSkel (specsFor radius) (encodeSkel (specsFor radius) (toSkel t radius)) = some sk ∧
      sk.verts = t.map (·.xyz) ∧
      sk.attrs = (if radius then [t.map (·.radius)] else []) ∧
      readParents sk = relabelByRow t := by
  have hok := toSkel_ok t radius h
  refine ⟨toSkel t radius, decodeSkel_encode _ _ hok, ?_, rfl, rfl, readParents_toSkel t radius h.table⟩
  have := navisReadSkel_encode _ _ hok []
  simpa using this

/-- The relation, spelled out per row: the parent read back for row `i` is `-1` for a root and otherwise
the position of the parent's id in the id column. -/
theorem skeleton_round_trip_row (t : List Row) (radius : Bool) (h : Writable t) (i : Nat) (hi : i < t.length) :
    (readParents (toSkel t radius))[i]? =
      some (if t[i].parent < 0 then -1 else (((ids t).idxOf t[i].parent : Nat) : Int)) := by
  rw [readParents_toSkel t radius h.table]
  simp [relabelByRow, relabelParent, hi]

/-- **The decoder is a partial inverse of the encoder**: it accepts exactly the encoder's image – whatever
it returns re-encodes to the very bytes it was given (nothing is ignored, nothing is invented). -/
theorem decoder_is_inverse (specs : List AttrSpec) (bs : List Nat) (sk : Skel) (hb : BytesOK bs)
    (h : decodeSkel specs bs = some sk) : encodeSkel specs sk = bs ∧ sk.OK specs :=
  ⟨encodeSkel_decode hb h, decodeSkel_ok hb h⟩

/-- **Length mismatch ⇒ rejected.** Any byte string whose length differs from what its own header
announces (`8 + 12 n + 8 e +` attribute bytes) is rejected by the decoder. -/
theorem decode_rejects_short (specs : List AttrSpec) (bs r1 r2 : List Nat) (n e : Nat)
    (h1 : readU32 bs = some (n, r1)) (h2 : readU32 r1 = some (e, r2))
    (hlen : bs.length ≠ skelLen specs n e) : decodeSkel specs bs = none :=
  decodeSkel_rejects_length specs bs r1 r2 n e h1 h2 hlen

/-- … in particular **every truncation** of a well-formed skeleton file, at any byte offset. -/
theorem decode_rejects_truncated (specs : List AttrSpec) (sk : Skel) (h : sk.OK specs) (k : Nat)
    (hk : k < (encodeSkel specs sk).length) : decodeSkel specs ((encodeSkel specs sk).take k) = none :=
  decodeSkel_truncated specs sk h k hk

/-- navis' reader agrees with the independent decoder on every file the decoder accepts. -/
theorem navis_reader_agrees (specs : List AttrSpec) (bs : List Nat) (sk : Skel)
    (hb : BytesOK bs) (h : decodeSkel specs bs = some sk) : navisReadSkel specs bs = some sk :=
  navisReadSkel_of_decode hb h

/-- … and it accepts nothing else: whatever it returns re-encodes to a prefix of the file, i.e. the reader
accepts exactly the well-formed files, possibly followed by bytes it ignores. -/
theorem navis_reader_accepts_only_wellformed (specs : List AttrSpec) (bs : List Nat) (sk : Skel) (hb : BytesOK bs)
    (h : navisReadSkel specs bs = some sk) : ∃ extra, bs = encodeSkel specs sk ++ extra :=
  navisReadSkel_inv hb h

/-- **navis' reader rejects every truncation** of a well-formed skeleton file, at any byte offset (full
statement; provable since the repair of DESIGN §6 #16: every counted block is read with `_read_exactly`). -/
theorem navis_reader_rejects_truncated (specs : List AttrSpec) (sk : Skel) (h : sk.OK specs) (k : Nat)
    (hk : k < (encodeSkel specs sk).length) : navisReadSkel specs ((encodeSkel specs sk).take k) = none :=
  navisReadSkel_truncated specs sk h k hk

/-- Historical witness of #16 (the un-repaired reader accepted it as a one-vertex skeleton): a 4-vertex /
3-edge file (80 bytes) cut after the first vertex (20 bytes) is now rejected by both decoders. -/
def cutExample : Skel :=
  ⟨[(1065353216, 1073741824, 1077936128), (0, 0, 0), (1, 1, 1), (2, 2, 2)], [(0, 1), (1, 2), (0, 3)], []⟩
example : (encodeSkel [] cutExample).length = 80 := by decide
example : navisReadSkel [] ((encodeSkel [] cutExample).take 20) = none := by decide
example : decodeSkel [] ((encodeSkel [] cutExample).take 20) = none := by decide

/-! ### precomputed meshes -/

/-- **Mesh round trip** through the independent decoder and through navis' reader, for all vertex and
face lists. -/
theorem mesh_round_trip (m : Mesh) (h : m.OK) :
    decodeMesh (encodeMesh m) = some m ∧ navisReadMesh (encodeMesh m) = some m :=
  ⟨decodeMesh_encode m h, navisReadMesh_encode m h⟩

/-- The mesh decoder rejects every file whose vertex block is incomplete or whose remainder is not a
whole number of triangles (the legacy format stores no face count). -/
theorem mesh_decode_rejects_short (bs r1 : List Nat) (n : Nat) (h1 : readU32 bs = some (n, r1))
    (hbad : bs.length < 4 + 12 * n ∨ (bs.length - 4 - 12 * n) % 12 ≠ 0) : decodeMesh bs = none :=
  decodeMesh_rejects bs r1 n h1 hbad

/-- Every truncation inside the vertex block or off a triangle boundary is rejected – by the independent
decoder and (since the repair of the vertex-block read) by navis' reader. A cut at a triangle boundary
behind the vertex block is a well-formed file with fewer faces (the format has no face count). -/
theorem mesh_decode_rejects_truncated (m : Mesh) (h : m.OK) (k : Nat) (hk : k < (encodeMesh m).length)
    (hmis : k < 4 + 12 * m.verts.length ∨ (k - 4) % 12 ≠ 0) :
    decodeMesh ((encodeMesh m).take k) = none ∧ navisReadMesh ((encodeMesh m).take k) = none :=
  ⟨decodeMesh_truncated_misaligned m h k hk hmis, navisReadMesh_truncated m h k hk hmis⟩

/-! ### the `errors` policy and batch reads -/

/-- **Isolation.** With `errors = 'log'` or `'ignore'` a batch read returns `files.filterMap read`, in
order: one neuron per readable file … -/
theorem policy_isolation {φ α} (e : Errors) (he : e ≠ .raise) (read : φ → Option α) (fs : List φ) :
    readBatch e read fs = some (fs.filterMap read) :=
  readBatch_nonraise e he read fs

/-- … so a corrupt file removes only itself, wherever it sits in the batch. -/
theorem corrupt_file_removes_only_itself {φ α} (e : Errors) (he : e ≠ .raise) (read : φ → Option α)
    (before after : List φ) (bad : φ) (hbad : read bad = none) :
    readBatch e read (before ++ bad :: after) = readBatch e read (before ++ after) := by
  rw [policy_isolation e he, policy_isolation e he]
  simp [List.filterMap_append, hbad]

/-- With `errors = 'raise'` the call raises **iff** some file fails; otherwise all files are returned. -/
theorem policy_raise {φ α} (read : φ → Option α) (fs : List φ) :
    (readBatch .raise read fs = none ↔ ∃ f ∈ fs, read f = none) ∧
    ((∀ f ∈ fs, (read f).isSome) → readBatch .raise read fs = some (fs.filterMap read)) := by
  rw [readBatch_raise]
  constructor
  · constructor
    · intro h
      split at h
      · simp at h
      · rename_i hall
        rw [Bool.not_eq_true, List.all_eq_false] at hall
        obtain ⟨f, hf, hn⟩ := hall
        exact ⟨f, hf, by simpa using hn⟩
    · rintro ⟨f, hf, hn⟩
      rw [if_neg]
      rw [Bool.not_eq_true, List.all_eq_false]
      exact ⟨f, hf, by simp [hn]⟩
  · intro h
    rw [if_pos]
    simpa [List.all_eq_true] using h

/-- Zip archives (second `try` around every member) and parallel reads (ordered `imap` over any chunking)
give the same result as the plain loop, for every policy. -/
theorem containers_agree {φ α} (e : Errors) (read : φ → Option α) (fs : List φ) (chunks : List (List φ))
    (hc : chunks.flatten = fs) :
    readZip e read fs = readBatch e read fs ∧ (readChunks e read chunks).map formatOutput = readBatch e read fs := by
  subst hc
  exact ⟨by simp [readZip, readBatch, readZipAll_eq], by simp [readBatch, readChunks_eq]⟩

/-- The decision table as a whole: an exception leaves the decorated reader only under `raise`. -/
theorem policy_table_complete (e : Errors) :
    (∀ {α} (r : Option α), wrapped e r = none ↔ (r = none ∧ e = .raise)) := by
  intro α r
  cases r <;> cases e <;> simp [wrapped, onError]

/-! ### NRRD header: units -/

/-- Voxel grids: the per-axis voxel size and the unit written to the header are read back unchanged
(also anisotropic). -/
theorem nrrd_voxel_units_round_trip (m : V3) (u : String) :
    nrrdReadVoxelUnits (nrrdWriteUnits m u) = (m, u) := rfl

/-- Dotprops (2-D point data): the unit magnitude written to the header is read back too (full statement;
holds since the repair of DESIGN §6 #18 – before, the reader reset the magnitude to 1). -/
theorem nrrd_dotprops_units_round_trip (m : V3) (u : String) :
    nrrdReadDotpropsUnits (nrrdWriteUnits m u) = (m, u) := rfl

example : nrrdReadDotpropsUnits (nrrdWriteUnits (8, 8, 8) "nanometer") = ((8, 8, 8), "nanometer") := by decide

/-! ### the source says what the model implements (translator tie) -/

open Navis.Gen in
/-- `handle_errors` in the current source implements the modelled decision table, catches everything,
`format_output` filters `None`, the zip loop swallows only under `ignore`, parallel reads are ordered. -/
theorem gen_policy_matches_model :
    IoConsts.policyTable = Policy.table ∧
    (∀ p ∈ IoConsts.policyTable, ∃ e, Errors.ofString? p.1 = some e ∧ (onError e).toString = p.2) ∧
    IoConsts.policyCatches = "BaseException" ∧
    IoConsts.baseFormatOutputFilters = true ∧ IoConsts.nrrdFormatOutputFilters = true ∧
    IoConsts.meshFormatOutputFilters = true ∧ IoConsts.policyAttrsNoneSafe = true ∧
    IoConsts.zipSwallows = ["ignore"] ∧ IoConsts.parallelMap = "imap" := by
  refine ⟨by decide, ?_, by decide, by decide, by decide, by decide, by decide, by decide, by decide⟩
  decide

open Navis.Gen in
/-- `_write_skeleton` / `PrecomputedSkeletonReader` in the current source use the field order, dtypes
(4-byte items), header format and edge columns that `encodeSkel`, `writeEdges`, `navisReadSkel` and
`parentOf` implement. -/
theorem gen_skeleton_layout_matches_model :
    IoConsts.skelWriterOrder = Layout.skelWriterOrder ∧ IoConsts.skelHeaderFmt = Layout.skelHeaderFmt ∧
    IoConsts.skelWriterDtypes = Layout.skelWriterDtypes ∧
    (∀ p ∈ IoConsts.skelWriterDtypes, Layout.dtypeSize p.2 = some 4) ∧
    IoConsts.skelEdgeColumns = Layout.skelEdgeColumns ∧
    IoConsts.skelReaderFields = Layout.skelReaderFields ∧
    IoConsts.skelReaderExact = Layout.skelReaderExact ∧ IoConsts.skelAttrReadExact = Layout.skelAttrReadExact ∧
    IoConsts.skelEdgesCastAfterMapping = Layout.skelEdgesCastAfterMapping ∧
    IoConsts.edgeDictKeyCol = Layout.edgeDictKeyCol ∧ IoConsts.edgeDictValCol = Layout.edgeDictValCol ∧
    IoConsts.edgeDictDefault = Layout.edgeDictDefault ∧
    IoConsts.radiusAttr = Layout.radiusAttr ∧
    Layout.radiusAttr = (radiusSpec.id, "float32", radiusSpec.comps) ∧ Layout.dtypeSize "float32" = some radiusSpec.size := by
  refine ⟨by decide, by decide, by decide, by decide, by decide, by decide, by decide, by decide, by decide,
    by decide, by decide, by decide, by decide, by decide, by decide⟩

open Navis.Gen in
theorem gen_mesh_layout_matches_model :
    IoConsts.meshWriterOrder = Layout.meshWriterOrder ∧ IoConsts.meshWriterDtypes = Layout.meshWriterDtypes ∧
    IoConsts.meshReaderFields = Layout.meshReaderFields ∧ IoConsts.meshReaderExact = Layout.meshReaderExact ∧
    IoConsts.infoTypesWritten = Layout.infoTypes ∧ IoConsts.infoTypesRead = Layout.infoTypes ∧
    IoConsts.infoTransformDtype = "float" ∧ IoConsts.infoTransformPerAxis = true := by
  refine ⟨by decide, by decide, by decide, by decide, by decide, by decide, by decide, by decide⟩

open Navis.Gen in
theorem gen_nrrd_header_matches_model :
    IoConsts.nrrdHeaderWritten = Layout.nrrdHeaderWritten ∧ IoConsts.nrrdHeaderRead = Layout.nrrdHeaderRead ∧
    IoConsts.nrrdKCastToInt = true ∧ IoConsts.nrrdDotpropsUnitsFromHeader = true := by
  refine ⟨by decide, by decide, by decide, by decide⟩

open Navis.Gen in
/-- HDF5 (container level; the attribute guards are modelled in the second pass, `h5_units_written` ff.): the NeuronList recursion forwards `serialized`/`raw`, annotation groups are
recognised as `h5py.Group`. -/
theorem gen_h5_facts :
    IoConsts.h5ListForwards = ["raw", "serialized"] ∧ IoConsts.h5AnnotationGroupClass = "h5py.Group" := by
  refine ⟨by decide, by decide⟩


/-! ## Second pass: every reader class, file selection, `info` file, NRRD header, attribute columns, JSON keys -/

section Ext
open Navis.IoMeta Navis.IoBatch Navis.Gen

/-! ### the policy model applies to every reader class of `navis/io` -/

/-- **Every class deriving from `BaseReader`** (precomputed, NRRD, mesh, TIFF, SWC, NML/NMX – regenerated from
`navis/io/*.py` on every run): its effective `format_output` (own or inherited) drops `None`, its effective
`read_buffer` / `read_dataframe` is wrapped by `@handle_errors`, and neither it nor an ancestor replaces a batch
loop, the dispatchers or `parse_filename` (only `is_valid_file` may be overridden). So `policy_isolation`,
`policy_raise`, `containers_agree` speak about each of them, and C07's `matchFmt` model of `parse_filename` is the
code every reader runs. A new reader class, a new override or a dropped decorator changes the table. -/
theorem every_reader_class_follows_policy :
    IoReaders.baseEntryPointsDecorated = true ∧
    ∀ c ∈ IoReaders.readerClasses,
      policyApplies IoReaders.readerClasses IoConsts.baseFormatOutputFilters IoReaders.baseEntryPointsDecorated c = true := by
  refine ⟨by decide, ?_⟩
  decide

/-- The classes this property is about are in the table (the table is not vacuous). -/
theorem c14_readers_in_table :
    ∀ n ∈ ["PrecomputedSkeletonReader", "PrecomputedMeshReader", "NrrdReader", "MeshReader"],
      (findClass IoReaders.readerClasses n).isSome = true := by
  decide

/-! ### which files a batch read looks at, and in which order -/

/-- **Deterministic order.** Whatever the `limit`, a folder / zip / tar read looks at a *sub-list* of the container's
listing: files are never reordered or duplicated, so the result order is the listing order (and, by
`containers_agree`, independent of `parallel`). -/
theorem selection_keeps_listing_order (hidden valid : String → Bool) (limit : Limit) (listing : List String) :
    (selectDirAW valid limit listing).Sublist listing ∧
    (selectZipAW hidden valid limit listing).Sublist listing ∧
    (selectTarAW hidden valid limit listing).Sublist listing := by
  have hs := scanAW_sublist hidden valid (intOf limit) 0 listing
  refine ⟨?_, ?_, ?_⟩
  · cases limit <;> simp only [selectDirAW]
    · exact List.filter_sublist
    · exact (List.take_sublist _ _).trans List.filter_sublist
    · exact ((List.drop_sublist _ _).trans (List.take_sublist _ _)).trans List.filter_sublist
    · exact List.filter_sublist.trans List.filter_sublist
    · exact List.filter_sublist.trans List.filter_sublist
  · cases limit <;> simp only [selectZipAW]
    · exact hs
    · exact hs
    · exact ((List.drop_sublist _ _).trans (List.take_sublist _ _)).trans hs
    · exact List.filter_sublist.trans hs
    · exact List.filter_sublist.trans hs
  · cases limit <;> simp only [selectTarAW]
    · exact hs
    · exact hs
    · exact ((List.drop_sublist _ _).trans (List.take_sublist _ _)).trans hs
    · exact List.filter_sublist.trans hs
    · exact List.filter_sublist.trans hs

/-- Only valid files are looked at (no `info`, manifest, hidden or foreign file is ever parsed). -/
theorem selection_only_valid (hidden valid : String → Bool) (limit : Limit) (listing : List String) (f : String) :
    (f ∈ selectDirAW valid limit listing → valid f = true) ∧
    (f ∈ selectZipAW hidden valid limit listing → valid f = true ∧ hidden f = false) ∧
    (f ∈ selectTarAW hidden valid limit listing → valid f = true ∧ hidden f = false) := by
  have hscan : ∀ g, g ∈ scanAW hidden valid (intOf limit) 0 listing → valid g = true ∧ hidden g = false :=
    fun g hg => mem_scanAW_valid hidden valid _ 0 listing g hg
  refine ⟨?_, ?_, ?_⟩
  · intro hf
    cases limit <;> simp only [selectDirAW] at hf
    · exact (List.mem_filter.1 hf).2
    · exact (List.mem_filter.1 (List.mem_of_mem_take hf)).2
    · exact (List.mem_filter.1 (List.mem_of_mem_take (List.mem_of_mem_drop hf))).2
    · exact (List.mem_filter.1 (List.mem_filter.1 hf).1).2
    · exact (List.mem_filter.1 (List.mem_filter.1 hf).1).2
  · intro hf
    cases limit <;> simp only [selectZipAW] at hf
    · exact hscan f hf
    · exact hscan f hf
    · exact hscan f (List.mem_of_mem_take (List.mem_of_mem_drop hf))
    · exact hscan f (List.mem_filter.1 hf).1
    · exact hscan f (List.mem_filter.1 hf).1
  · intro hf
    cases limit <;> simp only [selectTarAW] at hf
    · exact hscan f hf
    · exact hscan f hf
    · exact hscan f (List.mem_of_mem_take (List.mem_of_mem_drop hf))
    · exact hscan f (List.mem_filter.1 hf).1
    · exact hscan f (List.mem_filter.1 hf).1

/-- **One neuron per valid file – every container, every kind of `limit`.** Folder, zip archive and tar archive select
exactly what the documentation promises: the valid files, restricted by `limit` (none, the first `n`, a slice, a list of
file names, a substring), in listing order. (Hidden files are never valid: for the extension filter by definition, for
precomputed names because `._x` contains a dot.) Full statement; before the repairs of the integer and the
list-of-names `limit` it held for folders without a name list, for zip archives without integer / name list and for
tar archives without an integer limit only. -/
theorem selection_meets_spec (hidden valid : String → Bool) (limit : Limit) (listing : List String)
    (hhid : ∀ f, hidden f = true → valid f = false) :
    selectDirAW valid limit listing = selectSpec valid limit listing ∧
    selectZipAW hidden valid limit listing = selectSpec valid limit listing ∧
    selectTarAW hidden valid limit listing = selectSpec valid limit listing := by
  have hfil : (listing.filter fun f => !hidden f && valid f) = listing.filter valid := by
    apply List.filter_congr
    intro f _
    cases hh : hidden f
    · simp
    · simp [hhid f hh]
  refine ⟨?_, ?_, ?_⟩
  · cases limit <;> rfl
  · cases limit <;> simp only [selectZipAW, selectSpec, intOf, scanAW_none, scanAW_int, hfil, Nat.sub_zero]
  · cases limit <;> simp only [selectTarAW, selectSpec, intOf, scanAW_none, scanAW_int, hfil, Nat.sub_zero]

/-- **Integer `limit` on archives = integer `limit` on folders** (was `archive_int_limit_partial`: the un-repaired scan
tested `i >= limit` on the entry index after the append and read `n + 1` files): `limit = n` selects the first `n`
valid entries of the archive, whatever hidden, foreign, `info` or manifest entries sit in between – the same files a
folder read of the same listing selects. -/
theorem archive_int_limit (hidden valid : String → Bool) (n : Nat) (listing : List String)
    (hhid : ∀ f, hidden f = true → valid f = false) :
    selectZipAW hidden valid (.int n) listing = (listing.filter valid).take n ∧
    selectTarAW hidden valid (.int n) listing = (listing.filter valid).take n ∧
    selectDirAW valid (.int n) listing = (listing.filter valid).take n := by
  have h := selection_meets_spec hidden valid (.int n) listing hhid
  exact ⟨h.2.1, h.2.2, h.1⟩

/-- `limit = 0` reads nothing, `limit ≥` number of valid files reads them all. -/
theorem archive_int_limit_bounds (hidden valid : String → Bool) (n : Nat) (listing : List String)
    (hhid : ∀ f, hidden f = true → valid f = false) :
    selectZipAW hidden valid (.int 0) listing = [] ∧
    ((listing.filter valid).length ≤ n → selectZipAW hidden valid (.int n) listing = listing.filter valid) ∧
    (selectZipAW hidden valid (.int n) listing).length = min n (listing.filter valid).length := by
  refine ⟨?_, ?_, ?_⟩
  · rw [(archive_int_limit hidden valid 0 listing hhid).1]; simp
  · intro hle; rw [(archive_int_limit hidden valid n listing hhid).1]; exact List.take_of_length_le hle
  · rw [(archive_int_limit hidden valid n listing hhid).1]; simp

example : selectZipAW (fun _ => false) (fun _ => true) (.int 2) ["10", "11", "12", "13"] = ["10", "11"] := by decide
/-- decoys before the data files neither count nor stop the scan (the un-repaired scan returned `["10"]` here) -/
example : selectTarAW (fun f => f == "._10") (fun f => f != "info" && f != "._10") (.int 2) ["info", "._10", "10", "11", "12"]
    = ["10", "11"] := by decide
/-- a list of file names selects those files in every container (the un-repaired folder / zip reads returned `[]`) -/
example : selectDirAW (fun _ => true) (.names ["13", "11"]) ["10", "11", "12", "13"] = ["11", "13"] ∧
    selectZipAW (fun _ => false) (fun _ => true) (.names ["13", "11"]) ["10", "11", "12", "13"] = ["11", "13"] := by decide

/-- The source facts the selection model rests on, regenerated from `navis/io/base.py` / `precomputed_io.py`: both archive
scans test `len(to_read) >= limit` as the *first* statement of the loop body (nothing else breaks the loop), the folder
read slices `files[:limit]`, a list of names is matched against the entry's *name* (`Path.name`, `ZipInfo.filename`, the
tar path string), and `PrecomputedReader.is_valid_file` unwraps `ZipInfo`, `TarInfo` and `Path` entries to their names
before applying the literal tests of `precomputed_filter_literals`. -/
theorem gen_selection_facts :
    IoReaders.archiveIntLimit = IoBatch.Src.archiveIntLimit ∧ IoReaders.dirIntLimit = IoBatch.Src.dirIntLimit ∧
    IoReaders.archiveCollects = IoBatch.Src.archiveCollects ∧ IoReaders.namesLimitTest = IoBatch.Src.namesLimitTest ∧
    IoReaders.preValidUnwraps = IoBatch.Src.preValidUnwraps := by
  refine ⟨by decide, by decide, by decide, by decide, by decide⟩

/-- Folder / archive read under `errors ≠ 'raise'`: exactly one result per selected file that parses, in listing
order; a corrupt file removes only itself (combines the selection with `policy_isolation` and `containers_agree`) – for
every container and every kind of `limit`. -/
theorem batch_read_one_per_valid_file {α} (e : Errors) (he : e ≠ .raise) (read : String → Option α)
    (hidden valid : String → Bool) (limit : Limit) (listing : List String)
    (hhid : ∀ f, hidden f = true → valid f = false) :
    readBatch e read (selectDirAW valid limit listing) = some ((selectSpec valid limit listing).filterMap read) ∧
    readZip e read (selectZipAW hidden valid limit listing) = some ((selectSpec valid limit listing).filterMap read) ∧
    readZip e read (selectTarAW hidden valid limit listing) = some ((selectSpec valid limit listing).filterMap read) := by
  obtain ⟨h1, h2, h3⟩ := selection_meets_spec hidden valid limit listing hhid
  refine ⟨?_, ?_, ?_⟩
  · rw [policy_isolation e he, h1]
  · rw [(containers_agree e read _ [selectZipAW hidden valid limit listing] (by simp)).1, policy_isolation e he, h2]
  · rw [(containers_agree e read _ [selectTarAW hidden valid limit listing] (by simp)).1, policy_isolation e he, h3]

/-- The precomputed file filter with the literals of the current source: the files `write_precomputed` produces for
ids without a dot are data files; `info`, manifests (`<id>:0`), hidden files and anything with an extension are not
(in folders, zip *and* tar archives: `gen_selection_facts` – every entry object is unwrapped to its name first). -/
theorem precomputed_filter_literals :
    IoReaders.preRejectContains = ["."] ∧ IoReaders.preRejectEquals = ["info"] ∧
    IoReaders.preRejectEndsWith = [":0"] ∧ IoReaders.hiddenPrefix = ["._"] ∧
    (let v := validPrecomputed IoReaders.preRejectContains IoReaders.preRejectEquals IoReaders.preRejectEndsWith
     v "720575940" = true ∧ v "cellA_17" = true ∧ v "info" = false ∧ v "17:0" = false ∧ v "._17" = false ∧
     v "notes.txt" = false ∧ v "17.swc" = false) := by
  refine ⟨by decide, by decide, by decide, by decide, ?_⟩
  decide

/-! ### the `info` file describes the bytes next to it – in every container -/

/-- **`info` ↔ binaries, for every container kind.** Whatever the target (folder, single file, list of paths,
formatted names: the `dir` branch; `.zip` incl. `pattern@archive.zip`: the `zip` branch – the per-branch
`add_props` flags are regenerated from `PrecomputedWriter.write_any`), for both settings of `radius`, every
writable table and every nm scale (also non-integer and per-axis): the `info` file announces data type
`neuroglancer_skeletons`, records the nm scale on the diagonal of a 3×4 transform whose other entries are 0, and
lists exactly the vertex attributes the binaries carry – an independent decoder *following that info file* returns
the written skeleton. -/
theorem info_describes_bytes (container : String) (radius : Bool) (nm : Option V3R) (t : List Row)
    (h : Writable t) :
    let info := infoWritten IoReaders.infoCallPassesAddProps container false nm radius
    datatypeOf info = some "skeleton" ∧
    scaleOf info = some (nm.getD (1, 1, 1)) ∧ offDiagonalZero info = true ∧
    specsOfInfo info = some (specsFor radius) ∧
    ∃ specs, specsOfInfo info = some specs ∧
      decodeSkel specs (encodeSkel (specsFor radius) (toSkel t radius)) = some (toSkel t radius) := by
  have hok := toSkel_ok t radius h
  have hinfo : infoWritten IoReaders.infoCallPassesAddProps container false nm radius =
      writeInfo false nm (addProps radius) := by
    by_cases hc : container = "zip"
    · simp [infoWritten, hc, IoReaders.infoCallPassesAddProps]
    · simp [infoWritten, hc, IoReaders.infoCallPassesAddProps]
  have hspecs : specsOfInfo (writeInfo false nm (addProps radius)) = some (specsFor radius) := by
    cases radius <;>
      simp [specsOfInfo, writeInfo, addProps, specsFor, radiusVAttr, radiusSpec, Layout.dtypeSize]
  simp only [hinfo]
  refine ⟨by simp [datatypeOf, writeInfo], (scaleOf_writeInfo nm _).1, (scaleOf_writeInfo nm _).2, hspecs,
    specsFor radius, hspecs, decodeSkel_encode _ _ hok⟩

/-- Meshes: the `info` file announces `neuroglancer_legacy_mesh` in every container, so `datatype='auto'` picks the
mesh reader. -/
theorem info_mesh_type (container : String) (nm : Option V3R) :
    datatypeOf (infoWritten IoReaders.infoCallPassesAddProps container true nm false) = some "mesh" := by
  by_cases hc : container = "zip" <;> simp [infoWritten, hc, IoReaders.infoCallPassesAddProps, writeInfo, datatypeOf]

/-- The remaining source facts the `info` model rests on. -/
theorem gen_info_facts :
    IoReaders.infoAddPropsGuardedByRadius = true ∧ IoReaders.infoMergesAddProps = true ∧
    (radiusVAttr.id, radiusVAttr.dtype, radiusVAttr.comps) = IoConsts.radiusAttr ∧
    -- the transform is built as `mat43` (4×3, scale on the diagonal block), transposed, flattened: `transformOf`
    IoReaders.infoTransformShape = ((mat43 (1, 1, 1)).length, ((mat43 (1, 1, 1)).headD []).length) ∧
    IoReaders.infoTransformTransposed = true ∧ IoReaders.infoTransformDiagBlock = true := by
  refine ⟨by decide, by decide, by decide, by decide, by decide, by decide⟩

/-- `read_h5(parallel=…)` maps the per-neuron jobs with the order-preserving `imap` (as `parallel_read` does,
`gen_policy_matches_model`): the order of the result does not depend on `parallel`. -/
theorem gen_h5_parallel_ordered : IoReaders.h5ParallelMap = "imap" ∧ IoConsts.parallelMap = "imap" := by
  refine ⟨by decide, by decide⟩

/-- **Every worker-pool call site of `navis/io/*.py`** (folder / list reads, zip archives, FTP, HDF5 – regenerated from
the source, whatever the function is called) hands out its jobs with a method that returns results in submission
order (`imap`, `map`, `starmap`); `imap_unordered`, `as_completed`, `apply_async`, … anywhere make this stop checking.
The four batch loops this property talks about are among the sites (not vacuous). With `containers_agree` (ordered
concatenation over any chunking = the serial loop) the order of a batch read does not depend on `parallel`. -/
theorem every_pool_map_is_ordered :
    (∀ s ∈ IoReaders.poolMapSites, s.2.2 ∈ ["imap", "map", "starmap"]) ∧
    (∀ f ∈ [("base", "parallel_read"), ("base", "parallel_read_archive"), ("base", "parallel_read_ftp"), ("hdf_io", "read_h5")],
      ∃ s ∈ IoReaders.poolMapSites, (s.1, s.2.1) = f) := by
  refine ⟨by decide, by decide⟩

/-! ### NRRD: the header describes the neuron as it is *now* -/

/-- **Multi-step histories.** `_write_nrrd` (executed statement by statement from the operation list the translator
extracts from the current source) writes the neuron's *current* voxel size and unit – whatever header `old` the
neuron still carries from an earlier `read_nrrd` (stale `space directions` / `space units` of the file it came
from) and whatever extra fields the caller passes, as long as those do not themselves name the geometry keys.
Reading the file back yields exactly `x.mags` and `x.unit` on all three axes (also anisotropic, also non-integer). -/
theorem nrrd_header_current_geometry (x : Geo) (old attrs : Header)
    (hfree : keysFree attrs ["space directions", "space units"]) :
    readGeo (runOps IoReaders.nrrdWriteOps x old attrs) = (x.mags, some (x.unit, x.unit, x.unit)) := by
  have h1 := hfree "space directions" (by simp)
  have h2 := hfree "space units" (by simp)
  cases hd : x.isDotprops <;>
    simp [IoReaders.nrrdWriteOps, runOps, step, evalSrc, readGeo, hd, get_set_same, get_set_ne, get_update_free, h1, h2]

/-- Dotprops: `k` travels in the header too (unless the caller overrides the field). -/
theorem nrrd_header_k (x : Geo) (old attrs : Header) (hd : x.isDotprops = true) :
    readK (runOps IoReaders.nrrdWriteOps x old attrs) = some x.k := by
  simp [IoReaders.nrrdWriteOps, runOps, step, evalSrc, readK, hd, get_set_same]

/-- Non-vacuity / the failure the theorem excludes: a header assembled in the wrong order (`update` with the old
header *after* the geometry was set) reports the stale voxel size. -/
example :
    readGeo (runOps [.empty, .set "space directions" .diagUnits false, .set "space units" .unitNames false, .updateOld]
      ⟨(4, 4, 40), "nanometer", 0, false⟩ [("space directions", .diag (8, 8, 8)), ("space units", .strs ["nanometer", "nanometer", "nanometer"])] [])
      = ((8, 8, 8), some ("nanometer", "nanometer", "nanometer")) := by decide

/-! ### VoxelNeuron: the grid `write_nrrd` exports is the neuron's current content -/

/-- One step keeps the cache invariant, provided every field the grid depends on is hashed or cleared by hand. -/
theorem voxel_step_keeps_invariant (f : VoxFacts) (hs : f.safe = true) (s : VoxSt) (op : VoxOp) (h : VoxInv f s) :
    VoxInv f (voxStep f s op) := by
  simp only [VoxFacts.safe, Bool.and_eq_true, Bool.or_eq_true] at hs
  obtain ⟨⟨hD, hV⟩, hT⟩ := hs
  cases op with
  | setData n =>
    intro g hg
    simp only [voxStep] at hg ⊢
    cases hc : f.clearsD
    · have hh : f.hashedD = true := by rcases hD with h | h <;> simp_all
      simp only [hc, Bool.false_and, Bool.false_eq_true, if_false] at hg
      have := h g hg
      simpa [hh] using this
    · simp [hc, hT] at hg
  | setValues n =>
    intro g hg
    simp only [voxStep] at hg ⊢
    cases hc : f.clearsV
    · have hh : f.hashedV = true := by rcases hV with h | h <;> simp_all
      simp only [hc, Bool.false_and, Bool.false_eq_true, if_false] at hg
      have := h g hg
      simpa [hh] using this
    · simp [hc, hT] at hg
  | read =>
    have hv := voxInv_validate f s hT h
    have hst := voxValidate_stamps f s
    simp only [voxStep, voxRead]
    cases hc : (voxValidate f s).cache with
    | some g => simpa [hc] using hv
    | none =>
      intro g hg
      simp only [Option.some.injEq] at hg
      subst hg
      refine ⟨?_, ?_⟩
      · cases hh : f.hashedD
        · simp
        · simpa [hh] using hst.1 hh
      · cases hh : f.hashedV
        · simp
        · simpa [hh] using hst.2.1 hh

/-- **No stale grid, after any history.** For every sequence of assignments (`voxels`, `grid`, `values`, `threshold`,
`strip`, …) and reads starting from a fresh neuron, the grid a read returns – what `_write_nrrd` puts into the file –
is built from the *current* voxel coordinates and the *current* per-voxel values. -/
theorem voxel_grid_never_stale (f : VoxFacts) (hs : f.safe = true) (d v : Nat) (ops : List VoxOp) :
    let s := voxRun f ⟨d, v, d, v, none⟩ ops
    (voxRead f s).1 = (s.d, s.v) := by
  have hinv : ∀ (ops : List VoxOp) (s : VoxSt), VoxInv f s → VoxInv f (voxRun f s ops) := by
    intro ops
    induction ops with
    | nil => intro s h; exact h
    | cons o os ih => intro s h; exact ih _ (voxel_step_keeps_invariant f hs s o h)
  have h0 : VoxInv f ⟨d, v, d, v, none⟩ := by intro g hg; simp at hg
  have hfin := hinv ops _ h0
  simp only
  generalize voxRun f ⟨d, v, d, v, none⟩ ops = s at hfin
  simp only [VoxFacts.safe, Bool.and_eq_true] at hs
  have hv := voxInv_validate f s hs.2 hfin
  have hst := voxValidate_stamps f s
  simp only [voxRead]
  cases hc : (voxValidate f s).cache with
  | none => simp [hst.2.2.1, hst.2.2.2]
  | some g =>
    have := hv g hc
    simp only
    rw [← hst.2.2.1, ← hst.2.2.2]
    apply Prod.ext
    · cases hh : f.hashedD
      · simpa [hh] using this.1
      · have h1 := this.1; simp only [hh, if_true] at h1; rw [← h1]; exact hst.1 hh
    · cases hh : f.hashedV
      · simpa [hh] using this.2
      · have h2 := this.2; simp only [hh, if_true] at h2; rw [← h2]; exact hst.2.1 hh

/-- **The current source is safe**: with `CORE_DATA`, `TEMP_ATTR` and every method of `VoxelNeuron` that assigns `_data`
or `_values` regenerated from `navis/core/voxel.py`, each field the grid depends on is hashed (`_data`) or cleared by
every method assigning it (`_values`), and `_grid` is among the attributes a clear removes. Dropping the
`_clear_temp_attr()` of the `values` setter makes this false. -/
theorem gen_voxel_cache_safe :
    IoReaders.voxFacts.safe = true ∧ IoReaders.voxFacts.hashedD = true ∧ IoReaders.voxFacts.hashedV = false ∧
    (∃ a ∈ IoReaders.voxAssigns, a.name = "values.setter" ∧ a.fields = ["_values"]) := by
  refine ⟨by decide, by decide, by decide, by decide⟩

/-- What the theorem excludes (facts of seed C14_4: the `values` setter does not clear): build the grid, assign new
values, read again – the read returns the grid of the OLD values. -/
example : (voxRead ⟨true, false, true, false, true⟩
    (voxRun ⟨true, false, true, false, true⟩ ⟨1, 1, 1, 1, none⟩ [.read, .setValues 2])).1 = (1, 1) := by decide

/-- **`threshold` keeps voxels and values aligned** (the code that exists since the repair d242e0d: one mask, applied to
`_values` and to `_data`): for every list of voxel coordinates with equally many per-voxel values and every threshold,
the pairs (voxel, value) that remain are *exactly* the original pairs whose value is ≥ the threshold, in order – so
the dense grid written afterwards holds those voxels with their own values – and both arrays have the same length
(no shape mismatch when the grid is built). -/
theorem threshold_keeps_aligned {α} (t : Nat) (vox : List α) (vals : List Nat) (hl : vox.length = vals.length) :
    let r := thresholdSparse t vox vals
    r.1.zip r.2 = (vox.zip vals).filter (fun p => decide (t ≤ p.2)) ∧ r.1.length = r.2.length ∧
    r.2 = vals.filter (fun v => decide (t ≤ v)) := by
  have hz : (thresholdSparse t vox vals).1.zip (thresholdSparse t vox vals).2 =
      (vox.zip vals).filter (fun p => decide (t ≤ p.2)) := by
    simp only [thresholdSparse]
    rw [applyMask_zip, applyMask_map_snd t vox vals hl]
  have h2 : (thresholdSparse t vox vals).2 = vals.filter (fun v => decide (t ≤ v)) := by
    simp only [thresholdSparse]; exact applyMask_map_filter _ vals
  exact ⟨hz, by simp only [thresholdSparse]; exact applyMask_length_eq _ vox vals hl, h2⟩

example : thresholdSparse 3 ["a", "b", "c", "d"] [1, 4, 2, 3] = (["b", "d"], [4, 3]) := by decide

/-- The source fact the model rests on: `threshold` assigns BOTH `_data` and `_values` (and clears the caches). -/
theorem gen_threshold_filters_both :
    ∃ a ∈ IoReaders.voxAssigns, a.name = "threshold" ∧ a.fields = ["_data", "_values"] ∧ a.clears = true := by
  decide

/-! ### vertex attributes with several components -/

/-- `read_buffer` splits an `n × c` attribute block into `c` columns; word `p` of the block is found at row `p / c`
of column `p % c` – nothing is dropped, duplicated or transposed. -/
theorem attribute_columns_lossless (comps p : Nat) (vals : List Nat) (hc : 0 < comps) (hp : p < vals.length)
    (hshape : vals.length % comps = 0) :
    (column comps (p % comps) vals)[p / comps]? = vals[p]? ∧ (column comps (p % comps) vals).length = vals.length / comps :=
  ⟨column_lossless comps p vals hc hp hshape, column_length _ _ _⟩

example : attrColumns "dir" 3 [1, 2, 3, 4, 5, 6] = [("dir_0", [1, 4]), ("dir_1", [2, 5]), ("dir_2", [3, 6])] := by decide
example : attrColumns "radius" 1 [7, 8] = [("radius", [7, 8])] := by decide

/-! ### JSON: which attributes travel -/

/-- `write_json` → `read_json` at the level of the neuron's attribute dictionary, with the key lists of the current
source: the node table, the connector table and the id always arrive, and so does every public attribute; private
attributes other than the two tables do not (documented: units, name, soma are not part of the JSON). -/
theorem json_tables_and_id_travel {α} (id : α) (d : List (String × α)) :
    let out := jsonRead IoReaders.jsonReadTables IoReaders.jsonReadSkipsSetattr
      (jsonWrite IoReaders.jsonKeepPrivate IoReaders.jsonPrivatePrefix IoReaders.jsonIdKey id d)
    dget out "id" = some id ∧ dget out "_nodes" = dget d "_nodes" ∧ dget out "_connectors" = dget d "_connectors" ∧
    ∀ k, IoMeta.startsWith k "_" = false → k ≠ "id" → dget out k = dget d k := by
  have hw : ∀ k, k ≠ "id" →
      dget (jsonRead IoReaders.jsonReadTables IoReaders.jsonReadSkipsSetattr
        (jsonWrite IoReaders.jsonKeepPrivate IoReaders.jsonPrivatePrefix IoReaders.jsonIdKey id d)) k =
      if (IoReaders.jsonReadTables.contains k || !IoReaders.jsonReadSkipsSetattr.contains k) = true then
        (if (!(IoMeta.startsWith k "_") || IoReaders.jsonKeepPrivate.contains k) = true then dget d k else none) else none := by
    intro k hk
    unfold jsonRead jsonWrite
    rw [dget_filter_key (fun k => IoReaders.jsonReadTables.contains k || !IoReaders.jsonReadSkipsSetattr.contains k)]
    simp only [dget, IoReaders.jsonIdKey, IoReaders.jsonPrivatePrefix, Ne.symm hk, if_false]
    rw [dget_filter_key (fun k => !(IoMeta.startsWith k "_") || IoReaders.jsonKeepPrivate.contains k)]
  refine ⟨?_, ?_, ?_, ?_⟩
  · simp [jsonRead, jsonWrite, dget, IoReaders.jsonIdKey, IoReaders.jsonReadTables, IoReaders.jsonReadSkipsSetattr]
  · rw [hw "_nodes" (by decide)]; simp [IoReaders.jsonReadTables, IoReaders.jsonKeepPrivate]
  · rw [hw "_connectors" (by decide)]; simp [IoReaders.jsonReadTables, IoReaders.jsonKeepPrivate]
  · intro k hpub hk
    rw [hw k hk]
    have hskip : IoReaders.jsonReadSkipsSetattr.contains k = false := by
      simp only [IoReaders.jsonReadSkipsSetattr, List.contains_cons, List.contains_nil, Bool.or_false, Bool.or_eq_false_iff,
        beq_eq_false_iff_ne, ne_eq]
      constructor <;> (intro e; subst e; simp [IoMeta.startsWith] at hpub)
    have h1 : (IoReaders.jsonReadTables.contains k || !IoReaders.jsonReadSkipsSetattr.contains k) = true := by
      rw [hskip]; simp
    have h2 : (!(IoMeta.startsWith k "_") || IoReaders.jsonKeepPrivate.contains k) = true := by
      rw [hpub]; simp
    rw [if_pos h1, if_pos h2]

/-- **`write_json` accepts skeletons only – also inside a `NeuronList`** (with the member test of the current source):
the call is accepted iff every neuron handed over is a `TreeNeuron`, whether it comes alone or in a list. So the
geometry of a `MeshNeuron` / `Dotprops` is never 'written' as an object without vertices, faces or points (before the
repair a list was let through whatever it held); what *is* accepted is covered by `json_tables_and_id_travel`. -/
theorem json_accepts_only_skeletons (isList : Bool) (kinds : List String) :
    jsonAccepts IoReaders.jsonMembersChecked isList kinds = true ↔ ∀ k ∈ kinds, k = "TreeNeuron" := by
  simp only [IoReaders.jsonMembersChecked, jsonAccepts, Bool.not_true, Bool.false_or, Bool.and_eq_true, Bool.or_eq_true,
    List.all_eq_true, beq_iff_eq]
  constructor
  · exact fun h => h.2
  · exact fun h => ⟨Or.inr h, h⟩

example : jsonAccepts IoReaders.jsonMembersChecked true ["TreeNeuron", "MeshNeuron"] = false := by decide
/-- the check the repair added is what rejects it: without the member test the list is accepted -/
example : jsonAccepts false true ["MeshNeuron"] = true := by decide

/-! ### HDF5 raw representation: units (also per-axis), soma, name -/

/-- **`units_nm` is written for every neuron with physical units – isotropic or per-axis – by all three raw writers**
(guards regenerated from `H5WriterV1.write_treeneuron / write_dotprops / write_meshneuron`): the write never raises and
the attribute is exactly what `neuron_nm_units` returned; a dimensionless neuron gets no attribute. (Before the repair
the guard was `if units:`, whose truth value raises for the per-axis triple.) -/
theorem h5_units_written (m : Option Mag) :
    IoReaders.h5UnitsGuards.map (·.1) = ["write_treeneuron", "write_dotprops", "write_meshneuron"] ∧
    ∀ w ∈ IoReaders.h5UnitsGuards, h5UnitsAttr w.2 m = some m := by
  refine ⟨by decide, ?_⟩
  intro w hw
  simp only [IoReaders.h5UnitsGuards, List.mem_cons, List.not_mem_nil, or_false] at hw
  rcases hw with rfl | rfl | rfl <;> cases m <;> simp [h5UnitsAttr, unitsGuard]

/-- **HDF5 restores units per axis**: for every nm magnitude (one number or an x/y/z triple) and each raw writer, what
`H5ReaderV1.parse_add_units` (array branch regenerated from the source) makes of the attribute the writer left is the
neuron's `units_xyz` – on all three axes. (Before the repairs the triple could not be written, and a triple found in a
file was read back as its first entry on all axes.) -/
theorem h5_units_round_trip (m : Mag) :
    ∀ w ∈ IoReaders.h5UnitsGuards,
      (h5UnitsAttr w.2 (some m)).bind (h5ReadUnits IoReaders.h5ReaderArrayUnits) = some (some m.xyz) := by
  intro w hw
  rw [(h5_units_written (some m)).2 w hw]
  cases m <;> simp [h5ReadUnits, IoReaders.h5ReaderArrayUnits, Mag.xyz]

example : (h5UnitsAttr "units is not None" (some (.triple (4, 4, 40)))).bind (h5ReadUnits IoReaders.h5ReaderArrayUnits)
    = some (some (4, 4, 40)) := by decide
/-- historical: the two un-repaired pieces of code, on the same input -/
example : h5UnitsAttr "units" (some (.triple (4, 4, 40))) = none ∧
    h5ReadUnits "f'{units[0]} nm'" (some (.triple (4, 4, 40))) = some (some (4, 4, 4)) := by decide

/-- **The soma of a skeleton is written whatever its node id – also id 0** (guard regenerated from
`write_treeneuron`; `has_soma`, which the un-repaired writer tested, is false for the id 0). -/
theorem h5_soma_written (soma : Option Int) :
    ∃ g, IoReaders.h5SomaGuards.lookup "write_treeneuron" = some g ∧ h5SomaAttr g soma = some soma := by
  refine ⟨"soma is not None", by decide, ?_⟩
  cases soma <;> simp [h5SomaAttr, somaGuard]

example : h5SomaAttr "soma is not None" (some 0) = some (some 0) := by decide
example : h5SomaAttr "neuron.has_soma" (some 0) = some none := by decide      -- historical: soma 0 was dropped

/-- **A neuron without a name can be written**: with the guard of the current `get_neuron_group` the `neuron_name`
attribute is the name when there is one and absent otherwise – the write never raises (storing `None` does). -/
theorem h5_name_written (name : Option String) : h5NameAttr IoReaders.h5NameGuard name = some name := by
  simp [h5NameAttr, IoReaders.h5NameGuard]

example : h5NameAttr "hasattr(neuron, 'name')" none = none := by decide       -- historical: name None raised

end Ext

/-! ### non-vacuity: concrete inputs meeting the hypotheses -/

/-- ids not in row order, not contiguous, child before parent, two roots. -/
def demo : List Row :=
  [⟨10, -1, (0, 0, 0), 1008981770⟩, ⟨5, 10, (1065353216, 1056964608, 0), 1017370378⟩,
   ⟨7, 5, (1073741824, 0, 0), 1022739087⟩, ⟨3, 10, (1077936128, 0, 1048576000), 1025758986⟩,
   ⟨0, -1, (3212836864, 0, 0), 0⟩, ⟨2, 0, (0, 0, 3212836864), 5⟩]

example : Writable demo :=
  ⟨⟨by decide, by decide⟩, by decide, by simp [demo], by simp [demo]⟩
example : relabelByRow demo = [-1, 0, 1, 0, -1, 4] := by decide
example : writeEdges demo = [(0, 1), (1, 2), (0, 3), (4, 5)] := by decide
example : Skel.OK [⟨"radius", 4, 1⟩, ⟨"label", 1, 1⟩, ⟨"dir", 2, 3⟩]
    ⟨[(1, 2, 3), (4, 5, 6)], [(0, 1)], [[7, 8], [255, 0], [1, 2, 3, 65535, 5, 6]]⟩ :=
  ⟨by decide, by decide, by simp [flat3], by simp [flat2], by simp [AttrsOK]⟩
example : Mesh.OK ⟨[(0, 0, 0), (1065353216, 0, 0), (0, 1065353216, 0)], [(0, 1, 2)]⟩ :=
  ⟨by decide, by decide, by decide⟩
example : BytesOK [4, 0, 0, 0] := by intro b hb; simp at hb; omega
/-- policy: a concrete batch with a corrupt middle file -/
example : readBatch .log (fun n : Nat => if n % 2 = 0 then some n else none) [2, 3, 4] = some [2, 4] := by decide
example : readBatch .raise (fun n : Nat => if n % 2 = 0 then some n else none) [2, 3, 4] = none := by decide
example : readBatch .raise (fun n : Nat => if n % 2 = 0 then some n else none) [2, 4] = some [2, 4] := by decide

end Navis.Props.C14
