import NavisModel.Proofs.ConnLemmas
import NavisModel.Proofs.ConnViewsLemmas
import NavisModel.Gen.Conn
/-!
# C20 — connectivity built from connector tables is exact and self-consistent

Property theorems only; helper lemmas live in `Proofs/ConnLemmas.lean`, the executable model in
`Model/Conn.lean`.  Vocabulary:

* `rows : List CRow` — all connector-table rows `(neuron, connector_id, node_id, type)` in the order
  `NeuronConnector.add_neurons` visits them (`flatRows ns` for a list of neurons `ns`);
  type `0` = presynaptic, `1` = postsynaptic, anything else is ignored by navis.
* `build rows` — the two dicts `conn_inputs` / `conn_outputs` exactly as the code fills them;
  `edges m io` — `NeuronConnector.edges(include_other=io)`.
* `specEdges io rows` — the *definition*: the relational join of presynaptic with postsynaptic rows on the
  connector id (a multiset: one edge per pair of rows), plus — only when `io` — one `__OTHER__` edge per row
  whose connector has no partner row of the other kind.
* `PreUnique rows` — every connector id is presynaptic on at most one row (a synapse has one presynaptic
  site; navis logs "connector tables are probably inconsistent" otherwise and keeps the last one).
-/
namespace Navis.Props.C20
open Navis.Conn

/-! ## 1. the edge multiset is the join of the connector tables -/

/-- **edges_spec.** For every list of connector rows satisfying `PreUnique` and both values of
`include_other`, the edge stream navis produces is, as a multiset, exactly the relational join: an edge
`A → B` for every (row presynaptic on `A`, row postsynaptic on `B`) pair sharing a connector id — so polyadic
connectors and repeated rows count with multiplicity — and `__OTHER__` edges exactly when requested. -/
theorem edges_spec (io : Bool) (rows : List CRow) (h : PreUnique rows) :
    (edges (build rows) io).Perm (specEdges io rows) :=
  edges_perm_spec io rows h

/-- The same for a list of neurons (duplicate names, missing connector tables, ignored types included). -/
theorem connEdges_spec (io : Bool) (ns : List Neuron) (h : PreUnique (flatRows ns)) :
    (connEdges ns io).Perm (specEdges io (flatRows ns)) :=
  edges_perm_spec io _ h

/-- **Multiplicity.** In the join — hence, under `PreUnique`, in navis' edge stream — the fully known edge
`A → B` through connector `c` from node `a` to node `b` occurs exactly
(#rows `(A, c, a, pre)`) × (#rows `(B, c, b, post)`) times, for both values of `include_other`. -/
theorem edge_multiplicity (io : Bool) (rows : List CRow) (h : PreUnique rows) (c a b : Int) (A B : String) :
    (edges (build rows) io).count ⟨c, A, B, some a, some b⟩
      = rows.count ⟨A, c, a, 0⟩ * rows.count ⟨B, c, b, 1⟩ := by
  rw [(edges_spec io rows h).count_eq]
  exact count_specEdges_known io rows c a b A B

/-- **`__OTHER__` exactly when requested (specification side).** `include_other=False` yields precisely the
edges of `include_other=True` whose two partners are known: nothing else is dropped, nothing is added. -/
theorem other_only_filters (rows : List CRow) :
    specEdges false rows = (specEdges true rows).filter knownBoth :=
  specEdges_false rows

/-- The same on the code side, under the guard. -/
theorem edges_other_only_filters (rows : List CRow) (h : PreUnique rows) :
    (edges (build rows) false).Perm ((edges (build rows) true).filter knownBoth) := by
  refine (edges_spec false rows h).trans ?_
  rw [other_only_filters]
  exact ((edges_spec true rows h).filter _).symm

/-- Without any guard: with `include_other=False` no edge has an unknown end. -/
theorem no_other_unless_requested (m : Maps) (e : Edge) (h : e ∈ edges m false) :
    e.srcNode.isSome = true ∧ e.tgtNode.isSome = true := by
  have := mem_edges_false h
  simpa [knownBoth] using this

/-- Soundness of the run-time checker the driver evaluates on navis' *own* edge list: it accepts exactly
the permutations of the join, which under the guard are exactly the permutations of the model's stream. -/
theorem checkEdges_sound (io : Bool) (rows : List CRow) (es : List Edge) :
    checkEdges io rows es = true ↔ es.Perm (specEdges io rows) := by
  unfold checkEdges
  exact List.isPerm_iff

theorem preUniqueB_sound (rows : List CRow) : preUniqueB rows = true ↔ PreUnique rows :=
  preUniqueB_iff rows

/-! ## 2. what the code does outside the guard -/

/-- **Last writer wins** (all inputs, no guard): `conn_inputs[c]` is the *last* presynaptic row of
connector `c` in visiting order; all earlier presynaptic rows of `c` are forgotten. -/
theorem conn_inputs_last_writer (rows : List CRow) (c : Int) :
    dget (build rows).inputs c = (preRows rows c).getLast?.map fun p => (p.name, p.node) :=
  inputs_last_writer rows c

/-- `conn_outputs[c]` keeps every postsynaptic row of `c`, in order, with repetitions (all inputs). -/
theorem conn_outputs_all (rows : List CRow) (c : Int) :
    dget (build rows).outputs c
      = if postRows rows c = [] then none else some ((postRows rows c).map fun p => (p.name, p.node)) :=
  outputs_all rows c

/-- **edges_spec_all_inputs** (no guard).  For *every* list of connector rows — connector ids presynaptic on several
rows, several neurons, the same neuron object added twice included — the edge stream navis produces is, as a multiset,
the relational join of the table in which every connector keeps only its **last** presynaptic row (in visiting order);
that table satisfies the guard, and it is the table itself when the guard already holds. So `edges_spec` is the special
case `lastPreOnly rows = rows`, and outside the guard exactly the edges of the earlier presynaptic rows are lost. -/
theorem edges_spec_all_inputs (io : Bool) (rows : List CRow) :
    (edges (build rows) io).Perm (specEdges io (lastPreOnly rows))
    ∧ PreUnique (lastPreOnly rows)
    ∧ (PreUnique rows → lastPreOnly rows = rows) :=
  ⟨edges_perm_spec_all io rows, preUnique_lastPreOnly rows, lastPreOnly_of_preUnique rows⟩

/-- Multiplicity for all inputs: the known edge `A → B` through `c` occurs (1 if the last presynaptic row of `c` is
`(A, a)`, else 0) × (#rows `(B, c, b, post)`) times — a connector contacting the same target node `k` times yields `k`
parallel edges, whatever else is wrong with the tables. -/
theorem edge_multiplicity_all_inputs (io : Bool) (rows : List CRow) (c a b : Int) (A B : String) :
    (edges (build rows) io).count ⟨c, A, B, some a, some b⟩
      = (lastPreOnly rows).count ⟨A, c, a, 0⟩ * rows.count ⟨B, c, b, 1⟩ := by
  rw [(edges_perm_spec_all io rows).count_eq, count_specEdges_known]
  congr 1
  rw [List.count_eq_countP, List.count_eq_countP]
  have h1 : (lastPreOnly rows).countP (· == (⟨B, c, b, 1⟩ : CRow)) = ((postRows (lastPreOnly rows) c)).countP (· == (⟨B, c, b, 1⟩ : CRow)) := by
    unfold postRows; rw [List.countP_filter]
    apply List.countP_congr; intro q _
    constructor
    · intro hq; have : q = ⟨B, c, b, 1⟩ := by simpa using hq
      subst this; simp [isPost]
    · intro hq; simp only [Bool.and_eq_true] at hq; exact hq.1
  have h2 : rows.countP (· == (⟨B, c, b, 1⟩ : CRow)) = ((postRows rows c)).countP (· == (⟨B, c, b, 1⟩ : CRow)) := by
    unfold postRows; rw [List.countP_filter]
    apply List.countP_congr; intro q _
    constructor
    · intro hq; have : q = ⟨B, c, b, 1⟩ := by simpa using hq
      subst this; simp [isPost]
    · intro hq; simp only [Bool.and_eq_true] at hq; exact hq.1
  rw [h1, h2, postRows_lastPreOnly]

/-- connector 5 is presynaptic on `A` (node 1) and on `B` (node 2) and postsynaptic on `C` (node 3) -/
def witnessRows : List CRow := [⟨"A", 5, 1, 0⟩, ⟨"B", 5, 2, 0⟩, ⟨"C", 5, 3, 1⟩]

/-- **edges_not_preunique_witness.** Outside `PreUnique` the code's edge stream is *not* the join: the edge
`A → C` is lost, only the last writer `B → C` survives. -/
theorem edges_not_preunique_witness :
    ¬ PreUnique witnessRows
    ∧ edges (build witnessRows) true = [⟨5, "B", "C", some 2, some 3⟩]
    ∧ specEdges true witnessRows = [⟨5, "A", "C", some 1, some 3⟩, ⟨5, "B", "C", some 2, some 3⟩]
    ∧ ¬ (edges (build witnessRows) true).Perm (specEdges true witnessRows) := by
  refine ⟨?_, by decide, by decide, ?_⟩
  · rw [← preUniqueB_sound]; decide
  · rw [← List.isPerm_iff]; decide

/-! ## 3. adjacency matrix, weighted digraph and multigraph are views of one edge multiset -/

/-- **three_views_agree.** For *every* edge stream `es` (in particular navis' own) and every ordered pair of
graph nodes `s`, `t`:
* the adjacency cell, the digraph weight and the number of parallel multigraph edges all equal the number of
  stream edges `s → t`;
* the digraph edge exists iff that number is non-zero, and then its `connectors` table is — row for row,
  `(connector_id, pre_node, post_node)` — the list of parallel multigraph edges, which is the sub-stream
  of edges `s → t`. -/
theorem three_views_agree (es : List Edge) (s t : String) :
    adjCell es s t = (between es s t).length
    ∧ digraphWeight es s t = adjCell es s t
    ∧ (multiBetween es s t).length = adjCell es s t
    ∧ multiBetween es s t = (between es s t).map Edge.syn
    ∧ digraphConns es s t = (if adjCell es s t = 0 then none else some (multiBetween es s t)) := by
  refine ⟨adjCell_eq es s t, ?_, ?_, multiBetween_eq es s t, ?_⟩
  · rw [digraphWeight_eq, adjCell_eq]
  · rw [multiBetween_eq, adjCell_eq, List.length_map]
  · rw [digraphConns_eq, adjCell_eq, multiBetween_eq]
    by_cases h : between es s t = []
    · simp [h]
    · have : (between es s t).length ≠ 0 := fun h0 => h (List.eq_nil_of_length_eq_zero h0)
      simp [h, this]

/-- The views only depend on the edge *multiset* where they should: permuting the stream leaves every
adjacency cell and digraph weight unchanged and permutes the per-pair connector tables. -/
theorem views_perm_invariant (es es' : List Edge) (h : es.Perm es') (s t : String) :
    adjCell es s t = adjCell es' s t
    ∧ digraphWeight es s t = digraphWeight es' s t
    ∧ (multiBetween es s t).Perm (multiBetween es' s t) := by
  have hb : (between es s t).Perm (between es' s t) := h.filter _
  refine ⟨?_, ?_, ?_⟩
  · rw [adjCell_eq, adjCell_eq]; exact hb.length_eq
  · rw [digraphWeight_eq, digraphWeight_eq]; exact hb.length_eq
  · rw [multiBetween_eq, multiBetween_eq]; exact hb.map _

/-- Putting 1 and 3 together: under the guard every adjacency cell counts the pairs of the join. -/
theorem adjacency_counts_join (io : Bool) (rows : List CRow) (h : PreUnique rows) (s t : String) :
    adjCell (edges (build rows) io) s t = (between (specEdges io rows) s t).length := by
  rw [adjCell_eq]
  exact ((edges_spec io rows h).filter _).length_eq

/-! ## 4. `group_matrix` conserves totals -/

/-- **Cell formula** (all methods, all groupings): a cell of the grouped matrix aggregates, first over the
member rows and then over the member columns, the cells of the original matrix. -/
theorem group_cell (m : Method) (rg cg : List (String × String)) (hr : rg.isEmpty = false)
    (hc : cg.isEmpty = false) (drop : Bool) (M : LMat) (G H : String) :
    (groupCore m rg cg drop M).val G H
      = agg m (((keptRows cg drop M.cols).filter fun c => decide (glabel cg c = H)).map fun c =>
          agg m (((keptRows rg drop M.rows).filter fun r => decide (glabel rg r = G)).map fun r => M.val r c)) := by
  simp [groupCore, hr, hc, groupRows, transpose]

/-- **group_sum_conserved.** For every labelled matrix, every row grouping and every column grouping (either
dict format, groups that merge with ungrouped labels, empty groupings included), `method='SUM'` without
`drop_ungrouped` conserves the sum of all cells. -/
theorem group_sum_conserved (rg cg : Groups) (M : LMat) :
    total (groupMatrix .sum rg cg false M) = total M := by
  unfold groupMatrix
  split
  · rfl
  · rw [total_groupCore_sum, restrict_nodrop]

/-- With `drop_ungrouped=True` the total conserved is that of the sub-matrix of grouped rows / columns
(an axis without a grouping is left alone, as in the code). -/
theorem group_sum_dropped (rg cg : Groups) (drop : Bool) (M : LMat) (h : (rg.isEmpty && cg.isEmpty) = false) :
    total (groupMatrix .sum rg cg drop M) = total (restrict rg.toMap cg.toMap drop M) := by
  unfold groupMatrix
  rw [h]
  exact total_groupCore_sum _ _ _ _

/-! ## 5. non-vacuity -/

/-- shared connector 1 (A→B), polyadic connector 2 (A→B twice, A→C), autapse via 2, dangling 3 (pre only)
and 4 (post only), an ignored type, a repeated postsynaptic row -/
def sampleRows : List CRow :=
  [⟨"A", 1, 10, 0⟩, ⟨"A", 2, 11, 0⟩, ⟨"A", 3, 12, 0⟩, ⟨"A", 2, 13, 1⟩,
   ⟨"B", 1, 20, 1⟩, ⟨"B", 2, 21, 1⟩, ⟨"B", 2, 21, 1⟩, ⟨"B", 4, 22, 1⟩, ⟨"B", 9, 23, 2⟩,
   ⟨"C", 2, 30, 1⟩]

example : PreUnique sampleRows := (preUniqueB_sound _).mp (by decide)
example : (edges (build sampleRows) true).length = 7 := by decide
example : (edges (build sampleRows) false).length = 5 := by decide
example : (edges (build sampleRows) true).count ⟨2, "A", "B", some 11, some 21⟩ = 2 := by decide
example : checkEdges true sampleRows (edges (build sampleRows) true).reverse = true := by decide
example : adjCell (edges (build sampleRows) true) "A" "B" = 3 := by decide
example : adjCell (edges (build sampleRows) true) OTHER "B" = 1 := by decide
example : digraphConns (edges (build sampleRows) true) "A" OTHER = some [(3, some 12, none)] := by decide
example : digraphConns (edges (build sampleRows) false) "A" OTHER = none := by decide

/-- a 3×3 matrix with cells `3·i + j`, rows/columns `a b c` -/
def sampleMat : LMat :=
  ⟨["a", "b", "c"], ["a", "b", "c"], fun r c =>
    (3 * (["a", "b", "c"].idxOf r) + ["a", "b", "c"].idxOf c : Nat)⟩

example : total sampleMat = 36 := by decide +kernel
example : total (groupMatrix .sum (.byNeuron [("a", "g"), ("b", "g")]) (.byGroup [("h", ["b", "c"])]) false sampleMat) = 36 := by
  decide +kernel
example : (groupMatrix .sum (.byNeuron [("a", "g"), ("b", "g")]) (.byGroup [("h", ["b", "c"])]) false sampleMat).val "g" "h" = 12 := by
  decide +kernel
example : total (groupMatrix .sum (.byNeuron [("a", "g"), ("b", "g")]) (.byNeuron []) true sampleMat) = 15 := by decide +kernel
example : (groupMatrix .avg (.byNeuron [("a", "g"), ("b", "g")]) (.byNeuron []) false sampleMat).val "g" "c" = 7 / 2 := by
  decide +kernel

/-! ## 6. the model's hard-wired facts are what the *current* source says (`Gen/Conn.lean`, regenerated per run)

Each theorem below is over definitions the translator re-extracts from `navis/connectivity/adjacency.py`,
`matrix_utils.py` and `graph/converters.py`; an edit of the corresponding literal / expression makes it stop
checking. -/

/-- the name of the unknown partner -/
theorem gen_other : Gen.Conn.other = OTHER := rfl

/-- **The type chain of `add_neuron`, interpreted, is the model's `addRow`**: which literal makes a row post- /
presynaptic, which dict is written and how (`setdefault(..).append` keeps every row, plain assignment keeps the
last), in which order the tests run, and that no other value writes anything. -/
theorem gen_type_chain (m : Maps) (r : CRow) : addRowGen Gen.Conn.typeBranches m r = some (addRow m r) := by
  unfold Gen.Conn.typeBranches      -- the proof script does not depend on the order of the (disjoint) branches
  by_cases h1 : r.type = 1 <;> by_cases h0 : r.type = 0 <;> simp_all [addRowGen, applyBranch, addRow]

/-- the columns / attributes `add_neuron` reads: key of the graph node, key and value of the two dicts -/
theorem gen_row_fields :
    Gen.Conn.neuronKey = "name" ∧ Gen.Conn.noneGuard = true ∧ Gen.Conn.typeColumn = "type"
    ∧ Gen.Conn.keyColumn = "connector_id" ∧ Gen.Conn.valueFields = ["name", "node_id"] :=
  ⟨rfl, rfl, rfl, rfl, rfl⟩

/-- the join in `edges()`: keys of both dicts, defaults `(OTHER, None)` / `[(OTHER, None)]`, the source test on the
outer level and the target test on the inner level both say "this partner is unknown" (`… is None` on the node, or
identity with `OTHER` — never truthiness of a node id) together with "not requested"; the tuple is yielded in `Edge`
field order. -/
theorem gen_edges_join :
    Gen.Conn.keySources = ["conn_inputs", "conn_outputs"] ∧ (∀ o ∈ Gen.Conn.keyOps, o ∈ ["union", "BitOr", "keys"])
    ∧ Gen.Conn.srcDict = "conn_inputs" ∧ Gen.Conn.srcDefault = ["OTHER", "None"]
    ∧ Gen.Conn.srcSkip = ["NOT_REQUESTED", "UNKNOWN(SRC)"]
    ∧ Gen.Conn.tgtDict = "conn_outputs" ∧ Gen.Conn.tgtDefault = ["OTHER", "None"]
    ∧ Gen.Conn.tgtSkip = ["NOT_REQUESTED", "UNKNOWN(TGT)"]
    ∧ Gen.Conn.yieldArgs = ["CID", "SRC", "TGT", "SRC_NODE", "TGT_NODE"]
    ∧ Gen.Conn.edgeFields = ["connector_id", "source_name", "target_name", "source_node", "target_node"] :=
  ⟨rfl, by decide, rfl, rfl, rfl, rfl, rfl, rfl, rfl, rfl⟩

/-- every view defaults to `include_other=True`, forwards its own `include_other` to `edges()`, and adds the
`__OTHER__` node exactly under `if include_other:` -/
theorem gen_include_other :
    Gen.Conn.edgesDefaultIncludeOther = true
    ∧ (Gen.Conn.adjDefaultIncludeOther = true ∧ Gen.Conn.adjForwardsIncludeOther = true ∧ Gen.Conn.adjOtherGuard = "include_other")
    ∧ (Gen.Conn.dgDefaultIncludeOther = true ∧ Gen.Conn.dgForwardsIncludeOther = true ∧ Gen.Conn.dgOtherGuard = "include_other")
    ∧ (Gen.Conn.mgDefaultIncludeOther = true ∧ Gen.Conn.mgForwardsIncludeOther = true ∧ Gen.Conn.mgOtherGuard = "include_other") :=
  ⟨rfl, ⟨rfl, rfl, rfl⟩, ⟨rfl, rfl, rfl⟩, ⟨rfl, rfl, rfl⟩⟩

/-- `to_adjacency`: index = the neuron dict's keys, the cell `(src, tgt)` = tuple positions 1, 2 is incremented
by exactly 1 per edge, in a 64-bit integer matrix -/
theorem gen_adjacency_cells :
    Gen.Conn.adjIndexAttrs = ["neurons"] ∧ Gen.Conn.adjCellPos = [1, 2] ∧ Gen.Conn.adjOp = "Add"
    ∧ Gen.Conn.adjIncrement = 1 ∧ Gen.Conn.adjDtype ∈ ["uint64", "int64"] :=
  ⟨rfl, rfl, rfl, rfl, by decide⟩

/-- `to_digraph`: grouped by `(src, tgt)`, one table row `[connector_id, pre_node, post_node]` per edge,
`weight` = number of rows (no de-duplication on the way) -/
theorem gen_digraph_rows :
    Gen.Conn.dgKeyPos = [1, 2] ∧ Gen.Conn.dgRowPos = [0, 3, 4]
    ∧ Gen.Conn.dgHeaders = ["connector_id", "pre_node", "post_node"] ∧ Gen.Conn.dgWeight = "len(rows)"
    ∧ "weight" ∈ Gen.Conn.dgEdgeAttrs ∧ "connectors" ∈ Gen.Conn.dgEdgeAttrs :=
  ⟨rfl, rfl, rfl, rfl, by decide, by decide⟩

/-- `to_multidigraph`: one `add_edge(src, tgt, …)` per edge carrying connector id, pre and post node from the right
tuple positions, and **no `key=`** (a key would merge parallel edges of one connector) -/
theorem gen_multigraph_edges :
    Gen.Conn.mgEndpointPos = [1, 2] ∧ ("connector_id", 0) ∈ Gen.Conn.mgAttrs ∧ ("pre_node", 3) ∈ Gen.Conn.mgAttrs
    ∧ ("post_node", 4) ∈ Gen.Conn.mgAttrs ∧ ∀ a ∈ Gen.Conn.mgAttrs, a.1 ≠ "key" := by
  refine ⟨rfl, by decide, by decide, by decide, by decide⟩

/-- `group_matrix`: every permissible method has a branch on both axes and the pandas aggregation called there is
the one the model's `agg` implements for that method; the defaults are `SUM` / keep ungrouped. -/
theorem gen_group_methods :
    (∀ m ∈ Gen.Conn.gmMethods, (methodOfName m).isSome ∧ m ∈ Gen.Conn.gmRowAgg.map (·.1) ∧ m ∈ Gen.Conn.gmColAgg.map (·.1))
    ∧ (∀ p ∈ Gen.Conn.gmRowAgg ++ Gen.Conn.gmColAgg, (methodOfName p.1).isSome ∧ aggOfPandas p.2 = methodOfName p.1)
    ∧ methodOfName Gen.Conn.gmDefaultMethod = some .sum ∧ Gen.Conn.gmDefaultDrop = false := by
  refine ⟨by decide, by decide, rfl, rfl⟩

/-- `group_matrix`: ungrouped labels keep their own label (`groups.get(s, s)`), `drop_ungrouped` keeps the labels
that are keys of the grouping, rows are grouped before columns, the column branch transposes there and back, labels
and both sides of the dicts go through `str`, the dict format is detected on the first value, the input is copied. -/
theorem gen_group_shape :
    Gen.Conn.gmRowLabel = "get(label, label)" ∧ Gen.Conn.gmColLabel = "get(label, label)"
    ∧ Gen.Conn.gmRowDrop = "keep index.isin(keys)" ∧ Gen.Conn.gmColDrop = "keep index.isin(keys)"
    ∧ Gen.Conn.gmOrder = ["rows", "cols"] ∧ Gen.Conn.gmRowTransposes = 0 ∧ Gen.Conn.gmColTransposes = 2
    ∧ Gen.Conn.gmStrConversions = ["dict:col_groups", "dict:row_groups", "labels:columns", "labels:index"]
    ∧ Gen.Conn.gmCopies = true
    ∧ Gen.Conn.gmFormats = [("col_groups", "first value is iterable", "member -> group, later groups win"),
                            ("row_groups", "first value is iterable", "member -> group, later groups win")] :=
  ⟨rfl, rfl, rfl, rfl, rfl, rfl, rfl, rfl, rfl, rfl⟩

/-- `network2nx`: an adjacency frame is melted into (source, target, weight) rows, `threshold` keeps `weight >= threshold` -/
theorem gen_network2nx :
    Gen.Conn.nxThresholdOp = "GtE" ∧ Gen.Conn.nxThresholdColumn = 2 ∧ Gen.Conn.nxMelts = true
    ∧ Gen.Conn.nxBuilder = ["add_weighted_edges_from"] ∧ Gen.Conn.nxEdgeColumns = ["source", "target", "weight"] :=
  ⟨rfl, rfl, rfl, rfl, rfl⟩

/-! ## 7. which values of the `type` column count (Python `==` against the int literals) -/

/-- For every Python value of the `type` cell, `add_neuron`'s loop body is the model's `addRow` on the value's code:
ints / numpy ints, floats and bools equal to `1` (`0`) by value are postsynaptic (presynaptic); strings — including
`"pre"`, `"post"`, `"0"`, `"1"` —, `None` and `NaN` are ignored. -/
theorem type_values_by_python_equality (m : Maps) (r : TRow) : addRowT m r = addRow m r.toCRow := addRowT_eq m r

theorem type_codes :
    (∀ i : Int, typeCode (.int i) = if i = 1 then 1 else if i = 0 then 0 else 2)
    ∧ typeCode (.bool true) = 1 ∧ typeCode (.bool false) = 0
    ∧ typeCode (.float 1) = 1 ∧ typeCode (.float 0) = 0 ∧ typeCode (.float (1 / 2)) = 2
    ∧ (∀ s, typeCode (.str s) = 2) ∧ typeCode .nan = 2 ∧ typeCode .none = 2 := by
  refine ⟨?_, by decide, by decide, by decide, by decide, by decide +kernel, fun _ => rfl, rfl, rfl⟩
  intro i
  unfold typeCode TVal.eqInt
  by_cases h1 : i = 1
  · simp [h1]
  · by_cases h0 : i = 0 <;> simp [h1, h0]

/-- whole tables: folding the as-written loop body over Python-valued rows is `build` of the coded rows -/
theorem build_typed_rows (rows : List TRow) : rows.foldl addRowT {} = build (rows.map TRow.toCRow) :=
  foldl_addRowT rows {}

/-! ## 8. incremental construction: `add_neuron` one by one, `add_neurons`, the constructor -/

/-- However the neurons arrive (constructor, `add_neurons`, repeated `add_neuron`, in several batches), the state
after all of them is the one-shot `build` of all rows in visiting order, and the node set is the list of distinct
names in first-insertion order. -/
theorem incremental_build (ns : List Neuron) :
    (buildN ns).maps = build (flatRows ns) ∧ (buildN ns).names = neuronNames ns :=
  ⟨buildN_build ns, buildN_names ns⟩

theorem incremental_batches (a b : List Neuron) : buildN (a ++ b) = buildN b (buildN a) := by
  unfold buildN; exact List.foldl_append

/-! ## 9. `to_adjacency` as written, node sets, totals -/

/-- **The dense matrix navis builds** (`zeros` over `index`, then `df.loc[src, tgt] += 1` per edge) has, in row `s` and
column `t`, the number of stream edges `s → t` — for every index list (duplicates and absent labels included). -/
theorem adjacency_as_written (names : List String) (io : Bool) (es : List Edge) :
    adjDense (index names io) es = adjacency names io es := by
  rw [adjDense_eq]; rfl

/-- every endpoint of every edge is a node of the graphs / a label of the matrix (no guard), so `df.loc[src, tgt]`
never misses; with `include_other=False` the endpoints are real neuron names -/
theorem edges_endpoints_are_nodes (ns : List Neuron) (io : Bool) (e : Edge) (h : e ∈ connEdges ns io) :
    e.src ∈ index (neuronNames ns) io ∧ e.tgt ∈ index (neuronNames ns) io :=
  connEdges_endpoints ns io e h

/-- `__OTHER__` is a node / a matrix label exactly when requested (unless a neuron carries that very name) -/
theorem other_node_iff (names : List String) (io : Bool) : OTHER ∈ index names io ↔ (io = true ∨ OTHER ∈ names) := by
  unfold index
  cases io <;> simp

/-- **The adjacency matrix contains every synapse exactly once**: the sum of all cells is the number of edges
(no neuron is literally called `__OTHER__`). -/
theorem adjacency_total (ns : List Neuron) (io : Bool) (ho : OTHER ∉ neuronNames ns) :
    denseTotal (adjDense (index (neuronNames ns) io) (connEdges ns io)) = (connEdges ns io).length :=
  denseTotal_adjDense _ _ (index_nodup _ io (nodup_dedup _) ho) (fun e he => connEdges_endpoints ns io e he)

/-- in general (labels repeated in the index): every edge is counted (#rows labelled src) × (#columns labelled tgt) times -/
theorem adjacency_total_general (idx : List String) (es : List Edge) :
    denseTotal (adjDense idx es) = (es.map fun e => idx.count e.src * idx.count e.tgt).sum := by
  rw [adjDense_eq_between]; exact denseTotal_between idx es

/-! ## 10. `__OTHER__` edges, counted -/

/-- With `include_other=True` a presynaptic row `(A, c, a)` of a connector *without any* postsynaptic row yields
exactly one edge `A → __OTHER__` per such row, and none if the connector has a postsynaptic row; with
`include_other=False` there is none. -/
theorem other_target_multiplicity (io : Bool) (rows : List CRow) (h : PreUnique rows) (c a : Int) (A : String) :
    (edges (build rows) io).count ⟨c, A, OTHER, some a, none⟩
      = if io && !hasPost rows c then rows.count ⟨A, c, a, 0⟩ else 0 := by
  rw [(edges_spec io rows h).count_eq]
  exact count_specEdges_otherTgt io rows c a A

/-- Symmetrically every postsynaptic row `(B, c, b)` of a connector without presynaptic row yields exactly one edge
`__OTHER__ → B` iff `include_other`. -/
theorem other_source_multiplicity (io : Bool) (rows : List CRow) (h : PreUnique rows) (c b : Int) (B : String) :
    (edges (build rows) io).count ⟨c, OTHER, B, none, some b⟩
      = if io && !hasPre rows c then rows.count ⟨B, c, b, 1⟩ else 0 := by
  rw [(edges_spec io rows h).count_eq]
  exact count_specEdges_otherSrc io rows c b B

/-! ## 11. the checker the driver evaluates on navis' *own* adjacency matrix, digraph and multigraph -/

/-- **Soundness and completeness of `viewsOKB`.** It accepts navis' three return values for an edge stream `es` iff:
all three node sets are the neuron names plus `__OTHER__` iff requested; the matrix cell `(s, t)` is the number of
stream edges `s → t`; the digraph has exactly one entry per connected pair, whose weight is the length of its
connectors table and whose table is a permutation of the `(connector, pre node, post node)` triples of the stream
edges `s → t`; the multigraph's edges are a permutation of the stream. -/
theorem viewsOKB_sound (names : List String) (io : Bool) (es : List Edge) (v : Views) :
    viewsOKB names io es v = true ↔ ViewsSpec names io es v :=
  viewsOKB_iff names io es v

/-- What acceptance means for the property: on navis' own objects, for every ordered pair of nodes, adjacency cell =
digraph weight = number of parallel multigraph edges = number of stream edges, and the digraph's connectors table and
the multigraph's parallel edges carry the same multiset of (connector id, pre node, post node). -/
theorem checked_views_agree (names : List String) (io : Bool) (es : List Edge) (v : Views)
    (h : viewsOKB names io es v = true) (s t : String) (hs : s ∈ index names io) (ht : t ∈ index names io) :
    v.adjAt s t = (between es s t).length
    ∧ v.dgWeight s t = v.adjAt s t
    ∧ (v.mgBetween s t).length = v.adjAt s t
    ∧ (v.dgConns s t).Perm (v.mgBetween s t) := by
  have hs' := (viewsOKB_sound names io es v).mp h
  have h1 := spec_adj names io es v hs' s t hs ht
  have h2 := spec_dg names io es v hs' s t
  have h3 := spec_mg names io es v hs' s t
  refine ⟨h1, by rw [h2.1, h1], by rw [h3.length_eq, List.length_map, h1], h2.2.trans h3.symm⟩

/-- The model's own three views pass the checker for every stream (so an implementation that agrees with the model
is never rejected). -/
theorem model_views_accepted (names : List String) (io : Bool) (es : List Edge) :
    viewsOKB names io es (modelViews names io es) = true :=
  (viewsOKB_sound names io es _).mpr (modelViews_spec names io es)

/-! ## 12. `network2nx(to_adjacency(...), threshold)` is a fourth view -/

/-- The graph `network2nx` builds from the adjacency matrix has the edge `s → t` iff both are labels of the matrix and
the cell passes `>= threshold` (every cell, zeros included, when `threshold=None`), and its weight is the cell, i.e.
the number of stream edges `s → t`. -/
theorem network2nx_weight (th : Option Nat) (names : List String) (io : Bool) (es : List Edge)
    (hn : (index names io).Nodup) (s t : String) :
    n2nxWeight th (index names io) (adjDense (index names io) es) s t
      = if s ∈ index names io ∧ t ∈ index names io ∧ passTh th (adjCell es s t) = true
        then some (adjCell es s t) else none := by
  rw [adjDense_eq]
  exact n2nxWeight_cellsOf th _ hn _ s t

/-! ## 13. the aggregations of `group_matrix` -/

/-- `MIN` (`MAX`) of a non-empty group is a member of the group that bounds all members -/
theorem agg_min_spec (x : Rat) (t : List Rat) : agg .min (x :: t) ∈ x :: t ∧ ∀ y ∈ x :: t, agg .min (x :: t) ≤ y := by
  refine ⟨foldl_min_mem x t, ?_⟩
  intro y hy
  rcases List.mem_cons.mp hy with rfl | hy
  · exact (foldl_min_le y t).1
  · exact (foldl_min_le x t).2 y hy

theorem agg_max_spec (x : Rat) (t : List Rat) : agg .max (x :: t) ∈ x :: t ∧ ∀ y ∈ x :: t, y ≤ agg .max (x :: t) := by
  refine ⟨foldl_max_mem x t, ?_⟩
  intro y hy
  rcases List.mem_cons.mp hy with rfl | hy
  · exact (foldl_max_ge y t).1
  · exact (foldl_max_ge x t).2 y hy

/-- `AVERAGE` × group size = `SUM` for a non-empty group -/
theorem agg_avg_spec (l : List Rat) (h : l ≠ []) : agg .avg l * (l.length : Rat) = agg .sum l := by
  have hne : ((l.length : Nat) : Rat) ≠ 0 := by
    intro hh
    have := congrArg Rat.num hh
    simp at this
    exact h this
  exact Rat.div_mul_cancel hne

/-- a row grouping by `SUM` conserves every column total of the kept rows (marginals, not only the grand total) -/
theorem group_rows_conserve_column_totals (g : List (String × String)) (drop : Bool) (M : LMat) (c : String) :
    rsum ((groupRows .sum g drop M).rows.map fun r => (groupRows .sum g drop M).val r c)
      = rsum ((keptRows g drop M.rows).map fun r => M.val r c) :=
  colsum_groupRows_sum g drop M c

/-- the run-time checker for the totals of navis' own grouped matrix decides exactly the conservation clause … -/
theorem groupTotalsOKB_sound (rg cg : Groups) (drop : Bool) (M G : LMat) :
    groupTotalsOKB rg cg drop M G = true ↔ total G = keptTotal rg cg drop M := by
  unfold groupTotalsOKB; exact decide_eq_true_iff

/-- … and the model's own `SUM` result always passes it (all groupings, both formats, with and without `drop_ungrouped`). -/
theorem model_group_totals_accepted (rg cg : Groups) (drop : Bool) (M : LMat) :
    groupTotalsOKB rg cg drop M (groupMatrix .sum rg cg drop M) = true := by
  rw [groupTotalsOKB_sound]
  unfold keptTotal
  by_cases h : (rg.isEmpty && cg.isEmpty) = true
  · simp only [h, if_true]; unfold groupMatrix; simp [h]
  · have h' : (rg.isEmpty && cg.isEmpty) = false := by simpa using h
    simp only [h', Bool.false_eq_true, if_false]
    exact group_sum_dropped rg cg drop M h'

/-- Conservation is a property of `SUM` only: the other three methods change the total already on a 2 × 1 matrix. -/
theorem only_sum_conserves_witness :
    let M : LMat := ⟨["a", "b"], ["x"], fun r _ => if r = "a" then 1 else 3⟩
    let g : Groups := .byNeuron [("a", "g"), ("b", "g")]
    total M = 4 ∧ total (groupMatrix .sum g (.byNeuron []) false M) = 4
    ∧ total (groupMatrix .avg g (.byNeuron []) false M) = 2
    ∧ total (groupMatrix .min g (.byNeuron []) false M) = 1
    ∧ total (groupMatrix .max g (.byNeuron []) false M) = 3 := by
  decide +kernel

/-! ## 14. non-vacuity of the new statements -/

def sampleNeurons : List Neuron :=
  [⟨"A", some [(1, 10, 0), (2, 11, 0), (3, 12, 0), (2, 13, 1)]⟩, ⟨"B", some [(1, 20, 1), (2, 21, 1), (2, 21, 1), (4, 22, 1), (9, 23, 2)]⟩,
   ⟨"C", some [(2, 30, 1)]⟩, ⟨"D", none⟩, ⟨"A", some []⟩]

example : flatRows sampleNeurons = sampleRows := by decide
example : neuronNames sampleNeurons = ["A", "B", "C", "D"] := by decide
example : OTHER ∉ neuronNames sampleNeurons := by decide
example : adjDense (index (neuronNames sampleNeurons) true) (connEdges sampleNeurons true)
    = [[1, 3, 1, 0, 1], [0, 0, 0, 0, 0], [0, 0, 0, 0, 0], [0, 0, 0, 0, 0], [0, 1, 0, 0, 0]] := by decide
example : denseTotal (adjDense (index (neuronNames sampleNeurons) true) (connEdges sampleNeurons true)) = 7 := by decide
example : (edges (build sampleRows) true).count ⟨3, "A", OTHER, some 12, none⟩ = 1 := by decide
example : (edges (build sampleRows) true).count ⟨4, OTHER, "B", none, some 22⟩ = 1 := by decide
example : viewsOKB (neuronNames sampleNeurons) true (connEdges sampleNeurons true).reverse
    (modelViews (neuronNames sampleNeurons) true (connEdges sampleNeurons true)) = true := by decide
/-- a digraph that merged the two parallel `A → B` synapses of connector 2 is rejected -/
example : viewsOKB ["A", "B"] false [⟨2, "A", "B", some 11, some 21⟩, ⟨2, "A", "B", some 11, some 21⟩]
    { index := ["A", "B"], adj := [[0, 2], [0, 0]], dgNodes := ["A", "B"], dg := [(("A", "B"), 1, [(2, some 11, some 21)])],
      mgNodes := ["A", "B"], mg := [(("A", "B"), (2, some 11, some 21)), (("A", "B"), (2, some 11, some 21))] } = false := by decide
example : n2nxWeight (some 2) ["A", "B"] [[0, 3], [1, 0]] "A" "B" = some 3
    ∧ n2nxWeight (some 2) ["A", "B"] [[0, 3], [1, 0]] "B" "A" = none
    ∧ n2nxWeight none ["A", "B"] [[0, 3], [1, 0]] "A" "A" = some 0 := by decide
example : lastPreOnly witnessRows = [⟨"B", 5, 2, 0⟩, ⟨"C", 5, 3, 1⟩] := by decide
example : addRowT {} ⟨"A", 1, 2, .str "pre"⟩ = ({} : Maps) := rfl
example : (addRowT {} ⟨"A", 1, 2, .bool true⟩).outputs = [(1, [("A", 2)])] := by decide

end Navis.Props.C20
