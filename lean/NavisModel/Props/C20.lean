import NavisModel.Proofs.ConnLemmas
/-!
# C20 — connectivity built from connector tables is exact and self-consistent

Property theorems only; helper lemmas live in `Proofs/ConnLemmas.lean`, the executable model in
`Model/Conn.lean`.  Vocabulary:

* `rows : List CRow` — all connector-table rows `(neuron, connector_id, node_id, type)` in the order
  `NeuronConnector.add_neurons` visits them (`flatRows ns` for a list of neurons `ns`);
  type `0` = presynaptic, `1` = postsynaptic, anything else is ignored by navis.
* `build rows` — the two dicts `conn_inputs` / `conn_outputs` exactly as the code fills them;
  `edges m io` — `NeuronConnector.edges(include_other=io)`.
* `specEdges io rows` — the *definition*: the relational join of presynaptic with postsynaptic rows on the
  connector id (a multiset: one edge per pair of rows), plus — only when `io` — one `__OTHER__` edge per row
  whose connector has no partner row of the other kind.
* `PreUnique rows` — every connector id is presynaptic on at most one row (a synapse has one presynaptic
  site; navis logs "connector tables are probably inconsistent" otherwise and keeps the last one).
-/
namespace Navis.Props.C20
open Navis.Conn

/-! ## 1. the edge multiset is the join of the connector tables -/

/-- **edges_spec.** For every list of connector rows satisfying `PreUnique` and both values of
`include_other`, the edge stream navis produces is, as a multiset, exactly the relational join: an edge
`A → B` for every (row presynaptic on `A`, row postsynaptic on `B`) pair sharing a connector id — so polyadic
connectors and repeated rows count with multiplicity — and `__OTHER__` edges exactly when requested. -/
theorem edges_spec (io : Bool) (rows : List CRow) (h : PreUnique rows) :
    (edges (build rows) io).Perm (specEdges io rows) :=
  edges_perm_spec io rows h

/-- The same for a list of neurons (duplicate names, missing connector tables, ignored types included). -/
theorem connEdges_spec (io : Bool) (ns : List Neuron) (h : PreUnique (flatRows ns)) :
    (connEdges ns io).Perm (specEdges io (flatRows ns)) :=
  edges_perm_spec io _ h

/-- **Multiplicity.** In the join — hence, under `PreUnique`, in navis' edge stream — the fully known edge
`A → B` through connector `c` from node `a` to node `b` occurs exactly
(#rows `(A, c, a, pre)`) × (#rows `(B, c, b, post)`) times, for both values of `include_other`. -/
theorem edge_multiplicity (io : Bool) (rows : List CRow) (h : PreUnique rows) (c a b : Int) (A B : String) :
    (edges (build rows) io).count ⟨c, A, B, some a, some b⟩
      = rows.count ⟨A, c, a, 0⟩ * rows.count ⟨B, c, b, 1⟩ := by
  rw [(edges_spec io rows h).count_eq]
  exact count_specEdges_known io rows c a b A B

/-- **`__OTHER__` exactly when requested (specification side).** `include_other=False` yields precisely the
edges of `include_other=True` whose two partners are known: nothing else is dropped, nothing is added. -/
theorem other_only_filters (rows : List CRow) :
    specEdges false rows = (specEdges true rows).filter knownBoth :=
  specEdges_false rows

/-- The same on the code side, under the guard. -/
theorem edges_other_only_filters (rows : List CRow) (h : PreUnique rows) :
    (edges (build rows) false).Perm ((edges (build rows) true).filter knownBoth) := by
  refine (edges_spec false rows h).trans ?_
  rw [other_only_filters]
  exact ((edges_spec true rows h).filter _).symm

/-- Without any guard: with `include_other=False` no edge has an unknown end. -/
theorem no_other_unless_requested (m : Maps) (e : Edge) (h : e ∈ edges m false) :
    e.srcNode.isSome = true ∧ e.tgtNode.isSome = true := by
  have := mem_edges_false h
  simpa [knownBoth] using this

/-- Soundness of the run-time checker the driver evaluates on navis' *own* edge list: it accepts exactly
the permutations of the join, which under the guard are exactly the permutations of the model's stream. -/
theorem checkEdges_sound (io : Bool) (rows : List CRow) (es : List Edge) :
    checkEdges io rows es = true ↔ es.Perm (specEdges io rows) := by
  unfold checkEdges
  exact List.isPerm_iff

theorem preUniqueB_sound (rows : List CRow) : preUniqueB rows = true ↔ PreUnique rows :=
  preUniqueB_iff rows

/-! ## 2. what the code does outside the guard -/

/-- **Last writer wins** (all inputs, no guard): `conn_inputs[c]` is the *last* presynaptic row of
connector `c` in visiting order; all earlier presynaptic rows of `c` are forgotten. -/
theorem conn_inputs_last_writer (rows : List CRow) (c : Int) :
    dget (build rows).inputs c = (preRows rows c).getLast?.map fun p => (p.name, p.node) :=
  inputs_last_writer rows c

/-- `conn_outputs[c]` keeps every postsynaptic row of `c`, in order, with repetitions (all inputs). -/
theorem conn_outputs_all (rows : List CRow) (c : Int) :
    dget (build rows).outputs c
      = if postRows rows c = [] then none else some ((postRows rows c).map fun p => (p.name, p.node)) :=
  outputs_all rows c

/-- connector 5 is presynaptic on `A` (node 1) and on `B` (node 2) and postsynaptic on `C` (node 3) -/
def witnessRows : List CRow := [⟨"A", 5, 1, 0⟩, ⟨"B", 5, 2, 0⟩, ⟨"C", 5, 3, 1⟩]

/-- **edges_not_preunique_witness.** Outside `PreUnique` the code's edge stream is *not* the join: the edge
`A → C` is lost, only the last writer `B → C` survives. -/
theorem edges_not_preunique_witness :
    ¬ PreUnique witnessRows
    ∧ edges (build witnessRows) true = [⟨5, "B", "C", some 2, some 3⟩]
    ∧ specEdges true witnessRows = [⟨5, "A", "C", some 1, some 3⟩, ⟨5, "B", "C", some 2, some 3⟩]
    ∧ ¬ (edges (build witnessRows) true).Perm (specEdges true witnessRows) := by
  refine ⟨?_, by decide, by decide, ?_⟩
  · rw [← preUniqueB_sound]; decide
  · rw [← List.isPerm_iff]; decide

/-! ## 3. adjacency matrix, weighted digraph and multigraph are views of one edge multiset -/

/-- **three_views_agree.** For *every* edge stream `es` (in particular navis' own) and every ordered pair of
graph nodes `s`, `t`:
* the adjacency cell, the digraph weight and the number of parallel multigraph edges all equal the number of
  stream edges `s → t`;
* the digraph edge exists iff that number is non-zero, and then its `connectors` table is — row for row,
  `(connector_id, pre_node, post_node)` — the list of parallel multigraph edges, which is the sub-stream
  of edges `s → t`. -/
theorem three_views_agree (es : List Edge) (s t : String) :
    adjCell es s t = (between es s t).length
    ∧ digraphWeight es s t = adjCell es s t
    ∧ (multiBetween es s t).length = adjCell es s t
    ∧ multiBetween es s t = (between es s t).map Edge.syn
    ∧ digraphConns es s t = (if adjCell es s t = 0 then none else some (multiBetween es s t)) := by
  refine ⟨adjCell_eq es s t, ?_, ?_, multiBetween_eq es s t, ?_⟩
  · rw [digraphWeight_eq, adjCell_eq]
  · rw [multiBetween_eq, adjCell_eq, List.length_map]
  · rw [digraphConns_eq, adjCell_eq, multiBetween_eq]
    by_cases h : between es s t = []
    · simp [h]
    · have : (between es s t).length ≠ 0 := fun h0 => h (List.eq_nil_of_length_eq_zero h0)
      simp [h, this]

/-- The views only depend on the edge *multiset* where they should: permuting the stream leaves every
adjacency cell and digraph weight unchanged and permutes the per-pair connector tables. -/
theorem views_perm_invariant (es es' : List Edge) (h : es.Perm es') (s t : String) :
    adjCell es s t = adjCell es' s t
    ∧ digraphWeight es s t = digraphWeight es' s t
    ∧ (multiBetween es s t).Perm (multiBetween es' s t) := by
  have hb : (between es s t).Perm (between es' s t) := h.filter _
  refine ⟨?_, ?_, ?_⟩
  · rw [adjCell_eq, adjCell_eq]; exact hb.length_eq
  · rw [digraphWeight_eq, digraphWeight_eq]; exact hb.length_eq
  · rw [multiBetween_eq, multiBetween_eq]; exact hb.map _

/-- Putting 1 and 3 together: under the guard every adjacency cell counts the pairs of the join. -/
theorem adjacency_counts_join (io : Bool) (rows : List CRow) (h : PreUnique rows) (s t : String) :
    adjCell (edges (build rows) io) s t = (between (specEdges io rows) s t).length := by
  rw [adjCell_eq]
  exact ((edges_spec io rows h).filter _).length_eq

/-! ## 4. `group_matrix` conserves totals -/

/-- **Cell formula** (all methods, all groupings): a cell of the grouped matrix aggregates, first over the
member rows and then over the member columns, the cells of the original matrix. -/
theorem group_cell (m : Method) (rg cg : List (String × String)) (hr : rg.isEmpty = false)
    (hc : cg.isEmpty = false) (drop : Bool) (M : LMat) (G H : String) :
    (groupCore m rg cg drop M).val G H
      = agg m (((keptRows cg drop M.cols).filter fun c => decide (glabel cg c = H)).map fun c =>
          agg m (((keptRows rg drop M.rows).filter fun r => decide (glabel rg r = G)).map fun r => M.val r c)) := by
  simp [groupCore, hr, hc, groupRows, transpose]

/-- **group_sum_conserved.** For every labelled matrix, every row grouping and every column grouping (either
dict format, groups that merge with ungrouped labels, empty groupings included), `method='SUM'` without
`drop_ungrouped` conserves the sum of all cells. -/
theorem group_sum_conserved (rg cg : Groups) (M : LMat) :
    total (groupMatrix .sum rg cg false M) = total M := by
  unfold groupMatrix
  split
  · rfl
  · rw [total_groupCore_sum, restrict_nodrop]

/-- With `drop_ungrouped=True` the total conserved is that of the sub-matrix of grouped rows / columns
(an axis without a grouping is left alone, as in the code). -/
theorem group_sum_dropped (rg cg : Groups) (drop : Bool) (M : LMat) (h : (rg.isEmpty && cg.isEmpty) = false) :
    total (groupMatrix .sum rg cg drop M) = total (restrict rg.toMap cg.toMap drop M) := by
  unfold groupMatrix
  rw [h]
  exact total_groupCore_sum _ _ _ _

/-! ## 5. non-vacuity -/

/-- shared connector 1 (A→B), polyadic connector 2 (A→B twice, A→C), autapse via 2, dangling 3 (pre only)
and 4 (post only), an ignored type, a repeated postsynaptic row -/
def sampleRows : List CRow :=
  [⟨"A", 1, 10, 0⟩, ⟨"A", 2, 11, 0⟩, ⟨"A", 3, 12, 0⟩, ⟨"A", 2, 13, 1⟩,
   ⟨"B", 1, 20, 1⟩, ⟨"B", 2, 21, 1⟩, ⟨"B", 2, 21, 1⟩, ⟨"B", 4, 22, 1⟩, ⟨"B", 9, 23, 2⟩,
   ⟨"C", 2, 30, 1⟩]

example : PreUnique sampleRows := (preUniqueB_sound _).mp (by decide)
example : (edges (build sampleRows) true).length = 7 := by decide
example : (edges (build sampleRows) false).length = 5 := by decide
example : (edges (build sampleRows) true).count ⟨2, "A", "B", some 11, some 21⟩ = 2 := by decide
example : checkEdges true sampleRows (edges (build sampleRows) true).reverse = true := by decide
example : adjCell (edges (build sampleRows) true) "A" "B" = 3 := by decide
example : adjCell (edges (build sampleRows) true) OTHER "B" = 1 := by decide
example : digraphConns (edges (build sampleRows) true) "A" OTHER = some [(3, some 12, none)] := by decide
example : digraphConns (edges (build sampleRows) false) "A" OTHER = none := by decide

/-- a 3×3 matrix with cells `3·i + j`, rows/columns `a b c` -/
def sampleMat : LMat :=
  ⟨["a", "b", "c"], ["a", "b", "c"], fun r c =>
    (3 * (["a", "b", "c"].idxOf r) + ["a", "b", "c"].idxOf c : Nat)⟩

example : total sampleMat = 36 := by decide +kernel
example : total (groupMatrix .sum (.byNeuron [("a", "g"), ("b", "g")]) (.byGroup [("h", ["b", "c"])]) false sampleMat) = 36 := by
  decide +kernel
example : (groupMatrix .sum (.byNeuron [("a", "g"), ("b", "g")]) (.byGroup [("h", ["b", "c"])]) false sampleMat).val "g" "h" = 12 := by
  decide +kernel
example : total (groupMatrix .sum (.byNeuron [("a", "g"), ("b", "g")]) (.byNeuron []) true sampleMat) = 15 := by decide +kernel
example : (groupMatrix .avg (.byNeuron [("a", "g"), ("b", "g")]) (.byNeuron []) false sampleMat).val "g" "c" = 7 / 2 := by
  decide +kernel

end Navis.Props.C20
