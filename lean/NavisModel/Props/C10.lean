import NavisModel.Proofs.RerootLemmas
/-!
# C10 — reroot, cut and subset change the tree exactly as specified

Property theorems only; helper lemmas are in `Proofs/ForestLemmas.lean`, `Proofs/PathLemmas.lean`,
`Proofs/RerootLemmas.lean`.  All statements are for every table `t` (any size, any id labelling, any
row order) that is a well-formed forest `WF t`, every target node, every keep-predicate.
-/
namespace Navis.Props.C10
open Navis.Forest

/-- Subsetting returns precisely the requested nodes that are present (ids, in table order). -/
theorem subset_exact_ids (t : Table) (keep : Int → Bool) : ids (subset t keep) = (ids t).filter keep :=
  ids_subset t keep

/-- … with the original parent link wherever both ends survive and a new root otherwise, and with
unchanged coordinates. -/
theorem subset_exact_links (t : Table) (hw : WF t) (keep : Int → Bool) (m : Node) (hm : m ∈ subset t keep) :
    ∃ n ∈ t, n.id = m.id ∧ keep n.id = true ∧ m.x = n.x ∧ m.y = n.y ∧ m.z = n.z ∧
      m.parent = (if n.parent ∈ (ids t).filter keep then n.parent else -1) :=
  subset_parent hw.1 keep hm

/-- The result of subsetting is again a well-formed forest with correct labels. -/
theorem subset_wf (t : Table) (hw : WF t) (keep : Int → Bool) :
    WF (subset t keep) ∧ labelsOKB (subset t keep) = true :=
  ⟨WF_subset hw keep, labelsOKB_subset t keep⟩

/-- Rerooting keeps the node set (ids, in table order). -/
theorem reroot_nodes (t : Table) (r : Int) : ids (reroot t r) = ids t := ids_reroot t r

/-- Rerooting (to one target or a sequence of targets) yields a well-formed forest: no cycle is
created by the path reversal, for any forest and any target. -/
theorem reroot_wf (t : Table) (hw : WF t) (rs : List Int) : WF (rerootMany t rs) := WF_rerootMany hw rs

/-- Both pieces of a cut are well-formed, correctly labelled forests. -/
theorem cut_wf (t : Table) (hw : WF t) (c : Int) (d p : Table) (h : cut t c = some (d, p)) :
    WF d ∧ WF p ∧ labelsOKB d = true ∧ labelsOKB p = true := by
  unfold cut at h
  cases hf : find? t c with
  | none => rw [hf] at h; simp at h
  | some nc =>
    rw [hf] at h; simp only at h
    split at h
    · simp at h
    · simp only [Option.some.injEq, Prod.mk.injEq] at h
      obtain ⟨rfl, rfl⟩ := h
      exact ⟨WF_subset hw _, WF_subset hw _, labelsOKB_subset _ _, labelsOKB_subset _ _⟩

/-- The two pieces of a cut share exactly the cut node and together contain every node. -/
theorem cut_share_only_cutnode (t : Table) (c : Int) (d p : Table) (h : cut t c = some (d, p)) (i : Int) :
    (i ∈ ids d ∧ i ∈ ids p ↔ i ∈ ids t ∧ i = c ∧ c ∈ distalSet t c) ∧ (i ∈ ids t → i ∈ ids d ∨ i ∈ ids p) := by
  unfold cut at h
  cases hf : find? t c with
  | none => rw [hf] at h; simp at h
  | some nc =>
    rw [hf] at h; simp only at h
    split at h
    · simp at h
    · simp only [Option.some.injEq, Prod.mk.injEq] at h
      obtain ⟨rfl, rfl⟩ := h
      simp only [ids_subset, List.mem_filter, List.contains_eq_mem, decide_eq_true_eq, Bool.or_eq_true,
        Bool.not_eq_true', decide_eq_false_iff_not, beq_iff_eq]
      constructor
      · constructor
        · rintro ⟨⟨h1, h2⟩, _, h3 | h3⟩
          · exact absurd h2 h3
          · exact ⟨h1, h3, h3 ▸ h2⟩
        · rintro ⟨h1, rfl, h3⟩
          exact ⟨⟨h1, h3⟩, h1, Or.inr rfl⟩
      · intro hi
        by_cases hd : i ∈ distalSet t c
        · exact Or.inl ⟨hi, hd⟩
        · exact Or.inr ⟨hi, Or.inl hd⟩

/-! ### Non-vacuity -/

def ex : Table := [⟨1, -1, 0, 0, 0, .root⟩, ⟨2, 1, 3, 0, 0, .branch⟩, ⟨3, 2, 6, 0, 0, .end_⟩, ⟨4, 2, 3, 4, 0, .end_⟩]

example : wfB ex = true ∧ labelsOKB ex = true := by decide
example : (reroot ex 4).map (fun n => (n.id, n.parent, n.label)) =
    [(1, 2, .end_), (2, 4, .branch), (3, 2, .end_), (4, -1, .root)] := by decide
example : (cut ex 2).map (fun dp => (ids dp.1, ids dp.2)) = some ([2, 3, 4], [1, 2]) := by decide

end Navis.Props.C10
