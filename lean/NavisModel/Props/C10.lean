import NavisModel.Proofs.RerootLemmas
import NavisModel.Proofs.RerootEdgesLemmas
import NavisModel.Proofs.ConnSubLemmas
import NavisModel.Proofs.TreeEditLemmas
import NavisModel.Proofs.CutFrontEndLemmas
import NavisModel.Proofs.CutFragmentsLemmas
import NavisModel.Gen.TreeEdit
import NavisModel.Proofs.RerootGraphLemmas
import NavisModel.Proofs.RerootNxLemmas
import NavisModel.Proofs.RerootTreesLemmas
import NavisModel.Proofs.TreeCheckLemmas
/-!
# C10 — reroot, cut and subset change the tree exactly as specified

Property theorems only; helper lemmas are in `Proofs/ForestLemmas.lean`, `Proofs/PathLemmas.lean`,
`Proofs/RerootLemmas.lean`, `Proofs/RerootEdgesLemmas.lean`.  All statements are for every table `t` (any size, any id labelling, any
row order) that is a well-formed forest `WF t`, every target node, every keep-predicate.
-/
namespace Navis.Props.C10
open Navis.Forest Navis.TreeEdit

/-- Subsetting returns precisely the requested nodes that are present (ids, in table order). -/
theorem subset_exact_ids (t : Table) (keep : Int → Bool) : ids (subset t keep) = (ids t).filter keep :=
  ids_subset t keep

/-- … with the original parent link wherever both ends survive and a new root otherwise, and with
unchanged coordinates. -/
theorem subset_exact_links (t : Table) (hw : WF t) (keep : Int → Bool) (m : Node) (hm : m ∈ subset t keep) :
    ∃ n ∈ t, n.id = m.id ∧ keep n.id = true ∧ m.x = n.x ∧ m.y = n.y ∧ m.z = n.z ∧
      m.parent = (if n.parent ∈ (ids t).filter keep then n.parent else -1) :=
  subset_parent hw.1 keep hm

/-- The result of subsetting is again a well-formed forest with correct labels. -/
theorem subset_wf (t : Table) (hw : WF t) (keep : Int → Bool) :
    WF (subset t keep) ∧ labelsOKB (subset t keep) = true :=
  ⟨WF_subset hw keep, labelsOKB_subset t keep⟩

/-- Rerooting keeps the node set (ids, in table order). -/
theorem reroot_nodes (t : Table) (r : Int) : ids (reroot t r) = ids t := ids_reroot t r

/-- Rerooting (to one target or a sequence of targets) yields a well-formed forest: no cycle is
created by the path reversal, for any forest and any target. -/
theorem reroot_wf (t : Table) (hw : WF t) (rs : List Int) : WF (rerootMany t rs) := WF_rerootMany hw rs

/-- Both pieces of a cut are well-formed, correctly labelled forests. -/
theorem cut_wf (t : Table) (hw : WF t) (c : Int) (d p : Table) (h : cut t c = some (d, p)) :
    WF d ∧ WF p ∧ labelsOKB d = true ∧ labelsOKB p = true := by
  unfold cut at h
  cases hf : find? t c with
  | none => rw [hf] at h; simp at h
  | some nc =>
    rw [hf] at h; simp only at h
    split at h
    · simp at h
    · simp only [Option.some.injEq, Prod.mk.injEq] at h
      obtain ⟨rfl, rfl⟩ := h
      exact ⟨WF_subset hw _, WF_subset hw _, labelsOKB_subset _ _, labelsOKB_subset _ _⟩

/-- The two pieces of a cut share exactly the cut node and together contain every node. -/
theorem cut_share_only_cutnode (t : Table) (c : Int) (d p : Table) (h : cut t c = some (d, p)) (i : Int) :
    (i ∈ ids d ∧ i ∈ ids p ↔ i ∈ ids t ∧ i = c ∧ c ∈ distalSet t c) ∧ (i ∈ ids t → i ∈ ids d ∨ i ∈ ids p) := by
  unfold cut at h
  cases hf : find? t c with
  | none => rw [hf] at h; simp at h
  | some nc =>
    rw [hf] at h; simp only at h
    split at h
    · simp at h
    · simp only [Option.some.injEq, Prod.mk.injEq] at h
      obtain ⟨rfl, rfl⟩ := h
      simp only [ids_subset, List.mem_filter, List.contains_eq_mem, decide_eq_true_eq, Bool.or_eq_true,
        Bool.not_eq_true', decide_eq_false_iff_not, beq_iff_eq]
      constructor
      · constructor
        · rintro ⟨⟨h1, h2⟩, _, h3 | h3⟩
          · exact absurd h2 h3
          · exact ⟨h1, h3, h3 ▸ h2⟩
        · rintro ⟨h1, rfl, h3⟩
          exact ⟨⟨h1, h3⟩, h1, Or.inr rfl⟩
      · intro hi
        by_cases hd : i ∈ distalSet t c
        · exact Or.inl ⟨hi, hd⟩
        · exact Or.inr ⟨hi, Or.inl hd⟩

/-! ### reroot: what exactly changes -/

/-- The requested node becomes a root (it has no parent afterwards). -/
theorem reroot_new_root (t : Table) (r : Int) (hr : r ∈ ids t) : ∃ n ∈ reroot t r, n.id = r ∧ n.parent < 0 :=
  reroot_new_root' t r hr

/-- Ids and coordinates stay where they are, row by row. -/
theorem reroot_coords_unchanged (t : Table) (r : Int) :
    (reroot t r).map (fun n => (n.id, n.x, n.y, n.z)) = t.map (fun n => (n.id, n.x, n.y, n.z)) :=
  reroot_coords t r

/-- A row whose node is not on the path `r → old root` is left completely alone: the very same row
(same parent, coordinates and label) is in the result. -/
theorem reroot_off_path_untouched (t : Table) (r : Int) (n : Node) (hn : n ∈ t) (hoff : n.id ∉ rootPath t r) :
    n ∈ reroot t r ∧ ∃ m ∈ reroot t r, m.id = n.id ∧ m.parent = n.parent :=
  ⟨reroot_off_path t r n hn hoff, n, reroot_off_path t r n hn hoff, rfl, rfl⟩

/-- Every node on `r`'s root path is in `r`'s tree, so … -/
theorem rootPath_same_tree (t : Table) (hw : WF t) (r a : Int) (ha : a ∈ rootPath t r) : rootOf t a = rootOf t r :=
  rootOf_of_mem_rootPath hw ha

/-- … all other trees of the forest are untouched by a reroot. -/
theorem reroot_other_trees_untouched (t : Table) (hw : WF t) (r : Int) (n : Node) (hn : n ∈ t)
    (hother : rootOf t n.id ≠ rootOf t r) : n ∈ reroot t r :=
  reroot_off_path t r n hn (not_mem_rootPath_of_rootOf_ne hw hother)

/-- Rerooting permutes the undirected edges: the edge *set* is the same and so is the number of
edges (no edge is lost, duplicated or invented by the path reversal). -/
theorem reroot_uedges (t : Table) (hw : WF t) (r : Int) :
    (uedges (reroot t r)).Perm (uedges t) ∧ (∀ e, e ∈ uedges (reroot t r) ↔ e ∈ uedges t) ∧
      (uedges (reroot t r)).length = (uedges t).length :=
  ⟨uedges_reroot_perm hw r, fun _ => (uedges_reroot_perm hw r).mem_iff, (uedges_reroot_perm hw r).length_eq⟩

/-- The *incremental* relabel navis performs (only the old and the new root are relabelled) gives
the labels a fresh classification would give. -/
theorem reroot_labels (t : Table) (hw : WF t) (hl : labelsOKB t = true) (r : Int) : labelsOKB (reroot t r) = true :=
  labelsOKB_reroot hw hl r

/-- … for a sequence of targets as well. -/
theorem rerootMany_labels (t : Table) (hw : WF t) (hl : labelsOKB t = true) (rs : List Int) :
    labelsOKB (rerootMany t rs) = true := by
  unfold rerootMany
  induction rs generalizing t with
  | nil => exact hl
  | cons r rs ih => exact ih (reroot t r) (WF_reroot hw r) (labelsOKB_reroot hw hl r)

/-! ### cut: which nodes and which edges go where -/

/-- The distal piece is the subtree of the cut node (descendants-or-self); the proximal piece is the
rest plus the cut node. -/
theorem cut_distal_is_subtree (t : Table) (c : Int) (d p : Table) (h : cut t c = some (d, p)) (i : Int) :
    (i ∈ ids d ↔ i ∈ ids t ∧ c ∈ rootPath t i) ∧ (i ∈ ids p ↔ i ∈ ids t ∧ (c ∉ rootPath t i ∨ i = c)) :=
  ⟨mem_ids_cut_distal h i, mem_ids_cut_proximal h i⟩

/-- Every original edge lies in exactly one of the two pieces, and the pieces contain no other edge. -/
theorem cut_edges_partition (t : Table) (hw : WF t) (c : Int) (d p : Table) (h : cut t c = some (d, p)) :
    (edges d ++ edges p).Perm (edges t) :=
  edges_cut_perm hw h

/-- In particular the edge count adds up. -/
theorem cut_edges_count (t : Table) (hw : WF t) (c : Int) (d p : Table) (h : cut t c = some (d, p)) :
    (edges d).length + (edges p).length = (edges t).length := by
  rw [← List.length_append]; exact (edges_cut_perm hw h).length_eq


/-! ### `subset_neuron(prevent_fragments=True)`: the connected subgraph -/

/-- Every requested node that exists is included in the connected subgraph. -/
theorem prevent_fragments_contains_request (t : Table) (hw : WF t) (ss : List Int) (s : Int) (hs : s ∈ ss)
    (hi : s ∈ ids t) : s ∈ (connectedSubgraph t ss).1 := by
  obtain ⟨ap, h1, _, h3⟩ := connSub_spec hw ss
  obtain ⟨r, hr, hrm, _⟩ := rootOf_spec hw hi
  obtain ⟨l, hl, hsl, _⟩ := exists_ssLeaf_below hw ss (t.length + 1) s hi hs (by omega)
  have hlt : l ∈ treeLeafs t ss r := mem_treeLeafs.mpr ⟨hl, by rw [← anc_rootOf hw hsl]; exact hr⟩
  have hspec := h1 r hrm (List.ne_nil_of_mem hlt)
  obtain ⟨l', hl', hsl', hap⟩ := hspec.covers s hs hi (by simp [inTree, hr])
  exact (h3 s).mpr ⟨r, hrm, l', hl', hsl', hap⟩

/-- Only existing nodes are included. -/
theorem prevent_fragments_sub_ids (t : Table) (hw : WF t) (ss : List Int) :
    ∀ x ∈ (connectedSubgraph t ss).1, x ∈ ids t := connSub_sub_ids hw ss

/-- The included set is connected within every tree of the forest (at most one kept top per tree), so
subsetting to it creates no additional fragments. -/
theorem prevent_fragments_connected (t : Table) (hw : WF t) (ss : List Int) :
    TreeConnected t (connectedSubgraph t ss).1 := connSub_treeConnected hw ss

/-- **Minimality**: every superset of the request that is connected within each tree contains the
included set — `connected_subgraph` adds exactly the nodes needed to bridge the request, for every forest,
every labelling and every request. -/
theorem prevent_fragments_minimal (t : Table) (hw : WF t) (ss K : List Int) (hsup : ∀ s ∈ ss, s ∈ K)
    (hconn : TreeConnected t K) : ∀ x ∈ (connectedSubgraph t ss).1, x ∈ K := connSub_min hw ss K hsup hconn

/-- The reroot navis performs after subsetting changes nothing: the new roots are already the tops of
the included set, so `subset_neuron(prevent_fragments=True)` *is* `subset` on the connected subgraph
(and therefore inherits `subset_exact_ids`, `subset_exact_links`, `subset_wf`). -/
theorem prevent_fragments_is_subset (t : Table) (hw : WF t) (ss : List Int) :
    subsetPF t ss = subset t fun i => (connectedSubgraph t ss).1.contains i := subsetPF_eq hw ss


/-! ## Second pass

### reroot: cable length, weights, sequences of targets, the loop as the source spells it -/

/-- Rerooting (one target or a sequence) does not change the cable length, for every symmetric edge length
(in particular the Euclidean one navis uses). -/
theorem reroot_cable (t : Table) (hw : WF t) (len : Int → Int → Nat) (hsym : ∀ a b, len a b = len b a) (rs : List Int) :
    cable (rerootMany t rs) len = cable t len := cable_rerootMany hw len hsym rs

/-- Rerooting keeps the undirected edges *with their weights*: the weighted undirected edge list of the graph of
the rerooted table is a permutation of the original one. -/
theorem reroot_weighted_uedges (t : Table) (hw : WF t) (len : Int → Int → Nat) (hsym : ∀ a b, len a b = len b a)
    (rs : List Int) : (wuedges (graphOf (rerootMany t rs) len)).Perm (wuedges (graphOf t len)) :=
  wuedges_reroot_perm hw len hsym rs

/-- A sequence of targets: node set and coordinates stay row by row, the undirected edges are permuted, and the
LAST target ends up as a root. -/
theorem reroot_sequence (t : Table) (hw : WF t) (rs : List Int) :
    ids (rerootMany t rs) = ids t ∧
    (rerootMany t rs).map (fun n => (n.id, n.x, n.y, n.z)) = t.map (fun n => (n.id, n.x, n.y, n.z)) ∧
    (uedges (rerootMany t rs)).Perm (uedges t) :=
  ⟨ids_rerootMany t rs, coords_rerootMany t rs, uedges_rerootMany_perm hw rs⟩

/-- A target that is already a root (or does not exist) leaves the table exactly as it is. -/
theorem reroot_current_root_noop (t : Table) (hw : WF t) (n : Node) (hn : n ∈ t) (hp : n.parent < 0) : reroot t n.id = t := by
  unfold reroot
  rw [find?_of_mem hw.1 hn]
  simp [hp]

theorem reroot_sequence_last_is_root (t : Table) (rs : List Int) (r : Int) (hr : r ∈ ids t) :
    ∃ n ∈ rerootMany t (rs ++ [r]), n.id = r ∧ n.parent < 0 := rerootMany_last_root t rs r hr

/-- **The loop of `reroot_skeleton` as the source spells it** — `x.nodes.loc[path[a:b], 'parent_id'] = path[c:d]`,
`x.nodes.loc[new_root, 'parent_id'] = p`, the skip test — with the slices, the value and the kind of skip test
*read from the current source* (`Gen.TreeEdit.rerootSpec`) is the model's `rerootMany`, whatever snapshot of the
roots a stale skip test would have used. -/
theorem reroot_loop_as_written (t : Table) (hw : WF t) (snapshot rs : List Int) :
    rerootLoopAW Gen.TreeEdit.rerootSpec snapshot t rs = rerootMany t rs := by
  have h : Gen.TreeEdit.rerootSpec = refRerootSpec := by decide
  rw [h]
  exact rerootLoopAW_ref snapshot hw

/-- `TreeNeuron.reroot` and the `root` setter hand their working copy / `self` to that loop with `inplace=True`. -/
theorem reroot_entry_points : Gen.TreeEdit.rerootMethodForwards = true ∧ Gen.TreeEdit.rootSetterReroots = true := by decide

/-- Targets given as tags: the parse loop keeps the targets as objects (`force_type=object`), so a tag is replaced by the
node id it names — the id, not a string image of it — and ids listed next to tags stay ids (read from the current
source; before the repair a tag turned the whole list into a string array and rerooting by tag always raised). -/
theorem reroot_targets_keep_their_type : Gen.TreeEdit.rerootTargetsKeptAsObjects = true := by decide

/-- … and in the model a tag that names exactly one node resolves to that node: rerooting to it makes it a root. -/
theorem reroot_by_tag (x y : Neuron) (tg : Tags) (s : String) (i : Int) (htg : x.tags = some tg) (hs : lookupTag tg s = some [i])
    (h : rerootNeuron x [Where.tag s] = .ok y) : y.nodes = reroot x.nodes i ∧ i ∈ ids x.nodes := by
  unfold rerootNeuron at h
  simp only [resolveRoots, htg, hs] at h
  split at h
  · rename_i hall
    simp only [Except.ok.injEq] at h
    subst h
    simp only [List.all_cons, List.all_nil, Bool.and_true, List.contains_eq_mem, decide_eq_true_eq] at hall
    exact ⟨rfl, hall⟩
  · simp at h

/-- Rerooting a neuron (ids or tags as targets) touches nothing but the node table. -/
theorem reroot_keeps_attachments (x y : Neuron) (targets : List Where) (h : rerootNeuron x targets = .ok y) :
    y.conns = x.conns ∧ y.tags = x.tags ∧ y.soma = x.soma := by
  unfold rerootNeuron at h
  cases hr : resolveRoots x targets with
  | error e => rw [hr] at h; simp at h
  | ok rs =>
    rw [hr] at h
    simp only at h
    split at h
    · simp only [Except.ok.injEq] at h
      subst h
      exact ⟨rfl, rfl, rfl⟩
    · simp at h


/-- **The graph navis edits in place is the graph of the new table.**  The igraph branch of `reroot_skeleton` reads
the weights along the path, appends the inverted edges with those weights and deletes the path edges; navis keeps
that graph instead of recomputing it.  Up to the order of the edge list it *is* the weighted graph of the rerooted
node table — for every forest, every non-root target, every symmetric edge length. -/
theorem reroot_graph_in_place (t : Table) (hw : WF t) (len : Int → Int → Nat) (hsym : ∀ a b, len a b = len b a)
    (r : Int) (nr : Node) (hf : find? t r = some nr) (hp : ¬ nr.parent < 0) :
    (rerootGraphIg (graphOf t len) (rootPath t r)).Perm (graphOf (reroot t r) len) :=
  rerootGraphIg_perm hw len hsym hf hp

/-- **The networkx branch as the source spells it.**  Follow `successors` from the new root, remove each edge and
record its weight, stop when there is no successor, add the inverted edges — with the skip test and the loop test
*read from the current source* (`Gen.TreeEdit.nxWalkSpec`: identity tests against `None`, not truthiness, so the node
id 0 does not end the walk) the edited graph is the graph of the rerooted node table: every forest, every target
(current roots and absent ids: nothing happens), every symmetric edge length, node id 0 anywhere on the path. -/
theorem reroot_graph_in_place_networkx (t : Table) (hw : WF t) (len : Int → Int → Nat) (hsym : ∀ a b, len a b = len b a) (r : Int) :
    (rerootGraphNxAW Gen.TreeEdit.nxWalkSpec (graphOf t len) r).Perm (graphOf (reroot t r) len) := by
  have h : Gen.TreeEdit.nxWalkSpec = refNxWalkSpec := by decide
  rw [h]
  exact rerootGraphNxAW_ref_perm hw len hsym r

/-- … and the two back-ends edit the graph to literally the same edge list. -/
theorem reroot_graph_backends_agree (t : Table) (hw : WF t) (len : Int → Int → Nat) (r : Int) (hr : r ∈ ids t) :
    rerootGraphNx (graphOf t len) r = rerootGraphIg (graphOf t len) (rootPath t r) := rerootGraphNx_eq_ig hw len hr

/-- The other facts of the networkx branch the model hard-wires: `next(g.successors(.), None)` and
`(path[i + 1], path[i], {'weight': weights[i]}) for i in range(len(path) - 1)`. -/
theorem reroot_networkx_source_facts :
    Gen.TreeEdit.nxSuccessorDefaultsToNone = true ∧ Gen.TreeEdit.nxInvertedEdgesKeepTheirWeights = true := by decide

/-- **Other fragments are untouched by a whole sequence of reroots**: a row whose tree contains none of the targets
is in the result, unchanged. -/
theorem reroot_sequence_other_trees_untouched (t : Table) (hw : WF t) (rs : List Int) (n : Node) (hn : n ∈ t)
    (hother : ∀ r ∈ rs, rootOf t n.id ≠ rootOf t r) : n ∈ rerootMany t rs := rerootMany_other_trees hw n hn hother

/-- After rerooting to a non-root node `r`, every node of `r`'s tree has root `r`, and the trees are the same sets of
nodes as before. -/
theorem reroot_tree_membership (t : Table) (hw : WF t) (r : Int) (nr : Node) (hf : find? t r = some nr) (hp : ¬ nr.parent < 0)
    (i : Int) (hi : i ∈ ids t) :
    (rootOf t i = rootOf t r → rootOf (reroot t r) i = some r) ∧
    (rootOf t i ≠ rootOf t r → rootOf (reroot t r) i = rootOf t i) :=
  ⟨fun h => rootOf_reroot_same hw hf hp hi h, fun h => rootOf_reroot_other hw r hi h⟩

/-! ### checkers evaluated by the driver on navis' own output -/

/-- `rerootOKB` is sound (acceptance gives every clause: ids and coordinates row by row, a well-formed correctly
labelled forest, the same undirected edges, the target is a root, rows off the path untouched) … -/
theorem reroot_checker_sound (t t' : Table) (r : Int) (h : rerootOKB t t' r = true) :
    ids t' = ids t ∧ coordRows t' = coordRows t ∧ WF t' ∧ labelsOKB t' = true ∧ (uedges t').Perm (uedges t) ∧
    (∃ n ∈ t', n.id = r ∧ n.parent < 0) ∧ (∀ n ∈ t, n.id ∉ rootPath t r → n ∈ t') := rerootOKB_sound h

/-- … and complete (the model's output is accepted, so a correct implementation is never rejected). -/
theorem reroot_checker_complete (t : Table) (hw : WF t) (hl : labelsOKB t = true) (r : Int) (hr : r ∈ ids t) :
    rerootOKB t (reroot t r) r = true := rerootOKB_complete hw hl hr

/-- `fragsOKB` accepts exactly the permutations of the fragments of `cutMany`. -/
theorem cuts_checker_iff (t : Table) (hw : WF t) (ρ : Int) (hroot : roots t = [ρ]) (cs : List Int) (hne : cs ≠ [])
    (hnd : cs.Nodup) (hcs : ∀ c ∈ cs, c ∈ ids t ∧ c ≠ ρ) (frags : List Table) :
    fragsOKB t ρ cs frags = true ↔ frags.Perm (cutMany t cs) := fragsOKB_iff hw hroot hne hnd hcs frags

theorem subset_checker_sound (t t' : Table) (keep : Int → Bool) (h : subsetOKB t t' keep = true) :
    ids t' = (ids t).filter keep ∧ labelsOKB t' = true ∧
    ∀ m ∈ t', ∃ n, find? t m.id = some n ∧ m.x = n.x ∧ m.y = n.y ∧ m.z = n.z ∧
      m.parent = (if n.parent ∈ (ids t).filter keep then n.parent else -1) := subsetOKB_sound h

theorem subset_checker_complete (t : Table) (hw : WF t) (keep : Int → Bool) : subsetOKB t (subset t keep) keep = true :=
  subsetOKB_complete hw keep

/-- **Exactness**: on a well-formed input the subset checker accepts the model's output and nothing else — so the
clauses it tests (requested ids in table order, coordinates, parent kept iff it survives, labels) pin the result down
completely. -/
theorem subset_checker_exact (t : Table) (hw : WF t) (keep : Int → Bool) (t' : Table) :
    subsetOKB t t' keep = true ↔ t' = subset t keep := subsetOKB_iff hw keep t'

/-! ### several cuts -/

/-- **The fragments of several cuts**: cutting a single tree with root `ρ` at the distinct non-root nodes `cs`
(at least one) yields one fragment per top `τ ∈ ρ :: cs`: the nodes below-or-at `τ` for which every cut node met on
the way up to `τ` is `τ` itself or the starting node (a cut node roots its own fragment and is a leaf of the one
above).  For `cs = []` the statement would be false only because `cutMany t [] = [t]` is not re-classified. -/
theorem cuts_fragments (t : Table) (hw : WF t) (ρ : Int) (hroot : roots t = [ρ]) (cs : List Int) (hne : cs ≠ [])
    (hnd : cs.Nodup) (hcs : ∀ c ∈ cs, c ∈ ids t ∧ c ≠ ρ) :
    (cutMany t cs).Perm ((ρ :: cs).map fun τ => subset t (fragKeep t cs τ)) :=
  cutMany_fragments_partial hw hroot cs hnd hcs (Or.inl hne)

/-- **Several cuts give the same fragments in whatever order they are made** (in particular: cutting at `a` and
then, in the piece that contains it, at `b` gives the fragments of cutting at `b` first). -/
theorem cuts_commute (t : Table) (hw : WF t) (ρ : Int) (hroot : roots t = [ρ]) (cs cs' : List Int)
    (hnd : cs.Nodup) (hcs : ∀ c ∈ cs, c ∈ ids t ∧ c ≠ ρ) (hp : cs'.Perm cs) :
    (cutMany t cs').Perm (cutMany t cs) := cutMany_perm hw hroot hnd hcs hp

/-- Several cuts are *by definition of the loop* successive single cuts, each made in the fragment that contains
the node: the fragment list after `cs ++ [c]` is one more `cutStep`. -/
theorem cuts_are_successive_single_cuts (t : Table) (cs : List Int) (c : Int) :
    cutMany t (cs ++ [c]) = cutStep (cutMany t cs) c := by
  rw [cutMany_eq_foldl, cutMany_eq_foldl, List.foldl_append]
  rfl

/-- For every list of cut nodes (any forest, duplicates and uncuttable nodes included): every fragment is a
well-formed, correctly labelled forest; the fragments together contain every original edge exactly once; and
every node is in some fragment. -/
theorem cuts_edges_partition (t : Table) (hw : WF t) (hl : labelsOKB t = true) (cs : List Int) :
    (∀ f ∈ cutMany t cs, WF f ∧ labelsOKB f = true) ∧
    ((cutMany t cs).flatMap edges).Perm (edges t) ∧
    (∀ i, i ∈ ids t ↔ ∃ f ∈ cutMany t cs, i ∈ ids f) :=
  let h := fragsOK_cutMany hw hl cs
  ⟨h.wf, h.edges, h.nodes⟩

/-- `cut_skeleton` with a list of ids (front end as written: single-tree guard, presence / root checks,
order-preserving de-duplication, fragment list surgery) returns, on the node tables, exactly `cutMany`. -/
theorem cut_skeleton_ids (x : Neuron) (cs : List Int) (out : List Neuron)
    (h : cutSkeleton x (cs.map Where.id) .both = .ok out) : out.map (·.nodes) = cutMany x.nodes (dedup cs) :=
  cutSkeleton_ids_nodes h

/-- Every fragment `cut_skeleton` returns (any `ret=`, ids and tags) is the input itself or carries exactly the
connectors, the tags and the soma of the input that sit on its nodes. -/
theorem cut_fragments_attachments (x : Neuron) (wh : List Where) (ret : Ret) (out : List Neuron)
    (h : cutSkeleton x wh ret = .ok out) :
    ∀ f ∈ out, f = x ∨ (f.conns = filterConns f.nodes x.conns ∧ f.tags = x.tags.map (filterTags f.nodes) ∧
      f.soma = filterSoma f.nodes x.soma) := cutSkeleton_attached h

/-- The facts of the current source that the model of the front end hard-wires. -/
theorem cut_source_facts :
    Gen.TreeEdit.cutSingleTreeGuard = true ∧ Gen.TreeEdit.cutIdPresenceCheck = true ∧ Gen.TreeEdit.cutIdRootCheck = true ∧
    Gen.TreeEdit.cutDedupKeepsFirst = true ∧ Gen.TreeEdit.cutInsertsDistalFirstAtIndex = true ∧
    Gen.TreeEdit.cutIgraphProximalKeepsCutNode = true ∧ Gen.TreeEdit.cutNetworkxProximalKeepsCutNode = true := by decide

/-! ### the prune methods with several nodes -/

/-- `prune_distal_to` with several nodes = the successive single prunes; when they all go through, the result is
the subset of the ORIGINAL table to the nodes that are not strictly below any listed node … -/
theorem prune_distal_several (t t' : Table) (hw : WF t) (c : Int) (cs : List Int)
    (h : pruneMany pruneDistal1 t (c :: cs) = some t') :
    t' = subset t (keepDistalMany t (c :: cs)) ∧
    ∀ i, i ∈ ids t' ↔ i ∈ ids t ∧ ∀ x ∈ c :: cs, x ∈ rootPath t i → i = x :=
  ⟨pruneMany_distal_eq hw h, mem_ids_pruneMany_distal hw h⟩

/-- … so the order of the nodes does not matter. -/
theorem prune_distal_order_irrelevant (t a b : Table) (hw : WF t) (cs cs' : List Int) (hne : cs ≠ []) (hp : cs'.Perm cs)
    (h1 : pruneMany pruneDistal1 t cs = some a) (h2 : pruneMany pruneDistal1 t cs' = some b) : a = b :=
  pruneMany_distal_perm hw hne hp h1 h2

/-- `prune_proximal_to` with several nodes: the subtree of the LAST node (which descends from the first). -/
theorem prune_proximal_several (t t' : Table) (hw : WF t) (c last : Int) (cs : List Int)
    (h : pruneMany pruneProximal1 t (c :: cs) = some t') (hl : (c :: cs).getLast? = some last) :
    t' = subset t (fun i => (rootPath t i).contains last) ∧ c ∈ rootPath t last :=
  pruneMany_proximal_eq hw h hl

/-- **`TreeNeuron.prune_distal_to` as the source spells its loop** (which neuron is cut inside the loop, `ret=`, the
index taken — read from the current source) returns the successive single prunes and raises exactly when one of
them is impossible. -/
theorem prune_distal_to_as_written (x : Neuron) (hw : WF x.nodes) (h1 : (roots x.nodes).length = 1) (cs : List Int) :
    okNodes (pruneMethod Gen.TreeEdit.pruneDistalSpec x (cs.map Where.id)) = pruneMany pruneDistal1 x.nodes cs := by
  have h : Gen.TreeEdit.pruneDistalSpec = refDistal := by decide
  rw [h]
  exact pruneLoop_distal_ids hw h1

/-- Both methods make the requested nodes iterable with `force_type=object`: in a list mixing ids and tags the ids stay
ids (read from the current source; before the repair they became strings and were looked up as tags). -/
theorem prune_nodes_keep_their_type : Gen.TreeEdit.pruneNodesKeptAsObjects = true := by decide

theorem prune_proximal_to_as_written (x : Neuron) (hw : WF x.nodes) (h1 : (roots x.nodes).length = 1) (cs : List Int) :
    okNodes (pruneMethod Gen.TreeEdit.pruneProximalSpec x (cs.map Where.id)) = pruneMany pruneProximal1 x.nodes cs := by
  have h : Gen.TreeEdit.pruneProximalSpec = refProximal := by decide
  rw [h]
  exact pruneLoop_proximal_ids hw h1

/-! ### subset: connectors, tags, soma, the mask form, subsetting twice -/

/-- The connector table after a subset is the original one filtered — same rows, same order, same multiplicities —
to the connectors whose node was requested and exists; with `keep_disc_cn` it is untouched. -/
theorem subset_connectors_exact (x : Neuron) (keep : Int → Bool) :
    (subsetNeuron x keep false).conns = x.conns.filter (fun c => keep c.node && (ids x.nodes).contains c.node) ∧
    (subsetNeuron x keep true).conns = x.conns :=
  ⟨subsetNeuron_conns x keep, subsetNeuron_conns_keep_disc x keep⟩

/-- A tag survives with exactly its ids on surviving nodes (in order) and only if at least one survives. -/
theorem subset_tags_exact (x : Neuron) (keep : Int → Bool) (tg : Tags) (htg : x.tags = some tg) (name : String) (l : List Int) :
    (∃ tg', (subsetNeuron x keep).tags = some tg' ∧
      ((name, l) ∈ tg' ↔ ∃ l0, (name, l0) ∈ tg ∧ l = l0.filter (fun i => (ids (subset x.nodes keep)).contains i) ∧ l ≠ [])) := by
  refine ⟨filterTags (subset x.nodes keep) tg, ?_, mem_filterTags⟩
  simp [subsetNeuron, htg]

/-- A pinned soma survives iff its node does. -/
theorem subset_soma_exact (x : Neuron) (keep : Int → Bool) (i : Int) :
    (subsetNeuron x keep).soma = some i ↔ x.soma = some i ∧ i ∈ ids (subset x.nodes keep) := filterSoma_eq_some

/-- A boolean mask (positional) selects the same neuron as the ids it marks. -/
theorem subset_mask_is_ids (t : Table) (keep : Int → Bool) : subsetMask t ((ids t).map keep) = subset t keep :=
  subsetMask_eq_subset t keep

/-- Subsetting twice is subsetting once to the intersection — for every table and every pair of requests. -/
theorem subset_twice (t : Table) (k1 k2 : Int → Bool) : subset (subset t k1) k2 = subset t fun i => k1 i && k2 i :=
  subset_subset t k1 k2

/-- Inside a subset the root path of a kept node is the kept initial piece of its original root path. -/
theorem subset_root_paths (t : Table) (hw : WF t) (keep : Int → Bool) (i : Int) (hi : i ∈ ids t) (hk : keep i = true) :
    rootPath (subset t keep) i = (rootPath t i).takeWhile keep := rootPath_subset hw keep i hi hk

/-- The facts of `_subset_treeneuron` in the current source that the model hard-wires: connectors are filtered by
their `node_id` against the surviving `node_id`s (unless `keep_disc_cn`), orphans get parent `-1`, tags are filtered
against the surviving ids and empty tags dropped, a boolean mask selects rows by position, a graph stands for its
nodes and a DataFrame for its `node_id` column, under `prevent_fragments` a mask is translated into ids first. -/
theorem subset_source_facts :
    Gen.TreeEdit.subsetConnFilterColumn = "node_id" ∧ Gen.TreeEdit.subsetConnFilterAgainst = "node_id" ∧
    Gen.TreeEdit.subsetConnGuard = true ∧ Gen.TreeEdit.subsetOrphanParent = -1 ∧
    Gen.TreeEdit.subsetOrphanTest = "x.nodes.parent_id.isin(x.nodes.node_id.values)" ∧
    Gen.TreeEdit.subsetTagCondition = "tn in x.nodes.node_id.values" ∧ Gen.TreeEdit.subsetDropsEmptyTags = true ∧
    Gen.TreeEdit.subsetMaskIsPositional = true ∧ Gen.TreeEdit.subsetGraphGivesItsNodes = true ∧
    Gen.TreeEdit.subsetFrameGivesNodeIdColumn = true ∧ Gen.TreeEdit.subsetPreventFragmentsMaskToIds = true := by decide

/-- With `prevent_fragments` a boolean mask is translated into the ids it marks before the connecting nodes are looked
for, so the mask form gives the neuron the id form gives (and inherits `prevent_fragments_*`). -/
theorem subset_prevent_fragments_mask_is_ids (x : Neuron) (keep : Int → Bool) (kd : Bool) :
    subsetNeuronPF x (maskIds x.nodes ((ids x.nodes).map keep)) kd = subsetNeuronPF x ((ids x.nodes).filter keep) kd := by
  rw [maskIds_eq_filter]

/-- The index literals of `connected_subgraph` that `Model/ConnSub.lean` hard-wires (`longestPath` = last of the
longest, `firstCommon` = first, `newRootOf` = last). -/
theorem connsub_source_facts :
    Gen.TreeEdit.connSubLongestIndex = -1 ∧ Gen.TreeEdit.connSubFirstCommonIndex = 0 ∧ Gen.TreeEdit.connSubNewRootIndex = -1 ∧
    Gen.TreeEdit.connSubSortKeys = ["lambda x: len(x)", "lambda x: longest_path.index(x)", "lambda x: longest_path.index(x)"] := by
  decide

/-! ### Non-vacuity -/

def ex : Table := [⟨1, -1, 0, 0, 0, .root⟩, ⟨2, 1, 3, 0, 0, .branch⟩, ⟨3, 2, 6, 0, 0, .end_⟩, ⟨4, 2, 3, 4, 0, .end_⟩]

example : wfB ex = true ∧ labelsOKB ex = true := by decide
example : (reroot ex 4).map (fun n => (n.id, n.parent, n.label)) =
    [(1, 2, .end_), (2, 4, .branch), (3, 2, .end_), (4, -1, .root)] := by decide
example : (cut ex 2).map (fun dp => (ids dp.1, ids dp.2)) = some ([2, 3, 4], [1, 2]) := by decide
-- reroot: the same undirected edges in a different order, labels still correct; the path is 4 → 2 → 1
example : uedges (reroot ex 4) = [(1, 2), (2, 4), (2, 3)] ∧ uedges ex = [(1, 2), (2, 3), (2, 4)] ∧
    labelsOKB (reroot ex 4) = true ∧ rootPath ex 4 = [4, 2, 1] := by decide
-- cut: the edge 2 → 1 stays proximal, the cut node is a root of the distal piece
example : (cut ex 2).map (fun dp => (edges dp.1, edges dp.2)) = some ([(3, 2), (4, 2)], [(2, 1)]) ∧
    edges ex = [(2, 1), (3, 2), (4, 2)] := by decide

-- prevent_fragments: requesting the two tips 3 and 4 pulls in the fork 2 (and nothing else)
example : connectedSubgraph ex [3, 4] = ([4, 2, 3], [2]) ∧ ids (subsetPF ex [3, 4]) = [2, 3, 4] := by decide

-- second pass -------------------------------------------------------------------------------------------------
/-- 11-node tree with sparse unsorted ids (the harness' fixed suite):
`10 ← 70 ← 30 ← 40 ← 55 ← 7 ← 90`, `55 ← 66 ← 81`, `30 ← 25 ← 12`. -/
def ex2 : Table := classify [⟨55, 40, 0, 0, 0, .slab⟩, ⟨10, -1, 0, 0, 0, .slab⟩, ⟨7, 55, 0, 0, 0, .slab⟩, ⟨70, 10, 0, 0, 0, .slab⟩,
  ⟨90, 7, 0, 0, 0, .slab⟩, ⟨30, 70, 0, 0, 0, .slab⟩, ⟨66, 55, 0, 0, 0, .slab⟩, ⟨40, 30, 0, 0, 0, .slab⟩, ⟨81, 66, 0, 0, 0, .slab⟩,
  ⟨25, 30, 0, 0, 0, .slab⟩, ⟨12, 25, 0, 0, 0, .slab⟩]
def nx2 : Neuron :=
  { nodes := ex2, conns := [⟨100, 90, 0⟩, ⟨101, 81, 1⟩, ⟨102, 55, 0⟩, ⟨103, 10, 1⟩], tags := some [("ta", [55]), ("many", [7, 81])], soma := some 10 }

example : wfB ex2 = true ∧ labelsOKB ex2 = true ∧ roots ex2 = [10] := by decide
-- two cuts in both orders: the same three fragments (as node sets: below 55, between 30 and 55, above 30)
example : (cutMany ex2 [55, 30]).map (fun f => (roots f, (ids f).length)) = [([55], 5), ([30], 5), ([10], 3)] ∧
    (cutMany ex2 [30, 55]).map (fun f => (roots f, (ids f).length)) = [([55], 5), ([30], 5), ([10], 3)] := by decide
example : ids (subset ex2 (fragKeep ex2 [55, 30] 30)) = [55, 30, 40, 25, 12] := by decide
-- prune_distal_to([55, 25]) in both orders, and what cutting `self` instead of the working copy would give
example : (pruneMany pruneDistal1 ex2 [55, 25]).map ids = some [55, 10, 70, 30, 40, 25] ∧
    (pruneMany pruneDistal1 ex2 [25, 55]).map ids = some [55, 10, 70, 30, 40, 25] := by decide
example : (okNodes (pruneMethod refDistal nx2 [.id 55, .id 25])).map ids = some [55, 10, 70, 30, 40, 25] ∧
    (okNodes (pruneMethod { refDistal with cutsWorkingCopy := false } nx2 [.id 55, .id 25])).map ids =
      some [55, 10, 7, 70, 90, 30, 66, 40, 81, 25] := by decide
-- a later node that was pruned away makes the call raise, as the successive single prunes do
example : pruneMany pruneDistal1 ex2 [55, 90] = none ∧ okNodes (pruneMethod refDistal nx2 [.id 55, .id 90]) = none := by decide
-- prune_proximal_to([30, 55]) keeps the subtree of 55
example : (pruneMany pruneProximal1 ex2 [30, 55]).map ids = some [55, 7, 90, 66, 81] := by decide
-- connectors / tags / soma of the pieces of a cut
example : (match cutSkeleton nx2 [.tag "ta"] .both with
    | .ok fs => fs.map (fun f => (f.conns.map (·.cid), f.tags, f.soma))
    | .error _ => []) =
    [([100, 101, 102], some [("ta", [55]), ("many", [7, 81])], none), ([102, 103], some [("ta", [55])], some 10)] := by decide
-- the slices of the source reverse the path 81 → 66 → 55 → 40 → 30 → 70 → 10
example : (rerootLoopAW Gen.TreeEdit.rerootSpec [] ex2 [81]).map (fun n => (n.id, n.parent)) =
    [(55, 66), (10, 70), (7, 55), (70, 30), (90, 7), (30, 40), (66, 81), (40, 55), (81, -1), (25, 30), (12, 25)] := by decide
-- a skip test that consulted a snapshot of the roots would not undo the first reroot
example : roots (rerootLoopAW { refRerootSpec with rereadsRoots := false } [10] ex2 [81, 10]) = [81] ∧
    roots (rerootMany ex2 [81, 10]) = [10] := by decide
-- mask form
example : subsetMask ex2 [true, true, false, true, false, true, false, false, false, false, true] = subset ex2 (fun i => [55, 10, 70, 30, 12].contains i) := by
  decide

-- reroot by tag, and a prune list mixing an id and a tag (both failed before the repairs of the source)
example : (match rerootNeuron nx2 [.tag "ta"] with | .ok y => roots y.nodes | .error _ => []) = [55] := by decide
example : (okNodes (pruneMethod refDistal nx2 [.id 25, .tag "ta"])).map ids = some [55, 10, 70, 30, 40, 25] := by decide
-- prevent_fragments with a mask marking 90, 81 and 12: the connecting nodes are added
example : ids (subsetNeuronPF nx2 (maskIds ex2 [false, false, false, false, true, false, false, false, true, false, true])).nodes =
    [55, 7, 90, 30, 66, 40, 81, 25, 12] := by decide
-- zero-based chain 0 ← 1 ← 2, reroot to 2: the walk with identity tests inverts both edges; a truthiness test
-- (`while parent:`) stops at the id 0 and leaves the edge 1 → 0 in place (two parents for 1 in the graph, edge lost in the table)
example : rerootGraphNxAW refNxWalkSpec [(1, 0, 3), (2, 1, 4)] 2 = [(1, 2, 4), (0, 1, 3)] ∧
    rerootGraphNxAW { refNxWalkSpec with loopIsNotNone := false } [(1, 0, 3), (2, 1, 4)] 2 = [(1, 0, 3), (1, 2, 4)] := by decide
-- the in-place graph edit on ex2 (unit weights): the edges on the path 81 → … → 10 are inverted, the others kept
example : rerootGraphIg (graphOf ex2 fun _ _ => 1) (rootPath ex2 81) =
    [(7, 55, 1), (90, 7, 1), (25, 30, 1), (12, 25, 1), (66, 81, 1), (55, 66, 1), (40, 55, 1), (30, 40, 1), (70, 30, 1), (10, 70, 1)] := by decide
example : rerootOKB ex2 (reroot ex2 81) 81 = true ∧ rerootOKB ex2 ex2 81 = false := by decide
example : fragsOKB ex2 10 [55, 30] (cutMany ex2 [30, 55]) = true ∧ fragsOKB ex2 10 [55, 30] [ex2] = false := by decide

end Navis.Props.C10
