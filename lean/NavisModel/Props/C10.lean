import NavisModel.Proofs.RerootLemmas
import NavisModel.Proofs.RerootEdgesLemmas
import NavisModel.Proofs.ConnSubLemmas
/-!
# C10 — reroot, cut and subset change the tree exactly as specified

Property theorems only; helper lemmas are in `Proofs/ForestLemmas.lean`, `Proofs/PathLemmas.lean`,
`Proofs/RerootLemmas.lean`, `Proofs/RerootEdgesLemmas.lean`.  All statements are for every table `t` (any size, any id labelling, any
row order) that is a well-formed forest `WF t`, every target node, every keep-predicate.
-/
namespace Navis.Props.C10
open Navis.Forest

/-- Subsetting returns precisely the requested nodes that are present (ids, in table order). -/
theorem subset_exact_ids (t : Table) (keep : Int → Bool) : ids (subset t keep) = (ids t).filter keep :=
  ids_subset t keep

/-- … with the original parent link wherever both ends survive and a new root otherwise, and with
unchanged coordinates. -/
theorem subset_exact_links (t : Table) (hw : WF t) (keep : Int → Bool) (m : Node) (hm : m ∈ subset t keep) :
    ∃ n ∈ t, n.id = m.id ∧ keep n.id = true ∧ m.x = n.x ∧ m.y = n.y ∧ m.z = n.z ∧
      m.parent = (if n.parent ∈ (ids t).filter keep then n.parent else -1) :=
  subset_parent hw.1 keep hm

/-- The result of subsetting is again a well-formed forest with correct labels. -/
theorem subset_wf (t : Table) (hw : WF t) (keep : Int → Bool) :
    WF (subset t keep) ∧ labelsOKB (subset t keep) = true :=
  ⟨WF_subset hw keep, labelsOKB_subset t keep⟩

/-- Rerooting keeps the node set (ids, in table order). -/
theorem reroot_nodes (t : Table) (r : Int) : ids (reroot t r) = ids t := ids_reroot t r

/-- Rerooting (to one target or a sequence of targets) yields a well-formed forest: no cycle is
created by the path reversal, for any forest and any target. -/
theorem reroot_wf (t : Table) (hw : WF t) (rs : List Int) : WF (rerootMany t rs) := WF_rerootMany hw rs

/-- Both pieces of a cut are well-formed, correctly labelled forests. -/
theorem cut_wf (t : Table) (hw : WF t) (c : Int) (d p : Table) (h : cut t c = some (d, p)) :
    WF d ∧ WF p ∧ labelsOKB d = true ∧ labelsOKB p = true := by
  unfold cut at h
  cases hf : find? t c with
  | none => rw [hf] at h; simp at h
  | some nc =>
    rw [hf] at h; simp only at h
    split at h
    · simp at h
    · simp only [Option.some.injEq, Prod.mk.injEq] at h
      obtain ⟨rfl, rfl⟩ := h
      exact ⟨WF_subset hw _, WF_subset hw _, labelsOKB_subset _ _, labelsOKB_subset _ _⟩

/-- The two pieces of a cut share exactly the cut node and together contain every node. -/
theorem cut_share_only_cutnode (t : Table) (c : Int) (d p : Table) (h : cut t c = some (d, p)) (i : Int) :
    (i ∈ ids d ∧ i ∈ ids p ↔ i ∈ ids t ∧ i = c ∧ c ∈ distalSet t c) ∧ (i ∈ ids t → i ∈ ids d ∨ i ∈ ids p) := by
  unfold cut at h
  cases hf : find? t c with
  | none => rw [hf] at h; simp at h
  | some nc =>
    rw [hf] at h; simp only at h
    split at h
    · simp at h
    · simp only [Option.some.injEq, Prod.mk.injEq] at h
      obtain ⟨rfl, rfl⟩ := h
      simp only [ids_subset, List.mem_filter, List.contains_eq_mem, decide_eq_true_eq, Bool.or_eq_true,
        Bool.not_eq_true', decide_eq_false_iff_not, beq_iff_eq]
      constructor
      · constructor
        · rintro ⟨⟨h1, h2⟩, _, h3 | h3⟩
          · exact absurd h2 h3
          · exact ⟨h1, h3, h3 ▸ h2⟩
        · rintro ⟨h1, rfl, h3⟩
          exact ⟨⟨h1, h3⟩, h1, Or.inr rfl⟩
      · intro hi
        by_cases hd : i ∈ distalSet t c
        · exact Or.inl ⟨hi, hd⟩
        · exact Or.inr ⟨hi, Or.inl hd⟩

/-! ### reroot: what exactly changes -/

/-- The requested node becomes a root (it has no parent afterwards). -/
theorem reroot_new_root (t : Table) (r : Int) (hr : r ∈ ids t) : ∃ n ∈ reroot t r, n.id = r ∧ n.parent < 0 :=
  reroot_new_root' t r hr

/-- Ids and coordinates stay where they are, row by row. -/
theorem reroot_coords_unchanged (t : Table) (r : Int) :
    (reroot t r).map (fun n => (n.id, n.x, n.y, n.z)) = t.map (fun n => (n.id, n.x, n.y, n.z)) :=
  reroot_coords t r

/-- A row whose node is not on the path `r → old root` is left completely alone: the very same row
(same parent, coordinates and label) is in the result. -/
theorem reroot_off_path_untouched (t : Table) (r : Int) (n : Node) (hn : n ∈ t) (hoff : n.id ∉ rootPath t r) :
    n ∈ reroot t r ∧ ∃ m ∈ reroot t r, m.id = n.id ∧ m.parent = n.parent :=
  ⟨reroot_off_path t r n hn hoff, n, reroot_off_path t r n hn hoff, rfl, rfl⟩

/-- Every node on `r`'s root path is in `r`'s tree, so … -/
theorem rootPath_same_tree (t : Table) (hw : WF t) (r a : Int) (ha : a ∈ rootPath t r) : rootOf t a = rootOf t r :=
  rootOf_of_mem_rootPath hw ha

/-- … all other trees of the forest are untouched by a reroot. -/
theorem reroot_other_trees_untouched (t : Table) (hw : WF t) (r : Int) (n : Node) (hn : n ∈ t)
    (hother : rootOf t n.id ≠ rootOf t r) : n ∈ reroot t r :=
  reroot_off_path t r n hn (not_mem_rootPath_of_rootOf_ne hw hother)

/-- Rerooting permutes the undirected edges: the edge *set* is the same and so is the number of
edges (no edge is lost, duplicated or invented by the path reversal). -/
theorem reroot_uedges (t : Table) (hw : WF t) (r : Int) :
    (uedges (reroot t r)).Perm (uedges t) ∧ (∀ e, e ∈ uedges (reroot t r) ↔ e ∈ uedges t) ∧
      (uedges (reroot t r)).length = (uedges t).length :=
  ⟨uedges_reroot_perm hw r, fun _ => (uedges_reroot_perm hw r).mem_iff, (uedges_reroot_perm hw r).length_eq⟩

/-- The *incremental* relabel navis performs (only the old and the new root are relabelled) gives
the labels a fresh classification would give. -/
theorem reroot_labels (t : Table) (hw : WF t) (hl : labelsOKB t = true) (r : Int) : labelsOKB (reroot t r) = true :=
  labelsOKB_reroot hw hl r

/-- … for a sequence of targets as well. -/
theorem rerootMany_labels (t : Table) (hw : WF t) (hl : labelsOKB t = true) (rs : List Int) :
    labelsOKB (rerootMany t rs) = true := by
  unfold rerootMany
  induction rs generalizing t with
  | nil => exact hl
  | cons r rs ih => exact ih (reroot t r) (WF_reroot hw r) (labelsOKB_reroot hw hl r)

/-! ### cut: which nodes and which edges go where -/

/-- The distal piece is the subtree of the cut node (descendants-or-self); the proximal piece is the
rest plus the cut node. -/
theorem cut_distal_is_subtree (t : Table) (c : Int) (d p : Table) (h : cut t c = some (d, p)) (i : Int) :
    (i ∈ ids d ↔ i ∈ ids t ∧ c ∈ rootPath t i) ∧ (i ∈ ids p ↔ i ∈ ids t ∧ (c ∉ rootPath t i ∨ i = c)) :=
  ⟨mem_ids_cut_distal h i, mem_ids_cut_proximal h i⟩

/-- Every original edge lies in exactly one of the two pieces, and the pieces contain no other edge. -/
theorem cut_edges_partition (t : Table) (hw : WF t) (c : Int) (d p : Table) (h : cut t c = some (d, p)) :
    (edges d ++ edges p).Perm (edges t) :=
  edges_cut_perm hw h

/-- In particular the edge count adds up. -/
theorem cut_edges_count (t : Table) (hw : WF t) (c : Int) (d p : Table) (h : cut t c = some (d, p)) :
    (edges d).length + (edges p).length = (edges t).length := by
  rw [← List.length_append]; exact (edges_cut_perm hw h).length_eq


/-! ### `subset_neuron(prevent_fragments=True)`: the connected subgraph -/

/-- Every requested node that exists is included in the connected subgraph. -/
theorem prevent_fragments_contains_request (t : Table) (hw : WF t) (ss : List Int) (s : Int) (hs : s ∈ ss)
    (hi : s ∈ ids t) : s ∈ (connectedSubgraph t ss).1 := by
  obtain ⟨ap, h1, _, h3⟩ := connSub_spec hw ss
  obtain ⟨r, hr, hrm, _⟩ := rootOf_spec hw hi
  obtain ⟨l, hl, hsl, _⟩ := exists_ssLeaf_below hw ss (t.length + 1) s hi hs (by omega)
  have hlt : l ∈ treeLeafs t ss r := mem_treeLeafs.mpr ⟨hl, by rw [← anc_rootOf hw hsl]; exact hr⟩
  have hspec := h1 r hrm (List.ne_nil_of_mem hlt)
  obtain ⟨l', hl', hsl', hap⟩ := hspec.covers s hs hi (by simp [inTree, hr])
  exact (h3 s).mpr ⟨r, hrm, l', hl', hsl', hap⟩

/-- Only existing nodes are included. -/
theorem prevent_fragments_sub_ids (t : Table) (hw : WF t) (ss : List Int) :
    ∀ x ∈ (connectedSubgraph t ss).1, x ∈ ids t := connSub_sub_ids hw ss

/-- The included set is connected within every tree of the forest (at most one kept top per tree), so
subsetting to it creates no additional fragments. -/
theorem prevent_fragments_connected (t : Table) (hw : WF t) (ss : List Int) :
    TreeConnected t (connectedSubgraph t ss).1 := connSub_treeConnected hw ss

/-- **Minimality**: every superset of the request that is connected within each tree contains the
included set — `connected_subgraph` adds exactly the nodes needed to bridge the request, for every forest,
every labelling and every request. -/
theorem prevent_fragments_minimal (t : Table) (hw : WF t) (ss K : List Int) (hsup : ∀ s ∈ ss, s ∈ K)
    (hconn : TreeConnected t K) : ∀ x ∈ (connectedSubgraph t ss).1, x ∈ K := connSub_min hw ss K hsup hconn

/-- The reroot navis performs after subsetting changes nothing: the new roots are already the tops of
the included set, so `subset_neuron(prevent_fragments=True)` *is* `subset` on the connected subgraph
(and therefore inherits `subset_exact_ids`, `subset_exact_links`, `subset_wf`). -/
theorem prevent_fragments_is_subset (t : Table) (hw : WF t) (ss : List Int) :
    subsetPF t ss = subset t fun i => (connectedSubgraph t ss).1.contains i := subsetPF_eq hw ss

/-! ### Non-vacuity -/

def ex : Table := [⟨1, -1, 0, 0, 0, .root⟩, ⟨2, 1, 3, 0, 0, .branch⟩, ⟨3, 2, 6, 0, 0, .end_⟩, ⟨4, 2, 3, 4, 0, .end_⟩]

example : wfB ex = true ∧ labelsOKB ex = true := by decide
example : (reroot ex 4).map (fun n => (n.id, n.parent, n.label)) =
    [(1, 2, .end_), (2, 4, .branch), (3, 2, .end_), (4, -1, .root)] := by decide
example : (cut ex 2).map (fun dp => (ids dp.1, ids dp.2)) = some ([2, 3, 4], [1, 2]) := by decide
-- reroot: the same undirected edges in a different order, labels still correct; the path is 4 → 2 → 1
example : uedges (reroot ex 4) = [(1, 2), (2, 4), (2, 3)] ∧ uedges ex = [(1, 2), (2, 3), (2, 4)] ∧
    labelsOKB (reroot ex 4) = true ∧ rootPath ex 4 = [4, 2, 1] := by decide
-- cut: the edge 2 → 1 stays proximal, the cut node is a root of the distal piece
example : (cut ex 2).map (fun dp => (edges dp.1, edges dp.2)) = some ([(3, 2), (4, 2)], [(2, 1)]) ∧
    edges ex = [(2, 1), (3, 2), (4, 2)] := by decide

-- prevent_fragments: requesting the two tips 3 and 4 pulls in the fork 2 (and nothing else)
example : connectedSubgraph ex [3, 4] = ([4, 2, 3], [2]) ∧ ids (subsetPF ex [3, 4]) = [2, 3, 4] := by decide

end Navis.Props.C10
