import Mathlib.Analysis.Normed.Module.Basic
import Mathlib.Tactic.Linarith
import Mathlib.Tactic.Ring
import Mathlib.Tactic.FieldSimp
/-! C13, "resampling never increases cable length" at full strength: over ℝ, for a polyline in an arbitrary real
normed space (in particular ℝ³ with the Euclidean norm), with the *exact* edge lengths `dist pᵢ pᵢ₊₁` — which are
irrational in general, so the executable `Rat` model (`Resample.polyAt`, integer edge lengths) cannot state it.

`polyAtR` is `np.interp` over the knots `(cumulative arc length, point)` (the same recursion as `Resample.polyAt`);
it is 1-Lipschitz in the arc-length parameter whenever consecutive knots are at most as far apart as their arc
positions (`ArcOKR`, an equality for `knotsR`), so the chain through any increasing sequence of sample positions
is at most as long as the parameter interval — for `np.linspace(0, total, k + 2)`: at most `total`. -/
namespace Navis.ResampleR

variable {E : Type*} [NormedAddCommGroup E] [NormedSpace ℝ E]

/-- `a + τ·(b − a)`. -/
noncomputable def lerpR (a b : E) (τ : ℝ) : E := a + τ • (b - a)

/-- `np.interp` over knots `(arc length, point)`: the last knot `j` with `d[j] ≤ s`; exactly on a knot or outside the
range that knot's point, otherwise linear interpolation towards knot `j + 1`. -/
noncomputable def polyAtR : List (ℝ × E) → ℝ → E
  | [], _ => 0
  | [k], _ => k.2
  | k0 :: k1 :: rest, s =>
    if k1.1 ≤ s then polyAtR (k1 :: rest) s
    else if s ≤ k0.1 then k0.2
    else lerpR k0.2 k1.2 ((s - k0.1) / (k1.1 - k0.1))

/-- Knots of a polyline with its exact Euclidean arc lengths: `dist = insert(cumsum(norm(diff)), 0, 0)`. -/
noncomputable def knotsR : ℝ → List E → List (ℝ × E)
  | acc, p :: q :: rest => (acc, p) :: knotsR (acc + dist p q) (q :: rest)
  | acc, [p] => [(acc, p)]
  | _, [] => []

/-- Consecutive knots are not further apart than their arc positions. -/
def ArcOKR : List (ℝ × E) → Prop
  | k0 :: k1 :: rest => k0.1 ≤ k1.1 ∧ ‖k1.2 - k0.2‖ ≤ k1.1 - k0.1 ∧ ArcOKR (k1 :: rest)
  | _ => True

/-- Length of the polyline through the points. -/
noncomputable def chainLenR : List E → ℝ
  | a :: b :: rest => dist a b + chainLenR (b :: rest)
  | _ => 0

/-- The `k + 2` points sampled at `np.linspace(0, total, k + 2)`. -/
noncomputable def samplesR (ks : List (ℝ × E)) (total : ℝ) (k : ℕ) : List E :=
  (List.range (k + 2)).map fun (j : ℕ) => polyAtR ks ((j : ℝ) * total / ((k : ℝ) + 1))

theorem polyAtR_cons_cons (k0 k1 : ℝ × E) (rest : List (ℝ × E)) (s : ℝ) :
    polyAtR (k0 :: k1 :: rest) s =
      if k1.1 ≤ s then polyAtR (k1 :: rest) s
      else if s ≤ k0.1 then k0.2
      else lerpR k0.2 k1.2 ((s - k0.1) / (k1.1 - k0.1)) := by
  rw [polyAtR]

omit [NormedSpace ℝ E] in
theorem knotsR_arcOK : ∀ (acc : ℝ) (pts : List E), ArcOKR (knotsR acc pts)
  | _, [] => trivial
  | _, [_] => trivial
  | acc, p :: q :: rest => by
    have ih := knotsR_arcOK (acc + dist p q) (q :: rest)
    cases rest with
    | nil =>
      simp only [knotsR, ArcOKR]
      refine ⟨by linarith [dist_nonneg (x := p) (y := q)], ?_, trivial⟩
      rw [← dist_eq_norm, dist_comm]; linarith
    | cons r rest' =>
      simp only [knotsR, ArcOKR] at ih ⊢
      refine ⟨by linarith [dist_nonneg (x := p) (y := q)], ?_, ih⟩
      rw [← dist_eq_norm, dist_comm]; linarith

theorem norm_lerp_sub_left (a b : E) (τ : ℝ) (hτ : 0 ≤ τ) : ‖lerpR a b τ - a‖ = τ * ‖b - a‖ := by
  unfold lerpR
  rw [add_sub_cancel_left, norm_smul, Real.norm_of_nonneg hτ]

theorem norm_right_sub_lerp (a b : E) (τ : ℝ) (hτ : τ ≤ 1) : ‖b - lerpR a b τ‖ = (1 - τ) * ‖b - a‖ := by
  unfold lerpR
  have : b - (a + τ • (b - a)) = (1 - τ) • (b - a) := by
    rw [sub_smul, one_smul]; abel
  rw [this, norm_smul, Real.norm_of_nonneg (by linarith)]

theorem norm_lerp_sub_lerp (a b : E) (τ σ : ℝ) (h : σ ≤ τ) : ‖lerpR a b τ - lerpR a b σ‖ = (τ - σ) * ‖b - a‖ := by
  unfold lerpR
  have : a + τ • (b - a) - (a + σ • (b - a)) = (τ - σ) • (b - a) := by
    rw [sub_smul]; abel
  rw [this, norm_smul, Real.norm_of_nonneg (by linarith)]

/-- From the first knot the sampled point is at most `s − d₀` away. -/
theorem norm_polyAtR_sub_first : ∀ (rest : List (ℝ × E)) (k0 : ℝ × E), ArcOKR (k0 :: rest) → ∀ s, k0.1 ≤ s →
    ‖polyAtR (k0 :: rest) s - k0.2‖ ≤ s - k0.1
  | [], k0, _, s, hs => by simp [polyAtR]; linarith
  | k1 :: rest, k0, h, s, hs => by
    obtain ⟨h01, hd, hrest⟩ := h
    rw [polyAtR_cons_cons]
    by_cases h1 : k1.1 ≤ s
    · rw [if_pos h1]
      have ih := norm_polyAtR_sub_first rest k1 hrest s h1
      calc ‖polyAtR (k1 :: rest) s - k0.2‖ = ‖(polyAtR (k1 :: rest) s - k1.2) + (k1.2 - k0.2)‖ := by congr 1; abel
        _ ≤ ‖polyAtR (k1 :: rest) s - k1.2‖ + ‖k1.2 - k0.2‖ := norm_add_le _ _
        _ ≤ (s - k1.1) + (k1.1 - k0.1) := add_le_add ih hd
        _ = s - k0.1 := by ring
    · rw [if_neg h1]
      by_cases h2 : s ≤ k0.1
      · rw [if_pos h2]; simp; linarith
      · rw [if_neg h2]
        have hlt : s < k1.1 := not_le.mp h1
        have hpos : 0 < k1.1 - k0.1 := by linarith
        have hτ : 0 ≤ (s - k0.1) / (k1.1 - k0.1) := div_nonneg (by linarith) hpos.le
        rw [norm_lerp_sub_left _ _ _ hτ]
        calc (s - k0.1) / (k1.1 - k0.1) * ‖k1.2 - k0.2‖ ≤ (s - k0.1) / (k1.1 - k0.1) * (k1.1 - k0.1) :=
              mul_le_mul_of_nonneg_left hd hτ
          _ = s - k0.1 := by field_simp

/-- **The arc-length parametrisation is 1-Lipschitz.** -/
theorem norm_polyAtR_sub_le : ∀ (ks : List (ℝ × E)), ArcOKR ks → ∀ s s', s ≤ s' →
    ‖polyAtR ks s' - polyAtR ks s‖ ≤ s' - s
  | [], _, s, s', hss => by simp [polyAtR]; linarith
  | [_], _, s, s', hss => by simp [polyAtR]; linarith
  | k0 :: k1 :: rest, h, s, s', hss => by
    obtain ⟨h01, hd, hrest⟩ := h
    rw [polyAtR_cons_cons, polyAtR_cons_cons]
    by_cases h1 : k1.1 ≤ s
    · have h1' : k1.1 ≤ s' := le_trans h1 hss
      rw [if_pos h1, if_pos h1']
      exact norm_polyAtR_sub_le (k1 :: rest) hrest s s' hss
    · rw [if_neg h1]
      have hlt : s < k1.1 := not_le.mp h1
      by_cases h1' : k1.1 ≤ s'
      · rw [if_pos h1']
        have hA := norm_polyAtR_sub_first rest k1 hrest s' h1'
        -- distance from the point at `s` to the knot `k1`
        have hB : ‖k1.2 - (if s ≤ k0.1 then k0.2 else lerpR k0.2 k1.2 ((s - k0.1) / (k1.1 - k0.1)))‖ ≤ k1.1 - s := by
          by_cases h2 : s ≤ k0.1
          · rw [if_pos h2]; linarith
          · rw [if_neg h2]
            have hpos : 0 < k1.1 - k0.1 := by linarith [not_le.mp h2]
            have hτ1 : (s - k0.1) / (k1.1 - k0.1) ≤ 1 := by rw [div_le_one hpos]; linarith
            rw [norm_right_sub_lerp _ _ _ hτ1]
            calc (1 - (s - k0.1) / (k1.1 - k0.1)) * ‖k1.2 - k0.2‖
                ≤ (1 - (s - k0.1) / (k1.1 - k0.1)) * (k1.1 - k0.1) := mul_le_mul_of_nonneg_left hd (by linarith)
              _ = k1.1 - s := by field_simp; ring
        calc ‖polyAtR (k1 :: rest) s' - (if s ≤ k0.1 then k0.2 else lerpR k0.2 k1.2 ((s - k0.1) / (k1.1 - k0.1)))‖
            = ‖(polyAtR (k1 :: rest) s' - k1.2) + (k1.2 - (if s ≤ k0.1 then k0.2 else lerpR k0.2 k1.2 ((s - k0.1) / (k1.1 - k0.1))))‖ := by
              congr 1; abel
          _ ≤ ‖polyAtR (k1 :: rest) s' - k1.2‖ + ‖k1.2 - (if s ≤ k0.1 then k0.2 else lerpR k0.2 k1.2 ((s - k0.1) / (k1.1 - k0.1)))‖ :=
              norm_add_le _ _
          _ ≤ (s' - k1.1) + (k1.1 - s) := add_le_add hA hB
          _ = s' - s := by ring
      · rw [if_neg h1']
        have hlt' : s' < k1.1 := not_le.mp h1'
        by_cases h2' : s' ≤ k0.1
        · have h2 : s ≤ k0.1 := le_trans hss h2'
          rw [if_pos h2, if_pos h2']; simp; linarith
        · rw [if_neg h2']
          have hpos : 0 < k1.1 - k0.1 := by linarith [not_le.mp h2']
          have hτ' : 0 ≤ (s' - k0.1) / (k1.1 - k0.1) := div_nonneg (by linarith [not_le.mp h2']) hpos.le
          by_cases h2 : s ≤ k0.1
          · rw [if_pos h2, norm_lerp_sub_left _ _ _ hτ']
            calc (s' - k0.1) / (k1.1 - k0.1) * ‖k1.2 - k0.2‖ ≤ (s' - k0.1) / (k1.1 - k0.1) * (k1.1 - k0.1) :=
                  mul_le_mul_of_nonneg_left hd hτ'
              _ = s' - k0.1 := by field_simp
              _ ≤ s' - s := by linarith
          · rw [if_neg h2]
            have hστ : (s - k0.1) / (k1.1 - k0.1) ≤ (s' - k0.1) / (k1.1 - k0.1) :=
              div_le_div_of_nonneg_right (by linarith) hpos.le
            rw [norm_lerp_sub_lerp _ _ _ _ hστ]
            calc ((s' - k0.1) / (k1.1 - k0.1) - (s - k0.1) / (k1.1 - k0.1)) * ‖k1.2 - k0.2‖
                ≤ ((s' - k0.1) / (k1.1 - k0.1) - (s - k0.1) / (k1.1 - k0.1)) * (k1.1 - k0.1) :=
                  mul_le_mul_of_nonneg_left hd (by linarith)
              _ = s' - s := by field_simp; ring

/-- Chain through the images of a non-decreasing sequence of parameters: at most the parameter span. -/
theorem chainLenR_map_le (ks : List (ℝ × E)) (h : ArcOKR ks) (pos : ℕ → ℝ) (hmono : ∀ j, pos j ≤ pos (j + 1)) (n s : ℕ) :
    chainLenR ((List.range' s (n + 1)).map fun j => polyAtR ks (pos j)) ≤ pos (s + n) - pos s := by
  induction n generalizing s with
  | zero => simp [List.range', chainLenR]
  | succ n ih =>
    have e : (List.range' s (n + 1 + 1)).map (fun j => polyAtR ks (pos j)) =
        polyAtR ks (pos s) :: polyAtR ks (pos (s + 1)) :: (List.range' (s + 1 + 1) n).map (fun j => polyAtR ks (pos j)) := by
      simp [List.range'_succ]
    have e2 : (List.range' (s + 1) (n + 1)).map (fun j => polyAtR ks (pos j)) =
        polyAtR ks (pos (s + 1)) :: (List.range' (s + 1 + 1) n).map (fun j => polyAtR ks (pos j)) := by
      simp [List.range'_succ]
    rw [e, chainLenR, ← e2]
    have h1 := norm_polyAtR_sub_le ks h (pos s) (pos (s + 1)) (hmono s)
    have h2 := ih (s + 1)
    rw [dist_eq_norm, ← norm_neg, neg_sub]
    have : s + 1 + n = s + (n + 1) := by omega
    rw [this] at h2
    linarith

/-- **Resampling one segment does not increase its length** (any knots satisfying `ArcOKR`). -/
theorem chainLenR_samples_le (ks : List (ℝ × E)) (h : ArcOKR ks) (total : ℝ) (ht : 0 ≤ total) (k : ℕ) :
    chainLenR (samplesR ks total k) ≤ total := by
  unfold samplesR
  rw [List.range_eq_range']
  have hk : (0 : ℝ) < (k : ℝ) + 1 := by positivity
  have := chainLenR_map_le ks h (fun j => (j : ℝ) * total / ((k : ℝ) + 1))
    (fun j => by
      apply div_le_div_of_nonneg_right _ hk.le
      push_cast
      nlinarith) (k + 1) 0
  simp only [Nat.zero_add, Nat.cast_zero, zero_mul, zero_div, sub_zero] at this
  calc _ ≤ ((k + 1 : ℕ) : ℝ) * total / ((k : ℝ) + 1) := this
    _ = total := by push_cast; field_simp

omit [NormedSpace ℝ E] in
theorem chainLenR_nonneg : ∀ pts : List E, 0 ≤ chainLenR pts
  | [] => le_refl _
  | [_] => le_refl _
  | a :: b :: rest => by
    rw [chainLenR]
    exact add_nonneg dist_nonneg (chainLenR_nonneg (b :: rest))

/-- The first sample is the first point of the polyline. -/
theorem polyAtR_knotsR_zero (p : E) (ps : List E) : polyAtR (knotsR 0 (p :: ps)) 0 = p := by
  have h := norm_polyAtR_sub_first (E := E)
  cases ps with
  | nil => simp [knotsR, polyAtR]
  | cons q rest =>
    have hk : knotsR (0 : ℝ) (p :: q :: rest) = (0, p) :: knotsR (0 + dist p q) (q :: rest) := by rw [knotsR]
    have hok := knotsR_arcOK (0 : ℝ) (p :: q :: rest)
    rw [hk] at hok ⊢
    have := h _ (0, p) hok 0 (le_refl _)
    simp only [sub_self] at this
    have h0 : ‖polyAtR ((0, p) :: knotsR (0 + dist p q) (q :: rest)) 0 - p‖ = 0 := le_antisymm this (norm_nonneg _)
    exact sub_eq_zero.mp (norm_eq_zero.mp h0)

/-- **"Never increases cable length" over ℝ, one segment**: for every polyline `pts` in a real normed space, with
its exact arc lengths, the chain through the `k + 2` points sampled at `np.linspace(0, L, k + 2)` (`L` the length of
`pts`) is at most `L` long. -/
theorem resample_segment_not_longer (pts : List E) (k : ℕ) :
    chainLenR (samplesR (knotsR 0 pts) (chainLenR pts) k) ≤ chainLenR pts :=
  chainLenR_samples_le _ (knotsR_arcOK 0 pts) _ (chainLenR_nonneg pts) k

/-- **Whole skeleton**: summed over all small segments. -/
theorem resample_skeleton_not_longer (segs : List (List E)) (kOf : List E → ℕ) :
    (segs.map fun pts => chainLenR (samplesR (knotsR 0 pts) (chainLenR pts) (kOf pts))).sum ≤ (segs.map chainLenR).sum := by
  induction segs with
  | nil => simp
  | cons s rest ih =>
    simp only [List.map_cons, List.sum_cons]
    exact add_le_add (resample_segment_not_longer s (kOf s)) ih

end Navis.ResampleR
