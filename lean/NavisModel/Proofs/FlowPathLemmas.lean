import NavisModel.Proofs.FlowLemmas
import NavisModel.Proofs.ConnSubLemmas
/-! Helper lemmas for C17 (second pass): subtrees of distinct children of a node are disjoint, the
bending flow formula counts the post→pre paths that bend at a fork, the leaf-flow formula is constant
along unbranched chains, `flow_centrality` as written vs its path-count specification. -/
namespace Navis.Flow
open Navis.Forest

/-! ### children and the ancestor order -/

/-- A child is a proper descendant of its parent: the parent is on the child's root path, the child is
not on the parent's. -/
theorem child_anc {t : Table} (hw : WF t) {b c : Int} (hb : b ∈ ids t) (hc : c ∈ children t b) :
    c ∈ ids t ∧ b ∈ rootPath t c ∧ c ∉ rootPath t b := by
  obtain ⟨n, hn, hp, rfl⟩ := mem_children.mp hc
  obtain ⟨m, hm, hmb⟩ := mem_ids.mp hb
  have h0 : 0 ≤ m.id := hw.2.1 m hm
  have hnp : ¬ n.parent < 0 := by omega
  refine ⟨mem_ids_of_mem hn, ?_, ?_⟩
  · rw [rootPath_of_nonroot hw (find?_of_mem hw.1 hn) hnp, hp]
    exact List.mem_cons_of_mem _ (anc_refl hb)
  · have := parent_not_anc hw hn hnp
    rwa [hp] at this

/-- Below a proper ancestor `b` of `p` the root path of `p` passes through a child of `b`. -/
theorem child_on_path {t : Table} (hw : WF t) (b : Int) :
    ∀ p ∈ ids t, b ∈ rootPath t p → p ≠ b → ∃ c ∈ children t b, c ∈ rootPath t p := by
  refine WF_induct hw (fun p => b ∈ rootPath t p → p ≠ b → ∃ c ∈ children t b, c ∈ rootPath t p) ?_
  intro n hn hcase hb hne
  obtain ⟨n', hf, hp, hbp, hpp⟩ := anc_parent hw hb hne
  have e : n' = n := by
    have := find?_of_mem hw.1 hn
    rw [this] at hf; exact (Option.some.inj hf).symm
  subst e
  by_cases hpb : n'.parent = b
  · exact ⟨n'.id, mem_children.mpr ⟨n', hn, hpb, rfl⟩, anc_refl (mem_ids_of_mem hn)⟩
  · rcases hcase with h | h
    · exact absurd h hp
    · obtain ⟨c, hc, hcp⟩ := h hbp hpb
      exact ⟨c, hc, anc_trans hw hcp hpp⟩

/-- At most one child of `b` is an ancestor-or-self of a given node. -/
theorem child_anc_unique {t : Table} (hw : WF t) {b c1 c2 p : Int} (hb : b ∈ ids t)
    (h1 : c1 ∈ children t b) (h2 : c2 ∈ children t b) (a1 : c1 ∈ rootPath t p) (a2 : c2 ∈ rootPath t p) : c1 = c2 := by
  have key : ∀ {x y : Int}, x ∈ children t b → y ∈ children t b → x ∈ rootPath t y → x = y := by
    intro x y hx hy hxy
    by_contra hne
    obtain ⟨n, hf, hp, hxp, _⟩ := anc_parent hw hxy (fun e => hne e.symm)
    obtain ⟨m, hm, hmp, hmy⟩ := mem_children.mp hy
    have e : n = m := by
      have := find?_of_mem hw.1 hm
      rw [hmy, hf] at this; exact Option.some.inj this
    subst e
    rw [hmp] at hxp
    exact (child_anc hw hb hx).2.2 hxp
  rcases anc_comparable hw a1 a2 with h | h
  · exact key h1 h2 h
  · exact (key h2 h1 h).symm

/-- **Subtrees of distinct children of a node are disjoint**: no node is distal to both. -/
theorem subtrees_disjoint {t : Table} (hw : WF t) {b c1 c2 : Int} (hb : b ∈ ids t)
    (h1 : c1 ∈ children t b) (h2 : c2 ∈ children t b) (hne : c1 ≠ c2) (p : Int) :
    ¬ (isDistal t c1 p = true ∧ isDistal t c2 p = true) := by
  rintro ⟨a1, a2⟩
  exact hne (child_anc_unique hw hb h1 h2 (isDistal_iff.mp a1) (isDistal_iff.mp a2))

theorem children_nodup {t : Table} (hnd : (ids t).Nodup) (b : Int) : (children t b).Nodup :=
  hnd.sublist (List.filter_sublist.map _)

/-! ### counting over disjoint classes -/

theorem length_filter_or_disjoint {α} (p q : α → Bool) (l : List α) (h : ∀ x ∈ l, ¬ (p x = true ∧ q x = true)) :
    (l.filter p).length + (l.filter q).length = (l.filter fun x => p x || q x).length := by
  induction l with
  | nil => rfl
  | cons a l ih =>
    have ih := ih (fun x hx => h x (List.mem_cons_of_mem _ hx))
    have ha := h a List.mem_cons_self
    cases hp : p a <;> cases hq : q a <;> simp [hp, hq] at ha ⊢ <;> omega

/-- Summing, over pairwise exclusive classes `k ∈ L`, the number of `x` in class `k` counts every `x` that is
in some class once. -/
theorem length_flatMap_filter_disjoint {κ α} (L : List κ) (X : List α) (R : κ → α → Bool)
    (h : L.Pairwise fun k k' => ∀ x ∈ X, ¬ (R k x = true ∧ R k' x = true)) :
    (L.flatMap fun k => X.filter (R k)).length = (X.filter fun x => L.any fun k => R k x).length := by
  induction L with
  | nil => simp
  | cons k L ih =>
    obtain ⟨hk, hL⟩ := List.pairwise_cons.mp h
    rw [List.flatMap_cons, List.length_append, ih hL]
    rw [length_filter_or_disjoint (R k) (fun x => L.any fun k => R k x) X]
    · apply congrArg
      apply List.filter_congr
      intro x _
      simp [List.any_cons]
    · rintro x hx ⟨h1, h2⟩
      obtain ⟨k', hk', hr⟩ := List.any_eq_true.mp h2
      exact hk k' hk' x hx ⟨h1, hr⟩

theorem product_nodup {α β} {xs : List α} {ys : List β} (hx : xs.Nodup) (hy : ys.Nodup) : (product xs ys).Nodup := by
  induction xs with
  | nil => simp [product]
  | cons a xs ih =>
    obtain ⟨ha, hxs⟩ := List.nodup_cons.mp hx
    rw [product_cons]
    refine List.nodup_append.mpr ⟨?_, ih hxs, ?_⟩
    · exact List.pairwise_map.mpr (hy.imp fun h e => h (Prod.mk.inj e).2)
    · intro u hu v hv e
      obtain ⟨b, _, rfl⟩ := List.mem_map.mp hu
      have := (mem_product.mp hv).1
      rw [← e] at this
      exact ha this

theorem childPairs_nodup {t : Table} (hnd : (ids t).Nodup) (b : Int) : (childPairs t b).Nodup :=
  (product_nodup (children_nodup hnd b) (children_nodup hnd b)).sublist List.filter_sublist

theorem mem_childPairs {t : Table} {b : Int} {c : Int × Int} :
    c ∈ childPairs t b ↔ c.1 ∈ children t b ∧ c.2 ∈ children t b ∧ c.1 ≠ c.2 := by
  unfold childPairs
  rw [List.mem_filter, mem_product]
  simp [and_assoc]

/-! ### bending flow counts the paths that bend at the fork -/

theorem lca_spec {t : Table} (hw : WF t) {p q l : Int} (h : lca t p q = some l) :
    l ∈ rootPath t p ∧ l ∈ rootPath t q ∧ ∀ x ∈ rootPath t p, x ∈ rootPath t q → x ∈ rootPath t l := by
  unfold lca at h
  have hp : p ∈ ids t := by
    by_cases hp : p ∈ ids t
    · exact hp
    · rw [rootPath_of_not_mem hp] at h; simp at h
  obtain ⟨h1, h2, h3⟩ := find?_rootPath hw (fun i => (rootPath t q).contains i) l p hp h
  refine ⟨h1, by simpa using h2, ?_⟩
  intro x hx hxq
  exact h3 x hx (by simpa using hxq)

theorem lca_isSome {t : Table} {p q b : Int} (h1 : b ∈ rootPath t p) (h2 : b ∈ rootPath t q) :
    ∃ l, lca t p q = some l := by
  unfold lca
  cases hf : (rootPath t p).find? (fun i => (rootPath t q).contains i) with
  | some l => exact ⟨l, rfl⟩
  | none =>
    have := List.find?_eq_none.mp hf b h1
    simp [h2] at this

theorem legUp_isEmpty_iff {t : Table} {p q l : Int} (hp : p ∈ ids t) (h : lca t p q = some l) :
    (legUp t p q).isEmpty = true ↔ p = l := by
  obtain ⟨rest, hr⟩ := rootPath_cons hp
  unfold legUp
  rw [h]
  simp only
  rw [hr, List.takeWhile_cons]
  by_cases e : p = l
  · simp [e]
  · simp [e]

/-- The child-pair test of the code is the "bends at `b`" test on the tree path. -/
theorem any_childPairs_iff_bendsAt {t : Table} (hw : WF t) {b : Int} (hb : b ∈ ids t) (p q : Int) :
    ((childPairs t b).any fun c => isDistal t c.1 p && isDistal t c.2 q) = bendsAt t b p q := by
  rw [Bool.eq_iff_iff, List.any_eq_true]
  constructor
  · rintro ⟨c, hc, hd⟩
    obtain ⟨hc1, hc2, hne⟩ := mem_childPairs.mp hc
    simp only [Bool.and_eq_true, isDistal_iff] at hd
    obtain ⟨a1, a2⟩ := hd
    obtain ⟨_, b1, n1⟩ := child_anc hw hb hc1
    obtain ⟨_, b2, n2⟩ := child_anc hw hb hc2
    have bp := anc_trans hw b1 a1
    have bq := anc_trans hw b2 a2
    obtain ⟨l, hl⟩ := lca_isSome bp bq
    obtain ⟨lp, lq, lmin⟩ := lca_spec hw hl
    have bl : b ∈ rootPath t l := lmin b bp bq
    have e : l = b := by
      by_contra hlb
      obtain ⟨c, hcc, hcl⟩ := child_on_path hw b l (anc_ids lp).1 bl hlb
      have e1 := child_anc_unique hw hb hcc hc1 (anc_trans hw hcl lp) a1
      have e2 := child_anc_unique hw hb hcc hc2 (anc_trans hw hcl lq) a2
      exact hne (e1.symm.trans e2)
    subst e
    have hpne : p ≠ l := fun e => n1 (e ▸ a1)
    have hqne : q ≠ l := fun e => n2 (e ▸ a2)
    have hl' : lca t q p = some l := by
      obtain ⟨l', hl'⟩ := lca_isSome bq bp
      obtain ⟨lq', lp', lmin'⟩ := lca_spec hw hl'
      have x1 : l ∈ rootPath t l' := lmin' l lq lp
      have x2 : l' ∈ rootPath t l := lmin l' lp' lq'
      rw [hl', anc_antisymm hw x2 x1]
    unfold bendsAt
    rw [hl]
    simp only [beq_self_eq_true, Bool.true_and, Bool.and_eq_true, Bool.not_eq_true']
    constructor
    · rw [← Bool.not_eq_true, legUp_isEmpty_iff (anc_ids a1).2 hl]; exact hpne
    · rw [← Bool.not_eq_true, legUp_isEmpty_iff (anc_ids a2).2 hl']; exact hqne
  · intro h
    unfold bendsAt at h
    cases hl : lca t p q with
    | none => rw [hl] at h; simp at h
    | some l =>
      rw [hl] at h
      simp only [Bool.and_eq_true, beq_iff_eq, Bool.not_eq_true'] at h
      obtain ⟨⟨e, hp⟩, hq⟩ := h
      subst e
      obtain ⟨lp, lq, lmin⟩ := lca_spec hw hl
      have hl' : lca t q p = some l := by
        obtain ⟨l', hl'⟩ := lca_isSome lq lp
        obtain ⟨lq', lp', lmin'⟩ := lca_spec hw hl'
        have x1 : l ∈ rootPath t l' := lmin' l lq lp
        have x2 : l' ∈ rootPath t l := lmin l' lp' lq'
        rw [hl', anc_antisymm hw x2 x1]
      have hpne : p ≠ l := by
        intro e
        have := (legUp_isEmpty_iff (anc_ids lp).2 hl).mpr e
        rw [hp] at this; exact Bool.noConfusion this
      have hqne : q ≠ l := by
        intro e
        have := (legUp_isEmpty_iff (anc_ids lq).2 hl').mpr e
        rw [hq] at this; exact Bool.noConfusion this
      obtain ⟨c1, hc1, a1⟩ := child_on_path hw l p (anc_ids lp).2 lp hpne
      obtain ⟨c2, hc2, a2⟩ := child_on_path hw l q (anc_ids lq).2 lq hqne
      have hne : c1 ≠ c2 := by
        intro e
        subst e
        exact (child_anc hw hb hc1).2.2 (lmin c1 a1 a2)
      refine ⟨(c1, c2), mem_childPairs.mpr ⟨hc1, hc2, hne⟩, ?_⟩
      simp only [Bool.and_eq_true, isDistal_iff]
      exact ⟨a1, a2⟩

/-- **Bending flow at `b` = number of post→pre tree paths that bend at `b`.** -/
theorem bendAt_eq_bendSpec {t : Table} (hw : WF t) (pre post : List Int) {b : Int} (hb : b ∈ ids t) :
    bendAt t pre post b = bendSpec t pre post b := by
  rw [bendAt_eq_bendPairs]
  unfold bendPairs bendSpec
  rw [length_flatMap_filter_disjoint (childPairs t b) (product post pre)
    (fun c x => isDistal t c.1 x.1 && isDistal t c.2 x.2)]
  · apply congrArg
    apply List.filter_congr
    intro x _
    exact any_childPairs_iff_bendsAt hw hb x.1 x.2
  · have hnd := childPairs_nodup hw.1 b
    refine List.Pairwise.imp_of_mem ?_ hnd
    intro c c' hc hc' hne x _ hx
    obtain ⟨h1, h2, _⟩ := mem_childPairs.mp hc
    obtain ⟨h1', h2', _⟩ := mem_childPairs.mp hc'
    simp only [Bool.and_eq_true, isDistal_iff] at hx
    obtain ⟨⟨a1, a2⟩, a1', a2'⟩ := hx
    apply hne
    exact Prod.ext (child_anc_unique hw hb h1 h1' a1 a1') (child_anc_unique hw hb h2 h2' a2 a2')

/-- A path that bends at `b` is the explicit tree path `up ++ b :: down` with both legs non-empty. -/
theorem bendsAt_treePath {t : Table} {b p q : Int} (h : bendsAt t b p q = true) :
    treePath t p q = some (legUp t p q ++ b :: (legUp t q p).reverse) ∧ legUp t p q ≠ [] ∧ legUp t q p ≠ [] := by
  unfold bendsAt at h
  unfold treePath
  cases hl : lca t p q with
  | none => rw [hl] at h; simp at h
  | some l =>
    rw [hl] at h
    simp only [Bool.and_eq_true, beq_iff_eq, Bool.not_eq_true'] at h
    obtain ⟨⟨e, hp⟩, hq⟩ := h
    subst e
    refine ⟨rfl, ?_, ?_⟩
    · intro e; rw [e] at hp; simp at hp
    · intro e; rw [e] at hq; simp at hq

/-! ### leaf flow: the formula is constant along unbranched chains -/

theorem mem_flow_leafIds {t : Table} {s : Int} : s ∈ Flow.leafIds t → children t s = [] := by
  intro h
  unfold Flow.leafIds at h
  obtain ⟨n, hn, rfl⟩ := List.mem_map.mp h
  have := (List.mem_filter.mp hn).2
  simp only [Bool.and_eq_true, beq_iff_eq] at this
  have hl := children_length t n.id
  rw [this.2] at hl
  exact List.eq_nil_of_length_eq_zero hl

theorem isDistal_single_child {t : Table} (hw : WF t) {n c s : Int} (hn : n ∈ ids t) (hc : children t n = [c])
    (hs : children t s = []) : isDistal t n s = isDistal t c s := by
  have hcm : c ∈ children t n := by rw [hc]; exact List.mem_singleton.mpr rfl
  obtain ⟨_, nc, _⟩ := child_anc hw hn hcm
  rw [Bool.eq_iff_iff, isDistal_iff, isDistal_iff]
  constructor
  · intro h
    have hne : s ≠ n := by
      intro e; rw [e, hc] at hs; exact List.cons_ne_nil _ _ hs
    obtain ⟨c', hc', a⟩ := child_on_path hw n s (anc_ids h).2 h hne
    rw [hc] at hc'
    rw [List.mem_singleton.mp hc'] at a
    exact a
  · intro h
    exact anc_trans hw nc h

theorem sameTree_single_child {t : Table} (hw : WF t) {n c : Int} (hn : n ∈ ids t) (hc : c ∈ children t n) (s : Int) :
    sameTree t s n = sameTree t s c := by
  obtain ⟨_, nc, _⟩ := child_anc hw hn hc
  unfold sameTree
  rw [anc_rootOf hw nc]

theorem leafFormula_single_child {t : Table} (hw : WF t) {n c : Int} (hn : n ∈ ids t) (hc : children t n = [c]) :
    leafFormula t true n = leafFormula t true c := by
  have hcm : c ∈ children t n := by rw [hc]; exact List.mem_singleton.mpr rfl
  unfold leafFormula total treeCount distalCount
  simp only [if_true]
  have e1 : (Flow.leafIds t).filter (fun s => sameTree t s n) = (Flow.leafIds t).filter (fun s => sameTree t s c) :=
    List.filter_congr (fun s _ => sameTree_single_child hw hn hcm s)
  have e2 : (Flow.leafIds t).filter (fun s => isDistal t n s) = (Flow.leafIds t).filter (fun s => isDistal t c s) :=
    List.filter_congr (fun s hs => isDistal_single_child hw hn hc (mem_flow_leafIds hs))
  rw [e1, e2]

theorem leafFormula_chainSeed {t : Table} (hw : WF t) (f : Nat) : ∀ n ∈ ids t,
    leafFormula t true n = leafFormula t true (chainSeed t f n) := by
  induction f with
  | zero => intro n _; rfl
  | succ f ih =>
    intro n hn
    unfold chainSeed
    cases hc : children t n with
    | nil => rfl
    | cons c rest =>
      cases rest with
      | nil =>
        simp only
        have hcm : c ∈ children t n := by rw [hc]; exact List.mem_singleton.mpr rfl
        rw [leafFormula_single_child hw hn hc]
        exact ih c (child_anc hw hn hcm).1
      | cons c2 rest => rfl

theorem leafFormula_eq_tipPaths {t : Table} (hw : WF t) (n : Int) : leafFormula t true n = tipPaths t n := by
  unfold tipPaths
  rw [pathsUp_eq hw]
  unfold leafFormula centripetal
  exact Nat.mul_comm _ _

/-! #### `flow_centrality` as written (after the fixes): the tip-path count at every node -/

theorem fcPre_eq_tipPaths {t : Table} (hw : WF t) {n : Int} (hn : n ∈ ids t) : fcPre t true n = tipPaths t n := by
  unfold fcPre
  split
  · exact leafFormula_eq_tipPaths hw n
  · rw [← leafFormula_chainSeed hw _ n hn, leafFormula_eq_tipPaths hw]

/-- **`flow_centrality` as written equals its specification at every node.** -/
theorem flowCentrality_eq_fcSpec {t : Table} (hw : WF t) {n : Int} (hn : n ∈ ids t) :
    flowCentrality t true n = fcSpec t n := by
  unfold flowCentrality fcSpec
  by_cases hf : isFork t n = true
  · rw [if_pos hf, if_pos hf]
    congr 1
    apply List.map_congr_left
    intro c hc
    exact fcPre_eq_tipPaths hw (child_anc hw hn hc).1
  · rw [if_neg hf, if_neg hf]
    exact fcPre_eq_tipPaths hw hn

/-! #### historical: the scheme before the fixes (branch points only) -/

/-- Off terminal twigs the code's seeding scheme yields the tip-path count… -/
theorem fcPreHist_of_seedIsFork {t : Table} (hw : WF t) {n : Int} (hn : n ∈ ids t) (h : seedIsFork t n = true) :
    fcPreHist t true n = tipPaths t n := by
  unfold seedIsFork at h
  unfold fcPreHist
  simp only [h, if_true]
  rw [← leafFormula_chainSeed hw _ n hn, leafFormula_eq_tipPaths hw]

/-- …on them (and at forking roots) it yields 0. -/
theorem fcPreHist_of_not_seedIsFork {t : Table} {n : Int} (h : seedIsFork t n = false) : fcPreHist t true n = 0 := by
  unfold seedIsFork at h
  unfold fcPreHist
  simp [h]

theorem fcPreHist_le_tipPaths {t : Table} (hw : WF t) {n : Int} (hn : n ∈ ids t) : fcPreHist t true n ≤ tipPaths t n := by
  cases h : seedIsFork t n with
  | true => rw [fcPreHist_of_seedIsFork hw hn h]
  | false => rw [fcPreHist_of_not_seedIsFork h]; exact Nat.zero_le _

theorem foldl_max_mono {α} (f g : α → Nat) (l : List α) (h : ∀ x ∈ l, f x ≤ g x) :
    ∀ a b : Nat, a ≤ b → (l.map f).foldl max a ≤ (l.map g).foldl max b := by
  induction l with
  | nil => intro a b hab; exact hab
  | cons x l ih =>
    intro a b hab
    simp only [List.map_cons, List.foldl_cons]
    apply ih (fun y hy => h y (List.mem_cons_of_mem _ hy))
    have := h x List.mem_cons_self
    omega

theorem maxList_map_mono {α} (f g : α → Nat) (l : List α) (h : ∀ x ∈ l, f x ≤ g x) :
    maxList (l.map f) ≤ maxList (l.map g) := foldl_max_mono f g l h 0 0 (Nat.le_refl _)

/-- `flow_centrality` as written never exceeds its specification… -/
theorem flowCentralityHist_le_fcSpec {t : Table} (hw : WF t) {n : Int} (hn : n ∈ ids t) :
    flowCentralityHist t true n ≤ fcSpec t n := by
  unfold flowCentralityHist fcSpec
  by_cases hf : isFork t n = true
  · rw [if_pos hf, if_pos hf]
    exact maxList_map_mono _ _ _ (fun c hc => fcPreHist_le_tipPaths hw (child_anc hw hn hc).1)
  · rw [if_neg hf, if_neg hf]; exact fcPreHist_le_tipPaths hw hn

/-- …and equals it wherever no terminal twig is involved: at a non-fork whose chain ends in a branch
point, and at a fork none of whose children lies on a terminal twig. -/
theorem flowCentralityHist_eq_fcSpec {t : Table} (hw : WF t) {n : Int} (hn : n ∈ ids t)
    (h : if isFork t n then ∀ c ∈ children t n, seedIsFork t c = true else seedIsFork t n = true) :
    flowCentralityHist t true n = fcSpec t n := by
  unfold flowCentralityHist fcSpec
  by_cases hf : isFork t n = true
  · rw [if_pos hf] at h
    rw [if_pos hf, if_pos hf]
    congr 1
    apply List.map_congr_left
    intro c hc
    exact fcPreHist_of_seedIsFork hw (child_anc hw hn hc).1 (h c hc)
  · rw [if_neg hf] at h
    rw [if_neg hf, if_neg hf]
    exact fcPreHist_of_seedIsFork hw hn h

/-- The specification is `synapse_flow_centrality` (centripetal) with one pre- and one postsynapse on
every leaf: the repaired `flow_centrality` can reuse that code path. -/
theorem fcSpec_eq_sfc {t : Table} (hw : WF t) (n : Int) :
    fcSpec t n = sfc t true .centripetal (Flow.leafIds t) (Flow.leafIds t) n := by
  unfold fcSpec sfc
  have e : tipPaths t = sfcRaw t true .centripetal (Flow.leafIds t) (Flow.leafIds t) := by
    funext m
    unfold tipPaths sfcRaw
    exact pathsUp_eq hw _ _ m
  rw [e]

end Navis.Flow
