import NavisModel.Proofs.DistXLemmas
import NavisModel.Proofs.SegmentLemmas
/-! Helper lemmas for the second pass of C05, part 2 (core Lean only): adjacency matrix as written, `distal_to`,
`parent_dist` / masked cable length, `segment_length`, the segment builders with the extracted facts. -/
namespace Navis.DistX
open Navis.Forest

/-! ### the non-root filter -/

/-- A comparison `parent_id <cmp> <k>` that is the non-root test. -/
def nonRootCmpB (c : Cmp) (k : Int) : Bool := (c == .ge && k == 0) || (c == .gt && k == -1)

theorem nonRootCmp_spec {c : Cmp} {k : Int} (h : nonRootCmpB c k = true) (p : Int) : c.evalInt p k = decide (0 ≤ p) := by
  unfold nonRootCmpB at h
  simp only [Bool.or_eq_true, Bool.and_eq_true, beq_iff_eq] at h
  rcases h with ⟨h1, h2⟩ | ⟨h1, h2⟩ <;> subst h1 <;> subst h2 <;> simp only [Cmp.evalInt]
  by_cases hp : 0 ≤ p
  · have : (-1 : Int) < p := by omega
    simp [hp, this]
  · have : ¬ (-1 : Int) < p := by omega
    simp [hp, this]

theorem nonRoot_eq_not_isRoot (n : Node) : decide (0 ≤ n.parent) = !isRootNode n := by
  unfold isRootNode
  by_cases h : 0 ≤ n.parent
  · have : ¬ n.parent < 0 := by omega
    simp [h, this]
  · have : n.parent < 0 := by omega
    simp [h, this]

/-- `> 0` is NOT the non-root test: the children of node 0 fail it. -/
theorem gt_zero_not_nonRoot : Cmp.evalInt .gt 0 0 ≠ decide ((0 : Int) ≤ 0) := by decide

/-! ### adjacency matrix -/

theorem idxOf_eq_iff {l : List Int} {p b : Int} (hb : b ∈ l) : (l.idxOf p == l.idxOf b) = (p == b) := by
  by_cases h : p = b
  · subst h; simp
  · have hlt : l.idxOf b < l.length := List.idxOf_lt_length_of_mem hb
    have hne : l.idxOf p ≠ l.idxOf b := by
      intro he
      apply h
      have hlt' : l.idxOf p < l.length := by rw [he]; exact hlt
      have h1 : l[l.idxOf p] = p := List.getElem_idxOf hlt'
      have h2 : l[l.idxOf b] = b := List.getElem_idxOf hlt
      rw [← h1, ← h2]
      simp only [he]
    have e1 : (l.idxOf p == l.idxOf b) = false := by simpa using hne
    have e2 : (p == b) = false := by simpa using h
    rw [e1, e2]

theorem getElem_ids {t : Table} {i : Nat} (h : i < t.length) (h' : i < (ids t).length) : (ids t)[i] = (t[i]).id := by
  simp only [ids, List.getElem_map]

/-- **The adjacency matrix as written is the parent relation under the node-id labels.** -/
theorem adjMatW_get {c : Cmp} {k : Int} (hck : nonRootCmpB c k = true) (t : Table) (hnd : (ids t).Nodup)
    {a b : Int} (ha : a ∈ ids t) (hb : b ∈ ids t) : (adjMatW c k t).get? a b = some (adjacent t a b) := by
  unfold LMat.get? adjMatW
  have h1 : (ids t).contains a = true := List.contains_iff_mem.mpr ha
  have h2 : (ids t).contains b = true := List.contains_iff_mem.mpr hb
  simp only [h1, h2, Bool.and_self, if_true]
  have hlen : (ids t).length = t.length := by simp [ids]
  have hia : (ids t).idxOf a < t.length := by rw [← hlen]; exact List.idxOf_lt_length_of_mem ha
  have hib : (ids t).idxOf b < t.length := by rw [← hlen]; exact List.idxOf_lt_length_of_mem hb
  rw [List.getElem?_map, List.getElem?_eq_getElem hia]
  simp only [Option.map_some]
  rw [List.getElem?_map, List.getElem?_eq_getElem (by simp; exact hib)]
  simp only [Option.map_some, List.getElem_range]
  -- the node in row `idxOf a`
  have hid : (t[(ids t).idxOf a]).id = a := by
    rw [← getElem_ids hia (by rw [hlen]; exact hia)]
    exact List.getElem_idxOf (by rw [hlen]; exact hia)
  have hmem : t[(ids t).idxOf a] ∈ t := List.getElem_mem hia
  have hf : find? t a = some (t[(ids t).idxOf a]) := by
    have := find?_of_mem hnd hmem
    rw [hid] at this
    exact this
  unfold adjacent
  rw [hf]
  simp only
  rw [nonRootCmp_spec hck, idxOf_eq_iff hb]

/-- `sort=True`: any label order that contains the two ids shows the same relation. -/
theorem adjSorted_get {c : Cmp} {k : Int} (hck : nonRootCmpB c k = true) (t : Table) (hnd : (ids t).Nodup)
    (p : List Int) {a b : Int} (ha : a ∈ p) (hb : b ∈ p) (ha' : a ∈ ids t) (hb' : b ∈ ids t) :
    (adjSorted c k t p).get? a b = some (adjacent t a b) := by
  unfold adjSorted
  rw [get?_reindex false _ p ha hb, adjMatW_get hck t hnd ha' hb']
  rfl

/-! ### `distal_to` -/

theorem mem_axisLabels_given {t : Table} {f : FromV} (h : f.toList ≠ [] ∨ ∃ l, f = .list l) (x : Int) :
    x ∈ axisLabels t f ↔ x ∈ f.toList := by
  cases f with
  | none => rcases h with h | ⟨l, h⟩ <;> simp [FromV.toList] at h
  | scalar i => simp [axisLabels, FromV.toList, mem_npUnique]
  | list l => simp [axisLabels, FromV.toList, mem_npUnique]

theorem axisLabels_nodup {t : Table} (hnd : (ids t).Nodup) (f : FromV) : (axisLabels t f).Nodup := by
  cases f with
  | none => exact hnd
  | scalar i => exact npUnique_nodup _
  | list l => exact npUnique_nodup _

theorem geoDir_isSome_eq_contains (t : Table) (x y : Int) :
    (geo t (fun _ _ => 1) true x y).isSome = (rootPath t x).contains y := by
  have := geo_directed_isSome_iff t (fun _ _ => 1) x y
  cases h : (rootPath t x).contains y with
  | true => exact this.mpr (List.contains_iff_mem.mp h)
  | false =>
    cases h2 : (geo t (fun _ _ => 1) true x y).isSome with
    | false => rfl
    | true =>
      have := List.contains_iff_mem.mpr (this.mp h2)
      rw [h] at this
      exact absurd this (by simp)

/-- **`distal_to` as written**: the entry under labels `(x, y)` says whether `y` lies on `x`'s path to the root. -/
theorem distalW_get (t : Table) (a b : FromV) {x y : Int} (hx : x ∈ axisLabels t a) (hy : y ∈ axisLabels t b) :
    (distalW t a b).get? x y = some ((rootPath t x).contains y) := by
  unfold distalW
  rw [get?_build _ _ (fun x y => (geo t (fun _ _ => 1) true x y).isSome) hx hy, geoDir_isSome_eq_contains]

theorem npUnique_singleton (i : Int) : npUnique [i] = [i] := by
  simp [npUnique, dedup, sortedInts, sortBy, insertBy]

/-- One row label and one column label: a scalar. -/
theorem distalOut_scalar (t : Table) (i j : Int) :
    distalOut (distalW t (.scalar i) (.scalar j)) = .inl ((rootPath t i).contains j) := by
  simp only [distalW, axisLabels, npUnique_singleton, List.map_cons, List.map_nil, distalOut, geoDir_isSome_eq_contains]

end Navis.DistX
