import NavisModel.Proofs.ConnSubLemmas
/-!
Algebra of `subset` (C10, second pass; core Lean only): a subset depends on its keep-predicate only
through the ids of the table, subsetting twice is subsetting once, root paths inside a subset are the
kept prefix of the original root path, roots of a subset.
-/
namespace Navis.Forest

/-! ### `subset` only looks at the predicate on the ids of the table -/

theorem filter_congr_ids {t : Table} {f g : Int → Bool} (h : ∀ i ∈ ids t, f i = g i) :
    (t.filter fun n => f n.id) = t.filter fun n => g n.id := by
  apply List.filter_congr
  intro n hn
  exact h n.id (mem_ids_of_mem hn)

theorem subset_congr {t : Table} {f g : Int → Bool} (h : ∀ i ∈ ids t, f i = g i) : subset t f = subset t g := by
  unfold subset
  rw [filter_congr_ids h]

/-! ### labels do not matter to `classify` -/

def eraseLabel (n : Node) : Node := { n with label := .slab }

@[simp] theorem eraseLabel_id (n : Node) : (eraseLabel n).id = n.id := rfl
@[simp] theorem eraseLabel_parent (n : Node) : (eraseLabel n).parent = n.parent := rfl

theorem parents_map_eraseLabel (t : Table) : parents (t.map eraseLabel) = parents t := by
  unfold parents; rw [List.map_map]; rfl

theorem ids_map_eraseLabel (t : Table) : ids (t.map eraseLabel) = ids t := by
  unfold ids; rw [List.map_map]; rfl

theorem classify_map_eraseLabel (t : Table) : classify (t.map eraseLabel) = classify t := by
  unfold classify
  rw [List.map_map]
  apply List.map_congr_left
  intro n _
  simp only [Function.comp]
  have : classifyNode (t.map eraseLabel) (eraseLabel n) = classifyNode t n := by
    unfold classifyNode
    rw [parents_map_eraseLabel]
    rfl
  rw [this]
  rfl

/-- Tables that agree up to labels classify to the same table. -/
theorem classify_congr {t u : Table} (h : t.map eraseLabel = u.map eraseLabel) : classify t = classify u := by
  rw [← classify_map_eraseLabel t, ← classify_map_eraseLabel u, h]

theorem classify_eraseLabel (t : Table) : (classify t).map eraseLabel = t.map eraseLabel := by
  unfold classify
  rw [List.map_map]
  apply List.map_congr_left
  intro n _
  rfl

/-- What `fixOrphans` does to one row, given the id list of the table. -/
def orphanRow (I : List Int) (n : Node) : Node := if I.contains n.parent then n else { n with parent := -1 }

theorem fixOrphans_eq_map (t : Table) : fixOrphans t = t.map (orphanRow (ids t)) := rfl

@[simp] theorem orphanRow_id (I : List Int) (n : Node) : (orphanRow I n).id = n.id := by
  unfold orphanRow; split <;> rfl

theorem orphanRow_pos {I : List Int} {n : Node} (h : I.contains n.parent = true) : orphanRow I n = n := by
  unfold orphanRow; rw [if_pos h]

theorem orphanRow_neg {I : List Int} {n : Node} (h : ¬ I.contains n.parent = true) :
    orphanRow I n = { n with parent := -1 } := by
  unfold orphanRow; rw [if_neg h]

theorem orphanRow_eraseLabel (I : List Int) (n : Node) : eraseLabel (orphanRow I n) = orphanRow I (eraseLabel n) := by
  by_cases h : I.contains n.parent = true
  · rw [orphanRow_pos h, orphanRow_pos (by simpa using h)]
  · rw [orphanRow_neg h, orphanRow_neg (by simpa using h)]; rfl

theorem fixOrphans_eraseLabel (t : Table) : (fixOrphans t).map eraseLabel = fixOrphans (t.map eraseLabel) := by
  rw [fixOrphans_eq_map, fixOrphans_eq_map, List.map_map, List.map_map, ids_map_eraseLabel]
  apply List.map_congr_left
  intro n _
  simp only [Function.comp]
  exact orphanRow_eraseLabel _ n

theorem filter_eraseLabel (t : Table) (keep : Int → Bool) :
    (t.filter fun n => keep n.id).map eraseLabel = (t.map eraseLabel).filter fun n => keep n.id := by
  rw [List.filter_map]
  rfl

/-! ### subsetting twice -/

theorem ids_map_orphanRow (I : List Int) (t : Table) : ids (t.map (orphanRow I)) = ids t := by
  unfold ids
  rw [List.map_map]
  apply List.map_congr_left
  intro n _
  simp

theorem fixOrphans_filter_fixOrphans (a : Table) (q : Int → Bool) :
    fixOrphans ((fixOrphans a).filter fun n => q n.id) = fixOrphans (a.filter fun n => q n.id) := by
  have hcomm : (fixOrphans a).filter (fun n => q n.id) = (a.filter fun n => q n.id).map (orphanRow (ids a)) := by
    rw [fixOrphans_eq_map, List.filter_map]
    congr 1
    apply List.filter_congr
    intro n _
    simp [Function.comp]
  rw [hcomm, fixOrphans_eq_map, fixOrphans_eq_map, ids_map_orphanRow, List.map_map]
  have hsub : ∀ i, i ∈ ids (a.filter fun n => q n.id) → i ∈ ids a := by
    intro i hi
    obtain ⟨n, hn, rfl⟩ := mem_ids.mp hi
    exact mem_ids_of_mem (List.mem_filter.mp hn).1
  apply List.map_congr_left
  intro n _
  simp only [Function.comp]
  generalize hD : ids (a.filter fun n => q n.id) = D at hsub
  by_cases h1 : D.contains n.parent = true
  · have h2 : (ids a).contains n.parent = true := by
      simp only [List.contains_eq_mem, decide_eq_true_eq] at h1 ⊢
      exact hsub _ h1
    rw [orphanRow_pos h2, orphanRow_pos h1]
  · rw [orphanRow_neg h1]
    by_cases h2 : (ids a).contains n.parent = true
    · rw [orphanRow_pos h2, orphanRow_neg h1]
    · rw [orphanRow_neg h2]
      by_cases h3 : D.contains (-1 : Int) = true
      · rw [orphanRow_pos (by simpa using h3)]
      · rw [orphanRow_neg (by simpa using h3)]

/-- **Subsetting twice is subsetting once** (to the intersection of the two keep-predicates). -/
theorem subset_subset (t : Table) (k1 k2 : Int → Bool) :
    subset (subset t k1) k2 = subset t fun i => k1 i && k2 i := by
  unfold subset
  apply classify_congr
  have e1 : (fixOrphans ((classify (fixOrphans (t.filter fun n => k1 n.id))).filter fun n => k2 n.id)).map eraseLabel =
      (fixOrphans ((fixOrphans (t.filter fun n => k1 n.id)).filter fun n => k2 n.id)).map eraseLabel := by
    rw [fixOrphans_eraseLabel, filter_eraseLabel, classify_eraseLabel, ← filter_eraseLabel, ← fixOrphans_eraseLabel]
  rw [e1, fixOrphans_filter_fixOrphans]
  congr 2
  rw [List.filter_filter]
  apply List.filter_congr
  intro n _
  simp [Bool.and_comm]

/-! ### rows of a subset -/

/-- The row of a kept node inside the subset. -/
theorem find?_subset {t : Table} (hw : WF t) (keep : Int → Bool) {n : Node} (hn : n ∈ t) (hk : keep n.id = true) :
    ∃ m, find? (subset t keep) n.id = some m ∧
      m.parent = (if n.parent ∈ (ids t).filter keep then n.parent else -1) := by
  obtain ⟨m, hm, hmid, hmp⟩ := subset_row_of_mem hw.1 keep hn hk
  have hws := WF_subset hw keep
  have := find?_of_mem hws.1 hm
  rw [hmid] at this
  exact ⟨m, this, hmp⟩

/-! ### root paths inside a subset -/

theorem nodup_split_unique {α : Type} {a : α} : ∀ {p1 p2 s1 s2 : List α}, p1 ++ a :: s1 = p2 ++ a :: s2 → a ∉ p1 → a ∉ p2 →
    p1 = p2 ∧ s1 = s2
  | [], [], _, _, h, _, _ => by simp at h; exact ⟨rfl, h⟩
  | [], y :: p2, _, _, h, _, h2 => by
    simp at h; exact absurd (h.1 ▸ List.mem_cons_self) h2
  | y :: p1, [], _, _, h, h1, _ => by
    simp at h; exact absurd (h.1 ▸ List.mem_cons_self) h1
  | y :: p1, z :: p2, s1, s2, h, h1, h2 => by
    simp only [List.cons_append, List.cons.injEq] at h
    obtain ⟨e1, e2⟩ := nodup_split_unique h.2 (fun hh => h1 (List.mem_cons_of_mem _ hh)) (fun hh => h2 (List.mem_cons_of_mem _ hh))
    exact ⟨by rw [h.1, e1], e2⟩

/-- **The root path of a kept node inside a subset is the kept prefix of its original root path**: the
walk stops at the first ancestor that was not kept (which made its child a new root). -/
theorem rootPath_subset {t : Table} (hw : WF t) (keep : Int → Bool) :
    ∀ i ∈ ids t, keep i = true → rootPath (subset t keep) i = (rootPath t i).takeWhile keep := by
  have hws := WF_subset hw keep
  refine WF_induct hw (fun i => keep i = true → rootPath (subset t keep) i = (rootPath t i).takeWhile keep) ?_
  intro n hn hcase hk
  obtain ⟨m, hfm, hmp⟩ := find?_subset hw keep hn hk
  have hf := find?_of_mem hw.1 hn
  by_cases hp : n.parent < 0
  · have hnot : n.parent ∉ (ids t).filter keep := by
      intro h
      have := hw.2.1
      obtain ⟨q, hq, hqid⟩ := mem_ids.mp (List.mem_filter.mp h).1
      have := this q hq
      omega
    rw [if_neg hnot] at hmp
    rw [rootPath_of_root hfm (by rw [hmp]; decide), rootPath_of_root hf hp]
    simp [hk]
  · have e := rootPath_of_nonroot hw hf hp
    rw [e, List.takeWhile_cons, if_pos hk]
    have hpin := WF_parent_mem hw hn hp
    by_cases hkp : keep n.parent = true
    · have hin : n.parent ∈ (ids t).filter keep := List.mem_filter.mpr ⟨hpin, hkp⟩
      rw [if_pos hin] at hmp
      rw [rootPath_of_nonroot hws hfm (by rw [hmp]; exact hp), hmp]
      rcases hcase with hc | hc
      · exact absurd hc hp
      · rw [hc hkp]
    · have hnot : n.parent ∉ (ids t).filter keep := fun h => hkp (List.mem_filter.mp h).2
      rw [if_neg hnot] at hmp
      rw [rootPath_of_root hfm (by rw [hmp]; decide)]
      obtain ⟨rest, hrest⟩ := rootPath_cons hpin
      rw [hrest, List.takeWhile_cons]
      simp [hkp]

/-- Ancestors inside a subset are ancestors in the original table. -/
theorem anc_of_anc_subset {t : Table} (hw : WF t) (keep : Int → Bool) {a i : Int}
    (h : a ∈ rootPath (subset t keep) i) : a ∈ rootPath t i ∧ keep a = true ∧ keep i = true ∧ i ∈ ids t := by
  have hi := (anc_ids h).2
  rw [ids_subset] at hi
  obtain ⟨hi1, hi2⟩ := List.mem_filter.mp hi
  rw [rootPath_subset hw keep i hi1 hi2] at h
  exact ⟨(List.takeWhile_sublist _).subset h, List.all_eq_true.mp List.all_takeWhile a h, hi2, hi1⟩

/-- When the kept ancestors of `i` form an initial piece of its root path (every node between `i` and a
kept ancestor is kept), being an ancestor inside the subset is being a kept ancestor. -/
theorem anc_subset_iff {t : Table} (hw : WF t) (keep : Int → Bool) {a i : Int} (hi : i ∈ ids t) (hk : keep i = true)
    (hconv : ∀ x ∈ rootPath t i, a ∈ rootPath t x → keep x = true) :
    a ∈ rootPath (subset t keep) i ↔ a ∈ rootPath t i ∧ keep a = true := by
  constructor
  · intro h
    obtain ⟨h1, h2, _, _⟩ := anc_of_anc_subset hw keep h
    exact ⟨h1, h2⟩
  · rintro ⟨h1, _⟩
    rw [rootPath_subset hw keep i hi hk]
    -- split the root path at `a`: everything before `a` is below `a` on the path, hence kept
    obtain ⟨pre, post, hsplit⟩ := List.append_of_mem h1
    have hnd := rootPath_nodup hw i
    have hpre : ∀ x ∈ pre, keep x = true := by
      intro x hx
      have hxi : x ∈ rootPath t i := by rw [hsplit]; exact List.mem_append_left _ hx
      apply hconv x hxi
      -- `x` and `a` are comparable; `x` comes before `a` on the (duplicate-free) path, so `a` is above `x`
      rcases anc_comparable hw hxi h1 with hc | hc
      · exfalso
        -- `rootPath t a` is the suffix of the path that starts at `a`, i.e. `a :: post`
        obtain ⟨ra, hra⟩ := rootPath_cons (rootPath_sub h1)
        obtain ⟨q, hq⟩ := anc_suffix hw h1
        rw [hra, hsplit] at hq
        rw [hsplit] at hnd
        have hnd' := hnd
        rw [← hq] at hnd'
        have ha_pre : a ∉ pre := fun hh => (List.nodup_append.mp hnd).2.2 a hh a List.mem_cons_self rfl
        have ha_q : a ∉ q := fun hh => (List.nodup_append.mp hnd').2.2 a hh a List.mem_cons_self rfl
        obtain ⟨_, hpost⟩ := nodup_split_unique hq ha_q ha_pre
        rw [hra, hpost] at hc
        rcases List.mem_cons.mp hc with hxa | hxp
        · exact ha_pre (hxa ▸ hx)
        · exact (List.nodup_append.mp hnd).2.2 x hx x (List.mem_cons_of_mem _ hxp) rfl
      · exact hc
    rw [hsplit, List.takeWhile_append_of_pos hpre]
    apply List.mem_append_right
    rw [List.takeWhile_cons]
    have hka : keep a = true := hconv a h1 (anc_refl (rootPath_sub h1))
    simp [hka]

/-! ### roots of a subset -/

theorem mem_roots {t : Table} {r : Int} : r ∈ roots t ↔ ∃ n ∈ t, n.id = r ∧ n.parent < 0 := by
  unfold roots
  simp only [List.mem_map, List.mem_filter, isRootNode, decide_eq_true_eq]
  constructor
  · rintro ⟨n, ⟨hn, hp⟩, rfl⟩; exact ⟨n, hn, rfl, hp⟩
  · rintro ⟨n, hn, rfl, hp⟩; exact ⟨n, ⟨hn, hp⟩, rfl⟩

/-- The roots of a subset are the kept nodes whose parent was not kept (or that were roots). -/
theorem mem_roots_subset {t : Table} (hw : WF t) (keep : Int → Bool) {r : Int} :
    r ∈ roots (subset t keep) ↔ ∃ n ∈ t, n.id = r ∧ keep r = true ∧ (n.parent < 0 ∨ keep n.parent = false) := by
  rw [mem_roots]
  constructor
  · rintro ⟨m, hm, rfl, hp⟩
    obtain ⟨n, hn, hid, hk, _, _, _, hmp⟩ := subset_parent hw.1 keep hm
    refine ⟨n, hn, hid, hid ▸ hk, ?_⟩
    by_cases hin : n.parent ∈ (ids t).filter keep
    · rw [if_pos hin] at hmp; left; rw [← hmp]; exact hp
    · by_cases hneg : n.parent < 0
      · exact Or.inl hneg
      · right
        have hpin := WF_parent_mem hw hn hneg
        cases hkp : keep n.parent with
        | false => rfl
        | true => exact absurd (List.mem_filter.mpr ⟨hpin, hkp⟩) hin
  · rintro ⟨n, hn, rfl, hk, hcase⟩
    obtain ⟨m, hm, hmid, hmp⟩ := subset_row_of_mem hw.1 keep hn hk
    refine ⟨m, hm, hmid, ?_⟩
    have hnot : n.parent ∉ (ids t).filter keep := by
      intro h
      obtain ⟨h1, h2⟩ := List.mem_filter.mp h
      rcases hcase with hc | hc
      · obtain ⟨q, hq, hqid⟩ := mem_ids.mp h1
        have := hw.2.1 q hq
        omega
      · rw [hc] at h2; exact absurd h2 (by decide)
    rw [if_neg hnot] at hmp
    rw [hmp]; decide

end Navis.Forest
