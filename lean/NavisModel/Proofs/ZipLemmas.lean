import NavisModel.Model.Zip
/-! Helper lemmas for the NeuronProcessor part of C09 (core Lean only). -/
namespace Navis.Zip

theorem parseArgs_get {β} (n i : Nat) (hi : i < n) (args : List (Bool × Arg β)) :
    (parseArgs n args)[i]? = some (args.map fun (ex, a) =>
      if ex then a else match a with
        | .scalar v => .scalar v
        | .many vs => if vs.length = n then (match vs[i]? with | some v => .scalar v | none => .many vs) else .many vs) := by
  unfold parseArgs
  rw [List.getElem?_map, List.getElem?_range hi]
  simp only [Option.map_some, Option.some.injEq]
  apply List.map_congr_left
  rintro ⟨ex, a⟩ _
  unfold parseArg
  cases ex <;> simp
  cases a with
  | scalar v => rfl
  | many vs =>
    by_cases h : vs.length = n
    · simp only [h, ne_eq, not_true_eq_false, if_false, if_true]; split <;> simp_all
    · simp [h]

theorem chunks_flatten {α} (cs : Nat) (xs : List α) : (chunks cs xs).flatten = xs := by
  fun_induction chunks cs xs <;> simp_all

theorem processParallel_eq {ν β γ} (f : ν → List (Arg β) → Res γ) (nl : List ν) (args : List (Bool × Arg β))
    (omitF : Bool) (cs : Nat) : processParallel f nl args omitF cs = process f nl args omitF := by
  unfold processParallel process
  have : ((chunks cs (nl.zip (parseArgs nl.length args))).map fun ch => ch.map fun (x, a) => f x a).flatten
      = (nl.zip (parseArgs nl.length args)).map fun (x, a) => f x a := by
    rw [← List.map_flatten, chunks_flatten]
  simp only [this]

theorem process_omit {ν β γ} (f : ν → List (Arg β) → Res γ) (nl : List ν) (args : List (Bool × Arg β)) :
    process f nl args true = some ((nl.zip (parseArgs nl.length args)).filterMap fun (x, a) => f x a) := by
  unfold process
  simp [List.filterMap_map]

theorem filterMap_id_of_all_some {γ} (l : List (Option γ)) (h : ∀ x ∈ l, x.isSome) :
    (l.filterMap id).map some = l := by
  induction l with
  | nil => rfl
  | cons x xs ih =>
    have hx := h x (by simp)
    cases x with
    | none => simp at hx
    | some v => simp [ih (fun y hy => h y (by simp [hy]))]

theorem parseArgs_length {β} (n : Nat) (args : List (Bool × Arg β)) : (parseArgs n args).length = n := by
  simp [parseArgs]

theorem process_in_order {ν β γ} (f : ν → List (Arg β) → Res γ) (nl : List ν) (args : List (Bool × Arg β))
    (omitF : Bool) (out : List γ) (hall : ∀ k (hk : k < nl.length), (f nl[k] ((parseArgs nl.length args).getD k [])).isSome)
    (h : process f nl args omitF = some out) :
    out.length = nl.length ∧ ∀ k (hk : k < nl.length), (f nl[k] ((parseArgs nl.length args).getD k [])) = out[k]? := by
  let runs := (nl.zip (parseArgs nl.length args)).map fun (x, a) => f x a
  have hlen : runs.length = nl.length := by simp [runs, parseArgs_length]
  have hget : ∀ k (hk : k < nl.length), runs[k]? = some (f nl[k] ((parseArgs nl.length args).getD k [])) := by
    intro k hk
    have hk2 : k < (parseArgs nl.length args).length := by rw [parseArgs_length]; exact hk
    have hz : (nl.zip (parseArgs nl.length args))[k]? = some (nl[k], (parseArgs nl.length args)[k]) :=
      List.getElem?_zip_eq_some.mpr ⟨List.getElem?_eq_getElem hk, List.getElem?_eq_getElem hk2⟩
    simp only [runs, List.getElem?_map, hz, Option.map_some]
    rw [List.getD_eq_getElem?_getD, List.getElem?_eq_getElem hk2]; rfl
  have hsome : ∀ x ∈ runs, x.isSome := by
    intro x hx
    obtain ⟨k, hk, rfl⟩ := List.getElem_of_mem hx
    have hk' : k < nl.length := hlen ▸ hk
    have := hget k hk'
    rw [List.getElem?_eq_getElem hk] at this
    simp only [Option.some.injEq] at this
    rw [this]; exact hall k hk'
  have hout : out = runs.filterMap id := by
    unfold process at h
    have hall' : runs.all Option.isSome = true := by rw [List.all_eq_true]; exact hsome
    cases omitF <;> simp only [Bool.false_eq_true, if_false, if_true] at h
    · simp only [runs] at hall'; rw [if_pos hall'] at h; exact (Option.some.inj h).symm
    · exact (Option.some.inj h).symm
  have hmap := filterMap_id_of_all_some runs hsome
  rw [← hout] at hmap
  have hl : out.length = nl.length := by
    have := congrArg List.length hmap; simp at this; omega
  refine ⟨hl, ?_⟩
  intro k hk
  have := hget k hk
  rw [← hmap, List.getElem?_map] at this
  cases ho : out[k]? with
  | none => rw [ho] at this; simp at this
  | some v => rw [ho] at this; simp only [Option.map_some, Option.some.injEq] at this; exact this.symm

end Navis.Zip
