import NavisModel.Model.Zip
/-! Helper lemmas for the NeuronProcessor part of C09 (core Lean only). -/
namespace Navis.Zip

theorem parseArgs_get {β} (n i : Nat) (hi : i < n) (args : List (Bool × Arg β)) :
    (parseArgs n args)[i]? = some (args.map fun (ex, a) =>
      if ex then a else match a with
        | .scalar v => .scalar v
        | .many vs => if vs.length = n then (match vs[i]? with | some v => .scalar v | none => .many vs) else .many vs) := by
  unfold parseArgs
  rw [List.getElem?_map, List.getElem?_range hi]
  simp only [Option.map_some, Option.some.injEq]
  apply List.map_congr_left
  rintro ⟨ex, a⟩ _
  unfold parseArg
  cases ex <;> simp
  cases a with
  | scalar v => rfl
  | many vs =>
    by_cases h : vs.length = n
    · simp only [h, ne_eq, not_true_eq_false, if_false, if_true]; split <;> simp_all
    · simp [h]

theorem chunks_flatten {α} (cs : Nat) (xs : List α) : (chunks cs xs).flatten = xs := by
  fun_induction chunks cs xs <;> simp_all

theorem processParallel_eq {ν β γ} (f : ν → List (Arg β) → Res γ) (nl : List ν) (args : List (Bool × Arg β))
    (omitF : Bool) (cs : Nat) : processParallel f nl args omitF cs = process f nl args omitF := by
  unfold processParallel process
  have : ((chunks cs (nl.zip (parseArgs nl.length args))).map fun ch => ch.map fun (x, a) => f x a).flatten
      = (nl.zip (parseArgs nl.length args)).map fun (x, a) => f x a := by
    rw [← List.map_flatten, chunks_flatten]
  simp only [this]

theorem process_omit {ν β γ} (f : ν → List (Arg β) → Res γ) (nl : List ν) (args : List (Bool × Arg β)) :
    process f nl args true = some ((nl.zip (parseArgs nl.length args)).filterMap fun (x, a) => f x a) := by
  unfold process
  simp [List.filterMap_map]

theorem filterMap_id_of_all_some {γ} (l : List (Option γ)) (h : ∀ x ∈ l, x.isSome) :
    (l.filterMap id).map some = l := by
  induction l with
  | nil => rfl
  | cons x xs ih =>
    have hx := h x (by simp)
    cases x with
    | none => simp at hx
    | some v => simp [ih (fun y hy => h y (by simp [hy]))]

theorem parseArgs_length {β} (n : Nat) (args : List (Bool × Arg β)) : (parseArgs n args).length = n := by
  simp [parseArgs]

theorem process_in_order {ν β γ} (f : ν → List (Arg β) → Res γ) (nl : List ν) (args : List (Bool × Arg β))
    (omitF : Bool) (out : List γ) (hall : ∀ k (hk : k < nl.length), (f nl[k] ((parseArgs nl.length args).getD k [])).isSome)
    (h : process f nl args omitF = some out) :
    out.length = nl.length ∧ ∀ k (hk : k < nl.length), (f nl[k] ((parseArgs nl.length args).getD k [])) = out[k]? := by
  let runs := (nl.zip (parseArgs nl.length args)).map fun (x, a) => f x a
  have hlen : runs.length = nl.length := by simp [runs, parseArgs_length]
  have hget : ∀ k (hk : k < nl.length), runs[k]? = some (f nl[k] ((parseArgs nl.length args).getD k [])) := by
    intro k hk
    have hk2 : k < (parseArgs nl.length args).length := by rw [parseArgs_length]; exact hk
    have hz : (nl.zip (parseArgs nl.length args))[k]? = some (nl[k], (parseArgs nl.length args)[k]) :=
      List.getElem?_zip_eq_some.mpr ⟨List.getElem?_eq_getElem hk, List.getElem?_eq_getElem hk2⟩
    simp only [runs, List.getElem?_map, hz, Option.map_some]
    rw [List.getD_eq_getElem?_getD, List.getElem?_eq_getElem hk2]; rfl
  have hsome : ∀ x ∈ runs, x.isSome := by
    intro x hx
    obtain ⟨k, hk, rfl⟩ := List.getElem_of_mem hx
    have hk' : k < nl.length := hlen ▸ hk
    have := hget k hk'
    rw [List.getElem?_eq_getElem hk] at this
    simp only [Option.some.injEq] at this
    rw [this]; exact hall k hk'
  have hout : out = runs.filterMap id := by
    unfold process at h
    have hall' : runs.all Option.isSome = true := by rw [List.all_eq_true]; exact hsome
    cases omitF <;> simp only [Bool.false_eq_true, if_false, if_true] at h
    · simp only [runs] at hall'; rw [if_pos hall'] at h; exact (Option.some.inj h).symm
    · exact (Option.some.inj h).symm
  have hmap := filterMap_id_of_all_some runs hsome
  rw [← hout] at hmap
  have hl : out.length = nl.length := by
    have := congrArg List.length hmap; simp at this; omega
  refine ⟨hl, ?_⟩
  intro k hk
  have := hget k hk
  rw [← hmap, List.getElem?_map] at this
  cases ho : out[k]? with
  | none => rw [ho] at this; simp at this
  | some v => rw [ho] at this; simp only [Option.map_some, Option.some.injEq] at this; exact this.symm

/-! ## Extensions (second pass) -/

theorem mapM_some_spec {α β} (f : α → Option β) (l : List α) (ys : List β) (h : l.mapM f = some ys) :
    ys.length = l.length ∧ ∀ i (hi : i < l.length), ys[i]? = f l[i] := by
  induction l generalizing ys with
  | nil => simp at h; subst h; simp
  | cons a l ih =>
    rw [List.mapM_cons] at h
    cases hfa : f a with
    | none => rw [hfa] at h; simp at h
    | some b =>
      rw [hfa] at h
      cases hl : l.mapM f with
      | none => rw [hl] at h; simp at h
      | some bs =>
        rw [hl] at h
        simp at h
        subst h
        obtain ⟨h1, h2⟩ := ih bs hl
        refine ⟨by simp [h1], ?_⟩
        intro i hi
        cases i with
        | zero => simp [hfa]
        | succ i => simp at hi ⊢; exact h2 i hi

/-! ### the zip rule -/

theorem parseVal_excluded {β} (n i : Nat) (a : Val β) : parseVal n i true a = some a := by
  simp [parseVal]

theorem parseVal_not_iterable {β} (n i : Nat) (ex : Bool) (a : Val β) (h : a.isIterable = false) :
    parseVal n i ex a = some a := by
  unfold parseVal; cases ex <;> simp [h]

theorem parseVal_seq_match {β} (n i : Nat) (vs : List β) (hlen : vs.length = n) (hi : i < n) :
    parseVal n i false (.seq vs) = some (.atom (vs[i]'(by omega))) := by
  unfold parseVal
  simp only [Bool.false_eq_true, if_false, Val.isIterable, Bool.not_true, Val.len?, hlen, ne_eq,
    not_true_eq_false, Val.index?]
  rw [List.getElem?_eq_getElem (by omega)]; rfl

theorem parseVal_seq_other {β} (n i : Nat) (vs : List β) (hlen : vs.length ≠ n) :
    parseVal n i false (.seq vs) = some (.seq vs) := by
  unfold parseVal
  simp [Val.isIterable, Val.len?, hlen]

theorem parseVal_dict_match {β} (n i : Nat) (kvs : List (Nat × β)) (o : Nat) (hlen : kvs.length + o = n) :
    parseVal n i false (.dict kvs o) = (kvs.lookup i).map .atom := by
  unfold parseVal
  simp [Val.isIterable, Val.len?, hlen, Val.index?]

/-! ### per-neuron calls -/

theorem parseCall_aux {ν β} (nl : List ν) (exclPos : List Nat) (exclKw : List String)
    (args : List (Val β)) (kwargs : List (String × Val β)) (i : Nat) (first : ν ⊕ List ν) (as : List (Val β))
    (kws : List (String × Val β)) (hfirst : parseFirst nl exclPos i = some first)
    (has : (args.zipIdx 1).mapM (fun ak => parseVal nl.length i (decide (ak.2 ∈ exclPos)) ak.1) = some as)
    (hkws : kwargs.mapM (fun kv => (parseVal nl.length i (decide (kv.1 ∈ exclKw)) kv.2).map fun v' => (kv.1, v')) = some kws) :
    (0 ∉ exclPos → first = (nl[i]?).elim (.inr []) .inl ∧ (nl[i]?).isSome) ∧
    as.length = args.length ∧
    (∀ k (hk : k < args.length), as[k]? = parseVal nl.length i (decide (k + 1 ∈ exclPos)) args[k]) ∧
    kws.length = kwargs.length ∧
    (∀ k (hk : k < kwargs.length), kws[k]? =
        (parseVal nl.length i (decide (kwargs[k].1 ∈ exclKw)) kwargs[k].2).map fun v => (kwargs[k].1, v)) := by
  obtain ⟨hl1, hg1⟩ := mapM_some_spec _ _ _ has
  obtain ⟨hl2, hg2⟩ := mapM_some_spec _ _ _ hkws
  refine ⟨?_, ?_, ?_, hl2, ?_⟩
  · intro h0
    unfold parseFirst at hfirst
    rw [if_neg h0] at hfirst
    cases hn : nl[i]? with
    | none => rw [hn] at hfirst; simp at hfirst
    | some x => rw [hn] at hfirst; simp at hfirst; simp [← hfirst]
  · simpa using hl1
  · intro k hk
    have hk' : k < (args.zipIdx 1).length := by simpa using hk
    have := hg1 k hk'
    rw [this]
    simp only [List.getElem_zipIdx]
    have : 1 + k = k + 1 := by omega
    rw [this]
  · intro k hk
    exact hg2 k hk


theorem parseCall_spec {ν β} (nl : List ν) (exclPos : List Nat) (exclKw : List String)
    (args : List (Val β)) (kwargs : List (String × Val β)) (i : Nat) (c : Call ν β)
    (h : parseCall nl exclPos exclKw args kwargs i = some c) :
    (0 ∉ exclPos → c.first = (nl[i]?).elim (.inr []) .inl ∧ (nl[i]?).isSome) ∧
    c.args.length = args.length ∧
    (∀ k (hk : k < args.length), c.args[k]? = parseVal nl.length i (decide (k + 1 ∈ exclPos)) args[k]) ∧
    c.kwargs.length = kwargs.length ∧
    (∀ k (hk : k < kwargs.length), c.kwargs[k]? =
        (parseVal nl.length i (decide (kwargs[k].1 ∈ exclKw)) kwargs[k].2).map fun v => (kwargs[k].1, v)) := by
  unfold parseCall at h
  split at h
  · rename_i first as kws hfirst has hkws
    simp only [Option.some.injEq] at h
    subst h
    exact parseCall_aux nl exclPos exclKw args kwargs i first as kws hfirst has hkws
  · simp at h


/-- ordered `imap` with any chunk size = the serial loop. -/
theorem processWParallel_eq {ν β γ} (f : Nat → Call ν β → Res γ) (nl : List ν) (exclPos : List Nat)
    (exclKw : List String) (args : List (Val β)) (kwargs : List (String × Val β)) (omitF : Bool) (cs : Nat) :
    processWParallel f nl exclPos exclKw args kwargs omitF cs = processW f nl exclPos exclKw args kwargs omitF := by
  unfold processWParallel processW
  cases (List.range nl.length).mapM (parseCall nl exclPos exclKw args kwargs) with
  | none => rfl
  | some calls =>
    simp only
    have : ((chunks cs calls.zipIdx).map fun ch => ch.map fun (p : Call ν β × Nat) => f p.2 p.1).flatten
        = calls.zipIdx.map fun (p : Call ν β × Nat) => f p.2 p.1 := by
      rw [← List.map_flatten, chunks_flatten]
    rw [this]

theorem processW_omit {ν β γ} (f : Nat → Call ν β → Res γ) (nl : List ν) (exclPos : List Nat)
    (exclKw : List String) (args : List (Val β)) (kwargs : List (String × Val β)) :
    processW f nl exclPos exclKw args kwargs true =
      ((List.range nl.length).mapM (parseCall nl exclPos exclKw args kwargs)).map fun calls =>
        calls.zipIdx.filterMap fun p => f p.2 p.1 := by
  unfold processW
  cases (List.range nl.length).mapM (parseCall nl exclPos exclKw args kwargs) with
  | none => rfl
  | some calls => simp [collect, List.filterMap_map, Function.comp_def]

/-- When every neuron's call is built and none fails, the `k`-th result is `funcs[k]` applied to the
`k`-th neuron's own call. -/
theorem processW_in_order {ν β γ} (f : Nat → Call ν β → Res γ) (nl : List ν) (exclPos : List Nat)
    (exclKw : List String) (args : List (Val β)) (kwargs : List (String × Val β)) (omitF : Bool)
    (calls : List (Call ν β)) (hcalls : (List.range nl.length).mapM (parseCall nl exclPos exclKw args kwargs) = some calls)
    (hall : ∀ k (hk : k < calls.length), (f k calls[k]).isSome) (out : List γ)
    (h : processW f nl exclPos exclKw args kwargs omitF = some out) :
    out.length = nl.length ∧ ∀ k (hk : k < calls.length), f k calls[k] = out[k]? := by
  obtain ⟨hlen, _⟩ := mapM_some_spec _ _ _ hcalls
  simp only [List.length_range] at hlen
  let runs := calls.zipIdx.map fun (p : Call ν β × Nat) => f p.2 p.1
  have hrl : runs.length = calls.length := by simp [runs]
  have hget : ∀ k (hk : k < calls.length), runs[k]? = some (f k calls[k]) := by
    intro k hk
    simp only [runs, List.getElem?_map, List.getElem?_zipIdx, List.getElem?_eq_getElem hk, Option.map_some,
      Nat.zero_add]
  have hsome : ∀ x ∈ runs, x.isSome := by
    intro x hx
    obtain ⟨k, hk, rfl⟩ := List.getElem_of_mem hx
    have hk' : k < calls.length := hrl ▸ hk
    have := hget k hk'
    rw [List.getElem?_eq_getElem hk] at this
    rw [Option.some.inj this]; exact hall k hk'
  have hout : out = runs.filterMap id := by
    unfold processW at h
    rw [hcalls] at h
    simp only [collect] at h
    have hall' : runs.all Option.isSome = true := by rw [List.all_eq_true]; exact hsome
    cases omitF <;> simp only [Bool.false_eq_true, if_false, if_true] at h
    · simp only [runs] at hall'; rw [if_pos hall'] at h; exact (Option.some.inj h).symm
    · exact (Option.some.inj h).symm
  have hmap := filterMap_id_of_all_some runs hsome
  rw [← hout] at hmap
  have hl : out.length = calls.length := by
    have := congrArg List.length hmap; simp at this; omega
  refine ⟨by omega, ?_⟩
  intro k hk
  have := hget k hk
  rw [← hmap, List.getElem?_map] at this
  cases ho : out[k]? with
  | none => rw [ho] at this; simp at this
  | some v => rw [ho] at this; simp only [Option.map_some, Option.some.injEq] at this; exact this.symm

/-! ### results -/

theorem finish_all_neurons {ν γ} (xs : List ν) :
    finish (xs.map (Ret.neuron (γ := γ))) = .neuronlist xs := by
  unfold finish
  have h1 : (xs.map (Ret.neuron (γ := γ))).all Ret.isNeuron = true := by
    rw [List.all_eq_true]; intro r hr
    rw [List.mem_map] at hr; obtain ⟨x, _, rfl⟩ := hr; rfl
  rw [if_pos h1]
  congr 1
  induction xs with
  | nil => rfl
  | cons x xs ih =>
    have ih' := ih (by rw [List.all_eq_true]; intro r hr; rw [List.mem_map] at hr; obtain ⟨x, _, rfl⟩ := hr; rfl)
    simp only [List.map_cons, List.flatMap_cons, Ret.unpack, List.cons_append, List.nil_append, ih']

/-! ### `map_neuronlist` -/

theorem mapNeuronlist_ok {β} (cfg : MapCfg) (n nargs : Nat) (kwargs : List (String × Val β)) (parallel : Bool)
    (inplaceKw omitKw : Option Bool) (plan : MapPlan)
    (h : mapNeuronlist cfg n nargs kwargs parallel inplaceKw omitKw = .ok plan) :
    plan.exclPos = List.range' 1 nargs ∧
    (∀ k ∈ plan.exclKw, ¬ k ∈ cfg.canZip ∧ ¬ k ∈ cfg.mustZip) ∧
    (∀ p ∈ cfg.mustZip, ∀ v, kwargs.lookup p = some v → v ≠ .pyNone → v.makeIterableLen = some n) ∧
    (∀ p ∈ cfg.canZip, ∀ v, kwargs.lookup p = some v → v.isIterable = true → v.len? = some n) := by
  unfold mapNeuronlist at h
  split at h
  · simp at h
  · simp only at h
    split at h
    · simp at h
    · rename_i hcan
      split at h
      · simp at h
      · rename_i hmust
        simp only [Except.ok.injEq] at h
        subst h
        refine ⟨rfl, ?_, ?_, ?_⟩
        · intro k hk
          simp only [List.mem_filter, Bool.and_eq_true, Bool.not_eq_eq_eq_not, Bool.not_true,
            List.contains_eq_mem, decide_eq_false_iff_not] at hk
          exact hk.2
        · intro p hp v hv hnn
          have := List.filterMap_eq_nil_iff.mp hmust p hp
          rw [hv] at this
          cases v with
          | pyNone => exact absurd rfl hnn
          | unsized => simp [Val.makeIterableLen] at this
          | atom _ => simp only [Val.makeIterableLen] at this ⊢; split at this <;> simp_all
          | seq _ => simp only [Val.makeIterableLen] at this ⊢; split at this <;> simp_all
          | dict _ _ => simp only [Val.makeIterableLen] at this ⊢; split at this <;> simp_all
          | unindexable _ => simp only [Val.makeIterableLen] at this ⊢; split at this <;> simp_all
        · intro p hp v hv hit
          have := List.filterMap_eq_nil_iff.mp hcan p hp
          rw [hv] at this
          cases v with
          | pyNone => simp [Val.isIterable] at hit
          | atom _ => simp [Val.isIterable] at hit
          | unsized => simp [Val.isIterable, Val.len?] at this
          | seq _ => simp only [Val.isIterable, Val.len?, if_true] at this ⊢; split at this <;> simp_all
          | dict _ _ => simp only [Val.isIterable, Val.len?, if_true] at this ⊢; split at this <;> simp_all
          | unindexable _ => simp only [Val.isIterable, Val.len?, if_true] at this ⊢; split at this <;> simp_all

/-! ### `map_neuronlist_df` -/

theorem filterMap_id_map_some {α γ} (l : List α) (g : α → γ) : (l.map fun x => some (g x)).filterMap id = l.map g := by
  induction l with
  | nil => rfl
  | cons x xs ih => simp [ih]

theorem zip_map_self {α γ} (l : List α) (g : α → γ) : l.zip (l.map g) = l.map fun x => (x, g x) := by
  induction l with
  | nil => rfl
  | cons x xs ih => simp [ih]

theorem survivors_zip {ν γ} (f : ν → Res γ) (nl : List ν) :
    (survivors nl (failedFlags (nl.map f))).zip ((nl.map f).filterMap id) =
      nl.filterMap fun x => (f x).map fun v => (x, v) := by
  unfold survivors failedFlags
  induction nl with
  | nil => rfl
  | cons x xs ih =>
    cases hfx : f x with
    | none => simpa [hfx] using ih
    | some v => simpa [hfx] using ih

theorem filterMap_id_map {ν γ} (f : ν → Res γ) (nl : List ν) : (nl.map f).filterMap id = nl.filterMap f := by
  rw [List.filterMap_map]; rfl

/-- `map_neuronlist_df` with `omit_failures=True`, every failure pattern. -/
theorem mapDfW_omit {ν γ} (f : ν → Res γ) (nl : List ν) :
    mapDfW f nl true =
      if (nl.filterMap f).isEmpty then none else some (nl.filterMap fun x => (f x).map fun v => (x, v)) := by
  unfold mapDfW collect
  simp only [if_true, Option.bind_some]
  rw [survivors_zip, filterMap_id_map]

/-- When no run fails every frame carries the id of its own neuron (with or without `omit_failures`). -/
theorem mapDfW_no_failure {ν γ} (g : ν → γ) (nl : List ν) (hne : nl ≠ []) (omitF : Bool) :
    mapDfW (fun x => some (g x)) nl omitF = some (nl.map fun x => (x, g x)) := by
  unfold mapDfW collect
  have hall : (nl.map fun x => some (g x)).all Option.isSome = true := by
    rw [List.all_eq_true]; intro y hy; rw [List.mem_map] at hy; obtain ⟨x, _, rfl⟩ := hy; rfl
  have hemp : (nl.map g).isEmpty = false := by
    cases nl with
    | nil => exact absurd rfl hne
    | cons x xs => rfl
  have hz := survivors_zip (fun x => some (g x)) nl
  cases omitF
  · simp only [Bool.false_eq_true, if_false, hall, if_true, Option.bind_some]
    rw [hz, filterMap_id_map_some, hemp]
    simp
  · simp only [if_true, Option.bind_some]
    rw [hz, filterMap_id_map_some, hemp]
    simp

/-- Without `omit_failures` a single failing run makes the call raise. -/
theorem mapDfW_strict_failure {ν γ} (f : ν → Res γ) (nl : List ν) (h : ∃ x ∈ nl, f x = none) :
    mapDfW f nl false = none := by
  unfold mapDfW collect
  have : (nl.map f).all Option.isSome = false := by
    rw [Bool.eq_false_iff]; intro hall
    rw [List.all_eq_true] at hall
    obtain ⟨x, hx, hfx⟩ := h
    have := hall (f x) (List.mem_map.mpr ⟨x, hx, rfl⟩)
    rw [hfx] at this; simp at this
  simp [this]

end Navis.Zip
