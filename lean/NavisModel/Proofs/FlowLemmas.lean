import NavisModel.Model.Flow
import NavisModel.Proofs.SegmentLemmas
import Mathlib.Tactic.Linarith
import Mathlib.Tactic.Ring
import Mathlib.Tactic.FieldSimp
/-! Helper lemmas for C17: Strahler fuel independence and recurrence, counting lemmas for the flow
centralities, the squared triangle inequality, segregation index exact cases. -/
namespace Navis.Flow
open Navis.Forest

/-! ### children, depth, induction from the leaves upwards -/

theorem mem_children {t : Table} {i c : Int} : c ∈ children t i ↔ ∃ n ∈ t, n.parent = i ∧ n.id = c := by
  unfold children
  simp only [List.mem_map, List.mem_filter, beq_iff_eq]
  constructor
  · rintro ⟨n, ⟨h1, h2⟩, h3⟩; exact ⟨n, h1, h2, h3⟩
  · rintro ⟨n, h1, h2, h3⟩; exact ⟨n, ⟨h1, h2⟩, h3⟩

theorem children_length (t : Table) (i : Int) : (children t i).length = childCount t i := by
  simp [children, childCount]

/-- Depth of a node: length of its root path. -/
def dep (t : Table) (i : Int) : Nat := (rootPath t i).length

theorem dep_le {t : Table} (hw : WF t) (i : Int) : dep t i ≤ t.length := rootPath_length_le hw i

theorem dep_pos {t : Table} {i : Int} (hi : i ∈ ids t) : 1 ≤ dep t i := by
  obtain ⟨rest, hr⟩ := rootPath_cons hi
  unfold dep; rw [hr]; simp

theorem child_facts {t : Table} (hw : WF t) {i c : Int} (hi : i ∈ ids t) (hc : c ∈ children t i) :
    c ∈ ids t ∧ dep t c = dep t i + 1 := by
  obtain ⟨n, hn, hp, rfl⟩ := mem_children.mp hc
  obtain ⟨m, hm, rfl⟩ := mem_ids.mp hi
  have h0 : 0 ≤ m.id := hw.2.1 m hm
  have hnp : ¬ n.parent < 0 := by omega
  refine ⟨mem_ids_of_mem hn, ?_⟩
  unfold dep
  rw [rootPath_of_nonroot hw (find?_of_mem hw.1 hn) hnp, hp]; simp

/-- **Induction from the leaves upwards** in a well-formed forest. -/
theorem WF_induct_up {t : Table} (hw : WF t) (P : Int → Prop)
    (h : ∀ i ∈ ids t, (∀ c ∈ children t i, P c) → P i) : ∀ i ∈ ids t, P i := by
  have key : ∀ k i, i ∈ ids t → t.length - dep t i ≤ k → P i := by
    intro k
    induction k with
    | zero =>
      intro i hi hk
      apply h i hi
      intro c hc
      obtain ⟨_, hd⟩ := child_facts hw hi hc
      have := dep_le hw c
      have := dep_le hw i
      omega
    | succ k ih =>
      intro i hi hk
      apply h i hi
      intro c hc
      obtain ⟨hci, hd⟩ := child_facts hw hi hc
      have := dep_le hw c
      exact ih c hci (by omega)
  intro i hi
  exact key _ i hi (Nat.le_refl _)

/-! ### Strahler: one unfolding step, fuel independence -/

theorem strahlerRaw_succ (t : Table) (g : Bool) (ign : List Int) (f : Nat) (i : Int) :
    strahlerRaw t g ign (f + 1) i =
      if children t i = [] then (if ign.contains i then 0 else 1)
      else strahlerRule g ((children t i).map (strahlerRaw t g ign f)) := by
  rw [strahlerRaw]
  cases h : children t i with
  | nil => simp
  | cons c cs =>
    cases cs with
    | nil => simp [strahlerRule]
    | cons c2 cs => simp

/-- With enough fuel for the height below `i`, more fuel changes nothing. -/
theorem strahlerRaw_stable {t : Table} (hw : WF t) (g : Bool) (ign : List Int) :
    ∀ k i, i ∈ ids t → t.length - dep t i ≤ k → ∀ f, k + 1 ≤ f →
      strahlerRaw t g ign f i = strahlerRaw t g ign (k + 1) i := by
  intro k
  induction k with
  | zero =>
    intro i hi hk f hf
    obtain ⟨f', rfl⟩ : ∃ f', f = f' + 1 := ⟨f - 1, by omega⟩
    rw [strahlerRaw_succ, strahlerRaw_succ]
    by_cases hc : children t i = []
    · simp [hc]
    · exfalso
      obtain ⟨c, hcm⟩ := List.exists_mem_of_ne_nil _ hc
      obtain ⟨_, hd⟩ := child_facts hw hi hcm
      have := dep_le hw c
      have := dep_le hw i
      omega
  | succ k ih =>
    intro i hi hk f hf
    obtain ⟨f', rfl⟩ : ∃ f', f = f' + 1 := ⟨f - 1, by omega⟩
    rw [strahlerRaw_succ, strahlerRaw_succ]
    by_cases hc : children t i = []
    · simp [hc]
    · simp only [hc, if_false]
      congr 1
      apply List.map_congr_left
      intro c hcm
      obtain ⟨hci, hd⟩ := child_facts hw hi hcm
      have := dep_le hw c
      exact ih c hci (by omega) f' (by omega)

/-- **Fuel independence**: `|t|` steps suffice at every node of a well-formed forest. -/
theorem strahlerRaw_fuel {t : Table} (hw : WF t) (g : Bool) (ign : List Int) {i : Int} (hi : i ∈ ids t)
    (f : Nat) (hf : t.length ≤ f) : strahlerRaw t g ign f i = strahlerRaw t g ign (t.length + 1) i := by
  have h1 := dep_pos hi
  have h2 := dep_le hw i
  have a := strahlerRaw_stable hw g ign (t.length - 1) i hi (by omega) f (by omega)
  have b := strahlerRaw_stable hw g ign (t.length - 1) i hi (by omega) (t.length + 1) (by omega)
  rw [a, b]

/-- The recurrence with ignore list: a childless node is 1 (0 when ignored), every other node applies
the rule to its children's values — all at the *same* fuel. -/
theorem strahlerRaw_rec {t : Table} (hw : WF t) (g : Bool) (ign : List Int) {i : Int} (hi : i ∈ ids t) :
    strahlerRaw t g ign (t.length + 1) i =
      if children t i = [] then (if ign.contains i then 0 else 1)
      else strahlerRule g ((children t i).map (strahlerRaw t g ign (t.length + 1))) := by
  rw [strahlerRaw_succ]
  by_cases hc : children t i = []
  · simp [hc]
  · simp only [hc, if_false]
    congr 1
    apply List.map_congr_left
    intro c hcm
    exact strahlerRaw_fuel hw g ign (child_facts hw hi hcm).1 _ (Nat.le_refl _)

theorem strahlerRaw_rec_nil {t : Table} (hw : WF t) (g : Bool) {i : Int} (hi : i ∈ ids t) :
    strahlerRaw t g [] (t.length + 1) i =
      strahlerRule g ((children t i).map (strahlerRaw t g [] (t.length + 1))) := by
  rw [strahlerRaw_rec hw g [] hi]
  by_cases hc : children t i = []
  · simp [hc, strahlerRule]
  · simp [hc]

/-! ### the rule -/

theorem foldl_max_ge (l : List Nat) : ∀ init, init ≤ l.foldl max init ∧ ∀ v ∈ l, v ≤ l.foldl max init := by
  induction l with
  | nil => intro init; simp
  | cons a l ih =>
    intro init
    obtain ⟨h1, h2⟩ := ih (max init a)
    simp only [List.foldl_cons]
    refine ⟨by omega, ?_⟩
    intro v hv
    rcases List.mem_cons.mp hv with h | h
    · subst h; omega
    · exact h2 v h

theorem foldl_max_mem (l : List Nat) : ∀ init, l.foldl max init = init ∨ l.foldl max init ∈ l := by
  induction l with
  | nil => intro init; simp
  | cons a l ih =>
    intro init
    simp only [List.foldl_cons]
    rcases ih (max init a) with h | h
    · rw [h]
      by_cases hle : a ≤ init
      · left; omega
      · right; have : max init a = a := by omega
        rw [this]; exact List.mem_cons_self
    · right; exact List.mem_cons_of_mem _ h

theorem le_maxList {l : List Nat} {v : Nat} (hv : v ∈ l) : v ≤ maxList l := (foldl_max_ge l 0).2 v hv

theorem maxList_mem {l : List Nat} (hl : l ≠ []) : maxList l ∈ l := by
  rcases foldl_max_mem l 0 with h | h
  · obtain ⟨v, hv⟩ := List.exists_mem_of_ne_nil _ hl
    have hle := le_maxList hv
    unfold maxList at hle ⊢
    rw [h] at hle ⊢
    have : v = 0 := by omega
    exact this ▸ hv
  · exact h

theorem le_sum_of_mem {l : List Nat} {v : Nat} (hv : v ∈ l) : v ≤ l.sum := by
  induction l with
  | nil => simp at hv
  | cons a l ih =>
    rcases List.mem_cons.mp hv with h | h
    · subst h; simp
    · have := ih h; simp; omega

/-- The rule never falls below any argument. -/
theorem le_strahlerRule (g : Bool) {l : List Nat} {v : Nat} (hv : v ∈ l) : v ≤ strahlerRule g l := by
  match l, hv with
  | [c], hv =>
    have : v = c := by simpa using hv
    subst this
    show v ≤ v
    exact Nat.le_refl _
  | c1 :: c2 :: cs, hv =>
    show v ≤ (if g = true then (c1 :: c2 :: cs).sum else
      if (c1 :: c2 :: cs).count ((c1 :: c2 :: cs).foldl max 0) ≥ 2 then (c1 :: c2 :: cs).foldl max 0 + 1
      else (c1 :: c2 :: cs).foldl max 0)
    split
    · exact le_sum_of_mem hv
    · have := (foldl_max_ge (c1 :: c2 :: cs) 0).2 v hv
      split <;> omega

theorem one_le_strahlerRule (g : Bool) {l : List Nat} (h : ∀ v ∈ l, 1 ≤ v) : 1 ≤ strahlerRule g l := by
  match l, h with
  | [], _ => simp [strahlerRule]
  | c :: cs, h =>
    have h1 : 1 ≤ c := h c List.mem_cons_self
    exact Nat.le_trans h1 (le_strahlerRule g List.mem_cons_self)

/-- Standard rule at a fork: the maximum, plus one exactly when it occurs at least twice. -/
theorem strahlerRule_standard (c1 c2 : Nat) (cs : List Nat) :
    strahlerRule false (c1 :: c2 :: cs) =
      (if (c1 :: c2 :: cs).count (maxList (c1 :: c2 :: cs)) ≥ 2 then maxList (c1 :: c2 :: cs) + 1
       else maxList (c1 :: c2 :: cs)) := by
  simp [strahlerRule, maxList]

theorem strahlerRule_greedy (c1 c2 : Nat) (cs : List Nat) :
    strahlerRule true (c1 :: c2 :: cs) = (c1 :: c2 :: cs).sum := by
  simp [strahlerRule]

/-! ### consequences of the recurrence -/

theorem strahlerRaw_ge_one {t : Table} (hw : WF t) (g : Bool) :
    ∀ i ∈ ids t, 1 ≤ strahlerRaw t g [] (t.length + 1) i := by
  apply WF_induct_up hw
  intro i hi ih
  rw [strahlerRaw_rec_nil hw g hi]
  apply one_le_strahlerRule
  intro v hv
  obtain ⟨c, hc, rfl⟩ := List.mem_map.mp hv
  exact ih c hc

theorem strahlerRaw_child_le {t : Table} (hw : WF t) (g : Bool) {i c : Int} (hi : i ∈ ids t)
    (hc : c ∈ children t i) :
    strahlerRaw t g [] (t.length + 1) c ≤ strahlerRaw t g [] (t.length + 1) i := by
  rw [strahlerRaw_rec_nil hw g hi]
  exact le_strahlerRule g (List.mem_map.mpr ⟨c, hc, rfl⟩)

/-- The recurrence has exactly one solution: a column accepted by the checker is the model's. -/
theorem strahlerOKB_unique {t : Table} (hw : WF t) (g : Bool) (v : Int → Nat) (h : strahlerOKB t g v = true) :
    ∀ i ∈ ids t, v i = strahlerRaw t g [] (t.length + 1) i := by
  unfold strahlerOKB at h
  rw [List.all_eq_true] at h
  apply WF_induct_up hw
  intro i hi ih
  obtain ⟨r, hr, rfl⟩ := mem_ids.mp hi
  have := h r hr
  simp only [beq_iff_eq] at this
  rw [this, strahlerRaw_rec_nil hw g hi]
  congr 1
  apply List.map_congr_left
  intro c hc
  exact ih c hc

theorem strahlerOKB_complete {t : Table} (hw : WF t) (g : Bool) :
    strahlerOKB t g (strahlerRaw t g [] (t.length + 1)) = true := by
  unfold strahlerOKB
  rw [List.all_eq_true]
  intro r hr
  simp only [beq_iff_eq]
  exact strahlerRaw_rec_nil hw g (mem_ids_of_mem hr)

/-- Without an ignore list the final index is the raw one. -/
theorem strahler_nil (t : Table) (g : Bool) (i : Int) :
    strahler t g [] i = strahlerRaw t g [] (t.length + 1) i := by
  unfold strahler
  simp only
  cases chainLeaf t (t.length + 1) i with
  | none => rfl
  | some l => simp

/-! ### ignored twigs -/

theorem strahler_of_ignored (t : Table) (g : Bool) (ign : List Int) {i l s : Int}
    (h1 : chainLeaf t (t.length + 1) i = some l) (h2 : ign.contains l = true) (h3 : stopAbove t l = some s) :
    strahler t g ign i = strahlerRaw t g ign (t.length + 1) s := by
  have h2' : l ∈ ign := by simpa using h2
  unfold strahler
  simp [h1, h2', h3]

theorem strahler_of_not_ignored (t : Table) (g : Bool) (ign : List Int) {i : Int}
    (h : ∀ l, chainLeaf t (t.length + 1) i = some l → ign.contains l = false) :
    strahler t g ign i = strahlerRaw t g ign (t.length + 1) i := by
  unfold strahler
  simp only
  cases hc : chainLeaf t (t.length + 1) i with
  | none => rfl
  | some l =>
    have : l ∉ ign := by simpa using h l hc
    simp [this]

/-- The stop above a non-root node of a well-formed forest: a branch point or root among its proper
ancestors, with only unbranched non-root nodes in between. -/
theorem stopAbove_spec {t : Table} (hw : WF t) {n : Node} (hn : n ∈ t) (hp : ¬ n.parent < 0) :
    ∃ mid s, stopAbove t n.id = some s ∧ isBranchOrRoot t s = true ∧
      rootPath t n.id = (n.id :: mid) ++ rootPath t s ∧ ∀ x ∈ mid, isBranchOrRoot t x = false := by
  obtain ⟨mid, last, h1, h2⟩ := segOf_spec hw hn hp
  refine ⟨mid, last, ?_, h2.stop, h2.path, h2.nostop⟩
  unfold stopAbove
  unfold segOf at h1
  have : walkToStop t (isBranchOrRoot t) (t.length + 1) n.id = mid ++ [last] := by
    simpa using h1
  rw [this]; exact List.getLast?_concat

/-! ### counting pairs -/

theorem product_cons {α β} (a : α) (xs : List α) (ys : List β) :
    product (a :: xs) ys = ys.map (fun b => (a, b)) ++ product xs ys := by
  simp [product]

theorem mem_product {α β} {xs : List α} {ys : List β} {p : α × β} : p ∈ product xs ys ↔ p.1 ∈ xs ∧ p.2 ∈ ys := by
  unfold product
  simp only [List.mem_flatMap, List.mem_map]
  constructor
  · rintro ⟨a, ha, b, hb, rfl⟩; exact ⟨ha, hb⟩
  · rintro ⟨h1, h2⟩; exact ⟨p.1, h1, p.2, h2, rfl⟩

/-- A predicate that factors over the two components counts a product of counts. -/
theorem count_product {α β} (f : α → Bool) (g : β → Bool) (xs : List α) (ys : List β) :
    ((product xs ys).filter fun p => f p.1 && g p.2).length = (xs.filter f).length * (ys.filter g).length := by
  induction xs with
  | nil => simp [product]
  | cons a xs ih =>
    rw [product_cons, List.filter_append, List.length_append, ih, List.filter_map, List.length_map]
    by_cases ha : f a = true
    · have : (ys.filter ((fun p : α × β => f p.1 && g p.2) ∘ fun b => (a, b))) = ys.filter g := by
        apply List.filter_congr; intro b _; simp [ha]
      rw [this, List.filter_cons_of_pos ha, List.length_cons, Nat.succ_mul, Nat.add_comm]
    · have hf : f a = false := by simpa using ha
      have : (ys.filter ((fun p : α × β => f p.1 && g p.2) ∘ fun b => (a, b))) = [] := by
        rw [List.filter_eq_nil_iff]; intro b _; simp [hf]
      rw [this, List.filter_cons_of_neg ha]; simp

/-- Counting "p but not q" when q implies p. -/
theorem length_filter_diff {α} (p q : α → Bool) (l : List α) (h : ∀ x ∈ l, q x = true → p x = true) :
    (l.filter fun x => p x && !q x).length = (l.filter p).length - (l.filter q).length := by
  have key : (l.filter fun x => p x && !q x).length + (l.filter q).length = (l.filter p).length := by
    induction l with
    | nil => simp
    | cons a l ih =>
      have ih := ih (fun x hx => h x (List.mem_cons_of_mem _ hx))
      have ha := h a List.mem_cons_self
      simp only [List.filter_cons]
      cases hq : q a with
      | true =>
        have hp := ha hq
        simp [hp, hq]; omega
      | false =>
        cases hp : p a with
        | true => simp [hp, hq]; omega
        | false => simp [hp, hq]; exact ih
  omega

theorem length_flatMap_eq_sum {α β} (l : List α) (f : α → List β) :
    (l.flatMap f).length = (l.map fun a => (f a).length).sum := by
  induction l with
  | nil => rfl
  | cons a l ih => simp [List.flatMap_cons, ih]

/-! ### the legs of a tree path -/

theorem takeWhile_ne_append {l : Int} (px rest : List Int) (h : l ∉ px) :
    (px ++ l :: rest).takeWhile (fun i => i != l) = px := by
  induction px with
  | nil => simp
  | cons a px ih =>
    have ha : a ≠ l := fun e => h (e ▸ List.mem_cons_self)
    have hm : l ∉ px := fun e => h (List.mem_cons_of_mem _ e)
    simp [List.takeWhile_cons, ha, ih hm]

theorem legUp_of_meet {t : Table} {x y l : Int} {px py : List Int} (m : Meet t x y l px py) :
    legUp t x y = px := by
  obtain ⟨rest, hr⟩ := rootPath_cons m.hl
  unfold legUp
  rw [m.lca_eq]
  simp only
  rw [m.ha, hr]
  exact takeWhile_ne_append px rest m.l_not_pa

theorem legUp_of_disjoint {t : Table} {x y : Int} (h : ∀ z ∈ rootPath t x, z ∉ rootPath t y) : legUp t x y = [] := by
  unfold legUp; rw [lca_of_disjoint h]

theorem mem_ids_of_rootPath_mem {t : Table} {a n : Int} (h : n ∈ rootPath t a) : a ∈ ids t := by
  by_cases ha : a ∈ ids t
  · exact ha
  · rw [rootPath_of_not_mem ha] at h; simp at h

theorem rootOf_some {t : Table} (hw : WF t) {a : Int} (ha : a ∈ ids t) : ∃ r, rootOf t a = some r ∧ r ∈ rootPath t a := by
  obtain ⟨r, _, hl, _, _⟩ := rootPath_ends hw a ha
  exact ⟨r, hl, List.mem_of_getLast? hl⟩

theorem sameTree_iff {t : Table} (hw : WF t) {a b : Int} :
    sameTree t a b = true ↔ ∃ r, rootOf t a = some r ∧ rootOf t b = some r := by
  unfold sameTree
  cases ha : rootOf t a with
  | none => simp
  | some ra =>
    cases hb : rootOf t b with
    | none => simp
    | some rb =>
      simp only [beq_iff_eq, Option.some.injEq]
      constructor
      · intro h; exact ⟨ra, rfl, h.symm⟩
      · rintro ⟨r, h1, h2⟩; rw [h1, h2]

/-- A node distal to `n` lies in `n`'s tree. -/
theorem sameTree_of_distal {t : Table} (hw : WF t) {n a : Int} (h : n ∈ rootPath t a) : sameTree t a n = true := by
  have ha := mem_ids_of_rootPath_mem h
  obtain ⟨r, hr, _⟩ := rootOf_some hw ha
  rw [sameTree_iff hw]
  exact ⟨r, hr, by rw [rootOf_of_mem_rootPath hw h]; exact hr⟩

/-- **Which nodes lie on the ascending leg** of the path from `x` to `y`: the ancestors-or-self of `x`
that are not ancestors-or-self of `y`, provided there is a path at all (same tree). -/
theorem mem_legUp_iff {t : Table} (hw : WF t) (x y n : Int) :
    n ∈ legUp t x y ↔ n ∈ rootPath t x ∧ n ∉ rootPath t y ∧ sameTree t y n = true := by
  rcases meet_or_disjoint hw x y with hd | ⟨l, px, py, m⟩
  · rw [legUp_of_disjoint hd]
    simp only [List.not_mem_nil, false_iff]
    rintro ⟨h1, h2, h3⟩
    obtain ⟨r, hr1, hr2⟩ := (sameTree_iff hw).mp h3
    have hx := mem_ids_of_rootPath_mem h1
    have e : rootOf t n = rootOf t x := rootOf_of_mem_rootPath hw h1
    have hy : y ∈ ids t := by
      by_cases hy : y ∈ ids t
      · exact hy
      · unfold rootOf at hr1; rw [rootPath_of_not_mem hy] at hr1; simp at hr1
    obtain ⟨rx, hrx, hrxm⟩ := rootOf_some hw hx
    obtain ⟨ry, hry, hrym⟩ := rootOf_some hw hy
    have : rx = ry := by
      rw [hr2] at e; rw [hrx] at e; rw [hry] at hr1
      simp only [Option.some.injEq] at e hr1
      omega
    exact hd rx hrxm (this ▸ hrym)
  · rw [legUp_of_meet m]
    constructor
    · intro hn
      have h1 : n ∈ rootPath t x := by rw [m.ha]; exact List.mem_append_left _ hn
      refine ⟨h1, m.da n hn, ?_⟩
      have hx := mem_ids_of_rootPath_mem h1
      obtain ⟨r, hr, _⟩ := rootOf_some hw hx
      rw [sameTree_iff hw]
      exact ⟨r, by rw [← m.rootOf_eq]; exact hr, by rw [rootOf_of_mem_rootPath hw h1]; exact hr⟩
    · rintro ⟨h1, h2, _⟩
      rw [m.ha] at h1
      rcases List.mem_append.mp h1 with h | h
      · exact h
      · exact absurd (by rw [m.hb]; exact List.mem_append_right _ h) h2

theorem isDistal_iff {t : Table} {n s : Int} : isDistal t n s = true ↔ n ∈ rootPath t s := by
  unfold isDistal isAncestorOrSelf; simp

/-- Centrifugal flow = number of pairs whose path runs through `n` on its descending leg. -/
theorem pathsDown_eq {t : Table} (hw : WF t) (pre post : List Int) (n : Int) :
    pathsDown t pre post n = centrifugal t true pre post n := by
  unfold pathsDown centrifugal total distalCount treeCount
  simp only [if_true]
  have hc : (product post pre).filter (fun p => (legUp t p.2 p.1).contains n) =
      (product post pre).filter (fun p => (sameTree t p.1 n && !isDistal t n p.1) && isDistal t n p.2) := by
    apply List.filter_congr
    intro p _
    rw [Bool.eq_iff_iff]
    simp only [List.contains_iff_mem, Bool.and_eq_true, Bool.not_eq_true', isDistal_iff]
    rw [mem_legUp_iff hw]
    constructor
    · rintro ⟨h1, h2, h3⟩
      exact ⟨⟨h3, by rw [← Bool.not_eq_true, isDistal_iff]; exact h2⟩, h1⟩
    · rintro ⟨⟨h3, h2⟩, h1⟩
      exact ⟨h1, by rw [← isDistal_iff, h2]; simp, h3⟩
  rw [hc, count_product (fun a => sameTree t a n && !isDistal t n a) (fun b => isDistal t n b)]
  rw [length_filter_diff (fun a => sameTree t a n) (fun a => isDistal t n a)]
  intro a _ ha
  exact sameTree_of_distal hw (isDistal_iff.mp ha)

/-- Centripetal flow = number of pairs whose path runs through `n` on its ascending leg. -/
theorem pathsUp_eq {t : Table} (hw : WF t) (pre post : List Int) (n : Int) :
    pathsUp t pre post n = centripetal t true pre post n := by
  unfold pathsUp centripetal total distalCount treeCount
  simp only [if_true]
  have hc : (product post pre).filter (fun p => (legUp t p.1 p.2).contains n) =
      (product post pre).filter (fun p => isDistal t n p.1 && (sameTree t p.2 n && !isDistal t n p.2)) := by
    apply List.filter_congr
    intro p _
    rw [Bool.eq_iff_iff]
    simp only [List.contains_iff_mem, Bool.and_eq_true, Bool.not_eq_true', isDistal_iff]
    rw [mem_legUp_iff hw]
    constructor
    · rintro ⟨h1, h2, h3⟩
      exact ⟨h1, h3, by rw [← Bool.not_eq_true, isDistal_iff]; exact h2⟩
    · rintro ⟨h1, h3, h2⟩
      exact ⟨h1, by rw [← isDistal_iff, h2]; simp, h3⟩
  rw [hc, count_product (fun a => isDistal t n a) (fun b => sameTree t b n && !isDistal t n b)]
  rw [length_filter_diff (fun a => sameTree t a n) (fun a => isDistal t n a)]
  intro a _ ha
  exact sameTree_of_distal hw (isDistal_iff.mp ha)

theorem pathCount_eq {t : Table} (hw : WF t) (m : Mode) (pre post : List Int) (n : Int) :
    pathCount t m pre post n = sfcRaw t true m pre post n := by
  cases m <;> simp [pathCount, sfcRaw, pathsDown_eq hw, pathsUp_eq hw]

theorem sfcSpec_eq {t : Table} (hw : WF t) (m : Mode) (pre post : List Int) (n : Int) :
    sfcSpec t m pre post n = sfc t true m pre post n := by
  unfold sfcSpec sfc
  have : pathCount t m pre post = sfcRaw t true m pre post := funext (pathCount_eq hw m pre post)
  rw [this]

/-- A node on the ascending leg really lies on the tree path. -/
theorem legUp_sub_treePath {t : Table} {a b n : Int} {p : List Int} (h : treePath t a b = some p)
    (hn : n ∈ legUp t a b ∨ n ∈ legUp t b a) : n ∈ p := by
  unfold treePath at h
  cases hl : lca t a b with
  | none => rw [hl] at h; simp at h
  | some l =>
    rw [hl] at h
    simp only [Option.some.injEq] at h
    subst h
    rcases hn with hn | hn
    · exact List.mem_append_left _ hn
    · exact List.mem_append_right _ (List.mem_cons_of_mem _ (List.mem_reverse.mpr hn))

/-! ### forks -/

theorem children_ne_nil_of_isFork {t : Table} {n : Int} (h : isFork t n = true) : children t n ≠ [] := by
  unfold isFork at h
  cases hf : find? t n with
  | none => rw [hf] at h; simp at h
  | some r =>
    rw [hf] at h
    simp only [Bool.and_eq_true, decide_eq_true_eq] at h
    intro he
    have := children_length t n
    rw [he] at this
    simp at this
    omega

/-! ### bending flow -/

theorem bendAt_eq_bendPairs (t : Table) (pre post : List Int) (b : Int) :
    bendAt t pre post b = bendPairs t pre post b := by
  unfold bendAt bendPairs
  rw [length_flatMap_eq_sum]
  congr 1
  apply List.map_congr_left
  intro p _
  unfold distalCount
  exact (count_product (fun a => isDistal t p.1 a) (fun b => isDistal t p.2 b) post pre).symm

/-! ### tortuosity: the triangle inequality in squared integer form -/

/-- `|u + v|² ≤ (a + b)²` when `|u|² ≤ a²`, `|v|² ≤ b²` (Cauchy–Schwarz via Lagrange's identity). -/
theorem sq_tri (u1 u2 u3 v1 v2 v3 a b : Int) (ha : 0 ≤ a) (hb : 0 ≤ b)
    (hu : u1 * u1 + u2 * u2 + u3 * u3 ≤ a * a) (hv : v1 * v1 + v2 * v2 + v3 * v3 ≤ b * b) :
    (u1 + v1) * (u1 + v1) + (u2 + v2) * (u2 + v2) + (u3 + v3) * (u3 + v3) ≤ (a + b) * (a + b) := by
  have cs : (u1 * v1 + u2 * v2 + u3 * v3) * (u1 * v1 + u2 * v2 + u3 * v3) ≤
      (u1 * u1 + u2 * u2 + u3 * u3) * (v1 * v1 + v2 * v2 + v3 * v3) := by
    nlinarith [sq_nonneg (u1 * v2 - u2 * v1), sq_nonneg (u1 * v3 - u3 * v1), sq_nonneg (u2 * v3 - u3 * v2)]
  have hu0 : 0 ≤ u1 * u1 + u2 * u2 + u3 * u3 := by nlinarith [mul_self_nonneg u1, mul_self_nonneg u2, mul_self_nonneg u3]
  have hv0 : 0 ≤ v1 * v1 + v2 * v2 + v3 * v3 := by nlinarith [mul_self_nonneg v1, mul_self_nonneg v2, mul_self_nonneg v3]
  have h2 : (u1 * u1 + u2 * u2 + u3 * u3) * (v1 * v1 + v2 * v2 + v3 * v3) ≤ (a * a) * (b * b) :=
    mul_le_mul hu hv hv0 (by nlinarith)
  have hab : 0 ≤ a * b := mul_nonneg ha hb
  have hd : u1 * v1 + u2 * v2 + u3 * v3 ≤ a * b := by
    by_contra hc
    push_neg at hc
    have : (a * b) * (a * b) < (u1 * v1 + u2 * v2 + u3 * v3) * (u1 * v1 + u2 * v2 + u3 * v3) := by nlinarith
    nlinarith
  nlinarith

theorem sqd_self (p : P3) : sqd p p = 0 := by simp [sqd]

/-- **Arc ≥ chord**, squared: the squared distance between the ends of a chain is at most the square of
the summed edge lengths. -/
theorem chord_le_arc (pos : Int → P3) (len : Int → Int → Nat) :
    ∀ (rest : List Int) (a z : Int), edgesWithin pos len (a :: rest) → (a :: rest).getLast? = some z →
      sqd (pos a) (pos z) ≤ ((pathLen len (a :: rest) : Nat) : Int) * (pathLen len (a :: rest) : Nat) := by
  intro rest
  induction rest with
  | nil =>
    intro a z _ hz
    simp only [List.getLast?_singleton, Option.some.injEq] at hz
    subst hz
    rw [sqd_self]; simp [pathLen]
  | cons b rest ih =>
    intro a z he hz
    obtain ⟨he1, he2⟩ := he
    have hz' : (b :: rest).getLast? = some z := by rw [List.getLast?_cons_cons] at hz; exact hz
    have ih := ih b z he2 hz'
    have hp : pathLen len (a :: b :: rest) = len a b + pathLen len (b :: rest) := rfl
    rw [hp]
    unfold sqd at he1 ih ⊢
    have key := sq_tri ((pos a).1 - (pos b).1) ((pos a).2.1 - (pos b).2.1) ((pos a).2.2 - (pos b).2.2)
      ((pos b).1 - (pos z).1) ((pos b).2.1 - (pos z).2.1) ((pos b).2.2 - (pos z).2.2)
      (len a b : Nat) (pathLen len (b :: rest) : Nat) (Int.natCast_nonneg _) (Int.natCast_nonneg _) he1 ih
    have e1 : (pos a).1 - (pos z).1 = ((pos a).1 - (pos b).1) + ((pos b).1 - (pos z).1) := by ring
    have e2 : (pos a).2.1 - (pos z).2.1 = ((pos a).2.1 - (pos b).2.1) + ((pos b).2.1 - (pos z).2.1) := by ring
    have e3 : (pos a).2.2 - (pos z).2.2 = ((pos a).2.2 - (pos b).2.2) + ((pos b).2.2 - (pos z).2.2) := by ring
    rw [e1, e2, e3]
    push_cast
    exact key

/-- Straight chains: the ends are `C·d` apart and the arc is `C·m`. -/
theorem straight_sum (pos : Int → P3) (len : Int → Int → Nat) (d : P3) (m : Nat) :
    ∀ (rest : List Int) (a z : Int), straight pos len d m (a :: rest) → (a :: rest).getLast? = some z →
      ∃ C : Nat, (pos z).1 - (pos a).1 = C * d.1 ∧ (pos z).2.1 - (pos a).2.1 = C * d.2.1 ∧
        (pos z).2.2 - (pos a).2.2 = C * d.2.2 ∧ pathLen len (a :: rest) = C * m := by
  intro rest
  induction rest with
  | nil =>
    intro a z _ hz
    simp only [List.getLast?_singleton, Option.some.injEq] at hz
    subst hz
    exact ⟨0, by simp, by simp, by simp, by simp [pathLen]⟩
  | cons b rest ih =>
    intro a z hs hz
    obtain ⟨⟨c, h1, h2, h3, h4⟩, hs2⟩ := hs
    have hz' : (b :: rest).getLast? = some z := by rw [List.getLast?_cons_cons] at hz; exact hz
    obtain ⟨C, g1, g2, g3, g4⟩ := ih b z hs2 hz'
    refine ⟨c + C, ?_, ?_, ?_, ?_⟩
    · push_cast; linarith
    · push_cast; linarith
    · push_cast; linarith
    · show len a b + pathLen len (b :: rest) = (c + C) * m
      rw [h4, g4]; ring

/-- **Straight segments have arc = chord** (squared). -/
theorem chord_eq_arc_of_straight (pos : Int → P3) (len : Int → Int → Nat) (d : P3) (m : Nat)
    (hd : d.1 * d.1 + d.2.1 * d.2.1 + d.2.2 * d.2.2 = (m : Int) * m)
    (rest : List Int) (a z : Int) (hs : straight pos len d m (a :: rest)) (hz : (a :: rest).getLast? = some z) :
    sqd (pos a) (pos z) = ((pathLen len (a :: rest) : Nat) : Int) * (pathLen len (a :: rest) : Nat) := by
  obtain ⟨C, g1, g2, g3, g4⟩ := straight_sum pos len d m rest a z hs hz
  rw [g4]
  unfold sqd
  have e1 : (pos a).1 - (pos z).1 = -((C : Int) * d.1) := by linarith
  have e2 : (pos a).2.1 - (pos z).2.1 = -((C : Int) * d.2.1) := by linarith
  have e3 : (pos a).2.2 - (pos z).2.2 = -((C : Int) * d.2.2) := by linarith
  rw [e1, e2, e3]
  push_cast
  have : -((C : Int) * d.1) * -((C : Int) * d.1) + -((C : Int) * d.2.1) * -((C : Int) * d.2.1) +
      -((C : Int) * d.2.2) * -((C : Int) * d.2.2) = (C : Int) * C * (d.1 * d.1 + d.2.1 * d.2.1 + d.2.2 * d.2.2) := by ring
  rw [this, hd]; ring

/-- With exact integer edge lengths every child→parent path has its edges within their lengths. -/
theorem edgesWithin_of_exact {t : Table} (h : exactEdgesB t = true) :
    ∀ s : List Int, Linked t s → edgesWithin (posOf t) (coordLen t) s
  | [], _ => trivial
  | [_], _ => trivial
  | a :: b :: rest, hl => by
    obtain ⟨⟨n, hf, hp, hb⟩, hl2⟩ := hl
    refine ⟨?_, edgesWithin_of_exact h (b :: rest) hl2⟩
    unfold exactEdgesB at h
    rw [List.all_eq_true] at h
    have hn := find?_some hf
    have hnr : n ∈ t.filter fun n => !isRootNode n := by
      rw [List.mem_filter]
      refine ⟨hn.1, ?_⟩
      have : ¬ n.parent < 0 := by omega
      simp [isRootNode, this]
    have := h n hnr
    simp only [beq_iff_eq] at this
    rw [hn.2, hp] at this
    rw [this]

theorem chordSq_le_arcSq {t : Table} (h : exactEdgesB t = true) (s : List Int) (hl : Linked t s) :
    chordSq t s ≤ ((arcLen t s : Nat) : Int) * (arcLen t s : Nat) := by
  cases s with
  | nil => simp [chordSq, arcLen, pathLen]
  | cons a rest =>
    cases hz : (a :: rest).getLast? with
    | none => simp at hz
    | some z =>
      have := chord_le_arc (posOf t) (coordLen t) rest a z (edgesWithin_of_exact h _ hl) hz
      unfold chordSq arcLen
      rw [hz]
      exact this

theorem smallSegments_linked {t : Table} (hw : WF t) : ∀ s ∈ smallSegments t, Linked t s := by
  intro s hs
  rw [smallSegments_eq] at hs
  obtain ⟨n, hn, rfl⟩ := List.mem_map.mp hs
  obtain ⟨h1, h2, _⟩ := mem_seeds.mp hn
  obtain ⟨mid, last, e, hseg⟩ := segOf_spec hw h1 h2
  rw [e]; exact hseg.linked

/-! ### segregation index: exact cases -/

theorem sum_tot (fs : List Frag) : ((fs.map fun f => (f.tot : Rat))).sum = ((totPre fs + totPost fs : Nat) : Rat) := by
  induction fs with
  | nil => simp [totPre, totPost]
  | cons f fs ih =>
    have e : ((totPre (f :: fs) + totPost (f :: fs) : Nat) : Rat) =
        (f.tot : Rat) + ((totPre fs + totPost fs : Nat) : Rat) := by
      simp only [totPre, totPost, List.map_cons, List.sum_cons, Frag.tot]
      push_cast; ring
    rw [List.map_cons, List.sum_cons, ih, e]

/-- No fragment mixes pre- and postsynapses: every fragment entropy vanishes. -/
theorem fragEntropy_separated (H : Rat → Rat) (f : Frag) (h : f.pre = 0 ∨ f.post = 0) : fragEntropy H f = 0 := by
  unfold fragEntropy
  by_cases ht : f.tot = 0
  · simp [ht]
  · simp only [ht, if_false]
    rcases h with h | h
    · have : ((f.post : Rat) / (f.tot : Rat)) = 1 := by
        have e : f.tot = f.post := by simp [Frag.tot, h]
        rw [e]
        have : (f.post : Rat) ≠ 0 := by
          rw [e] at ht; exact_mod_cast ht
        exact div_self this
      rw [this]; simp
    · have : ((f.post : Rat) / (f.tot : Rat)) = 0 := by rw [h]; simp
      rw [this]; simp

theorem meanEntropy_separated (H : Rat → Rat) (fs : List Frag) (h : ∀ f ∈ fs, f.pre = 0 ∨ f.post = 0) :
    meanEntropy H fs = 0 := by
  unfold meanEntropy
  have : (fs.map fun f => fragEntropy H f * (f.tot : Rat)) = fs.map fun _ => (0 : Rat) := by
    apply List.map_congr_left
    intro f hf
    rw [fragEntropy_separated H f (h f hf)]; simp
  rw [this]
  have z : ∀ l : List Frag, (l.map fun _ => (0 : Rat)).sum = 0 := by
    intro l; induction l with
    | nil => rfl
    | cons a l ih => simp [ih]
  rw [z]; simp

/-- Every non-empty fragment has the whole neuron's mixture `P`: the mean entropy is the neuron's. -/
theorem meanEntropy_identical (H : Rat → Rat) (fs : List Frag) (P : Rat)
    (htot : totPre fs + totPost fs ≠ 0)
    (h : ∀ f ∈ fs, f.tot ≠ 0 → (f.post : Rat) / (f.tot : Rat) = P) :
    meanEntropy H fs = if 0 < P ∧ P < 1 then H P else 0 := by
  unfold meanEntropy
  have e : (fs.map fun f => fragEntropy H f * (f.tot : Rat)) =
      fs.map fun f => (if 0 < P ∧ P < 1 then H P else 0) * (f.tot : Rat) := by
    apply List.map_congr_left
    intro f hf
    unfold fragEntropy
    by_cases ht : f.tot = 0
    · simp [ht]
    · simp only [ht, if_false]
      rw [h f hf ht]
  rw [e]
  have z : ∀ (c : Rat) (l : List Frag), (l.map fun f => c * (f.tot : Rat)).sum = c * (l.map fun f => (f.tot : Rat)).sum := by
    intro c l; induction l with
    | nil => simp
    | cons a l ih => simp [ih, mul_add]
  rw [z, sum_tot]
  have hne : ((totPre fs + totPost fs : Nat) : Rat) ≠ 0 := by exact_mod_cast htot
  field_simp

theorem pn_bounds {tp tq : Nat} (hp : tp ≠ 0) (hq : tq ≠ 0) :
    0 < (tq : Rat) / ((tp + tq : Nat) : Rat) ∧ (tq : Rat) / ((tp + tq : Nat) : Rat) < 1 := by
  have h1 : (0 : Rat) < (tq : Rat) := by exact_mod_cast Nat.pos_of_ne_zero hq
  have h2 : (0 : Rat) < (tp : Rat) := by exact_mod_cast Nat.pos_of_ne_zero hp
  have h3 : (0 : Rat) < ((tp + tq : Nat) : Rat) := by push_cast; linarith
  refine ⟨div_pos h1 h3, ?_⟩
  have h4 : (tq : Rat) < ((tp + tq : Nat) : Rat) := by push_cast; linarith
  have h5 : (tq : Rat) / ((tp + tq : Nat) : Rat) < ((tp + tq : Nat) : Rat) / ((tp + tq : Nat) : Rat) :=
    div_lt_div_of_pos_right h4 h3
  rwa [div_self (ne_of_gt h3)] at h5

/-- Only one kind of synapse in the whole neuron: the index is 0 by the code's guard. -/
theorem segIdx_one_kind (H : Rat → Rat) (fs : List Frag) (htot : totPre fs + totPost fs ≠ 0)
    (h : totPre fs = 0 ∨ totPost fs = 0) : segIdx H fs = some 0 := by
  unfold segIdx
  simp only [htot, if_false]
  rcases h with h | h
  · have : ((totPost fs : Nat) : Rat) / ((totPre fs + totPost fs : Nat) : Rat) = 1 := by
      rw [h, Nat.zero_add]
      have : ((totPost fs : Nat) : Rat) ≠ 0 := by
        rw [h, Nat.zero_add] at htot; exact_mod_cast htot
      exact div_self this
    rw [this]; simp
  · have : ((totPost fs : Nat) : Rat) / ((totPre fs + totPost fs : Nat) : Rat) = 0 := by rw [h]; simp
    rw [this]; simp

/-- Perfectly separated (and both kinds present): the index is exactly 1. -/
theorem segIdx_separated (H : Rat → Rat) (fs : List Frag) (hp : totPre fs ≠ 0) (hq : totPost fs ≠ 0)
    (h : ∀ f ∈ fs, f.pre = 0 ∨ f.post = 0) : segIdx H fs = some 1 := by
  unfold segIdx
  have htot : totPre fs + totPost fs ≠ 0 := by omega
  simp only [htot, if_false]
  obtain ⟨b1, b2⟩ := pn_bounds hp hq
  simp only [b1, b2, and_self, if_true, meanEntropy_separated H fs h]
  simp

/-- Identical mixtures (and both kinds present): the index is exactly 0. -/
theorem segIdx_identical (H : Rat → Rat) (fs : List Frag) (hp : totPre fs ≠ 0) (hq : totPost fs ≠ 0)
    (hH : H ((totPost fs : Rat) / ((totPre fs + totPost fs : Nat) : Rat)) ≠ 0)
    (h : ∀ f ∈ fs, f.tot ≠ 0 → (f.post : Rat) / (f.tot : Rat) = (totPost fs : Rat) / ((totPre fs + totPost fs : Nat) : Rat)) :
    segIdx H fs = some 0 := by
  unfold segIdx
  have htot : totPre fs + totPost fs ≠ 0 := by omega
  simp only [htot, if_false]
  obtain ⟨b1, b2⟩ := pn_bounds hp hq
  rw [meanEntropy_identical H fs _ htot h]
  simp only [b1, b2, and_self, if_true]
  rw [div_self hH]; simp

theorem segExact_sound (H : Rat → Rat) (hH : ∀ p : Rat, 0 < p → p < 1 → H p ≠ 0) (fs : List Frag) (k : Nat)
    (h : segExact fs = some k) : segIdx H fs = some (k : Rat) := by
  unfold segExact at h
  simp only at h
  by_cases h0 : totPre fs + totPost fs = 0
  · simp [h0] at h
  · simp only [h0, if_false] at h
    by_cases h1 : totPre fs = 0 ∨ totPost fs = 0
    · simp only [h1, if_true, Option.some.injEq] at h
      subst h
      simpa using segIdx_one_kind H fs h0 h1
    · simp only [h1, if_false] at h
      have hp : totPre fs ≠ 0 := fun e => h1 (Or.inl e)
      have hq : totPost fs ≠ 0 := fun e => h1 (Or.inr e)
      by_cases h2 : (fs.all fun f => f.pre == 0 || f.post == 0) = true
      · simp only [h2, if_true, Option.some.injEq] at h
        subst h
        have := segIdx_separated H fs hp hq (by
          intro f hf
          have := List.all_eq_true.mp h2 f hf
          simpa using this)
        simpa using this
      · have h2' : (fs.all fun f => f.pre == 0 || f.post == 0) = false := by simpa using h2
        simp only [h2', Bool.false_eq_true, if_false] at h
        by_cases h3 : (fs.all fun f => f.post * (totPre fs + totPost fs) == totPost fs * f.tot) = true
        · simp only [h3, if_true, Option.some.injEq] at h
          subst h
          obtain ⟨b1, b2⟩ := pn_bounds hp hq
          have := segIdx_identical H fs hp hq (hH _ b1 b2) (by
            intro f hf ht
            have e := List.all_eq_true.mp h3 f hf
            simp only [beq_iff_eq] at e
            have ht' : (f.tot : Rat) ≠ 0 := by exact_mod_cast ht
            have hT : ((totPre fs + totPost fs : Nat) : Rat) ≠ 0 := by exact_mod_cast h0
            rw [div_eq_div_iff ht' hT]
            exact_mod_cast e)
          simpa using this
        · simp [h3] at h

/-! ### segregation index: bounds from concavity (Jensen) -/

theorem fragEntropy_guard (H : Rat → Rat) (f : Frag) :
    fragEntropy H f = if f.tot = 0 then 0 else guardH H ((f.post : Rat) / (f.tot : Rat)) := rfl

def wsum (H : Rat → Rat) (fs : List Frag) : Rat := (fs.map fun f => fragEntropy H f * (f.tot : Rat)).sum

theorem totq_cons (f : Frag) (fs : List Frag) :
    ((totPre (f :: fs) + totPost (f :: fs) : Nat) : Rat) = (f.tot : Rat) + ((totPre fs + totPost fs : Nat) : Rat) := by
  simp only [totPre, totPost, List.map_cons, List.sum_cons, Frag.tot]
  push_cast; ring

theorem postq_cons (f : Frag) (fs : List Frag) :
    ((totPost (f :: fs) : Nat) : Rat) = (f.post : Rat) + ((totPost fs : Nat) : Rat) := by
  simp only [totPost, List.map_cons, List.sum_cons]
  push_cast; ring

theorem post_le_tot (fs : List Frag) : ((totPost fs : Nat) : Rat) ≤ ((totPre fs + totPost fs : Nat) : Rat) := by
  exact_mod_cast Nat.le_add_left _ _

theorem jensen (H : Rat → Rat) (hG : ConcaveNonneg (guardH H)) : ∀ fs : List Frag,
    (totPre fs + totPost fs = 0 → wsum H fs = 0) ∧
    (totPre fs + totPost fs ≠ 0 → wsum H fs ≤ ((totPre fs + totPost fs : Nat) : Rat) *
        guardH H (((totPost fs : Nat) : Rat) / ((totPre fs + totPost fs : Nat) : Rat))) := by
  intro fs
  induction fs with
  | nil => simp [wsum, totPre, totPost]
  | cons f fs ih =>
    obtain ⟨ih0, ih1⟩ := ih
    have hw : wsum H (f :: fs) = fragEntropy H f * (f.tot : Rat) + wsum H fs := by simp [wsum]
    have hT := totq_cons f fs
    have hQ := postq_cons f fs
    have hsplit : totPre (f :: fs) + totPost (f :: fs) = f.tot + (totPre fs + totPost fs) := by
      simp only [totPre, totPost, List.map_cons, List.sum_cons, Frag.tot]; omega
    constructor
    · intro h0
      have ht : f.tot = 0 := by omega
      have hr : totPre fs + totPost fs = 0 := by omega
      rw [hw, ih0 hr, fragEntropy_guard]; simp [ht]
    · intro hne
      rw [hw, hT, hQ]
      by_cases ht : f.tot = 0
      · have hr : totPre fs + totPost fs ≠ 0 := by omega
        have hq : f.post = 0 := by unfold Frag.tot at ht; omega
        rw [fragEntropy_guard]; simp only [ht, hq, if_true]
        simpa using ih1 hr
      · by_cases hr : totPre fs + totPost fs = 0
        · have hq' : totPost fs = 0 := by omega
          have hT0 : ((totPre fs + totPost fs : Nat) : Rat) = 0 := by rw [hr]; simp
          have hQ0 : ((totPost fs : Nat) : Rat) = 0 := by rw [hq']; simp
          rw [ih0 hr, fragEntropy_guard, hT0, hQ0]; simp only [ht, if_false]
          simp [mul_comm]
        · have ih1 := ih1 hr
          rw [fragEntropy_guard]; simp only [ht, if_false]
          have tpos : (0 : Rat) < (f.tot : Rat) := by exact_mod_cast Nat.pos_of_ne_zero ht
          have Tpos : (0 : Rat) < ((totPre fs + totPost fs : Nat) : Rat) := by exact_mod_cast Nat.pos_of_ne_zero hr
          have qle : (f.post : Rat) ≤ (f.tot : Rat) := by unfold Frag.tot; push_cast; linarith [Nat.cast_nonneg (α := Rat) f.pre]
          have Qle := post_le_tot fs
          have q0 : (0 : Rat) ≤ (f.post : Rat) := Nat.cast_nonneg _
          have Q0 : (0 : Rat) ≤ ((totPost fs : Nat) : Rat) := Nat.cast_nonneg _
          generalize (f.tot : Rat) = a at *
          generalize ((totPre fs + totPost fs : Nat) : Rat) = T at *
          generalize (f.post : Rat) = q at *
          generalize ((totPost fs : Nat) : Rat) = Q at *
          have hsum : (0 : Rat) < a + T := by linarith
          have hx0 : 0 ≤ q / a := div_nonneg q0 (le_of_lt tpos)
          have hx1 : q / a ≤ 1 := (div_le_iff₀ tpos).mpr (by linarith)
          have hy0 : 0 ≤ Q / T := div_nonneg Q0 (le_of_lt Tpos)
          have hy1 : Q / T ≤ 1 := (div_le_iff₀ Tpos).mpr (by linarith)
          have hl0 : 0 ≤ a / (a + T) := div_nonneg (le_of_lt tpos) (le_of_lt hsum)
          have hl1 : a / (a + T) ≤ 1 := (div_le_iff₀ hsum).mpr (by linarith)
          have c := hG.conc (q / a) (Q / T) (a / (a + T)) hx0 hx1 hy0 hy1 hl0 hl1
          have e : a / (a + T) * (q / a) + (1 - a / (a + T)) * (Q / T) = (q + Q) / (a + T) := by
            field_simp; ring
          rw [e] at c
          have c2 := mul_le_mul_of_nonneg_left c (le_of_lt hsum)
          have e2 : (a + T) * (a / (a + T) * guardH H (q / a) + (1 - a / (a + T)) * guardH H (Q / T)) =
              a * guardH H (q / a) + T * guardH H (Q / T) := by
            field_simp; ring
          rw [e2] at c2
          linarith
theorem fragEntropy_nonneg (H : Rat → Rat) (hG : ConcaveNonneg (guardH H)) (f : Frag) : 0 ≤ fragEntropy H f := by
  rw [fragEntropy_guard]
  split
  · exact le_refl _
  · exact hG.nonneg _

theorem wsum_nonneg (H : Rat → Rat) (hG : ConcaveNonneg (guardH H)) (fs : List Frag) : 0 ≤ wsum H fs := by
  unfold wsum
  induction fs with
  | nil => simp
  | cons f fs ih =>
    simp only [List.map_cons, List.sum_cons]
    have := mul_nonneg (fragEntropy_nonneg H hG f) (Nat.cast_nonneg (α := Rat) f.tot)
    linarith

/-- **The segregation index lies in [0, 1]** for every entropy function whose guarded form is
non-negative and concave on [0, 1] (Jensen's inequality). -/
theorem segIdx_bounds (H : Rat → Rat) (hG : ConcaveNonneg (guardH H)) (fs : List Frag) (v : Rat)
    (h : segIdx H fs = some v) : 0 ≤ v ∧ v ≤ 1 := by
  unfold segIdx at h
  simp only at h
  by_cases h0 : totPre fs + totPost fs = 0
  · simp [h0] at h
  · simp only [h0, if_false] at h
    by_cases hp : 0 < ((totPost fs : Nat) : Rat) / ((totPre fs + totPost fs : Nat) : Rat) ∧
        ((totPost fs : Nat) : Rat) / ((totPre fs + totPost fs : Nat) : Rat) < 1
    · rw [if_pos hp] at h
      simp only [Option.some.injEq] at h
      subst h
      have hj := (jensen H hG fs).2 h0
      have hs := wsum_nonneg H hG fs
      have hgd : guardH H (((totPost fs : Nat) : Rat) / ((totPre fs + totPost fs : Nat) : Rat)) =
          H (((totPost fs : Nat) : Rat) / ((totPre fs + totPost fs : Nat) : Rat)) := by
        unfold guardH; rw [if_pos hp]
      have hg0 := hG.nonneg (((totPost fs : Nat) : Rat) / ((totPre fs + totPost fs : Nat) : Rat))
      rw [hgd] at hj hg0
      have Tpos : (0 : Rat) < ((totPre fs + totPost fs : Nat) : Rat) := by exact_mod_cast Nat.pos_of_ne_zero h0
      have hm : meanEntropy H fs = wsum H fs / ((totPre fs + totPost fs : Nat) : Rat) := by
        unfold meanEntropy wsum; ring
      rw [hm]
      generalize H (((totPost fs : Nat) : Rat) / ((totPre fs + totPost fs : Nat) : Rat)) = G at *
      generalize ((totPre fs + totPost fs : Nat) : Rat) = T at *
      generalize wsum H fs = W at *
      have hS0 : 0 ≤ W / T := div_nonneg hs (le_of_lt Tpos)
      have hS1 : W / T ≤ G := (div_le_iff₀ Tpos).mpr (by linarith)
      rcases eq_or_lt_of_le hg0 with hz | hpos
      · rw [← hz]; simp
      · have a : 0 ≤ W / T / G := div_nonneg hS0 (le_of_lt hpos)
        have b : W / T / G ≤ 1 := (div_le_iff₀ hpos).mpr (by linarith)
        constructor <;> linarith
    · rw [if_neg hp] at h
      simp only [Option.some.injEq] at h
      subst h; simp


theorem guardH_quad {w : Rat} (h0 : 0 ≤ w) (h1 : w ≤ 1) : guardH (fun p => p * (1 - p)) w = w * (1 - w) := by
  unfold guardH
  by_cases h : 0 < w ∧ w < 1
  · rw [if_pos h]
  · rw [if_neg h]
    rcases eq_or_lt_of_le h0 with e | e
    · rw [← e]; simp
    · have : w = 1 := by
        by_contra hne
        exact h ⟨e, lt_of_le_of_ne h1 hne⟩
      rw [this]; simp

/-- `p(1−p)` is a non-negative concave "entropy": the hypothesis of the bound is satisfiable. -/
theorem concave_example : ConcaveNonneg (guardH fun p => p * (1 - p)) := by
  constructor
  · intro p
    unfold guardH
    by_cases h : 0 < p ∧ p < 1
    · rw [if_pos h]; exact mul_nonneg (le_of_lt h.1) (by linarith [h.2])
    · rw [if_neg h]
  · intro x y lam hx0 hx1 hy0 hy1 hl0 hl1
    have hz0 : 0 ≤ lam * x + (1 - lam) * y := by
      have := mul_nonneg hl0 hx0
      have := mul_nonneg (by linarith : (0 : Rat) ≤ 1 - lam) hy0
      linarith
    have hz1 : lam * x + (1 - lam) * y ≤ 1 := by
      have := mul_le_mul_of_nonneg_left hx1 hl0
      have := mul_le_mul_of_nonneg_left hy1 (by linarith : (0 : Rat) ≤ 1 - lam)
      linarith
    rw [guardH_quad hx0 hx1, guardH_quad hy0 hy1, guardH_quad hz0 hz1]
    have key := mul_nonneg (mul_nonneg hl0 (by linarith : (0 : Rat) ≤ 1 - lam)) (sq_nonneg (x - y))
    nlinarith [key]

end Navis.Flow
