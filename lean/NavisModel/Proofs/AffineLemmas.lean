import NavisModel.Model.Affine
import Mathlib.Tactic.Ring
import Mathlib.Tactic.FieldSimp
/-! Helper lemmas for C08: exact rational 3-D affine maps (`ring` / `field_simp`). -/
namespace Navis.Affine

theorem pt_ext {p q : Pt} (h1 : p.1 = q.1) (h2 : p.2.1 = q.2.1) (h3 : p.2.2 = q.2.2) : p = q :=
  Prod.ext h1 (Prod.ext h2 h3)

theorem det_def (T : Aff) : det T =
    T.a11 * (T.a22 * T.a33 - T.a23 * T.a32) - T.a12 * (T.a21 * T.a33 - T.a23 * T.a31)
      + T.a13 * (T.a21 * T.a32 - T.a22 * T.a31) := rfl

/-- Matrix product = sequential application. -/
theorem xform_comp (S T : Aff) (p : Pt) : xform (comp S T) p = xform T (xform S p) := by
  apply pt_ext <;> simp only [xform, comp] <;> ring

theorem xform_one (p : Pt) : xform one p = p := by
  apply pt_ext <;> simp only [xform, one] <;> ring

/-- `neg T` undoes `T` on every point. -/
theorem xform_neg_xform (T : Aff) (h : det T ≠ 0) (p : Pt) : xform (neg T) (xform T p) = p := by
  have hdef : det T = _ := det_def T
  apply pt_ext <;> simp only [xform, neg, invLin] <;> generalize det T = d at * <;>
    field_simp <;> subst hdef <;> ring

/-- `T` undoes `neg T` on every point. -/
theorem xform_xform_neg (T : Aff) (h : det T ≠ 0) (p : Pt) : xform T (xform (neg T) p) = p := by
  have hdef : det T = _ := det_def T
  apply pt_ext <;> simp only [xform, neg, invLin] <;> generalize det T = d at * <;>
    field_simp <;> subst hdef <;> ring

theorem det_comp (S T : Aff) : det (comp S T) = det S * det T := by
  simp only [det, comp]; ring

theorem det_one : det one = 1 := by
  simp only [det, one]; ring

theorem det_neg_mul (T : Aff) (h : det T ≠ 0) : det (neg T) * det T = 1 := by
  have hdef : det T = _ := det_def T
  rw [det_def (neg T)]
  simp only [neg, invLin]
  generalize det T = d at *
  field_simp
  subst hdef
  ring

theorem det_neg_ne (T : Aff) (h : det T ≠ 0) : det (neg T) ≠ 0 := by
  intro h0
  have := det_neg_mul T h
  rw [h0] at this
  simp at this

theorem comp_assoc (A B C : Aff) : comp (comp A B) C = comp A (comp B C) := by
  simp only [comp, Aff.mk.injEq]
  repeat' apply And.intro
  all_goals ring

theorem one_comp (A : Aff) : comp one A = A := by
  cases A
  simp only [comp, one, Aff.mk.injEq]
  repeat' apply And.intro
  all_goals ring

theorem comp_one (A : Aff) : comp A one = A := by
  cases A
  simp only [comp, one, Aff.mk.injEq]
  repeat' apply And.intro
  all_goals ring

/-- `M · M⁻¹ = I`. -/
theorem comp_neg (T : Aff) (h : det T ≠ 0) : comp T (neg T) = one := by
  have hdef : det T = _ := det_def T
  simp only [comp, neg, invLin, one, Aff.mk.injEq]
  generalize det T = d at *
  repeat' apply And.intro
  all_goals (field_simp; try (subst hdef; ring))

/-- `M⁻¹ · M = I`. -/
theorem neg_comp (T : Aff) (h : det T ≠ 0) : comp (neg T) T = one := by
  have hdef : det T = _ := det_def T
  simp only [comp, neg, invLin, one, Aff.mk.injEq]
  generalize det T = d at *
  repeat' apply And.intro
  all_goals (field_simp; try (subst hdef; ring))

/-- Negating twice gives the transform back. -/
theorem neg_neg (T : Aff) (h : det T ≠ 0) : neg (neg T) = T := by
  have h' := det_neg_ne T h
  calc neg (neg T) = comp one (neg (neg T)) := (one_comp _).symm
    _ = comp (comp T (neg T)) (neg (neg T)) := by rw [comp_neg T h]
    _ = comp T (comp (neg T) (neg (neg T))) := comp_assoc _ _ _
    _ = comp T one := by rw [comp_neg (neg T) h']
    _ = T := comp_one T

theorem neg?_eq_some (T : Aff) (h : det T ≠ 0) : neg? T = some (neg T) := by
  simp [neg?, h]

theorem neg?_eq_none (T : Aff) (h : det T = 0) : neg? T = none := by
  simp [neg?, h]

/-- The edge transform between two frames maps frame-`s` coordinates of a world point to its
frame-`t` coordinates. -/
theorem between_maps (Fs Ft : Aff) (h : det Fs ≠ 0) (w : Pt) :
    xform (between Fs Ft) (xform Fs w) = xform Ft w := by
  rw [between, xform_comp, xform_neg_xform Fs h]

end Navis.Affine
