import NavisModel.Model.Units
import Mathlib.Tactic.Ring
import Mathlib.Tactic.FieldSimp
import Mathlib.Tactic.Linarith
/-! Helper lemmas for C15 (exact rational coordinate / unit arithmetic). -/
set_option linter.unusedSimpArgs false

namespace Navis.Units

/-! ### basics -/

theorem V3.ext' {a b : V3} (hx : a.x = b.x) (hy : a.y = b.y) (hz : a.z = b.z) : a = b := by
  cases a; cases b; simp_all

theorem ten_pow_ne_zero (n : Nat) : (10 : Rat) ^ n ≠ 0 := pow_ne_zero _ (by decide)

theorem ten_pow_pos (n : Nat) : (0 : Rat) < (10 : Rat) ^ n := pow_pos (by decide) _

theorem pow10_pos (e : Int) : 0 < pow10 e := by
  unfold pow10
  split
  · exact ten_pow_pos _
  · exact one_div_pos.mpr (ten_pow_pos _)

theorem pow10_ne_zero (e : Int) : pow10 e ≠ 0 := ne_of_gt (pow10_pos e)

theorem scale_pos (b : Base) : 0 < b.scale := by
  cases b
  · simp [Base.scale]
  · exact pow10_pos _

theorem scale_ne_zero (b : Base) : b.scale ≠ 0 := ne_of_gt (scale_pos b)

theorem nz_iff (a : V3) : a.nz = true ↔ a.x ≠ 0 ∧ a.y ≠ 0 ∧ a.z ≠ 0 := by
  simp [V3.nz, and_assoc]

theorem iso_iff (a : V3) : a.iso = true ↔ a.x = a.y ∧ a.y = a.z := by
  simp [V3.iso]

theorem map_id' {α} (f : α → α) (l : List α) (h : ∀ a, f a = a) : l.map f = l := by
  induction l with
  | nil => rfl
  | cons a t ih => simp [h, ih]

/-- `to_compact` never changes the physical value of a unit, whatever prefix it picks. -/
theorem compact_phys (u : Units) (p : Int) : (u.compact p).phys = u.phys := by
  unfold Units.compact
  cases hb : u.base with
  | dimless => simp
  | metre e =>
    have h := pow10_ne_zero p
    apply V3.ext' <;> simp [Units.phys, V3.mul, V3.rep, hb, Base.scale] <;> field_simp

theorem compact_same (u : Units) (e : Int) (hb : u.base = .metre e) : u.compact e = u := by
  have h := pow10_ne_zero e
  cases u with
  | mk mag base =>
    simp only at hb
    subst hb
    simp only [Units.compact, Units.mk.injEq, and_true]
    apply V3.ext' <;> simp [V3.mul, V3.rep] <;> field_simp

theorem compact_dimless (u : Units) (p : Int) (hb : u.base = .dimless) : u.compact p = u := by
  simp [Units.compact, hb]

theorem compact_base_metre (u : Units) (e p : Int) (hb : u.base = .metre e) :
    (u.compact p).base = .metre p := by
  simp [Units.compact, hb]


/-! ### scaling -/

theorem mul_isSome_iff (n : Neuron) (f : Factor) (p : Int) :
    (mul n f p).isSome = true ↔ acceptsScale n.kind f = true ∧ f.nz = true := by
  unfold mul
  split
  · rename_i h; simp only [Bool.and_eq_true] at h
    simp only [h.1, h.2, and_self, iff_true]
    split <;> rfl
  · rename_i h; simp only [Bool.and_eq_true] at h
    simp [h]

theorem div_isSome_iff (n : Neuron) (f : Factor) (p : Int) :
    (div n f p).isSome = true ↔ acceptsScale n.kind f = true ∧ f.nz = true := by
  unfold div
  split
  · rename_i h; simp only [Bool.and_eq_true] at h
    simp only [h.1, h.2, and_self, iff_true]
    split <;> rfl
  · rename_i h; simp only [Bool.and_eq_true] at h
    simp [h]

/-- what `mul` returns for skeletons, meshes and dotprops -/
theorem mul_nonvoxel {n m : Neuron} {f : Factor} {p : Int} (hk : n.kind ≠ .voxel) (h : mul n f p = some m) :
    f.nz = true ∧ m = { n with
        pts := n.pts.map (fun c => c.mul f.xyz),
        radii := n.radii.map (fun r => r * f.rad),
        conns := n.conns.map (fun c => c.mul f.xyz),
        units := (⟨n.units.mag.div f.xyz, n.units.base⟩ : Units).compact p } := by
  unfold mul at h
  split at h
  · rename_i hg; simp only [Bool.and_eq_true] at hg
    refine ⟨hg.2, ?_⟩
    cases hkk : n.kind <;> simp [hkk] at h hk <;> exact h.symm
  · cases h

theorem div_nonvoxel {n m : Neuron} {f : Factor} {p : Int} (hk : n.kind ≠ .voxel) (h : div n f p = some m) :
    f.nz = true ∧ m = { n with
        pts := n.pts.map (fun c => c.div f.xyz),
        radii := n.radii.map (fun r => r / f.rad),
        conns := n.conns.map (fun c => c.div f.xyz),
        units := (⟨n.units.mag.mul f.xyz, n.units.base⟩ : Units).compact p } := by
  unfold div at h
  split at h
  · rename_i hg; simp only [Bool.and_eq_true] at hg
    refine ⟨hg.2, ?_⟩
    cases hkk : n.kind <;> simp [hkk] at h hk <;> exact h.symm
  · cases h

theorem mul_voxel {n m : Neuron} {f : Factor} {p : Int} (hk : n.kind = .voxel) (h : mul n f p = some m) :
    f.nz = true ∧ m = { n with
        units := ⟨n.units.mag.mul f.xyz, n.units.base⟩,
        offset := n.offset.mul f.xyz,
        conns := n.conns.map (fun c => c.mul f.xyz) } := by
  unfold mul at h
  split at h
  · rename_i hg; simp only [Bool.and_eq_true] at hg
    refine ⟨hg.2, ?_⟩
    simp only [hk, Option.some.injEq] at h; rw [← h, hk]
  · cases h

theorem div_voxel {n m : Neuron} {f : Factor} {p : Int} (hk : n.kind = .voxel) (h : div n f p = some m) :
    f.nz = true ∧ m = { n with
        units := ⟨n.units.mag.div f.xyz, n.units.base⟩,
        offset := n.offset.div f.xyz,
        conns := n.conns.map (fun c => c.div f.xyz) } := by
  unfold div at h
  split at h
  · rename_i hg; simp only [Bool.and_eq_true] at hg
    refine ⟨hg.2, ?_⟩
    simp only [hk, Option.some.injEq] at h; rw [← h, hk]
  · cases h

theorem xyz_nz {f : Factor} (h : f.nz = true) : f.xyz.x ≠ 0 ∧ f.xyz.y ≠ 0 ∧ f.xyz.z ≠ 0 := by
  cases f with
  | s k => simp [Factor.nz] at h; simp [Factor.xyz, V3.rep, h]
  | v3 v => simp only [Factor.nz] at h; exact (nz_iff v).mp h
  | v4 v r => simp only [Factor.nz, Bool.and_eq_true] at h; exact (nz_iff v).mp h.1

theorem rad_nz {f : Factor} (h : f.nz = true) : f.rad ≠ 0 := by
  cases f with
  | s k => simpa [Factor.nz, Factor.rad] using h
  | v3 v => simp only [Factor.nz] at h; simpa [Factor.rad] using ((nz_iff v).mp h).1
  | v4 v r => simp only [Factor.nz, Bool.and_eq_true] at h; simpa [Factor.rad] using h.2

/-- physical step of the rescaled unit times the factor is the old physical step -/
theorem phys_div_mul (u : Units) (f : V3) (p : Int) (hf : f.x ≠ 0 ∧ f.y ≠ 0 ∧ f.z ≠ 0) (c : V3) :
    (c.mul f).mul ((⟨u.mag.div f, u.base⟩ : Units).compact p).phys = c.mul u.phys := by
  rw [compact_phys]
  obtain ⟨hx, hy, hz⟩ := hf
  apply V3.ext' <;> simp [Units.phys, V3.mul, V3.div, V3.rep] <;> field_simp

theorem phys_mul_div (u : Units) (f : V3) (p : Int) (hf : f.x ≠ 0 ∧ f.y ≠ 0 ∧ f.z ≠ 0) (c : V3) :
    (c.div f).mul ((⟨u.mag.mul f, u.base⟩ : Units).compact p).phys = c.mul u.phys := by
  rw [compact_phys]
  obtain ⟨hx, hy, hz⟩ := hf
  apply V3.ext' <;> simp [Units.phys, V3.mul, V3.div, V3.rep] <;> field_simp

theorem physPts_nonvoxel {n : Neuron} (hk : n.kind ≠ .voxel) : physPts n = n.pts.map (fun c => c.mul n.units.phys) := by
  unfold physPts; cases hkk : n.kind <;> simp_all

theorem physConns_nonvoxel {n : Neuron} (hk : n.kind ≠ .voxel) :
    physConns n = n.conns.map (fun c => c.mul n.units.phys) := by
  unfold physConns; cases hkk : n.kind <;> simp_all

theorem worldPts_nonvoxel {n : Neuron} (hk : n.kind ≠ .voxel) : worldPts n = n.pts := by
  unfold worldPts; cases hkk : n.kind <;> simp_all

theorem mul_phys {n m : Neuron} {f : Factor} {p : Int} (hk : n.kind ≠ .voxel) (h : mul n f p = some m) :
    physPts m = physPts n ∧ physConns m = physConns n := by
  obtain ⟨hnz, rfl⟩ := mul_nonvoxel hk h
  have hf := xyz_nz hnz
  rw [physPts_nonvoxel (n := n) hk, physConns_nonvoxel (n := n) hk, physPts_nonvoxel (by simpa using hk),
    physConns_nonvoxel (by simpa using hk)]
  simp only [List.map_map]
  constructor <;> apply List.map_congr_left <;> intro c _ <;> exact phys_div_mul n.units f.xyz p hf c

theorem div_phys {n m : Neuron} {f : Factor} {p : Int} (hk : n.kind ≠ .voxel) (h : div n f p = some m) :
    physPts m = physPts n ∧ physConns m = physConns n := by
  obtain ⟨hnz, rfl⟩ := div_nonvoxel hk h
  have hf := xyz_nz hnz
  rw [physPts_nonvoxel (n := n) hk, physConns_nonvoxel (n := n) hk, physPts_nonvoxel (by simpa using hk),
    physConns_nonvoxel (by simpa using hk)]
  simp only [List.map_map]
  constructor <;> apply List.map_congr_left <;> intro c _ <;> exact phys_mul_div n.units f.xyz p hf c

theorem mul_physRadii {n m : Neuron} {f : Factor} {p : Int} (hk : n.kind ≠ .voxel) (h : mul n f p = some m)
    (hr : f.rad = f.xyz.x) : physRadii m = physRadii n := by
  obtain ⟨hnz, rfl⟩ := mul_nonvoxel hk h
  have hf := (xyz_nz hnz).1
  simp only [physRadii, List.map_map]
  apply List.map_congr_left; intro r _
  simp only [Function.comp, compact_phys, hr]
  simp [Units.phys, V3.mul, V3.div, V3.rep]; field_simp

theorem div_physRadii {n m : Neuron} {f : Factor} {p : Int} (hk : n.kind ≠ .voxel) (h : div n f p = some m)
    (hr : f.rad = f.xyz.x) : physRadii m = physRadii n := by
  obtain ⟨hnz, rfl⟩ := div_nonvoxel hk h
  have hf := (xyz_nz hnz).1
  simp only [physRadii, List.map_map]
  apply List.map_congr_left; intro r _
  simp only [Function.comp, compact_phys, hr]
  simp [Units.phys, V3.mul, V3.div, V3.rep]; field_simp


/-! ### `x * f / f` and `x + o - o` -/

theorem v3_mul_div (c f : V3) (hf : f.x ≠ 0 ∧ f.y ≠ 0 ∧ f.z ≠ 0) : (c.mul f).div f = c := by
  obtain ⟨hx, hy, hz⟩ := hf
  apply V3.ext' <;> simp [V3.mul, V3.div] <;> field_simp

theorem v3_div_mul (c f : V3) (hf : f.x ≠ 0 ∧ f.y ≠ 0 ∧ f.z ≠ 0) : (c.div f).mul f = c := by
  obtain ⟨hx, hy, hz⟩ := hf
  apply V3.ext' <;> simp [V3.mul, V3.div] <;> field_simp

theorem v3_add_sub (c o : V3) : (c.add o).sub o = c := by
  apply V3.ext' <;> simp [V3.add, V3.sub]

theorem v3_sub_add (c o : V3) : (c.sub o).add o = c := by
  apply V3.ext' <;> simp [V3.add, V3.sub]

/-- the unit after `* f` then `/ f`, whatever prefixes pint picked in between: same physical value -/
theorem units_roundtrip_phys (u : Units) (f : V3) (p p' : Int) (hf : f.x ≠ 0 ∧ f.y ≠ 0 ∧ f.z ≠ 0) :
    ((⟨((⟨u.mag.div f, u.base⟩ : Units).compact p).mag.mul f,
        ((⟨u.mag.div f, u.base⟩ : Units).compact p).base⟩ : Units).compact p').phys = u.phys := by
  rw [compact_phys]
  obtain ⟨hx, hy, hz⟩ := hf
  cases hb : u.base with
  | dimless =>
    apply V3.ext' <;> simp [Units.compact, Units.phys, V3.mul, V3.div, V3.rep, hb, Base.scale] <;> field_simp
  | metre e =>
    have h1 := pow10_ne_zero p
    apply V3.ext' <;> simp [Units.compact, Units.phys, V3.mul, V3.div, V3.rep, hb, Base.scale] <;> field_simp

theorem units_roundtrip_phys' (u : Units) (f : V3) (p p' : Int) (hf : f.x ≠ 0 ∧ f.y ≠ 0 ∧ f.z ≠ 0) :
    ((⟨((⟨u.mag.mul f, u.base⟩ : Units).compact p).mag.div f,
        ((⟨u.mag.mul f, u.base⟩ : Units).compact p).base⟩ : Units).compact p').phys = u.phys := by
  rw [compact_phys]
  obtain ⟨hx, hy, hz⟩ := hf
  cases hb : u.base with
  | dimless =>
    apply V3.ext' <;> simp [Units.compact, Units.phys, V3.mul, V3.div, V3.rep, hb, Base.scale] <;> field_simp
  | metre e =>
    have h1 := pow10_ne_zero p
    apply V3.ext' <;> simp [Units.compact, Units.phys, V3.mul, V3.div, V3.rep, hb, Base.scale] <;> field_simp

/-- units are determined by their physical value and their base unit -/
theorem units_eq_of_phys {u v : Units} (hb : u.base = v.base) (hp : u.phys = v.phys) : u = v := by
  cases u with
  | mk um ub =>
  cases v with
  | mk vm vb =>
    simp only at hb; subst hb
    have hs := scale_ne_zero ub
    simp only [Units.phys, V3.mul, V3.rep, V3.mk.injEq] at hp
    obtain ⟨h1, h2, h3⟩ := hp
    simp only [Units.mk.injEq, and_true]
    apply V3.ext'
    · exact mul_right_cancel₀ hs h1
    · exact mul_right_cancel₀ hs h2
    · exact mul_right_cancel₀ hs h3

/-- base unit of the result of a compaction that returns to the original prefix (or of a dimensionless unit) -/
def backTo (b : Base) (p' : Int) : Prop :=
  match b with
  | .dimless => True
  | .metre e => p' = e

theorem compact_compact_base (m m' : V3 → V3) (u : Units) (p p' : Int) (h : backTo u.base p') :
    ((⟨m' ((⟨m u.mag, u.base⟩ : Units).compact p).mag, ((⟨m u.mag, u.base⟩ : Units).compact p).base⟩ : Units).compact p').base
      = u.base := by
  cases hb : u.base with
  | dimless => simp [Units.compact, hb]
  | metre e => simp [backTo, hb] at h; simp [Units.compact, hb, h]

theorem mul_div_cancel_all {n m n' : Neuron} {f : Factor} {p p' : Int}
    (h1 : mul n f p = some m) (h2 : div m f p' = some n') :
    n'.kind = n.kind ∧ n'.pts = n.pts ∧ n'.radii = n.radii ∧ n'.conns = n.conns ∧ n'.offset = n.offset ∧
      n'.name = n.name ∧ n'.id = n.id ∧ n'.units.phys = n.units.phys ∧ (backTo n.units.base p' → n' = n) := by
  by_cases hk : n.kind = .voxel
  · obtain ⟨hnz, rfl⟩ := mul_voxel hk h1
    obtain ⟨_, rfl⟩ := div_voxel (by simpa using hk) h2
    have hf := xyz_nz hnz
    have hc : List.map (fun c => c.div f.xyz) (List.map (fun c => c.mul f.xyz) n.conns) = n.conns := by
      rw [List.map_map]; exact map_id' _ _ (fun c => v3_mul_div c _ hf)
    have hu : (⟨(n.units.mag.mul f.xyz).div f.xyz, n.units.base⟩ : Units) = n.units := by rw [v3_mul_div _ _ hf]
    refine ⟨rfl, rfl, rfl, hc, v3_mul_div _ _ hf, rfl, rfl, ?_, ?_⟩
    · show (⟨(n.units.mag.mul f.xyz).div f.xyz, n.units.base⟩ : Units).phys = _
      rw [hu]
    · intro _
      cases n
      simp only [Neuron.mk.injEq, true_and, and_true]
      exact ⟨hc, v3_mul_div _ _ hf, hu⟩
  · obtain ⟨hnz, rfl⟩ := mul_nonvoxel hk h1
    obtain ⟨_, rfl⟩ := div_nonvoxel (by simpa using hk) h2
    have hf := xyz_nz hnz
    have hr := rad_nz hnz
    have hc : List.map (fun c => c.div f.xyz) (List.map (fun c => c.mul f.xyz) n.conns) = n.conns := by
      rw [List.map_map]; exact map_id' _ _ (fun c => v3_mul_div c _ hf)
    have hpt : List.map (fun c => c.div f.xyz) (List.map (fun c => c.mul f.xyz) n.pts) = n.pts := by
      rw [List.map_map]; exact map_id' _ _ (fun c => v3_mul_div c _ hf)
    have hrd : List.map (fun r => r / f.rad) (List.map (fun r => r * f.rad) n.radii) = n.radii := by
      rw [List.map_map]; exact map_id' _ _ (fun r => by simp [Function.comp]; field_simp)
    have hp := units_roundtrip_phys n.units f.xyz p p' hf
    refine ⟨rfl, hpt, hrd, hc, rfl, rfl, rfl, hp, ?_⟩
    intro hb
    have hbase := compact_compact_base (fun v => v.div f.xyz) (fun v => v.mul f.xyz) n.units p p' hb
    have hu := units_eq_of_phys hbase hp
    cases n
    simp only [Neuron.mk.injEq, true_and, and_true]
    exact ⟨hpt, hrd, hc, hu⟩

theorem div_mul_cancel_all {n m n' : Neuron} {f : Factor} {p p' : Int}
    (h1 : div n f p = some m) (h2 : mul m f p' = some n') :
    n'.kind = n.kind ∧ n'.pts = n.pts ∧ n'.radii = n.radii ∧ n'.conns = n.conns ∧ n'.offset = n.offset ∧
      n'.name = n.name ∧ n'.id = n.id ∧ n'.units.phys = n.units.phys ∧ (backTo n.units.base p' → n' = n) := by
  by_cases hk : n.kind = .voxel
  · obtain ⟨hnz, rfl⟩ := div_voxel hk h1
    obtain ⟨_, rfl⟩ := mul_voxel (by simpa using hk) h2
    have hf := xyz_nz hnz
    have hc : List.map (fun c => c.mul f.xyz) (List.map (fun c => c.div f.xyz) n.conns) = n.conns := by
      rw [List.map_map]; exact map_id' _ _ (fun c => v3_div_mul c _ hf)
    have hu : (⟨(n.units.mag.div f.xyz).mul f.xyz, n.units.base⟩ : Units) = n.units := by rw [v3_div_mul _ _ hf]
    refine ⟨rfl, rfl, rfl, hc, v3_div_mul _ _ hf, rfl, rfl, ?_, ?_⟩
    · show (⟨(n.units.mag.div f.xyz).mul f.xyz, n.units.base⟩ : Units).phys = _
      rw [hu]
    · intro _
      cases n
      simp only [Neuron.mk.injEq, true_and, and_true]
      exact ⟨hc, v3_div_mul _ _ hf, hu⟩
  · obtain ⟨hnz, rfl⟩ := div_nonvoxel hk h1
    obtain ⟨_, rfl⟩ := mul_nonvoxel (by simpa using hk) h2
    have hf := xyz_nz hnz
    have hr := rad_nz hnz
    have hc : List.map (fun c => c.mul f.xyz) (List.map (fun c => c.div f.xyz) n.conns) = n.conns := by
      rw [List.map_map]; exact map_id' _ _ (fun c => v3_div_mul c _ hf)
    have hpt : List.map (fun c => c.mul f.xyz) (List.map (fun c => c.div f.xyz) n.pts) = n.pts := by
      rw [List.map_map]; exact map_id' _ _ (fun c => v3_div_mul c _ hf)
    have hrd : List.map (fun r => r * f.rad) (List.map (fun r => r / f.rad) n.radii) = n.radii := by
      rw [List.map_map]; exact map_id' _ _ (fun r => by simp [Function.comp]; field_simp)
    have hp := units_roundtrip_phys' n.units f.xyz p p' hf
    refine ⟨rfl, hpt, hrd, hc, rfl, rfl, rfl, hp, ?_⟩
    intro hb
    have hbase := compact_compact_base (fun v => v.mul f.xyz) (fun v => v.div f.xyz) n.units p p' hb
    have hu := units_eq_of_phys hbase hp
    cases n
    simp only [Neuron.mk.injEq, true_and, and_true]
    exact ⟨hpt, hrd, hc, hu⟩


/-! ### shifts -/

theorem add_spec {n m : Neuron} {o : Factor} (h : add n o = some m) :
    acceptsShift o = true ∧
    m = (if n.kind = .voxel then { n with offset := n.offset.add o.xyz, conns := n.conns.map (fun c => c.add o.xyz) }
         else { n with pts := n.pts.map (fun c => c.add o.xyz), conns := n.conns.map (fun c => c.add o.xyz) }) := by
  unfold add at h
  split at h
  · rename_i hg
    refine ⟨hg, ?_⟩
    cases hk : n.kind <;> simp [hk] at h ⊢ <;> rw [← h]
  · cases h

theorem sub_spec {n m : Neuron} {o : Factor} (h : sub n o = some m) :
    acceptsShift o = true ∧
    m = (if n.kind = .voxel then { n with offset := n.offset.sub o.xyz, conns := n.conns.map (fun c => c.sub o.xyz) }
         else { n with pts := n.pts.map (fun c => c.sub o.xyz), conns := n.conns.map (fun c => c.sub o.xyz) }) := by
  unfold sub at h
  split at h
  · rename_i hg
    refine ⟨hg, ?_⟩
    cases hk : n.kind <;> simp [hk] at h ⊢ <;> rw [← h]
  · cases h

theorem add_isSome_iff (n : Neuron) (o : Factor) : (add n o).isSome = true ↔ acceptsShift o = true := by
  unfold add
  split
  · rename_i h; simp only [h, iff_true]; split <;> rfl
  · rename_i h; simp [h]

theorem sub_isSome_iff (n : Neuron) (o : Factor) : (sub n o).isSome = true ↔ acceptsShift o = true := by
  unfold sub
  split
  · rename_i h; simp only [h, iff_true]; split <;> rfl
  · rename_i h; simp [h]

theorem add_sub_cancel_all {n m : Neuron} {o : Factor} (h : add n o = some m) : sub m o = some n := by
  obtain ⟨hacc, rfl⟩ := add_spec h
  have hl : ∀ l : List V3, List.map (fun c => c.sub o.xyz) (List.map (fun c => c.add o.xyz) l) = l := by
    intro l; rw [List.map_map]; exact map_id' _ _ (fun c => v3_add_sub c _)
  unfold sub
  rw [if_pos hacc]
  by_cases hk : n.kind = .voxel
  · cases n; simp only at hk; subst hk; simp [hl, v3_add_sub]
  · cases n with
    | mk kind pts radii conns offset units name id =>
      simp only at hk
      cases kind <;> simp_all

theorem sub_add_cancel_all {n m : Neuron} {o : Factor} (h : sub n o = some m) : add m o = some n := by
  obtain ⟨hacc, rfl⟩ := sub_spec h
  have hl : ∀ l : List V3, List.map (fun c => c.add o.xyz) (List.map (fun c => c.sub o.xyz) l) = l := by
    intro l; rw [List.map_map]; exact map_id' _ _ (fun c => v3_sub_add c _)
  unfold add
  rw [if_pos hacc]
  by_cases hk : n.kind = .voxel
  · cases n; simp only at hk; subst hk; simp [hl, v3_sub_add]
  · cases n with
    | mk kind pts radii conns offset units name id =>
      simp only at hk
      cases kind <;> simp_all

/-- world coordinates of a voxel neuron after a shift -/
theorem worldPts_voxel {n : Neuron} (hk : n.kind = .voxel) :
    worldPts n = n.pts.map (fun v => (v.mul n.units.mag).add n.offset) := by
  unfold worldPts; simp [hk]


/-! ### convert_units -/

theorem convFactor_spec {u : Units} {tgt : Int} {c : V3} (h : convFactor u tgt = some c) :
    ∃ e, u.base = .metre e ∧ c = u.mag.mul (V3.rep (pow10 e / pow10 tgt)) := by
  unfold convFactor at h
  cases hb : u.base with
  | dimless => simp [hb] at h
  | metre e => simp [hb] at h; exact ⟨e, rfl, h.symm⟩

theorem convArg_xyz (c : V3) : (if c.iso = true then Factor.s c.x else Factor.v3 c).xyz = c := by
  by_cases h : c.iso = true
  · rw [if_pos h]
    obtain ⟨h1, h2⟩ := (iso_iff c).mp h
    apply V3.ext' <;> simp [Factor.xyz, V3.rep, h1, h2, ← h1]
  · rw [if_neg h]; rfl

theorem convert_spec {n m : Neuron} {tgt p : Int} (hk : n.kind ≠ .voxel) (h : convertUnits n tgt p = some m) :
    m.units.phys = V3.rep (pow10 tgt) ∧ (p = tgt → m.units = ⟨V3.rep 1, .metre tgt⟩) ∧
      physPts m = physPts n ∧ physConns m = physConns n ∧
      physRadii m = physRadii n ∧ m.name = n.name ∧ m.id = n.id := by
  unfold convertUnits at h
  cases hc : convFactor n.units tgt with
  | none => simp [hc] at h
  | some c =>
    simp only [hc] at h
    obtain ⟨e, hb, hcv⟩ := convFactor_spec hc
    have hphys := mul_phys hk h
    obtain ⟨hnz, hm⟩ := mul_nonvoxel hk h
    have hxyz := convArg_xyz c
    have hf := xyz_nz hnz
    rw [hxyz] at hf
    have hto := pow10_ne_zero tgt
    have he := pow10_ne_zero e
    have hmx : n.units.mag.x ≠ 0 ∧ n.units.mag.y ≠ 0 ∧ n.units.mag.z ≠ 0 := by
      subst hcv
      simp only [V3.mul, V3.rep] at hf
      exact ⟨left_ne_zero_of_mul hf.1, left_ne_zero_of_mul hf.2.1, left_ne_zero_of_mul hf.2.2⟩
    obtain ⟨h1, h2, h3⟩ := hmx
    have hu : m.units.phys = V3.rep (pow10 tgt) := by
      rw [hm]; simp only
      rw [compact_phys, hxyz, hcv]
      apply V3.ext' <;> simp [Units.phys, V3.mul, V3.div, V3.rep, hb, Base.scale] <;> field_simp
    refine ⟨hu, ?_, hphys.1, hphys.2, ?_, by rw [hm], by rw [hm]⟩
    · intro hp
      apply units_eq_of_phys
      · rw [hm]; simp only; rw [compact_base_metre _ e p (by simp [hb]), hp]
      · rw [hu]; apply V3.ext' <;> simp [Units.phys, V3.mul, V3.rep, Base.scale]
    · apply mul_physRadii hk h
      by_cases hci : c.iso = true
      · rw [if_pos hci]; simp [Factor.rad, Factor.xyz, V3.rep]
      · rw [if_neg hci]; simp [Factor.rad, Factor.xyz]

theorem convert_isSome {n : Neuron} {tgt p e : Int} (hk : n.kind ≠ .voxel) (hb : n.units.base = .metre e)
    (hnz : n.units.mag.nz = true) :
    (convertUnits n tgt p).isSome = true := by
  have hto := pow10_ne_zero tgt
  have he := pow10_ne_zero e
  have hr : pow10 e / pow10 tgt ≠ 0 := div_ne_zero he hto
  obtain ⟨h1, h2, h3⟩ := (nz_iff _).mp hnz
  unfold convertUnits convFactor
  simp only [hb]
  rw [mul_isSome_iff]
  by_cases hi : (n.units.mag.mul (V3.rep (pow10 e / pow10 tgt))).iso = true
  · rw [if_pos hi]
    constructor
    · cases hkk : n.kind <;> simp_all [acceptsScale]
    · simp [Factor.nz, V3.mul, V3.rep, h1, hr]
  · rw [if_neg hi]
    constructor
    · cases hkk : n.kind <;> simp_all [acceptsScale]
    · simp [Factor.nz, V3.nz, V3.mul, V3.rep, h1, h2, h3, hr]

/-! ### rounding -/

theorem roundHalfEven_bound (q : Rat) : q - 1 / 2 ≤ (roundHalfEven q : Rat) ∧ (roundHalfEven q : Rat) ≤ q + 1 / 2 := by
  have h1 := Rat.floor_le q
  have h2 := Rat.lt_floor_add_one q
  push_cast at h2
  unfold roundHalfEven
  simp only
  split
  · constructor <;> linarith
  · split
    · push_cast; constructor <;> linarith
    · split
      · constructor <;> linarith
      · push_cast; constructor <;> linarith

theorem roundHalfEven_int (z : Int) : roundHalfEven (z : Rat) = z := by
  unfold roundHalfEven
  simp [Rat.floor_intCast]

theorem roundSmart_spec {q r : Rat} (h : roundSmart q = some r) :
    q - 1 / (2 * (10 : Rat) ^ smartDecimals q) ≤ r ∧ r ≤ q + 1 / (2 * (10 : Rat) ^ smartDecimals q) := by
  unfold roundSmart at h
  simp only [Option.some.injEq] at h
  have hpos := ten_pow_pos (smartDecimals q)
  have hb := roundHalfEven_bound (q * (10 : Rat) ^ smartDecimals q)
  generalize (roundHalfEven (q * (10 : Rat) ^ smartDecimals q) : Rat) = R at *
  generalize (10 : Rat) ^ smartDecimals q = T at *
  subst h
  refine ⟨?_, ?_⟩
  · rw [le_div_iff₀ hpos]
    have : (q - 1 / (2 * T)) * T = q * T - 1 / 2 := by field_simp
    linarith [hb.1]
  · rw [div_le_iff₀ hpos]
    have : (q + 1 / (2 * T)) * T = q * T + 1 / 2 := by field_simp
    linarith [hb.2]

theorem roundSmart_isSome (q : Rat) : (roundSmart q).isSome = true := rfl

theorem roundSmart_exact {q : Rat} (z : Int) (hz : q * (10 : Rat) ^ smartDecimals q = z) :
    roundSmart q = some q := by
  unfold roundSmart
  rw [hz, roundHalfEven_int, ← hz]
  have hpos := ten_pow_ne_zero (smartDecimals q)
  simp only [Option.some.injEq]
  field_simp

theorem roundSmart_zero : roundSmart 0 = some 0 := by
  apply roundSmart_exact 0; simp

/-- Python's `round` is symmetric: half-to-even of `-q` is minus that of `q` -/
theorem roundHalfEven_neg (q : Rat) : roundHalfEven (-q) = -roundHalfEven q := by
  have h1 := Rat.floor_le q
  have h2 := Rat.lt_floor_add_one q
  push_cast at h2
  by_cases hi : (q.floor : Rat) = q
  · obtain ⟨z, rfl⟩ : ∃ z : Int, q = (z : Rat) := ⟨q.floor, hi.symm⟩
    have : -(z : Rat) = ((-z : Int) : Rat) := by push_cast; rfl
    rw [this, roundHalfEven_int, roundHalfEven_int]
  · have hlt : (q.floor : Rat) < q := lt_of_le_of_ne h1 hi
    have hf : (-q).floor = -q.floor - 1 := by
      have a1 : -q.floor - 1 ≤ (-q).floor := by rw [Rat.le_floor_iff]; push_cast; linarith
      have a2 : (-q).floor < -q.floor := by rw [Rat.floor_lt_iff]; push_cast; linarith
      omega
    unfold roundHalfEven
    simp only [hf]
    push_cast
    by_cases ha : q - q.floor < 1 / 2
    · have hb : ¬ (-q - (-(q.floor : Rat) - 1) < 1 / 2) := by linarith
      have hc : (1 : Rat) / 2 < -q - (-(q.floor : Rat) - 1) := by linarith
      simp only [ha, hb, hc, if_true, if_false]; omega
    · by_cases hb : (1 : Rat) / 2 < q - q.floor
      · have hc : -q - (-(q.floor : Rat) - 1) < 1 / 2 := by linarith
        simp only [ha, hb, hc, if_true, if_false]; omega
      · have he : q - q.floor = 1 / 2 := by linarith
        have hc : ¬ (-q - (-(q.floor : Rat) - 1) < 1 / 2) := by linarith
        have hd : ¬ ((1 : Rat) / 2 < -q - (-(q.floor : Rat) - 1)) := by linarith
        simp only [ha, hb, hc, hd, if_false]
        by_cases hp : q.floor % 2 = 0
        · have : ¬ ((-q.floor - 1) % 2 = 0) := by omega
          simp only [hp, this, if_true, if_false]; omega
        · have : (-q.floor - 1) % 2 = 0 := by omega
          simp only [hp, this, if_true, if_false]; omega

theorem rabs_neg (q : Rat) : rabs (-q) = rabs q := by
  unfold rabs
  by_cases h : q < 0
  · have : ¬ (-q < 0) := by linarith
    simp [h, this]
  · by_cases h0 : q = 0
    · subst h0; simp
    · have : -q < 0 := by
        have : 0 < q := lt_of_le_of_ne (not_lt.mp h) (Ne.symm h0)
        linarith
      simp [h, this]

theorem smartDecimals_neg (q : Rat) : smartDecimals (-q) = smartDecimals q := by
  unfold smartDecimals; rw [rabs_neg]

/-- `round_smart` keeps the sign: a negative number is rounded like its absolute value -/
theorem roundSmart_neg (q : Rat) : roundSmart (-q) = (roundSmart q).map (fun r => -r) := by
  unfold roundSmart
  simp only [Option.map_some, Option.some.injEq, smartDecimals_neg]
  rw [neg_mul, roundHalfEven_neg]
  push_cast
  ring

/-! ### map_units -/

theorem mapRatio_metre {u : Units} {en : Int} (hb : u.base = .metre en) (a : Rat) (e : Int) :
    mapRatio u a e = a * pow10 e / u.phys.x := by
  have h := pow10_ne_zero en
  unfold mapRatio
  simp only [hb, Units.phys, V3.mul, V3.rep, Base.scale]
  by_cases hm : u.mag.x = 0
  · simp [hm]
  · field_simp

theorem mapUnits_qty {n : Neuron} {a : Rat} {e : Int} {r : Rat} (h : mapUnits n (.qty a (.metre e)) = some r) :
    n.units.dimensionless = false ∧ n.units.iso = true ∧ roundSmart (mapRatio n.units a e) = some r := by
  simp only [mapUnits] at h
  split at h
  · cases h
  · split at h
    · cases h
    · rename_i h1 h2
      simp only [Bool.not_eq_true] at h1
      have h2' : n.units.iso = true := by simpa using h2
      exact ⟨h1, h2', h⟩

theorem not_dimensionless {u : Units} (h : u.dimensionless = false) : ∃ en, u.base = .metre en := by
  unfold Units.dimensionless at h
  cases hb : u.base with
  | dimless => simp [hb] at h
  | metre en => exact ⟨en, rfl⟩

/-! ### metadata -/

theorem setUnits_unitsAsArg (u : Units) : setUnits (unitsAsArg u) = some u := by
  unfold unitsAsArg
  by_cases h : u.iso = true
  · rw [if_pos h]
    obtain ⟨h1, h2⟩ := (iso_iff _).mp h
    cases u with
    | mk mag base =>
      simp only [setUnits, UnitArg.q, Option.some.injEq, Units.mk.injEq, and_true]
      simp only at h1 h2
      apply V3.ext' <;> simp [V3.rep, h1, h2, ← h1]
  · rw [if_neg h]
    cases u with
    | mk mag base => simp [setUnits, UnitArg.q]

/-! ### soundness of the exact comparison used by the driver -/

theorem rabs_nonneg (q : Rat) : 0 ≤ rabs q := by
  unfold rabs; split <;> linarith

theorem rabs_eq_zero {q : Rat} (h : rabs q ≤ 0) : q = 0 := by
  unfold rabs at h; split at h <;> linarith

theorem closeR_zero (a b : Rat) : closeR 0 a b = true ↔ a = b := by
  unfold closeR
  simp only [zero_mul, decide_eq_true_eq]
  constructor
  · intro h; have := rabs_eq_zero h; linarith
  · intro h; subst h; simp [rabs]

theorem closeV_zero (a b : V3) : closeV 0 a b = true ↔ a = b := by
  unfold closeV
  simp only [Bool.and_eq_true, closeR_zero]
  constructor
  · rintro ⟨⟨h1, h2⟩, h3⟩; exact V3.ext' h1 h2 h3
  · rintro rfl; exact ⟨⟨rfl, rfl⟩, rfl⟩

theorem closeL_zero (a b : List V3) : closeL 0 a b = true ↔ a = b := by
  induction a generalizing b with
  | nil => cases b <;> simp [closeL]
  | cons x xs ih => cases b <;> simp [closeL, closeV_zero, ih]

theorem closeRL_zero (a b : List Rat) : closeRL 0 a b = true ↔ a = b := by
  induction a generalizing b with
  | nil => cases b <;> simp [closeRL]
  | cons x xs ih => cases b <;> simp [closeRL, closeR_zero, ih]

end Navis.Units
