import NavisModel.Model.Codec
import NavisModel.Model.Policy
/-!
Helper lemmas for C14 (core Lean only): little-endian words, the word-array readers, `reshape`,
the skeleton / mesh codecs (encoder → decoder, decoder → encoder, length pinning, rejection),
the node-id → row-index mapping of edges, and the `errors` policy.
-/
namespace Navis.Codec

theorem le_length (s n : Nat) : (le s n).length = s := by
  induction s generalizing n with
  | zero => rfl
  | succ s ih => simp [le, ih]

theorem le_bytesOK (s n : Nat) : BytesOK (le s n) := by
  induction s generalizing n with
  | zero => intro b hb; simp [le] at hb
  | succ s ih =>
    intro b hb
    simp only [le, List.mem_cons] at hb
    rcases hb with rfl | hb
    · exact Nat.mod_lt _ (by decide)
    · exact ih _ b hb

theorem fromLE_le (s n : Nat) (h : n < 256 ^ s) : fromLE (le s n) = n := by
  induction s generalizing n with
  | zero => simp at h; subst h; rfl
  | succ s ih =>
    simp only [le, fromLE]
    have : n / 256 < 256 ^ s := by
      apply Nat.div_lt_of_lt_mul
      rw [Nat.pow_succ] at h; omega
    rw [ih _ this]; omega

theorem le_fromLE (bs : List Nat) (h : BytesOK bs) : le bs.length (fromLE bs) = bs := by
  induction bs with
  | nil => rfl
  | cons b bs ih =>
    have hb : b < 256 := h b (by simp)
    have hbs : BytesOK bs := fun x hx => h x (by simp [hx])
    simp only [List.length_cons, le, fromLE]
    have h1 : (b + 256 * fromLE bs) % 256 = b := by omega
    have h2 : (b + 256 * fromLE bs) / 256 = fromLE bs := by omega
    rw [h1, h2, ih hbs]

theorem fromLE_lt (bs : List Nat) (h : BytesOK bs) : fromLE bs < 256 ^ bs.length := by
  induction bs with
  | nil => simp [fromLE]
  | cons b bs ih =>
    have hb : b < 256 := h b (by simp)
    have hbs : BytesOK bs := fun x hx => h x (by simp [hx])
    have := ih hbs
    simp only [List.length_cons, fromLE, Nat.pow_succ]
    omega

theorem readU32_eq_readWord (bs : List Nat) : readU32 bs = readWord 4 bs := by
  unfold readWord
  match bs with
  | [] => simp [readU32]
  | [_] => simp [readU32]
  | [_, _] => simp [readU32]
  | [_, _, _] => simp [readU32]
  | b0 :: b1 :: b2 :: b3 :: rest =>
    simp [readU32, fromLE]; omega

theorem readWord_le (s n : Nat) (rest : List Nat) (h : n < 256 ^ s) :
    readWord s (le s n ++ rest) = some (n, rest) := by
  unfold readWord
  have hl := le_length s n
  rw [if_neg (by simp [hl])]
  rw [List.take_left' hl, List.drop_left' hl, fromLE_le s n h]

theorem u32_round_trip' (n : Nat) (rest : List Nat) (h : n < 2 ^ 32) :
    readU32 (u32le n ++ rest) = some (n, rest) := by
  rw [readU32_eq_readWord]; exact readWord_le 4 n rest (by simpa using h)


theorem encWords_length (s : Nat) (ws : List Nat) : (encWords s ws).length = s * ws.length := by
  induction ws with
  | nil => simp [encWords]
  | cons w ws ih =>
    simp only [encWords, List.flatMap_cons, List.length_append, le_length, List.length_cons] at ih ⊢
    rw [ih, Nat.mul_succ]; omega

theorem readWords_enc (s : Nat) (ws rest : List Nat) (h : ∀ w ∈ ws, w < 256 ^ s) :
    readWords s ws.length (encWords s ws ++ rest) = some (ws, rest) := by
  induction ws with
  | nil => simp [readWords, encWords]
  | cons w ws ih =>
    have hw := h w (by simp)
    have hws : ∀ x ∈ ws, x < 256 ^ s := fun x hx => h x (by simp [hx])
    simp only [encWords, List.flatMap_cons, List.length_cons, readWords, List.append_assoc]
    rw [readWord_le s w _ hw]
    have := ih hws
    simp only [encWords] at this
    simp [this]

theorem readWord_length {s : Nat} {bs r : List Nat} {w : Nat} (h : readWord s bs = some (w, r)) :
    bs.length = s + r.length ∧ r = bs.drop s ∧ w = fromLE (bs.take s) := by
  unfold readWord at h
  split at h
  · simp at h
  · simp only [Option.some.injEq, Prod.mk.injEq] at h
    obtain ⟨rfl, rfl⟩ := h
    simp; omega

theorem readWords_length {s k : Nat} {bs ws r : List Nat} (h : readWords s k bs = some (ws, r)) :
    bs.length = s * k + r.length ∧ ws.length = k := by
  induction k generalizing bs ws r with
  | zero => simp [readWords] at h; obtain ⟨rfl, rfl⟩ := h; simp
  | succ k ih =>
    simp only [readWords] at h
    split at h
    · simp at h
    · rename_i w r1 h1
      split at h
      · simp at h
      · rename_i ws' r' h2
        simp only [Option.some.injEq, Prod.mk.injEq] at h
        obtain ⟨rfl, rfl⟩ := h
        have a := readWord_length h1
        have b := ih h2
        simp [Nat.mul_succ]; omega

theorem BytesOK.append_right {a b : List Nat} (h : BytesOK (a ++ b)) : BytesOK b :=
  fun x hx => h x (by simp [hx])

theorem readWord_inv {s : Nat} {bs r : List Nat} {w : Nat} (hb : BytesOK bs) (h : readWord s bs = some (w, r)) :
    bs = le s w ++ r := by
  obtain ⟨hl, rfl, rfl⟩ := readWord_length h
  have hbt : BytesOK (bs.take s) := fun x hx => hb x (List.mem_of_mem_take hx)
  have hlen : (bs.take s).length = s := by simp; omega
  have := le_fromLE (bs.take s) hbt
  rw [hlen] at this
  rw [this, List.take_append_drop]

/-- what was read re-encodes to what was there (decoder is a partial inverse of the encoder) -/
theorem readWords_inv {s k : Nat} {bs ws r : List Nat} (hb : BytesOK bs) (h : readWords s k bs = some (ws, r)) :
    bs = encWords s ws ++ r ∧ ∀ w ∈ ws, w < 256 ^ s := by
  induction k generalizing bs ws r with
  | zero => simp [readWords] at h; obtain ⟨rfl, rfl⟩ := h; simp [encWords]
  | succ k ih =>
    simp only [readWords] at h
    split at h
    · simp at h
    · rename_i w r1 h1
      split at h
      · simp at h
      · rename_i ws' r' h2
        simp only [Option.some.injEq, Prod.mk.injEq] at h
        obtain ⟨rfl, rfl⟩ := h
        obtain ⟨hl, rfl, rfl⟩ := readWord_length h1
        have hb1 : BytesOK (bs.drop s) := fun x hx => hb x (List.mem_of_mem_drop hx)
        have hbt : BytesOK (bs.take s) := fun x hx => hb x (List.mem_of_mem_take hx)
        obtain ⟨e1, e2⟩ := ih hb1 h2
        have hlen : (bs.take s).length = s := by simp; omega
        constructor
        · simp only [encWords, List.flatMap_cons, List.append_assoc]
          have := le_fromLE (bs.take s) hbt
          rw [hlen] at this
          rw [this]
          simp only [encWords] at e1
          rw [← e1, List.take_append_drop]
        · intro x hx
          simp only [List.mem_cons] at hx
          rcases hx with rfl | hx
          · have := fromLE_lt (bs.take s) hbt
            rwa [hlen] at this
          · exact e2 x hx

theorem availWords_enc (s : Nat) (hs : 0 < s) (ws rest : List Nat) (h : ∀ w ∈ ws, w < 256 ^ s) :
    availWords s ws.length (encWords s ws ++ rest) = some (ws, rest) := by
  unfold availWords
  have hl := encWords_length s ws
  rw [List.take_left' hl, List.drop_left' hl, hl]
  rw [if_neg (by simp)]
  rw [Nat.mul_div_cancel_left _ hs]
  have := readWords_enc s ws [] h
  simp only [List.append_nil] at this
  rw [this]

theorem triples_flat3 (vs : List V3) : triples (flat3 vs) = some vs := by
  induction vs with
  | nil => rfl
  | cons v vs ih =>
    obtain ⟨x, y, z⟩ := v
    simp only [flat3, List.flatMap_cons, List.cons_append, List.nil_append, triples] at ih ⊢
    rw [ih]; rfl

theorem pairs_flat2 (es : List (Nat × Nat)) : pairs (flat2 es) = some es := by
  induction es with
  | nil => rfl
  | cons v vs ih =>
    obtain ⟨x, y⟩ := v
    simp only [flat2, List.flatMap_cons, List.cons_append, List.nil_append, pairs] at ih ⊢
    rw [ih]; rfl

theorem flat3_length (vs : List V3) : (flat3 vs).length = 3 * vs.length := by
  induction vs with
  | nil => rfl
  | cons v vs ih => simp only [flat3, List.flatMap_cons, List.length_append, List.length_cons] at ih ⊢; rw [ih]; simp; omega

theorem flat2_length (es : List (Nat × Nat)) : (flat2 es).length = 2 * es.length := by
  induction es with
  | nil => rfl
  | cons v vs ih => simp only [flat2, List.flatMap_cons, List.length_append, List.length_cons] at ih ⊢; rw [ih]; simp; omega

theorem triples_inv {ws : List Nat} {vs : List V3} (h : triples ws = some vs) : ws = flat3 vs := by
  fun_induction triples ws generalizing vs with
  | case1 => simp at h; subst h; rfl
  | case2 x y z r ih =>
    simp only [Option.map_eq_some_iff] at h
    obtain ⟨a, ha, rfl⟩ := h
    rw [ih ha]; rfl
  | case3 => simp at h

theorem pairs_inv {ws : List Nat} {es : List (Nat × Nat)} (h : pairs ws = some es) : ws = flat2 es := by
  fun_induction pairs ws generalizing es with
  | case1 => simp at h; subst h; rfl
  | case2 x y r ih =>
    simp only [Option.map_eq_some_iff] at h
    obtain ⟨a, ha, rfl⟩ := h
    rw [ih ha]; rfl
  | case3 => simp at h

theorem encAttrs_length (n : Nat) (specs : List AttrSpec) (as : List (List Nat)) (h : AttrsOK n specs as) :
    (encAttrs specs as).length = attrBytes n specs := by
  induction specs generalizing as with
  | nil => cases as <;> simp [encAttrs, attrBytes]
  | cons sp sps ih =>
    cases as with
    | nil => simp [AttrsOK] at h
    | cons vs vss =>
      obtain ⟨h1, _, h3⟩ := h
      simp only [encAttrs, attrBytes, List.length_append, encWords_length, h1, ih vss h3]

theorem readAttrs_enc (n : Nat) (specs : List AttrSpec) (as : List (List Nat)) (rest : List Nat)
    (h : AttrsOK n specs as) : readAttrs n specs (encAttrs specs as ++ rest) = some (as, rest) := by
  induction specs generalizing as with
  | nil => cases as with
    | nil => simp [encAttrs, readAttrs]
    | cons => simp [AttrsOK] at h
  | cons sp sps ih =>
    cases as with
    | nil => simp [AttrsOK] at h
    | cons vs vss =>
      obtain ⟨h1, h2, h3⟩ := h
      simp only [encAttrs, readAttrs, List.append_assoc]
      rw [← h1, readWords_enc sp.size vs _ h2]
      simp only
      rw [ih vss h3]

theorem readAttrs_length {n : Nat} {specs : List AttrSpec} {bs r : List Nat} {as : List (List Nat)}
    (h : readAttrs n specs bs = some (as, r)) : bs.length = attrBytes n specs + r.length := by
  induction specs generalizing bs as r with
  | nil => simp [readAttrs] at h; obtain ⟨_, rfl⟩ := h; simp [attrBytes]
  | cons sp sps ih =>
    simp only [readAttrs] at h
    split at h
    · simp at h
    · rename_i vs r1 h1
      split at h
      · simp at h
      · rename_i vss r' h2
        simp only [Option.some.injEq, Prod.mk.injEq] at h
        obtain ⟨_, rfl⟩ := h
        have a := (readWords_length h1).1
        have b := ih h2
        simp only [attrBytes]; omega

theorem readAttrs_inv {n : Nat} {specs : List AttrSpec} {bs r : List Nat} {as : List (List Nat)}
    (hb : BytesOK bs) (h : readAttrs n specs bs = some (as, r)) : bs = encAttrs specs as ++ r := by
  induction specs generalizing bs as r with
  | nil => simp [readAttrs] at h; obtain ⟨rfl, rfl⟩ := h; simp [encAttrs]
  | cons sp sps ih =>
    simp only [readAttrs] at h
    split at h
    · simp at h
    · rename_i vs r1 h1
      split at h
      · simp at h
      · rename_i vss r' h2
        simp only [Option.some.injEq, Prod.mk.injEq] at h
        obtain ⟨rfl, rfl⟩ := h
        obtain ⟨e1, _⟩ := readWords_inv hb h1
        have hb1 : BytesOK r1 := by rw [e1] at hb; exact hb.append_right
        have e2 := ih hb1 h2
        simp only [encAttrs, List.append_assoc]
        rw [← e2, ← e1]

theorem decodeSkel_encode (specs : List AttrSpec) (sk : Skel) (h : sk.OK specs) :
    decodeSkel specs (encodeSkel specs sk) = some sk := by
  unfold decodeSkel encodeSkel
  rw [u32_round_trip' _ _ h.nverts]; simp only
  rw [u32_round_trip' _ _ h.nedges]; simp only
  rw [← flat3_length, readWords_enc 4 _ _ (by simpa using h.vwords)]; simp only
  rw [← flat2_length, readWords_enc 4 _ _ (by simpa using h.ewords)]; simp only
  have := readAttrs_enc sk.verts.length specs sk.attrs [] h.attrs
  simp only [List.append_nil] at this
  rw [this]; simp only [ne_eq, not_true_eq_false, ↓reduceIte, triples_flat3, pairs_flat2]

theorem navisReadSkel_encode (specs : List AttrSpec) (sk : Skel) (h : sk.OK specs)
    (extra : List Nat) :
    navisReadSkel specs (encodeSkel specs sk ++ extra) = some sk := by
  unfold navisReadSkel encodeSkel
  simp only [List.append_assoc]
  rw [← readU32_eq_readWord, u32_round_trip' _ _ h.nverts]; simp only
  rw [← readU32_eq_readWord, u32_round_trip' _ _ h.nedges]; simp only
  rw [← flat3_length, readWords_enc 4 _ _ (by simpa using h.vwords)]; simp only
  rw [triples_flat3]; simp only
  rw [← flat2_length, readWords_enc 4 _ _ (by simpa using h.ewords)]; simp only
  rw [pairs_flat2]; simp only
  rw [readAttrs_enc _ _ _ _ h.attrs]

/-- A successful strict decode pins the length of the file to what its header announces. -/
theorem decodeSkel_length {specs : List AttrSpec} {bs : List Nat} {sk : Skel}
    (h : decodeSkel specs bs = some sk) :
    ∃ r1 r2, readU32 bs = some (sk.verts.length, r1) ∧ readU32 r1 = some (sk.edges.length, r2) ∧
      bs.length = skelLen specs sk.verts.length sk.edges.length := by
  unfold decodeSkel at h
  split at h
  · simp at h
  · rename_i n r1 h1
    split at h
    · simp at h
    · rename_i e r2 h2
      split at h
      · simp at h
      · rename_i vw r3 h3
        split at h
        · simp at h
        · rename_i ew r4 h4
          split at h
          · simp at h
          · rename_i as r5 h5
            split at h
            · simp at h
            · rename_i hr5
              simp only [ne_eq, Decidable.not_not] at hr5
              split at h
              · rename_i vs es hv he
                simp only [Option.some.injEq] at h
                subst h
                have lv := congrArg List.length (triples_inv hv)
                have le' := congrArg List.length (pairs_inv he)
                rw [flat3_length] at lv
                rw [flat2_length] at le'
                have a3 := readWords_length h3
                have a4 := readWords_length h4
                have a5 := readAttrs_length h5
                have hn : vs.length = n := by omega
                have he : es.length = e := by omega
                rw [readU32_eq_readWord] at h1 h2
                have a1 := (readWord_length h1).1
                have a2 := (readWord_length h2).1
                refine ⟨r1, r2, ?_, ?_, ?_⟩
                · rw [readU32_eq_readWord, h1, hn]
                · rw [readU32_eq_readWord, h2, he]
                · simp only [skelLen, hn, he]; subst hr5; simp at a5; omega
              · simp at h

theorem encodeSkel_length (specs : List AttrSpec) (sk : Skel) (h : sk.OK specs) :
    (encodeSkel specs sk).length = skelLen specs sk.verts.length sk.edges.length := by
  simp only [encodeSkel, u32le, List.length_append, le_length, encWords_length, flat3_length, flat2_length,
    encAttrs_length _ _ _ h.attrs, skelLen]
  omega

/-- Any byte string whose length differs from what its own header announces is rejected. -/
theorem decodeSkel_rejects_length (specs : List AttrSpec) (bs r1 r2 : List Nat) (n e : Nat)
    (h1 : readU32 bs = some (n, r1)) (h2 : readU32 r1 = some (e, r2))
    (hlen : bs.length ≠ skelLen specs n e) : decodeSkel specs bs = none := by
  cases hd : decodeSkel specs bs with
  | none => rfl
  | some sk =>
    exfalso
    obtain ⟨r1', r2', g1, g2, g3⟩ := decodeSkel_length hd
    rw [h1] at g1
    simp only [Option.some.injEq, Prod.mk.injEq] at g1
    obtain ⟨rfl, rfl⟩ := g1
    rw [h2] at g2
    simp only [Option.some.injEq, Prod.mk.injEq] at g2
    obtain ⟨rfl, rfl⟩ := g2
    exact hlen g3

theorem readU32_take {bs r : List Nat} {n k : Nat} (h : readU32 bs = some (n, r)) (hk : 4 ≤ k) :
    readU32 (bs.take k) = some (n, r.take (k - 4)) := by
  match bs, h with
  | b0 :: b1 :: b2 :: b3 :: rest, h =>
    simp only [readU32, Option.some.injEq, Prod.mk.injEq] at h
    obtain ⟨rfl, rfl⟩ := h
    obtain ⟨k', rfl⟩ : ∃ k', k = k' + 4 := ⟨k - 4, by omega⟩
    simp [List.take, readU32]

theorem readU32_short {bs : List Nat} (h : bs.length < 4) : readU32 bs = none := by
  match bs, h with
  | [], _ => rfl
  | [_], _ => rfl
  | [_, _], _ => rfl
  | [_, _, _], _ => rfl
  | _ :: _ :: _ :: _ :: _, h => simp at h; omega

theorem decodeSkel_short {specs : List AttrSpec} {bs : List Nat} (h : bs.length < 8) :
    decodeSkel specs bs = none := by
  unfold decodeSkel
  split
  · rfl
  · rename_i n r1 h1
    rw [readU32_eq_readWord] at h1
    have := (readWord_length h1).1
    rw [readU32_short (by omega)]

/-- **Every proper prefix of a well-formed skeleton file is rejected.** -/
theorem decodeSkel_truncated (specs : List AttrSpec) (sk : Skel) (h : sk.OK specs) (k : Nat)
    (hk : k < (encodeSkel specs sk).length) : decodeSkel specs ((encodeSkel specs sk).take k) = none := by
  by_cases h8 : k < 8
  · exact decodeSkel_short (by simp; omega)
  · have e1 : readU32 (encodeSkel specs sk) = some (sk.verts.length, _) := u32_round_trip' _ _ h.nverts
    have e2 := u32_round_trip' sk.edges.length
      (encWords 4 (flat3 sk.verts) ++ (encWords 4 (flat2 sk.edges) ++ encAttrs specs sk.attrs)) h.nedges
    have t1 := readU32_take e1 (k := k) (by omega)
    have t2 := readU32_take e2 (k := k - 4) (by omega)
    refine decodeSkel_rejects_length specs _ _ _ _ _ t1 t2 ?_
    rw [← encodeSkel_length specs sk h]
    simp; omega

/-- The strict decoder accepts exactly the encoder's image: whatever it returns re-encodes to the
very bytes it was given. -/
theorem encodeSkel_decode {specs : List AttrSpec} {bs : List Nat} {sk : Skel} (hb : BytesOK bs)
    (h : decodeSkel specs bs = some sk) : encodeSkel specs sk = bs := by
  unfold decodeSkel at h
  split at h
  · simp at h
  · rename_i n r1 h1
    split at h
    · simp at h
    · rename_i e r2 h2
      split at h
      · simp at h
      · rename_i vw r3 h3
        split at h
        · simp at h
        · rename_i ew r4 h4
          split at h
          · simp at h
          · rename_i as r5 h5
            split at h
            · simp at h
            · rename_i hr5
              simp only [ne_eq, Decidable.not_not] at hr5
              split at h
              · rename_i vs es hv he
                simp only [Option.some.injEq] at h
                subst h
                rw [readU32_eq_readWord] at h1 h2
                have i1 := readWord_inv hb h1
                have hb1 : BytesOK r1 := by rw [i1] at hb; exact hb.append_right
                have i2 := readWord_inv hb1 h2
                have hb2 : BytesOK r2 := by rw [i2] at hb1; exact hb1.append_right
                obtain ⟨i3, _⟩ := readWords_inv hb2 h3
                have hb3 : BytesOK r3 := by rw [i3] at hb2; exact hb2.append_right
                obtain ⟨i4, _⟩ := readWords_inv hb3 h4
                have hb4 : BytesOK r4 := by rw [i4] at hb3; exact hb3.append_right
                have i5 := readAttrs_inv hb4 h5
                have lv := congrArg List.length (triples_inv hv)
                have le' := congrArg List.length (pairs_inv he)
                rw [flat3_length] at lv
                rw [flat2_length] at le'
                have a3 := (readWords_length h3).2
                have a4 := (readWords_length h4).2
                have hn : vs.length = n := by omega
                have hee : es.length = e := by omega
                subst hr5
                simp only [encodeSkel, u32le, hn, hee]
                rw [← triples_inv hv, ← pairs_inv he]
                rw [i1, i2, i3, i4, i5]; simp
              · simp at h

theorem idxOf_id_getElem (t : List Row) (hn : (ids t).Nodup) (i : Nat) (hi : i < t.length) :
    (ids t).idxOf t[i].id = i := by
  have hi' : i < (ids t).length := by simpa [ids] using hi
  have : (ids t)[i] = t[i].id := by simp [ids]
  rw [← this]
  exact hn.idxOf_getElem i hi'

theorem mem_writeEdges_child {t : List Row} (hn : (ids t).Nodup) {e : Nat × Nat} (he : e ∈ writeEdges t)
    {i : Nat} (hi : i < t.length) (hc : e.2 = i) :
    0 ≤ t[i].parent ∧ e.1 = (ids t).idxOf t[i].parent := by
  simp only [writeEdges, List.mem_map, List.mem_filter, decide_eq_true_eq] at he
  obtain ⟨r, ⟨hr, hp⟩, rfl⟩ := he
  obtain ⟨j, hj, rfl⟩ := List.getElem_of_mem hr
  simp only at hc
  rw [idxOf_id_getElem t hn j hj] at hc
  subst hc
  exact ⟨hp, rfl⟩

theorem parentOf_writeEdges (t : List Row) (h : TableOK t) (i : Nat) (hi : i < t.length) :
    parentOf (writeEdges t) i = relabelParent t t[i] := by
  obtain ⟨hn, _⟩ := h
  unfold parentOf relabelParent
  split
  · rename_i e he
    have hmem : e ∈ writeEdges t := by
      have := List.mem_of_find?_eq_some he
      simpa using this
    have hc : e.2 = i := by
      have := List.find?_some he
      simpa using this
    obtain ⟨hp, h1⟩ := mem_writeEdges_child hn hmem hi hc
    rw [if_neg (by omega), h1]
  · rename_i hnone
    rw [List.find?_eq_none] at hnone
    by_cases hp : t[i].parent < 0
    · rw [if_pos hp]
    · exfalso
      have hmem : ((ids t).idxOf t[i].parent, (ids t).idxOf t[i].id) ∈ writeEdges t := by
        simp only [writeEdges, List.mem_map, List.mem_filter, decide_eq_true_eq]
        exact ⟨t[i], ⟨List.getElem_mem hi, by omega⟩, rfl⟩
      have := hnone _ (by simpa using hmem)
      simp [idxOf_id_getElem t hn i hi] at this

theorem readParents_toSkel (t : List Row) (radius : Bool) (h : TableOK t) :
    readParents (toSkel t radius) = relabelByRow t := by
  unfold readParents relabelByRow toSkel
  simp only [List.length_map]
  apply List.ext_getElem
  · simp
  · intro i h1 h2
    simp only [List.length_map, List.length_range] at h1
    simp only [List.getElem_map, List.getElem_range]
    exact parentOf_writeEdges t h i h1

/-- every written edge index is a row index (so it fits in the uint32 field when the table does) -/
theorem writeEdges_lt (t : List Row) (h : TableOK t) : ∀ e ∈ writeEdges t, e.1 < t.length ∧ e.2 < t.length := by
  intro e he
  simp only [writeEdges, List.mem_map, List.mem_filter, decide_eq_true_eq] at he
  obtain ⟨r, ⟨hr, hp⟩, rfl⟩ := he
  have hl : (ids t).length = t.length := by simp [ids]
  constructor
  · rcases h.2 r hr with h' | h'
    · omega
    · rw [← hl]; exact List.idxOf_lt_length_of_mem h'
  · rw [← hl]; exact List.idxOf_lt_length_of_mem (by simp [ids]; exact ⟨r, hr, rfl⟩)

theorem writeEdges_length_le (t : List Row) : (writeEdges t).length ≤ t.length := by
  simp only [writeEdges, List.length_map]; exact List.length_filter_le _ _

theorem encodeMesh_length (m : Mesh) :
    (encodeMesh m).length = 4 + 12 * m.verts.length + 12 * m.faces.length := by
  simp only [encodeMesh, u32le, List.length_append, le_length, encWords_length, flat3_length]; omega

theorem decodeMesh_encode (m : Mesh) (h : m.OK) : decodeMesh (encodeMesh m) = some m := by
  unfold decodeMesh encodeMesh
  rw [u32_round_trip' _ _ h.nverts]; simp only
  rw [← flat3_length, readWords_enc 4 _ _ (by simpa using h.vwords)]; simp only
  have hl : (encWords 4 (flat3 m.faces)).length = 12 * m.faces.length := by
    rw [encWords_length, flat3_length]; omega
  rw [hl, if_neg (by omega)]
  have e : 3 * (12 * m.faces.length / 12) = (flat3 m.faces).length := by rw [flat3_length]; omega
  rw [e]
  have := readWords_enc 4 (flat3 m.faces) [] (by simpa using h.fwords)
  simp only [List.append_nil] at this
  rw [this]; simp only [triples_flat3]

theorem navisReadMesh_encode (m : Mesh) (h : m.OK) : navisReadMesh (encodeMesh m) = some m := by
  unfold navisReadMesh encodeMesh
  rw [← readU32_eq_readWord, u32_round_trip' _ _ h.nverts]; simp only
  rw [← flat3_length, readWords_enc 4 _ _ (by simpa using h.vwords)]; simp only
  rw [triples_flat3]; simp only
  have hl : (encWords 4 (flat3 m.faces)).length = 4 * (flat3 m.faces).length := encWords_length _ _
  -- `f.read()` asks for more than is left: everything is returned
  have key : availWords 4 ((encWords 4 (flat3 m.faces)).length / 4 + 1) (encWords 4 (flat3 m.faces)) =
      some (flat3 m.faces, []) := by
    unfold availWords
    have ht : List.take (4 * ((encWords 4 (flat3 m.faces)).length / 4 + 1)) (encWords 4 (flat3 m.faces)) =
        encWords 4 (flat3 m.faces) := List.take_of_length_le (by omega)
    have hd : List.drop (4 * ((encWords 4 (flat3 m.faces)).length / 4 + 1)) (encWords 4 (flat3 m.faces)) = [] :=
      List.drop_of_length_le (by omega)
    rw [ht, hd, hl, if_neg (by simp), Nat.mul_div_cancel_left _ (by decide)]
    have := readWords_enc 4 (flat3 m.faces) [] (by simpa using h.fwords)
    simp only [List.append_nil] at this
    rw [this]
  rw [key]; simp only [triples_flat3]

/-- success of the strict mesh decoder pins the length -/
theorem decodeMesh_length {bs : List Nat} {m : Mesh} (h : decodeMesh bs = some m) :
    ∃ r1, readU32 bs = some (m.verts.length, r1) ∧ bs.length = 4 + 12 * m.verts.length + 12 * m.faces.length := by
  unfold decodeMesh at h
  split at h
  · simp at h
  · rename_i n r1 h1
    split at h
    · simp at h
    · rename_i vw r2 h2
      split at h
      · simp at h
      · rename_i hmod
        split at h
        · simp at h
        · rename_i fw r3 h3
          split at h
          · rename_i vs fs hv hf
            simp only [Option.some.injEq] at h
            subst h
            have lv := congrArg List.length (triples_inv hv)
            have lf := congrArg List.length (triples_inv hf)
            rw [flat3_length] at lv lf
            have a2 := readWords_length h2
            have a3 := readWords_length h3
            have h1' := h1
            rw [readU32_eq_readWord] at h1'
            have a1 := (readWord_length h1').1
            have hn : vs.length = n := by omega
            refine ⟨r1, by rw [h1, hn], ?_⟩
            simp only; omega
          · simp at h

/-- The mesh decoder rejects every file whose vertex block is incomplete or whose remainder is not a
whole number of triangles. -/
theorem decodeMesh_rejects (bs r1 : List Nat) (n : Nat) (h1 : readU32 bs = some (n, r1))
    (hbad : bs.length < 4 + 12 * n ∨ (bs.length - 4 - 12 * n) % 12 ≠ 0) : decodeMesh bs = none := by
  cases hd : decodeMesh bs with
  | none => rfl
  | some m =>
    exfalso
    obtain ⟨r1', g1, g2⟩ := decodeMesh_length hd
    rw [h1] at g1
    simp only [Option.some.injEq, Prod.mk.injEq] at g1
    obtain ⟨rfl, rfl⟩ := g1
    omega

theorem decodeMesh_truncated_vertices (m : Mesh) (h : m.OK) (k : Nat) (hk : k < 4 + 12 * m.verts.length) :
    decodeMesh ((encodeMesh m).take k) = none := by
  by_cases h4 : k < 4
  · unfold decodeMesh; rw [readU32_short (by simp; omega)]
  · have e1 : readU32 (encodeMesh m) = some (m.verts.length, _) := u32_round_trip' _ _ h.nverts
    have t1 := readU32_take e1 (k := k) (by omega)
    refine decodeMesh_rejects _ _ _ t1 (Or.inl ?_)
    simp; omega

theorem decodeMesh_truncated_misaligned (m : Mesh) (h : m.OK) (k : Nat) (hk : k < (encodeMesh m).length)
    (hmis : k < 4 + 12 * m.verts.length ∨ (k - 4) % 12 ≠ 0) :
    decodeMesh ((encodeMesh m).take k) = none := by
  rcases hmis with hmis | hmis
  · exact decodeMesh_truncated_vertices m h k hmis
  · by_cases h4 : k < 4 + 12 * m.verts.length
    · exact decodeMesh_truncated_vertices m h k h4
    · have e1 : readU32 (encodeMesh m) = some (m.verts.length, _) := u32_round_trip' _ _ h.nverts
      have t1 := readU32_take e1 (k := k) (by omega)
      refine decodeMesh_rejects _ _ _ t1 (Or.inr ?_)
      have : ((encodeMesh m).take k).length = k := by simp; omega
      rw [this]; omega

/-- Destructuring a successful strict decode. -/
theorem decodeSkel_some {specs : List AttrSpec} {bs : List Nat} {sk : Skel} (h : decodeSkel specs bs = some sk) :
    ∃ n r1 e r2 vw r3 ew r4, readU32 bs = some (n, r1) ∧ readU32 r1 = some (e, r2) ∧
      readWords 4 (3 * n) r2 = some (vw, r3) ∧ readWords 4 (2 * e) r3 = some (ew, r4) ∧
      readAttrs n specs r4 = some (sk.attrs, []) ∧ triples vw = some sk.verts ∧ pairs ew = some sk.edges := by
  unfold decodeSkel at h
  split at h
  · simp at h
  · rename_i n r1 h1
    split at h
    · simp at h
    · rename_i e r2 h2
      split at h
      · simp at h
      · rename_i vw r3 h3
        split at h
        · simp at h
        · rename_i ew r4 h4
          split at h
          · simp at h
          · rename_i as r5 h5
            split at h
            · simp at h
            · rename_i hr5
              simp only [ne_eq, Decidable.not_not] at hr5
              split at h
              · rename_i vs es hv he
                simp only [Option.some.injEq] at h
                subst h; subst hr5
                exact ⟨n, r1, e, r2, vw, r3, ew, r4, h1, h2, h3, h4, h5, hv, he⟩
              · simp at h

theorem readAttrs_ok {n : Nat} {specs : List AttrSpec} {bs r : List Nat} {as : List (List Nat)}
    (hb : BytesOK bs) (h : readAttrs n specs bs = some (as, r)) : AttrsOK n specs as := by
  induction specs generalizing bs as r with
  | nil => simp [readAttrs] at h; obtain ⟨rfl, rfl⟩ := h; trivial
  | cons sp sps ih =>
    simp only [readAttrs] at h
    split at h
    · simp at h
    · rename_i vs r1 h1
      split at h
      · simp at h
      · rename_i vss r' h2
        simp only [Option.some.injEq, Prod.mk.injEq] at h
        obtain ⟨rfl, rfl⟩ := h
        obtain ⟨e1, hw⟩ := readWords_inv hb h1
        have hb1 : BytesOK r1 := by rw [e1] at hb; exact hb.append_right
        exact ⟨(readWords_length h1).2, hw, ih hb1 h2⟩

/-- Whatever the strict decoder returns from real bytes satisfies the encoder's guard. -/
theorem decodeSkel_ok {specs : List AttrSpec} {bs : List Nat} {sk : Skel} (hb : BytesOK bs)
    (h : decodeSkel specs bs = some sk) : sk.OK specs := by
  obtain ⟨n, r1, e, r2, vw, r3, ew, r4, h1, h2, h3, h4, h5, hv, he⟩ := decodeSkel_some h
  rw [readU32_eq_readWord] at h1 h2
  have i1 := readWord_inv hb h1
  have hb1 : BytesOK r1 := by rw [i1] at hb; exact hb.append_right
  have i2 := readWord_inv hb1 h2
  have hb2 : BytesOK r2 := by rw [i2] at hb1; exact hb1.append_right
  obtain ⟨i3, w3⟩ := readWords_inv hb2 h3
  have hb3 : BytesOK r3 := by rw [i3] at hb2; exact hb2.append_right
  obtain ⟨i4, w4⟩ := readWords_inv hb3 h4
  have hb4 : BytesOK r4 := by rw [i4] at hb3; exact hb3.append_right
  have lv := congrArg List.length (triples_inv hv)
  have le' := congrArg List.length (pairs_inv he)
  rw [flat3_length] at lv
  rw [flat2_length] at le'
  have a3 := (readWords_length h3).2
  have a4 := (readWords_length h4).2
  have hn : sk.verts.length = n := by omega
  have hee : sk.edges.length = e := by omega
  have bn : n < 2 ^ 32 := by
    obtain ⟨hl, _, rfl⟩ := readWord_length h1
    have hbt : BytesOK (bs.take 4) := fun x hx => hb x (List.mem_of_mem_take hx)
    have := fromLE_lt _ hbt
    have hl4 : (bs.take 4).length = 4 := by simp; omega
    rw [hl4] at this; simpa using this
  have be : e < 2 ^ 32 := by
    obtain ⟨hl, _, rfl⟩ := readWord_length h2
    have hbt : BytesOK (r1.take 4) := fun x hx => hb1 x (List.mem_of_mem_take hx)
    have := fromLE_lt _ hbt
    have hl4 : (r1.take 4).length = 4 := by simp; omega
    rw [hl4] at this; simpa using this
  refine ⟨by omega, by omega, ?_, ?_, ?_⟩
  · rw [← triples_inv hv]; simpa using w3
  · rw [← pairs_inv he]; simpa using w4
  · rw [hn]; exact readAttrs_ok hb4 h5

/-- **The reader that exists agrees with the independent decoder on every file the latter accepts.** -/
theorem navisReadSkel_of_decode {specs : List AttrSpec} {bs : List Nat} {sk : Skel}
    (hb : BytesOK bs) (h : decodeSkel specs bs = some sk) : navisReadSkel specs bs = some sk := by
  have := navisReadSkel_encode specs sk (decodeSkel_ok hb h) []
  rwa [List.append_nil, encodeSkel_decode hb h] at this

theorem navisReadSkel_short {specs : List AttrSpec} {bs : List Nat} (h : bs.length < 8) :
    navisReadSkel specs bs = none := by
  unfold navisReadSkel
  split
  · rfl
  · rename_i n r1 h1
    have := (readWord_length h1).1
    have : readWord 4 r1 = none := by unfold readWord; rw [if_pos (by omega)]
    rw [this]

/-- Destructuring a successful read of the (repaired) navis reader. -/
theorem navisReadSkel_some {specs : List AttrSpec} {bs : List Nat} {sk : Skel} (h : navisReadSkel specs bs = some sk) :
    ∃ n r1 e r2 vw r3 ew r4 r5, readWord 4 bs = some (n, r1) ∧ readWord 4 r1 = some (e, r2) ∧
      readWords 4 (3 * n) r2 = some (vw, r3) ∧ readWords 4 (2 * e) r3 = some (ew, r4) ∧
      readAttrs n specs r4 = some (sk.attrs, r5) ∧ triples vw = some sk.verts ∧ pairs ew = some sk.edges := by
  unfold navisReadSkel at h
  split at h
  · simp at h
  · rename_i n r1 h1
    split at h
    · simp at h
    · rename_i e r2 h2
      split at h
      · simp at h
      · rename_i vw r3 h3
        split at h
        · simp at h
        · rename_i vs hv
          split at h
          · simp at h
          · rename_i ew r4 h4
            split at h
            · simp at h
            · rename_i es he
              split at h
              · simp at h
              · rename_i as r5 h5
                simp only [Option.some.injEq] at h
                subst h
                exact ⟨n, r1, e, r2, vw, r3, ew, r4, r5, h1, h2, h3, h4, h5, hv, he⟩

/-- A successful read pins the header to the counts returned and needs at least the announced bytes. -/
theorem navisReadSkel_length {specs : List AttrSpec} {bs : List Nat} {sk : Skel}
    (h : navisReadSkel specs bs = some sk) :
    ∃ r1 r2, readU32 bs = some (sk.verts.length, r1) ∧ readU32 r1 = some (sk.edges.length, r2) ∧
      skelLen specs sk.verts.length sk.edges.length ≤ bs.length := by
  obtain ⟨n, r1, e, r2, vw, r3, ew, r4, r5, h1, h2, h3, h4, h5, hv, he⟩ := navisReadSkel_some h
  have lv := congrArg List.length (triples_inv hv)
  have le' := congrArg List.length (pairs_inv he)
  rw [flat3_length] at lv
  rw [flat2_length] at le'
  have a1 := (readWord_length h1).1
  have a2 := (readWord_length h2).1
  have a3 := readWords_length h3
  have a4 := readWords_length h4
  have a5 := readAttrs_length h5
  have hn : sk.verts.length = n := by omega
  have hee : sk.edges.length = e := by omega
  refine ⟨r1, r2, by rw [readU32_eq_readWord, h1, hn], by rw [readU32_eq_readWord, h2, hee], ?_⟩
  simp only [skelLen, hn, hee]; omega

/-- The reader accepts exactly well-formed files followed by arbitrary trailing bytes. -/
theorem navisReadSkel_inv {specs : List AttrSpec} {bs : List Nat} {sk : Skel} (hb : BytesOK bs)
    (h : navisReadSkel specs bs = some sk) : ∃ extra, bs = encodeSkel specs sk ++ extra := by
  obtain ⟨n, r1, e, r2, vw, r3, ew, r4, r5, h1, h2, h3, h4, h5, hv, he⟩ := navisReadSkel_some h
  have i1 := readWord_inv hb h1
  have hb1 : BytesOK r1 := by rw [i1] at hb; exact hb.append_right
  have i2 := readWord_inv hb1 h2
  have hb2 : BytesOK r2 := by rw [i2] at hb1; exact hb1.append_right
  obtain ⟨i3, _⟩ := readWords_inv hb2 h3
  have hb3 : BytesOK r3 := by rw [i3] at hb2; exact hb2.append_right
  obtain ⟨i4, _⟩ := readWords_inv hb3 h4
  have hb4 : BytesOK r4 := by rw [i4] at hb3; exact hb3.append_right
  have i5 := readAttrs_inv hb4 h5
  have lv := congrArg List.length (triples_inv hv)
  have le' := congrArg List.length (pairs_inv he)
  rw [flat3_length] at lv
  rw [flat2_length] at le'
  have a3 := (readWords_length h3).2
  have a4 := (readWords_length h4).2
  have hn : sk.verts.length = n := by omega
  have hee : sk.edges.length = e := by omega
  refine ⟨r5, ?_⟩
  simp only [encodeSkel, u32le, hn, hee]
  rw [← triples_inv hv, ← pairs_inv he]
  rw [i1, i2, i3, i4, i5]; simp

/-- **Every proper prefix of a well-formed skeleton file is rejected by navis' reader.** -/
theorem navisReadSkel_truncated (specs : List AttrSpec) (sk : Skel) (h : sk.OK specs) (k : Nat)
    (hk : k < (encodeSkel specs sk).length) : navisReadSkel specs ((encodeSkel specs sk).take k) = none := by
  by_cases h8 : k < 8
  · exact navisReadSkel_short (by simp; omega)
  · cases hd : navisReadSkel specs ((encodeSkel specs sk).take k) with
    | none => rfl
    | some sk' =>
      exfalso
      obtain ⟨r1, r2, g1, g2, g3⟩ := navisReadSkel_length hd
      have e1 : readU32 (encodeSkel specs sk) = some (sk.verts.length, _) := u32_round_trip' _ _ h.nverts
      have e2 := u32_round_trip' sk.edges.length
        (encWords 4 (flat3 sk.verts) ++ (encWords 4 (flat2 sk.edges) ++ encAttrs specs sk.attrs)) h.nedges
      have t1 := readU32_take e1 (k := k) (by omega)
      have t2 := readU32_take e2 (k := k - 4) (by omega)
      rw [t1] at g1
      simp only [Option.some.injEq, Prod.mk.injEq] at g1
      obtain ⟨hn, rfl⟩ := g1
      rw [t2] at g2
      simp only [Option.some.injEq, Prod.mk.injEq] at g2
      obtain ⟨he, _⟩ := g2
      rw [← hn, ← he, ← encodeSkel_length specs sk h] at g3
      simp at g3; omega

/-- what `availWords` returns when asked for at least everything that is left -/
theorem availWords_all {s k : Nat} {bs ws r : List Nat} (_hs : 0 < s) (hk : bs.length ≤ s * k)
    (h : availWords s k bs = some (ws, r)) : bs.length = s * ws.length := by
  unfold availWords at h
  rw [List.take_of_length_le hk] at h
  split at h
  · simp at h
  · rename_i hmod
    simp only [ne_eq, Decidable.not_not] at hmod
    split at h
    · simp at h
    · rename_i ws' r' hr
      simp only [Option.some.injEq, Prod.mk.injEq] at h
      obtain ⟨rfl, _⟩ := h
      have := (readWords_length hr).2
      rw [this]
      have := Nat.div_add_mod bs.length s
      rw [hmod] at this; omega

/-- A successful mesh read needs the complete vertex block and a whole number of triangles after it. -/
theorem navisReadMesh_length {bs : List Nat} {m : Mesh} (h : navisReadMesh bs = some m) :
    ∃ r1, readU32 bs = some (m.verts.length, r1) ∧ bs.length = 4 + 12 * m.verts.length + 12 * m.faces.length := by
  unfold navisReadMesh at h
  split at h
  · simp at h
  · rename_i n r1 h1
    split at h
    · simp at h
    · rename_i vw r2 h2
      split at h
      · simp at h
      · rename_i vs hv
        split at h
        · simp at h
        · rename_i fw r3 h3
          split at h
          · simp at h
          · rename_i fs hf
            simp only [Option.some.injEq] at h
            subst h
            have lv := congrArg List.length (triples_inv hv)
            have lf := congrArg List.length (triples_inv hf)
            rw [flat3_length] at lv lf
            have a1 := (readWord_length h1).1
            have a2 := readWords_length h2
            have a3 := availWords_all (by decide) (by omega) h3
            have hn : vs.length = n := by omega
            refine ⟨r1, by rw [readU32_eq_readWord, h1, hn], ?_⟩
            simp only; omega

/-- navis' mesh reader rejects every truncation inside the vertex block or off a triangle boundary. -/
theorem navisReadMesh_truncated (m : Mesh) (h : m.OK) (k : Nat) (hk : k < (encodeMesh m).length)
    (hmis : k < 4 + 12 * m.verts.length ∨ (k - 4) % 12 ≠ 0) : navisReadMesh ((encodeMesh m).take k) = none := by
  cases hd : navisReadMesh ((encodeMesh m).take k) with
  | none => rfl
  | some m' =>
    exfalso
    obtain ⟨r1, g1, g2⟩ := navisReadMesh_length hd
    have hl : ((encodeMesh m).take k).length = k := by simp; omega
    rw [hl] at g2
    by_cases h4 : k < 4
    · omega
    · have e1 : readU32 (encodeMesh m) = some (m.verts.length, _) := u32_round_trip' _ _ h.nverts
      have t1 := readU32_take e1 (k := k) (by omega)
      rw [t1] at g1
      simp only [Option.some.injEq, Prod.mk.injEq] at g1
      obtain ⟨hn, _⟩ := g1
      rw [← hn] at g2
      rcases hmis with hmis | hmis <;> omega

theorem toSkel_ok (t : List Row) (radius : Bool) (h : Writable t) : (toSkel t radius).OK (specsFor radius) := by
  have hlt := writeEdges_lt t h.table
  have hle := writeEdges_length_le t
  refine ⟨by simpa [toSkel] using h.size, ?_, ?_, ?_, ?_⟩
  · simp only [toSkel]; have := h.size; omega
  · intro w hw
    simp only [toSkel, flat3, List.mem_flatMap, List.mem_map] at hw
    obtain ⟨v, ⟨r, hr, rfl⟩, hw⟩ := hw
    have := h.coords r hr
    simp only [List.mem_cons, List.not_mem_nil, or_false] at hw
    rcases hw with rfl | rfl | rfl <;> simp [this]
  · intro w hw
    simp only [toSkel, flat2, List.mem_flatMap] at hw
    obtain ⟨e, he, hw⟩ := hw
    have := hlt e he
    have := h.size
    simp only [List.mem_cons, List.not_mem_nil, or_false] at hw
    rcases hw with rfl | rfl <;> omega
  · cases radius
    · simp [toSkel, specsFor, AttrsOK]
    · simp only [toSkel, specsFor, if_true, AttrsOK, radiusSpec, List.length_map, Nat.mul_one, List.mem_map,
        and_true, true_and]
      rintro v ⟨r, hr, rfl⟩
      have := h.radii r hr
      simpa using this

end Navis.Codec

namespace Navis.Policy

theorem readAll_nonraise {φ α} (e : Errors) (he : e ≠ .raise) (read : φ → Option α) (fs : List φ) :
    readAll e read fs = some (fs.map read) := by
  induction fs with
  | nil => rfl
  | cons f fs ih =>
    simp only [readAll, ih, List.map_cons]
    cases hr : read f <;> cases e <;> simp_all [wrapped, onError]

theorem readBatch_nonraise {φ α} (e : Errors) (he : e ≠ .raise) (read : φ → Option α) (fs : List φ) :
    readBatch e read fs = some (fs.filterMap read) := by
  simp [readBatch, readAll_nonraise e he, formatOutput, List.filterMap_map]

theorem readAll_raise {φ α} (read : φ → Option α) (fs : List φ) :
    readAll .raise read fs = if fs.all (fun f => (read f).isSome) then some (fs.map read) else none := by
  induction fs with
  | nil => rfl
  | cons f fs ih =>
    simp only [readAll, ih, List.map_cons, List.all_cons]
    cases hr : read f
    · simp [wrapped, onError]
    · simp only [wrapped, Option.isSome_some, Bool.true_and]
      split <;> simp_all

theorem readBatch_raise {φ α} (read : φ → Option α) (fs : List φ) :
    readBatch .raise read fs = if fs.all (fun f => (read f).isSome) then some (fs.filterMap read) else none := by
  simp only [readBatch, readAll_raise]
  split <;> simp [formatOutput, List.filterMap_map]

theorem readZipAll_eq {φ α} (e : Errors) (read : φ → Option α) (fs : List φ) :
    readZipAll e read fs = readAll e read fs := by
  induction fs with
  | nil => rfl
  | cons f fs ih =>
    simp only [readZipAll, readAll, ih]
    cases hr : read f <;> cases e <;> simp [wrapped, onError, zipMember] <;> split <;> simp_all

theorem readChunks_eq {φ α} (e : Errors) (read : φ → Option α) (cs : List (List φ)) :
    readChunks e read cs = readAll e read cs.flatten := by
  have happ : ∀ a b : List φ, readAll e read (a ++ b) =
      match readAll e read a with
      | none => none
      | some r => match readAll e read b with
        | none => none
        | some rs => some (r ++ rs) := by
    intro a b
    induction a with
    | nil => simp [readAll]; cases readAll e read b <;> rfl
    | cons x a ih =>
      simp only [List.cons_append, readAll, ih]
      cases wrapped e (read x) <;> simp
      cases readAll e read a <;> simp
      cases readAll e read b <;> simp
  induction cs with
  | nil => rfl
  | cons c cs ih =>
    simp only [readChunks, List.flatten_cons, happ, ih]
    cases readAll e read c <;> simp
    cases readAll e read cs.flatten <;> simp

end Navis.Policy
