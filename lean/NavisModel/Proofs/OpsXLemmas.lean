import NavisModel.Model.OpsX
import NavisModel.Proofs.OpsAllLemmas
import NavisModel.Proofs.ResampleSkipLemmas
import NavisModel.Proofs.HealRewireLemmas
import NavisModel.Proofs.WfB
/-!
Helper lemmas for the state language of C01 (`Model/OpsX.lean`) — core Lean only.

* the soma clean-ups establish `SomaOK` whatever was stored before; under `SomaOK` every id the getter
  reports is a node of the table;
* `applyX` preserves well-formedness and returns freshly classified tables.
-/
namespace Navis.Forest

/-! ### soma -/

theorem contains_ids_iff {t : Table} {i : Int} : (ids t).contains i = true ↔ i ∈ ids t := by
  simp

theorem SomaOK_filterSoma (t : Table) (s : Soma) : SomaOK t (filterSoma t s) := by
  cases s with
  | detect => trivial
  | none => trivial
  | one i =>
    show SomaOK t (if (ids t).contains i then Soma.one i else Soma.none)
    split <;> trivial
  | many l =>
    show SomaOK t (if (l.filter fun i => (ids t).contains i).isEmpty then Soma.none
      else Soma.many (l.filter fun i => (ids t).contains i))
    split
    · trivial
    · intro i hi
      have := (List.mem_filter.mp hi).2
      simpa using this

theorem SomaOK_stepSoma (s : St) (t' : Table) (nn : Int → Nat) (a : SomaAct) : SomaOK t' (stepSoma s t' nn a) := by
  cases a with
  | filter => exact SomaOK_filterSoma _ _
  | subset => exact SomaOK_filterSoma _ _
  | subsetIfShrunk =>
    show SomaOK t' (if t'.length < s.nodes.length then filterSoma t' (filterSomaSubset t' s.soma) else filterSoma t' s.soma)
    split <;> exact SomaOK_filterSoma _ _
  | pin => exact SomaOK_filterSoma _ _
  | fresh => trivial

/-- Under the invariant every id the getter reports exists. -/
theorem report_mem {s : St} (hok : SomaOK s.nodes s.soma) {l : List Int} (h : report s = some l) :
    ∀ i ∈ l, i ∈ ids s.nodes := by
  unfold report at h
  cases hs : s.soma with
  | detect =>
    rw [hs] at h
    simp only at h
    split at h
    · exact absurd h (by simp)
    · injection h with h
      subst h
      intro i hi
      exact (List.mem_filter.mp hi).1
  | none => rw [hs] at h; exact absurd h (by simp)
  | one j =>
    rw [hs] at h
    simp only at h
    split at h
    · rename_i hc
      injection h with h
      subst h
      intro i hi
      rw [List.mem_singleton.mp hi]
      exact contains_ids_iff.mp hc
    · exact absurd h (by simp)
  | many m =>
    rw [hs] at h hok
    simp only at h
    split at h
    · exact absurd h (by simp)
    · split at h
      · injection h with h
        subst h
        exact hok
      · exact absurd h (by simp)

theorem somaOKB_iff (t : Table) (l : List Int) : somaOKB t l = true ↔ ∀ i ∈ l, i ∈ ids t := by
  unfold somaOKB
  simp

theorem somaOKStoredB_iff (t : Table) (s : Soma) : somaOKStoredB t s = true ↔ SomaOK t s := by
  cases s <;> simp [somaOKStoredB, SomaOK]

/-- Without the invariant the getter can report an id that does not exist (why the clean-up matters). -/
theorem report_stale_example :
    report { nodes := [⟨1, -1, 0, 0, 0, .root⟩], soma := .many [1, 7] } = some [1, 7] := by decide

/-! ### construction from edges -/

theorem ids_isoTable (verts : List Int) : ids (isoTable verts) = verts := by
  simp [ids, isoTable, List.map_map, Function.comp_def]

theorem fromEdges_eq (verts : List Int) (E : List (Int × Int)) (roots : List Int) :
    fromEdges verts E roots =
      classify (Heal.reparent (isoTable verts)
        (Heal.traverse (Heal.inTable (isoTable verts) E) (isoTable verts).length
          (roots.filter (fun r => (ids (isoTable verts)).contains r) ++ ids (isoTable verts)))) := rfl

theorem WF_fromEdges {verts : List Int} (hv : WF (isoTable verts)) (E : List (Int × Int)) (roots : List Int) :
    WF (fromEdges verts E roots) := by
  rw [fromEdges_eq]
  have h := Heal.traverse_inv (E := Heal.inTable (isoTable verts) E) (V := ids (isoTable verts)) Heal.inTable_ends
    (fun k hk => ids_nonneg hv.2.1 hk)
    (roots.filter (fun r => (ids (isoTable verts)).contains r) ++ ids (isoTable verts)) (by
      intro r hr
      rcases List.mem_append.mp hr with h | h
      · have := (List.mem_filter.mp h).2
        simpa using this
      · exact h)
  rw [Heal.length_ids] at h
  exact WF_classify (Heal.WF_reparent hv h.1.ok)

theorem labelsOKB_fromEdges (verts : List Int) (E : List (Int × Int)) (roots : List Int) :
    labelsOKB (fromEdges verts E roots) = true := by
  rw [fromEdges_eq]; exact labelsOKB_classify _

/-- The rows are the vertices: nothing is added or lost. -/
theorem ids_fromEdges (verts : List Int) (E : List (Int × Int)) (roots : List Int) :
    ids (fromEdges verts E roots) = verts := by
  rw [fromEdges_eq, ids_classify, Heal.ids_reparent, ids_isoTable]

/-! ### `applyX` -/

def OpX.ok : OpX → Prop
  | .base op => op.ok
  | .fromEdges verts _ _ => WF (isoTable verts)
  | .setNodes t' => WF t'
  | _ => True

theorem OpX.okB_iff (op : OpX) : op.okB = true ↔ op.ok := by
  cases op with
  | base op => exact OpAll.okB_iff op
  | fromEdges verts E roots => exact wfB_iff _
  | setNodes t' => exact wfB_iff _
  | resampleSkip acts => simp [OpX.okB, OpX.ok]
  | touch => simp [OpX.okB, OpX.ok]

theorem WF_applyX (len : Int → Int → Nat) {t : Table} (hw : WF t) (op : OpX) (hok : op.ok) : WF (applyX len t op) := by
  cases op with
  | base op => exact WF_applyAll len hw op hok
  | resampleSkip acts => exact Resample.WF_resampleSkip hw _
  | fromEdges verts E roots => exact WF_fromEdges hok E roots
  | setNodes t' => exact WF_classify hok
  | touch => exact hw

/-- Operations of the second layer that re-classify unconditionally. -/
def OpX.fresh : OpX → Prop
  | .base op => op.alwaysFresh
  | .touch => False
  | _ => True

theorem labelsOKB_resampleSkip (t : Table) (act : List Int → Resample.SegAct) :
    labelsOKB (Resample.resampleSkip t act) = true := labelsOKB_classify _

theorem labels_applyX_fresh (len : Int → Int → Nat) (t : Table) (op : OpX) (h : op.fresh) :
    labelsOKB (applyX len t op) = true := by
  cases op with
  | base op => exact labels_applyAll_fresh len t op h
  | resampleSkip acts => exact labelsOKB_resampleSkip t _
  | fromEdges verts E roots => exact labelsOKB_fromEdges verts E roots
  | setNodes t' => exact labelsOKB_classify t'
  | touch => exact False.elim h

theorem labelsOK_applyX (len : Int → Int → Nat) {t : Table} (hw : WF t) (hl : labelsOKB t = true) (op : OpX) :
    labelsOKB (applyX len t op) = true := by
  cases op with
  | base op => exact labelsOK_applyAll len hw hl op
  | resampleSkip acts => exact labelsOKB_resampleSkip t _
  | fromEdges verts E roots => exact labelsOKB_fromEdges verts E roots
  | setNodes t' => exact labelsOKB_classify t'
  | touch => exact hl

/-! ### the state language -/

/-- What the property demands of a state. -/
structure GoodSt (s : St) : Prop where
  wf : WF s.nodes
  labels : labelsOKB s.nodes = true
  soma : SomaOK s.nodes s.soma

def OpS.ok : OpS → Prop
  | .tab op _ _ => op.ok
  | _ => True

theorem OpS.okB_iff (op : OpS) : op.okB = true ↔ op.ok := by
  cases op with
  | tab op nn th => exact OpX.okB_iff op
  | setSoma v => simp [OpS.okB, OpS.ok]
  | clearSoma => simp [OpS.okB, OpS.ok]

theorem GoodSt_stepS (len : Int → Int → Nat) {s : St} (h : GoodSt s) (op : OpS) (hok : op.ok) : GoodSt (stepS len s op) := by
  cases op with
  | tab op nn th =>
    exact ⟨WF_applyX len h.wf op hok, labelsOK_applyX len h.wf h.labels op, SomaOK_stepSoma s _ nn _⟩
  | setSoma v =>
    show GoodSt (if (ids s.nodes).contains v then { s with soma := .one v } else s)
    split
    · exact ⟨h.wf, h.labels, trivial⟩
    · exact h
  | clearSoma => exact ⟨h.wf, h.labels, trivial⟩

end Navis.Forest
