import NavisModel.Model.Swc
/-!
File-name patterns (`BaseReader.parse_filename`, model `matchSegs` / `searchSegs` / `matchFmt`): the backtracking matcher is
sound (what it returns is a decomposition of the file name along the pattern) and complete (it finds a decomposition whenever
one exists), hence the checker `fmtConsistentB` decides "the file name contains the pattern with the named placeholders
replaced by the extracted values".  Core Lean only.
-/
namespace Navis.Swc

theorem isPrefix_sound : ∀ (s cs : List Char), isPrefix s cs = true → cs = s ++ cs.drop s.length
  | [], cs, _ => by simp
  | _ :: _, [], h => by simp [isPrefix] at h
  | a :: s, b :: cs, h => by
    simp only [isPrefix, Bool.and_eq_true, beq_iff_eq] at h
    have := isPrefix_sound s cs h.2
    simp only [List.length_cons, List.drop_succ_cons, List.cons_append]
    rw [← this, h.1]

theorem isPrefix_complete : ∀ (s r : List Char), isPrefix s (s ++ r) = true
  | [], _ => rfl
  | a :: s, r => by simp [isPrefix, isPrefix_complete s r]

theorem groupCount_lit (s : List Char) (rest : List Seg) : groupCount (.lit s :: rest) = groupCount rest := by
  simp [groupCount, List.filter_cons]

theorem groupCount_grp (fs : List (String × Option String)) (rest : List Seg) :
    groupCount (.grp fs :: rest) = groupCount rest + 1 := by
  simp [groupCount, List.filter_cons]

/-- **Soundness of the matcher**: the groups it returns, filled into the pattern, give a prefix of the text. -/
theorem matchSegs_sound : ∀ (f : Nat) (segs : List Seg) (cs : List Char) (gs : List (List Char)),
    matchSegs f segs cs = some gs → gs.length = groupCount segs ∧ ∃ rest, cs = instSegs segs gs ++ rest := by
  intro f
  induction f with
  | zero => intro segs cs gs h; simp [matchSegs] at h
  | succ f ih =>
    intro segs cs gs h
    cases segs with
    | nil =>
      simp only [matchSegs, Option.some.injEq] at h
      subst h
      exact ⟨rfl, cs, rfl⟩
    | cons sg rest =>
      cases sg with
      | lit s =>
        simp only [matchSegs] at h
        split at h
        · rename_i hp
          obtain ⟨h1, r, h2⟩ := ih rest _ gs h
          refine ⟨by rw [groupCount_lit]; exact h1, r, ?_⟩
          have := isPrefix_sound s cs hp
          rw [this, h2]
          simp [instSegs]
        · simp at h
      | grp fs =>
        simp only [matchSegs] at h
        obtain ⟨k, _, hk⟩ := List.exists_of_findSome?_eq_some h
        obtain ⟨gs', hg, rfl⟩ := Option.map_eq_some_iff.mp hk
        obtain ⟨h1, r, h2⟩ := ih rest _ gs' hg
        refine ⟨by rw [groupCount_grp]; simp [h1], r, ?_⟩
        have := (List.take_append_drop k cs).symm
        rw [h2] at this
        simp only [instSegs, List.append_assoc]
        exact this

/-- **Completeness of the matcher**: whenever the text starts with some filling of the pattern, a match is found. -/
theorem matchSegs_complete : ∀ (segs : List Seg) (f : Nat) (cs : List Char), segs.length < f →
    (∃ gs rest, gs.length = groupCount segs ∧ cs = instSegs segs gs ++ rest) → (matchSegs f segs cs).isSome = true := by
  intro segs
  induction segs with
  | nil =>
    intro f cs hf _
    cases f with
    | zero => omega
    | succ f => rfl
  | cons sg rest ih =>
    intro f cs hf ⟨gs, r, hl, hc⟩
    cases f with
    | zero => omega
    | succ f =>
      have hf' : rest.length < f := by simp at hf; omega
      cases sg with
      | lit s =>
        rw [groupCount_lit] at hl
        simp only [instSegs, List.append_assoc] at hc
        simp only [matchSegs]
        rw [hc, isPrefix_complete, if_pos rfl, List.drop_left]
        exact ih f _ hf' ⟨gs, r, hl, rfl⟩
      | grp fs =>
        rw [groupCount_grp] at hl
        cases gs with
        | nil => simp at hl
        | cons g gs' =>
          simp only [instSegs, List.append_assoc] at hc
          simp only [matchSegs]
          rw [List.findSome?_isSome_iff]
          refine ⟨g.length, ?_, ?_⟩
          · rw [List.mem_reverse, List.mem_range, hc]; simp; omega
          · rw [Option.isSome_map, hc, List.drop_left]
            exact ih f _ hf' ⟨gs', r, by simpa using hl, rfl⟩

theorem searchSegs_sound (segs : List Seg) (cs : List Char) (gs : List (List Char)) (h : searchSegs segs cs = some gs) :
    gs.length = groupCount segs ∧ ∃ pre rest, cs = pre ++ instSegs segs gs ++ rest := by
  unfold searchSegs at h
  obtain ⟨k, _, hk⟩ := List.exists_of_findSome?_eq_some h
  obtain ⟨h1, r, h2⟩ := matchSegs_sound _ _ _ _ hk
  refine ⟨h1, cs.take k, r, ?_⟩
  have := (List.take_append_drop k cs).symm
  rw [h2] at this
  simpa [List.append_assoc] using this

theorem searchSegs_complete (segs : List Seg) (cs : List Char)
    (h : ∃ gs pre rest, gs.length = groupCount segs ∧ cs = pre ++ instSegs segs gs ++ rest) :
    (searchSegs segs cs).isSome = true := by
  obtain ⟨gs, pre, r, hl, hc⟩ := h
  unfold searchSegs
  rw [List.findSome?_isSome_iff]
  refine ⟨pre.length, ?_, ?_⟩
  · rw [List.mem_range, hc]; simp; omega
  · rw [hc, List.append_assoc, List.drop_left]
    exact matchSegs_complete segs _ _ (by omega) ⟨gs, r, hl, rfl⟩

end Navis.Swc
