import NavisModel.Model.Smart
import NavisModel.Proofs.PartitionLemmas
/-! Helper lemmas for the smart-NBLAST part of C09 (core Lean only). -/
namespace Navis.Smart
open Navis.Partition

/-! ### congruence / window lemmas on `range` -/

theorem flatMap_congr' {α β} {l : List α} {f g : α → List β} (h : ∀ x ∈ l, f x = g x) :
    l.flatMap f = l.flatMap g := by
  induction l with
  | nil => rfl
  | cons a l ih =>
    simp only [List.flatMap_cons]
    rw [h a (by simp), ih (fun x hx => h x (by simp [hx]))]

theorem filterMap_congr' {α β} {l : List α} {f g : α → Option β} (h : ∀ x ∈ l, f x = g x) :
    l.filterMap f = l.filterMap g := by
  induction l with
  | nil => rfl
  | cons a l ih =>
    simp only [List.filterMap_cons]
    rw [h a (by simp), ih (fun x hx => h x (by simp [hx]))]

theorem range_window (n s k : Nat) (h : s + k ≤ n) :
    List.range n = List.range' 0 s ++ (List.range' s k ++ List.range' (s + k) (n - (s + k))) := by
  rw [List.range_eq_range']
  have h1 := List.range'_append (s := s) (m := k) (n := n - (s + k)) (step := 1)
  have h2 := List.range'_append (s := 0) (m := s) (n := k + (n - (s + k))) (step := 1)
  simp only [Nat.one_mul, Nat.zero_add] at h1 h2
  rw [h1, h2]
  congr 1; omega

/-- Only a window `[s, s+k)` of `range n` contributes. -/
theorem filterMap_range_window {β} (p : Nat → Option β) (n s k : Nat) (h : s + k ≤ n)
    (hout : ∀ x, x < n → ¬ (s ≤ x ∧ x < s + k) → p x = none) :
    (List.range n).filterMap p = (List.range k).filterMap fun b => p (s + b) := by
  rw [range_window n s k h, List.filterMap_append, List.filterMap_append]
  have e1 : (List.range' 0 s).filterMap p = [] := by
    rw [List.filterMap_eq_nil_iff]; intro x hx
    rw [List.mem_range'_1] at hx
    exact hout x (by omega) (by omega)
  have e3 : (List.range' (s + k) (n - (s + k))).filterMap p = [] := by
    rw [List.filterMap_eq_nil_iff]; intro x hx
    rw [List.mem_range'_1] at hx
    exact hout x (by omega) (by omega)
  rw [e1, e3, List.nil_append, List.append_nil, List.range'_eq_map_range, List.filterMap_map]
  rfl

theorem flatMap_range_window {β} (p : Nat → List β) (n s k : Nat) (h : s + k ≤ n)
    (hout : ∀ x, x < n → ¬ (s ≤ x ∧ x < s + k) → p x = []) :
    (List.range n).flatMap p = (List.range k).flatMap fun a => p (s + a) := by
  rw [range_window n s k h, List.flatMap_append, List.flatMap_append]
  have e1 : (List.range' 0 s).flatMap p = [] := by
    rw [List.flatMap_eq_nil_iff]; intro x hx
    rw [List.mem_range'_1] at hx
    exact hout x (by omega) (by omega)
  have e3 : (List.range' (s + k) (n - (s + k))).flatMap p = [] := by
    rw [List.flatMap_eq_nil_iff]; intro x hx
    rw [List.mem_range'_1] at hx
    exact hout x (by omega) (by omega)
  rw [e1, e3, List.nil_append, List.append_nil, List.range'_eq_map_range, List.flatMap_map]

/-! ### A contiguous job -/

/-- The job whose queries are `[q0, q0+sq)` and targets `[t0, t0+st)`. -/
def blockJob (q0 sq t0 st : Nat) : Job := ⟨List.range' q0 sq, List.range' t0 st⟩

theorem submask_getD (mask : Nat → Nat → Bool) (q0 sq t0 st a : Nat) (ha : a < sq) :
    (submask mask (blockJob q0 sq t0 st)).getD a [] = (List.range' t0 st).map fun c => mask (q0 + a) c := by
  unfold submask blockJob
  rw [List.getD_eq_getElem?_getD, List.getElem?_map, List.getElem?_range' ha]
  simp

theorem submask_getD_getD (mask : Nat → Nat → Bool) (q0 sq t0 st a b : Nat) (ha : a < sq) (hb : b < st) :
    ((submask mask (blockJob q0 sq t0 st)).getD a []).getD b false = mask (q0 + a) (t0 + b) := by
  rw [submask_getD mask q0 sq t0 st a ha, List.getD_eq_getElem?_getD, List.getElem?_map,
    List.getElem?_range' hb]
  simp

theorem submask_length (mask : Nat → Nat → Bool) (q0 sq t0 st : Nat) :
    (submask mask (blockJob q0 sq t0 st)).length = sq := by
  simp [submask, blockJob]

/-- `np.where(submask)` in local coordinates. -/
theorem whereRM_block (mask : Nat → Nat → Bool) (q0 sq t0 st : Nat) :
    whereRM (submask mask (blockJob q0 sq t0 st)) =
      (List.range sq).flatMap fun a => (List.range st).filterMap fun b =>
        if mask (q0 + a) (t0 + b) then some (a, b) else none := by
  unfold whereRM
  rw [submask_length]
  apply flatMap_congr'
  intro a ha
  rw [List.mem_range] at ha
  have hlen : ((submask mask (blockJob q0 sq t0 st)).getD a []).length = st := by
    rw [submask_getD mask q0 sq t0 st a ha]; simp
  rw [hlen]
  apply filterMap_congr'
  intro b hb
  rw [List.mem_range] at hb
  rw [submask_getD_getD mask q0 sq t0 st a b ha hb]

theorem mem_whereRM_block {mask : Nat → Nat → Bool} {q0 sq t0 st a b : Nat}
    (h : (a, b) ∈ whereRM (submask mask (blockJob q0 sq t0 st))) : a < sq ∧ b < st := by
  rw [whereRM_block, List.mem_flatMap] at h
  obtain ⟨a', ha', h⟩ := h
  rw [List.mem_filterMap] at h
  obtain ⟨b', hb', h⟩ := h
  rw [List.mem_range] at ha' hb'
  split at h
  · simp only [Option.some.injEq, Prod.mk.injEq] at h
    omega
  · simp at h

/-- The job's own mask: its block of the global mask, `False` elsewhere. -/
theorem jobMask_block (mask : Nat → Nat → Bool) (q0 sq t0 st : Nat) (hsq : 0 < sq) (hst : 0 < st) :
    ∃ jm, jobMask mask (blockJob q0 sq t0 st) = some jm ∧
      ∀ r c, jm r c = (decide (q0 ≤ r ∧ r < q0 + sq ∧ t0 ≤ c ∧ c < t0 + st) && mask r c) := by
  unfold jobMask
  have hq0 : (blockJob q0 sq t0 st).qix.head? = some q0 := by
    simp only [blockJob, List.head?_range']; rw [if_neg (by omega)]
  have hq1 : (blockJob q0 sq t0 st).qix.getLast?.map (· + 1) = some (q0 + sq) := by
    simp only [blockJob, List.getLast?_range']; rw [if_neg (by omega)]
    simp only [Option.map_some, Option.some.injEq]; omega
  have ht0 : (blockJob q0 sq t0 st).tix.head? = some t0 := by
    simp only [blockJob, List.head?_range']; rw [if_neg (by omega)]
  have ht1 : (blockJob q0 sq t0 st).tix.getLast?.map (· + 1) = some (t0 + st) := by
    simp only [blockJob, List.getLast?_range']; rw [if_neg (by omega)]
    simp only [Option.map_some, Option.some.injEq]; omega
  rw [hq0, hq1, ht0, ht1]
  unfold jobMaskWith
  have hlen : q0 + sq - q0 = (blockJob q0 sq t0 st).qix.length ∧
      t0 + st - t0 = (blockJob q0 sq t0 st).tix.length := by
    simp only [blockJob, List.length_range']; omega
  simp only [hlen, and_self, if_true]
  refine ⟨_, rfl, ?_⟩
  intro r c
  by_cases h : q0 ≤ r ∧ r < q0 + sq ∧ t0 ≤ c ∧ c < t0 + st
  · rw [if_pos h]
    have := submask_getD_getD mask q0 sq t0 st (r - q0) (c - t0) (by omega) (by omega)
    rw [this]
    have e1 : q0 + (r - q0) = r := by omega
    have e2 : t0 + (c - t0) = c := by omega
    rw [e1, e2]
    simp [h]
  · rw [if_neg h]
    simp [h]

/-- Row-major order of the job's mask inside the big matrix = row-major order of `np.where(submask)`,
shifted to global coordinates.  This is the fact that lets `scr[this.mask] = res` work. -/
theorem maskCells_block (mask : Nat → Nat → Bool) (nq nt q0 sq t0 st : Nat)
    (hq : q0 + sq ≤ nq) (ht : t0 + st ≤ nt) (jm : Nat → Nat → Bool)
    (hjm : ∀ r c, jm r c = (decide (q0 ≤ r ∧ r < q0 + sq ∧ t0 ≤ c ∧ c < t0 + st) && mask r c)) :
    maskCells nq nt jm =
      (whereRM (submask mask (blockJob q0 sq t0 st))).map fun ab => (q0 + ab.1, t0 + ab.2) := by
  unfold maskCells
  rw [whereRM_block, List.map_flatMap]
  rw [flatMap_range_window _ nq q0 sq hq]
  · apply flatMap_congr'
    intro a ha
    rw [List.mem_range] at ha
    rw [List.map_filterMap, filterMap_range_window _ nt t0 st ht]
    · apply filterMap_congr'
      intro b hb
      rw [List.mem_range] at hb
      rw [hjm]
      have : decide (q0 ≤ q0 + a ∧ q0 + a < q0 + sq ∧ t0 ≤ t0 + b ∧ t0 + b < t0 + st) = true := by
        simp; omega
      rw [this, Bool.true_and]
      split <;> simp
    · intro c _ hc
      rw [hjm]
      have : decide (q0 ≤ q0 + a ∧ q0 + a < q0 + sq ∧ t0 ≤ c ∧ c < t0 + st) = false := by
        simp; omega
      rw [this]; simp
  · intro r _ hr
    rw [List.filterMap_eq_nil_iff]
    intro c _
    rw [hjm]
    have : decide (q0 ≤ r ∧ r < q0 + sq ∧ t0 ≤ c ∧ c < t0 + st) = false := by
      simp; omega
    rw [this]; simp

/-- The values a job returns, listed against the global cells they belong to. -/
theorem jobScores_block {α} (g : Nat → Nat → α) (mask : Nat → Nat → Bool) (q0 sq t0 st : Nat) :
    jobScores g mask (blockJob q0 sq t0 st) =
      (whereRM (submask mask (blockJob q0 sq t0 st))).map fun ab => g (q0 + ab.1) (t0 + ab.2) := by
  unfold jobScores pairs
  rw [List.map_map]
  apply List.map_congr_left
  rintro ⟨a, b⟩ hab
  obtain ⟨ha, hb⟩ := mem_whereRM_block hab
  simp only [Function.comp, localList, blockJob, List.length_range']
  rw [List.getD_eq_getElem?_getD, List.getD_eq_getElem?_getD,
    List.getElem?_append_left (by simpa using ha), List.getElem?_append_right (by simp),
    List.getElem?_range' ha]
  simp only [List.length_range', Nat.add_sub_cancel]
  rw [List.getElem?_range' hb]
  simp

/-! ### Boolean-mask assignment -/

theorem mem_maskCells {nq nt : Nat} {m : Nat → Nat → Bool} {r c : Nat} :
    (r, c) ∈ maskCells nq nt m ↔ r < nq ∧ c < nt ∧ m r c = true := by
  unfold maskCells
  rw [List.mem_flatMap]
  constructor
  · rintro ⟨r', hr', h⟩
    rw [List.mem_filterMap] at h
    obtain ⟨c', hc', h⟩ := h
    rw [List.mem_range] at hr' hc'
    split at h
    · rename_i hm
      simp only [Option.some.injEq, Prod.mk.injEq] at h
      obtain ⟨rfl, rfl⟩ := h
      exact ⟨hr', hc', hm⟩
    · simp at h
  · rintro ⟨hr, hc, hm⟩
    refine ⟨r, List.mem_range.mpr hr, ?_⟩
    rw [List.mem_filterMap]
    exact ⟨c, List.mem_range.mpr hc, by simp [hm]⟩

theorem foldl_set_cells {α} (v : Nat × Nat → α) (l : List (Nat × Nat)) (s : Mat α) (r c : Nat) :
    ((l.map fun x => (x, v x)).foldl
        (fun (s : Mat α) cv => fun r c => if (r, c) = cv.1 then some cv.2 else s r c) s) r c =
      if (r, c) ∈ l then some (v (r, c)) else s r c := by
  induction l generalizing s with
  | nil => simp
  | cons x xs ih =>
    simp only [List.map_cons, List.foldl_cons]
    rw [ih]
    by_cases hx : (r, c) ∈ xs
    · rw [if_pos hx, if_pos (by simp [hx])]
    · rw [if_neg hx]
      by_cases hrx : (r, c) = x
      · rw [if_pos hrx, if_pos (by simp [hrx]), hrx]
      · rw [if_neg hrx, if_neg (by simp [hrx, hx])]

/-- `scr[m] = vals` when `vals` lists `v` over the selected cells in row-major order. -/
theorem placeMask_spec {α} (scr : Mat α) (nq nt : Nat) (m : Nat → Nat → Bool) (v : Nat × Nat → α)
    (vals : List α) (hv : vals = (maskCells nq nt m).map v) (r c : Nat) :
    placeMask scr nq nt m vals r c = if r < nq ∧ c < nt ∧ m r c = true then some (v (r, c)) else scr r c := by
  unfold placeMask
  have hz : (maskCells nq nt m).zip vals = (maskCells nq nt m).map fun x => (x, v x) := by
    rw [hv]
    have := List.zip_map' (f := id) (g := v) (l := maskCells nq nt m)
    rw [List.map_id] at this
    simpa using this
  rw [hz, foldl_set_cells]
  by_cases h : r < nq ∧ c < nt ∧ m r c = true
  · rw [if_pos (mem_maskCells.mpr h), if_pos h]
  · rw [if_neg (fun hm => h (mem_maskCells.mp hm)), if_neg h]

/-- One finished contiguous job refines exactly the selected cells of its own block. -/
theorem placeJob_block {α} (g : Nat → Nat → α) (mask : Nat → Nat → Bool) (nq nt q0 sq t0 st : Nat)
    (hsq : 0 < sq) (hst : 0 < st) (hq : q0 + sq ≤ nq) (ht : t0 + st ≤ nt) (scr : Mat α) :
    ∃ s', placeJob g mask nq nt scr (blockJob q0 sq t0 st) = some s' ∧
      ∀ r c, s' r c =
        if (q0 ≤ r ∧ r < q0 + sq ∧ t0 ≤ c ∧ c < t0 + st) ∧ mask r c = true then some (g r c) else scr r c := by
  obtain ⟨jm, hjm, hspec⟩ := jobMask_block mask q0 sq t0 st hsq hst
  unfold placeJob
  rw [hjm]
  refine ⟨_, rfl, ?_⟩
  intro r c
  show placeMask scr nq nt jm (jobScores g mask (blockJob q0 sq t0 st)) r c = _
  have hvals : jobScores g mask (blockJob q0 sq t0 st) =
      (maskCells nq nt jm).map fun x => g x.1 x.2 := by
    rw [jobScores_block, maskCells_block mask nq nt q0 sq t0 st hq ht jm hspec, List.map_map]
    rfl
  rw [placeMask_spec scr nq nt jm (fun x => g x.1 x.2) _ hvals]
  rw [hspec]
  by_cases h : (q0 ≤ r ∧ r < q0 + sq ∧ t0 ≤ c ∧ c < t0 + st) ∧ mask r c = true
  · rw [if_pos h, if_pos]
    refine ⟨by omega, by omega, ?_⟩
    simp [h.1, h.2]
  · rw [if_neg h, if_neg]
    rintro ⟨_, _, hm⟩
    simp only [Bool.and_eq_true, decide_eq_true_eq] at hm
    exact h hm

/-! ### Jobs of the grid are contiguous blocks -/

theorem chunk_eq_block (n k i : Nat) : chunk n k i = List.range' (chunkStart n k i) (chunkSize n k i) := rfl

theorem chunkSize_pos (n k i : Nat) (hk : 0 < k) (hkn : k ≤ n) : 0 < chunkSize n k i := by
  unfold chunkSize
  have : 0 < n / k := Nat.div_pos hkn hk
  omega

theorem chunk_end_le (n k i : Nat) (hk : 0 < k) (hi : i < k) : chunkStart n k i + chunkSize n k i ≤ n := by
  rw [← chunkStart_succ]
  have := chunkStart_mono n k (show i + 1 ≤ k by omega)
  rwa [chunkStart_k n k hk] at this

/-- Refining with any list of jobs of the grid, in any order. -/
theorem refine_fold {α} (g : Nat → Nat → α) (mask : Nat → Nat → Bool) (nq nt rows cols : Nat)
    (hr : 0 < rows) (hrq : rows ≤ nq) (hc : 0 < cols) (hct : cols ≤ nt)
    (done : List Job) (hdone : ∀ j ∈ done, j ∈ jobs nq nt rows cols) (scr : Mat α) :
    ∃ s', done.foldl (fun s j => s.bind fun s => placeJob g mask nq nt s j) (some scr) = some s' ∧
      ∀ r c, s' r c =
        if (∃ j ∈ done, r ∈ j.qix ∧ c ∈ j.tix) ∧ mask r c = true then some (g r c) else scr r c := by
  induction done generalizing scr with
  | nil => exact ⟨scr, rfl, by simp⟩
  | cons d ds ih =>
    obtain ⟨a, ha, b, hb, rfl⟩ := mem_jobs.mp (hdone d (by simp))
    obtain ⟨s1, hs1, hspec1⟩ := placeJob_block g mask nq nt (chunkStart nq rows a) (chunkSize nq rows a)
      (chunkStart nt cols b) (chunkSize nt cols b) (chunkSize_pos nq rows a hr hrq)
      (chunkSize_pos nt cols b hc hct) (chunk_end_le nq rows a hr ha) (chunk_end_le nt cols b hc hb) scr
    obtain ⟨s2, hs2, hspec2⟩ := ih (fun j hj => hdone j (by simp [hj])) s1
    refine ⟨s2, ?_, ?_⟩
    · simp only [List.foldl_cons, Option.bind_some]
      have : placeJob g mask nq nt scr ⟨chunk nq rows a, chunk nt cols b⟩ = some s1 := hs1
      rw [this]; exact hs2
    · intro r c
      rw [hspec2, hspec1]
      have hmemd : (r ∈ chunk nq rows a ∧ c ∈ chunk nt cols b) ↔
          (chunkStart nq rows a ≤ r ∧ r < chunkStart nq rows a + chunkSize nq rows a ∧
           chunkStart nt cols b ≤ c ∧ c < chunkStart nt cols b + chunkSize nt cols b) := by
        rw [chunk_eq_block, chunk_eq_block, List.mem_range'_1, List.mem_range'_1]
        constructor <;> (intro h; omega)
      by_cases hm : mask r c = true
      · by_cases hx : ∃ j ∈ ds, r ∈ j.qix ∧ c ∈ j.tix
        · rw [if_pos ⟨hx, hm⟩, if_pos]
          obtain ⟨j, hj, h⟩ := hx
          exact ⟨⟨j, by simp [hj], h⟩, hm⟩
        · rw [if_neg (fun h => hx h.1)]
          by_cases hd : r ∈ chunk nq rows a ∧ c ∈ chunk nt cols b
          · rw [if_pos ⟨hmemd.mp hd, hm⟩, if_pos]
            exact ⟨⟨⟨chunk nq rows a, chunk nt cols b⟩, by simp, hd⟩, hm⟩
          · rw [if_neg (fun h => hd (hmemd.mpr h.1)), if_neg]
            rintro ⟨⟨j, hj, h⟩, _⟩
            rw [List.mem_cons] at hj
            rcases hj with rfl | hj
            · exact hd h
            · exact hx ⟨j, hj, h⟩
      · rw [if_neg (fun h => hm h.2), if_neg (fun h => hm h.2), if_neg (fun h => hm h.2)]

end Navis.Smart
