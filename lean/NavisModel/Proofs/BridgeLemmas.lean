import NavisModel.Model.Bridge
import NavisModel.Proofs.AffineLemmas
/-! Helper lemmas for C08: group laws, telescoping along edge chains, the bridging graph, the
choice among parallel edges, the `via` / `avoid` logic, the simple-path enumerator, the
`TransformSequence` row semantics and the cache state machine.  Core Lean only (the Mathlib tactics
come in through `AffineLemmas` and are used for the affine instance at the end). -/
namespace Navis.Bridge

/-! ## Group facts derived from the `TGroup` laws -/
section Group
variable {τ : Type} (g : TGroup τ)

theorem TGroup.inv_unique {a b : τ} (h : g.mul a b = g.one) : b = g.inv a := by
  calc b = g.mul g.one b := (g.one_mul b).symm
    _ = g.mul (g.mul (g.inv a) a) b := by rw [g.inv_mul]
    _ = g.mul (g.inv a) (g.mul a b) := g.mul_assoc _ _ _
    _ = g.mul (g.inv a) g.one := by rw [h]
    _ = g.inv a := g.mul_one _

theorem TGroup.inv_inv (a : τ) : g.inv (g.inv a) = a :=
  (g.inv_unique (g.inv_mul a)).symm

theorem TGroup.inv_mul_rev (a b : τ) : g.inv (g.mul a b) = g.mul (g.inv b) (g.inv a) := by
  symm
  apply g.inv_unique
  calc g.mul (g.mul a b) (g.mul (g.inv b) (g.inv a))
      = g.mul a (g.mul b (g.mul (g.inv b) (g.inv a))) := g.mul_assoc _ _ _
    _ = g.mul a (g.mul (g.mul b (g.inv b)) (g.inv a)) := by rw [g.mul_assoc b]
    _ = g.mul a (g.inv a) := by rw [g.mul_inv, g.one_mul]
    _ = g.one := g.mul_inv a

theorem TGroup.inv_one : g.inv g.one = g.one :=
  (g.inv_unique (g.one_mul g.one)).symm

theorem foldl_mul (a : τ) (ts : List τ) : ts.foldl g.mul a = g.mul a (prod g ts) := by
  induction ts generalizing a with
  | nil => simp [prod, g.mul_one]
  | cons t ts ih =>
    simp only [prod, List.foldl_cons]
    rw [ih (g.mul a t), ih (g.mul g.one t), g.one_mul, g.mul_assoc]

theorem prod_nil : prod g ([] : List τ) = g.one := rfl

theorem prod_cons (t : τ) (ts : List τ) : prod g (t :: ts) = g.mul t (prod g ts) := by
  show (t :: ts).foldl g.mul g.one = g.mul t (prod g ts)
  rw [List.foldl_cons, foldl_mul, g.one_mul]

theorem prod_append (ts us : List τ) : prod g (ts ++ us) = g.mul (prod g ts) (prod g us) := by
  induction ts with
  | nil => simp [prod_nil, g.one_mul]
  | cons t ts ih => rw [List.cons_append, prod_cons, prod_cons, ih, g.mul_assoc]

/-- `-seq` composes to the inverse of `seq`. -/
theorem prod_negSeq (ts : List τ) : prod g (negSeq g.inv ts) = g.inv (prod g ts) := by
  induction ts with
  | nil => simp [negSeq, prod_nil, g.inv_one]
  | cons t ts ih =>
    have : negSeq g.inv (t :: ts) = negSeq g.inv ts ++ [g.inv t] := by simp [negSeq]
    rw [this, prod_append, ih, prod_cons, prod_cons, prod_nil, g.mul_one, g.inv_mul_rev]

end Group

/-! ## The bridging graph -/
section Graph
variable {τ : Type}

theorem mem_bridges {regs : List (Reg τ)} {r : Reg τ} {i : Nat} (h : (r, i) ∈ bridges regs) :
    regs[i]? = some r ∧ r.kind = Kind.bridging := by
  simp only [bridges, List.mem_filter, beq_iff_eq] at h
  obtain ⟨hm, hk⟩ := h
  have := List.mem_zipIdx hm
  refine ⟨?_, hk⟩
  obtain ⟨_, h2, h3⟩ := this
  simp only [Nat.zero_add, Nat.sub_zero] at h2 h3
  rw [List.getElem?_eq_getElem h2, h3]

/-- Where the edges of the bridging graph come from. -/
theorem mem_bridgingGraph {neg : τ → τ} {regs : List (Reg τ)} {recip : Option Rat} {e : GEdge τ}
    (h : e ∈ bridgingGraph neg regs recip) :
    ∃ r, regs[e.ridx]? = some r ∧ r.kind = Kind.bridging ∧
      ((e.inverted = false ∧ e.u = r.src ∧ e.v = r.tgt ∧ e.xf = r.xf ∧ e.weight = r.weight) ∨
       (e.inverted = true ∧ r.invertible = true ∧ e.u = r.tgt ∧ e.v = r.src ∧ e.xf = neg r.xf ∧
          ∃ k, recip = some k ∧ k ≠ 0 ∧ e.weight = r.weight * k)) := by
  simp only [bridgingGraph, List.mem_append] at h
  rcases h with h | h
  · simp only [fwdEdges, List.mem_map] at h
    obtain ⟨⟨r, i⟩, hm, rfl⟩ := h
    obtain ⟨h1, h2⟩ := mem_bridges hm
    exact ⟨r, h1, h2, Or.inl ⟨rfl, rfl, rfl, rfl, rfl⟩⟩
  · cases recip with
    | none => simp at h
    | some k =>
      simp only at h
      split at h
      · simp at h
      · rename_i hk
        simp only [revEdges, List.mem_map, List.mem_filter] at h
        obtain ⟨⟨r, i⟩, ⟨hm, hinv⟩, rfl⟩ := h
        obtain ⟨h1, h2⟩ := mem_bridges hm
        exact ⟨r, h1, h2, Or.inr ⟨rfl, hinv, rfl, rfl, rfl, k, rfl, hk, rfl⟩⟩

theorem mem_bridges_of {regs : List (Reg τ)} {r : Reg τ} {i : Nat} (h : regs[i]? = some r)
    (hk : r.kind = Kind.bridging) : (r, i) ∈ bridges regs := by
  simp only [bridges, List.mem_filter, beq_iff_eq]
  refine ⟨?_, hk⟩
  rw [List.mem_iff_getElem?]
  refine ⟨i, ?_⟩
  simp [List.getElem?_zipIdx, h]

/-- Every bridging registration yields its forward edge … -/
theorem fwd_mem_bridgingGraph (neg : τ → τ) {regs : List (Reg τ)} (recip : Option Rat) {r : Reg τ}
    {i : Nat} (h : regs[i]? = some r) (hk : r.kind = Kind.bridging) :
    (⟨r.src, r.tgt, r.xf, r.weight, i, false⟩ : GEdge τ) ∈ bridgingGraph neg regs recip := by
  simp only [bridgingGraph, List.mem_append]
  left
  simp only [fwdEdges, List.mem_map]
  exact ⟨(r, i), mem_bridges_of h hk, rfl⟩

/-- … and, when `reciprocal` is on, every invertible one its reverse edge with `-transform`. -/
theorem rev_mem_bridgingGraph (neg : τ → τ) {regs : List (Reg τ)} {k : Rat} (hk0 : k ≠ 0) {r : Reg τ}
    {i : Nat} (h : regs[i]? = some r) (hk : r.kind = Kind.bridging) (hi : r.invertible = true) :
    (⟨r.tgt, r.src, neg r.xf, r.weight * k, i, true⟩ : GEdge τ) ∈ bridgingGraph neg regs (some k) := by
  simp only [bridgingGraph, List.mem_append]
  right
  rw [if_neg hk0]
  simp only [revEdges, List.mem_map, List.mem_filter]
  exact ⟨(r, i), ⟨mem_bridges_of h hk, hi⟩, rfl⟩

/-- Forward-only registrations never produce a reverse edge; with `reciprocal` off nothing does. -/
theorem inverted_edge_needs_invertible {neg : τ → τ} {regs : List (Reg τ)} {recip : Option Rat}
    {e : GEdge τ} (h : e ∈ bridgingGraph neg regs recip) (hi : e.inverted = true) :
    ∃ r, regs[e.ridx]? = some r ∧ r.invertible = true ∧ ∃ k, recip = some k ∧ k ≠ 0 := by
  obtain ⟨r, h1, _, h3 | h3⟩ := mem_bridgingGraph h
  · rw [h3.1] at hi; cases hi
  · exact ⟨r, h1, h3.2.1, h3.2.2.2.2.2.imp fun k hk => ⟨hk.1, hk.2.1⟩⟩

end Graph

/-! ## Telescoping along chains of edges -/
section Telescoping
variable {τ : Type}

/-- A chain of graph edges leading from `a` to `c` (any edges of `G`, parallel ones included). -/
inductive EChain (G : List (GEdge τ)) : Nat → Nat → List (GEdge τ) → Prop
  | nil (a : Nat) : EChain G a a []
  | cons {a c : Nat} {e : GEdge τ} {es : List (GEdge τ)} :
      e ∈ G → e.u = a → EChain G e.v c es → EChain G a c (e :: es)

/-- Every bridging registration is the change of frame between its two templates. -/
def Consistent (g : TGroup τ) (frame : Nat → τ) (regs : List (Reg τ)) : Prop :=
  ∀ r ∈ regs, r.kind = Kind.bridging → r.xf = g.mul (g.inv (frame r.src)) (frame r.tgt)

theorem edge_consistent (g : TGroup τ) {frame : Nat → τ} {regs : List (Reg τ)}
    (hc : Consistent g frame regs) {recip : Option Rat} {e : GEdge τ}
    (he : e ∈ bridgingGraph g.inv regs recip) :
    e.xf = g.mul (g.inv (frame e.u)) (frame e.v) := by
  obtain ⟨r, h1, h2, h3 | h3⟩ := mem_bridgingGraph he
  · obtain ⟨_, hu, hv, hx, _⟩ := h3
    rw [hx, hu, hv]
    exact hc r (List.mem_of_getElem? h1) h2
  · obtain ⟨_, _, hu, hv, hx, _⟩ := h3
    rw [hx, hu, hv, hc r (List.mem_of_getElem? h1) h2, g.inv_mul_rev, g.inv_inv]

theorem telescope (g : TGroup τ) (frame : Nat → τ) (G : List (GEdge τ))
    (hG : ∀ e ∈ G, e.xf = g.mul (g.inv (frame e.u)) (frame e.v))
    {s t : Nat} {es : List (GEdge τ)} (h : EChain G s t es) :
    prod g (es.map (·.xf)) = g.mul (g.inv (frame s)) (frame t) := by
  induction h with
  | nil a => simp [prod_nil, g.inv_mul]
  | @cons a c e es he hu _ ih =>
    rw [List.map_cons, prod_cons, ih, hG e he, hu]
    rw [g.mul_assoc, ← g.mul_assoc (frame e.v), g.mul_inv, g.one_mul]

end Telescoping

/-! ## Choice among parallel edges and the transforms of a node path -/
section Pick
variable {τ : Type}

theorem mem_parallel {G : List (GEdge τ)} {a b : Nat} {e : GEdge τ} :
    e ∈ parallel G a b ↔ e ∈ G ∧ e.u = a ∧ e.v = b := by
  simp [parallel, List.mem_filter]

theorem pick_mem {G : List (GEdge τ)} {a b : Nat} {e : GEdge τ} (h : pick G a b = some e) :
    e ∈ G ∧ e.u = a ∧ e.v = b := by
  have := List.mem_of_getLast? h
  rw [List.mem_mergeSort] at this
  exact mem_parallel.mp this

/-- As written the picked edge has the LARGEST weight among the parallel edges. -/
theorem pick_max {G : List (GEdge τ)} {a b : Nat} {e : GEdge τ} (h : pick G a b = some e) :
    ∀ e' ∈ parallel G a b, e'.weight ≤ e.weight := by
  intro e' he'
  unfold pick at h
  have hs := List.pairwise_mergeSort (le := fun x y : GEdge τ => decide (x.weight ≤ y.weight))
    (fun a b c hab hbc => by
      simp only [decide_eq_true_eq] at *
      exact Rat.le_trans hab hbc)
    (fun a b => by
      simp only [Bool.or_eq_true, decide_eq_true_eq]
      exact Rat.le_total)
    (parallel G a b)
  obtain ⟨ys, hys⟩ := List.getLast?_eq_some_iff.mp h
  rw [hys] at hs
  have hm : e' ∈ ys ++ [e] := by rw [← hys, List.mem_mergeSort]; exact he'
  rw [List.mem_append] at hm
  rcases hm with hm | hm
  · rw [List.pairwise_append] at hs
    have := hs.2.2 e' hm e (by simp)
    simpa using this
  · simp only [List.mem_singleton] at hm
    rw [hm]

theorem pick_isSome_of_hasEdge {G : List (GEdge τ)} {a b : Nat} (h : hasEdge G a b = true) :
    ∃ e, pick G a b = some e := by
  simp only [hasEdge, List.any_eq_true] at h
  obtain ⟨e, he, hab⟩ := h
  have hp : e ∈ parallel G a b := by simp [parallel, List.mem_filter, he, hab]
  have hne : (parallel G a b).mergeSort (fun x y => decide (x.weight ≤ y.weight)) ≠ [] := by
    intro h0
    have := List.length_mergeSort (le := fun x y : GEdge τ => decide (x.weight ≤ y.weight)) (parallel G a b)
    rw [h0] at this
    have h1 : parallel G a b = [] := List.length_eq_zero_iff.mp this.symm
    rw [h1] at hp; cases hp
  unfold pick
  cases hl : ((parallel G a b).mergeSort fun x y => decide (x.weight ≤ y.weight)).getLast? with
  | some e => exact ⟨e, rfl⟩
  | none => exact absurd (List.getLast?_eq_none_iff.mp hl) hne

/-- The transforms `find_bridging_path` collects for a node path form a chain of graph edges from
the head of the path to its last node. -/
theorem pathEdges_chain {G : List (GEdge τ)} {p : List Nat} {es : List (GEdge τ)} {s t : Nat}
    (h : pathEdges G p = some es) (hs : p.head? = some s) (ht : p.getLast? = some t) :
    EChain G s t es := by
  induction p generalizing es s with
  | nil => simp at hs
  | cons a rest ih =>
    cases rest with
    | nil =>
      simp only [pathEdges, Option.some.injEq] at h
      simp only [List.head?_cons, Option.some.injEq] at hs
      simp only [List.getLast?_singleton, Option.some.injEq] at ht
      subst h hs ht
      exact EChain.nil _
    | cons b rest =>
      simp only [pathEdges] at h
      split at h
      · rename_i e es' hp hes
        simp only [Option.some.injEq] at h
        subst h
        simp only [List.head?_cons, Option.some.injEq] at hs
        subst hs
        obtain ⟨hm, hu, hv⟩ := pick_mem hp
        refine EChain.cons hm hu ?_
        rw [hv]
        exact ih hes (by simp) (by rwa [List.getLast?_cons_cons] at ht)
      · cases h

theorem pathEdges_isSome {G : List (GEdge τ)} {p : List Nat} (h : isChain G p = true) :
    ∃ es, pathEdges G p = some es := by
  induction p with
  | nil => exact ⟨[], rfl⟩
  | cons a rest ih =>
    cases rest with
    | nil => exact ⟨[], rfl⟩
    | cons b rest =>
      simp only [isChain, Bool.and_eq_true] at h
      obtain ⟨e, he⟩ := pick_isSome_of_hasEdge h.1
      obtain ⟨es, hes⟩ := ih h.2
      exact ⟨e :: es, by simp only [pathEdges, he, hes]⟩

end Pick


/-! ## `via` / `avoid` -/
section ViaAvoid

theorem acceptRepaired_iff (via avoid p : List Nat) :
    acceptRepaired via avoid p = true ↔ (∀ v ∈ via, v ∈ p) ∧ (∀ v ∈ avoid, v ∉ p) := by
  simp [acceptRepaired, List.all_eq_true]

/-- Whatever the property admits is also accepted by the code as written (when the loop runs at
all, i.e. `via` or `avoid` is given). -/
theorem asWritten_of_repaired (via avoid p : List Nat) (hne : via ≠ [] ∨ avoid ≠ [])
    (h : acceptRepaired via avoid p = true) : acceptAsWritten via avoid p = true := by
  simp only [acceptRepaired, Bool.and_eq_true, Bool.not_eq_true'] at h
  obtain ⟨hv, ha⟩ := h
  unfold acceptAsWritten
  rw [hv, ha]
  cases via <;> cases avoid <;> first | rfl | (rcases hne with h | h <;> exact absurd rfl h)

/-- Only `via`: the code as written is right. -/
theorem asWritten_eq_repaired_no_avoid (via p : List Nat) (h : via ≠ []) :
    acceptAsWritten via [] p = acceptRepaired via [] p := by
  unfold acceptAsWritten acceptRepaired
  cases via with
  | nil => exact absurd rfl h
  | cons a l =>
    generalize ((a :: l).all fun x => p.contains x) = b
    cases b <;> rfl

/-- Only `avoid`: the code as written is right. -/
theorem asWritten_eq_repaired_no_via (avoid p : List Nat) (h : avoid ≠ []) :
    acceptAsWritten [] avoid p = acceptRepaired [] avoid p := by
  unfold acceptAsWritten acceptRepaired
  cases avoid with
  | nil => exact absurd rfl h
  | cons a l =>
    generalize ((a :: l).any fun x => p.contains x) = b
    cases b <;> rfl

/-- With both given, the code as written accepts exactly: (all `via` or not) and no `avoid`. -/
theorem asWritten_both (via avoid p : List Nat) (hv : via ≠ []) (ha : avoid ≠ []) :
    acceptAsWritten via avoid p = !avoid.any (p.contains ·) := by
  unfold acceptAsWritten
  cases via with
  | nil => exact absurd rfl hv
  | cons a l =>
    cases avoid with
    | nil => exact absurd rfl ha
    | cons c m =>
      generalize ((a :: l).all fun x => p.contains x) = b1
      generalize ((c :: m).any fun x => p.contains x) = b2
      cases b1 <;> cases b2 <;> rfl

theorem searchLoop_ok {accept : List Nat → Bool} {enum : List (List Nat)} {p : List Nat}
    (h : searchLoop accept enum = .ok p) : p ∈ enum ∧ accept p = true := by
  unfold searchLoop at h
  split at h
  · cases h
  · split at h
    · rename_i q hq
      cases h
      exact ⟨List.mem_of_find?_eq_some hq, List.find?_some hq⟩
    · cases h

theorem searchLoop_error {accept : List Nat → Bool} {enum : List (List Nat)} {e : FindErr}
    (h : searchLoop accept enum = .error e) : ∀ p ∈ enum, accept p = false := by
  unfold searchLoop at h
  split at h
  · intro p hp; cases hp
  · split at h
    · cases h
    · rename_i hq
      intro p hp
      have := List.find?_eq_none.mp hq p hp
      simpa using this

theorem searchLoop_noPath {accept : List Nat → Bool} {enum : List (List Nat)}
    (h : searchLoop accept enum = .error .noPath) : enum = [] := by
  unfold searchLoop at h
  split at h
  · rfl
  · split at h <;> cases h

end ViaAvoid

/-! ## The simple-path enumerator -/
section Enum
variable {τ : Type}

theorem nodupB_iff (l : List Nat) : nodupB l = true ↔ l.Nodup := by
  induction l with
  | nil => simp [nodupB]
  | cons a l ih => simp [nodupB, ih]

theorem mem_succs {G : List (GEdge τ)} {a b : Nat} : b ∈ succs G a ↔ hasEdge G a b = true := by
  simp only [succs, List.mem_map, List.mem_filter, hasEdge, List.any_eq_true, Bool.and_eq_true,
    beq_iff_eq]
  constructor
  · rintro ⟨e, ⟨he, hu⟩, hv⟩; exact ⟨e, he, hu, hv⟩
  · rintro ⟨e, he, hu, hv⟩; exact ⟨e, ⟨he, hu⟩, hv⟩

/-- A simple path of `G` from `s` to `t` (node list). -/
def SimplePath (G : List (GEdge τ)) (s t : Nat) (p : List Nat) : Prop :=
  p.head? = some s ∧ p.getLast? = some t ∧ isChain G p = true ∧ p.Nodup

/-- Soundness: everything the enumerator returns is a simple path from `cur` to `t` that stays
clear of `vis`. -/
theorem pathsFrom_sound {G : List (GEdge τ)} {t : Nat} (fuel cur : Nat) (vis p : List Nat)
    (h : p ∈ pathsFrom G t fuel cur vis) :
    SimplePath G cur t p ∧ ∀ x ∈ p, x ≠ cur → x ∉ cur :: vis := by
  induction fuel generalizing cur vis p with
  | zero => simp [pathsFrom] at h
  | succ fuel ih =>
    unfold pathsFrom at h
    split at h
    · rename_i hct
      simp only [List.mem_singleton] at h
      subst h; subst hct
      refine ⟨⟨rfl, rfl, rfl, by simp⟩, ?_⟩
      intro x hx hne; simp at hx; exact absurd hx hne
    · rename_i hct
      simp only [List.mem_flatMap, List.mem_filter, List.mem_map] at h
      obtain ⟨n, ⟨hn, hfresh⟩, q, hq, rfl⟩ := h
      simp only [Bool.not_eq_true', Bool.or_eq_false_iff, beq_eq_false_iff_ne,
        List.contains_eq_mem, decide_eq_false_iff_not] at hfresh
      obtain ⟨⟨hqh, hql, hqc, hqn⟩, hqv⟩ := ih n (cur :: vis) q hq
      have hq_ne : q ≠ [] := by intro h0; rw [h0] at hqh; cases hqh
      obtain ⟨b, q', rfl⟩ := List.exists_cons_of_ne_nil hq_ne
      simp only [List.head?_cons, Option.some.injEq] at hqh
      subst hqh
      have hcur_notin : cur ∉ b :: q' := by
        intro hmem
        by_cases hx : cur = b
        · exact hfresh.1 hx.symm
        · exact hqv cur hmem hx (by simp)
      refine ⟨⟨rfl, ?_, ?_, ?_⟩, ?_⟩
      · rw [List.getLast?_cons_cons]; exact hql
      · simp only [isChain, Bool.and_eq_true]; exact ⟨mem_succs.mp hn, hqc⟩
      · exact List.nodup_cons.mpr ⟨hcur_notin, hqn⟩
      · intro x hx hne
        simp only [List.mem_cons] at hx
        rcases hx with hx | hx
        · exact absurd hx hne
        · intro hmem
          simp only [List.mem_cons] at hmem
          rcases hmem with hmem | hmem
          · exact hne hmem
          · by_cases hxb : x = b
            · subst hxb; exact hfresh.2 hmem
            · exact hqv x (by simpa using hx) hxb (by simp [hmem])

/-- A simple path from `t` to `t` is `[t]`. -/
theorem simplePath_self {G : List (GEdge τ)} {t : Nat} {p : List Nat} (h : SimplePath G t t p) :
    p = [t] := by
  obtain ⟨hh, hl, _, hn⟩ := h
  cases p with
  | nil => cases hh
  | cons a q =>
    simp only [List.head?_cons, Option.some.injEq] at hh
    subst hh
    cases q with
    | nil => rfl
    | cons b q =>
      exfalso
      rw [List.getLast?_cons_cons] at hl
      have := List.mem_of_getLast? hl
      exact (List.nodup_cons.mp hn).1 this

/-- Completeness: every simple path from `cur` to `t` that stays clear of `vis` and has at most
`fuel` nodes is enumerated. -/
theorem pathsFrom_complete {G : List (GEdge τ)} {t : Nat} (fuel cur : Nat) (vis p : List Nat)
    (hp : SimplePath G cur t p) (hv : ∀ x ∈ p, x ∉ vis) (hf : p.length ≤ fuel) :
    p ∈ pathsFrom G t fuel cur vis := by
  induction fuel generalizing cur vis p with
  | zero =>
    obtain ⟨hh, _⟩ := hp
    cases p with
    | nil => cases hh
    | cons _ _ => simp at hf
  | succ fuel ih =>
    unfold pathsFrom
    by_cases hct : cur = t
    · rw [if_pos hct]
      subst hct
      simp [simplePath_self hp]
    · rw [if_neg hct]
      obtain ⟨hh, hl, hc, hn⟩ := hp
      cases p with
      | nil => cases hh
      | cons a q =>
        simp only [List.head?_cons, Option.some.injEq] at hh
        subst hh
        cases q with
        | nil =>
          simp only [List.getLast?_singleton, Option.some.injEq] at hl
          exact absurd hl hct
        | cons b q =>
          simp only [isChain, Bool.and_eq_true] at hc
          have hnc := List.nodup_cons.mp hn
          simp only [List.mem_flatMap, List.mem_filter, List.mem_map]
          refine ⟨b, ⟨mem_succs.mpr hc.1, ?_⟩, b :: q, ?_, rfl⟩
          · simp only [Bool.not_eq_true', Bool.or_eq_false_iff, beq_eq_false_iff_ne,
              List.contains_eq_mem, decide_eq_false_iff_not]
            refine ⟨?_, hv b (by simp)⟩
            intro hba; exact hnc.1 (by simp [hba])
          · apply ih b (a :: vis) (b :: q)
            · exact ⟨rfl, by rwa [List.getLast?_cons_cons] at hl, hc.2, hnc.2⟩
            · intro x hx hmem
              simp only [List.mem_cons] at hmem
              rcases hmem with hmem | hmem
              · subst hmem; exact hnc.1 hx
              · exact hv x (by simp only [List.mem_cons] at hx ⊢; exact Or.inr hx) hmem
            · simp only [List.length_cons] at hf ⊢; omega

/-- Pigeonhole: a duplicate-free list inside `m` is no longer than `m`. -/
theorem nodup_length_le {l m : List Nat} (hn : l.Nodup) (hs : ∀ x ∈ l, x ∈ m) : l.length ≤ m.length := by
  induction l generalizing m with
  | nil => simp
  | cons a l ih =>
    have hnc := List.nodup_cons.mp hn
    have ha : a ∈ m := hs a (by simp)
    have := ih (m := m.erase a) hnc.2 (by
      intro x hx
      have hxa : x ≠ a := by intro h; subst h; exact hnc.1 hx
      exact (List.mem_erase_of_ne hxa).mpr (hs x (by simp [hx])))
    rw [List.length_erase_of_mem ha] at this
    have hpos : 0 < m.length := List.length_pos_of_mem ha
    simp only [List.length_cons]; omega

theorem mem_nodes {G : List (GEdge τ)} {x : Nat} : x ∈ nodes G ↔ ∃ e ∈ G, x = e.u ∨ x = e.v := by
  simp [nodes, List.mem_eraseDups, List.mem_flatMap]

theorem chain_nodes {G : List (GEdge τ)} {p : List Nat} (hc : isChain G p = true)
    (h2 : 2 ≤ p.length) : ∀ x ∈ p, x ∈ nodes G := by
  induction p with
  | nil => simp at h2
  | cons a q ih =>
    cases q with
    | nil => simp at h2
    | cons b q =>
      simp only [isChain, Bool.and_eq_true, hasEdge, List.any_eq_true, beq_iff_eq] at hc
      obtain ⟨⟨e, he, hu, hv⟩, hc2⟩ := hc
      intro x hx
      simp only [List.mem_cons] at hx
      rcases hx with hx | hx
      · exact mem_nodes.mpr ⟨e, he, Or.inl (by rw [hx, hu])⟩
      · cases q with
        | nil =>
          simp only [List.mem_nil_iff, or_false] at hx
          exact mem_nodes.mpr ⟨e, he, Or.inr (by rw [hx, hv])⟩
        | cons c q =>
          exact ih hc2 (by simp) x (by simpa using hx)

/-- The enumerator returns exactly the simple paths from `s` to `t`. -/
theorem mem_simplePaths_iff {G : List (GEdge τ)} {s t : Nat} {p : List Nat} :
    p ∈ simplePaths G s t ↔ SimplePath G s t p := by
  constructor
  · intro h; exact (pathsFrom_sound _ _ _ _ h).1
  · intro h
    apply pathsFrom_complete _ _ _ _ h (by simp)
    by_cases h2 : 2 ≤ p.length
    · have := nodup_length_le h.2.2.2 (chain_nodes h.2.2.1 h2)
      omega
    · omega

theorem checkPath_iff {G : List (GEdge τ)} {s t : Nat} {via avoid p : List Nat} :
    checkPath G s t via avoid p = true ↔
      SimplePath G s t p ∧ (∀ v ∈ via, v ∈ p) ∧ (∀ v ∈ avoid, v ∉ p) := by
  simp only [checkPath, Bool.and_eq_true, beq_iff_eq, nodupB_iff, acceptRepaired_iff, SimplePath]
  constructor
  · rintro ⟨⟨⟨⟨h1, h2⟩, h3⟩, h4⟩, h5⟩; exact ⟨⟨h1, h2, h3, h4⟩, h5⟩
  · rintro ⟨⟨h1, h2, h3, h4⟩, h5⟩; exact ⟨⟨⟨⟨h1, h2⟩, h3⟩, h4⟩, h5⟩

theorem mem_admissible_iff {G : List (GEdge τ)} {s t : Nat} {via avoid p : List Nat} :
    p ∈ admissible G s t via avoid ↔ checkPath G s t via avoid p = true := by
  rw [admissible, List.mem_filter, mem_simplePaths_iff, checkPath_iff, acceptRepaired_iff]

end Enum

/-! ## `TransformSequence` -/
section Seq
variable {π : Type}

theorem scatter_map (f : π → Option π) (rows : List (Option π)) :
    scatter rows ((rows.filterMap id).map f) = rows.map (·.bind f) := by
  induction rows with
  | nil => rfl
  | cons r rows ih =>
    cases r with
    | none =>
      show scatter (none :: rows) ((rows.filterMap id).map f) = none :: rows.map (·.bind f)
      simp only [scatter]; rw [ih]
    | some p =>
      show scatter (some p :: rows) (f p :: (rows.filterMap id).map f) = f p :: rows.map (·.bind f)
      simp only [scatter]; rw [ih]

theorem map_bind_of_all_none (f : π → Option π) (rows : List (Option π))
    (h : rows.all Option.isNone = true) : rows.map (·.bind f) = rows := by
  induction rows with
  | nil => rfl
  | cons r rows ih =>
    simp only [List.all_cons, Bool.and_eq_true] at h
    cases r with
    | none => simp [ih h.2]
    | some p => simp at h

/-- One loop iteration with a row-wise member = `bind` on every row. -/
theorem seqStep_liftRow (f : π → Option π) (rows : List (Option π)) :
    seqStep rows (liftRow f) = rows.map (·.bind f) := by
  unfold seqStep
  split
  · rename_i h; exact (map_bind_of_all_none f rows h).symm
  · exact scatter_map f rows

theorem seqXform_liftRow (fs : List (π → Option π)) (rows : List (Option π)) :
    seqXform (fs.map liftRow) rows = rows.map (rowSeq fs) := by
  induction fs generalizing rows with
  | nil =>
    show rows = rows.map (fun r => r)
    simp
  | cons f fs ih =>
    have : seqXform ((f :: fs).map liftRow) rows = seqXform (fs.map liftRow) (seqStep rows (liftRow f)) := rfl
    rw [this, ih, seqStep_liftRow, List.map_map]
    rfl

theorem rowSeq_none (fs : List (π → Option π)) : rowSeq fs none = none := by
  induction fs with
  | nil => rfl
  | cons f fs ih => simpa [rowSeq] using ih

theorem rowSeq_append (fs gs : List (π → Option π)) (r : Option π) :
    rowSeq (fs ++ gs) r = rowSeq gs (rowSeq fs r) := by
  simp [rowSeq, List.foldl_append]

/-- Total members (`π → π`, e.g. affine maps): the row result is the fold of the members. -/
theorem rowSeq_total (fs : List (π → π)) (p : π) :
    rowSeq (fs.map fun f q => some (f q)) (some p) = some (fs.foldl (fun q f => f q) p) := by
  induction fs generalizing p with
  | nil => rfl
  | cons f fs ih =>
    have : rowSeq ((f :: fs).map fun f q => some (f q)) (some p)
        = rowSeq (fs.map fun f q => some (f q)) (some (f p)) := rfl
    rw [this, ih]; rfl

end Seq

/-! ## Registration and the memoised graph -/
section Cache
variable {τ : Type} [DecidableEq τ]

/-- Every memoised graph is the graph of the CURRENT records. -/
def Coherent (neg : τ → τ) (st : RegState τ) : Prop :=
  ∀ k g, cacheGet st.cache k = some g → g = bridgingGraph neg st.regs k

omit [DecidableEq τ] in
theorem coherent_empty (neg : τ → τ) : Coherent neg (RegState.empty : RegState τ) := by
  intro k g h; simp [RegState.empty, cacheGet] at h

theorem coherent_register (neg : τ → τ) (st : RegState τ) (r : Reg τ) (sk : Bool) :
    Coherent neg (register st r sk) := by
  intro k g h; simp [register, cacheGet] at h

omit [DecidableEq τ] in
theorem graphCached_spec (neg : τ → τ) (st : RegState τ) (hc : Coherent neg st) (k : Option Rat) :
    (graphCached neg st k).1 = bridgingGraph neg st.regs k ∧
    (graphCached neg st k).2.regs = st.regs ∧ Coherent neg (graphCached neg st k).2 := by
  unfold graphCached
  split
  · rename_i g hg
    exact ⟨hc k g hg, rfl, hc⟩
  · refine ⟨rfl, rfl, ?_⟩
    intro k' g' h
    simp only [cacheGet] at h
    split at h
    · rename_i hk; cases h; rw [hk]
    · exact hc k' g' h

/-- Cache-free reference semantics of a history. -/
def runRef (neg : τ → τ) : List (Reg τ) → List (Op τ) → List (List (GEdge τ))
  | _, [] => []
  | regs, .reg r sk :: ops => runRef neg (register ⟨regs, []⟩ r sk).regs ops
  | regs, .query k :: ops => bridgingGraph neg regs k :: runRef neg regs ops

theorem register_regs (st : RegState τ) (r : Reg τ) (sk : Bool) :
    (register st r sk).regs = (register ⟨st.regs, []⟩ r sk).regs := rfl

theorem runOps_eq_runRef (neg : τ → τ) (st : RegState τ) (hc : Coherent neg st) (ops : List (Op τ)) :
    (runOps neg st ops).1 = runRef neg st.regs ops := by
  induction ops generalizing st with
  | nil => rfl
  | cons op ops ih =>
    cases op with
    | reg r sk =>
      simp only [runOps, runRef]
      rw [ih _ (coherent_register neg st r sk), register_regs]
    | query k =>
      obtain ⟨h1, h2, h3⟩ := graphCached_spec neg st hc k
      simp only [runOps, runRef]
      rw [ih _ h3, h1, h2]

theorem register_appends (st : RegState τ) (r : Reg τ) (sk : Bool) (h : sk = false ∨ r ∉ st.regs) :
    (register st r sk).regs = st.regs ++ [r] := by
  simp only [register]
  rcases h with h | h
  · simp [h]
  · simp [h]

end Cache

/-! ## The code of the current source: loop body, short-cut guard, graph weights, registration -/
section Source
variable {τ : Type}

/-- The historical loop body is `acceptOf asWrittenTree`. -/
theorem acceptAsWritten_eq_acceptOf (via avoid p : List Nat) :
    acceptAsWritten via avoid p = acceptOf asWrittenTree via avoid p := by
  unfold acceptAsWritten acceptOf asWrittenTree
  cases (!via.isEmpty) <;> cases (via.all fun x => p.contains x) <;> cases (!avoid.isEmpty) <;>
    cases (avoid.any fun x => p.contains x) <;> rfl

/-- A decision function that agrees with "all `via`, no `avoid`" on every combination of the four
facts that can occur inside the loop yields the repaired loop body.  (Inside the loop `via` or `avoid`
is given; an empty `via` is vacuously all on the path; an empty `avoid` has nothing on the path.) -/
theorem acceptOf_eq_repaired (f : Bool → Bool → Bool → Bool → Bool)
    (hf : ∀ vne allv ane anya : Bool, (vne = true ∨ ane = true) → (vne = false → allv = true) →
      (ane = false → anya = false) → f vne allv ane anya = (allv && !anya))
    (via avoid p : List Nat) (hne : via ≠ [] ∨ avoid ≠ []) :
    acceptOf f via avoid p = acceptRepaired via avoid p := by
  unfold acceptOf acceptRepaired
  apply hf
  · rcases hne with h | h
    · left; cases via with
      | nil => exact absurd rfl h
      | cons _ _ => rfl
    · right; cases avoid with
      | nil => exact absurd rfl h
      | cons _ _ => rfl
  · intro h
    cases via with
    | nil => rfl
    | cons _ _ => simp at h
  · intro h
    cases avoid with
    | nil => rfl
    | cons _ _ => simp at h

theorem searchLoop_congr {a b : List Nat → Bool} (h : ∀ p, a p = b p) (enum : List (List Nat)) :
    searchLoop a enum = searchLoop b enum := by
  have : a = b := funext h
  rw [this]

/-- `findPathG` with the guard `not via and not avoid` and a loop body that agrees with `accept'`
whenever the loop runs is `findPath accept'`. -/
theorem findPathG_eq (shortcut : Bool → Bool → Bool) (accept accept' : List Nat → List Nat → List Nat → Bool)
    (hs : ∀ v a, shortcut v a = (!v && !a))
    (ha : ∀ via avoid p, (via ≠ [] ∨ avoid ≠ []) → accept via avoid p = accept' via avoid p)
    (G : List (GEdge τ)) (s t : Nat) (via avoid : List Nat) (sh : Option (List Nat)) (enum : List (List Nat)) :
    findPathG shortcut accept G s t via avoid sh enum = findPath accept' G s t via avoid sh enum := by
  unfold findPathG findPath
  rw [hs]
  simp only [Bool.not_not]
  split; · rfl
  split; · rfl
  split; · rfl
  split; · rfl
  split
  · rfl
  · rename_i hva
    apply searchLoop_congr
    intro p
    apply ha
    simp only [Bool.and_eq_true, List.isEmpty_iff, not_and] at hva
    by_cases hv : via = []
    · exact Or.inr (hva hv)
    · exact Or.inl hv

theorem bridgingGraphOf_eq (fw : Rat → Rat) (rw' : Rat → Rat → Rat) (hfw : ∀ w, fw w = w)
    (hrw : ∀ w k, rw' w k = w * k) (neg : τ → τ) (regs : List (Reg τ)) (recip : Option Rat) :
    bridgingGraphOf fw rw' neg regs recip = bridgingGraph neg regs recip := by
  have e1 : fw = fun w => w := funext hfw
  have e2 : rw' = fun w k => w * k := funext fun w => funext fun k => hrw w k
  subst e1 e2
  rfl

theorem registerOf_eq [DecidableEq τ] (cond : Bool → Bool → Bool) (hc : ∀ s p, cond s p = (!s || !p))
    (st : RegState τ) (r : Reg τ) (sk : Bool) : registerOf cond true st r sk = register st r sk := by
  unfold registerOf register
  rw [hc]
  rfl

theorem negSeqOf_eq (neg : τ → τ) (ts : List τ) : negSeqOf true true neg ts = negSeq neg ts := rfl

end Source

/-! ## Merging of appendable members keeps the composition -/
section Merge
variable {τ : Type} (g : TGroup τ)

/-- `a.append(b)` succeeding means: `a` now is "first `a`, then `b`". -/
def MergeSound (merge : τ → τ → Option τ) : Prop := ∀ a b c, merge a b = some c → c = g.mul a b

theorem prod_singleton (t : τ) : prod g [t] = t := by
  rw [prod_cons, prod_nil, g.mul_one]

theorem prod_seqAppend (merge : τ → τ → Option τ) (hm : MergeSound g merge) (ts : List τ) (t : τ) :
    prod g (seqAppend merge ts t) = g.mul (prod g ts) t := by
  unfold seqAppend
  cases hl : ts.getLast? with
  | none =>
    have : ts = [] := List.getLast?_eq_none_iff.mp hl
    subst this
    simp only
    rw [prod_singleton, prod_nil, g.one_mul]
  | some l =>
    have hts : ts.dropLast ++ [l] = ts := by
      have hne : ts ≠ [] := by intro h; subst h; simp at hl
      have := List.dropLast_concat_getLast hne
      rw [List.getLast?_eq_some_getLast hne] at hl
      simp only [Option.some.injEq] at hl
      rw [hl] at this; exact this
    simp only
    cases hmg : merge l t with
    | some c =>
      simp only
      rw [hm l t c hmg, prod_append, prod_singleton]
      conv => rhs; rw [← hts, prod_append, prod_singleton]
      rw [g.mul_assoc]
    | none =>
      simp only
      rw [prod_append, prod_singleton]

theorem prod_foldl_seqAppend (merge : τ → τ → Option τ) (hm : MergeSound g merge) (acc ts : List τ) :
    prod g (ts.foldl (seqAppend merge) acc) = g.mul (prod g acc) (prod g ts) := by
  induction ts generalizing acc with
  | nil => simp [prod_nil, g.mul_one]
  | cons t ts ih =>
    rw [List.foldl_cons, ih, prod_seqAppend g merge hm, prod_cons, g.mul_assoc]

/-- `TransformSequence(*members)` composes to the same transform as the plain list of members,
however many of them were merged into their predecessor. -/
theorem prod_seqBuild (merge : τ → τ → Option τ) (hm : MergeSound g merge) (ts : List τ) :
    prod g (seqBuild merge ts) = prod g ts := by
  unfold seqBuild
  rw [prod_foldl_seqAppend g merge hm, prod_nil, g.one_mul]

end Merge

/-! ## Sequences of sequences; negation of a sequence with non-invertible members -/
section Nested
variable {τ : Type} (g : TGroup τ)

theorem prod_seqBuildItems_aux (merge : τ → τ → Option τ) (hm : MergeSound g merge) (acc : List τ)
    (items : List (Item τ)) :
    prod g (items.foldl (seqAppendItem merge) acc) = g.mul (prod g acc) (prod g (items.flatMap Item.members)) := by
  induction items generalizing acc with
  | nil => simp [prod_nil, g.mul_one]
  | cons it items ih =>
    rw [List.foldl_cons, ih, List.flatMap_cons, prod_append]
    unfold seqAppendItem
    rw [prod_foldl_seqAppend g merge hm, g.mul_assoc]

/-- A sequence built from transforms AND sequences composes to the flattened list of members. -/
theorem prod_seqBuildItems (merge : τ → τ → Option τ) (hm : MergeSound g merge) (items : List (Item τ)) :
    prod g (seqBuildItems merge items) = prod g (items.flatMap Item.members) := by
  unfold seqBuildItems
  rw [prod_seqBuildItems_aux g merge hm, prod_nil, g.one_mul]

omit g in
theorem optAll_isSome_iff {α} (l : List (Option α)) : (optAll l).isSome = true ↔ ∀ o ∈ l, o.isSome = true := by
  induction l with
  | nil => simp [optAll]
  | cons o l ih =>
    cases o with
    | none => simp [optAll]
    | some a => simp [optAll, ih]

omit g in
theorem optAll_map_some {α β} (f : α → β) (l : List α) : optAll (l.map fun a => some (f a)) = some (l.map f) := by
  induction l with
  | nil => rfl
  | cons a l ih => simp [optAll, ih]

omit g in
/-- `-seq` is defined exactly when every member can be negated. -/
theorem negSeq?_isSome_iff (neg? : τ → Option τ) (ts : List τ) :
    (negSeq? neg? ts).isSome = true ↔ ∀ t ∈ ts, (neg? t).isSome = true := by
  unfold negSeq?
  rw [optAll_isSome_iff]
  simp only [List.mem_map, List.mem_reverse]
  constructor
  · intro h t ht; exact h _ ⟨t, ht, rfl⟩
  · rintro h o ⟨t, ht, rfl⟩; exact h t ht

omit g in
/-- … and then it is the model's `negSeq`. -/
theorem negSeq?_eq_negSeq (neg : τ → τ) (ts : List τ) :
    negSeq? (fun t => some (neg t)) ts = some (negSeq neg ts) := by
  unfold negSeq? negSeq
  exact optAll_map_some neg ts.reverse

end Nested

/-! ## Invertible affine maps form a `TGroup` -/
section AffineInstance
open Navis.Affine

/-- Invertible affine transforms. -/
abbrev InvAff := { T : Aff // det T ≠ 0 }

def affGroup : TGroup InvAff where
  mul a b := ⟨comp a.1 b.1, by rw [det_comp]; exact mul_ne_zero a.2 b.2⟩
  one := ⟨Affine.one, by rw [det_one]; decide⟩
  inv a := ⟨neg a.1, det_neg_ne a.1 a.2⟩
  mul_assoc a b c := Subtype.ext (comp_assoc a.1 b.1 c.1)
  one_mul a := Subtype.ext (one_comp a.1)
  mul_one a := Subtype.ext (comp_one a.1)
  mul_inv a := Subtype.ext (comp_neg a.1 a.2)
  inv_mul a := Subtype.ext (neg_comp a.1 a.2)

/-- Applying the members one after the other = applying their composition. -/
theorem foldl_xform_eq_prod (ts : List InvAff) (p : Pt) :
    ts.foldl (fun q T => xform T.1 q) p = xform (prod affGroup ts).1 p := by
  induction ts generalizing p with
  | nil => simp [prod_nil, affGroup, xform_one]
  | cons t ts ih =>
    rw [List.foldl_cons, ih, prod_cons]
    show _ = xform (comp t.1 (prod affGroup ts).1) p
    rw [xform_comp]

/-- A `TransformSequence` of invertible affine members acts on every non-NaN row as the product of
the matrices and leaves NaN rows alone. -/
theorem seqXform_affine (ts : List InvAff) (rows : List (Option Pt)) :
    seqXform (ts.map fun T => liftRow fun q => some (xform T.1 q)) rows
      = rows.map (Option.map (xform (prod affGroup ts).1)) := by
  have e1 : (ts.map fun T => liftRow fun q => some (xform T.1 q))
      = (ts.map fun (T : InvAff) (q : Pt) => some (xform T.1 q)).map liftRow := by
    rw [List.map_map]; rfl
  rw [e1, seqXform_liftRow]
  apply List.map_congr_left
  intro r _
  cases r with
  | none => exact rowSeq_none _
  | some p =>
    have e2 : (ts.map fun (T : InvAff) (q : Pt) => some (xform T.1 q))
        = (ts.map fun (T : InvAff) => xform T.1).map fun f q => some (f q) := by
      rw [List.map_map]; rfl
    rw [e2, rowSeq_total, List.foldl_map, foldl_xform_eq_prod]
    rfl

end AffineInstance

end Navis.Bridge
