import NavisModel.Proofs.DistX2Lemmas
/-! Helper lemmas for the second pass of C05, part 3 (core Lean only): `parent_dist`, masked cable length,
`segment_length`, the segment builders with the extracted facts plugged in. -/
namespace Navis.DistX
open Navis.Forest

/-! ### `parent_dist` / `cable_length` -/

theorem evalInt_eq_not_isRoot {c : Cmp} {k : Int} (hck : nonRootCmpB c k = true) (n : Node) :
    c.evalInt n.parent k = !isRootNode n := by
  rw [nonRootCmp_spec hck, nonRoot_eq_not_isRoot]

/-- **The child–parent distances (`root_dist=0`) add up to the cable length.** -/
theorem parentDistW_sum {c : Cmp} {k : Int} (hck : nonRootCmpB c k = true) (t : Table) (len : Int → Int → Nat) :
    ((parentDistW c k t len (some 0)).map fun o => o.getD 0).sum = cable t len := by
  unfold parentDistW cable
  induction t with
  | nil => rfl
  | cons n rest ih =>
    simp only [List.map_cons, List.sum_cons, List.filter_cons]
    rw [evalInt_eq_not_isRoot hck n]
    cases h : isRootNode n with
    | true => simpa using ih
    | false => simp only [Bool.not_false, if_true, Option.getD_some, List.map_cons, List.sum_cons]; rw [ih]

/-- Entry of a non-root row: the length of its parent edge; entry of a root row: `root_dist`. -/
theorem parentDistW_entry {c : Cmp} {k : Int} (hck : nonRootCmpB c k = true) (t : Table) (len : Int → Int → Nat)
    (rd : Option Nat) (i : Nat) (h : i < t.length) :
    (parentDistW c k t len rd)[i]? = some (if isRootNode t[i] then rd else some (len t[i].id t[i].parent)) := by
  unfold parentDistW
  rw [List.getElem?_map, List.getElem?_eq_getElem h]
  simp only [Option.map_some]
  rw [evalInt_eq_not_isRoot hck]
  cases isRootNode t[i] <;> rfl

/-- The masked cable length is the cable length of the masked table (orphans re-rooted). -/
theorem cableMaskedW_eq {c : Cmp} {k : Int} (hck : nonRootCmpB c k = true) (t : Table) (len : Int → Int → Nat)
    (mask : List Bool) : cableMaskedW c k t len mask = cable (orphansToRoots (maskRows t mask)) len := by
  unfold cableMaskedW cable
  congr 2
  apply List.filter_congr
  intro n _
  exact evalInt_eq_not_isRoot hck n

theorem maskRows_all_true (t : Table) : maskRows t (List.replicate t.length true) = t := by
  unfold maskRows
  induction t with
  | nil => rfl
  | cons n rest ih =>
    simp only [List.length_cons, List.replicate_succ, List.zip_cons_cons, List.filter_cons, if_true, List.map_cons]
    rw [ih]

theorem orphansToRoots_cable {t : Table} (hw : WF t) (len : Int → Int → Nat) :
    cable (orphansToRoots t) len = cable t len := by
  unfold cable orphansToRoots
  rw [List.filter_map, List.map_map]
  have hpar := WF_parents hw
  have hfil : t.filter ((fun n => !isRootNode n) ∘ fun n => if (ids t).contains n.parent then n else { n with parent := -1 })
      = t.filter fun n => !isRootNode n := by
    apply List.filter_congr
    intro n hn
    simp only [Function.comp]
    by_cases hc : n.parent ∈ ids t
    · rw [if_pos (List.contains_iff_mem.mpr hc)]
    · rcases hpar n hn with h | h
      · have hc' : ¬ ((ids t).contains n.parent = true) := fun h' => hc (List.contains_iff_mem.mp h')
        rw [if_neg hc']
        simp [isRootNode, h]
      · exact absurd h hc
  rw [hfil]
  congr 1
  apply List.map_congr_left
  intro n hn
  have hn' := (List.mem_filter.mp hn)
  have hnr : ¬ n.parent < 0 := by
    have := hn'.2
    simp [isRootNode] at this
    omega
  rcases hpar n hn'.1 with h | h
  · exact absurd h hnr
  · simp only [Function.comp]
    rw [if_pos (List.contains_iff_mem.mpr h)]

/-- **No mask (all rows kept): the cable length.** -/
theorem cableMaskedW_all {c : Cmp} {k : Int} (hck : nonRootCmpB c k = true) {t : Table} (hw : WF t) (len : Int → Int → Nat) :
    cableMaskedW c k t len (List.replicate t.length true) = cable t len := by
  rw [cableMaskedW_eq hck, maskRows_all_true, orphansToRoots_cable hw]

/-! ### `segment_length` -/

/-- On a child → parent path every edge lookup succeeds and the sum is the path length. -/
theorem segLenW_of_parentPath (t : Table) (len : Int → Int → Nat) :
    ∀ (s : List Int), isParentPath t s = true → segLenW t len s = some (pathLen len s)
  | [], h => by simp [isParentPath] at h
  | [_], _ => rfl
  | a :: b :: rest, h => by
    simp only [isParentPath, Bool.and_eq_true] at h
    have ih := segLenW_of_parentPath t len (b :: rest) h.2
    simp only [segLenW, h.1, if_true, ih, Option.map_some, pathLen]

/-- Conversely a successful lookup means that every consecutive pair is an edge. -/
theorem segLenW_some (t : Table) (len : Int → Int → Nat) :
    ∀ (s : List Int) (d : Nat), s ≠ [] → segLenW t len s = some d → isParentPath t s = true ∧ d = pathLen len s
  | [], _, h, _ => absurd rfl h
  | [_], d, _, h => by simp [segLenW] at h; exact ⟨rfl, by rw [← h]; rfl⟩
  | a :: b :: rest, d, _, h => by
    simp only [segLenW] at h
    by_cases hadj : adjacent t a b = true
    · simp only [hadj, if_true] at h
      cases hr : segLenW t len (b :: rest) with
      | none => rw [hr] at h; simp at h
      | some d' =>
        rw [hr] at h
        simp only [Option.map_some, Option.some.injEq] at h
        obtain ⟨h1, h2⟩ := segLenW_some t len (b :: rest) d' (by simp) hr
        refine ⟨?_, ?_⟩
        · simp only [isParentPath, hadj, h1, Bool.and_self]
        · rw [← h, h2]; rfl
    · simp [hadj] at h

/-! ### `_generate_segments` with the extracted facts -/

def SegCfg.okB (c : SegCfg) : Bool :=
  c.leafLabel == .end_ && c.leafKeyIsRootDist && c.leafReverse && c.walkAsModelled && c.keepCmp == .gt && c.keepK == 1 &&
  c.lengthIsRootDistDiff && c.finalLengthFirst && c.finalReverse && c.isolatedLast

theorem typeOf_end (t : Table) (n : Node) : (typeOf t n == Label.end_) = (!isRootNode n && childCount t n.id == 0) := by
  unfold typeOf
  generalize childCount t n.id = c
  generalize isRootNode n = r
  cases r with
  | true => rfl
  | false =>
    match c with
    | 0 => rfl
    | 1 => rfl
    | c + 2 => rfl

/-- **The Python segment builder with the facts read from the source is the model's `segments`.** -/
theorem segmentsW_eq {c : SegCfg} (hc : c.okB = true) (t : Table) (len : Int → Int → Nat) :
    segmentsW c t len = segments t len := by
  unfold SegCfg.okB at hc
  simp only [Bool.and_eq_true, beq_iff_eq] at hc
  obtain ⟨⟨⟨⟨⟨⟨⟨⟨⟨h1, h2⟩, h3⟩, h4⟩, h5⟩, h6⟩, h7⟩, h8⟩, h9⟩, h10⟩ := hc
  unfold segmentsW segments
  simp only [h1, h2, h3, h4, h5, h6, h7, h8, h9, h10, if_true, typeOf_end, Cmp.evalNat]

/-! ### `_break_segments` with the extracted type sets -/

/-- The type sets denote "branch or end" / "branch or root" (as sets: order and repetitions do not matter). -/
def seedsOKB (seeds : List Label) : Bool :=
  seeds.contains .branch && seeds.contains .end_ && !seeds.contains .root && !seeds.contains .slab

def stopsOKB (stops : List Label) : Bool :=
  stops.contains .branch && stops.contains .root && !stops.contains .end_ && !stops.contains .slab

theorem seeds_spec {seeds : List Label} (h : seedsOKB seeds = true) (c : Nat) (r : Bool) :
    seeds.contains (labelOf c r) = (!r && c != 1) := by
  unfold seedsOKB at h
  simp only [Bool.and_eq_true, Bool.not_eq_true'] at h
  obtain ⟨⟨⟨h1, h2⟩, h3⟩, h4⟩ := h
  cases r with
  | true => exact h3
  | false =>
    match c with
    | 0 => exact h2
    | 1 => exact h4
    | c + 2 => exact h1

theorem stops_spec {stops : List Label} (h : stopsOKB stops = true) (c : Nat) (r : Bool) :
    stops.contains (labelOf c r) = (r || decide (c > 1)) := by
  unfold stopsOKB at h
  simp only [Bool.and_eq_true, Bool.not_eq_true'] at h
  obtain ⟨⟨⟨h1, h2⟩, h3⟩, h4⟩ := h
  cases r with
  | true => exact h2
  | false =>
    match c with
    | 0 => exact h3
    | 1 => exact h4
    | c + 2 =>
      have : decide (c + 2 > 1) = true := by simp
      rw [this]
      exact h1

theorem isStopW_eq {stops : List Label} (h : stopsOKB stops = true) (t : Table) : isStopW stops t = isBranchOrRoot t := by
  funext i
  unfold isStopW isBranchOrRoot
  cases find? t i with
  | none => rfl
  | some n => simp only [stops_spec h]

/-- **The networkx branch of `_break_segments` with the type sets read from the source is the model's
`smallSegments`.** -/
theorem smallSegmentsW_eq {seeds stops : List Label} (hs : seedsOKB seeds = true) (ht : stopsOKB stops = true) (t : Table) :
    smallSegmentsW seeds stops t = smallSegments t := by
  unfold smallSegmentsW smallSegments
  rw [isStopW_eq ht]
  congr 1
  apply List.filter_congr
  intro n _
  unfold typeOf
  rw [seeds_spec hs]

end Navis.DistX

namespace Navis.DistX
open Navis.Forest

/-! ### `dist_to_root`: the dictionary merged over the roots -/

theorem nonlast_not_root {t : Table} (q : List Int) (r0 : Int) (h : Linked t (q ++ [r0])) :
    ∀ x ∈ q, ∃ n, find? t x = some n ∧ ¬ n.parent < 0 := by
  intro x hx
  obtain ⟨A, B, rfl⟩ := List.append_of_mem hx
  cases hB : B ++ [r0] with
  | nil => simp at hB
  | cons z C =>
    have e : (A ++ x :: B) ++ [r0] = A ++ x :: z :: C := by
      rw [List.append_assoc, List.cons_append, hB]
    rw [e] at h
    obtain ⟨n, h1, _, h3⟩ := Linked_at A x z C h
    exact ⟨n, h1, by omega⟩

theorem mem_roots {t : Table} {r : Int} : r ∈ roots t ↔ ∃ n ∈ t, isRootNode n = true ∧ n.id = r := by
  unfold roots
  simp only [List.mem_map, List.mem_filter]
  constructor
  · rintro ⟨n, ⟨h1, h2⟩, h3⟩; exact ⟨n, h1, h2, h3⟩
  · rintro ⟨n, h1, h2, h3⟩; exact ⟨n, ⟨h1, h2⟩, h3⟩

/-- The distance from `i` up to a root `r`: the root distance when `r` is `i`'s root, unreachable otherwise. -/
theorem distUp_root {t : Table} (hw : WF t) (len : Int → Int → Nat) {i : Int} (hi : i ∈ ids t) {r : Int} (hr : r ∈ roots t) :
    distUp t len i r = if rootOf t i = some r then some (distToRoot t len i) else none := by
  obtain ⟨r0, n0, hlast, hf0, hp0⟩ := rootPath_ends hw i hi
  obtain ⟨q, hq⟩ := List.getLast?_eq_some_iff.mp hlast
  have hnd : (q ++ [r0]).Nodup := hq ▸ rootPath_nodup hw i
  have hr0q : r0 ∉ q := by
    intro hm
    have := (List.nodup_append.mp hnd).2.2 r0 hm r0 (by simp)
    exact this rfl
  have hlinked : Linked t (q ++ [r0]) := hq ▸ rootPath_linked t i
  unfold rootOf
  rw [hlast]
  by_cases he : r0 = r
  · subst he
    simp only [if_true]
    unfold distUp distToRoot
    rw [hq, uptoIncl_append [] hr0q]
    rfl
  · have hne : ¬ (some r0 = some r) := fun h => he (Option.some.inj h)
    rw [if_neg hne]
    obtain ⟨n, hn, hroot, hid⟩ := mem_roots.mp hr
    have hfr : find? t r = some n := hid ▸ find?_of_mem hw.1 hn
    have hrq : r ∉ q := by
      intro hm
      obtain ⟨n', hf', hp'⟩ := nonlast_not_root q r0 hlinked r hm
      rw [hfr] at hf'
      have : n = n' := Option.some.inj hf'
      subst this
      simp [isRootNode] at hroot
      exact hp' hroot
    have hnot : r ∉ rootPath t i := by
      rw [hq]
      intro hm
      rcases List.mem_append.mp hm with h | h
      · exact hrq h
      · simp at h; exact he h.symm
    unfold distUp
    have : (uptoIncl r (rootPath t i)).isSome = false := by
      cases h : (uptoIncl r (rootPath t i)).isSome with
      | false => rfl
      | true => exact absurd ((uptoIncl_isSome_iff r _).mp h) hnot
    cases h : uptoIncl r (rootPath t i) with
    | none => rfl
    | some v => rw [h] at this; simp at this

theorem rootOf_mem_roots {t : Table} (hw : WF t) {i : Int} (hi : i ∈ ids t) : ∃ r, rootOf t i = some r ∧ r ∈ roots t := by
  obtain ⟨r0, n0, hlast, hf0, hp0⟩ := rootPath_ends hw i hi
  refine ⟨r0, hlast, mem_roots.mpr ⟨n0, (find?_some hf0).1, by simp [isRootNode, hp0], (find?_some hf0).2⟩⟩

/-- Every entry of the merged dictionary carries the root distance of its key, and every node has an entry. -/
theorem mem_distToRootW {t : Table} (hw : WF t) (len : Int → Int → Nat) (i : Int) (d : Nat) :
    (i, d) ∈ distToRootW t len ↔ i ∈ ids t ∧ d = distToRoot t len i := by
  unfold distToRootW
  simp only [List.mem_flatMap, List.mem_filterMap, Option.map_eq_some_iff]
  constructor
  · rintro ⟨r, hr, j, hj, d', hd, he⟩
    have hij : j = i := by injection he with h1 _
    have hdd : d' = d := by injection he with _ h2
    subst hij; subst hdd
    refine ⟨hj, ?_⟩
    rw [distUp_root hw len hj hr] at hd
    by_cases h : rootOf t j = some r
    · rw [if_pos h] at hd; exact (Option.some.inj hd).symm
    · rw [if_neg h] at hd; exact absurd hd (by simp)
  · rintro ⟨hi, hd⟩
    obtain ⟨r, hro, hr⟩ := rootOf_mem_roots hw hi
    refine ⟨r, hr, i, hi, d, ?_, rfl⟩
    rw [distUp_root hw len hi hr, if_pos hro, hd]

theorem dictGet_of_unique (l : List (Int × Nat)) (k : Int) (v : Nat) (hex : (k, v) ∈ l)
    (huniq : ∀ w, (k, w) ∈ l → w = v) : dictGet l k = some v := by
  unfold dictGet
  cases h : l.reverse.find? (fun e => e.1 == k) with
  | none =>
    have := List.find?_eq_none.mp h (k, v) (List.mem_reverse.mpr hex)
    simp at this
  | some e =>
    have h1 := List.find?_some h
    have h2 := List.mem_reverse.mp (List.mem_of_find?_eq_some h)
    have hk : e.1 = k := by simpa using h1
    have : e = (k, e.2) := by rw [← hk]
    rw [this] at h2
    simp [huniq e.2 h2]

/-- **`dist_to_root` as written**: the dictionary maps every node to its root distance. -/
theorem distToRootW_get {t : Table} (hw : WF t) (len : Int → Int → Nat) {i : Int} (hi : i ∈ ids t) :
    dictGet (distToRootW t len) i = some (distToRoot t len i) :=
  dictGet_of_unique _ i _ ((mem_distToRootW hw len i _).mpr ⟨hi, rfl⟩) (fun w hw' => ((mem_distToRootW hw len i w).mp hw').2)

/-- `igraph_indices=True`: the entry under the row position of `i`. -/
theorem distToRootIdxW_mem {t : Table} (hw : WF t) (len : Int → Int → Nat) {i : Int} (hi : i ∈ ids t) :
    (Int.ofNat ((ids t).idxOf i), distToRoot t len i) ∈ distToRootIdxW t len := by
  unfold distToRootIdxW
  exact List.mem_map.mpr ⟨(i, distToRoot t len i), (mem_distToRootW hw len i _).mpr ⟨hi, rfl⟩, rfl⟩

end Navis.DistX
