import NavisModel.Proofs.HealLemmas
import NavisModel.Proofs.HealMstLemmas
/-!
C11 helper lemmas, part 8 (core Lean only): minimality of the bridging edges against ARBITRARY sets of
allowed node pairs (not only the nearest pair per fragment pair).
-/
namespace Navis.Heal
open Navis.Forest

/-- An allowed connection: two allowed nodes of two different fragments, strictly closer than `max_dist`
(only the length and the two fragments of `e` matter). -/
structure Allowed (t : Table) (o : Opts) (e : CEdge) : Prop where
  ex : ∃ na ∈ t, ∃ nb ∈ t, isCand t o na = true ∧ isCand t o nb = true ∧
        fragOf t na.id = e.fa ∧ fragOf t nb.id = e.fb ∧ e.d2 = sqDist na nb
  ne : e.fa ≠ e.fb
  within : withinMax o e = true

theorem withinMax_of_d2 {o : Opts} {e f : CEdge} (h : e.d2 = f.d2) (hf : withinMax o f = true) : withinMax o e = true :=
  withinMax_mono (Nat.le_of_eq h) hf

/-- Every allowed connection is dominated by the quotient edge of its pair of fragments. -/
theorem Allowed.to_quot {t : Table} (hw : WF t) {o : Opts} {e : CEdge} (h : Allowed t o e) :
    ∃ q ∈ quotientEdges t o, q.d2 ≤ e.d2 ∧ ((q.fa = e.fa ∧ q.fb = e.fb) ∨ (q.fa = e.fb ∧ q.fb = e.fa)) := by
  obtain ⟨na, ha, nb, hb, ca, cb, fa, fb, hd⟩ := h.ex
  have hra : e.fa ∈ roots t := fa ▸ fragOf_mem_roots hw (mem_ids_of_mem ha)
  have hrb : e.fb ∈ roots t := fb ▸ fragOf_mem_roots hw (mem_ids_of_mem hb)
  rcases mem_pairs hra hrb h.ne with hp | hp
  · obtain ⟨q, hq, f1, f2, hle⟩ := quotientEdges_exists hp ha hb ca cb fa fb
      (withinMax_of_d2 (f := e) (by simp [hd]) h.within)
    exact ⟨q, hq, by omega, Or.inl ⟨f1, f2⟩⟩
  · obtain ⟨q, hq, f1, f2, hle⟩ := quotientEdges_exists hp hb ha cb ca fb fa
      (withinMax_of_d2 (f := e) (by simp [hd, sqDist_comm nb na]) h.within)
    rw [sqDist_comm nb na] at hle
    exact ⟨q, hq, by omega, Or.inr ⟨f1, f2⟩⟩

/-- A list of allowed connections can be replaced, edge by edge, by quotient edges that are at most as
long and join the same fragments. -/
theorem allowed_list_to_quot {t : Table} (hw : WF t) {o : Opts} (w : Nat → Nat) (hmono : ∀ x y, x ≤ y → w x ≤ w y)
    (T' : List CEdge) (hT' : ∀ e ∈ T', Allowed t o e) :
    ∃ T, (∀ q ∈ T, q ∈ quotientEdges t o) ∧ (∀ a b, Adj (qE T') a b → Adj (qE T) a b) ∧
      (T.map fun e => w e.d2).sum ≤ (T'.map fun e => w e.d2).sum := by
  induction T' with
  | nil => exact ⟨[], by simp, by intro a b h; exact h, by simp⟩
  | cons e rest ih =>
    obtain ⟨T, h1, h2, h3⟩ := ih (fun x hx => hT' x (List.mem_cons_of_mem _ hx))
    obtain ⟨q, hq, hle, hcase⟩ := (hT' e List.mem_cons_self).to_quot hw
    refine ⟨q :: T, ?_, ?_, ?_⟩
    · intro x hx
      rcases List.mem_cons.mp hx with rfl | hx
      · exact hq
      · exact h1 x hx
    · intro a b hab
      have : Adj (qE [e]) a b ∨ Adj (qE rest) a b := by
        unfold qE at hab ⊢
        simp only [List.map_cons, List.map_nil] at hab ⊢
        rcases hab with h | h
        · rcases List.mem_cons.mp h with h | h
          · exact Or.inl (Or.inl (by simp [h]))
          · exact Or.inr (Or.inl h)
        · rcases List.mem_cons.mp h with h | h
          · exact Or.inl (Or.inr (by simp [h]))
          · exact Or.inr (Or.inr h)
      rcases this with h | h
      · -- the edge `e` itself: `q` joins the same two fragments
        have hab' : (a = e.fa ∧ b = e.fb) ∨ (a = e.fb ∧ b = e.fa) := by
          unfold qE at h
          simp only [List.map_cons, List.map_nil] at h
          rcases h with h | h
          · have h := List.mem_singleton.mp h
            exact Or.inl ⟨congrArg Prod.fst h, congrArg Prod.snd h⟩
          · have h := List.mem_singleton.mp h
            exact Or.inr ⟨congrArg Prod.snd h, congrArg Prod.fst h⟩
        have hq' : Adj (qE (q :: T)) q.fa q.fb := adj_qE_of_mem List.mem_cons_self
        rcases hab' with ⟨h1', h2'⟩ | ⟨h1', h2'⟩ <;> rcases hcase with ⟨c1, c2⟩ | ⟨c1, c2⟩
        · rw [h1', h2', ← c1, ← c2]; exact hq'
        · rw [h1', h2', ← c1, ← c2]; exact hq'.symm
        · rw [h1', h2', ← c1, ← c2]; exact hq'.symm
        · rw [h1', h2', ← c1, ← c2]; exact hq'
      · rcases h2 a b h with h | h
        · exact Or.inl (by unfold qE at h ⊢; exact List.mem_cons_of_mem _ h)
        · exact Or.inr (by unfold qE at h ⊢; exact List.mem_cons_of_mem _ h)
    · simp only [List.map_cons, List.sum_cons]
      have := hmono _ _ hle
      omega

/-- **Minimal total length.** The bridging edges of `heal` have minimal total weight — for every monotone
weight of the squared length — among all lists of allowed connections that join whatever the allowed
connections can join. -/
theorem healAdded_minimal {t : Table} (hw : WF t) (o : Opts) (T' : List CEdge) (hT' : ∀ e ∈ T', Allowed t o e)
    (hspan : ∀ c ∈ quotientEdges t o, Conn (qE T') c.fa c.fb) (w : Nat → Nat) (hmono : ∀ x y, x ≤ y → w x ≤ w y) :
    ((healAdded t o).map fun e => w e.d2).sum ≤ (T'.map fun e => w e.d2).sum := by
  unfold healAdded
  split
  · simp
  · obtain ⟨T, h1, h2, h3⟩ := allowed_list_to_quot hw w hmono T' hT'
    refine Nat.le_trans (kruskal_sum_le _ T h1 ?_ w hmono) h3
    intro c hc
    exact (hspan c hc).mono h2

end Navis.Heal
