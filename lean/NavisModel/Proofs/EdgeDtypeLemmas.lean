import NavisModel.Model.EdgeDtype
import NavisModel.Proofs.DistX5Lemmas
/-! Helper lemmas for C05: edge lengths computed in float are the Euclidean ones; in an integer dtype they are not. -/
namespace Navis.EdgeDtype
open Navis.Forest

theorem sqLenIn_float (sq : Bool) (na nb : Node) : (sqLenIn .float sq na nb).toNat = sqDist na nb := by
  unfold sqLenIn sqDist
  cases sq <;> simp [wrapIn]

theorem diffDt_float_of_left {l r : Operand} (h : l.isFloat = true) (col : Dt) : diffDt l r col = .float := by
  simp [diffDt, h]

theorem diffDt_float_of_right {l r : Operand} (h : r.isFloat = true) (col : Dt) : diffDt l r col = .float := by
  simp [diffDt, h]

/-- A site one of whose operands is float computes the model's `coordLen`, whatever the dtype of the columns. -/
theorem edgeLenAt_eq_coordLen {s : Site} (h : (s.child.isFloat || s.parent.isFloat) = true) (col : Dt) (t : Table) (a b : Int) :
    edgeLenAt s col t a b = coordLen t a b := by
  unfold edgeLenAt coordLen
  have hd : diffDt s.child s.parent col = .float := by simp [diffDt, h]
  rw [hd]
  cases find? t a with
  | none => rfl
  | some na =>
    cases find? t b with
    | none => rfl
    | some nb => simp only [sqLenIn_float]

/-- Both operands raw: the site computes in the columns' dtype. -/
theorem diffDt_raw (col : Dt) : diffDt .raw .raw col = col := by
  simp [diffDt, Operand.isFloat]

end Navis.EdgeDtype
