import NavisModel.Model.FlowVariants
import NavisModel.Proofs.StrahlerSweepLemmas
import NavisModel.Proofs.RerootEdgesLemmas
/-! The Python path of `synapse_flow_centrality` (formula at branch / root / connector nodes, propagation
along the small segments, fork rule) equals the formula evaluated at every node (`Flow.sfc`). -/
namespace Navis.FlowVar
open Navis.Forest Navis.Flow Navis.Sweep

/-! ### dictionary -/

theorem get?_set_same (fl : List (Int × Nat)) (k : Int) (v : Nat) : get? (set fl k v) k = some v := by
  simp [get?, set]

theorem get?_set_ne (fl : List (Int × Nat)) {k x : Int} (v : Nat) (h : k ≠ x) : get? (set fl k v) x = get? fl x := by
  have : (k == x) = false := by simpa using h
  simp [get?, set, List.find?_cons, this]

theorem get?_map_mem {l : List Int} {f : Int → Nat} {x : Int} (h : x ∈ l) :
    get? (l.map fun n => (n, f n)) x = some (f x) := by
  induction l with
  | nil => simp at h
  | cons a l ih =>
    by_cases ha : a = x
    · simp [get?, ha]
    · have hx : x ∈ l := by
        rcases List.mem_cons.mp h with e | e
        · exact absurd e.symm ha
        · exact e
      have : (a == x) = false := by simpa using ha
      have ih' := ih hx
      unfold get? at ih' ⊢
      simp only [List.map_cons, List.find?_cons, this]
      exact ih'

theorem get?_map_some {l : List Int} {f : Int → Nat} {x : Int} {v : Nat}
    (h : get? (l.map fun n => (n, f n)) x = some v) : v = f x := by
  induction l with
  | nil => simp [get?] at h
  | cons a l ih =>
    by_cases ha : a = x
    · simp [get?, ha] at h; exact h.symm
    · have : (a == x) = false := by simpa using ha
      unfold get? at h ih
      simp only [List.map_cons, List.find?_cons, this] at h
      exact ih h

/-! ### a node on a root path other than the start has a child on that path -/

theorem child_on_path {t : Table} (hw : WF t) {p : Int} :
    ∀ s ∈ ids t, p ∈ rootPath t s → s ≠ p → ∃ c ∈ children t p, c ∈ rootPath t s := by
  apply WF_induct hw
  intro n hn hcase hp hne
  have hf := find?_of_mem hw.1 hn
  by_cases hr : n.parent < 0
  · rw [rootPath_of_root hf hr] at hp
    simp at hp; exact absurd hp.symm hne
  · rw [rootPath_of_nonroot hw hf hr] at hp ⊢
    have hp' : p ∈ rootPath t n.parent := by
      rcases List.mem_cons.mp hp with e | e
      · exact absurd e.symm hne
      · exact e
    by_cases hpp : n.parent = p
    · exact ⟨n.id, mem_children.mpr ⟨n, hn, hpp, rfl⟩, List.mem_cons_self⟩
    · rcases hcase with h | h
      · exact absurd h hr
      · obtain ⟨c, hc, hcm⟩ := h hp' hpp
        exact ⟨c, hc, List.mem_cons_of_mem _ hcm⟩

theorem isDistal_eq_mem {t : Table} {n s : Int} : isDistal t n s = decide (n ∈ rootPath t s) := by
  unfold isDistal isAncestorOrSelf
  simp

/-- Through a node with a single child, "distal to" is the same relation for the node and its child —
for every node other than the node itself. -/
theorem isDistal_single_child {t : Table} (hw : WF t) {p c : Int} (hch : children t p = [c]) (hp : p ∈ ids t)
    {s : Int} (hs : s ≠ p) : isDistal t p s = isDistal t c s := by
  rw [isDistal_eq_mem, isDistal_eq_mem]
  have hcm : c ∈ children t p := by rw [hch]; exact List.mem_cons_self
  obtain ⟨m, hm, hmp, hmid⟩ := mem_children.mp hcm
  have h0 : 0 ≤ p := by obtain ⟨np, hnp, e⟩ := mem_ids.mp hp; rw [← e]; exact hw.2.1 np hnp
  have hcpath : rootPath t c = c :: rootPath t p := by
    rw [← hmid, rootPath_of_nonroot hw (find?_of_mem hw.1 hm) (by omega), hmp]
  by_cases hsi : s ∈ ids t
  · have hiff : p ∈ rootPath t s ↔ c ∈ rootPath t s := by
      constructor
      · intro h
        obtain ⟨c', hc', hcm'⟩ := child_on_path hw s hsi h hs
        rw [hch] at hc'
        have : c' = c := by simpa using hc'
        exact this ▸ hcm'
      · intro h
        have hsuf := rootPath_suffix hw s hsi c h
        apply hsuf.subset
        rw [hcpath]
        exact List.mem_cons_of_mem _ (rootPath_head_mem hp)
    by_cases h : p ∈ rootPath t s
    · simp [h, hiff.mp h]
    · have h' : c ∉ rootPath t s := fun hc => h (hiff.mpr hc)
      simp [h, h']
  · rw [rootPath_of_not_mem hsi]; simp

theorem distalCount_single_child {t : Table} (hw : WF t) {p c : Int} (hch : children t p = [c]) (hp : p ∈ ids t)
    (syn : List Int) (hsyn : p ∉ syn) : distalCount t syn p = distalCount t syn c := by
  unfold distalCount
  congr 1
  apply List.filter_congr
  intro s hs
  exact isDistal_single_child hw hch hp (fun e => hsyn (e ▸ hs))

theorem rootOf_single_child {t : Table} (hw : WF t) {p c : Int} (hch : children t p = [c]) (hp : p ∈ ids t) :
    rootOf t c = rootOf t p := by
  have hcm : c ∈ children t p := by rw [hch]; exact List.mem_cons_self
  obtain ⟨m, hm, hmp, hmid⟩ := mem_children.mp hcm
  have h0 : 0 ≤ p := by obtain ⟨np, hnp, e⟩ := mem_ids.mp hp; rw [← e]; exact hw.2.1 np hnp
  unfold rootOf
  rw [← hmid, rootPath_of_nonroot hw (find?_of_mem hw.1 hm) (by omega), hmp]
  obtain ⟨rest, hr⟩ := rootPath_cons hp
  rw [hr, List.getLast?_cons_cons]

theorem treeCount_single_child {t : Table} (hw : WF t) {p c : Int} (hch : children t p = [c]) (hp : p ∈ ids t)
    (syn : List Int) : treeCount t syn p = treeCount t syn c := by
  unfold treeCount
  congr 1
  apply List.filter_congr
  intro s _
  unfold sameTree
  rw [rootOf_single_child hw hch hp]

/-- **A connector-free node with a single child has the formula value of that child.** -/
theorem sfcRaw_single_child {t : Table} (hw : WF t) {p c : Int} (hch : children t p = [c]) (hp : p ∈ ids t)
    (m : Mode) (pre post : List Int) (h1 : p ∉ pre) (h2 : p ∉ post) :
    sfcRaw t true m pre post p = sfcRaw t true m pre post c := by
  have a := distalCount_single_child hw hch hp pre h1
  have b := distalCount_single_child hw hch hp post h2
  have c1 := treeCount_single_child hw hch hp pre
  have c2 := treeCount_single_child hw hch hp post
  cases m <;> simp [sfcRaw, centrifugal, centripetal, total, a, b, c1, c2]

theorem distalCount_leaf {t : Table} (hw : WF t) {e : Int} (hch : children t e = []) (syn : List Int) (hsyn : e ∉ syn) :
    distalCount t syn e = 0 := by
  unfold distalCount
  rw [List.length_eq_zero_iff, List.filter_eq_nil_iff]
  intro s hs
  rw [isDistal_eq_mem]
  simp only [decide_eq_true_eq]
  intro hm
  have hsi : s ∈ ids t := by
    apply Classical.byContradiction
    intro hn
    rw [rootPath_of_not_mem hn] at hm; simp at hm
  obtain ⟨c, hc, _⟩ := child_on_path hw s hsi hm (fun h => hsyn (h ▸ hs))
  rw [hch] at hc; simp at hc

/-- **A connector-free leaf has formula value 0.** -/
theorem sfcRaw_leaf {t : Table} (hw : WF t) {e : Int} (hch : children t e = []) (m : Mode) (pre post : List Int)
    (h1 : e ∉ pre) (h2 : e ∉ post) : sfcRaw t true m pre post e = 0 := by
  have a := distalCount_leaf hw hch pre h1
  have b := distalCount_leaf hw hch post h2
  cases m <;> simp [sfcRaw, centrifugal, centripetal, a, b]

/-! ### the propagation loop -/

section
variable {t : Table} {m : Mode} {pre post : List Int}

/-- Every binding of the dictionary is the formula value. -/
def Good (t : Table) (m : Mode) (pre post : List Int) (fl : List (Int × Nat)) : Prop :=
  ∀ x v, get? fl x = some v → v = sfcRaw t true m pre post x

/-- `fl'` has at least the keys of `fl`. -/
def Ext (fl fl' : List (Int × Nat)) : Prop := ∀ k, (get? fl k).isSome = true → (get? fl' k).isSome = true

theorem Ext.refl (fl : List (Int × Nat)) : Ext fl fl := fun _ h => h
theorem Ext.trans {a b c : List (Int × Nat)} (h1 : Ext a b) (h2 : Ext b c) : Ext a c := fun k h => h2 k (h1 k h)

theorem Ext_set (fl : List (Int × Nat)) (k : Int) (v : Nat) : Ext fl (set fl k v) := by
  intro x h
  by_cases e : k = x
  · rw [e, get?_set_same]; rfl
  · rw [get?_set_ne fl v e]; exact h

theorem Good_set {fl : List (Int × Nat)} (hg : Good t m pre post fl) {k : Int} {v : Nat}
    (hv : v = sfcRaw t true m pre post k) : Good t m pre post (set fl k v) := by
  intro x w h
  by_cases e : k = x
  · rw [e, get?_set_same] at h
    rw [← e, ← hv]; exact (Option.some.inj h).symm
  · rw [get?_set_ne fl v e] at h; exact hg x w h

/-- What the inner loop needs of the nodes after `prev`: each either has a value already (in the dictionary
`fl0` the segment started with) or is a connector-free node whose only child is its predecessor. -/
def StepOK (t : Table) (pre post : List Int) (fl0 : List (Int × Nat)) : Int → List Int → Prop
  | _, [] => True
  | prev, x :: r =>
    ((get? fl0 x).isSome = true ∨ (children t x = [prev] ∧ x ∈ ids t ∧ x ∉ pre ∧ x ∉ post)) ∧ StepOK t pre post fl0 x r

theorem fillUp_ok (hw : WF t) (fl0 : List (Int × Nat)) :
    ∀ (rest : List Int) (prev : Int) (fl : List (Int × Nat)), Good t m pre post fl → Ext fl0 fl →
      (get? fl prev).isSome = true → StepOK t pre post fl0 prev rest →
      ∃ fl', fillUp fl prev rest = some fl' ∧ Good t m pre post fl' ∧ Ext fl fl' ∧ ∀ x ∈ rest, (get? fl' x).isSome = true := by
  intro rest
  induction rest with
  | nil => intro prev fl hg _ _ _; exact ⟨fl, rfl, hg, Ext.refl fl, by simp⟩
  | cons x r ih =>
    intro prev fl hg hext hprev hstep
    obtain ⟨hx, hr⟩ := hstep
    unfold fillUp
    cases hgx : get? fl x with
    | some v =>
      simp only
      obtain ⟨fl', h1, h2, h3, h4⟩ := ih x fl hg hext (by rw [hgx]; rfl) hr
      refine ⟨fl', h1, h2, h3, ?_⟩
      intro y hy
      rcases List.mem_cons.mp hy with e | e
      · rw [e]; exact h3 x (by rw [hgx]; rfl)
      · exact h4 y e
    | none =>
      simp only
      rcases hx with hx | ⟨hch, hxi, hx1, hx2⟩
      · have := hext x hx
        rw [hgx] at this; simp at this
      · cases hgp : get? fl prev with
        | none => rw [hgp] at hprev; simp at hprev
        | some v =>
          simp only
          have hv : v = sfcRaw t true m pre post x := by
            rw [sfcRaw_single_child hw hch hxi m pre post hx1 hx2]; exact hg prev v hgp
          have hg' := Good_set hg (k := x) hv
          have hext' : Ext fl0 (set fl x v) := hext.trans (Ext_set fl x v)
          obtain ⟨fl', h1, h2, h3, h4⟩ := ih x (set fl x v) hg' hext' (by rw [get?_set_same]; rfl) hr
          refine ⟨fl', h1, h2, (Ext_set fl x v).trans h3, ?_⟩
          intro y hy
          rcases List.mem_cons.mp hy with e | e
          · rw [e]; exact h3 x (by rw [get?_set_same]; rfl)
          · exact h4 y e

/-- Keys of the initial dictionary: the calc nodes. -/
theorem flowInit_key {x : Int} (h : x ∈ calcNodes t pre post) : (get? (flowInit t m pre post) x).isSome = true := by
  unfold flowInit; rw [get?_map_mem h]; rfl

theorem flowInit_good : Good t m pre post (flowInit t m pre post) := by
  intro x v h; unfold flowInit at h; exact get?_map_some h

theorem mem_calcNodes {x : Int} : x ∈ calcNodes t pre post ↔
    ∃ n ∈ t, n.id = x ∧ (n.label = .branch ∨ n.label = .root ∨ x ∈ pre ∨ x ∈ post) := by
  unfold calcNodes
  simp only [List.mem_map, List.mem_filter, Bool.or_eq_true, beq_iff_eq, List.contains_eq_mem, decide_eq_true_eq,
    List.mem_append]
  constructor
  · rintro ⟨n, ⟨hn, hc⟩, rfl⟩
    refine ⟨n, hn, rfl, ?_⟩
    rcases hc with (h | h) | h
    · exact Or.inl h
    · exact Or.inr (Or.inl h)
    · rcases h with h | h
      · exact Or.inr (Or.inr (Or.inl h))
      · exact Or.inr (Or.inr (Or.inr h))
  · rintro ⟨n, hn, rfl, hc⟩
    refine ⟨n, ⟨hn, ?_⟩, rfl⟩
    rcases hc with h | h | h | h
    · exact Or.inl (Or.inl h)
    · exact Or.inl (Or.inr h)
    · exact Or.inr (Or.inl h)
    · exact Or.inr (Or.inr h)

/-- A stop (branch point or root) is a calc node, when labels are correct. -/
theorem stop_is_calc (hl : labelsOKB t = true) {x : Int} (hx : x ∈ ids t) (hs : isBranchOrRoot t x = true)
    (hnd : (ids t).Nodup) : x ∈ calcNodes t pre post := by
  obtain ⟨n, hn, rfl⟩ := mem_ids.mp hx
  rw [isBranchOrRoot_of_find (find?_of_mem hnd hn)] at hs
  have hlab := (labelsOKB_iff t).mp hl n hn
  refine mem_calcNodes.mpr ⟨n, hn, rfl, ?_⟩
  simp only [Bool.or_eq_true, decide_eq_true_eq] at hs
  by_cases hr : n.parent < 0
  · right; left; rw [hlab, labelOf_root_iff]; simpa using hr
  · left; rw [hlab, labelOf_branch_iff]
    rcases hs with h | h
    · exact absurd h hr
    · exact ⟨by simpa using hr, by omega⟩

/-- The nodes after the seed of a small segment satisfy `StepOK` w.r.t. any dictionary that has the calc
nodes as keys. -/
theorem stepOK_of_linked (hw : WF t) (hl : labelsOKB t = true) {fl0 : List (Int × Nat)}
    (hcalc : ∀ x ∈ calcNodes t pre post, (get? fl0 x).isSome = true) {last : Int} (hlast : last ∈ ids t)
    (hstop : isBranchOrRoot t last = true) :
    ∀ (mid : List Int) (prev : Int), Linked t (prev :: mid ++ [last]) →
      (∀ x ∈ mid, childCount t x = 1 ∧ isBranchOrRoot t x = false) → StepOK t pre post fl0 prev (mid ++ [last]) := by
  intro mid
  induction mid with
  | nil =>
    intro prev _ _
    exact ⟨Or.inl (hcalc last (stop_is_calc hl hlast hstop hw.1)), trivial⟩
  | cons x mid ih =>
    intro prev hlink hmid
    obtain ⟨⟨n, hf, hp, _⟩, hlink'⟩ := hlink
    have hn := find?_some hf
    have hxi : x ∈ ids t := by rw [← hp]; exact WF_parent_mem hw hn.1 (by omega)
    refine ⟨?_, ih x hlink' (fun y hy => hmid y (List.mem_cons_of_mem _ hy))⟩
    by_cases hsyn : x ∈ pre ∨ x ∈ post
    · left
      obtain ⟨nx, hnx, hnxid⟩ := mem_ids.mp hxi
      apply hcalc x (mem_calcNodes.mpr ⟨nx, hnx, hnxid, ?_⟩)
      rcases hsyn with h | h
      · exact Or.inr (Or.inr (Or.inl h))
      · exact Or.inr (Or.inr (Or.inr h))
    · right
      have hc1 := (hmid x List.mem_cons_self).1
      have hmem : prev ∈ children t x := mem_children.mpr ⟨n, hn.1, hp, hn.2⟩
      exact ⟨children_eq_singleton hmem (by omega), hxi, fun h => hsyn (Or.inl h), fun h => hsyn (Or.inr h)⟩

/-- **One round of the segment loop** on a small segment of the table. -/
theorem propagateSeg_ok (hw : WF t) (hl : labelsOKB t = true) {s : List Int} (hs : s ∈ smallSegments t)
    {fl : List (Int × Nat)} (hg : Good t m pre post fl) (hcalc : ∀ x ∈ calcNodes t pre post, (get? fl x).isSome = true) :
    ∃ fl', propagateSeg fl s = some fl' ∧ Good t m pre post fl' ∧ Ext fl fl' ∧ ∀ x ∈ s, (get? fl' x).isSome = true := by
  rw [smallSegments_eq] at hs
  obtain ⟨n, hn, rfl⟩ := List.mem_map.mp hs
  obtain ⟨hnt, hp, hcc⟩ := mem_seeds.mp hn
  obtain ⟨mid, last, hseg, hsm⟩ := segOf_spec hw hnt hp
  rw [hseg]
  show ∃ fl', fillUp (set fl n.id ((get? fl n.id).getD 0)) n.id (mid ++ [last]) = some fl' ∧ _
  -- the seed
  have hv0 : (get? fl n.id).getD 0 = sfcRaw t true m pre post n.id := by
    cases hgn : get? fl n.id with
    | some v => exact hg n.id v hgn
    | none =>
      -- not a calc node: an end node without connectors
      have hnc : n.id ∉ calcNodes t pre post := by
        intro h; have := hcalc n.id h; rw [hgn] at this; simp at this
      have hlab := (labelsOKB_iff t).mp hl n hnt
      have hnb : ¬ n.label = .branch := fun h => hnc (mem_calcNodes.mpr ⟨n, hnt, rfl, Or.inl h⟩)
      have hc0 : childCount t n.id = 0 := by
        apply Classical.byContradiction
        intro h0
        apply hnb
        rw [hlab, labelOf_branch_iff]
        exact ⟨by simpa using hp, by omega⟩
      have h1 : n.id ∉ pre := fun h => hnc (mem_calcNodes.mpr ⟨n, hnt, rfl, Or.inr (Or.inr (Or.inl h))⟩)
      have h2 : n.id ∉ post := fun h => hnc (mem_calcNodes.mpr ⟨n, hnt, rfl, Or.inr (Or.inr (Or.inr h))⟩)
      rw [sfcRaw_leaf hw (children_nil_iff.mpr hc0) m pre post h1 h2]; rfl
  have hg1 := Good_set hg (k := n.id) hv0
  have hext1 := Ext_set fl n.id ((get? fl n.id).getD 0)
  have hstep := stepOK_of_linked hw hl (fl0 := set fl n.id ((get? fl n.id).getD 0))
    (fun x hx => hext1 x (hcalc x hx)) hsm.hlast hsm.stop mid n.id hsm.linked hsm.mid_slab
  obtain ⟨fl', h1, h2, h3, h4⟩ := fillUp_ok hw _ (mid ++ [last]) n.id _ hg1 (Ext.refl _) (by rw [get?_set_same]; rfl) hstep
  refine ⟨fl', h1, h2, hext1.trans h3, ?_⟩
  intro x hx
  rcases List.mem_cons.mp hx with e | e
  · rw [e]; exact h3 n.id (by rw [get?_set_same]; rfl)
  · exact h4 x e

/-- The whole `for s in x.small_segments` loop, for any list of small segments of the table. -/
theorem propagate_ok (hw : WF t) (hl : labelsOKB t = true) :
    ∀ (segs : List (List Int)) (fl : List (Int × Nat)), (∀ s ∈ segs, s ∈ smallSegments t) → Good t m pre post fl →
      (∀ x ∈ calcNodes t pre post, (get? fl x).isSome = true) →
      ∃ fl', propagate segs fl = some fl' ∧ Good t m pre post fl' ∧ Ext fl fl' ∧
        ∀ s ∈ segs, ∀ x ∈ s, (get? fl' x).isSome = true := by
  intro segs
  induction segs with
  | nil => intro fl _ hg _; exact ⟨fl, rfl, hg, Ext.refl fl, by simp⟩
  | cons s segs ih =>
    intro fl hsub hg hcalc
    obtain ⟨fl1, h1, h2, h3, h4⟩ := propagateSeg_ok hw hl (hsub s List.mem_cons_self) hg hcalc
    obtain ⟨fl2, k1, k2, k3, k4⟩ := ih fl1 (fun s' hs' => hsub s' (List.mem_cons_of_mem _ hs')) h2
      (fun x hx => h3 x (hcalc x hx))
    refine ⟨fl2, ?_, k2, h3.trans k3, ?_⟩
    · unfold propagate; rw [List.foldlM_cons, h1]; exact k1
    · intro s' hs' x hx
      rcases List.mem_cons.mp hs' with e | e
      · rw [e] at hx; exact k3 x (h4 x hx)
      · exact k4 s' e x hx

end

/-- **The Python path of `synapse_flow_centrality` is the formula at every node with the fork rule** —
every well-formed, correctly labelled forest, every mode, any connector placement, and any order in which
`x.small_segments` lists the small segments: no `KeyError`, and the column is `Flow.sfc`. -/
theorem sfcPython_eq {t : Table} (hw : WF t) (hl : labelsOKB t = true) (m : Mode) (pre post : List Int)
    (segs : List (List Int)) (hperm : segs.Perm (smallSegments t)) :
    ∃ col, sfcPython t m pre post segs = some col ∧ ∀ i ∈ ids t, col i = sfc t true m pre post i := by
  obtain ⟨fl, h1, h2, _, h4⟩ := propagate_ok (m := m) (pre := pre) (post := post) hw hl segs (flowInit t m pre post)
    (fun s hs => hperm.mem_iff.mp hs) flowInit_good (fun x hx => flowInit_key hx)
  have h3 : Ext (flowInit t m pre post) fl := by assumption
  -- every row has a value, and it is the formula
  have hcol : ∀ i ∈ ids t, column fl i = sfcRaw t true m pre post i := by
    intro i hi
    have hkey : (get? fl i).isSome = true := by
      obtain ⟨n, hn, rfl⟩ := mem_ids.mp hi
      by_cases hr : n.parent < 0
      · apply h3 n.id (flowInit_key (mem_calcNodes.mpr ⟨n, hn, rfl, Or.inr (Or.inl ?_)⟩))
        rw [(labelsOKB_iff t).mp hl n hn, labelOf_root_iff]; simpa using hr
      · -- a non-root row lies on (the non-last part of) some small segment
        have hcov := (smallSegments_cover hw).mem_iff (a := n.id)
        have : n.id ∈ (t.filter fun n => !isRootNode n).map (·.id) := mem_nonroot_ids.mpr ⟨n, hn, hr, rfl⟩
        obtain ⟨s, hs, hx⟩ := List.mem_flatMap.mp (hcov.mpr this)
        have hs' : s ∈ smallSegments t := (List.mem_filter.mp hs).1
        exact h4 s (hperm.mem_iff.mpr hs') n.id ((List.dropLast_sublist s).subset hx)
    cases hg : get? fl i with
    | none => rw [hg] at hkey; simp at hkey
    | some v => unfold column; rw [hg]; exact h2 i v hg
  refine ⟨_, by unfold sfcPython; rw [h1]; rfl, ?_⟩
  intro i hi
  obtain ⟨n, hn, rfl⟩ := mem_ids.mp hi
  have hfind := find?_of_mem hw.1 hn
  have hbp : isBp t n.id = isFork t n.id := by
    unfold isBp isFork
    rw [hfind]
    simp only
    have hlab := (labelsOKB_iff t).mp hl n hn
    by_cases hb : n.label = .branch
    · have := (labelOf_branch_iff _ _).mp (hlab ▸ hb)
      simp [hb, this.2]
      simpa using this.1
    · have hb' : (n.label == Label.branch) = false := by simpa using hb
      rw [hb']
      by_cases hr : n.parent < 0
      · simp [hr]
      · have : ¬ 2 ≤ childCount t n.id := by
          intro h2'
          apply hb
          rw [hlab, labelOf_branch_iff]
          exact ⟨by simpa using hr, h2'⟩
        simp [hr, this]
  show (if isBp t n.id then maxList ((children t n.id).map (column fl)) else column fl n.id) = _
  unfold sfc
  rw [hbp]
  by_cases hf : isFork t n.id = true
  · rw [if_pos hf, if_pos hf]
    congr 1
    apply List.map_congr_left
    intro c hc
    exact hcol c (child_facts hw hi hc).1
  · rw [if_neg hf, if_neg hf]; exact hcol n.id hi

end Navis.FlowVar
