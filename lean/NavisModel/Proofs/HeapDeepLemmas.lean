import NavisModel.Model.HeapDeep
/-!
Helper lemmas for the two-level container model (`Model/HeapDeep.lean`).  Core Lean only.
-/
namespace Navis.HeapDeep

/-- `Own n t c`: the first `n` cells of `t` are `s`-cells we never touch; `c` is a node allocated at or after `n` all of whose
inner containers were allocated at or after `n`. -/
structure Own (n : Nat) (t : Store) (c : Nat) : Prop where
  fresh : n ≤ c
  valid : c < t.length
  kids : ∀ k ∈ kidsOf t c, n ≤ k

theorem take_set_ge {α} (l : List α) (n i : Nat) (a : α) (h : n ≤ i) : (l.set i a).take n = l.take n := by
  rw [List.take_set]
  apply List.set_eq_of_length_le
  rw [List.length_take]; omega

theorem kidsOf_set_same {t : Store} {c : Nat} (hc : c < t.length) (ks : List Nat) : kidsOf (t.set c (.node ks)) c = ks := by
  simp [kidsOf, hc]

theorem kidsOf_set_leaf_ne {t : Store} {c k : Nat} (h : k ≠ c) (v : Int) : kidsOf (t.set k (.leaf v)) c = kidsOf t c := by
  simp [kidsOf, List.getElem?_set_ne h]

theorem kidsOf_append_lt {t : Store} {c : Nat} (hc : c < t.length) (u : Store) : kidsOf (t ++ u) c = kidsOf t c := by
  simp [kidsOf, List.getElem?_append_left hc]

/-- one edit through an owned container keeps the old cells and the ownership -/
theorem applyEdit_own {n : Nat} {t : Store} {c : Nat} (h : Own n t c) (e : Edit) :
    (applyEdit c t e).take n = t.take n ∧ Own n (applyEdit c t e) c := by
  cases e with
  | inner i v =>
    simp only [applyEdit, wrInner]
    cases hk : (kidsOf t c)[i]? with
    | none => exact ⟨rfl, h⟩
    | some k =>
      have hkm : k ∈ kidsOf t c := List.mem_of_getElem? hk
      have hnk : n ≤ k := h.kids k hkm
      refine ⟨take_set_ge t n k _ hnk, ⟨h.fresh, by simpa using h.valid, ?_⟩⟩
      by_cases hkc : k = c
      · -- the container lists itself: it becomes a leaf, no inner containers left
        subst hkc
        intro k' hk'
        simp [kidsOf, h.valid] at hk'
      · rw [kidsOf_set_leaf_ne hkc]; exact h.kids
  | add v =>
    simp only [applyEdit, addKid]
    have hc' : c < (t ++ [Cell.leaf v]).length := by simp; have := h.valid; omega
    refine ⟨?_, ⟨h.fresh, by simpa using hc', ?_⟩⟩
    · rw [take_set_ge _ n c _ h.fresh, List.take_append_of_le_length (by have := h.valid; have := h.fresh; omega)]
    · rw [kidsOf_set_same hc']
      intro k hk
      rcases List.mem_append.mp hk with hk | hk
      · exact h.kids k hk
      · have : k = t.length := by simpa using hk
        have := h.valid; have := h.fresh; omega
  | del i =>
    simp only [applyEdit, delKid]
    refine ⟨take_set_ge t n c _ h.fresh, ⟨h.fresh, by simpa using h.valid, ?_⟩⟩
    rw [kidsOf_set_same h.valid]
    intro k hk
    exact h.kids k (List.mem_of_mem_eraseIdx hk)

theorem applyEdits_own {n : Nat} {c : Nat} (es : List Edit) : ∀ {t : Store}, Own n t c →
    (applyEdits t c es).take n = t.take n := by
  induction es with
  | nil => intro t _; rfl
  | cons e es ih =>
    intro t h
    obtain ⟨h1, h2⟩ := applyEdit_own h e
    show (applyEdits (applyEdit c t e) c es).take n = _
    rw [ih h2, h1]

theorem deep1_snd (s : Store) (r : Nat) : (deep1 s r).2 = s.length + (kidsOf s r).length := by
  simp [deep1]

theorem deep1_take (s : Store) (r : Nat) : (deep1 s r).1.take s.length = s := by
  simp only [deep1, List.append_assoc]
  rw [List.take_append_of_le_length (Nat.le_refl _), List.take_length]

theorem deep1_kids (s : Store) (r : Nat) :
    kidsOf (deep1 s r).1 (deep1 s r).2 = List.range' s.length (kidsOf s r).length := by
  simp [deep1, kidsOf]

theorem deep1_own (s : Store) (r : Nat) : Own s.length (deep1 s r).1 (deep1 s r).2 where
  fresh := by rw [deep1_snd]; omega
  valid := by simp [deep1]
  kids := by
    rw [deep1_kids]
    intro k hk
    exact (List.mem_range'_1.mp hk).1

/-- the copy's inner containers hold what the input's hold -/
theorem deep1_leafVal (s : Store) (r : Nat) (j : Nat) (hj : j < (kidsOf s r).length) :
    leafVal (deep1 s r).1 (s.length + j) = leafVal s ((kidsOf s r)[j]) := by
  simp only [deep1, leafVal, List.append_assoc]
  rw [List.getElem?_append_right (Nat.le_add_right _ _)]
  simp only [Nat.add_sub_cancel_left]
  rw [List.getElem?_append_left (by simpa using hj)]
  simp [hj]

theorem absOf_deep1 (s : Store) (r : Nat) : absOf (deep1 s r).1 (deep1 s r).2 = absOf s r := by
  unfold absOf
  rw [deep1_kids]
  apply List.ext_getElem
  · simp
  · intro j h1 h2
    simp only [List.length_map, List.length_range'] at h1
    simp only [List.getElem_map, List.getElem_range', Nat.one_mul]
    exact deep1_leafVal s r j h1

/-- cells that are unchanged give the same observable content, for a well-formed container -/
theorem absOf_of_take {s t : Store} (h : t.take s.length = s) {r : Nat} (hw : wfB s r = true) : absOf t r = absOf s r := by
  have hget : ∀ i, i < s.length → t[i]? = s[i]? := by
    intro i hi
    have := congrArg (fun l => l[i]?) h
    simpa [List.getElem?_take_of_lt hi] using this
  unfold wfB at hw
  cases hr : s[r]? with
  | none => simp [hr] at hw
  | some c =>
    cases c with
    | leaf v => simp [hr] at hw
    | node ks =>
      simp only [hr, List.all_eq_true] at hw
      have hrlt : r < s.length := by
        apply Classical.byContradiction; intro hn
        rw [List.getElem?_eq_none (by omega)] at hr; cases hr
      have htr : t[r]? = some (.node ks) := by rw [hget r hrlt, hr]
      unfold absOf kidsOf
      rw [htr, hr]
      apply List.map_congr_left
      intro k hk
      have := hw k hk
      cases hsk : s[k]? with
      | none => simp [hsk] at this
      | some c' =>
        have hklt : k < s.length := by
          apply Classical.byContradiction; intro hn
          rw [List.getElem?_eq_none (by omega)] at hsk; cases hsk
        simp only [leafVal, hget k hklt, hsk]

/-- `shallow`: the copy lists the very same inner containers -/
theorem shallow_kids (s : Store) (r : Nat) : kidsOf (shallow s r).1 (shallow s r).2 = kidsOf s r := by
  simp [shallow, kidsOf]

/-- what `wfB` says -/
theorem wfB_spec {s : Store} {r : Nat} (hw : wfB s r = true) :
    ∃ ks, s[r]? = some (.node ks) ∧ r < s.length ∧ ∀ k ∈ ks, ∃ v, s[k]? = some (.leaf v) ∧ k < s.length := by
  unfold wfB at hw
  cases hr : s[r]? with
  | none => simp [hr] at hw
  | some c =>
    cases c with
    | leaf v => simp [hr] at hw
    | node ks =>
      simp only [hr, List.all_eq_true] at hw
      refine ⟨ks, rfl, ?_, ?_⟩
      · apply Classical.byContradiction; intro hn
        rw [List.getElem?_eq_none (by omega)] at hr; cases hr
      · intro k hk
        have := hw k hk
        cases hsk : s[k]? with
        | none => simp [hsk] at this
        | some c' =>
          cases c' with
          | node _ => simp [hsk] at this
          | leaf v =>
            refine ⟨v, rfl, ?_⟩
            apply Classical.byContradiction; intro hn
            rw [List.getElem?_eq_none (by omega)] at hsk; cases hsk

/-- **a shallow copy leaks**: editing the `i`-th inner container of the copy changes the observable content of the input -/
theorem shallow_leaks (s : Store) (r i k : Nat) (v : Int) (hw : wfB s r = true)
    (hk : (kidsOf s r)[i]? = some k) (hv : leafVal s k ≠ v) :
    absOf (wrInner (shallow s r).1 (shallow s r).2 i v) r ≠ absOf s r := by
  obtain ⟨ks, hr, hrlt, hks⟩ := wfB_spec hw
  have hkids : kidsOf s r = ks := by simp [kidsOf, hr]
  rw [hkids] at hk
  have hkm : k ∈ ks := List.mem_of_getElem? hk
  obtain ⟨v0, hsk, hklt⟩ := hks k hkm
  have hkr : k ≠ r := by
    intro e; subst e; rw [hr] at hsk; cases hsk
  have hfin : wrInner (shallow s r).1 (shallow s r).2 i v = (s ++ [Cell.node ks]).set k (.leaf v) := by
    have : kidsOf (shallow s r).1 (shallow s r).2 = ks := by rw [shallow_kids, hkids]
    simp only [wrInner, this, hk]
    simp [shallow, hkids]
  rw [hfin]
  intro he
  have h1 : (absOf ((s ++ [Cell.node ks]).set k (.leaf v)) r)[i]? = some v := by
    have hkr' : kidsOf ((s ++ [Cell.node ks]).set k (.leaf v)) r = ks := by
      rw [kidsOf_set_leaf_ne hkr, kidsOf_append_lt hrlt, hkids]
    unfold absOf
    rw [hkr', List.getElem?_map, hk]
    simp [leafVal, List.length_append, hklt, Nat.lt_succ_of_lt hklt]
  have h2 : (absOf s r)[i]? = some (leafVal s k) := by
    unfold absOf
    rw [hkids, List.getElem?_map, hk]; rfl
  rw [he, h2] at h1
  exact hv (Option.some.inj h1)

end Navis.HeapDeep
