import NavisModel.Model.StrahlerFc
import NavisModel.Proofs.FlowLemmas
import NavisModel.Proofs.SegAnalysisLemmas
/-! The as-observed model of navis-fastcore's `strahler_index` coincides with the Strahler recurrence when nothing
is ignored (no `to_ignore`, no `min_twig_size`): the open finding concerns the ignore options only. -/
namespace Navis.Flow
open Navis.Forest

theorem one_le_strahlerRaw_nil (t : Table) (g : Bool) : ∀ (f : Nat) (i : Int), 1 ≤ strahlerRaw t g [] f i := by
  intro f
  induction f with
  | zero => intro i; simp [strahlerRaw]
  | succ f ih =>
    intro i
    rw [strahlerRaw_succ]
    by_cases hc : children t i = []
    · simp [hc]
    · simp only [hc, if_false]
      apply one_le_strahlerRule
      intro v hv
      obtain ⟨c, _, rfl⟩ := List.mem_map.mp hv
      exact ih c

theorem filter_pos_id {l : List Nat} (h : ∀ v ∈ l, 1 ≤ v) : l.filter (fun v => decide (0 < v)) = l := by
  rw [List.filter_eq_self]
  intro v hv
  have := h v hv
  simp; omega

theorem fcRaw_nil (t : Table) (g : Bool) : ∀ (f : Nat) (i : Int), fcRaw t g [] f i = strahlerRaw t g [] f i := by
  intro f
  induction f with
  | zero => intro i; simp [fcRaw, strahlerRaw]
  | succ f ih =>
    intro i
    rw [strahlerRaw_succ, fcRaw]
    have hm : (children t i).map (fcRaw t g [] f) = (children t i).map (strahlerRaw t g [] f) :=
      List.map_congr_left (fun c _ => ih c)
    cases hc : children t i with
    | nil => simp
    | cons c cs =>
      simp only [reduceCtorEq, if_false]
      rw [← hc, hm, filter_pos_id (fun v hv => by
        obtain ⟨c', _, rfl⟩ := List.mem_map.mp hv
        exact one_le_strahlerRaw_nil t g f c')]
      rw [hc]
      cases cs with
      | nil => simp [strahlerRule]
      | cons c2 cs => simp

/-- **Without ignore options the accelerator model is the Strahler recurrence.** -/
theorem strahlerFc_no_ignore (t : Table) (g : Bool) (i : Int) : strahlerFc t g [] 0 i = strahler t g [] i := by
  rw [strahler_nil]
  unfold strahlerFc
  simp only [beq_self_eq_true, if_true, List.append_nil, List.contains_nil, Bool.false_eq_true, if_false]
  cases chainLeaf t (t.length + 1) i with
  | none => exact fcRaw_nil t g _ i
  | some l => exact fcRaw_nil t g _ i

end Navis.Flow

/-! ### the Strahler model passes the twig checker -/
namespace Navis.Flow
open Navis.Forest

theorem chainLeaf_mono (t : Table) (l : Int) : ∀ (f : Nat) (x : Int), chainLeaf t f x = some l → chainLeaf t (f + 1) x = some l := by
  intro f
  induction f with
  | zero => intro x h; simp [chainLeaf] at h
  | succ f ih =>
    intro x h
    rw [chainLeaf] at h ⊢
    cases hc : children t x with
    | nil => rw [hc] at h; exact h
    | cons c cs =>
      cases cs with
      | nil => rw [hc] at h; exact ih c h
      | cons c2 cs => rw [hc] at h; simp at h

theorem chainLeaf_mono_le (t : Table) (l : Int) {f g : Nat} (hfg : f ≤ g) {x : Int} (h : chainLeaf t f x = some l) :
    chainLeaf t g x = some l := by
  induction hfg with
  | refl => exact h
  | step _ ih => exact chainLeaf_mono t l _ x ih

/-- Walking up an unbranched chain keeps the chain leaf (one more unit of fuel per step). -/
theorem chainLeaf_chain {t : Table} (l : Int) : ∀ (mid : List Int) (a : Int) (f : Nat), Linked t (a :: mid) →
    (∀ x ∈ mid, childCount t x = 1) → chainLeaf t f a = some l → ∀ x ∈ mid, chainLeaf t (f + mid.length) x = some l := by
  intro mid
  induction mid with
  | nil => intro a f _ _ _ x hx; simp at hx
  | cons b rest ih =>
    intro a f hl hc ha x hx
    obtain ⟨⟨na, hfa, hpa, _⟩, hl'⟩ := hl
    have hna := find?_some hfa
    have hab : a ∈ children t b := mem_children.mpr ⟨na, hna.1, hpa, hna.2⟩
    have hch := children_eq_singleton (hc b List.mem_cons_self) hab
    have hb : chainLeaf t (f + 1) b = some l := by
      rw [chainLeaf, hch]; exact ha
    rcases List.mem_cons.mp hx with e | e
    · rw [e]
      exact chainLeaf_mono_le t l (by simp only [List.length_cons]; omega) hb
    · have := ih b (f + 1) hl' (fun y hy => hc y (List.mem_cons_of_mem _ hy)) hb x e
      have e2 : f + (b :: rest).length = f + 1 + rest.length := by simp only [List.length_cons]; omega
      rw [e2]; exact this

/-- **The Strahler model satisfies the twig clause it is checked with**: every ignored twig that hangs on a branch
point carries that branch point's index (for every ignore list, both methods). -/
theorem strahler_passes_twig_checker {t : Table} (hw : WF t) (g : Bool) (eff : List Int) :
    ignoredTwigsOKB t eff (strahler t g eff) = true := by
  unfold ignoredTwigsOKB
  rw [List.all_eq_true]
  intro s hs
  rw [smallSegments_eq] at hs
  obtain ⟨n, hn, rfl⟩ := List.mem_map.mp hs
  obtain ⟨h1, h2, _⟩ := mem_seeds.mp hn
  obtain ⟨mid, last, e, hseg⟩ := segOf_spec hw h1 h2
  have hlast : (segOf t n.id).getLast? = some last := by rw [e]; exact List.getLast?_concat
  unfold twigOKB
  rw [show (segOf t n.id).head? = some n.id from rfl, hlast]
  simp only
  split
  · rename_i hcond
    simp only [Bool.and_eq_true, List.contains_iff_mem, beq_iff_eq, decide_eq_true_eq] at hcond
    obtain ⟨⟨hin, hc0⟩, hc2⟩ := hcond
    rw [List.all_eq_true]
    intro x hx
    rw [e, SmallSeg.dropLast_eq] at hx
    simp only [beq_iff_eq]
    -- the chain leaf of every node of the twig is its first node
    have hch0 : children t n.id = [] := by
      have := children_length t n.id
      rw [hc0] at this
      exact List.eq_nil_of_length_eq_zero this
    have hleaf0 : chainLeaf t 1 n.id = some n.id := by rw [chainLeaf, hch0]
    have hlen : (n.id :: mid).length ≤ t.length := by
      have hnd := hseg.nodup hw
      have hsub : ∀ y ∈ n.id :: mid, y ∈ ids t := by
        intro y hy
        have : y ∈ rootPath t n.id := by rw [hseg.path]; exact List.mem_append_left _ hy
        exact rootPath_sub this
      have := List.Nodup.length_le_of_subset hnd (fun y hy => hsub y hy)
      simpa [ids] using this
    have hl : Linked t (n.id :: mid) := by
      have := hseg.linked
      have e' : n.id :: mid ++ [last] = (n.id :: mid) ++ [last] := rfl
      rw [e'] at this
      exact Linked_prefix _ _ this
    have hcl : chainLeaf t (t.length + 1) x = some n.id := by
      rcases List.mem_cons.mp hx with rfl | hxm
      · exact chainLeaf_mono_le t _ (by omega) hleaf0
      · have := chainLeaf_chain n.id mid n.id 1 hl (fun y hy => (hseg.mid_slab y hy).1) hleaf0 x hxm
        exact chainLeaf_mono_le t _ (by simp only [List.length_cons] at hlen; omega) this
    have hstop : stopAbove t n.id = some last := by
      unfold stopAbove
      have : walkToStop t (isBranchOrRoot t) (t.length + 1) n.id = mid ++ [last] := by
        have e' := e
        unfold segOf at e'
        exact List.tail_eq_of_cons_eq e'
      rw [this]; exact List.getLast?_concat
    have hx' : strahler t g eff x = strahlerRaw t g eff (t.length + 1) last :=
      strahler_of_ignored t g eff hcl (by simpa using hin) hstop
    have hlastv : strahler t g eff last = strahlerRaw t g eff (t.length + 1) last := by
      apply strahler_of_not_ignored
      intro l hl'
      rw [chainLeaf] at hl'
      have hcl2 := children_length t last
      match hcc : children t last, hcl2 with
      | [], h => simp at h; omega
      | [c], h => simp at h; omega
      | c1 :: c2 :: cs, _ => rw [hcc] at hl'; simp at hl'
    rw [hx', hlastv]
  · rfl

end Navis.Flow
