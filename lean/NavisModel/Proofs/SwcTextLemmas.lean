import NavisModel.Model.SwcText
/-!
Helper lemmas for the character level of C07 (`Model/SwcText.lean`): the integer printer / lexer round trip, how the
written text splits into lines, which lines the reader treats as data.  Core Lean only.
-/
namespace Navis.SwcText

/-! ### digits -/

theorem digitChar_isDigit (d : Nat) : (digitChar d).isDigit = true := by
  unfold digitChar; split <;> decide

theorem digitChar_val {d : Nat} (h : d < 10) : (digitChar d).toNat - '0'.toNat = d := by
  match d, h with
  | 0, _ => rfl | 1, _ => rfl | 2, _ => rfl | 3, _ => rfl | 4, _ => rfl
  | 5, _ => rfl | 6, _ => rfl | 7, _ => rfl | 8, _ => rfl | 9, _ => rfl

theorem digitChar_ne_nl (d : Nat) : digitChar d ≠ '\n' := by
  unfold digitChar; split <;> decide

theorem digitChar_ne_hash (d : Nat) : digitChar d ≠ '#' := by
  unfold digitChar; split <;> decide

theorem digitChar_ne_cr (d : Nat) : digitChar d ≠ '\r' := by
  unfold digitChar; split <;> decide

theorem digitChar_ne_minus (d : Nat) : digitChar d ≠ '-' := by
  unfold digitChar; split <;> decide

theorem digitChar_ne_plus (d : Nat) : digitChar d ≠ '+' := by
  unfold digitChar; split <;> decide

/-- Every character `natDigitsAux` adds is a `digitChar`. -/
theorem natDigitsAux_mem (f n : Nat) (acc : List Char) (c : Char) (hc : c ∈ natDigitsAux f n acc) :
    c ∈ acc ∨ ∃ d, c = digitChar d := by
  induction f generalizing n acc with
  | zero => exact Or.inl hc
  | succ f ih =>
    unfold natDigitsAux at hc
    split at hc
    · rcases List.mem_cons.mp hc with h | h
      · exact Or.inr ⟨_, h⟩
      · exact Or.inl h
    · rcases ih _ _ hc with h | h
      · rcases List.mem_cons.mp h with h | h
        · exact Or.inr ⟨_, h⟩
        · exact Or.inl h
      · exact Or.inr h

theorem natDigits_mem {n : Nat} {c : Char} (hc : c ∈ natDigits n) : ∃ d, c = digitChar d := by
  rcases natDigitsAux_mem _ _ _ _ hc with h | h
  · cases h
  · exact h

theorem natDigitsAux_ne_nil (f n : Nat) (acc : List Char) : natDigitsAux (f + 1) n acc ≠ [] := by
  induction f generalizing n acc with
  | zero => unfold natDigitsAux; split <;> simp [natDigitsAux]
  | succ f ih =>
    unfold natDigitsAux
    split
    · simp
    · exact ih _ _

theorem natDigits_ne_nil (n : Nat) : natDigits n ≠ [] := natDigitsAux_ne_nil _ _ _

theorem natDigits_all_digit (n : Nat) : (natDigits n).all Char.isDigit = true := by
  rw [List.all_eq_true]
  intro c hc
  obtain ⟨d, rfl⟩ := natDigits_mem hc
  exact digitChar_isDigit d

theorem isDigits_natDigits (n : Nat) : isDigits (natDigits n) = true := by
  unfold isDigits
  rw [natDigits_all_digit]
  cases h : natDigits n with
  | nil => exact absurd h (natDigits_ne_nil n)
  | cons _ _ => rfl

/-- the value fold used by `digitsToNat` -/
def stepVal (a : Nat) (c : Char) : Nat := a * 10 + (c.toNat - '0'.toNat)

theorem foldl_natDigitsAux (f n : Nat) (acc : List Char) (hf : n < f) :
    (natDigitsAux f n acc).foldl stepVal 0 = acc.foldl stepVal n := by
  induction f generalizing n acc with
  | zero => omega
  | succ f ih =>
    unfold natDigitsAux
    split
    · rename_i h0
      have hlt : n < 10 := by omega
      simp only [List.foldl_cons, stepVal]
      rw [digitChar_val (Nat.mod_lt _ (by omega)), Nat.mod_eq_of_lt hlt]
      simp
    · rename_i h0
      have hlt : n / 10 < f := by omega
      rw [ih _ _ hlt]
      simp only [List.foldl_cons, stepVal]
      rw [digitChar_val (Nat.mod_lt _ (by omega))]
      congr 1
      have := Nat.div_add_mod n 10
      omega

theorem digitsToNat_natDigits (n : Nat) : digitsToNat (natDigits n) = n := by
  have := foldl_natDigitsAux (n + 1) n [] (by omega)
  simp only [List.foldl_nil] at this
  exact this

theorem natDigits_head (n : Nat) : ∃ d rest, natDigits n = digitChar d :: rest := by
  cases h : natDigits n with
  | nil => exact absurd h (natDigits_ne_nil n)
  | cons c rest =>
    have : c ∈ natDigits n := by rw [h]; exact List.mem_cons_self
    obtain ⟨d, rfl⟩ := natDigits_mem this
    exact ⟨d, rest, rfl⟩

/-- **The integer printer and the integer lexer round-trip.** -/
theorem lexInt_intChars (i : Int) : lexInt? (intChars i) = some i := by
  cases i with
  | ofNat n =>
    obtain ⟨d, rest, h⟩ := natDigits_head n
    have hd := isDigits_natDigits n
    have hv := digitsToNat_natDigits n
    simp only [intChars]
    rw [h] at hd hv ⊢
    unfold lexInt?
    split
    · rename_i heq; injection heq with h1 _; exact absurd h1 (digitChar_ne_minus d)
    · rename_i heq; injection heq with h1 _; exact absurd h1 (digitChar_ne_plus d)
    · rw [hd, hv]; rfl
  | negSucc n =>
    simp only [intChars, lexInt?, isDigits_natDigits, digitsToNat_natDigits, if_true]
    rfl

/-- The first character of a printed integer is a digit or `-`. -/
theorem intChars_head (i : Int) : ∃ c rest, intChars i = c :: rest ∧ c ≠ '#' ∧ c ≠ '\r' ∧ c ≠ '\n' := by
  cases i with
  | ofNat n =>
    obtain ⟨d, rest, h⟩ := natDigits_head n
    exact ⟨_, rest, h, digitChar_ne_hash d, digitChar_ne_cr d, digitChar_ne_nl d⟩
  | negSucc n => exact ⟨'-', _, rfl, by decide, by decide, by decide⟩

theorem nl_not_mem_intChars (i : Int) : '\n' ∉ intChars i := by
  cases i with
  | ofNat n =>
    intro h
    obtain ⟨d, hd⟩ := natDigits_mem h
    exact digitChar_ne_nl d hd.symm
  | negSucc n =>
    intro h
    rcases List.mem_cons.mp h with h | h
    · exact absurd h (by decide)
    · obtain ⟨d, hd⟩ := natDigits_mem h
      exact digitChar_ne_nl d hd.symm

theorem isHdr_rowLine (i : Int) (rest : List Char) : isHdr (rowLine i rest) = false := by
  obtain ⟨c, r, h, h1, _, _⟩ := intChars_head i
  simp [rowLine, h, isHdr, h1]

theorem isBlank_rowLine (i : Int) (rest : List Char) : isBlank (rowLine i rest) = false := by
  obtain ⟨c, r, h, _, h2, _⟩ := intChars_head i
  simp [rowLine, h, isBlank, h2]

theorem nl_not_mem_rowLine (i : Int) (rest : List Char) (hr : '\n' ∉ rest) : '\n' ∉ rowLine i rest := by
  intro h
  rcases List.mem_append.mp h with h | h
  · exact nl_not_mem_intChars i h
  · exact hr h

/-! ### lines -/

theorem linesAux_append_nl (a : List Char) (ha : '\n' ∉ a) (cur b : List Char) :
    linesAux cur (a ++ '\n' :: b) = (cur.reverse ++ a) :: linesAux [] b := by
  induction a generalizing cur with
  | nil => simp [linesAux]
  | cons c a ih =>
    have hc : c ≠ '\n' := fun h => ha (by simp [h])
    have ha' : '\n' ∉ a := fun h => ha (List.mem_cons_of_mem _ h)
    simp only [List.cons_append, linesAux, hc, if_false]
    rw [ih ha']
    simp

theorem lines_append_nl (a : List Char) (ha : '\n' ∉ a) (b : List Char) :
    lines (a ++ '\n' :: b) = a :: lines b := by
  simp [lines, linesAux_append_nl a ha]

/-- Text that ends with a line break splits independently of what follows. -/
theorem linesAux_append_terminated (x y cur : List Char) :
    linesAux cur (x ++ '\n' :: y) = linesAux cur (x ++ ['\n']) ++ lines y := by
  induction x generalizing cur with
  | nil => simp [linesAux, lines]
  | cons c x ih =>
    simp only [List.cons_append, linesAux]
    split
    · rw [ih]; simp
    · rw [ih]

theorem lines_append_terminated (x y : List Char) : lines (x ++ '\n' :: y) = lines (x ++ ['\n']) ++ lines y :=
  linesAux_append_terminated x y []

theorem lines_rowsText (pre : List Char) (hpre : '\n' ∉ pre) (rows : List (List Char)) (h : ∀ r ∈ rows, '\n' ∉ r) :
    lines (rowsText pre rows) = rows.map (· ++ pre) := by
  induction rows with
  | nil => rfl
  | cons r rs ih =>
    have hr : '\n' ∉ r ++ pre := by
      intro hm
      rcases List.mem_append.mp hm with hm | hm
      · exact h r List.mem_cons_self hm
      · exact hpre hm
    have : rowsText pre (r :: rs) = (r ++ pre) ++ '\n' :: rowsText pre rs := by simp [rowsText]
    rw [this, lines_append_nl _ hr, ih (fun q hq => h q (List.mem_cons_of_mem _ hq))]
    rfl

theorem endsWithNl_iff (h : List Char) : endsWithNl h = true ↔ ∃ x, h = x ++ ['\n'] := by
  unfold endsWithNl
  constructor
  · intro hh
    have : h.getLast? = some '\n' := by simpa using hh
    obtain ⟨x, hx⟩ := List.getLast?_eq_some_iff.mp this
    exact ⟨x, hx⟩
  · rintro ⟨x, rfl⟩
    simp

theorem terminateIf_true_ends (h : List Char) : ∃ x, terminateIf true h = x ++ ['\n'] := by
  unfold terminateIf
  cases hh : endsWithNl h with
  | true => simpa using (endsWithNl_iff h).mp hh
  | false => exact ⟨h, by simp⟩

/-- The lines of the text written with the newline-termination branch: the header's own lines, then one line per row. -/
theorem lines_terminated_rows (pre : List Char) (hpre : '\n' ∉ pre) (branchOn : List Char) (hx : ∃ x, branchOn = x ++ ['\n'])
    (rows : List (List Char)) (hrows : ∀ r ∈ rows, '\n' ∉ r) :
    lines (branchOn ++ rowsText pre rows) = lines branchOn ++ rows.map (· ++ pre) := by
  obtain ⟨x, rfl⟩ := hx
  have : x ++ ['\n'] ++ rowsText pre rows = x ++ '\n' :: rowsText pre rows := by simp
  rw [this, lines_append_terminated, lines_rowsText pre hpre rows hrows]

/-! ### which lines are data -/

theorem drop_takeWhile_filter {α : Type} (p q : α → Bool) (hpq : ∀ x, p x = true → q x = false) (l : List α) :
    (l.drop (l.takeWhile p).length).filter q = l.filter q := by
  induction l with
  | nil => rfl
  | cons a l ih =>
    simp only [List.takeWhile_cons]
    cases hp : p a with
    | true => simp [hpq a hp, ih]
    | false => simp

def isData (l : List Char) : Bool := !isHdr l && !isBlank l

theorem dataLines_eq_filter (ls : List (List Char)) : dataLines ls = ls.filter isData := by
  unfold dataLines hdrRows
  exact drop_takeWhile_filter isHdr isData (fun x hx => by simp [isData, hx]) ls

theorem filter_isData_header (hl : List (List Char)) (h : ∀ l ∈ hl, isHdr l = true ∨ isBlank l = true) :
    hl.filter isData = [] := by
  rw [List.filter_eq_nil_iff]
  intro l hlm
  rcases h l hlm with h1 | h1 <;> simp [isData, h1]

theorem filter_isData_rows (rs : List (List Char)) (h : ∀ l ∈ rs, isHdr l = false ∧ isBlank l = false) :
    rs.filter isData = rs := by
  rw [List.filter_eq_self]
  intro l hlm
  simp [isData, (h l hlm).1, (h l hlm).2]

theorem takeWhile_append_of_head_false {α : Type} (p : α → Bool) (a b : List α) (hb : ∀ x, b.head? = some x → p x = false) :
    (a ++ b).takeWhile p = a.takeWhile p := by
  induction a with
  | nil =>
    cases b with
    | nil => rfl
    | cons x b => simp [hb x rfl]
  | cons x a ih =>
    simp only [List.cons_append, List.takeWhile_cons]
    split
    · rw [ih]
    · rfl

theorem isHdr_append_cr {l : List Char} (pre : List Char) (h : isHdr l = false) (hne : l ≠ []) : isHdr (l ++ pre) = false := by
  cases l with
  | nil => exact absurd rfl hne
  | cons c l => simpa [isHdr] using h

theorem isBlank_append_cr {l : List Char} (pre : List Char) (h : isBlank l = false) : isBlank (l ++ pre) = false := by
  unfold isBlank at *
  rw [List.all_append]
  simp [h]

/-- Data lines of `header-lines ++ row-lines` when the header has only `#` / blank lines and the rows are data lines. -/
theorem dataLines_header_rows (hl rs : List (List Char)) (hh : ∀ l ∈ hl, isHdr l = true ∨ isBlank l = true)
    (hr : ∀ l ∈ rs, isHdr l = false ∧ isBlank l = false) : dataLines (hl ++ rs) = rs := by
  rw [dataLines_eq_filter, List.filter_append, filter_isData_header hl hh, filter_isData_rows rs hr]
  rfl

theorem hdrRows_header_rows (hl rs : List (List Char)) (hr : ∀ l ∈ rs, isHdr l = false) :
    hdrRows (hl ++ rs) = hdrRows hl := by
  unfold hdrRows
  apply takeWhile_append_of_head_false
  intro x hx
  cases rs with
  | nil => simp at hx
  | cons a rs => simp at hx; subst hx; exact hr a List.mem_cons_self

/-- Lines of the text written WITHOUT the termination branch for a header whose last line `last` is unterminated:
the first row is glued to `last`. -/
theorem lines_raw_glued (pre : List Char) (hpre : '\n' ∉ pre) (x last r : List Char) (rs : List (List Char))
    (hx : x = [] ∨ ∃ x', x = x' ++ ['\n']) (hnl : '\n' ∉ last) (hr : '\n' ∉ r) (hrs : ∀ q ∈ rs, '\n' ∉ q) :
    lines (x ++ last ++ rowsText pre (r :: rs)) = lines x ++ (last ++ r ++ pre) :: rs.map (· ++ pre) := by
  have hg : '\n' ∉ last ++ r ++ pre := by
    intro hm
    simp only [List.mem_append] at hm
    rcases hm with (hm | hm) | hm
    · exact hnl hm
    · exact hr hm
    · exact hpre hm
  have e : x ++ last ++ rowsText pre (r :: rs) = x ++ ((last ++ r ++ pre) ++ '\n' :: rowsText pre rs) := by
    simp [rowsText]
  rw [e]
  rcases hx with rfl | ⟨x', rfl⟩
  · rw [List.nil_append, lines_append_nl _ hg, lines_rowsText pre hpre rs hrs]; rfl
  · have : x' ++ ['\n'] ++ ((last ++ r ++ pre) ++ '\n' :: rowsText pre rs) = x' ++ '\n' :: ((last ++ r ++ pre) ++ '\n' :: rowsText pre rs) := by simp
    rw [this, lines_append_terminated, lines_append_nl _ hg, lines_rowsText pre hpre rs hrs]

theorem isHdr_append_of_isHdr {a : List Char} (b : List Char) (h : isHdr a = true) : isHdr (a ++ b) = true := by
  cases a with
  | nil => simp [isHdr] at h
  | cons c a => simpa [isHdr] using h

/-! ### a user supplied header after `_write_swc` turned its lines into comments -/

theorem splitAll_ne_nil (cs : List Char) : splitAll cs ≠ [] := by
  cases cs with
  | nil => simp [splitAll]
  | cons c cs =>
    unfold splitAll
    split
    · simp
    · split <;> simp

theorem splitAll_no_nl_self (p : List Char) (hp : '\n' ∉ p) : splitAll p = [p] := by
  induction p with
  | nil => rfl
  | cons c p ih =>
    have hc : c ≠ '\n' := fun h => hp (by simp [h])
    have := ih (fun h => hp (List.mem_cons_of_mem _ h))
    simp [splitAll, hc, this]

theorem splitAll_append_nl (p : List Char) (hp : '\n' ∉ p) (r : List Char) : splitAll (p ++ '\n' :: r) = p :: splitAll r := by
  induction p with
  | nil => simp [splitAll]
  | cons c p ih =>
    have hc : c ≠ '\n' := fun h => hp (by simp [h])
    have := ih (fun h => hp (List.mem_cons_of_mem _ h))
    simp [splitAll, hc, this]

theorem splitAll_joinNl (ps : List (List Char)) (hne : ps ≠ []) (h : ∀ p ∈ ps, '\n' ∉ p) : splitAll (joinNl ps) = ps := by
  induction ps with
  | nil => exact absurd rfl hne
  | cons p ps ih =>
    cases ps with
    | nil => exact splitAll_no_nl_self p (h p List.mem_cons_self)
    | cons q ps =>
      simp only [joinNl]
      rw [splitAll_append_nl p (h p List.mem_cons_self), ih (by simp) (fun x hx => h x (List.mem_cons_of_mem _ hx))]

theorem splitAll_pieces_no_nl (cs : List Char) : ∀ p ∈ splitAll cs, '\n' ∉ p := by
  induction cs with
  | nil => intro p hp; simp [splitAll] at hp; subst hp; simp
  | cons c cs ih =>
    intro p hp
    unfold splitAll at hp
    split at hp
    · rcases List.mem_cons.mp hp with rfl | hp
      · simp
      · exact ih p hp
    · rename_i hc
      split at hp
      · rename_i q qs hq
        rcases List.mem_cons.mp hp with rfl | hp
        · intro hm
          rcases List.mem_cons.mp hm with hm | hm
          · exact hc hm.symm
          · exact ih q (by rw [hq]; exact List.mem_cons_self) hm
        · exact ih p (by rw [hq]; exact List.mem_cons_of_mem _ hp)
      · simp at hp; subst hp
        intro hm; simp at hm; exact hc hm.symm

theorem splitAll_append_singleton_nl (h : List Char) : splitAll (h ++ ['\n']) = splitAll h ++ [[]] := by
  induction h with
  | nil => simp [splitAll]
  | cons c h ih =>
    simp only [List.cons_append, splitAll]
    split
    · rw [ih]; rfl
    · rw [ih]
      cases hs : splitAll h with
      | nil => exact absurd hs (splitAll_ne_nil h)
      | cons q qs => rfl

/-- Every line of a text is one of its `split("\n")` pieces. -/
theorem linesAux_mem_splitAll : ∀ (cs cur : List Char) (l : List Char), l ∈ linesAux cur cs →
    ∃ p ps, splitAll cs = p :: ps ∧ (l = cur.reverse ++ p ∨ l ∈ ps) := by
  intro cs
  induction cs with
  | nil =>
    intro cur l hl
    refine ⟨[], [], rfl, Or.inl ?_⟩
    simp only [linesAux] at hl
    split at hl
    · simp at hl
    · simp at hl; simp [hl]
  | cons c cs ih =>
    intro cur l hl
    simp only [linesAux] at hl
    split at hl
    · rename_i hc
      subst hc
      refine ⟨[], splitAll cs, by simp [splitAll], ?_⟩
      rcases List.mem_cons.mp hl with rfl | hl
      · left; simp
      · obtain ⟨p, ps, hs, hor⟩ := ih [] l hl
        right; rw [hs]
        rcases hor with rfl | hm
        · simp
        · exact List.mem_cons_of_mem _ hm
    · rename_i hc
      obtain ⟨p, ps, hs, hor⟩ := ih (c :: cur) l hl
      refine ⟨c :: p, ps, by simp [splitAll, hc, hs], ?_⟩
      rcases hor with rfl | hm
      · left; simp
      · right; exact hm

theorem lines_mem_splitAll {cs l : List Char} (hl : l ∈ lines cs) : l ∈ splitAll cs := by
  obtain ⟨p, ps, hs, hor⟩ := linesAux_mem_splitAll cs [] l hl
  rw [hs]
  rcases hor with rfl | hm
  · simp
  · exact List.mem_cons_of_mem _ hm

theorem lines_terminateIf_mem (b : Bool) {h l : List Char} (hl : l ∈ lines (terminateIf b h)) : l ∈ splitAll h ∨ l = [] := by
  have := lines_mem_splitAll hl
  unfold terminateIf at this
  split at this
  · rw [splitAll_append_singleton_nl] at this
    rcases List.mem_append.mp this with h1 | h1
    · exact Or.inl h1
    · right; simpa using h1
  · exact Or.inl this

theorem commentLine_ok (pre : List Char) (hp : isHdr pre = true) (l : List Char) :
    isHdr (commentLine pre l) = true ∨ isBlank (commentLine pre l) = true := by
  unfold commentLine
  cases h1 : isHdr l with
  | true => simp [h1]
  | false =>
    cases h2 : isBlank l with
    | true => simp [h1, h2]
    | false =>
      simp only [h1, h2, Bool.or_self, Bool.false_eq_true, if_false]
      exact Or.inl (isHdr_append_of_isHdr l hp)

theorem commentLine_no_nl (pre : List Char) (hpre : '\n' ∉ pre) (l : List Char) (hl : '\n' ∉ l) : '\n' ∉ commentLine pre l := by
  unfold commentLine
  split
  · exact hl
  · intro hm
    rcases List.mem_append.mp hm with h | h
    · exact hpre h
    · exact hl h

/-- **Every line of the header text `_write_swc` writes for a user supplied header is a comment or blank**, whatever the string. -/
theorem commentised_lines_ok (b : Bool) (pre : List Char) (hp : isHdr pre = true) (hpre : '\n' ∉ pre) (h : List Char) :
    ∀ l ∈ lines (terminateIf b (commentiseWith pre h)), isHdr l = true ∨ isBlank l = true := by
  intro l hl
  rcases lines_terminateIf_mem b hl with hm | rfl
  · unfold commentiseWith at hm
    rw [splitAll_joinNl _ (by simp [splitAll_ne_nil])] at hm
    · obtain ⟨q, _, rfl⟩ := List.mem_map.mp hm
      exact commentLine_ok pre hp q
    · intro p hpm
      obtain ⟨q, hq, rfl⟩ := List.mem_map.mp hpm
      exact commentLine_no_nl pre hpre q (splitAll_pieces_no_nl h q hq)
  · right; rfl

end Navis.SwcText
