import NavisModel.Model.InVolumeShape
/-! Helper lemmas: a shape without a recognised deviation is the hand-written model.  Core Lean only. -/
namespace Navis.Volume

theorem notFalse_iff (o : Option Bool) : notFalse o = true ↔ (o == some false) = false := by
  unfold notFalse
  cases o with
  | none => simp
  | some b => cases b <;> simp

theorem Shape.ok_fields (s : Shape) (h : s.ok = true) :
    (s.invertBeforeShortcut == some false) = false ∧ (s.invertOnOUT == some false) = false
    ∧ (s.innerModeIN == some false) = false ∧ (s.dictForwardsMode == some false) = false
    ∧ (s.listForwardsMode == some false) = false ∧ (s.pruneForwardsMode == some false) = false
    ∧ (s.treeSubsetById == some false) = false ∧ (s.defaultModeIN == some false) = false := by
  unfold Shape.ok at h
  simp only [Bool.and_eq_true, notFalse_iff] at h
  obtain ⟨⟨⟨⟨⟨⟨⟨h1, h2⟩, h3⟩, h4⟩, h5⟩, h6⟩, h7⟩, h8⟩ := h
  exact ⟨h1, h2, h3, h4, h5, h6, h7, h8⟩

theorem inVolumeTreeAs_eq (s : Shape) (h : s.ok = true) (μ : Inside) (mode : Mode) (t : Tree) :
    inVolumeTreeAs s μ mode t = inVolumeTree μ mode t := by
  obtain ⟨h1, h2, h3, _, _, _, h7, _⟩ := s.ok_fields h
  unfold inVolumeTreeAs inVolumeTree Shape.treeSubset Shape.effMode
  simp [h1, h2, h3, h7]

theorem pruneByVolumeAs_eq (s : Shape) (h : s.ok = true) (μ : Inside) (mode : Mode) (t : Tree) :
    pruneByVolumeAs s μ mode t = pruneByVolume μ mode t := by
  obtain ⟨_, _, _, _, _, h6, _, _⟩ := s.ok_fields h
  unfold pruneByVolumeAs pruneByVolume
  simp [h6, inVolumeTreeAs_eq s h]

theorem inVolumeListAs_eq (s : Shape) (h : s.ok = true) (μ : Inside) (mode : Mode) (ts : List Tree) :
    inVolumeListAs s μ mode ts = inVolumeList μ mode ts := by
  obtain ⟨_, _, _, _, h5, _, _, _⟩ := s.ok_fields h
  unfold inVolumeListAs inVolumeList
  simp only [h5, Bool.false_eq_true, if_false]
  apply List.map_congr_left
  intro t _
  exact inVolumeTreeAs_eq s h μ mode t

theorem dictMode_eq (s : Shape) (h : s.ok = true) (mode : Mode) : s.dictMode mode = mode := by
  obtain ⟨_, _, _, h4, _, _, _, _⟩ := s.ok_fields h
  unfold Shape.dictMode
  simp [h4]

end Navis.Volume
