import NavisModel.Model.Heap
/-!
Helper lemmas for C03 (heap model).  Core Lean only.

* `Ext s t` — every data / object / list cell of `s` is present and unchanged in `t` (the call only allocated);
* `Inv s0 t y v` — the receiver `y` is an object allocated after `s0` whose attributes are bound to cells allocated
  after `s0`, except possibly the graph attribute while it is a view (`v` over-approximates the view flag);
* `Sep t o` — the receiver is a valid object whose attributes are bound to pairwise distinct, valid data cells;
  under `Sep` the concrete semantics `exec` refines the address-free semantics `aexec`.
-/
namespace Navis.Heap

/-! ## basic store facts -/

structure Ext (s t : Store) : Prop where
  dlen : s.data.length ≤ t.data.length
  dget : ∀ r, r < s.data.length → t.data[r]? = s.data[r]?
  olen : s.objs.length ≤ t.objs.length
  oget : ∀ o, o < s.objs.length → t.objs[o]? = s.objs[o]?
  llen : s.lists.length ≤ t.lists.length
  lget : ∀ l, l < s.lists.length → t.lists[l]? = s.lists[l]?

theorem Ext.refl (s : Store) : Ext s s :=
  ⟨Nat.le_refl _, fun _ _ => rfl, Nat.le_refl _, fun _ _ => rfl, Nat.le_refl _, fun _ _ => rfl⟩

theorem Ext.trans {s t u : Store} (h1 : Ext s t) (h2 : Ext t u) : Ext s u where
  dlen := Nat.le_trans h1.dlen h2.dlen
  dget r hr := by rw [h2.dget r (Nat.lt_of_lt_of_le hr h1.dlen), h1.dget r hr]
  olen := Nat.le_trans h1.olen h2.olen
  oget o ho := by rw [h2.oget o (Nat.lt_of_lt_of_le ho h1.olen), h1.oget o ho]
  llen := Nat.le_trans h1.llen h2.llen
  lget l hl := by rw [h2.lget l (Nat.lt_of_lt_of_le hl h1.llen), h1.lget l hl]

theorem Ext.rd {s t : Store} (h : Ext s t) {r : Ref} (hr : r < s.data.length) : t.rd r = s.rd r := by
  unfold Store.rd; rw [h.dget r hr]

theorem Ext.obj {s t : Store} (h : Ext s t) {o : Ref} (ho : o < s.objs.length) : t.obj o = s.obj o := by
  unfold Store.obj; rw [h.oget o ho]

theorem Ext.lst {s t : Store} (h : Ext s t) {l : Ref} (hl : l < s.lists.length) : t.lst l = s.lst l := by
  unfold Store.lst; rw [h.lget l hl]

/-- writing a data cell that did not exist in `s0` keeps `Ext s0` -/
theorem Ext.wr_fresh {s0 t : Store} (h : Ext s0 t) {r : Ref} (hr : s0.data.length ≤ r) (v : Int) :
    Ext s0 (t.wr r v) where
  dlen := by simp [Store.wr]; exact h.dlen
  dget q hq := by
    have : r ≠ q := Nat.ne_of_gt (Nat.lt_of_lt_of_le hq hr)
    simp [Store.wr, List.getElem?_set_ne this]; exact h.dget q hq
  olen := h.olen
  oget := h.oget
  llen := h.llen
  lget := h.lget

theorem Ext.allocD {s0 t : Store} (h : Ext s0 t) (v : Int) : Ext s0 (t.allocD v).1 where
  dlen := by simp [Store.allocD]; have := h.dlen; omega
  dget q hq := by
    have : q < t.data.length := Nat.lt_of_lt_of_le hq h.dlen
    simp [Store.allocD, List.getElem?_append_left this]; exact h.dget q hq
  olen := h.olen
  oget := h.oget
  llen := h.llen
  lget := h.lget

theorem Ext.setObj_fresh {s0 t : Store} (h : Ext s0 t) {o : Ref} (ho : s0.objs.length ≤ o) (ob : Obj) :
    Ext s0 (t.setObj o ob) where
  dlen := h.dlen
  dget := h.dget
  olen := by simp [Store.setObj]; exact h.olen
  oget q hq := by
    have : o ≠ q := Nat.ne_of_gt (Nat.lt_of_lt_of_le hq ho)
    simp [Store.setObj, List.getElem?_set_ne this]; exact h.oget q hq
  llen := h.llen
  lget := h.lget

theorem Ext.allocObj {s0 t : Store} (h : Ext s0 t) (ob : Obj) : Ext s0 (t.allocObj ob).1 where
  dlen := h.dlen
  dget := h.dget
  olen := by simp [Store.allocObj]; have := h.olen; omega
  oget q hq := by
    have : q < t.objs.length := Nat.lt_of_lt_of_le hq h.olen
    simp [Store.allocObj, List.getElem?_append_left this]; exact h.oget q hq
  llen := h.llen
  lget := h.lget

theorem Ext.allocLst {s0 t : Store} (h : Ext s0 t) (xs : List Ref) : Ext s0 (t.allocLst xs).1 where
  dlen := h.dlen
  dget := h.dget
  olen := h.olen
  oget := h.oget
  llen := by simp [Store.allocLst]; have := h.llen; omega
  lget q hq := by
    have : q < t.lists.length := Nat.lt_of_lt_of_le hq h.llen
    simp [Store.allocLst, List.getElem?_append_left this]; exact h.lget q hq

/-! reading back -/

@[simp] theorem obj_setObj_same {t : Store} {o : Ref} (ho : o < t.objs.length) (ob : Obj) :
    (t.setObj o ob).obj o = ob := by
  simp [Store.setObj, Store.obj, ho]

theorem obj_setObj_ne {t : Store} {o o' : Ref} (h : o ≠ o') (ob : Obj) :
    (t.setObj o ob).obj o' = t.obj o' := by
  simp [Store.setObj, Store.obj, List.getElem?_set_ne h]

@[simp] theorem rd_setObj (t : Store) (o : Ref) (ob : Obj) (r : Ref) : (t.setObj o ob).rd r = t.rd r := rfl
@[simp] theorem data_setObj (t : Store) (o : Ref) (ob : Obj) : (t.setObj o ob).data = t.data := rfl
@[simp] theorem objs_length_setObj (t : Store) (o : Ref) (ob : Obj) :
    (t.setObj o ob).objs.length = t.objs.length := by simp [Store.setObj]
@[simp] theorem lists_setObj (t : Store) (o : Ref) (ob : Obj) : (t.setObj o ob).lists = t.lists := rfl
@[simp] theorem obj_wr (t : Store) (r : Ref) (v : Int) (o : Ref) : (t.wr r v).obj o = t.obj o := rfl
@[simp] theorem objs_wr (t : Store) (r : Ref) (v : Int) : (t.wr r v).objs = t.objs := rfl
@[simp] theorem lists_wr (t : Store) (r : Ref) (v : Int) : (t.wr r v).lists = t.lists := rfl
@[simp] theorem data_length_wr (t : Store) (r : Ref) (v : Int) : (t.wr r v).data.length = t.data.length := by
  simp [Store.wr]
@[simp] theorem obj_allocD (t : Store) (v : Int) (o : Ref) : (t.allocD v).1.obj o = t.obj o := rfl
@[simp] theorem objs_allocD (t : Store) (v : Int) : (t.allocD v).1.objs = t.objs := rfl
@[simp] theorem lists_allocD (t : Store) (v : Int) : (t.allocD v).1.lists = t.lists := rfl
@[simp] theorem snd_allocD (t : Store) (v : Int) : (t.allocD v).2 = t.data.length := rfl
@[simp] theorem data_length_allocD (t : Store) (v : Int) : (t.allocD v).1.data.length = t.data.length + 1 := by
  simp [Store.allocD]

theorem rd_wr_same {t : Store} {r : Ref} (hr : r < t.data.length) (v : Int) : (t.wr r v).rd r = v := by
  simp [Store.wr, Store.rd, hr]

theorem rd_wr_ne {t : Store} {r q : Ref} (h : r ≠ q) (v : Int) : (t.wr r v).rd q = t.rd q := by
  simp [Store.wr, Store.rd, List.getElem?_set_ne h]

theorem rd_allocD_new (t : Store) (v : Int) : (t.allocD v).1.rd t.data.length = v := by
  simp [Store.allocD, Store.rd]

theorem rd_allocD_old {t : Store} {q : Ref} (h : q < t.data.length) (v : Int) : (t.allocD v).1.rd q = t.rd q := by
  simp [Store.allocD, Store.rd, List.getElem?_append_left h]

/-! ## attribute records -/

theorem Obj.get_set (ob : Obj) (a a' : Attr) (v : Option Ref) :
    (ob.set a v).get a' = if a' = a then v else ob.get a' := by
  cases a <;> cases a' <;> simp [Obj.set, Obj.get]

theorem Abs.get_set (x : Abs) (a a' : Attr) (v : Option Int) :
    (x.set a v).get a' = if a' = a then v else x.get a' := by
  cases a <;> cases a' <;> simp [Abs.set, Abs.get]

theorem Obj.view_set (ob : Obj) (a : Attr) (v : Option Ref) :
    (ob.set a v).view = if a = .graph then false else ob.view := by
  cases a <;> simp [Obj.set]

@[simp] theorem Obj.info_set (ob : Obj) (a : Attr) (v : Option Ref) : (ob.set a v).info = ob.info := by
  cases a <;> rfl

theorem Obj.mem_refs {ob : Obj} {r : Ref} : r ∈ ob.refs ↔ ∃ a, ob.get a = some r := by
  unfold Obj.refs
  simp only [List.mem_append, Option.mem_toList]
  constructor
  · rintro (((h | h) | h) | h)
    · exact ⟨.nodes, h⟩
    · exact ⟨.conns, h⟩
    · exact ⟨.graph, h⟩
    · exact ⟨.igraph, h⟩
  · rintro ⟨a, h⟩
    cases a
    · exact .inl (.inl (.inl h))
    · exact .inl (.inl (.inr h))
    · exact .inl (.inr h)
    · exact .inr h

/-! ## the ownership invariant and the frame -/

/-- The receiver `y` was allocated after `s0`, and so was every container it is bound to — except possibly the
graph attribute while it is still a view (`v` over-approximates the view flag). -/
structure Inv (s0 t : Store) (y : Ref) (v : Bool) : Prop where
  ext : Ext s0 t
  fresh : s0.objs.length ≤ y
  own : ∀ a r, (t.obj y).get a = some r → (a = .graph ∧ (t.obj y).view = true) ∨ s0.data.length ≤ r
  flag : (t.obj y).view = true → v = true

theorem step_inv {s0 t : Store} {y : Ref} {v : Bool} (hy : y < t.objs.length) (h : Inv s0 t y v) (st : Stmt)
    (hst : (v && st.needsOwnGraph) = false) :
    Inv s0 (step t y st) y (v && !st.ownsGraph) ∧ y < (step t y st).objs.length := by
  cases st with
  | wr a f =>
    simp only [step]
    split
    · exact ⟨⟨h.ext, h.fresh, h.own, by
        intro hv; have := h.flag hv; subst this
        cases a <;> simp [Stmt.ownsGraph]⟩, hy⟩
    · rename_i r hr
      have hown := h.own a r hr
      have hr' : s0.data.length ≤ r := by
        rcases hown with ⟨ha, hv⟩ | h'
        · subst ha; have := h.flag hv; subst this; simp [Stmt.needsOwnGraph] at hst
        · exact h'
      refine ⟨⟨h.ext.wr_fresh hr' _, h.fresh, ?_, ?_⟩, by simpa using hy⟩
      · simpa using h.own
      · intro hv; have := h.flag (by simpa using hv); subst this
        cases a <;> simp [Stmt.ownsGraph]
  | rebind a f =>
    simp only [step]
    have hy' : y < (t.allocD (f (t.abs y))).1.objs.length := by simpa using hy
    refine ⟨⟨(h.ext.allocD _).setObj_fresh h.fresh _, h.fresh, ?_, ?_⟩, by simpa using hy⟩
    · intro a' r hr
      rw [obj_setObj_same hy', Obj.get_set] at hr
      rw [obj_setObj_same hy', Obj.view_set]
      split at hr
      · injection hr with hr; subst hr
        right; simp; exact h.ext.dlen
      · rename_i hne
        rcases h.own a' r hr with ⟨ha, hv⟩ | h'
        · left; subst ha
          have : a ≠ .graph := fun e => hne e.symm
          simp [this, hv]
        · exact .inr h'
    · rw [obj_setObj_same hy', Obj.view_set]
      intro hv
      cases a <;> simp_all [Stmt.ownsGraph] <;> exact h.flag hv
  | setMeta f =>
    simp only [step]
    refine ⟨⟨h.ext.setObj_fresh h.fresh _, h.fresh, ?_, ?_⟩, by simpa using hy⟩
    · intro a r hr
      rw [obj_setObj_same hy] at hr ⊢
      have : ({ t.obj y with info := f (t.abs y) } : Obj).get a = (t.obj y).get a := by cases a <;> rfl
      rw [this] at hr
      exact h.own a r hr
    · rw [obj_setObj_same hy]; intro hv; simp [Stmt.ownsGraph]; exact h.flag hv
  | thaw =>
    simp only [step]
    split
    · split
      · refine ⟨⟨h.ext.setObj_fresh h.fresh _, h.fresh, ?_, ?_⟩, by simpa using hy⟩
        · intro a r hr
          rw [obj_setObj_same hy, Obj.get_set] at hr
          rw [obj_setObj_same hy, Obj.view_set]
          split at hr
          · cases hr
          · rename_i hne
            rcases h.own a r hr with ⟨ha, _⟩ | h'
            · exact absurd ha hne
            · exact .inr h'
        · rw [obj_setObj_same hy, Obj.view_set]; simp
      · rename_i r hr
        have hy' : y < (t.allocD (t.rd r)).1.objs.length := by simpa using hy
        refine ⟨⟨(h.ext.allocD _).setObj_fresh h.fresh _, h.fresh, ?_, ?_⟩, by simpa using hy⟩
        · intro a r' hr'
          rw [obj_setObj_same hy', Obj.get_set] at hr'
          rw [obj_setObj_same hy', Obj.view_set]
          split at hr'
          · injection hr' with hr'; subst hr'
            right; simp; exact h.ext.dlen
          · rename_i hne
            rcases h.own a r' hr' with ⟨ha, _⟩ | h'
            · exact absurd ha hne
            · exact .inr h'
        · rw [obj_setObj_same hy', Obj.view_set]; simp
    · rename_i hv
      refine ⟨⟨h.ext, h.fresh, h.own, ?_⟩, hy⟩
      intro hv'; exact absurd hv' hv
  | clear a =>
    simp only [step]
    refine ⟨⟨h.ext.setObj_fresh h.fresh _, h.fresh, ?_, ?_⟩, by simpa using hy⟩
    · intro a' r hr
      rw [obj_setObj_same hy, Obj.get_set] at hr
      rw [obj_setObj_same hy, Obj.view_set]
      split at hr
      · cases hr
      · rename_i hne
        rcases h.own a' r hr with ⟨ha, hv⟩ | h'
        · left; subst ha
          have : a ≠ .graph := fun e => hne e.symm
          simp [this, hv]
        · exact .inr h'
    · rw [obj_setObj_same hy, Obj.view_set]
      intro hv
      cases a <;> simp_all [Stmt.ownsGraph] <;> exact h.flag hv

theorem exec_inv {s0 : Store} {y : Ref} (b : List Stmt) : ∀ (t : Store) (v : Bool), y < t.objs.length →
    Inv s0 t y v → writesOwn v b = true →
    Inv s0 (exec t y b) y (viewAfter v b) ∧ y < (exec t y b).objs.length := by
  induction b with
  | nil => intro t v hy h _; exact ⟨h, hy⟩
  | cons st b ih =>
    intro t v hy h hw
    simp only [writesOwn, Bool.and_eq_true, Bool.not_eq_true'] at hw
    obtain ⟨h1, h2⟩ := step_inv hy h st hw.1
    exact ih (step t y st) _ h2 h1 hw.2

/-! ## copy -/

theorem dup_ext {s0 t : Store} (h : Ext s0 t) (r : Option Ref) : Ext s0 (t.dup r).1 := by
  cases r with
  | none => exact h
  | some r => exact h.allocD _

@[simp] theorem dup_objs (t : Store) (r : Option Ref) : (t.dup r).1.objs = t.objs := by cases r <;> rfl
@[simp] theorem dup_lists (t : Store) (r : Option Ref) : (t.dup r).1.lists = t.lists := by cases r <;> rfl

theorem dup_len_le (t : Store) (r : Option Ref) : t.data.length ≤ (t.dup r).1.data.length := by
  cases r with
  | none => exact Nat.le_refl _
  | some r => simp [Store.dup]

theorem dup_some {t : Store} {r : Option Ref} {q : Ref} (h : (t.dup r).2 = some q) :
    q = t.data.length ∧ q < (t.dup r).1.data.length ∧ ∃ r0, r = some r0 ∧ (t.dup r).1.rd q = t.rd r0 := by
  cases r with
  | none => cases h
  | some r0 =>
    simp only [Store.dup, snd_allocD, Option.some.injEq] at h
    subst h
    exact ⟨rfl, by simp [Store.dup], r0, rfl, rd_allocD_new _ _⟩

theorem dup_isSome (t : Store) (r : Option Ref) : (t.dup r).2.isSome = r.isSome := by cases r <;> rfl

theorem dup_rd_old {t : Store} (r : Option Ref) {q : Ref} (hq : q < t.data.length) : (t.dup r).1.rd q = t.rd q := by
  cases r with
  | none => rfl
  | some r => exact rd_allocD_old hq _

/-- the object `copy` creates -/
def copyOf (s : Store) (x : Ref) (stale : Bool) : Obj :=
  let ob := s.obj x
  let p1 := s.dup ob.nodes
  let p2 := p1.1.dup ob.conns
  let p3 := if stale then (p2.1, none) else p2.1.dup ob.igraph
  { nodes := p1.2, conns := p2.2, igraph := p3.2, info := ob.info, lock := 0,
    graph := if stale then none else ob.graph, view := if stale then false else ob.graph.isSome }

theorem copyObj_snd (s : Store) (x : Ref) (stale : Bool) : (copyObj s x stale).2 = s.objs.length := by
  cases stale <;> simp [copyObj, Store.allocObj]

theorem copyObj_obj (s : Store) (x : Ref) (stale : Bool) :
    (copyObj s x stale).1.obj s.objs.length = copyOf s x stale := by
  cases stale <;> simp [copyObj, copyOf, Store.allocObj, Store.obj]

theorem copyObj_objs_length (s : Store) (x : Ref) (stale : Bool) :
    (copyObj s x stale).1.objs.length = s.objs.length + 1 := by
  cases stale <;> simp [copyObj, Store.allocObj]

theorem copyObj_ext (s : Store) (x : Ref) (stale : Bool) : Ext s (copyObj s x stale).1 := by
  cases stale
  · exact (dup_ext (dup_ext (dup_ext (Ext.refl s) _) _) _).allocObj _
  · exact (dup_ext (dup_ext (Ext.refl s) _) _).allocObj _

theorem copyObj_inv (s : Store) (x : Ref) (stale : Bool) :
    Inv s (copyObj s x stale).1 s.objs.length true where
  ext := copyObj_ext s x stale
  fresh := Nat.le_refl _
  flag _ := rfl
  own a r hr := by
    rw [copyObj_obj] at hr ⊢
    cases a with
    | nodes =>
      right; simp only [copyOf, Obj.get] at hr
      exact Nat.le_of_eq (dup_some hr).1.symm
    | conns =>
      right; simp only [copyOf, Obj.get] at hr
      rw [(dup_some hr).1]; exact dup_len_le s (s.obj x).nodes
    | graph =>
      left; refine ⟨rfl, ?_⟩
      cases stale
      · simp only [copyOf, Obj.get] at hr ⊢; simp at hr ⊢; simp [hr]
      · simp [copyOf, Obj.get] at hr
    | igraph =>
      right
      cases stale
      · simp only [copyOf, Obj.get] at hr; simp at hr
        rw [(dup_some hr).1]
        exact Nat.le_trans (dup_len_le s (s.obj x).nodes) (dup_len_le (s.dup (s.obj x).nodes).1 (s.obj x).conns)
      · simp [copyOf, Obj.get] at hr

/-- **Frame of the pattern**: whatever the body, as long as it respects `writesOwn`, a non-inplace call only
allocates: every cell of the old store survives unchanged. -/
theorem call_ext (b : List Stmt) (s : Store) (x : Ref) (stale : Bool) (hw : writesOwn true b = true) :
    Ext s (call b s x false stale).1 := by
  simp only [call, Bool.false_eq_true, if_false]
  rw [copyObj_snd]
  have hlen : s.objs.length < (copyObj s x stale).1.objs.length := by rw [copyObj_objs_length]; omega
  exact (exec_inv b _ true hlen (copyObj_inv s x stale) hw).1.ext

theorem call_snd_false (b : List Stmt) (s : Store) (x : Ref) (stale : Bool) :
    (call b s x false stale).2 = s.objs.length := by
  simp [call, copyObj_snd]

theorem exec_append (s : Store) (o : Ref) (b b' : List Stmt) : exec s o (b ++ b') = exec (exec s o b) o b' := by
  simp [exec, List.foldl_append]

theorem call_append (b b' : List Stmt) (s : Store) (x : Ref) (ip stale : Bool) :
    call (b ++ b') s x ip stale = (exec (call b s x ip stale).1 (call b s x ip stale).2 b', (call b s x ip stale).2) := by
  cases ip <;> simp [call, exec_append]

theorem viewAfter_append (v : Bool) (b b' : List Stmt) : viewAfter v (b ++ b') = viewAfter (viewAfter v b) b' := by
  simp [viewAfter, List.foldl_append]

theorem writesOwn_append (v : Bool) (b b' : List Stmt) :
    writesOwn v (b ++ b') = (writesOwn v b && writesOwn (viewAfter v b) b') := by
  induction b generalizing v with
  | nil => simp [writesOwn, viewAfter]
  | cons st b ih => simp [writesOwn, viewAfter, ih, Bool.and_assoc]

theorem writesOwn_mono (b : List Stmt) : ∀ v, writesOwn true b = true → writesOwn v b = true := by
  intro v h; cases v
  · induction b with
    | nil => rfl
    | cons st b ih => simp [writesOwn]; exact ih_false b
  · exact h
where
  ih_false : ∀ b : List Stmt, writesOwn false b = true := by
    intro b; induction b with
    | nil => rfl
    | cons st b ih => simp [writesOwn, ih]

theorem writesOwn_noGraphWrite (v : Bool) (b : List Stmt) (h : ∀ st ∈ b, st.needsOwnGraph = false) :
    writesOwn v b = true := by
  induction b generalizing v with
  | nil => rfl
  | cons st b ih =>
    simp only [writesOwn, Bool.and_eq_true, Bool.not_eq_true']
    refine ⟨?_, ih _ fun st' hst' => h st' (List.mem_cons_of_mem _ hst')⟩
    rw [h st (List.mem_cons_self ..)]; simp

/-! ## the concrete semantics refines the address-free one -/

/-- The receiver is a valid object bound to valid, pairwise distinct containers. -/
structure Sep (t : Store) (o : Ref) : Prop where
  valid : o < t.objs.length
  bound : ∀ a r, (t.obj o).get a = some r → r < t.data.length
  inj : ∀ a a' r, (t.obj o).get a = some r → (t.obj o).get a' = some r → a = a'

theorem Abs.ext' {x y : Abs} (h : ∀ a, x.get a = y.get a) (hi : x.info = y.info) : x = y := by
  cases x; cases y
  have h1 := h .nodes; have h2 := h .conns; have h3 := h .graph; have h4 := h .igraph
  simp only [Abs.get] at h1 h2 h3 h4
  simp_all

theorem absObj_get (t : Store) (ob : Obj) (a : Attr) : (t.absObj ob).get a = (ob.get a).map t.rd := by
  cases a <;> rfl

theorem abs_get (t : Store) (o : Ref) (a : Attr) : (t.abs o).get a = ((t.obj o).get a).map t.rd :=
  absObj_get t _ a

@[simp] theorem Abs.info_set (x : Abs) (a : Attr) (v : Option Int) : (x.set a v).info = x.info := by
  cases a <;> rfl

theorem abs_info (t : Store) (o : Ref) : (t.abs o).info = (t.obj o).info := rfl

theorem step_wr_none {t : Store} {o : Ref} {a : Attr} (f : Abs → Int) (hg : (t.obj o).get a = none) :
    step t o (.wr a f) = t := by simp [step, hg]

theorem step_wr_some {t : Store} {o : Ref} {a : Attr} {r : Ref} (f : Abs → Int) (hg : (t.obj o).get a = some r) :
    step t o (.wr a f) = t.wr r (f (t.abs o)) := by simp [step, hg]

theorem astep_wr_none {x : Abs} {a : Attr} (f : Abs → Int) (hg : x.get a = none) : astep x (.wr a f) = x := by
  simp [astep, hg]

theorem astep_wr_some {x : Abs} {a : Attr} {v : Int} (f : Abs → Int) (hg : x.get a = some v) :
    astep x (.wr a f) = x.set a (some (f x)) := by
  simp [astep, hg]

/-- binding attribute `a` of a `Sep` receiver to a freshly allocated cell keeps `Sep` -/
theorem sep_bind_fresh {t : Store} {o : Ref} (h : Sep t o) (a : Attr) (v : Int) :
    Sep ((t.allocD v).1.setObj o ((t.obj o).set a (some t.data.length))) o := by
  have hy' : o < (t.allocD v).1.objs.length := by simpa using h.valid
  refine ⟨by simpa using h.valid, ?_, ?_⟩
  · intro a' r' hr'
    rw [obj_setObj_same hy', Obj.get_set] at hr'
    simp only [data_setObj, data_length_allocD]
    split at hr'
    · injection hr' with hr'; subst hr'; exact Nat.lt_succ_self _
    · exact Nat.lt_succ_of_lt (h.bound a' r' hr')
  · intro a1 a2 r' h1 h2
    rw [obj_setObj_same hy', Obj.get_set] at h1 h2
    by_cases e1 : a1 = a <;> by_cases e2 : a2 = a
    · rw [e1, e2]
    · simp only [e1, e2, if_true, if_false] at h1 h2
      injection h1 with h1; subst h1
      exact absurd (h.bound a2 _ h2) (Nat.lt_irrefl _)
    · simp only [e1, e2, if_true, if_false] at h1 h2
      injection h2 with h2; subst h2
      exact absurd (h.bound a1 _ h1) (Nat.lt_irrefl _)
    · simp only [e1, e2, if_false] at h1 h2
      exact h.inj a1 a2 r' h1 h2

theorem abs_bind_fresh {t : Store} {o : Ref} (h : Sep t o) (a : Attr) (v : Int) :
    ((t.allocD v).1.setObj o ((t.obj o).set a (some t.data.length))).abs o = (t.abs o).set a (some v) := by
  have hy' : o < (t.allocD v).1.objs.length := by simpa using h.valid
  apply Abs.ext'
  · intro a'
    rw [abs_get, obj_setObj_same hy', Obj.get_set, Abs.get_set, abs_get]
    by_cases e : a' = a
    · simp only [e, if_true, Option.map_some, rd_setObj]
      rw [rd_allocD_new]
    · simp only [e, if_false]
      cases hg' : (t.obj o).get a' with
      | none => rfl
      | some r' => simp [rd_allocD_old (h.bound a' r' hg')]
  · rw [abs_info, obj_setObj_same hy', Obj.info_set, Abs.info_set]; rfl

/-- replacing the object record by one with the same bindings keeps `Sep` -/
theorem sep_setObj_sameGet {t : Store} {o : Ref} (h : Sep t o) (ob : Obj) (hget : ∀ a, ob.get a = (t.obj o).get a) :
    Sep (t.setObj o ob) o := by
  refine ⟨by simpa using h.valid, ?_, ?_⟩
  · intro a r hr; rw [obj_setObj_same h.valid, hget] at hr; simpa using h.bound a r hr
  · intro a1 a2 r h1 h2; rw [obj_setObj_same h.valid, hget] at h1 h2; exact h.inj a1 a2 r h1 h2

theorem abs_setObj_sameGet {t : Store} {o : Ref} (h : Sep t o) (ob : Obj) (hget : ∀ a, ob.get a = (t.obj o).get a) :
    (t.setObj o ob).abs o = { t.abs o with info := ob.info } := by
  apply Abs.ext'
  · intro a; rw [abs_get, obj_setObj_same h.valid, hget]
    show _ = (t.abs o).get a
    rw [abs_get]; rfl
  · rw [abs_info, obj_setObj_same h.valid]

theorem step_abs {t : Store} {o : Ref} (h : Sep t o) (st : Stmt) :
    Sep (step t o st) o ∧ (step t o st).abs o = astep (t.abs o) st := by
  cases st with
  | wr a f =>
    cases hg : (t.obj o).get a with
    | none =>
      rw [step_wr_none f hg, astep_wr_none f (by rw [abs_get, hg]; rfl)]
      exact ⟨h, rfl⟩
    | some r =>
      rw [step_wr_some f hg, astep_wr_some (v := t.rd r) f (by rw [abs_get, hg]; rfl)]
      have hr := h.bound a r hg
      refine ⟨⟨h.valid, ?_, ?_⟩, ?_⟩
      · intro a' r' hr'; simpa using h.bound a' r' hr'
      · intro a1 a2 r'; simpa using h.inj a1 a2 r'
      · apply Abs.ext'
        · intro a'
          rw [abs_get, Abs.get_set, abs_get, obj_wr]
          by_cases e : a' = a
          · subst e; simp [hg, rd_wr_same hr]
          · simp only [e, if_false]
            cases hg' : (t.obj o).get a' with
            | none => rfl
            | some r' =>
              have : r ≠ r' := fun e' => e (h.inj a' a r' hg' (e' ▸ hg))
              simp [rd_wr_ne this]
        · rw [Abs.info_set]; rfl
  | rebind a f =>
    simp only [step, astep, snd_allocD]
    exact ⟨sep_bind_fresh h a _, abs_bind_fresh h a _⟩
  | setMeta f =>
    simp only [step, astep]
    have hget : ∀ a, ({ t.obj o with info := f (t.abs o) } : Obj).get a = (t.obj o).get a := by
      intro a; cases a <;> rfl
    exact ⟨sep_setObj_sameGet h _ hget, abs_setObj_sameGet h _ hget⟩
  | thaw =>
    simp only [step, astep]
    split
    · cases hg : (t.obj o).graph with
      | none =>
        simp only
        have hget : ∀ a, ((t.obj o).set .graph none).get a = (t.obj o).get a := by
          intro a; rw [Obj.get_set]; split
          · rename_i e; subst e; exact hg.symm
          · rfl
        refine ⟨sep_setObj_sameGet h _ hget, ?_⟩
        rw [abs_setObj_sameGet h _ hget, Obj.info_set]; rfl
      | some r =>
        simp only [snd_allocD]
        have hg' : (t.obj o).get .graph = some r := hg
        refine ⟨sep_bind_fresh h .graph _, ?_⟩
        rw [abs_bind_fresh h .graph]
        apply Abs.ext'
        · intro a'; rw [Abs.get_set]
          split
          · rename_i e; subst e; rw [abs_get, hg']; rfl
          · rfl
        · rw [Abs.info_set]
    · exact ⟨h, rfl⟩
  | clear a =>
    simp only [step, astep]
    refine ⟨⟨by simpa using h.valid, ?_, ?_⟩, ?_⟩
    · intro a' r' hr'
      rw [obj_setObj_same h.valid, Obj.get_set] at hr'
      split at hr'
      · cases hr'
      · simpa using h.bound a' r' hr'
    · intro a1 a2 r' h1 h2
      rw [obj_setObj_same h.valid, Obj.get_set] at h1 h2
      split at h1
      · cases h1
      · split at h2
        · cases h2
        · exact h.inj a1 a2 r' h1 h2
    · apply Abs.ext'
      · intro a'
        rw [abs_get, obj_setObj_same h.valid, Obj.get_set, Abs.get_set, abs_get]
        split
        · rfl
        · rfl
      · rw [abs_info, obj_setObj_same h.valid, Obj.info_set, Abs.info_set]; rfl

theorem exec_abs (b : List Stmt) : ∀ {t : Store} {o : Ref}, Sep t o →
    Sep (exec t o b) o ∧ (exec t o b).abs o = aexec (t.abs o) b := by
  induction b with
  | nil => intro t o h; exact ⟨h, rfl⟩
  | cons st b ih =>
    intro t o h
    obtain ⟨h1, h2⟩ := step_abs h st
    obtain ⟨h3, h4⟩ := ih h1
    refine ⟨h3, ?_⟩
    show (exec (step t o st) o b).abs o = aexec (astep (t.abs o) st) b
    rw [h4, h2]

/-! ## `copy` yields a separated object with the same observable state -/

/-- observable state of a stale neuron's copy: no graphs -/
def Abs.noGraphs (x : Abs) : Abs := { x with graph := none, igraph := none }

/-- the three intermediate stores of `copyObj` and what is known about the references it hands out -/
theorem copyOf_facts {s : Store} {x : Ref} (h : Sep s x) (stale : Bool) :
    let ob := s.obj x
    let cp := copyOf s x stale
    let t := (copyObj s x stale).1
    (∀ q, cp.nodes = some q → s.data.length ≤ q ∧ q < (s.dup ob.nodes).1.data.length ∧
        ∃ r0, ob.nodes = some r0 ∧ t.rd q = s.rd r0) ∧
    (∀ q, cp.conns = some q → (s.dup ob.nodes).1.data.length ≤ q ∧
        q < ((s.dup ob.nodes).1.dup ob.conns).1.data.length ∧ ∃ r0, ob.conns = some r0 ∧ t.rd q = s.rd r0) ∧
    (∀ q, cp.igraph = some q → stale = false ∧ ((s.dup ob.nodes).1.dup ob.conns).1.data.length ≤ q ∧
        q < t.data.length ∧ ∃ r0, ob.igraph = some r0 ∧ t.rd q = s.rd r0) ∧
    (∀ q, cp.graph = some q → stale = false ∧ ob.graph = some q ∧ q < s.data.length ∧ t.rd q = s.rd q) ∧
    (cp.nodes = none ↔ ob.nodes = none) ∧ (cp.conns = none ↔ ob.conns = none) ∧
    (stale = false → (cp.igraph = none ↔ ob.igraph = none)) ∧ (stale = false → cp.graph = ob.graph) ∧
    ((s.dup ob.nodes).1.dup ob.conns).1.data.length ≤ t.data.length ∧ cp.info = ob.info := by
  intro ob cp t
  have hbn := h.bound .nodes; have hbc := h.bound .conns; have hbg := h.bound .graph; have hbi := h.bound .igraph
  simp only [Obj.get] at hbn hbc hbg hbi
  -- names for the intermediate stores
  have e1 : (s.dup ob.nodes).1.data.length ≥ s.data.length := dup_len_le _ _
  have e2 : ((s.dup ob.nodes).1.dup ob.conns).1.data.length ≥ (s.dup ob.nodes).1.data.length := dup_len_le _ _
  have ht : t.data = (if stale then ((s.dup ob.nodes).1.dup ob.conns).1
      else (((s.dup ob.nodes).1.dup ob.conns).1.dup ob.igraph).1).data := by
    cases stale <;> simp [t, ob, copyObj, Store.allocObj]
  have htrd : ∀ q, t.rd q = (if stale then ((s.dup ob.nodes).1.dup ob.conns).1
      else (((s.dup ob.nodes).1.dup ob.conns).1.dup ob.igraph).1).rd q := by
    intro q; unfold Store.rd; rw [ht]
  have e3 : ((s.dup ob.nodes).1.dup ob.conns).1.data.length ≤ t.data.length := by
    rw [ht]; cases stale
    · exact dup_len_le _ _
    · exact Nat.le_refl _
  -- reading an old cell of an intermediate store in the final store
  have rd3 : ∀ q, q < ((s.dup ob.nodes).1.dup ob.conns).1.data.length →
      t.rd q = ((s.dup ob.nodes).1.dup ob.conns).1.rd q := by
    intro q hq; rw [htrd]; cases stale
    · exact dup_rd_old _ hq
    · rfl
  refine ⟨?_, ?_, ?_, ?_, ?_, ?_, ?_, ?_, e3, rfl⟩
  · intro q hq
    have hq' : (s.dup ob.nodes).2 = some q := hq
    obtain ⟨f1, f2, r0, f3, f4⟩ := dup_some hq'
    refine ⟨Nat.le_of_eq f1.symm, f2, r0, f3, ?_⟩
    rw [rd3 q (Nat.lt_of_lt_of_le f2 e2), dup_rd_old _ f2, f4]
  · intro q hq
    have hq' : ((s.dup ob.nodes).1.dup ob.conns).2 = some q := hq
    obtain ⟨f1, f2, r0, f3, f4⟩ := dup_some hq'
    refine ⟨Nat.le_of_eq f1.symm, f2, r0, f3, ?_⟩
    rw [rd3 q f2, f4, dup_rd_old _ (hbc r0 f3)]
  · intro q hq
    cases stale with
    | true => simp [cp, copyOf] at hq
    | false =>
      have hq' : (((s.dup ob.nodes).1.dup ob.conns).1.dup ob.igraph).2 = some q := hq
      obtain ⟨f1, f2, r0, f3, f4⟩ := dup_some hq'
      refine ⟨rfl, Nat.le_of_eq f1.symm, by rw [ht]; exact f2, r0, f3, ?_⟩
      rw [htrd]; simp only [Bool.false_eq_true, if_false]
      rw [f4, dup_rd_old _ (Nat.lt_of_lt_of_le (hbi r0 f3) e1), dup_rd_old _ (hbi r0 f3)]
  · intro q hq
    cases stale with
    | true => simp [cp, copyOf] at hq
    | false =>
      have hq' : ob.graph = some q := by simpa [cp, copyOf] using hq
      have hlt := hbg q hq'
      refine ⟨rfl, hq', hlt, ?_⟩
      rw [rd3 q (Nat.lt_of_lt_of_le hlt (Nat.le_trans e1 e2)),
        dup_rd_old _ (Nat.lt_of_lt_of_le hlt e1), dup_rd_old _ hlt]
  · show (s.dup ob.nodes).2 = none ↔ _
    cases ob.nodes <;> simp [Store.dup]
  · show ((s.dup ob.nodes).1.dup ob.conns).2 = none ↔ _
    cases ob.conns <;> simp [Store.dup]
  · intro hs; subst hs
    show (((s.dup ob.nodes).1.dup ob.conns).1.dup ob.igraph).2 = none ↔ _
    cases ob.igraph <;> simp [Store.dup]
  · intro hs; subst hs; simp [cp, copyOf, ob]

theorem copy_sep {s : Store} {x : Ref} (h : Sep s x) (stale : Bool) :
    Sep (copyObj s x stale).1 s.objs.length ∧
    (copyObj s x stale).1.abs s.objs.length = (if stale then (s.abs x).noGraphs else s.abs x) := by
  obtain ⟨fn, fc, fi, fg, nn, nc, ni, ng, e3, hinfo⟩ := copyOf_facts h stale
  have e1 : (s.dup (s.obj x).nodes).1.data.length ≥ s.data.length := dup_len_le _ _
  have e2 : ((s.dup (s.obj x).nodes).1.dup (s.obj x).conns).1.data.length ≥
      (s.dup (s.obj x).nodes).1.data.length := dup_len_le _ _
  constructor
  · refine ⟨by rw [copyObj_objs_length]; exact Nat.lt_succ_self _, ?_, ?_⟩
    · intro a r hr
      rw [copyObj_obj] at hr
      cases a
      · have := fn r hr; omega
      · have := fc r hr; omega
      · have := fg r hr; omega
      · have := fi r hr; omega
    · intro a a' r hr hr'
      rw [copyObj_obj] at hr hr'
      cases a <;> cases a' <;> first | rfl | (exfalso; simp only [Obj.get] at hr hr')
      all_goals
        first
        | (have h1 := fn r hr; have h2 := fc r hr'; omega)
        | (have h1 := fn r hr; have h2 := fg r hr'; omega)
        | (have h1 := fn r hr; have h2 := fi r hr'; omega)
        | (have h1 := fc r hr; have h2 := fn r hr'; omega)
        | (have h1 := fc r hr; have h2 := fg r hr'; omega)
        | (have h1 := fc r hr; have h2 := fi r hr'; omega)
        | (have h1 := fg r hr; have h2 := fn r hr'; omega)
        | (have h1 := fg r hr; have h2 := fc r hr'; omega)
        | (have h1 := fg r hr; have h2 := fi r hr'; omega)
        | (have h1 := fi r hr; have h2 := fn r hr'; omega)
        | (have h1 := fi r hr; have h2 := fc r hr'; omega)
        | (have h1 := fi r hr; have h2 := fg r hr'; omega)
  · apply Abs.ext'
    · intro a
      rw [abs_get, copyObj_obj]
      have habs : ∀ a, (s.abs x).get a = ((s.obj x).get a).map s.rd := abs_get s x
      cases a
      · -- nodes
        have : (if stale then (s.abs x).noGraphs else s.abs x).get .nodes = (s.abs x).get .nodes := by
          cases stale <;> rfl
        rw [this, habs]
        simp only [Obj.get]
        cases hq : (copyOf s x stale).nodes with
        | none => rw [nn.mp hq]; rfl
        | some q => obtain ⟨_, _, r0, h1, h2⟩ := fn q hq; rw [h1]; simp [h2]
      · have : (if stale then (s.abs x).noGraphs else s.abs x).get .conns = (s.abs x).get .conns := by
          cases stale <;> rfl
        rw [this, habs]
        simp only [Obj.get]
        cases hq : (copyOf s x stale).conns with
        | none => rw [nc.mp hq]; rfl
        | some q => obtain ⟨_, _, r0, h1, h2⟩ := fc q hq; rw [h1]; simp [h2]
      · cases stale with
        | true => simp [copyOf, Obj.get, Abs.noGraphs, Abs.get]
        | false =>
          simp only [Bool.false_eq_true, if_false]
          rw [habs]; simp only [Obj.get]
          cases hq : (copyOf s x false).graph with
          | none => rw [← ng rfl, hq]; rfl
          | some q => obtain ⟨_, h1, _, h2⟩ := fg q hq; rw [h1]; simp [h2]
      · cases stale with
        | true => simp [copyOf, Obj.get, Abs.noGraphs, Abs.get]
        | false =>
          simp only [Bool.false_eq_true, if_false]
          rw [habs]; simp only [Obj.get]
          cases hq : (copyOf s x false).igraph with
          | none => rw [(ni rfl).mp hq]; rfl
          | some q => obtain ⟨_, _, _, r0, h1, h2⟩ := fi q hq; rw [h1]; simp [h2]
    · rw [abs_info, copyObj_obj, hinfo]
      cases stale <;> rfl

/-! ## abstract result of a call -/

theorem call_abs_inplace (b : List Stmt) {s : Store} {x : Ref} (h : Sep s x) (stale : Bool) :
    Sep (call b s x true stale).1 x ∧ (call b s x true stale).1.abs (call b s x true stale).2 = aexec (s.abs x) b := by
  simp only [call, if_true]
  exact exec_abs b h

theorem call_abs_copy (b : List Stmt) {s : Store} {x : Ref} (h : Sep s x) (stale : Bool) :
    Sep (call b s x false stale).1 (call b s x false stale).2 ∧
    (call b s x false stale).1.abs (call b s x false stale).2 =
      aexec (if stale then (s.abs x).noGraphs else s.abs x) b := by
  simp only [call, Bool.false_eq_true, if_false]
  rw [copyObj_snd]
  obtain ⟨h1, h2⟩ := copy_sep h stale
  obtain ⟨h3, h4⟩ := exec_abs b h1
  exact ⟨h3, by rw [h4, h2]⟩

/-- cells that survive unchanged keep a separated object separated and its observable state the same -/
theorem Sep.of_ext {s t : Store} (he : Ext s t) {o : Ref} (h : Sep s o) : Sep t o ∧ t.abs o = s.abs o := by
  have ho := he.obj h.valid
  refine ⟨⟨Nat.lt_of_lt_of_le h.valid he.olen, ?_, ?_⟩, ?_⟩
  · intro a r hr; rw [ho] at hr; exact Nat.lt_of_lt_of_le (h.bound a r hr) he.dlen
  · intro a a' r; rw [ho]; exact h.inj a a' r
  · apply Abs.ext'
    · intro a; rw [abs_get, abs_get, ho]
      cases hg : (s.obj o).get a with
      | none => rfl
      | some r => simp [he.rd (h.bound a r hg)]
    · rw [abs_info, abs_info, ho]

/-! ## locality of an in-place run: only the receiver's own cells (and fresh ones) change -/

/-- `Loc s t o`: between `s` and `t` only the object cell `o`, the data cells `o` was bound to in `s`, and
freshly allocated cells may differ; `o`'s bindings in `t` are old bindings or fresh cells. -/
structure Loc (s t : Store) (o : Ref) : Prop where
  dlen : s.data.length ≤ t.data.length
  dget : ∀ r, r < s.data.length → r ∉ (s.obj o).refs → t.data[r]? = s.data[r]?
  olen : t.objs.length = s.objs.length
  oget : ∀ o', o' ≠ o → t.objs[o']? = s.objs[o']?
  lsts : t.lists = s.lists
  refs : ∀ r, r ∈ (t.obj o).refs → r ∈ (s.obj o).refs ∨ s.data.length ≤ r

theorem Loc.refl (s : Store) (o : Ref) : Loc s s o :=
  ⟨Nat.le_refl _, fun _ _ _ => rfl, rfl, fun _ _ => rfl, rfl, fun _ h => .inl h⟩

theorem Loc.trans {s t u : Store} {o : Ref} (h1 : Loc s t o) (h2 : Loc t u o) : Loc s u o where
  dlen := Nat.le_trans h1.dlen h2.dlen
  dget r hr hn := by
    rw [h2.dget r (Nat.lt_of_lt_of_le hr h1.dlen) ?_, h1.dget r hr hn]
    intro hm
    rcases h1.refs r hm with h | h
    · exact hn h
    · exact absurd hr (Nat.not_lt.mpr h)
  olen := h2.olen.trans h1.olen
  oget o' ho := by rw [h2.oget o' ho, h1.oget o' ho]
  lsts := h2.lsts.trans h1.lsts
  refs r hr := by
    rcases h2.refs r hr with h | h
    · exact h1.refs r h
    · exact .inr (Nat.le_trans h1.dlen h)

theorem mem_refs_set {ob : Obj} {a : Attr} {v : Option Ref} {r : Ref} (h : r ∈ (ob.set a v).refs) :
    r ∈ ob.refs ∨ v = some r := by
  rw [Obj.mem_refs] at h
  obtain ⟨a', ha'⟩ := h
  rw [Obj.get_set] at ha'
  split at ha'
  · exact .inr ha'
  · exact .inl (Obj.mem_refs.mpr ⟨a', ha'⟩)

theorem step_loc {t : Store} {o : Ref} (ho : o < t.objs.length) (st : Stmt) : Loc t (step t o st) o := by
  have setObjLoc : ∀ (u : Store) (ob : Obj), u.objs.length = t.objs.length → u.lists = t.lists →
      t.data.length ≤ u.data.length → (∀ r, r < t.data.length → u.data[r]? = t.data[r]?) →
      (∀ o', o' ≠ o → u.objs[o']? = t.objs[o']?) →
      (∀ r, r ∈ ob.refs → r ∈ (t.obj o).refs ∨ t.data.length ≤ r) → Loc t (u.setObj o ob) o := by
    intro u ob hl hls hd hdg hog hr
    refine ⟨hd, fun r hr' _ => hdg r hr', by simp [hl], ?_, hls, ?_⟩
    · intro o' ho'
      simp only [Store.setObj]
      rw [List.getElem?_set_ne (Ne.symm ho')]; exact hog o' ho'
    · intro r hr'
      rw [obj_setObj_same (by rw [hl]; exact ho)] at hr'
      exact hr r hr'
  cases st with
  | wr a f =>
    simp only [step]
    split
    · exact Loc.refl _ _
    · rename_i r hr
      refine ⟨by simp, ?_, rfl, fun _ _ => rfl, rfl, fun q hq => .inl hq⟩
      intro q _ hq
      have : r ≠ q := by
        intro e; subst e; exact hq (Obj.mem_refs.mpr ⟨a, hr⟩)
      simp [Store.wr, List.getElem?_set_ne this]
  | rebind a f =>
    simp only [step]
    refine setObjLoc (t.allocD (f (t.abs o))).1 _ rfl rfl (by simp) ?_ (fun _ _ => rfl) ?_
    · intro r hr; simp [Store.allocD, List.getElem?_append_left hr]
    · intro r hr
      rcases mem_refs_set hr with h | h
      · exact .inl h
      · simp at h; exact .inr (Nat.le_of_eq h)
  | setMeta f =>
    simp only [step]
    apply setObjLoc _ _ rfl rfl (Nat.le_refl _) (fun _ _ => rfl) (fun _ _ => rfl)
    intro r hr; exact .inl hr
  | thaw =>
    simp only [step]
    split
    · split
      · apply setObjLoc _ _ rfl rfl (Nat.le_refl _) (fun _ _ => rfl) (fun _ _ => rfl)
        intro r hr
        rcases mem_refs_set hr with h | h
        · exact .inl h
        · cases h
      · rename_i r0 _
        refine setObjLoc (t.allocD (t.rd r0)).1 _ rfl rfl (by simp) ?_ (fun _ _ => rfl) ?_
        · intro r hr; simp [Store.allocD, List.getElem?_append_left hr]
        · intro r hr
          rcases mem_refs_set hr with h | h
          · exact .inl h
          · simp at h; exact .inr (Nat.le_of_eq h)
    · exact Loc.refl _ _
  | clear a =>
    simp only [step]
    apply setObjLoc _ _ rfl rfl (Nat.le_refl _) (fun _ _ => rfl) (fun _ _ => rfl)
    intro r hr
    rcases mem_refs_set hr with h | h
    · exact .inl h
    · cases h

theorem exec_loc (b : List Stmt) : ∀ {t : Store} {o : Ref}, o < t.objs.length → Loc t (exec t o b) o := by
  induction b with
  | nil => intro t o _; exact Loc.refl _ _
  | cons st b ih =>
    intro t o ho
    have h1 := step_loc ho st
    have ho' : o < (step t o st).objs.length := by rw [h1.olen]; exact ho
    exact h1.trans (ih ho')

/-! ## mapping over a list -/

theorem mapCalls_copy (b : List Stmt) (hw : writesOwn true b = true) : ∀ (xs : List Ref) (s : Store),
    Ext s (mapCalls b s xs false).1 ∧ (mapCalls b s xs false).2.length = xs.length ∧
    (∀ y ∈ (mapCalls b s xs false).2, s.objs.length ≤ y) ∧
    ∀ (i : Nat) (x : Nat), xs[i]? = some x → Sep s x → ∃ y, (mapCalls b s xs false).2[i]? = some y ∧
      Sep (mapCalls b s xs false).1 y ∧ (mapCalls b s xs false).1.abs y = aexec (s.abs x) b := by
  intro xs
  induction xs with
  | nil => intro s; exact ⟨Ext.refl s, rfl, by simp [mapCalls], by simp⟩
  | cons x xs ih =>
    intro s
    simp only [mapCalls]
    have e1 : Ext s (call b s x false).1 := call_ext b s x false hw
    obtain ⟨e2, l2, f2, a2⟩ := ih (call b s x false).1
    refine ⟨e1.trans e2, by simp [l2], ?_, ?_⟩
    · intro y hy
      rcases List.mem_cons.mp hy with h | h
      · rw [h, call_snd_false]; exact Nat.le_refl _
      · exact Nat.le_trans e1.olen (f2 y h)
    · intro i x' hx' hs
      cases i with
      | zero =>
        simp only [List.getElem?_cons_zero, Option.some.injEq] at hx'
        subst hx'
        obtain ⟨h1, h2⟩ := call_abs_copy b hs false
        obtain ⟨h3, h4⟩ := Sep.of_ext e2 h1
        refine ⟨_, by simp, h3, ?_⟩
        rw [h4, h2]; rfl
      | succ i =>
        simp only [List.getElem?_cons_succ] at hx' ⊢
        obtain ⟨h1, h2⟩ := Sep.of_ext e1 hs
        obtain ⟨y, hy, h3, h4⟩ := a2 i x' hx' h1
        exact ⟨y, hy, h3, by rw [h4, h2]⟩

theorem mapCalls_inplace_snd (b : List Stmt) : ∀ (xs : List Ref) (s : Store), (mapCalls b s xs true).2 = xs := by
  intro xs; induction xs with
  | nil => intro s; rfl
  | cons x xs ih => intro s; simp [mapCalls, call, ih]

theorem mapCalls_inplace_lists (b : List Stmt) : ∀ (xs : List Ref) (s : Store), (∀ x ∈ xs, x < s.objs.length) →
    (mapCalls b s xs true).1.lists = s.lists ∧ (mapCalls b s xs true).1.objs.length = s.objs.length := by
  intro xs; induction xs with
  | nil => intro s _; exact ⟨rfl, rfl⟩
  | cons x xs ih =>
    intro s hv
    simp only [mapCalls, call, if_true]
    have hl := exec_loc b (hv x (List.mem_cons_self ..))
    obtain ⟨h1, h2⟩ := ih (exec s x b) (fun x' hx' => by rw [hl.olen]; exact hv x' (List.mem_cons_of_mem _ hx'))
    exact ⟨h1.trans hl.lsts, h2.trans hl.olen⟩

/-- an object whose cells are disjoint from the receiver's is not affected by an in-place run -/
theorem Loc.other {s t : Store} {o z : Ref} (hl : Loc s t o) (hz : Sep s z) (hne : z ≠ o)
    (hd : ∀ r, r ∈ (s.obj z).refs → r ∉ (s.obj o).refs) :
    Sep t z ∧ t.abs z = s.abs z ∧ t.obj z = s.obj z := by
  have ho : t.obj z = s.obj z := by unfold Store.obj; rw [hl.oget z hne]
  refine ⟨⟨by rw [hl.olen]; exact hz.valid, ?_, ?_⟩, ?_, ho⟩
  · intro a r hr; rw [ho] at hr; exact Nat.lt_of_lt_of_le (hz.bound a r hr) hl.dlen
  · intro a a' r; rw [ho]; exact hz.inj a a' r
  · apply Abs.ext'
    · intro a; rw [abs_get, abs_get, ho]
      cases hg : (s.obj z).get a with
      | none => rfl
      | some r =>
        have hr := hz.bound a r hg
        have : t.rd r = s.rd r := by
          unfold Store.rd; rw [hl.dget r hr (hd r (Obj.mem_refs.mpr ⟨a, hg⟩))]
        simp [this]
    · rw [abs_info, abs_info, ho]

theorem mapCalls_inplace_other (b : List Stmt) : ∀ (xs : List Ref) (s : Store) (z : Ref), Sep s z →
    (∀ x ∈ xs, x < s.objs.length ∧ z ≠ x ∧ ∀ r, r ∈ (s.obj z).refs → r ∉ (s.obj x).refs) →
    Sep (mapCalls b s xs true).1 z ∧ (mapCalls b s xs true).1.abs z = s.abs z ∧
      (mapCalls b s xs true).1.obj z = s.obj z := by
  intro xs; induction xs with
  | nil => intro s z hz _; exact ⟨hz, rfl, rfl⟩
  | cons x xs ih =>
    intro s z hz hx
    simp only [mapCalls, call, if_true]
    obtain ⟨hxv, hxne, hxd⟩ := hx x (List.mem_cons_self ..)
    have hl := exec_loc b hxv
    obtain ⟨h1, h2, h3⟩ := hl.other hz hxne hxd
    have := ih (exec s x b) z h1 (by
      intro x' hx'
      obtain ⟨hv', hne', hd'⟩ := hx x' (List.mem_cons_of_mem _ hx')
      refine ⟨by rw [hl.olen]; exact hv', hne', ?_⟩
      intro r hr hr'
      rw [h3] at hr
      have hrlt : r < s.data.length := by
        obtain ⟨a, ha⟩ := Obj.mem_refs.mp hr; exact hz.bound a r ha
      by_cases e : x' = x
      · subst e
        rcases hl.refs r hr' with h | h
        · exact hxd r hr h
        · exact absurd hrlt (Nat.not_lt.mpr h)
      · have : (exec s x b).obj x' = s.obj x' := by unfold Store.obj; rw [hl.oget x' e]
        rw [this] at hr'
        exact hd' r hr hr')
    obtain ⟨g1, g2, g3⟩ := this
    exact ⟨g1, g2.trans h2, g3.trans h3⟩

/-- two distinct objects sharing no container -/
def Disj (s : Store) (x x' : Ref) : Prop := x ≠ x' ∧ ∀ r, r ∈ (s.obj x).refs → r ∉ (s.obj x').refs

theorem mapCalls_inplace_abs (b : List Stmt) : ∀ (xs : List Ref) (s : Store), (∀ x ∈ xs, Sep s x) →
    xs.Pairwise (Disj s) →
    ∀ x ∈ xs, Sep (mapCalls b s xs true).1 x ∧ (mapCalls b s xs true).1.abs x = aexec (s.abs x) b := by
  intro xs; induction xs with
  | nil => intro s _ _ x hx; cases hx
  | cons x xs ih =>
    intro s hs hp
    simp only [mapCalls, call, if_true]
    have hsx := hs x (List.mem_cons_self ..)
    have hl := exec_loc b hsx.valid
    obtain ⟨hpx, hpt⟩ := List.pairwise_cons.mp hp
    obtain ⟨e1, e2⟩ := exec_abs b hsx
    -- the tail members are untouched by the run on the head
    have htail : ∀ x' ∈ xs, Sep (exec s x b) x' ∧ (exec s x b).abs x' = s.abs x' ∧ (exec s x b).obj x' = s.obj x' := by
      intro x' hx'
      have hd := hpx x' hx'
      exact hl.other (hs x' (List.mem_cons_of_mem _ hx')) (Ne.symm hd.1)
        (fun r hr hr' => hd.2 r hr' hr)
    have hpt' : xs.Pairwise (Disj (exec s x b)) := by
      refine hpt.imp_of_mem ?_
      intro a c ha hc hd
      refine ⟨hd.1, ?_⟩
      rw [(htail a ha).2.2, (htail c hc).2.2]; exact hd.2
    intro z hz
    rcases List.mem_cons.mp hz with h | h
    · subst h
      have := mapCalls_inplace_other b xs (exec s z b) z e1 (by
        intro x' hx'
        have hd := hpx x' hx'
        refine ⟨(htail x' hx').1.valid, hd.1, ?_⟩
        intro r hr hr'
        rw [(htail x' hx').2.2] at hr'
        rcases hl.refs r hr with h | h
        · exact hd.2 r h hr'
        · obtain ⟨a, ha⟩ := Obj.mem_refs.mp hr'
          exact absurd ((hs x' (List.mem_cons_of_mem _ hx')).bound a r ha) (Nat.not_lt.mpr h))
      exact ⟨this.1, this.2.1.trans e2⟩
    · obtain ⟨g1, g2⟩ := ih (exec s x b) (fun x' hx' => (htail x' hx').1) hpt' z h
      exact ⟨g1, by rw [g2, (htail z h).2.1]⟩

/-! ## frames as seen from the input -/

theorem Ext.frame {s t : Store} (h : Ext s t) {x : Ref} (hx : Sep s x) :
    t.objs[x]? = s.objs[x]? ∧ (∀ r, r ∈ (s.obj x).refs → t.data[r]? = s.data[r]?) ∧ t.abs x = s.abs x := by
  refine ⟨h.oget x hx.valid, ?_, (Sep.of_ext h hx).2⟩
  intro r hr
  obtain ⟨a, ha⟩ := Obj.mem_refs.mp hr
  exact h.dget r (hx.bound a r ha)

theorem take_eq_iff {α} (s t : List α) (hl : s.length ≤ t.length) :
    t.take s.length = s ↔ ∀ r, r < s.length → t[r]? = s[r]? := by
  constructor
  · intro h r hr
    rw [← List.getElem?_take_of_lt hr, h]
  · intro h
    apply List.ext_getElem?
    intro i
    by_cases hi : i < s.length
    · rw [List.getElem?_take_of_lt hi, h i hi]
    · have h1 : (t.take s.length)[i]? = none := by
        apply List.getElem?_eq_none; simp; omega
      have h2 : s[i]? = none := List.getElem?_eq_none (by omega)
      rw [h1, h2]

theorem extendsB_iff (s t : Store) : extendsB s t = true ↔ Ext s t := by
  unfold extendsB
  simp only [Bool.and_eq_true, decide_eq_true_eq, beq_iff_eq]
  constructor
  · rintro ⟨⟨⟨d1, d2⟩, o1, o2⟩, l1, l2⟩
    exact ⟨d1, (take_eq_iff _ _ d1).mp d2, o1, (take_eq_iff _ _ o1).mp o2, l1, (take_eq_iff _ _ l1).mp l2⟩
  · intro h
    exact ⟨⟨⟨h.dlen, (take_eq_iff _ _ h.dlen).mpr h.dget⟩, h.olen, (take_eq_iff _ _ h.olen).mpr h.oget⟩,
      h.llen, (take_eq_iff _ _ h.llen).mpr h.lget⟩

theorem frameB_iff (s t : Store) (x : Ref) :
    frameB s t x = true ↔ (t.objs[x]? = s.objs[x]? ∧ ∀ r, r ∈ (s.obj x).refs → t.data[r]? = s.data[r]?) := by
  unfold frameB
  simp [List.all_eq_true]

/-! ## writes before the copy -/

theorem exec_bump {x r : Ref} : ∀ (n : Nat) (s : Store), (s.obj x).nodes = some r → r < s.data.length →
    (exec s x (List.replicate n (.wr .nodes bump))).rd r = s.rd r + n ∧
    (exec s x (List.replicate n (.wr .nodes bump))).objs = s.objs ∧
    (exec s x (List.replicate n (.wr .nodes bump))).data.length = s.data.length := by
  intro n; induction n with
  | zero => intro s _ _; simp [exec]
  | succ n ih =>
    intro s hn hr
    have hg : (s.obj x).get .nodes = some r := hn
    have hstep : exec s x (List.replicate (n + 1) (.wr .nodes bump)) =
        exec (s.wr r (bump (s.abs x))) x (List.replicate n (.wr .nodes bump)) := by
      simp only [List.replicate_succ, exec, List.foldl_cons]
      rw [step_wr_some bump hg]
    rw [hstep]
    obtain ⟨h1, h2, h3⟩ := ih (s.wr r (bump (s.abs x))) (by simpa using hn) (by simpa using hr)
    refine ⟨?_, by rw [h2]; rfl, by rw [h3]; simp⟩
    rw [h1, rd_wr_same hr]
    have : bump (s.abs x) = s.rd r + 1 := by
      simp [bump, Store.abs, Store.absObj, hn]
    rw [this]; omega

/-! ## list operators -/

theorem allocLst_snd (s : Store) (xs : List Ref) : (s.allocLst xs).2 = s.lists.length := rfl

theorem lst_allocLst_new (s : Store) (xs : List Ref) : (s.allocLst xs).1.lst s.lists.length = xs := by
  simp [Store.allocLst, Store.lst]

theorem lst_setLst_same {s : Store} {l : Ref} (hl : l < s.lists.length) (xs : List Ref) :
    (s.setLst l xs).lst l = xs := by
  simp [Store.setLst, Store.lst, hl]

/-! ## event traces of the source text, run in the heap model -/

theorem Inv.weaken {s0 t u : Store} {y : Ref} {v : Bool} (h : Inv t u y v) (he : Ext s0 t) : Inv s0 u y v where
  ext := he.trans h.ext
  fresh := Nat.le_trans he.olen h.fresh
  flag := h.flag
  own a r hr := by
    rcases h.own a r hr with h' | h'
    · exact .inl h'
    · exact .inr (Nat.le_trans he.dlen h')

/-- cells allocated later do not disturb the ownership invariant of an existing receiver -/
theorem Inv.extend {s0 t u : Store} {y : Ref} {v : Bool} (h : Inv s0 t y v) (he : Ext t u) (hy : y < t.objs.length) :
    Inv s0 u y v where
  ext := h.ext.trans he
  fresh := h.fresh
  flag := by rw [he.obj hy]; exact h.flag
  own a r hr := by rw [he.obj hy] at hr ⊢; exact h.own a r hr

/-- the callee of a discarded delegation (`lostDelegate`, not in place) only allocates -/
theorem lostDelegate_ext (f : Abs → Int) (u : Store) (y : Ref) : Ext u (call [.wr .nodes f] u y false).1 :=
  call_ext _ u y false (by simp [writesOwn, Stmt.needsOwnGraph])

theorem runTrace_afterGuard (f : Abs → Int) (s : Store) (x : Ref) : ∀ (t : List Ev) (st : Store × Ref) (v : Bool),
    Inv s st.1 st.2 v → st.2 < st.1.objs.length → t.contains .writeIn = false → t.contains .retIn = false →
    Ext s (t.foldl (runEv f x false) st).1 := by
  intro t; induction t with
  | nil => intro st v h _ _ _; exact h.ext
  | cons e t ih =>
    intro st v h hy hc hr
    have hc' : t.contains .writeIn = false := by
      simp only [List.contains_cons, Bool.or_eq_false_iff] at hc; exact hc.2
    have hr' : t.contains .retIn = false := by
      simp only [List.contains_cons, Bool.or_eq_false_iff] at hr; exact hr.2
    simp only [List.foldl_cons]
    cases e with
    | retIn => simp at hr
    | lostDelegate =>
      simp only [runEv]
      have he := lostDelegate_ext f st.1 st.2
      exact ih _ v (h.extend he hy) (Nat.lt_of_lt_of_le hy he.olen) hc' hr'
    | guard =>
      simp only [runEv, Bool.false_eq_true, if_false]
      refine ih _ true ?_ ?_ hc' hr'
      · rw [copyObj_snd]; exact (copyObj_inv st.1 st.2 false).weaken h.ext
      · rw [copyObj_snd, copyObj_objs_length]; exact Nat.lt_succ_self _
    | write =>
      simp only [runEv]
      obtain ⟨h1, h2⟩ := step_inv hy h (.wr .nodes f) (by simp [Stmt.needsOwnGraph])
      exact ih _ _ h1 h2 hc' hr'
    | writeIn => simp at hc
    | delegate => exact ih st v h hy hc' hr'
    | branch => exact ih st v h hy hc' hr'

/-- before the guard: the name still holds the input, the store `u` so far only grew -/
theorem runTrace_beforeGuard (f : Abs → Int) (s : Store) (x : Ref) : ∀ (t : List Ev) (u : Store), Ext s u →
    noWriteBeforeGuard t = true → t.contains .writeIn = false → t.contains .retIn = false →
    Ext s (t.foldl (runEv f x false) (u, x)).1 := by
  intro t; induction t with
  | nil => intro u hu _ _ _; exact hu
  | cons e t ih =>
    intro u hu h1 hc hr
    have hc' : t.contains .writeIn = false := by
      simp only [List.contains_cons, Bool.or_eq_false_iff] at hc; exact hc.2
    have hr' : t.contains .retIn = false := by
      simp only [List.contains_cons, Bool.or_eq_false_iff] at hr; exact hr.2
    simp only [List.foldl_cons]
    cases e with
    | guard =>
      simp only [runEv, Bool.false_eq_true, if_false]
      refine runTrace_afterGuard f s x t _ true ?_ ?_ hc' hr'
      · rw [copyObj_snd]; exact (copyObj_inv u x false).weaken hu
      · rw [copyObj_snd, copyObj_objs_length]; exact Nat.lt_succ_self _
    | write => simp [noWriteBeforeGuard] at h1
    | writeIn => simp at hc
    | delegate => exact ih u hu (by simpa [noWriteBeforeGuard] using h1) hc' hr'
    | branch => exact ih u hu (by simpa [noWriteBeforeGuard] using h1) hc' hr'
    | retIn => simp at hr
    | lostDelegate =>
      simp only [runEv]
      exact ih _ (hu.trans (lostDelegate_ext f u x)) (by simpa [noWriteBeforeGuard] using h1) hc' hr'

theorem runTrace_ext (f : Abs → Int) (s : Store) (x : Ref) (t : List Ev)
    (h1 : noWriteBeforeGuard t = true) (hc : t.contains .writeIn = false) (hr : t.contains .retIn = false) :
    Ext s (runTrace f t s x false).1 :=
  runTrace_beforeGuard f s x t s (Ext.refl s) h1 hc hr

/-- a `bump` write through any object never decreases any cell, and keeps it allocated -/
theorem step_bump_mono (u : Store) (o r : Ref) (hr : r < u.data.length) :
    r < (step u o (.wr .nodes bump)).data.length ∧ u.rd r ≤ (step u o (.wr .nodes bump)).rd r := by
  cases hg : (u.obj o).get .nodes with
  | none => rw [step_wr_none bump hg]; exact ⟨hr, Int.le_refl _⟩
  | some q =>
    rw [step_wr_some bump hg]
    refine ⟨by simpa using hr, ?_⟩
    by_cases e : q = r
    · subst e
      rw [rd_wr_same hr]
      have hn : (u.obj o).nodes = some q := hg
      simp [bump, Store.abs, Store.absObj, hn]; omega
    · rw [rd_wr_ne e]; exact Int.le_refl _

theorem runEv_mono (x r : Ref) (st : Store × Ref) (e : Ev) (hr : r < st.1.data.length) :
    r < (runEv bump x false st e).1.data.length ∧ st.1.rd r ≤ (runEv bump x false st e).1.rd r := by
  cases e with
  | guard =>
    simp only [runEv, Bool.false_eq_true, if_false]
    have he := copyObj_ext st.1 st.2 false
    exact ⟨Nat.lt_of_lt_of_le hr he.dlen, by rw [he.rd hr]; exact Int.le_refl _⟩
  | write => exact step_bump_mono st.1 st.2 r hr
  | writeIn => exact step_bump_mono st.1 x r hr
  | delegate => exact ⟨hr, Int.le_refl _⟩
  | branch => exact ⟨hr, Int.le_refl _⟩
  | retIn => exact ⟨hr, Int.le_refl _⟩
  | lostDelegate =>
    simp only [runEv]
    have he := lostDelegate_ext bump st.1 st.2
    exact ⟨Nat.lt_of_lt_of_le hr he.dlen, by rw [he.rd hr]; exact Int.le_refl _⟩

theorem runTrace_mono (x r : Ref) : ∀ (t : List Ev) (st : Store × Ref), r < st.1.data.length →
    st.1.rd r ≤ (t.foldl (runEv bump x false) st).1.rd r := by
  intro t; induction t with
  | nil => intro st _; exact Int.le_refl _
  | cons e t ih =>
    intro st hr
    obtain ⟨h1, h2⟩ := runEv_mono x r st e hr
    exact Int.le_trans h2 (ih _ h1)

theorem step_bump_own {u : Store} {o r : Ref} (hn : (u.obj o).nodes = some r) (hr : r < u.data.length) :
    (step u o (.wr .nodes bump)).rd r = u.rd r + 1 ∧ (step u o (.wr .nodes bump)).objs = u.objs ∧
      r < (step u o (.wr .nodes bump)).data.length := by
  have hg : (u.obj o).get .nodes = some r := hn
  rw [step_wr_some bump hg]
  refine ⟨?_, rfl, by simpa using hr⟩
  rw [rd_wr_same hr]; simp [bump, Store.abs, Store.absObj, hn]

theorem valid_of_nodes {u : Store} {x r : Ref} (h : (u.obj x).nodes = some r) : x < u.objs.length := by
  apply Classical.byContradiction
  intro hx
  have : u.objs[x]? = none := List.getElem?_eq_none (by omega)
  simp [Store.obj, this] at h

/-- **converse of the premise**: a write before the copy guard does change the input's node table. -/
theorem runTrace_violation (s : Store) (x r : Ref) (hn : (s.obj x).nodes = some r) (hr : r < s.data.length) :
    ∀ (t : List Ev), noWriteBeforeGuard t = false → s.rd r < (runTrace bump t s x false).1.rd r := by
  unfold runTrace
  suffices h : ∀ (t : List Ev) (u : Store), (u.obj x).nodes = some r → r < u.data.length →
      noWriteBeforeGuard t = false → u.rd r < (t.foldl (runEv bump x false) (u, x)).1.rd r from
    fun t ht => h t s hn hr ht
  intro t; induction t with
  | nil => intro u _ _ h; simp [noWriteBeforeGuard] at h
  | cons e t ih =>
    intro u hnu hru h
    simp only [List.foldl_cons]
    cases e with
    | guard => simp [noWriteBeforeGuard] at h
    | write =>
      obtain ⟨h1, _, h3⟩ := step_bump_own hnu hru
      have := runTrace_mono x r t (runEv bump x false (u, x) .write) h3
      simp only [runEv] at this ⊢
      omega
    | writeIn =>
      obtain ⟨h1, h2, h3⟩ := step_bump_own hnu hru
      have hn' : ((step u x (.wr .nodes bump)).obj x).nodes = some r := by
        unfold Store.obj; rw [h2]; exact hnu
      have := ih (step u x (.wr .nodes bump)) hn' h3 (by simpa [noWriteBeforeGuard] using h)
      simp only [runEv] at this ⊢
      omega
    | delegate => exact ih u hnu hru (by simpa [noWriteBeforeGuard] using h)
    | branch => exact ih u hnu hru (by simpa [noWriteBeforeGuard] using h)
    | retIn => exact ih u hnu hru (by simpa [noWriteBeforeGuard] using h)
    | lostDelegate =>
      have he := lostDelegate_ext bump u x
      have hn' : ((call [.wr .nodes bump] u x false).1.obj x).nodes = some r := by
        rw [he.obj (valid_of_nodes hnu)]; exact hnu
      have := ih _ hn' (Nat.lt_of_lt_of_le hru he.dlen) (by simpa [noWriteBeforeGuard] using h)
      simp only [runEv] at this ⊢
      rw [he.rd hru] at this
      exact this

/-! ## list cells are never touched by neuron-level code -/

theorem step_lists (t : Store) (o : Ref) (st : Stmt) : (step t o st).lists = t.lists := by
  cases st with
  | wr a f => simp only [step]; split <;> rfl
  | rebind a f => rfl
  | setMeta f => rfl
  | thaw =>
    simp only [step]
    split
    · split <;> rfl
    · rfl
  | clear a => rfl

theorem exec_lists (b : List Stmt) : ∀ (t : Store) (o : Ref), (exec t o b).lists = t.lists := by
  induction b with
  | nil => intro t o; rfl
  | cons st b ih => intro t o; exact (ih (step t o st) o).trans (step_lists t o st)

theorem copyObj_lists (s : Store) (x : Ref) (stale : Bool) : (copyObj s x stale).1.lists = s.lists := by
  cases stale <;> simp [copyObj, Store.allocObj]

theorem call_lists (b : List Stmt) (s : Store) (x : Ref) (ip stale : Bool) : (call b s x ip stale).1.lists = s.lists := by
  cases ip
  · simp only [call, Bool.false_eq_true, if_false]; rw [exec_lists, copyObj_lists]
  · simp only [call, if_true]; rw [exec_lists]

theorem mapCalls_lists (b : List Stmt) (ip : Bool) : ∀ (xs : List Ref) (s : Store), (mapCalls b s xs ip).1.lists = s.lists := by
  intro xs; induction xs with
  | nil => intro s; rfl
  | cons x xs ih => intro s; simp only [mapCalls]; rw [ih, call_lists]

/-! ## `@lock_neuron` -/

theorem bumpLock_objs_ne (s : Store) (x : Ref) (up : Bool) {o : Ref} (h : x ≠ o) :
    (s.bumpLock x up).objs[o]? = s.objs[o]? := by
  simp [Store.bumpLock, Store.setObj, List.getElem?_set_ne h]

theorem bumpLock_obj_same (s : Store) {x : Ref} (up : Bool) (hx : x < s.objs.length) :
    (s.bumpLock x up).obj x =
      { s.obj x with lock := if up then (s.obj x).lock + 1 else (s.obj x).lock - 1 } := by
  unfold Store.bumpLock; rw [obj_setObj_same hx]

theorem callLocked_ext (b : List Stmt) (s : Store) (x : Ref) (hx : x < s.objs.length)
    (hw : writesOwn true b = true) : Ext s (callLocked b s x false).1 := by
  show Ext s ((call b (s.bumpLock x true) x false).1.bumpLock x false)
  have he := call_ext b (s.bumpLock x true) x false hw
  have hx1 : x < (s.bumpLock x true).objs.length := by simpa [Store.bumpLock] using hx
  have hobj : (call b (s.bumpLock x true) x false).1.obj x = (s.bumpLock x true).obj x := he.obj hx1
  rw [bumpLock_obj_same s true hx] at hobj
  have hlen : (s.bumpLock x true).objs.length = s.objs.length := by simp [Store.bumpLock]
  have hdata : (s.bumpLock x true).data = s.data := rfl
  have hlists : (s.bumpLock x true).lists = s.lists := rfl
  generalize (call b (s.bumpLock x true) x false).1 = T at he hobj ⊢
  have hx2 : x < T.objs.length := Nat.lt_of_lt_of_le hx1 he.olen
  refine ⟨?_, ?_, ?_, ?_, ?_, ?_⟩
  · show s.data.length ≤ T.data.length
    rw [← hdata]; exact he.dlen
  · intro r hr
    show T.data[r]? = s.data[r]?
    rw [← hdata] at hr ⊢; exact he.dget r hr
  · show s.objs.length ≤ (T.bumpLock x false).objs.length
    simp only [Store.bumpLock, objs_length_setObj]; rw [← hlen]; exact he.olen
  · intro o ho
    by_cases e : x = o
    · subst e
      have h1 : (T.bumpLock x false).objs[x]? = some ((T.bumpLock x false).obj x) := by
        have : x < (T.bumpLock x false).objs.length := by simpa [Store.bumpLock] using hx2
        simp [Store.obj, this]
      have h2 : s.objs[x]? = some (s.obj x) := by simp [Store.obj, hx]
      rw [h1, h2, bumpLock_obj_same T false hx2, hobj]
      cases s.obj x; simp
    · rw [bumpLock_objs_ne T x false e, he.oget o (by rw [hlen]; exact ho), bumpLock_objs_ne s x true e]
  · show s.lists.length ≤ T.lists.length
    rw [← hlists]; exact he.llen
  · intro l hl
    show T.lists[l]? = s.lists[l]?
    rw [← hlists] at hl ⊢; exact he.lget l hl

end Navis.Heap
