import NavisModel.Model.Heap
/-!
Helper lemmas for C03 (heap model).  Core Lean only.

* `Ext s t` — every data / object / list cell of `s` is present and unchanged in `t` (the call only allocated);
* `Inv s0 t y v` — the receiver `y` is an object allocated after `s0` whose attributes are bound to cells allocated
  after `s0`, except possibly the graph attribute while it is a view (`v` over-approximates the view flag);
* `Sep t o` — the receiver is a valid object whose attributes are bound to pairwise distinct, valid data cells;
  under `Sep` the concrete semantics `exec` refines the address-free semantics `aexec`.
-/
namespace Navis.Heap

/-! ## basic store facts -/

structure Ext (s t : Store) : Prop where
  dlen : s.data.length ≤ t.data.length
  dget : ∀ r, r < s.data.length → t.data[r]? = s.data[r]?
  olen : s.objs.length ≤ t.objs.length
  oget : ∀ o, o < s.objs.length → t.objs[o]? = s.objs[o]?
  llen : s.lists.length ≤ t.lists.length
  lget : ∀ l, l < s.lists.length → t.lists[l]? = s.lists[l]?

theorem Ext.refl (s : Store) : Ext s s :=
  ⟨Nat.le_refl _, fun _ _ => rfl, Nat.le_refl _, fun _ _ => rfl, Nat.le_refl _, fun _ _ => rfl⟩

theorem Ext.trans {s t u : Store} (h1 : Ext s t) (h2 : Ext t u) : Ext s u where
  dlen := Nat.le_trans h1.dlen h2.dlen
  dget r hr := by rw [h2.dget r (Nat.lt_of_lt_of_le hr h1.dlen), h1.dget r hr]
  olen := Nat.le_trans h1.olen h2.olen
  oget o ho := by rw [h2.oget o (Nat.lt_of_lt_of_le ho h1.olen), h1.oget o ho]
  llen := Nat.le_trans h1.llen h2.llen
  lget l hl := by rw [h2.lget l (Nat.lt_of_lt_of_le hl h1.llen), h1.lget l hl]

theorem Ext.rd {s t : Store} (h : Ext s t) {r : Ref} (hr : r < s.data.length) : t.rd r = s.rd r := by
  unfold Store.rd; rw [h.dget r hr]

theorem Ext.obj {s t : Store} (h : Ext s t) {o : Ref} (ho : o < s.objs.length) : t.obj o = s.obj o := by
  unfold Store.obj; rw [h.oget o ho]

theorem Ext.lst {s t : Store} (h : Ext s t) {l : Ref} (hl : l < s.lists.length) : t.lst l = s.lst l := by
  unfold Store.lst; rw [h.lget l hl]

/-- writing a data cell that did not exist in `s0` keeps `Ext s0` -/
theorem Ext.wr_fresh {s0 t : Store} (h : Ext s0 t) {r : Ref} (hr : s0.data.length ≤ r) (v : Int) :
    Ext s0 (t.wr r v) where
  dlen := by simp [Store.wr]; exact h.dlen
  dget q hq := by
    have : r ≠ q := Nat.ne_of_gt (Nat.lt_of_lt_of_le hq hr)
    simp [Store.wr, List.getElem?_set_ne this]; exact h.dget q hq
  olen := h.olen
  oget := h.oget
  llen := h.llen
  lget := h.lget

theorem Ext.allocD {s0 t : Store} (h : Ext s0 t) (v : Int) : Ext s0 (t.allocD v).1 where
  dlen := by simp [Store.allocD]; have := h.dlen; omega
  dget q hq := by
    have : q < t.data.length := Nat.lt_of_lt_of_le hq h.dlen
    simp [Store.allocD, List.getElem?_append_left this]; exact h.dget q hq
  olen := h.olen
  oget := h.oget
  llen := h.llen
  lget := h.lget

theorem Ext.setObj_fresh {s0 t : Store} (h : Ext s0 t) {o : Ref} (ho : s0.objs.length ≤ o) (ob : Obj) :
    Ext s0 (t.setObj o ob) where
  dlen := h.dlen
  dget := h.dget
  olen := by simp [Store.setObj]; exact h.olen
  oget q hq := by
    have : o ≠ q := Nat.ne_of_gt (Nat.lt_of_lt_of_le hq ho)
    simp [Store.setObj, List.getElem?_set_ne this]; exact h.oget q hq
  llen := h.llen
  lget := h.lget

theorem Ext.allocObj {s0 t : Store} (h : Ext s0 t) (ob : Obj) : Ext s0 (t.allocObj ob).1 where
  dlen := h.dlen
  dget := h.dget
  olen := by simp [Store.allocObj]; have := h.olen; omega
  oget q hq := by
    have : q < t.objs.length := Nat.lt_of_lt_of_le hq h.olen
    simp [Store.allocObj, List.getElem?_append_left this]; exact h.oget q hq
  llen := h.llen
  lget := h.lget

theorem Ext.allocLst {s0 t : Store} (h : Ext s0 t) (xs : List Ref) : Ext s0 (t.allocLst xs).1 where
  dlen := h.dlen
  dget := h.dget
  olen := h.olen
  oget := h.oget
  llen := by simp [Store.allocLst]; have := h.llen; omega
  lget q hq := by
    have : q < t.lists.length := Nat.lt_of_lt_of_le hq h.llen
    simp [Store.allocLst, List.getElem?_append_left this]; exact h.lget q hq

/-! reading back -/

@[simp] theorem obj_setObj_same {t : Store} {o : Ref} (ho : o < t.objs.length) (ob : Obj) :
    (t.setObj o ob).obj o = ob := by
  simp [Store.setObj, Store.obj, ho]

theorem obj_setObj_ne {t : Store} {o o' : Ref} (h : o ≠ o') (ob : Obj) :
    (t.setObj o ob).obj o' = t.obj o' := by
  simp [Store.setObj, Store.obj, List.getElem?_set_ne h]

@[simp] theorem rd_setObj (t : Store) (o : Ref) (ob : Obj) (r : Ref) : (t.setObj o ob).rd r = t.rd r := rfl
@[simp] theorem data_setObj (t : Store) (o : Ref) (ob : Obj) : (t.setObj o ob).data = t.data := rfl
@[simp] theorem objs_length_setObj (t : Store) (o : Ref) (ob : Obj) :
    (t.setObj o ob).objs.length = t.objs.length := by simp [Store.setObj]
@[simp] theorem lists_setObj (t : Store) (o : Ref) (ob : Obj) : (t.setObj o ob).lists = t.lists := rfl
@[simp] theorem obj_wr (t : Store) (r : Ref) (v : Int) (o : Ref) : (t.wr r v).obj o = t.obj o := rfl
@[simp] theorem objs_wr (t : Store) (r : Ref) (v : Int) : (t.wr r v).objs = t.objs := rfl
@[simp] theorem lists_wr (t : Store) (r : Ref) (v : Int) : (t.wr r v).lists = t.lists := rfl
@[simp] theorem data_length_wr (t : Store) (r : Ref) (v : Int) : (t.wr r v).data.length = t.data.length := by
  simp [Store.wr]
@[simp] theorem obj_allocD (t : Store) (v : Int) (o : Ref) : (t.allocD v).1.obj o = t.obj o := rfl
@[simp] theorem objs_allocD (t : Store) (v : Int) : (t.allocD v).1.objs = t.objs := rfl
@[simp] theorem lists_allocD (t : Store) (v : Int) : (t.allocD v).1.lists = t.lists := rfl
@[simp] theorem snd_allocD (t : Store) (v : Int) : (t.allocD v).2 = t.data.length := rfl
@[simp] theorem data_length_allocD (t : Store) (v : Int) : (t.allocD v).1.data.length = t.data.length + 1 := by
  simp [Store.allocD]

theorem rd_wr_same {t : Store} {r : Ref} (hr : r < t.data.length) (v : Int) : (t.wr r v).rd r = v := by
  simp [Store.wr, Store.rd, hr]

theorem rd_wr_ne {t : Store} {r q : Ref} (h : r ≠ q) (v : Int) : (t.wr r v).rd q = t.rd q := by
  simp [Store.wr, Store.rd, List.getElem?_set_ne h]

theorem rd_allocD_new (t : Store) (v : Int) : (t.allocD v).1.rd t.data.length = v := by
  simp [Store.allocD, Store.rd]

theorem rd_allocD_old {t : Store} {q : Ref} (h : q < t.data.length) (v : Int) : (t.allocD v).1.rd q = t.rd q := by
  simp [Store.allocD, Store.rd, List.getElem?_append_left h]

/-! ## attribute records -/

theorem Obj.get_set (ob : Obj) (a a' : Attr) (v : Option Ref) :
    (ob.set a v).get a' = if a' = a then v else ob.get a' := by
  cases a <;> cases a' <;> simp [Obj.set, Obj.get]

theorem Abs.get_set (x : Abs) (a a' : Attr) (v : Option Int) :
    (x.set a v).get a' = if a' = a then v else x.get a' := by
  cases a <;> cases a' <;> simp [Abs.set, Abs.get]

theorem Obj.view_set (ob : Obj) (a : Attr) (v : Option Ref) :
    (ob.set a v).view = if a = .graph then false else ob.view := by
  cases a <;> simp [Obj.set]

@[simp] theorem Obj.info_set (ob : Obj) (a : Attr) (v : Option Ref) : (ob.set a v).info = ob.info := by
  cases a <;> rfl

theorem Obj.mem_refs {ob : Obj} {r : Ref} : r ∈ ob.refs ↔ ∃ a, ob.get a = some r := by
  unfold Obj.refs
  simp only [List.mem_append, Option.mem_toList]
  constructor
  · rintro (((h | h) | h) | h)
    · exact ⟨.nodes, h⟩
    · exact ⟨.conns, h⟩
    · exact ⟨.graph, h⟩
    · exact ⟨.igraph, h⟩
  · rintro ⟨a, h⟩
    cases a
    · exact .inl (.inl (.inl h))
    · exact .inl (.inl (.inr h))
    · exact .inl (.inr h)
    · exact .inr h

/-! ## the ownership invariant and the frame -/

/-- The receiver `y` was allocated after `s0`, and so was every container it is bound to — except possibly the
graph attribute while it is still a view (`v` over-approximates the view flag). -/
structure Inv (s0 t : Store) (y : Ref) (v : Bool) : Prop where
  ext : Ext s0 t
  fresh : s0.objs.length ≤ y
  own : ∀ a r, (t.obj y).get a = some r → (a = .graph ∧ (t.obj y).view = true) ∨ s0.data.length ≤ r
  flag : (t.obj y).view = true → v = true

theorem step_inv {s0 t : Store} {y : Ref} {v : Bool} (hy : y < t.objs.length) (h : Inv s0 t y v) (st : Stmt)
    (hst : (v && st.needsOwnGraph) = false) :
    Inv s0 (step t y st) y (v && !st.ownsGraph) ∧ y < (step t y st).objs.length := by
  cases st with
  | wr a f =>
    simp only [step]
    split
    · exact ⟨⟨h.ext, h.fresh, h.own, by
        intro hv; have := h.flag hv; subst this
        cases a <;> simp [Stmt.ownsGraph]⟩, hy⟩
    · rename_i r hr
      have hown := h.own a r hr
      have hr' : s0.data.length ≤ r := by
        rcases hown with ⟨ha, hv⟩ | h'
        · subst ha; have := h.flag hv; subst this; simp [Stmt.needsOwnGraph] at hst
        · exact h'
      refine ⟨⟨h.ext.wr_fresh hr' _, h.fresh, ?_, ?_⟩, by simpa using hy⟩
      · simpa using h.own
      · intro hv; have := h.flag (by simpa using hv); subst this
        cases a <;> simp [Stmt.ownsGraph]
  | rebind a f =>
    simp only [step]
    have hy' : y < (t.allocD (f (t.abs y))).1.objs.length := by simpa using hy
    refine ⟨⟨(h.ext.allocD _).setObj_fresh h.fresh _, h.fresh, ?_, ?_⟩, by simpa using hy⟩
    · intro a' r hr
      rw [obj_setObj_same hy', Obj.get_set] at hr
      rw [obj_setObj_same hy', Obj.view_set]
      split at hr
      · injection hr with hr; subst hr
        right; simp; exact h.ext.dlen
      · rename_i hne
        rcases h.own a' r hr with ⟨ha, hv⟩ | h'
        · left; subst ha
          have : a ≠ .graph := fun e => hne e.symm
          simp [this, hv]
        · exact .inr h'
    · rw [obj_setObj_same hy', Obj.view_set]
      intro hv
      cases a <;> simp_all [Stmt.ownsGraph] <;> exact h.flag hv
  | setMeta f =>
    simp only [step]
    refine ⟨⟨h.ext.setObj_fresh h.fresh _, h.fresh, ?_, ?_⟩, by simpa using hy⟩
    · intro a r hr
      rw [obj_setObj_same hy] at hr ⊢
      have : ({ t.obj y with info := f (t.abs y) } : Obj).get a = (t.obj y).get a := by cases a <;> rfl
      rw [this] at hr
      exact h.own a r hr
    · rw [obj_setObj_same hy]; intro hv; simp [Stmt.ownsGraph]; exact h.flag hv
  | thaw =>
    simp only [step]
    split
    · split
      · refine ⟨⟨h.ext.setObj_fresh h.fresh _, h.fresh, ?_, ?_⟩, by simpa using hy⟩
        · intro a r hr
          rw [obj_setObj_same hy, Obj.get_set] at hr
          rw [obj_setObj_same hy, Obj.view_set]
          split at hr
          · cases hr
          · rename_i hne
            rcases h.own a r hr with ⟨ha, _⟩ | h'
            · exact absurd ha hne
            · exact .inr h'
        · rw [obj_setObj_same hy, Obj.view_set]; simp
      · rename_i r hr
        have hy' : y < (t.allocD (t.rd r)).1.objs.length := by simpa using hy
        refine ⟨⟨(h.ext.allocD _).setObj_fresh h.fresh _, h.fresh, ?_, ?_⟩, by simpa using hy⟩
        · intro a r' hr'
          rw [obj_setObj_same hy', Obj.get_set] at hr'
          rw [obj_setObj_same hy', Obj.view_set]
          split at hr'
          · injection hr' with hr'; subst hr'
            right; simp; exact h.ext.dlen
          · rename_i hne
            rcases h.own a r' hr' with ⟨ha, _⟩ | h'
            · exact absurd ha hne
            · exact .inr h'
        · rw [obj_setObj_same hy', Obj.view_set]; simp
    · rename_i hv
      refine ⟨⟨h.ext, h.fresh, h.own, ?_⟩, hy⟩
      intro hv'; exact absurd hv' hv
  | clear a =>
    simp only [step]
    refine ⟨⟨h.ext.setObj_fresh h.fresh _, h.fresh, ?_, ?_⟩, by simpa using hy⟩
    · intro a' r hr
      rw [obj_setObj_same hy, Obj.get_set] at hr
      rw [obj_setObj_same hy, Obj.view_set]
      split at hr
      · cases hr
      · rename_i hne
        rcases h.own a' r hr with ⟨ha, hv⟩ | h'
        · left; subst ha
          have : a ≠ .graph := fun e => hne e.symm
          simp [this, hv]
        · exact .inr h'
    · rw [obj_setObj_same hy, Obj.view_set]
      intro hv
      cases a <;> simp_all [Stmt.ownsGraph] <;> exact h.flag hv

theorem exec_inv {s0 : Store} {y : Ref} (b : List Stmt) : ∀ (t : Store) (v : Bool), y < t.objs.length →
    Inv s0 t y v → writesOwn v b = true →
    Inv s0 (exec t y b) y (viewAfter v b) ∧ y < (exec t y b).objs.length := by
  induction b with
  | nil => intro t v hy h _; exact ⟨h, hy⟩
  | cons st b ih =>
    intro t v hy h hw
    simp only [writesOwn, Bool.and_eq_true, Bool.not_eq_true'] at hw
    obtain ⟨h1, h2⟩ := step_inv hy h st hw.1
    exact ih (step t y st) _ h2 h1 hw.2

/-! ## copy -/

theorem dup_ext {s0 t : Store} (h : Ext s0 t) (r : Option Ref) : Ext s0 (t.dup r).1 := by
  cases r with
  | none => exact h
  | some r => exact h.allocD _

@[simp] theorem dup_objs (t : Store) (r : Option Ref) : (t.dup r).1.objs = t.objs := by cases r <;> rfl
@[simp] theorem dup_lists (t : Store) (r : Option Ref) : (t.dup r).1.lists = t.lists := by cases r <;> rfl

theorem dup_len_le (t : Store) (r : Option Ref) : t.data.length ≤ (t.dup r).1.data.length := by
  cases r with
  | none => exact Nat.le_refl _
  | some r => simp [Store.dup]

theorem dup_some {t : Store} {r : Option Ref} {q : Ref} (h : (t.dup r).2 = some q) :
    q = t.data.length ∧ q < (t.dup r).1.data.length ∧ ∃ r0, r = some r0 ∧ (t.dup r).1.rd q = t.rd r0 := by
  cases r with
  | none => cases h
  | some r0 =>
    simp only [Store.dup, snd_allocD, Option.some.injEq] at h
    subst h
    exact ⟨rfl, by simp [Store.dup], r0, rfl, rd_allocD_new _ _⟩

theorem dup_isSome (t : Store) (r : Option Ref) : (t.dup r).2.isSome = r.isSome := by cases r <;> rfl

theorem dup_rd_old {t : Store} (r : Option Ref) {q : Ref} (hq : q < t.data.length) : (t.dup r).1.rd q = t.rd q := by
  cases r with
  | none => rfl
  | some r => exact rd_allocD_old hq _

/-- the object `copy` creates -/
def copyOf (s : Store) (x : Ref) (stale : Bool) : Obj :=
  let ob := s.obj x
  let p1 := s.dup ob.nodes
  let p2 := p1.1.dup ob.conns
  let p3 := if stale then (p2.1, none) else p2.1.dup ob.igraph
  { nodes := p1.2, conns := p2.2, igraph := p3.2, info := ob.info, lock := 0,
    graph := if stale then none else ob.graph, view := if stale then false else ob.graph.isSome }

theorem copyObj_snd (s : Store) (x : Ref) (stale : Bool) : (copyObj s x stale).2 = s.objs.length := by
  cases stale <;> simp [copyObj, Store.allocObj]

theorem copyObj_obj (s : Store) (x : Ref) (stale : Bool) :
    (copyObj s x stale).1.obj s.objs.length = copyOf s x stale := by
  cases stale <;> simp [copyObj, copyOf, Store.allocObj, Store.obj]

theorem copyObj_objs_length (s : Store) (x : Ref) (stale : Bool) :
    (copyObj s x stale).1.objs.length = s.objs.length + 1 := by
  cases stale <;> simp [copyObj, Store.allocObj]

theorem copyObj_ext (s : Store) (x : Ref) (stale : Bool) : Ext s (copyObj s x stale).1 := by
  cases stale
  · exact (dup_ext (dup_ext (dup_ext (Ext.refl s) _) _) _).allocObj _
  · exact (dup_ext (dup_ext (Ext.refl s) _) _).allocObj _

theorem copyObj_inv (s : Store) (x : Ref) (stale : Bool) :
    Inv s (copyObj s x stale).1 s.objs.length true where
  ext := copyObj_ext s x stale
  fresh := Nat.le_refl _
  flag _ := rfl
  own a r hr := by
    rw [copyObj_obj] at hr ⊢
    cases a with
    | nodes =>
      right; simp only [copyOf, Obj.get] at hr
      exact Nat.le_of_eq (dup_some hr).1.symm
    | conns =>
      right; simp only [copyOf, Obj.get] at hr
      rw [(dup_some hr).1]; exact dup_len_le s (s.obj x).nodes
    | graph =>
      left; refine ⟨rfl, ?_⟩
      cases stale
      · simp only [copyOf, Obj.get] at hr ⊢; simp at hr ⊢; simp [hr]
      · simp [copyOf, Obj.get] at hr
    | igraph =>
      right
      cases stale
      · simp only [copyOf, Obj.get] at hr; simp at hr
        rw [(dup_some hr).1]
        exact Nat.le_trans (dup_len_le s (s.obj x).nodes) (dup_len_le (s.dup (s.obj x).nodes).1 (s.obj x).conns)
      · simp [copyOf, Obj.get] at hr

/-- **Frame of the pattern**: whatever the body, as long as it respects `writesOwn`, a non-inplace call only
allocates: every cell of the old store survives unchanged. -/
theorem call_ext (b : List Stmt) (s : Store) (x : Ref) (stale : Bool) (hw : writesOwn true b = true) :
    Ext s (call b s x false stale).1 := by
  simp only [call, Bool.false_eq_true, if_false]
  rw [copyObj_snd]
  have hlen : s.objs.length < (copyObj s x stale).1.objs.length := by rw [copyObj_objs_length]; omega
  exact (exec_inv b _ true hlen (copyObj_inv s x stale) hw).1.ext

theorem call_snd_false (b : List Stmt) (s : Store) (x : Ref) (stale : Bool) :
    (call b s x false stale).2 = s.objs.length := by
  simp [call, copyObj_snd]

theorem exec_append (s : Store) (o : Ref) (b b' : List Stmt) : exec s o (b ++ b') = exec (exec s o b) o b' := by
  simp [exec, List.foldl_append]

theorem call_append (b b' : List Stmt) (s : Store) (x : Ref) (ip stale : Bool) :
    call (b ++ b') s x ip stale = (exec (call b s x ip stale).1 (call b s x ip stale).2 b', (call b s x ip stale).2) := by
  cases ip <;> simp [call, exec_append]

theorem viewAfter_append (v : Bool) (b b' : List Stmt) : viewAfter v (b ++ b') = viewAfter (viewAfter v b) b' := by
  simp [viewAfter, List.foldl_append]

theorem writesOwn_append (v : Bool) (b b' : List Stmt) :
    writesOwn v (b ++ b') = (writesOwn v b && writesOwn (viewAfter v b) b') := by
  induction b generalizing v with
  | nil => simp [writesOwn, viewAfter]
  | cons st b ih => simp [writesOwn, viewAfter, ih, Bool.and_assoc]

theorem writesOwn_mono (b : List Stmt) : ∀ v, writesOwn true b = true → writesOwn v b = true := by
  intro v h; cases v
  · induction b with
    | nil => rfl
    | cons st b ih => simp [writesOwn]; exact ih_false b
  · exact h
where
  ih_false : ∀ b : List Stmt, writesOwn false b = true := by
    intro b; induction b with
    | nil => rfl
    | cons st b ih => simp [writesOwn, ih]

theorem writesOwn_noGraphWrite (v : Bool) (b : List Stmt) (h : ∀ st ∈ b, st.needsOwnGraph = false) :
    writesOwn v b = true := by
  induction b generalizing v with
  | nil => rfl
  | cons st b ih =>
    simp only [writesOwn, Bool.and_eq_true, Bool.not_eq_true']
    refine ⟨?_, ih _ fun st' hst' => h st' (List.mem_cons_of_mem _ hst')⟩
    rw [h st (List.mem_cons_self ..)]; simp

/-! ## the concrete semantics refines the address-free one -/

/-- The receiver is a valid object bound to valid, pairwise distinct containers. -/
structure Sep (t : Store) (o : Ref) : Prop where
  valid : o < t.objs.length
  bound : ∀ a r, (t.obj o).get a = some r → r < t.data.length
  inj : ∀ a a' r, (t.obj o).get a = some r → (t.obj o).get a' = some r → a = a'

theorem Abs.ext' {x y : Abs} (h : ∀ a, x.get a = y.get a) (hi : x.info = y.info) : x = y := by
  cases x; cases y
  have h1 := h .nodes; have h2 := h .conns; have h3 := h .graph; have h4 := h .igraph
  simp only [Abs.get] at h1 h2 h3 h4
  simp_all

theorem absObj_get (t : Store) (ob : Obj) (a : Attr) : (t.absObj ob).get a = (ob.get a).map t.rd := by
  cases a <;> rfl

theorem abs_get (t : Store) (o : Ref) (a : Attr) : (t.abs o).get a = ((t.obj o).get a).map t.rd :=
  absObj_get t _ a

@[simp] theorem Abs.info_set (x : Abs) (a : Attr) (v : Option Int) : (x.set a v).info = x.info := by
  cases a <;> rfl

theorem abs_info (t : Store) (o : Ref) : (t.abs o).info = (t.obj o).info := rfl

theorem step_wr_none {t : Store} {o : Ref} {a : Attr} (f : Abs → Int) (hg : (t.obj o).get a = none) :
    step t o (.wr a f) = t := by simp [step, hg]

theorem step_wr_some {t : Store} {o : Ref} {a : Attr} {r : Ref} (f : Abs → Int) (hg : (t.obj o).get a = some r) :
    step t o (.wr a f) = t.wr r (f (t.abs o)) := by simp [step, hg]

theorem astep_wr_none {x : Abs} {a : Attr} (f : Abs → Int) (hg : x.get a = none) : astep x (.wr a f) = x := by
  simp [astep, hg]

theorem astep_wr_some {x : Abs} {a : Attr} {v : Int} (f : Abs → Int) (hg : x.get a = some v) :
    astep x (.wr a f) = x.set a (some (f x)) := by
  simp [astep, hg]

/-- binding attribute `a` of a `Sep` receiver to a freshly allocated cell keeps `Sep` -/
theorem sep_bind_fresh {t : Store} {o : Ref} (h : Sep t o) (a : Attr) (v : Int) :
    Sep ((t.allocD v).1.setObj o ((t.obj o).set a (some t.data.length))) o := by
  have hy' : o < (t.allocD v).1.objs.length := by simpa using h.valid
  refine ⟨by simpa using h.valid, ?_, ?_⟩
  · intro a' r' hr'
    rw [obj_setObj_same hy', Obj.get_set] at hr'
    simp only [data_setObj, data_length_allocD]
    split at hr'
    · injection hr' with hr'; subst hr'; exact Nat.lt_succ_self _
    · exact Nat.lt_succ_of_lt (h.bound a' r' hr')
  · intro a1 a2 r' h1 h2
    rw [obj_setObj_same hy', Obj.get_set] at h1 h2
    by_cases e1 : a1 = a <;> by_cases e2 : a2 = a
    · rw [e1, e2]
    · simp only [e1, e2, if_true, if_false] at h1 h2
      injection h1 with h1; subst h1
      exact absurd (h.bound a2 _ h2) (Nat.lt_irrefl _)
    · simp only [e1, e2, if_true, if_false] at h1 h2
      injection h2 with h2; subst h2
      exact absurd (h.bound a1 _ h1) (Nat.lt_irrefl _)
    · simp only [e1, e2, if_false] at h1 h2
      exact h.inj a1 a2 r' h1 h2

theorem abs_bind_fresh {t : Store} {o : Ref} (h : Sep t o) (a : Attr) (v : Int) :
    ((t.allocD v).1.setObj o ((t.obj o).set a (some t.data.length))).abs o = (t.abs o).set a (some v) := by
  have hy' : o < (t.allocD v).1.objs.length := by simpa using h.valid
  apply Abs.ext'
  · intro a'
    rw [abs_get, obj_setObj_same hy', Obj.get_set, Abs.get_set, abs_get]
    by_cases e : a' = a
    · simp only [e, if_true, Option.map_some, rd_setObj]
      rw [rd_allocD_new]
    · simp only [e, if_false]
      cases hg' : (t.obj o).get a' with
      | none => rfl
      | some r' => simp [rd_allocD_old (h.bound a' r' hg')]
  · rw [abs_info, obj_setObj_same hy', Obj.info_set, Abs.info_set]; rfl

/-- replacing the object record by one with the same bindings keeps `Sep` -/
theorem sep_setObj_sameGet {t : Store} {o : Ref} (h : Sep t o) (ob : Obj) (hget : ∀ a, ob.get a = (t.obj o).get a) :
    Sep (t.setObj o ob) o := by
  refine ⟨by simpa using h.valid, ?_, ?_⟩
  · intro a r hr; rw [obj_setObj_same h.valid, hget] at hr; simpa using h.bound a r hr
  · intro a1 a2 r h1 h2; rw [obj_setObj_same h.valid, hget] at h1 h2; exact h.inj a1 a2 r h1 h2

theorem abs_setObj_sameGet {t : Store} {o : Ref} (h : Sep t o) (ob : Obj) (hget : ∀ a, ob.get a = (t.obj o).get a) :
    (t.setObj o ob).abs o = { t.abs o with info := ob.info } := by
  apply Abs.ext'
  · intro a; rw [abs_get, obj_setObj_same h.valid, hget]
    show _ = (t.abs o).get a
    rw [abs_get]; rfl
  · rw [abs_info, obj_setObj_same h.valid]

theorem step_abs {t : Store} {o : Ref} (h : Sep t o) (st : Stmt) :
    Sep (step t o st) o ∧ (step t o st).abs o = astep (t.abs o) st := by
  cases st with
  | wr a f =>
    cases hg : (t.obj o).get a with
    | none =>
      rw [step_wr_none f hg, astep_wr_none f (by rw [abs_get, hg]; rfl)]
      exact ⟨h, rfl⟩
    | some r =>
      rw [step_wr_some f hg, astep_wr_some (v := t.rd r) f (by rw [abs_get, hg]; rfl)]
      have hr := h.bound a r hg
      refine ⟨⟨h.valid, ?_, ?_⟩, ?_⟩
      · intro a' r' hr'; simpa using h.bound a' r' hr'
      · intro a1 a2 r'; simpa using h.inj a1 a2 r'
      · apply Abs.ext'
        · intro a'
          rw [abs_get, Abs.get_set, abs_get, obj_wr]
          by_cases e : a' = a
          · subst e; simp [hg, rd_wr_same hr]
          · simp only [e, if_false]
            cases hg' : (t.obj o).get a' with
            | none => rfl
            | some r' =>
              have : r ≠ r' := fun e' => e (h.inj a' a r' hg' (e' ▸ hg))
              simp [rd_wr_ne this]
        · rw [Abs.info_set]; rfl
  | rebind a f =>
    simp only [step, astep, snd_allocD, obj_allocD]
    exact ⟨sep_bind_fresh h a _, abs_bind_fresh h a _⟩
  | setMeta f =>
    simp only [step, astep]
    have hget : ∀ a, ({ t.obj o with info := f (t.abs o) } : Obj).get a = (t.obj o).get a := by
      intro a; cases a <;> rfl
    exact ⟨sep_setObj_sameGet h _ hget, abs_setObj_sameGet h _ hget⟩
  | thaw =>
    simp only [step, astep]
    split
    · cases hg : (t.obj o).graph with
      | none =>
        simp only
        have hget : ∀ a, ((t.obj o).set .graph none).get a = (t.obj o).get a := by
          intro a; rw [Obj.get_set]; split
          · rename_i e; subst e; exact hg.symm
          · rfl
        refine ⟨sep_setObj_sameGet h _ hget, ?_⟩
        rw [abs_setObj_sameGet h _ hget, Obj.info_set]; rfl
      | some r =>
        simp only [snd_allocD, obj_allocD]
        have hg' : (t.obj o).get .graph = some r := hg
        refine ⟨sep_bind_fresh h .graph _, ?_⟩
        rw [abs_bind_fresh h .graph]
        apply Abs.ext'
        · intro a'; rw [Abs.get_set]
          split
          · rename_i e; subst e; rw [abs_get, hg']; rfl
          · rfl
        · rw [Abs.info_set]
    · exact ⟨h, rfl⟩
  | clear a =>
    simp only [step, astep]
    refine ⟨⟨by simpa using h.valid, ?_, ?_⟩, ?_⟩
    · intro a' r' hr'
      rw [obj_setObj_same h.valid, Obj.get_set] at hr'
      split at hr'
      · cases hr'
      · simpa using h.bound a' r' hr'
    · intro a1 a2 r' h1 h2
      rw [obj_setObj_same h.valid, Obj.get_set] at h1 h2
      split at h1
      · cases h1
      · split at h2
        · cases h2
        · exact h.inj a1 a2 r' h1 h2
    · apply Abs.ext'
      · intro a'
        rw [abs_get, obj_setObj_same h.valid, Obj.get_set, Abs.get_set, abs_get]
        split
        · rfl
        · rfl
      · rw [abs_info, obj_setObj_same h.valid, Obj.info_set, Abs.info_set]; rfl

theorem exec_abs (b : List Stmt) : ∀ {t : Store} {o : Ref}, Sep t o →
    Sep (exec t o b) o ∧ (exec t o b).abs o = aexec (t.abs o) b := by
  induction b with
  | nil => intro t o h; exact ⟨h, rfl⟩
  | cons st b ih =>
    intro t o h
    obtain ⟨h1, h2⟩ := step_abs h st
    obtain ⟨h3, h4⟩ := ih h1
    refine ⟨h3, ?_⟩
    show (exec (step t o st) o b).abs o = aexec (astep (t.abs o) st) b
    rw [h4, h2]

end Navis.Heap
