import NavisModel.Model.Heap
/-!
Helper lemmas for C03 (heap model).  Core Lean only.

* `Ext s t` — every data / object / list cell of `s` is present and unchanged in `t` (the call only allocated);
* `Inv s0 t y v` — the receiver `y` is an object allocated after `s0` whose attributes are bound to cells allocated
  after `s0`, except possibly the graph attribute while it is a view (`v` over-approximates the view flag);
* `Sep t o` — the receiver is a valid object whose attributes are bound to pairwise distinct, valid data cells;
  under `Sep` the concrete semantics `exec` refines the address-free semantics `aexec`.
-/
namespace Navis.Heap

/-! ## basic store facts -/

structure Ext (s t : Store) : Prop where
  dlen : s.data.length ≤ t.data.length
  dget : ∀ r, r < s.data.length → t.data[r]? = s.data[r]?
  olen : s.objs.length ≤ t.objs.length
  oget : ∀ o, o < s.objs.length → t.objs[o]? = s.objs[o]?
  llen : s.lists.length ≤ t.lists.length
  lget : ∀ l, l < s.lists.length → t.lists[l]? = s.lists[l]?

theorem Ext.refl (s : Store) : Ext s s :=
  ⟨Nat.le_refl _, fun _ _ => rfl, Nat.le_refl _, fun _ _ => rfl, Nat.le_refl _, fun _ _ => rfl⟩

theorem Ext.trans {s t u : Store} (h1 : Ext s t) (h2 : Ext t u) : Ext s u where
  dlen := Nat.le_trans h1.dlen h2.dlen
  dget r hr := by rw [h2.dget r (Nat.lt_of_lt_of_le hr h1.dlen), h1.dget r hr]
  olen := Nat.le_trans h1.olen h2.olen
  oget o ho := by rw [h2.oget o (Nat.lt_of_lt_of_le ho h1.olen), h1.oget o ho]
  llen := Nat.le_trans h1.llen h2.llen
  lget l hl := by rw [h2.lget l (Nat.lt_of_lt_of_le hl h1.llen), h1.lget l hl]

theorem Ext.rd {s t : Store} (h : Ext s t) {r : Ref} (hr : r < s.data.length) : t.rd r = s.rd r := by
  unfold Store.rd; rw [h.dget r hr]

theorem Ext.obj {s t : Store} (h : Ext s t) {o : Ref} (ho : o < s.objs.length) : t.obj o = s.obj o := by
  unfold Store.obj; rw [h.oget o ho]

theorem Ext.lst {s t : Store} (h : Ext s t) {l : Ref} (hl : l < s.lists.length) : t.lst l = s.lst l := by
  unfold Store.lst; rw [h.lget l hl]

/-- writing a data cell that did not exist in `s0` keeps `Ext s0` -/
theorem Ext.wr_fresh {s0 t : Store} (h : Ext s0 t) {r : Ref} (hr : s0.data.length ≤ r) (v : Int) :
    Ext s0 (t.wr r v) where
  dlen := by simp [Store.wr]; exact h.dlen
  dget q hq := by
    have : r ≠ q := Nat.ne_of_gt (Nat.lt_of_lt_of_le hq hr)
    simp [Store.wr, List.getElem?_set_ne this]; exact h.dget q hq
  olen := h.olen
  oget := h.oget
  llen := h.llen
  lget := h.lget

theorem Ext.allocD {s0 t : Store} (h : Ext s0 t) (v : Int) : Ext s0 (t.allocD v).1 where
  dlen := by simp [Store.allocD]; have := h.dlen; omega
  dget q hq := by
    have : q < t.data.length := Nat.lt_of_lt_of_le hq h.dlen
    simp [Store.allocD, List.getElem?_append_left this]; exact h.dget q hq
  olen := h.olen
  oget := h.oget
  llen := h.llen
  lget := h.lget

theorem Ext.setObj_fresh {s0 t : Store} (h : Ext s0 t) {o : Ref} (ho : s0.objs.length ≤ o) (ob : Obj) :
    Ext s0 (t.setObj o ob) where
  dlen := h.dlen
  dget := h.dget
  olen := by simp [Store.setObj]; exact h.olen
  oget q hq := by
    have : o ≠ q := Nat.ne_of_gt (Nat.lt_of_lt_of_le hq ho)
    simp [Store.setObj, List.getElem?_set_ne this]; exact h.oget q hq
  llen := h.llen
  lget := h.lget

theorem Ext.allocObj {s0 t : Store} (h : Ext s0 t) (ob : Obj) : Ext s0 (t.allocObj ob).1 where
  dlen := h.dlen
  dget := h.dget
  olen := by simp [Store.allocObj]; have := h.olen; omega
  oget q hq := by
    have : q < t.objs.length := Nat.lt_of_lt_of_le hq h.olen
    simp [Store.allocObj, List.getElem?_append_left this]; exact h.oget q hq
  llen := h.llen
  lget := h.lget

theorem Ext.allocLst {s0 t : Store} (h : Ext s0 t) (xs : List Ref) : Ext s0 (t.allocLst xs).1 where
  dlen := h.dlen
  dget := h.dget
  olen := h.olen
  oget := h.oget
  llen := by simp [Store.allocLst]; have := h.llen; omega
  lget q hq := by
    have : q < t.lists.length := Nat.lt_of_lt_of_le hq h.llen
    simp [Store.allocLst, List.getElem?_append_left this]; exact h.lget q hq

/-! reading back -/

@[simp] theorem obj_setObj_same {t : Store} {o : Ref} (ho : o < t.objs.length) (ob : Obj) :
    (t.setObj o ob).obj o = ob := by
  simp [Store.setObj, Store.obj, ho]

theorem obj_setObj_ne {t : Store} {o o' : Ref} (h : o ≠ o') (ob : Obj) :
    (t.setObj o ob).obj o' = t.obj o' := by
  simp [Store.setObj, Store.obj, List.getElem?_set_ne h]

@[simp] theorem rd_setObj (t : Store) (o : Ref) (ob : Obj) (r : Ref) : (t.setObj o ob).rd r = t.rd r := rfl
@[simp] theorem data_setObj (t : Store) (o : Ref) (ob : Obj) : (t.setObj o ob).data = t.data := rfl
@[simp] theorem objs_length_setObj (t : Store) (o : Ref) (ob : Obj) :
    (t.setObj o ob).objs.length = t.objs.length := by simp [Store.setObj]
@[simp] theorem lists_setObj (t : Store) (o : Ref) (ob : Obj) : (t.setObj o ob).lists = t.lists := rfl
@[simp] theorem obj_wr (t : Store) (r : Ref) (v : Int) (o : Ref) : (t.wr r v).obj o = t.obj o := rfl
@[simp] theorem objs_wr (t : Store) (r : Ref) (v : Int) : (t.wr r v).objs = t.objs := rfl
@[simp] theorem lists_wr (t : Store) (r : Ref) (v : Int) : (t.wr r v).lists = t.lists := rfl
@[simp] theorem data_length_wr (t : Store) (r : Ref) (v : Int) : (t.wr r v).data.length = t.data.length := by
  simp [Store.wr]
@[simp] theorem obj_allocD (t : Store) (v : Int) (o : Ref) : (t.allocD v).1.obj o = t.obj o := rfl
@[simp] theorem objs_allocD (t : Store) (v : Int) : (t.allocD v).1.objs = t.objs := rfl
@[simp] theorem lists_allocD (t : Store) (v : Int) : (t.allocD v).1.lists = t.lists := rfl
@[simp] theorem snd_allocD (t : Store) (v : Int) : (t.allocD v).2 = t.data.length := rfl
@[simp] theorem data_length_allocD (t : Store) (v : Int) : (t.allocD v).1.data.length = t.data.length + 1 := by
  simp [Store.allocD]

theorem rd_wr_same {t : Store} {r : Ref} (hr : r < t.data.length) (v : Int) : (t.wr r v).rd r = v := by
  simp [Store.wr, Store.rd, hr]

theorem rd_wr_ne {t : Store} {r q : Ref} (h : r ≠ q) (v : Int) : (t.wr r v).rd q = t.rd q := by
  simp [Store.wr, Store.rd, List.getElem?_set_ne h]

theorem rd_allocD_new (t : Store) (v : Int) : (t.allocD v).1.rd t.data.length = v := by
  simp [Store.allocD, Store.rd]

theorem rd_allocD_old {t : Store} {q : Ref} (h : q < t.data.length) (v : Int) : (t.allocD v).1.rd q = t.rd q := by
  simp [Store.allocD, Store.rd, List.getElem?_append_left h]

/-! ## attribute records -/

theorem Obj.get_set (ob : Obj) (a a' : Attr) (v : Option Ref) :
    (ob.set a v).get a' = if a' = a then v else ob.get a' := by
  cases a <;> cases a' <;> simp [Obj.set, Obj.get]

theorem Abs.get_set (x : Abs) (a a' : Attr) (v : Option Int) :
    (x.set a v).get a' = if a' = a then v else x.get a' := by
  cases a <;> cases a' <;> simp [Abs.set, Abs.get]

theorem Obj.view_set (ob : Obj) (a : Attr) (v : Option Ref) :
    (ob.set a v).view = if a = .graph then false else ob.view := by
  cases a <;> simp [Obj.set]

@[simp] theorem Obj.info_set (ob : Obj) (a : Attr) (v : Option Ref) : (ob.set a v).info = ob.info := by
  cases a <;> rfl

theorem Obj.mem_refs {ob : Obj} {r : Ref} : r ∈ ob.refs ↔ ∃ a, ob.get a = some r := by
  unfold Obj.refs
  simp only [List.mem_append, Option.mem_toList]
  constructor
  · rintro (((h | h) | h) | h)
    · exact ⟨.nodes, h⟩
    · exact ⟨.conns, h⟩
    · exact ⟨.graph, h⟩
    · exact ⟨.igraph, h⟩
  · rintro ⟨a, h⟩
    cases a
    · exact .inl (.inl (.inl h))
    · exact .inl (.inl (.inr h))
    · exact .inl (.inr h)
    · exact .inr h

end Navis.Heap
