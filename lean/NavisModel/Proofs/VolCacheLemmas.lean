import NavisModel.Model.VolCache
/-!
Helper lemmas for the cached ray-casting structure (property C18).  Core Lean only.
-/
namespace Navis.VolCache

variable {G : Type}

/-- every cache entry under an attribute of `A` was built from the object's current geometry -/
def FreshFor (A : List String) (o : Obj G) : Prop := ∀ e ∈ o.cache, e.attr ∈ A → e.built = o.geom

def StoreFresh (A : List String) (st : Store G) : Prop := ∀ o ∈ st, FreshFor A o

theorem freshFor_fresh (A : List String) (g : G) : FreshFor A (Obj.fresh g) := by
  intro e he; cases he

theorem lookup_mem (c : List (Entry G)) (a : String) (e : Entry G) (h : lookup c a = some e) :
    e ∈ c ∧ e.attr = a := by
  unfold lookup at h
  refine ⟨List.mem_of_find?_eq_some h, ?_⟩
  have := List.find?_some h
  simpa using this

theorem freshFor_store (A : List String) (o : Obj G) (a : String) (r : Nat) (h : FreshFor A o) :
    FreshFor A (o.store a r) := by
  intro e he _
  simp only [Obj.store, List.mem_cons] at he
  rcases he with rfl | he
  · rfl
  · exact h e (List.mem_filter.mp he).1 ‹_›

/-- one back-end call on an object whose `A`-entries are fresh: they stay fresh, and when the back-end's attribute is in
`A` (or it has none) the answer is computed from the current geometry -/
theorem query_spec (A : List String) (be : Backend) (r : Nat) (o : Obj G) (h : FreshFor A o)
    (ha : ∀ a, be.attr = some a → a ∈ A) :
    FreshFor A (o.query be r).1 ∧ (o.query be r).2 = o.geom ∧ (o.query be r).1.geom = o.geom := by
  unfold Obj.query
  cases hattr : be.attr with
  | none => exact ⟨h, rfl, rfl⟩
  | some a =>
    simp only
    cases hl : lookup o.cache a with
    | none => exact ⟨freshFor_store A o a r h, rfl, rfl⟩
    | some e =>
      simp only
      by_cases hk : (be.raysKeyed && !(e.rays == r)) = true
      · rw [if_pos hk]; exact ⟨freshFor_store A o a r h, rfl, rfl⟩
      · rw [if_neg hk]
        obtain ⟨hm, hea⟩ := lookup_mem _ _ _ hl
        exact ⟨h, h e hm (hea ▸ ha a hattr), rfl⟩

theorem freshFor_mutate (A : List String) (cl : List String) (f : G → G) (o : Obj G)
    (hc : ∀ a ∈ A, a ∈ cl) : FreshFor A (o.mutate cl f) := by
  intro e he hA
  simp only [Obj.mutate, List.mem_filter] at he
  have := hc _ hA
  rw [← List.contains_iff_mem] at this
  rw [this] at he
  exact absurd he.2 (by simp)

theorem freshFor_pickle (A : List String) (dr : List String) (o : Obj G) (h : FreshFor A o) :
    FreshFor A (o.pickle dr) := by
  intro e he hA
  simp only [Obj.pickle, List.mem_filter] at he
  exact h e he.1 hA

theorem storeFresh_set (A : List String) (st : Store G) (i : Nat) (o : Obj G) (h : StoreFresh A st)
    (ho : FreshFor A o) : StoreFresh A (setAt st i o) := by
  intro o' ho'
  unfold setAt at ho'
  rcases List.mem_or_eq_of_mem_set ho' with h' | rfl
  · exact h _ h'
  · exact ho

theorem storeFresh_snoc (A : List String) (st : Store G) (o : Obj G) (h : StoreFresh A st)
    (ho : FreshFor A o) : StoreFresh A (st ++ [o]) := by
  intro o' ho'
  rcases List.mem_append.mp ho' with h' | h'
  · exact h _ h'
  · rw [List.mem_singleton.mp h']; exact ho

/-- the side conditions one operation has to meet for the invariant -/
def OpOK (s : Spec) (A : List String) : Op G → Prop
  | .query _ b _ => ∀ a, s.attrOf b = some a → a ∈ A
  | .mutate _ m _ => ∀ a ∈ A, a ∈ s.clearsOf m
  | .copy _ _ => True
  | .pickle _ => True

theorem step_spec (s : Spec) (A : List String) (st : Store G) (op : Op G) (h : StoreFresh A st)
    (hop : OpOK s A op) :
    StoreFresh A (step s st op).1 ∧ ∀ ans, (step s st op).2 = some ans → ans.used = ans.current := by
  cases op with
  | query i b r =>
    simp only [step]
    cases hi : st[i]? with
    | none => exact ⟨h, by intro ans ha; cases ha⟩
    | some o =>
      simp only
      have ho : FreshFor A o := h o (List.mem_of_getElem? hi)
      cases hb : s.backend b with
      | none => exact ⟨h, by intro ans ha; cases ha; rfl⟩
      | some be =>
        simp only
        have hattr : ∀ a, be.attr = some a → a ∈ A := by
          intro a hba
          apply hop a
          simp [Spec.attrOf, hb, hba]
        obtain ⟨h1, h2, _⟩ := query_spec A be r o ho hattr
        exact ⟨storeFresh_set A st i _ h h1, by intro ans ha; cases ha; exact h2⟩
  | mutate i m f =>
    simp only [step]
    cases hi : st[i]? with
    | none => exact ⟨h, by intro ans ha; cases ha⟩
    | some o =>
      exact ⟨storeFresh_set A st i _ h (freshFor_mutate A _ f o hop), by intro ans ha; cases ha⟩
  | copy i f =>
    simp only [step]
    cases hi : st[i]? with
    | none => exact ⟨h, by intro ans ha; cases ha⟩
    | some o => exact ⟨storeFresh_snoc A st _ h (freshFor_fresh A _), by intro ans ha; cases ha⟩
  | pickle i =>
    simp only [step]
    cases hi : st[i]? with
    | none => exact ⟨h, by intro ans ha; cases ha⟩
    | some o =>
      exact ⟨storeFresh_snoc A st _ h (freshFor_pickle A _ o (h o (List.mem_of_getElem? hi))),
        by intro ans ha; cases ha⟩

theorem exec_spec (s : Spec) (A : List String) (ops : List (Op G)) (st : Store G) (h : StoreFresh A st)
    (hops : ∀ op ∈ ops, OpOK s A op) :
    StoreFresh A (exec s st ops).1 ∧ ∀ ans ∈ (exec s st ops).2, ans.used = ans.current := by
  induction ops generalizing st with
  | nil => exact ⟨h, by intro ans ha; cases ha⟩
  | cons op ops ih =>
    obtain ⟨h1, h2⟩ := step_spec s A st op h (hops op (List.mem_cons_self ..))
    have ih' := ih (step s st op).1 h1 (fun o ho => hops o (List.mem_cons_of_mem _ ho))
    unfold exec
    cases ha : (step s st op).2 with
    | none => simpa [ha] using ih'
    | some a =>
      simp only
      refine ⟨ih'.1, ?_⟩
      intro ans hm
      rcases List.mem_cons.mp hm with rfl | hm
      · exact h2 _ ha
      · exact ih'.2 _ hm

/-! ## the decidable coverage condition -/

theorem clearsOf_of_mem (s : Spec) (m : String) (hm : m ∈ s.mutatorNames) :
    ∃ mu ∈ s.mutators, mu.name = m ∧ s.clearsOf m = mu.clears := by
  unfold Spec.clearsOf
  cases hf : s.mutators.find? (fun mu => mu.name == m) with
  | some mu =>
    refine ⟨mu, List.mem_of_find?_eq_some hf, ?_, rfl⟩
    have := List.find?_some hf
    simpa using this
  | none =>
    exfalso
    obtain ⟨mu, hmu, rfl⟩ := List.mem_map.mp hm
    have := List.find?_eq_none.mp hf mu hmu
    simp at this

theorem coversB_spec (s : Spec) (bs : List String) (h : coversB s bs = true) (b : String) (hb : b ∈ bs)
    (a : String) (ha : s.attrOf b = some a) (m : String) (hm : m ∈ s.mutatorNames) : a ∈ s.clearsOf m := by
  unfold coversB at h
  have h1 := List.all_eq_true.mp h b hb
  rw [ha] at h1
  simp only at h1
  obtain ⟨mu, hmu, _, hcl⟩ := clearsOf_of_mem s m hm
  have := List.all_eq_true.mp h1 mu hmu
  rw [hcl]
  exact List.contains_iff_mem.mp this

theorem attrOf_backend (s : Spec) (b a : String) (ha : s.attrOf b = some a) :
    ∃ be ∈ s.backends, be.attr = some a := by
  unfold Spec.attrOf at ha
  cases hb : s.backend b with
  | none => rw [hb] at ha; cases ha
  | some be =>
    rw [hb] at ha
    exact ⟨be, List.mem_of_find?_eq_some hb, ha⟩

theorem attrOf_mem_allAttrs (s : Spec) (b a : String) (ha : s.attrOf b = some a) :
    a ∈ s.backends.filterMap (·.attr) := by
  obtain ⟨be, hbe, h⟩ := attrOf_backend s b a ha
  exact List.mem_filterMap.mpr ⟨be, hbe, h⟩

theorem mem_clearingMutators (s : Spec) (m : String) (h : m ∈ clearingMutators s) (a : String)
    (ha : a ∈ s.backends.filterMap (·.attr)) : a ∈ s.clearsOf m := by
  unfold clearingMutators at h
  obtain ⟨_, hall⟩ := List.mem_filter.mp h
  obtain ⟨be, hbe, hattr⟩ := List.mem_filterMap.mp ha
  have := List.all_eq_true.mp hall be hbe
  rw [hattr] at this
  exact List.contains_iff_mem.mp this

/-! ## the converse: an uncovered (back-end, mutator) pair has a stale three-step history -/

theorem stale_history (s : Spec) (be : Backend) (a : String) (m : String) (r : Nat) (g : G) (f : G → G)
    (hb : s.backend be.name = some be) (hattr : be.attr = some a) (hm : a ∉ s.clearsOf m) :
    (exec s [Obj.fresh g] [.query 0 be.name r, .mutate 0 m f, .query 0 be.name r]).2
      = [⟨g, g⟩, ⟨g, f g⟩] := by
  simp [exec, step, hb, Obj.query, hattr, lookup, Obj.fresh, Obj.store, setAt, Obj.mutate, hm]

end Navis.VolCache
