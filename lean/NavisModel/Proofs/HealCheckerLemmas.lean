import NavisModel.Proofs.HealCheckLemmas
import NavisModel.Proofs.WfB
/-!
C11 helper lemmas, second pass, part 2 (core Lean only): soundness of the Lean-side checkers the driver
evaluates on navis' own output (`healOKPB`, `healMinOKB`, `stitchOKWith` / `stitchOKB`).
-/
namespace Navis.Heal
open Navis.Forest

/-! ### small list facts -/

theorem inj_of_nodup_map {α β} {f : α → β} : ∀ {l : List α}, (l.map f).Nodup →
    ∀ a ∈ l, ∀ b ∈ l, f a = f b → a = b
  | [], _ => by simp
  | x :: xs, h => by
    rw [List.map_cons, List.nodup_cons] at h
    intro a ha b hb hab
    rcases List.mem_cons.mp ha with rfl | ha' <;> rcases List.mem_cons.mp hb with rfl | hb'
    · rfl
    · exact absurd (List.mem_map.mpr ⟨b, hb', hab.symm⟩) h.1
    · exact absurd (List.mem_map.mpr ⟨a, ha', hab⟩) h.1
    · exact inj_of_nodup_map h.2 a ha' b hb' hab

theorem length_filterMap_of_isSome {α β} {f : α → Option β} : ∀ {l : List α}, (∀ x ∈ l, (f x).isSome = true) →
    (l.filterMap f).length = l.length
  | [], _ => rfl
  | x :: xs, h => by
    have hx := h x List.mem_cons_self
    cases hfx : f x with
    | none => rw [hfx] at hx; simp at hx
    | some y =>
      rw [List.filterMap_cons_some hfx]
      simp [length_filterMap_of_isSome fun z hz => h z (List.mem_cons_of_mem _ hz)]

theorem mem_of_find? {t : Table} {i : Int} {n : Node} (h : find? t i = some n) : n ∈ t ∧ n.id = i := by
  unfold find? at h
  exact ⟨List.mem_of_find?_eq_some h, by simpa using List.find?_some h⟩

/-! ### `healOKPB` -/

theorem healOKPB_sound (t u : Table) (m : Option Nat) (h : healOKPB t u m = true) :
    (u.map key).Perm (t.map key) ∧ WF u ∧
    (∀ e ∈ uedges t, e ∈ uedges u) ∧
    (newEdges t u).length + (roots u).length = (roots t).length ∧
    ∀ e ∈ newEdges t u, ∃ d, edgeD2 t e = some d ∧ ∀ k, m = some k → d ≤ k := by
  unfold healOKPB at h
  simp only [Bool.and_eq_true, List.all_eq_true, decide_eq_true_eq, List.contains_eq_mem] at h
  obtain ⟨⟨⟨⟨h1, h2⟩, h3⟩, h4⟩, h5⟩ := h
  refine ⟨List.isPerm_iff.mp h1, wfB_sound h2, h3, h4, ?_⟩
  intro e he
  have := h5 e he
  cases hd : edgeD2 t e with
  | none => rw [hd] at this; cases m <;> simp at this
  | some d =>
    rw [hd] at this
    refine ⟨d, rfl, ?_⟩
    intro k hk
    rw [hk] at this
    simpa using this

/-! ### `healMinOKB` -/

theorem allowedB_spec {t : Table} {o : Opts} {e : Int × Int} (h : allowedB t o e = true) :
    ∃ c, ceOf t e = some c ∧ Allowed t o c := by
  unfold allowedB at h
  unfold ceOf
  cases ha : find? t e.1 with
  | none => simp [ha] at h
  | some a =>
    cases hb : find? t e.2 with
    | none => simp [ha, hb] at h
    | some b =>
      simp only [ha, hb, Bool.and_eq_true, bne_iff_ne, ne_eq] at h
      obtain ⟨⟨⟨ca, cb⟩, hne⟩, hw⟩ := h
      exact ⟨_, rfl, ⟨⟨a, (mem_of_find? ha).1, b, (mem_of_find? hb).1, ca, cb, rfl, rfl, rfl⟩, hne, hw⟩⟩

theorem healMinOKB_sound {t u : Table} (hw : WF t) {o : Opts} (h : healMinOKB t u o = true) :
    (∀ e ∈ newCE t u, Allowed t o e) ∧ (newCE t u).length = (newEdges t u).length ∧
    ((newCE t u).map (·.d2)).Perm ((healAdded t o).map (·.d2)) ∧
    ∀ (T : List CEdge), (∀ e ∈ T, Allowed t o e) → (∀ c ∈ quotientEdges t o, Conn (qE T) c.fa c.fb) →
      ∀ w : Nat → Nat, (∀ x y, x ≤ y → w x ≤ w y) →
        ((newCE t u).map fun e => w e.d2).sum ≤ (T.map fun e => w e.d2).sum := by
  unfold healMinOKB at h
  simp only [Bool.and_eq_true, List.all_eq_true] at h
  obtain ⟨h1, h2⟩ := h
  have hp := List.isPerm_iff.mp h2
  refine ⟨?_, ?_, hp, ?_⟩
  · intro c hc
    unfold newCE at hc
    obtain ⟨e, he, hce⟩ := List.mem_filterMap.mp hc
    obtain ⟨c', hc', hal⟩ := allowedB_spec (h1 e he)
    rw [hc'] at hce
    cases hce
    exact hal
  · unfold newCE
    apply length_filterMap_of_isSome
    intro e he
    obtain ⟨c', hc', _⟩ := allowedB_spec (h1 e he)
    simp [hc']
  · intro T hT hspan w hmono
    have hs : ((newCE t u).map fun e => w e.d2).sum = ((healAdded t o).map fun e => w e.d2).sum := by
      have := (hp.map w).sum_nat
      simpa [List.map_map, Function.comp_def] using this
    rw [hs]
    exact healAdded_minimal hw o T hT hspan w hmono

/-! ### stitch checker -/

/-- One admissible id map: injective on the input's ids, fixes root markers, identity on the master. -/
structure MapOK (mIx j : Nat) (s : Skel) (m : List (Int × Int)) : Prop where
  inj : ∀ a ∈ ids s.nodes, ∀ b ∈ ids s.nodes, remapId m a = remapId m b → a = b
  neg : ∀ a, a < 0 → remapId m a = a
  master : j = mIx → ∀ a ∈ ids s.nodes, remapId m a = a

theorem mapOKB_sound {mIx j : Nat} {s : Skel} {m : List (Int × Int)} (h : mapOKB mIx j s m = true) :
    MapOK mIx j s m := by
  unfold mapOKB at h
  simp only [Bool.and_eq_true, List.all_eq_true, decide_eq_true_eq, Bool.or_eq_true, bne_iff_ne, ne_eq,
    beq_iff_eq] at h
  obtain ⟨⟨h1, h2⟩, h3⟩ := h
  refine ⟨inj_of_nodup_map h2, ?_, ?_⟩
  · intro a ha
    unfold remapId lookupD
    have : m.find? (fun e => e.1 == a) = none := by
      apply List.find?_eq_none.mpr
      intro p hp
      have := h1 p hp
      simp only [beq_iff_eq]
      omega
    rw [this]
  · intro hj a ha
    rcases h3 with h3 | h3
    · exact absurd hj h3
    · exact h3 a ha

theorem mapsOKB_sound (mIx : Nat) : ∀ (j0 : Nat) (l : List Skel) (maps : List (List (Int × Int))),
    mapsOKB mIx j0 l maps = true →
    maps.length = l.length ∧ ∀ k s m, l[k]? = some s → maps[k]? = some m → MapOK mIx (j0 + k) s m
  | _, [], [], _ => ⟨rfl, by intro k s m hs; simp at hs⟩
  | _, [], _ :: _, h => by simp [mapsOKB] at h
  | _, _ :: _, [], h => by simp [mapsOKB] at h
  | j0, s0 :: l, m0 :: maps, h => by
    unfold mapsOKB at h
    simp only [Bool.and_eq_true] at h
    obtain ⟨ih1, ih2⟩ := mapsOKB_sound mIx (j0 + 1) l maps h.2
    refine ⟨by simp [ih1], ?_⟩
    intro k s m hs hm
    cases k with
    | zero =>
      simp at hs hm
      subst hs; subst hm
      exact mapOKB_sound h.1
    | succ k =>
      have := ih2 k s m (by simpa using hs) (by simpa using hm)
      have e : j0 + 1 + k = j0 + (k + 1) := by omega
      rw [e] at this
      exact this

theorem mem_remapAll : ∀ {l : List Skel} {maps : List (List (Int × Int))} {k : Nat} {s : Skel} {m : List (Int × Int)},
    l[k]? = some s → maps[k]? = some m → remapSkel m s ∈ remapAll l maps
  | [], _, _, _, _, hs, _ => by simp at hs
  | _ :: _, [], _, _, _, _, hm => by simp at hm
  | s0 :: l, m0 :: maps, 0, s, m, hs, hm => by
    simp at hs hm; subst hs; subst hm
    simp [remapAll]
  | s0 :: l, m0 :: maps, k + 1, s, m, hs, hm => by
    have := mem_remapAll (l := l) (maps := maps) (k := k) (by simpa using hs) (by simpa using hm)
    unfold remapAll at this ⊢
    simp only [List.zip_cons_cons, List.map_cons]
    exact List.mem_cons_of_mem _ this

/-- What the stitch checker establishes (`fused = false`: `method='NONE'` / `combine_neurons`). -/
theorem stitchOKWith_sound {l : List Skel} {maps : List (List (Int × Int))} {mIx : Nat} {out : Skel}
    {md : Option Nat} (h : stitchOKWith l maps mIx out false md = true) :
    (ids out.nodes).Nodup ∧ maps.length = l.length ∧
    (∀ k s m, l[k]? = some s → maps[k]? = some m → MapOK mIx k s m) ∧
    (out.nodes.map nkey).Perm (((remapAll l maps).flatMap (·.nodes)).map nkey) ∧
    out.conns.Perm ((remapAll l maps).flatMap (·.conns)) ∧
    (tagPairs out.tags).Perm (tagPairs ((remapAll l maps).flatMap (·.tags))) := by
  unfold stitchOKWith at h
  simp only [Bool.and_eq_true, decide_eq_true_eq, Bool.false_eq_true, if_false] at h
  obtain ⟨⟨⟨⟨h1, h2⟩, h3⟩, h4⟩, h5⟩ := h
  obtain ⟨hl, hm⟩ := mapsOKB_sound mIx 0 l maps h2
  refine ⟨h1, hl, ?_, List.isPerm_iff.mp h3, List.isPerm_iff.mp h4, List.isPerm_iff.mp h5⟩
  intro k s m hs hmm
  have := hm k s m hs hmm
  rwa [Nat.zero_add] at this

/-- … and for `method ≠ 'NONE'`: the node table is an admissible healing of the remapped inputs. -/
theorem stitchOKWith_sound_fused {l : List Skel} {maps : List (List (Int × Int))} {mIx : Nat} {out : Skel}
    {md : Option Nat} (h : stitchOKWith l maps mIx out true md = true) :
    (ids out.nodes).Nodup ∧ maps.length = l.length ∧
    (∀ k s m, l[k]? = some s → maps[k]? = some m → MapOK mIx k s m) ∧
    healOKPB ((remapAll l maps).flatMap (·.nodes)) out.nodes md = true ∧
    out.conns.Perm ((remapAll l maps).flatMap (·.conns)) ∧
    (tagPairs out.tags).Perm (tagPairs ((remapAll l maps).flatMap (·.tags))) := by
  unfold stitchOKWith at h
  simp only [Bool.and_eq_true, decide_eq_true_eq, if_true] at h
  obtain ⟨⟨⟨⟨h1, h2⟩, h3⟩, h4⟩, h5⟩ := h
  obtain ⟨hl, hm⟩ := mapsOKB_sound mIx 0 l maps h2
  refine ⟨h1, hl, ?_, h3, List.isPerm_iff.mp h4, List.isPerm_iff.mp h5⟩
  intro k s m hs hmm
  have := hm k s m hs hmm
  rwa [Nat.zero_add] at this

/-- Every row / connector / tag entry of every input is found, remapped, in the combined tables. -/
theorem stitch_input_present {l : List Skel} {maps : List (List (Int × Int))} {out : Skel}
    (hn : (out.nodes.map nkey).Perm (((remapAll l maps).flatMap (·.nodes)).map nkey))
    (hc : out.conns.Perm ((remapAll l maps).flatMap (·.conns)))
    (ht : (tagPairs out.tags).Perm (tagPairs ((remapAll l maps).flatMap (·.tags))))
    {k : Nat} {s : Skel} {m : List (Int × Int)} (hs : l[k]? = some s) (hm : maps[k]? = some m) :
    (∀ n ∈ s.nodes, (remapId m n.id, remapId m n.parent, n.x, n.y, n.z) ∈ out.nodes.map nkey) ∧
    (∀ c ∈ s.conns, (c.1, remapId m c.2) ∈ out.conns) ∧
    (∀ tg ∈ s.tags, ∀ i ∈ tg.2, (tg.1, remapId m i) ∈ tagPairs out.tags) := by
  have hmem := mem_remapAll hs hm
  refine ⟨?_, ?_, ?_⟩
  · intro n hn'
    apply hn.mem_iff.mpr
    apply List.mem_map.mpr
    refine ⟨remapNode m n, List.mem_flatMap.mpr ⟨_, hmem, ?_⟩, rfl⟩
    exact List.mem_map.mpr ⟨n, hn', rfl⟩
  · intro c hc'
    apply hc.mem_iff.mpr
    exact List.mem_flatMap.mpr ⟨_, hmem, List.mem_map.mpr ⟨c, hc', rfl⟩⟩
  · intro tg htg i hi
    apply ht.mem_iff.mpr
    unfold tagPairs
    apply List.mem_flatMap.mpr
    refine ⟨(tg.1, tg.2.map (remapId m)), List.mem_flatMap.mpr ⟨_, hmem, List.mem_map.mpr ⟨tg, htg, rfl⟩⟩, ?_⟩
    exact List.mem_map.mpr ⟨remapId m i, List.mem_map.mpr ⟨i, hi, rfl⟩, rfl⟩

end Navis.Heal
