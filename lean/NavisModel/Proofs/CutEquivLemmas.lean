import NavisModel.Model.CutVariants
import NavisModel.Proofs.SegmentLemmas
/-!
Helper lemmas for C04 `cut_bfs_eq_decompose`: the undirected reachability closure `componentOf`
(invariants, one-step completeness, monotonicity in the fuel), and the two inclusions between
`distalByDecompose` (component of the cut node after deleting the edge to its parent) and `distalSet`
(descendants-or-self).  Core Lean only.
-/
namespace Navis.CutEquiv
open Navis.Forest

/-! ### one edge, one sweep -/

/-- The fold step of `growOnce`. -/
def gstep (acc : List Int) (e : Int × Int) : List Int :=
  if acc.contains e.1 && !acc.contains e.2 then acc ++ [e.2]
  else if acc.contains e.2 && !acc.contains e.1 then acc ++ [e.1]
  else acc

theorem growOnce_eq (es : List (Int × Int)) (seen : List Int) : growOnce es seen = es.foldl gstep seen := rfl

theorem gstep_mono {acc : List Int} {e : Int × Int} {x : Int} (h : x ∈ acc) : x ∈ gstep acc e := by
  unfold gstep
  split
  · exact List.mem_append_left _ h
  · split
    · exact List.mem_append_left _ h
    · exact h

theorem gstep_fwd {acc : List Int} {e : Int × Int} (h : e.1 ∈ acc) : e.2 ∈ gstep acc e := by
  unfold gstep
  by_cases h2 : e.2 ∈ acc
  · exact gstep_mono h2
  · simp [h, h2]

theorem gstep_bwd {acc : List Int} {e : Int × Int} (h : e.2 ∈ acc) : e.1 ∈ gstep acc e := by
  unfold gstep
  by_cases h2 : e.1 ∈ acc
  · exact gstep_mono h2
  · simp [h, h2]

/-- A new element comes from an edge with the other end already present. -/
theorem gstep_inv {P : Int → Prop} {acc : List Int} {e : Int × Int} (hacc : ∀ x ∈ acc, P x)
    (he : (P e.1 → P e.2) ∧ (P e.2 → P e.1)) : ∀ x ∈ gstep acc e, P x := by
  intro x hx
  unfold gstep at hx
  split at hx
  · rename_i hc
    rcases List.mem_append.mp hx with h | h
    · exact hacc x h
    · have h1 : e.1 ∈ acc := by
        simp only [Bool.and_eq_true, List.contains_eq_mem, decide_eq_true_eq] at hc; exact hc.1
      simp only [List.mem_singleton] at h
      rw [h]; exact he.1 (hacc _ h1)
  · split at hx
    · rename_i _ hc
      rcases List.mem_append.mp hx with h | h
      · exact hacc x h
      · have h1 : e.2 ∈ acc := by
          simp only [Bool.and_eq_true, List.contains_eq_mem, decide_eq_true_eq] at hc; exact hc.1
        simp only [List.mem_singleton] at h
        rw [h]; exact he.2 (hacc _ h1)
    · exact hacc x hx

theorem growOnce_mono {es : List (Int × Int)} {seen : List Int} {x : Int} (h : x ∈ seen) : x ∈ growOnce es seen := by
  rw [growOnce_eq]
  induction es generalizing seen with
  | nil => exact h
  | cons e es ih => exact ih (gstep_mono h)

/-- **One-step completeness**: an edge with one end in the set has both ends in the set after a sweep. -/
theorem growOnce_step {es : List (Int × Int)} {seen : List Int} {e : Int × Int} (he : e ∈ es) :
    (e.1 ∈ seen → e.2 ∈ growOnce es seen) ∧ (e.2 ∈ seen → e.1 ∈ growOnce es seen) := by
  rw [growOnce_eq]
  induction es generalizing seen with
  | nil => simp at he
  | cons a es ih =>
    rcases List.mem_cons.mp he with h | h
    · subst h
      exact ⟨fun h1 => growOnce_mono (es := es) (gstep_fwd h1), fun h2 => growOnce_mono (es := es) (gstep_bwd h2)⟩
    · exact ⟨fun h1 => (ih h).1 (gstep_mono h1), fun h2 => (ih h).2 (gstep_mono h2)⟩

/-- **Soundness of a sweep**: a property carried across every edge (in both directions) is an invariant. -/
theorem growOnce_inv {P : Int → Prop} {es : List (Int × Int)} {seen : List Int} (hs : ∀ x ∈ seen, P x)
    (he : ∀ e ∈ es, (P e.1 → P e.2) ∧ (P e.2 → P e.1)) : ∀ x ∈ growOnce es seen, P x := by
  rw [growOnce_eq]
  induction es generalizing seen with
  | nil => exact hs
  | cons a es ih =>
    exact ih (gstep_inv hs (he a (by simp))) (fun e h => he e (by simp [h]))

/-! ### the closure -/

theorem seed_mem_componentOf (es : List (Int × Int)) (f : Nat) (s : Int) : s ∈ componentOf es f s := by
  induction f with
  | zero => simp [componentOf]
  | succ f ih => exact growOnce_mono ih

theorem componentOf_mono {es : List (Int × Int)} {f g : Nat} {s x : Int} (hfg : f ≤ g) (h : x ∈ componentOf es f s) :
    x ∈ componentOf es g s := by
  induction g with
  | zero => have : f = 0 := by omega
            subst this; exact h
  | succ g ih =>
    by_cases hfg' : f ≤ g
    · exact growOnce_mono (ih hfg')
    · have : f = g + 1 := by omega
      subst this; exact h

theorem componentOf_inv {P : Int → Prop} {es : List (Int × Int)} {s : Int} (hs : P s)
    (he : ∀ e ∈ es, (P e.1 → P e.2) ∧ (P e.2 → P e.1)) : ∀ f, ∀ x ∈ componentOf es f s, P x := by
  intro f
  induction f with
  | zero => intro x hx; simp [componentOf] at hx; rw [hx]; exact hs
  | succ f ih => exact growOnce_inv ih he

theorem componentOf_step {es : List (Int × Int)} {f : Nat} {s : Int} {e : Int × Int} (he : e ∈ es) :
    (e.1 ∈ componentOf es f s → e.2 ∈ componentOf es (f + 1) s) ∧
    (e.2 ∈ componentOf es f s → e.1 ∈ componentOf es (f + 1) s) := growOnce_step he

theorem gstep_nodup {acc : List Int} {e : Int × Int} (h : acc.Nodup) : (gstep acc e).Nodup := by
  unfold gstep
  split
  · rename_i hc
    simp only [Bool.and_eq_true, List.contains_eq_mem, decide_eq_true_eq, Bool.not_eq_true',
      decide_eq_false_iff_not] at hc
    exact List.nodup_append.mpr ⟨h, by simp, fun a ha b hb => by
      simp only [List.mem_singleton] at hb; rw [hb]; intro hab; exact hc.2 (hab ▸ ha)⟩
  · split
    · rename_i _ hc
      simp only [Bool.and_eq_true, List.contains_eq_mem, decide_eq_true_eq, Bool.not_eq_true',
        decide_eq_false_iff_not] at hc
      exact List.nodup_append.mpr ⟨h, by simp, fun a ha b hb => by
        simp only [List.mem_singleton] at hb; rw [hb]; intro hab; exact hc.2 (hab ▸ ha)⟩
    · exact h

theorem growOnce_nodup {es : List (Int × Int)} {seen : List Int} (h : seen.Nodup) : (growOnce es seen).Nodup := by
  rw [growOnce_eq]
  induction es generalizing seen with
  | nil => exact h
  | cons e es ih => exact ih (gstep_nodup h)

/-- The closure never lists a node twice. -/
theorem componentOf_nodup (es : List (Int × Int)) (f : Nat) (s : Int) : (componentOf es f s).Nodup := by
  induction f with
  | zero => simp [componentOf]
  | succ f ih => exact growOnce_nodup ih

/-! ### the edge list without one edge -/

theorem mem_edgesWithout {t : Table} {c p : Int} {e : Int × Int} :
    e ∈ edgesWithout t c p ↔ e ∈ edges t ∧ e ≠ (c, p) := by
  unfold edgesWithout
  simp [List.mem_filter]

theorem nodup_of_map {α β : Type} (f : α → β) {l : List α} (h : (l.map f).Nodup) : l.Nodup := by
  have := List.pairwise_map.mp h
  exact this.imp (fun {a b} (hne : f a ≠ f b) (heq : a = b) => hne (by rw [heq]))

/-! ### descendants are connected to the cut node without the deleted edge -/

/-- Walking down from `c`: a node whose root path reads `pre ++ c :: post` is reached within
`|pre|` sweeps, using one distinct remaining edge per node of `pre`. -/
theorem desc_reach {t : Table} (hw : WF t) (c p : Int) (post : List Int) :
    ∀ (pre : List Int) (d : Int), rootPath t d = pre ++ c :: post →
      d ∈ componentOf (edgesWithout t c p) pre.length c ∧
      ∃ L : List (Int × Int), L.map Prod.fst = pre ∧ ∀ e ∈ L, e ∈ edgesWithout t c p := by
  intro pre
  induction pre with
  | nil =>
    intro d hd
    have hdm : d ∈ ids t := by
      cases hf : find? t d with
      | none => rw [rootPath_absent hf] at hd; simp at hd
      | some n => exact mem_ids.mpr ⟨n, find?_some hf⟩
    obtain ⟨rest, hr⟩ := rootPath_cons hdm
    rw [hr] at hd
    simp only [List.nil_append, List.cons.injEq] at hd
    rw [hd.1]
    exact ⟨seed_mem_componentOf _ _ _, [], rfl, fun e he => by simp at he⟩
  | cons x pre ih =>
    intro d hd
    cases hf : find? t d with
    | none => rw [rootPath_absent hf] at hd; simp at hd
    | some n =>
      obtain ⟨hn, hnid⟩ := find?_some hf
      have hdm : d ∈ ids t := mem_ids.mpr ⟨n, hn, hnid⟩
      by_cases hp : n.parent < 0
      · rw [rootPath_of_root hf hp] at hd
        have := congrArg List.length hd
        simp at this
      · have hnd := rootPath_nodup hw d
        rw [rootPath_of_nonroot hw hf hp] at hd
        simp only [List.cons_append, List.cons.injEq] at hd
        obtain ⟨hdx, hrest⟩ := hd
        obtain ⟨ihm, L, hL1, hL2⟩ := ih n.parent hrest
        -- `d ≠ c`: otherwise `c` would occur twice on the root path of `d`
        have hdc : d ≠ c := by
          intro hdc
          rw [rootPath_of_nonroot hw hf hp, hrest, List.nodup_cons] at hnd
          exact hnd.1 (by rw [hdc]; simp)
        have hedge : (d, n.parent) ∈ edgesWithout t c p := by
          refine mem_edgesWithout.mpr ⟨mem_edges.mpr ⟨n, hn, hp, by rw [hnid]⟩, ?_⟩
          intro he
          simp only [Prod.mk.injEq] at he
          exact hdc he.1
        refine ⟨?_, (d, n.parent) :: L, by simp [hL1, hdx], ?_⟩
        · exact (componentOf_step hedge).2 ihm
        · intro e he
          rcases List.mem_cons.mp he with h | h
          · rw [h]; exact hedge
          · exact hL2 e h

/-- `distalSet ⊆ distalByDecompose`: every descendant-or-self of `c` is in the component of `c`. -/
theorem distal_sub_decompose {t : Table} (hw : WF t) {c i : Int} (h : i ∈ distalSet t c) :
    i ∈ distalByDecompose t c := by
  obtain ⟨hi, hc⟩ := mem_distalSet.mp h
  have hcm : c ∈ ids t := rootPath_sub hc
  obtain ⟨nc, hnc, hncid⟩ := mem_ids.mp hcm
  have hfc := find?_of_mem hw.1 hnc
  rw [hncid] at hfc
  have hpar : parentOf t c = some nc.parent := by unfold parentOf; rw [hfc]; rfl
  unfold distalByDecompose
  rw [hpar]
  obtain ⟨pre, post, hsplit⟩ := List.append_of_mem hc
  obtain ⟨hreach, L, hL1, hL2⟩ := desc_reach hw c nc.parent post pre i hsplit
  have hpre : pre.Nodup := by
    have := rootPath_nodup hw i
    rw [hsplit] at this
    exact (List.nodup_append.mp this).1
  have hLn : L.Nodup := nodup_of_map Prod.fst (by rw [hL1]; exact hpre)
  have hlen : L.length ≤ (edgesWithout t c nc.parent).length :=
    List.Nodup.length_le_of_subset hLn (fun e he => hL2 e he)
  have hlen' : pre.length = L.length := by rw [← hL1]; simp
  exact componentOf_mono (by omega) hreach

/-- `distalByDecompose ⊆ distalSet`: without the edge to `c`'s parent nothing but descendants of `c`
can be reached — every remaining edge joins a node to its parent, and being distal to `c` is carried
across it in both directions. -/
theorem decompose_sub_distal {t : Table} (hw : WF t) {c i : Int} (h : i ∈ distalByDecompose t c) :
    i ∈ distalSet t c := by
  unfold distalByDecompose at h
  cases hpar : parentOf t c with
  | none => rw [hpar] at h; simp at h
  | some p =>
    rw [hpar] at h
    simp only at h
    unfold parentOf at hpar
    cases hfc : find? t c with
    | none => rw [hfc] at hpar; simp at hpar
    | some nc =>
      rw [hfc] at hpar
      simp only [Option.map_some, Option.some.injEq] at hpar
      obtain ⟨hnc, hncid⟩ := find?_some hfc
      have hcm : c ∈ ids t := mem_ids.mpr ⟨nc, hnc, hncid⟩
      refine mem_distalSet.mpr (componentOf_inv (P := fun x => x ∈ ids t ∧ c ∈ rootPath t x)
        ⟨hcm, rootPath_head_mem hcm⟩ ?_ _ i h)
      intro e he
      obtain ⟨hed, hne⟩ := mem_edgesWithout.mp he
      obtain ⟨n, hn, hnp, rfl⟩ := mem_edges.mp hed
      have hfn := find?_of_mem hw.1 hn
      constructor
      · rintro ⟨_, h2⟩
        have hidc : n.id ≠ c := by
          intro hid
          rw [hid, hfc] at hfn
          simp only [Option.some.injEq] at hfn
          apply hne
          rw [← hfn, hncid, hpar]
        exact ⟨WF_parent_mem hw hn hnp, (distal_iff_parent hw hn hnp hidc).mp h2⟩
      · rintro ⟨_, h2⟩
        refine ⟨mem_ids_of_mem hn, ?_⟩
        show c ∈ rootPath t n.id
        rw [rootPath_of_nonroot hw hfn hnp]
        exact List.mem_cons_of_mem _ h2

end Navis.CutEquiv
